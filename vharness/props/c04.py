"""C04 — released noise is fresh isotropic Gaussian with std sigma × max_grad_norm, once per logical step.

Obligations (Lean): `noise_once_per_logical_step`, `noise_block_values`, `no_noise_unless_full_step`
(every op sequence of the protocol machine, both optimizer kinds), `noise_zero_when_std_zero`,
`genReqs_shape`, `addNoise_all_std`, `combine_secure`, `combine_plain` (model of `_generate_noise` /
`add_noise`), and `secure_mode_variance` (Mathlib: the law of (X₁+X₂+X₃+X₄)/2 for independent N(0,v)
draws is N(0,v)).

Correspondence: (a) the request log of the patched `torch.normal` — (std, shape) of every call, in
order — of one `add_noise()` of the real DPOptimizer / DPPerLayerOptimizer /
DPOptimizerFastGradientClipping / DistributedDPOptimizer (rank patched) on multi-parameter models,
plain and secure mode, vs `addNoiseReqs` (driver C04, Float); (b) noise events of whole histories
(skip signals, scheduler writes, sigma = 0) through the protocol machine (driver Engine).

Oracle (real code only): noise value = the draws combined as specified ((d1+d2+d3+d4)/2 in secure
mode), divided by the same factor as the signal; same generator state ⇒ same noise, consecutive steps
and different parameters get different draws; exactly zero when sigma = 0; the generator handed to
torch.normal is the user's generator for every optimizer class; across W simulated ranks one block.
Statistical smoke numbers (mean/std of pooled real draws) are reported in the evidence, never judged.
"""
from __future__ import annotations

import math

import torch
import torch.nn as nn

from .. import core, rig
from ..core import f2h, h2f
from . import engine_check as EC
from . import engine_rig as E

PID = "C04"
MODULES = ["OpacusLean.Props.C04"]
THEOREMS = [
    "Opacus.C04.noise_once_per_logical_step",
    "Opacus.C04.noise_block_values",
    "Opacus.C04.no_noise_unless_full_step",
    "Opacus.C04.noise_zero_when_std_zero",
    "Opacus.C04.genReqs_shape",
    "Opacus.C04.addNoise_all_std",
    "Opacus.C04.combine_secure",
    "Opacus.C04.combine_plain",
    "Opacus.C04.secure_mode_variance",
    "Opacus.C04.hook_noise_on_logical_batch_ends",
    "Opacus.PeekQueue.run_from",
    # the tie to the source: Generated/ReleaseArith.lean is re-translated from opacus/optimizers/*.py on every run
    "Opacus.C04.generated_noise_std_eq_model",
]
RULE = (
    "request-log cases = (optimizer class, sigma, C or per-layer Cs, secure?, parameter shapes of a generated model) from VERIF_SEED; non-trivial iff sigma ≠ 0 and ≥ 2 parameters; "
    "history cases = op sequences with skip signals / sigma writes through the protocol machine; non-trivial iff a skipped step and a released step both occur; distinct by the whole tuple"
)
TRUSTED = [
    "the translator vharness/props/release_trans.py (Python `ast` -> real arithmetic for the `std=` argument of the two gradient-noise `_generate_noise` calls, which must also pass `generator=self.generator`; counts the `_generate_noise(reference=<summed_grad>)` sites under opacus/optimizers; anything else is reported as a broken tie) is trusted to render those expressions faithfully; the body of _generate_noise itself is tied by the request-log correspondence (a syntactic rendering would alarm on wrapper helpers)",
    "torch.normal draws i.i.d. N(0, std²) values per call and per coordinate, deterministically in the generator state (PRNG law and independence across calls are not expressible in an executable model)",
    "PrivacyEngine(secure_mode=True) needs torchcsprng (absent in this sandbox): the secure path is exercised at optimizer level (secure_mode=True with a torch.Generator)",
    "DPPerLayerOptimizer computes its joint bound with a float32 torch.norm; compared to 1e-6 relative",
]
PARTIAL = [
    "that the released noise IS Gaussian and independent across steps/parameters is trusted PRNG behaviour; proved/checked: one fresh request block per logical step with the right std, shapes and generator, combined as specified",
]


def make_model(rng):
    kind = rng.choice(["lin", "lin_bias", "mlp", "conv"])
    if kind == "lin":
        return nn.Linear(rng.randint(2, 5), rng.randint(1, 4), bias=False), lambda b: torch.randn(b, m_in(kind))
    return None


def build(rng):
    kind = rng.choice(["lin", "lin_bias", "mlp", "conv", "emb"])
    B = rng.randint(1, 4)
    if kind == "lin":
        i, o = rng.randint(2, 5), rng.randint(1, 4)
        return nn.Linear(i, o, bias=False), torch.randn(B, i)
    if kind == "lin_bias":
        i, o = rng.randint(2, 5), rng.randint(1, 4)
        return nn.Linear(i, o), torch.randn(B, i)
    if kind == "mlp":
        i, h, o = rng.randint(2, 4), rng.randint(2, 4), rng.randint(1, 3)
        return nn.Sequential(nn.Linear(i, h), nn.Tanh(), nn.Linear(h, o, bias=False)), torch.randn(B, i)
    if kind == "conv":
        c, k = rng.randint(1, 3), rng.randint(1, 3)
        return nn.Sequential(nn.Conv1d(c, 2, k), nn.Flatten(), nn.Linear(2 * (6 - k + 1), 2)), torch.randn(B, c, 6)
    v, e = rng.randint(3, 6), rng.randint(2, 4)
    return nn.Sequential(nn.Embedding(v, e), nn.Flatten(), nn.Linear(e * 3, 2)), torch.randint(0, v, (B, 3))


def one_add_noise(cls_name, model, x, sigma, clip, secure, gen, rank=0):
    """one forward/backward + pre_step on the real objects; returns (log.calls, info dict)"""
    import opacus.optimizers as O
    from opacus import GradSampleModule
    from opacus.optimizers.ddpoptimizer import DistributedDPOptimizer
    from opacus.optimizers.optimizer_fast_gradient_clipping import DPOptimizerFastGradientClipping

    params = [p for p in model.parameters() if p.requires_grad]
    inner = torch.optim.SGD(params, lr=0.1)
    kw = dict(noise_multiplier=sigma, expected_batch_size=2, loss_reduction="mean", generator=gen, secure_mode=secure)
    if cls_name == "perlayer":
        gsm = GradSampleModule(model)
        opt = O.DPPerLayerOptimizer(inner, max_grad_norm=clip, **kw)
    elif cls_name == "ghost":
        from opacus.grad_sample.grad_sample_module_fast_gradient_clipping import GradSampleModuleFastGradientClipping
        from opacus.utils.fast_gradient_clipping_utils import DPLossFastGradientClipping
        gsm = GradSampleModuleFastGradientClipping(model, max_grad_norm=clip, use_ghost_clipping=True)
        opt = DPOptimizerFastGradientClipping(inner, max_grad_norm=clip, **kw)
    elif cls_name in ("ddp", "ddpsimple"):
        import torch.distributed as dist
        from opacus.optimizers.ddp_perlayeroptimizer import SimpleDistributedPerLayerOptimizer
        old = (dist.get_rank, dist.get_world_size)
        dist.get_rank, dist.get_world_size = (lambda *a, **k: rank), (lambda *a, **k: 3)
        try:
            gsm = GradSampleModule(model)
            opt = (DistributedDPOptimizer if cls_name == "ddp" else SimpleDistributedPerLayerOptimizer)(inner, max_grad_norm=clip, **kw)
        finally:
            dist.get_rank, dist.get_world_size = old
    else:
        gsm = GradSampleModule(model)
        opt = O.DPOptimizer(inner, max_grad_norm=clip, **kw)
    out = gsm(x)
    if cls_name == "ghost":
        crit = DPLossFastGradientClipping(gsm, opt, E.OutCriterion("mean"), loss_reduction="mean")
        with rig.patched_normal("count") as log0:
            crit(out, None).backward()
        assert not log0.calls
    else:
        out.flatten(1).sum(1).mean().backward()
    with rig.patched_normal("count") as log:
        opt.accumulate() if cls_name == "ghost" else opt.clip_and_accumulate()
        summed = [p.summed_grad.clone() for p in params]
        opt.add_noise()
        noised = [p.grad.clone() for p in params]
        opt.scale_grad()
        scaled = [p.grad.clone() for p in params]
    return log.calls, dict(params=params, summed=summed, noised=noised, scaled=scaled, opt=opt)


def expected_value_check(calls, info, secure, sigma_clip_zero):
    """oracle: noise value = draws combined as specified; scaled by the same factor as the signal"""
    k = 0
    for p, s, nz, sc in zip(info["params"], info["summed"], info["noised"], info["scaled"]):
        if sigma_clip_zero:
            want = 0.0
        elif secure:
            ids = list(range(k + 2, k + 6))   # first call discarded
            want = sum(ids) / 2.0
            k += 5
        else:
            want = float(k + 1)
            k += 1
        got = (nz - s.view_as(nz))
        if not torch.allclose(got, torch.full_like(got, want), rtol=0, atol=1e-9):
            return f"noise value on parameter of shape {tuple(p.shape)}: got {got.flatten()[:3].tolist()}, expected constant {want} from the call-numbered draws"
        if not torch.allclose(sc * 2, nz, rtol=1e-12, atol=1e-12):   # expected_batch_size = 2, one accumulated batch
            return "released gradient is not (clipped sum + noise) / expected_batch_size"
    return None


def request_cases(ctx):
    # "ddpsimple" = SimpleDistributedPerLayerOptimizer (per-layer clipping under DDP, MRO DPPerLayerOptimizer → DistributedDPOptimizer):
    # the rank-0 gate of DistributedDPOptimizer.add_noise must survive the multiple inheritance (seeded C04-g)
    classes = ["flat", "flat", "perlayer", "ghost", "ddp", "ddpsimple", "flat", "perlayer", "ddp", "ddpsimple"]
    cases = []
    for i in range(ctx.n(80, 1200)):
        cls = classes[i % len(classes)]
        sigma = ctx.rng.choice([0.0, 0.5, 1.0, 1.3, 2.0])
        secure = ctx.rng.random() < 0.4
        clip = ctx.rng.choice([0.5, 1.0, 3.0])
        rank = ctx.rng.choice([0, 0, 1, 2]) if cls in ("ddp", "ddpsimple") else 0
        torch.manual_seed(ctx.rng.randrange(1 << 30))
        model, x = build(ctx.rng)
        if cls == "ghost" and any(isinstance(m, (nn.Conv1d,)) for m in model.modules()):
            cls = "flat"
        nparams = len([p for p in model.parameters() if p.requires_grad])
        clips = [ctx.rng.choice([0.5, 1.0, 2.0]) for _ in range(nparams)] if cls in ("perlayer", "ddpsimple") else clip
        cases.append(dict(cls=cls, sigma=sigma, secure=secure, clip=clips, rank=rank, model=model, x=x))
    lines = []
    for c in cases:
        shapes = [tuple(p.shape) for p in c["model"].parameters() if p.requires_grad]
        if c["cls"] in ("perlayer", "ddpsimple"):
            cl = float(torch.norm(torch.Tensor(c["clip"]), p=2).item())
        else:
            cl = c["clip"]
        c["eff_clip"], c["shapes"] = cl, shapes
        sig = c["sigma"] if not (c["cls"] in ("ddp", "ddpsimple") and c["rank"] != 0) else 0.0   # non-zero ranks add no noise
        lines.append(f"reqs {f2h(sig)} {f2h(cl)} {int(c['secure'])} {len(shapes)} " + " ".join(f"{len(s)} " + " ".join(map(str, s)) for s in shapes))
    replies = ctx.lean_driver("C04", lines)
    gen = torch.Generator().manual_seed(7)
    for c, rep in zip(cases, replies):
        calls, info = one_add_noise(c["cls"], c["model"], c["x"], c["sigma"], c["clip"], c["secure"], gen, c["rank"])
        impl = " ".join(f"{f2h(std)}:{'x'.join(map(str, size))}" for (std, size, g) in calls) or "none"
        desc = {k: c[k] for k in ("cls", "sigma", "secure", "clip", "rank", "shapes")}
        ctx.case(("req", c["cls"], c["sigma"], c["secure"], str(c["clip"]), c["rank"], tuple(c["shapes"])), nontrivial=c["sigma"] != 0 and len(c["shapes"]) >= 2, sample=desc,
                 kind=f"req:{c['cls']}/{'secure' if c['secure'] else 'plain'}" + ("/sigma0" if c["sigma"] == 0 else ""))
        ok = impl == rep
        if not ok and c["cls"] in ("perlayer", "ddpsimple"):   # float32 joint bound: tolerance on std
            a, b = impl.split(), rep.split()
            ok = len(a) == len(b) and all(x.split(":")[1] == y.split(":")[1] and core.close(h2f(x.split(":")[0]), h2f(y.split(":")[0]), 1e-6) for x, y in zip(a, b))
        # property oracle on the real objects
        res = None
        silent = c["cls"] in ("ddp", "ddpsimple") and c["rank"] != 0
        std_want = 0.0 if silent else c["sigma"] * c["eff_clip"]
        for (std, size, g) in calls:
            if not core.close(std, std_want, 1e-6):
                res = (f"C04:std-not-sigma-times-C:{c['cls']}", f"torch.normal asked for std {std}, sigma × max_grad_norm = {std_want}", {})
            if g != id(gen):
                res = (f"C04:user-generator-ignored:{c['cls']}", "noise drawn from a generator other than the user-supplied one", {})
        nexp = 0 if std_want == 0 else len(c["shapes"]) * (5 if c["secure"] else 1)
        if res is None and len(calls) != nexp:
            res = (f"C04:noise-request-count:{c['cls']}", f"{len(calls)} torch.normal calls for {len(c['shapes'])} parameters (secure={c['secure']}, std={std_want}); expected {nexp}", {})
        if res is None:
            msg = expected_value_check(calls, info, c["secure"], std_want == 0)
            if msg:
                res = (f"C04:noise-value:{c['cls']}", msg, {})
        if res:
            ctx.property_failure(res[0], res[1], dict(res[2], failing_input=desc))
        if ok:
            ctx.validated()
        elif not res:
            ctx.mismatch("add-noise-requests", desc, impl, rep, oracle=None)


def history_cases(ctx):
    cfgs = [("std", False, False, 1.5, 2.0), ("ghost", False, False, 1.5, 2.0), ("std", True, False, 0.0, 2.0)]
    cases = []
    for i in range(ctx.n(60, 800)):
        cfg = cfgs[i % len(cfgs)]
        cases.append((cfg, EC.gen_ops(ctx.rng, cfg, ctx.n(18, 30), sig_vals=(1.5, 0.0, 0.5, 2.0))))

    def on_case(cfg, ops, real, model, diff):
        outs = [EC.parse_line(l)["out"] for l in real[1:]]
        ctx.case(("hist", cfg, tuple(ops)), nontrivial=("released" in outs and "skipped" in outs), sample={"cfg": cfg, "ops": ops}, kind=f"hist:{cfg[0]}")
        if diff is None:
            ctx.validated()
        res = history_oracle(cfg, ops, real)
        if res:
            ctx.property_failure(res[0], res[1], dict(res[2], failing_input={"cfg": cfg, "ops": ops}))

    bad = EC.compare(ctx, cases, on_case)
    for cfg, ops, real, model, diff in bad[:4]:
        ctx.mismatch("engine-noise", {"cfg": cfg, "ops": ops[:diff] if diff else ops, "full_ops": ops}, real[: diff + 1], model[: diff + 1], oracle=case_oracle)


def history_oracle(cfg, ops, real):
    sigma, clip = cfg[3], cfg[4]
    for i, (op, line) in enumerate(zip(ops, real[1:])):
        d = EC.parse_line(line)
        if op[0] == "sigma":
            sigma = E.unbits(op[1])
        if op[0] == "clip":
            clip = E.unbits(op[1])
        ns = [e for e in d["events"] if e.startswith("N:")]
        want = 1 if (d["out"] in ("released", "err:gdp-heterogeneous") and sigma * clip != 0) else 0
        if len(ns) != want:
            return (f"C04:noise-blocks-per-step:{cfg[0]}", f"op #{i} {op} ({d['out']}): {len(ns)} noise requests, expected {want} (sigma={sigma}, C={clip})", {})
        if ns and h2f(ns[0][2:]) != sigma * clip:
            return (f"C04:std-not-in-force:{cfg[0]}", f"op #{i}: noise std {h2f(ns[0][2:])}, in force sigma×C = {sigma * clip}", {})
    return None


def case_oracle(case):
    cfg, ops = tuple(case["cfg"]), [tuple(o) for o in case.get("full_ops") or case["ops"]]
    with rig.default_dtype(torch.float64):
        real = E.run_real(cfg, EC.normalise_ops(cfg, ops))
    res = history_oracle(cfg, ops, real)
    if res:
        res[2]["failing_input"] = {"cfg": cfg, "ops": ops}
    return res


def closure_step_search(ctx):
    """optimizer.step(closure): the DP optimizer evaluates the closure (once), clips, noises, and the wrapped optimizer then
    steps on THAT gradient – the noise drawn for the step is in the update (flat and distributed optimizers)."""
    import torch.distributed as dist
    from opacus import GradSampleModule
    from opacus.optimizers import DPOptimizer
    from opacus.optimizers.ddpoptimizer import DistributedDPOptimizer
    for name in ("DPOptimizer", "DistributedDPOptimizer"):
        torch.manual_seed(5)
        model = nn.Linear(3, 2, bias=False)
        gsm = GradSampleModule(model)
        inner = torch.optim.SGD(model.parameters(), lr=1.0)
        kw = dict(noise_multiplier=1.0, max_grad_norm=1.0, expected_batch_size=2, loss_reduction="mean")
        if name == "DPOptimizer":
            opt = DPOptimizer(inner, **kw)
        else:
            saved = (dist.get_rank, dist.get_world_size, dist.all_reduce)
            dist.get_rank, dist.get_world_size, dist.all_reduce = (lambda *a, **k: 0), (lambda *a, **k: 1), (lambda t, *a, **k: None)
            opt = DistributedDPOptimizer(inner, **kw)
        x = torch.zeros(2, 3)        # zero data: the clipped sum is 0, the released gradient is pure noise
        n_eval = [0]

        def closure():
            n_eval[0] += 1
            opt.zero_grad()
            loss = gsm(x).sum(1).mean()
            loss.backward()
            return loss

        before = model.weight.detach().clone()
        try:
            with rig.patched_normal("count") as log:
                opt.step(closure)
        finally:
            if name != "DPOptimizer":
                dist.get_rank, dist.get_world_size, dist.all_reduce = saved
        delta = (model.weight.detach() - before)
        want = -torch.full_like(before, float(len(log.calls))) / 2.0 if log.calls else None   # lr = 1, E = 2, one draw (its call number) per parameter
        ctx.case(("closure-step", name), nontrivial=True, kind="closure-step:" + name)
        if n_eval[0] != 1 or want is None or not torch.allclose(delta, want):
            ctx.property_failure(f"C04:closure-step:noise-not-in-update:{name}", f"{name}.step(closure): the closure ran {n_eval[0]} time(s), {len(log.calls)} noise tensor(s) were drawn, "
                                 f"the parameters moved by {delta.flatten().tolist()[:3]}… (noise/E expected: {None if want is None else want.flatten().tolist()[:3]}…)",
                                 {"failing_input": {"oracle": "closure-step", "optimizer": name}})
        else:
            ctx.validated()


def ddp_perlayer_queue_search(ctx, only=None):
    """DistributedPerLayerOptimizer adds its noise inside per-parameter backward hooks and only PEEKS at the skip-signal
    queue there (`pre_step` pops it).  With a prefetching loader the BatchSplittingSampler runs ahead, so several
    signals are queued: the hook must read the signal of the CURRENT physical batch (the queue's head) – noise is drawn on
    exactly the physical batches that end a logical batch, one tensor per parameter."""
    import torch.distributed as dist
    from opacus import GradSampleModule
    from opacus.optimizers import DistributedPerLayerOptimizer
    plan = [only] if only else [(ctx.rng.randrange(1 << 30), ctx.rng.choice([0, 1, 2, 3])) for _ in range(ctx.n(6, 40))]
    for seed, ahead in plan:
        import random as _r
        rng = _r.Random(seed)
        sizes = [rng.randint(1, 3) for _ in range(rng.randint(2, 4))]          # physical batches per logical batch
        signals = [b for k in sizes for b in [True] * (k - 1) + [False]]
        torch.manual_seed(3)
        model = nn.Linear(3, 2)
        saved = (dist.get_rank, dist.get_world_size)
        dist.get_rank, dist.get_world_size = (lambda *a, **k: 0), (lambda *a, **k: 1)
        try:
            gsm = GradSampleModule(model)
            opt = DistributedPerLayerOptimizer(torch.optim.SGD(model.parameters(), lr=0.0), noise_multiplier=1.0, max_grad_norm=[1.0, 1.0], expected_batch_size=2)
        finally:
            dist.get_rank, dist.get_world_size = saved
        pushed, draws, sched = 0, [], ""
        for i in range(len(signals)):
            while pushed < len(signals) and pushed <= i + ahead:
                opt.signal_skip_step(do_skip=signals[pushed])
                sched += "T" if signals[pushed] else "F"
                pushed += 1
            sched += "b"
            opt.zero_grad()
            with rig.patched_normal("count") as log:
                gsm(torch.ones(2, 3)).sum(1).mean().backward()
            draws.append(len(log.calls))
            opt.step()
        want = [0 if s else 2 for s in signals]
        # the same schedule through the Lean queue model (Model/PeekQueue.lean, theorem hook_noise_on_logical_batch_ends)
        if hasattr(ctx, "lean_driver"):
            rep = ctx.lean_driver("C04", ["peek " + sched])[0].strip()
            model = [2 * int(ch) for ch in rep] if rep != "none" else []
            if model != draws and draws == want:      # the implementation does what the property says and the model disagrees: model fault
                ctx.mismatch("peek-queue-model", {"schedule": sched}, draws, rep)
        ctx.case(("ddp-perlayer-queue", seed, ahead), nontrivial=ahead > 0 and any(signals), kind=f"ddp-perlayer-queue:ahead={ahead}")
        if draws != want:
            ctx.property_failure("C04:noise-blocks-per-step:ddp-perlayer:queued-signals",
                                 f"DistributedPerLayerOptimizer, physical batches per logical batch {sizes}, sampler {ahead} batches ahead: noise tensors drawn per physical batch {draws}, "
                                 f"expected {want} (only the batch that ends a logical batch is noised)", {"failing_input": {"oracle": "ddp-perlayer-queue", "seed": seed, "ahead": ahead}})
        else:
            ctx.validated()


def engine_generator_search(ctx, only=None):
    """PrivacyEngine.make_private(noise_generator=g): the optimizer draws from g itself, g advances, and a second
    make_private on the same g (training in phases, two optimizers sharing a generator) continues the stream instead of
    replaying it"""
    from opacus import PrivacyEngine
    combos = [("hooks", "flat"), ("functorch", "flat"), ("hooks", "per_layer"), ("ew", "flat"), ("hooks", "adaptive")]
    # both entry points: make_private_with_epsilon must hand the user's generator on as well (seeded C04-h)
    plan = [only] if only else [combos[t % len(combos)] + (ctx.rng.randrange(1 << 30), ["make_private", "make_private_with_epsilon"][(t // len(combos) + t) % 2]) for t in range(ctx.n(10, 30))]
    for item in plan:
        gsm_mode, clipping, seed = item[:3]
        entry = item[3] if len(item) > 3 else "make_private"
        g = torch.Generator().manual_seed(seed)
        state0 = g.get_state().clone()
        pe = PrivacyEngine()
        released = []
        for phase in range(2):
            torch.manual_seed(7)
            model = nn.Linear(4, 3)
            ds = torch.utils.data.TensorDataset(torch.zeros(8, 4), torch.zeros(8, 3))
            dl = torch.utils.data.DataLoader(ds, batch_size=4)
            kw = dict(module=model, optimizer=torch.optim.SGD(model.parameters(), lr=0.0), data_loader=dl, noise_multiplier=1.0, poisson_sampling=False,
                      max_grad_norm=[1.0, 1.0] if clipping == "per_layer" else 1.0, noise_generator=g, grad_sample_mode=gsm_mode, clipping=clipping)
            if clipping == "adaptive":
                kw.update(target_unclipped_quantile=0.5, clipbound_learning_rate=0.2, max_clipbound=10.0, min_clipbound=0.1, unclipped_num_std=2.0)
            if entry == "make_private_with_epsilon":
                kw.pop("noise_multiplier")
                kw.update(target_epsilon=4.0, target_delta=1e-5, epochs=3)
            m, opt, loader = getattr(pe, entry)(**kw)
            same_obj = opt.generator is g
            x, y = next(iter(loader))
            opt.zero_grad()
            ((m(x) - y) ** 2).sum(1).mean().backward()
            opt.step()
            released.append([p.grad.clone() for p in model.parameters()])
            ctx.case(("engine-generator", gsm_mode, clipping, seed, phase, entry), nontrivial=True, kind=f"engine-generator:{gsm_mode}:{clipping}:{entry}")
            if not same_obj:
                ctx.property_failure(f"C04:user-generator-ignored:engine:{gsm_mode}:{clipping}", f"after {entry}(noise_generator=g) optimizer.generator is not g",
                                     {"failing_input": {"oracle": "engine-generator", "gsm_mode": gsm_mode, "clipping": clipping, "seed": seed, "entry": entry}})
                break
            ctx.validated()
        else:
            if torch.equal(g.get_state(), state0):
                ctx.property_failure(f"C04:user-generator-not-advanced:{gsm_mode}:{clipping}", "two noised steps were released but the user's generator is still in its initial state",
                                     {"failing_input": {"oracle": "engine-generator", "gsm_mode": gsm_mode, "clipping": clipping, "seed": seed, "entry": entry}})
            elif all(torch.equal(a, b) for a, b in zip(released[0], released[1])):
                ctx.property_failure(f"C04:noise-stream-restarts:{gsm_mode}:{clipping}", "the step after a second make_private on the same generator released bit-identical noise to the first phase's step",
                                     {"failing_input": {"oracle": "engine-generator", "gsm_mode": gsm_mode, "clipping": clipping, "seed": seed, "entry": entry}})


def reproducibility_search(ctx):
    """real torch.normal: same generator state ⇒ same noise; successive steps / parameters differ;
    DistributedPerLayerOptimizer hands the user's generator on"""
    from opacus.optimizers.ddp_perlayeroptimizer import DistributedPerLayerOptimizer
    import torch.distributed as dist
    pooled = []
    for t in range(ctx.n(6, 40)):
        seed = ctx.rng.randrange(1 << 30)
        outs = []
        for rep in range(2):
            torch.manual_seed(123)
            model = nn.Linear(4, 3)
            x = torch.randn(3, 4)
            gen = torch.Generator().manual_seed(seed)
            grads = []
            from opacus import GradSampleModule
            from opacus.optimizers import DPOptimizer
            gsm = GradSampleModule(model)
            opt = DPOptimizer(torch.optim.SGD(model.parameters(), lr=0.0), noise_multiplier=1.0, max_grad_norm=1.0, expected_batch_size=3, generator=gen)
            for step in range(2):
                opt.zero_grad()
                gsm(x).sum(1).mean().backward()
                opt.step()
                grads.append([p.grad.clone() for p in model.parameters()])
            outs.append(grads)
        same = all(torch.equal(a, b) for s1, s2 in zip(outs[0], outs[1]) for a, b in zip(s1, s2))
        fresh = not torch.equal(outs[0][0][0], outs[0][1][0])
        ctx.case(("repro", seed), nontrivial=True, kind="reproducibility")
        if not same:
            ctx.property_failure("C04:not-reproducible-from-generator", f"two runs from generator seed {seed} released different gradients", {"failing_input": {"seed": seed}})
        elif not fresh:
            ctx.property_failure("C04:noise-reused-across-steps", f"consecutive steps released identical noise (seed {seed})", {"failing_input": {"seed": seed}})
        else:
            ctx.validated()
        pooled.append(torch.cat([(outs[0][0][0] - outs[0][1][0]).flatten()]))
    allv = torch.cat(pooled)
    ctx.extra["statistical_smoke_not_judged"] = {"pooled_noise_differences": int(allv.numel()), "mean": float(allv.mean()), "std": float(allv.std()), "expected_std_of_difference": math.sqrt(2) / 3}
    # DistributedPerLayerOptimizer: which generator reaches torch.normal?
    old = (dist.get_rank, dist.get_world_size)
    dist.get_rank, dist.get_world_size = (lambda *a, **k: 0), (lambda *a, **k: 2)
    try:
        model = nn.Linear(3, 2)
        gen = torch.Generator().manual_seed(5)
        opt = DistributedPerLayerOptimizer(torch.optim.SGD(model.parameters(), lr=0.1), noise_multiplier=1.0, max_grad_norm=[1.0, 1.0], expected_batch_size=2, generator=gen)
        p = next(model.parameters())
        p.summed_grad = torch.zeros_like(p)
        with rig.patched_normal("count") as log:
            opt._add_noise_parameter(p)
        ctx.case(("ddp-perlayer-generator",), nontrivial=True, kind="generator-plumbing")
        if not log.calls or log.calls[0][2] != id(gen):
            ctx.property_failure("C04:user-generator-ignored:ddp-perlayer", "DistributedPerLayerOptimizer._add_noise_parameter draws from generator=None instead of the user-supplied generator", {"failing_input": "DistributedPerLayerOptimizer(generator=g)._add_noise_parameter(p)"})
        else:
            ctx.validated()
    finally:
        dist.get_rank, dist.get_world_size = old


def adaptive_value_in_force_search(ctx):
    """adaptive clipping: in every step the gradient noise is requested with std = (the optimizer's noise multiplier) x
    (the clipping norm IN FORCE AT THAT STEP, i.e. the one the step's gradients were clipped with), not the norm the
    step is about to adapt to; one request per parameter plus the scalar count noise.  Real AdaClipDPOptimizer only."""
    from opacus import GradSampleModule
    from opacus.optimizers import AdaClipDPOptimizer

    for trial in range(ctx.n(6, 80)):
        torch.manual_seed(ctx.rng.randrange(1 << 30))
        i, o = ctx.rng.randint(2, 4), ctx.rng.randint(1, 3)
        model = nn.Linear(i, o, bias=ctx.rng.random() < 0.5).double()
        params = list(model.parameters())
        gsm = GradSampleModule(model)
        sigma, c0 = ctx.rng.choice([0.6, 1.0, 1.5]), ctx.rng.choice([0.05, 0.5, 5.0])
        opt = AdaClipDPOptimizer(torch.optim.SGD(params, lr=0.1), noise_multiplier=sigma, max_grad_norm=c0, expected_batch_size=4, loss_reduction="mean",
                                 target_unclipped_quantile=ctx.rng.choice([0.2, 0.5, 0.8]), clipbound_learning_rate=ctx.rng.choice([0.5, 1.0]),
                                 max_clipbound=1e3, min_clipbound=1e-3, unclipped_num_std=ctx.rng.choice([2.0, 4.0]))   # needs sigma < 2 * unclipped_num_std
        moved = 0
        for step in range(4):
            c_before, s_now = float(opt.max_grad_norm), float(opt.noise_multiplier)
            x = torch.randn(4, i, dtype=torch.float64) * ctx.rng.choice([0.1, 1.0, 10.0])
            opt.zero_grad()
            gsm(x).pow(2).sum(1).mean().backward()
            with rig.patched_normal("zero") as log:
                opt.step()
            stds = [c[0] for c in log.calls if len(c[1]) > 0 and tuple(c[1]) != ()]  # parameter-shaped requests
            want = s_now * c_before
            moved += float(opt.max_grad_norm) != c_before
            ctx.case(("adaclip-noise", trial, step), nontrivial=float(opt.max_grad_norm) != c_before, kind="adaptive:value-in-force")
            if len(stds) != len(params) or any(not core.close(float(sd), want, 1e-9) for sd in stds):
                ctx.property_failure("C04:adaptive:noise-std-not-in-force",
                                     f"AdaClipDPOptimizer step {step}: gradients clipped with C={c_before}, noise multiplier {s_now}: gradient-noise requests have std {stds}, "
                                     f"expected {len(params)} x {want} (bound after the step: {float(opt.max_grad_norm)})", {"failing_input": {"trial": trial, "step": step}})
                break
            ctx.validated()


def regenerate(ctx):
    from .. import regen
    from . import release_trans as T
    regen.regenerate(ctx, T, "Opacus.Generated.Release", "gradient-noise std (optimizers/optimizer.py, ddp_perlayeroptimizer.py)")


def run(ctx):
    regenerate(ctx)
    with rig.default_dtype(torch.float64):
        adaptive_value_in_force_search(ctx)
        request_cases(ctx)
        history_cases(ctx)
        reproducibility_search(ctx)
    engine_generator_search(ctx)
    ddp_perlayer_queue_search(ctx)
    closure_step_search(ctx)


def replay(ctx, rp):
    c = rp.get("failing_input") or rp.get("case")
    if isinstance(c, dict) and "ops" in c:
        res = case_oracle(c)
        if res:
            print("REPRODUCED:", res[0], res[1])
            ctx.violations.append(res[0])
            return
    if isinstance(c, dict) and c.get("oracle") in ("engine-generator", "ddp-perlayer-queue"):
        class Rec:
            found = []
            def case(self, *a, **k): pass
            def validated(self): pass
            def property_failure(self, key, what, rp2=None): self.found.append((key, what))
        rec = Rec()
        if c["oracle"] == "engine-generator":
            engine_generator_search(rec, only=(c["gsm_mode"], c["clipping"], c["seed"], c.get("entry", "make_private")))
        else:
            ddp_perlayer_queue_search(rec, only=(c["seed"], c["ahead"]))
        for key, what in rec.found:
            print("REPRODUCED:", key, what)
            ctx.violations.append(key)
        if not rec.found:
            print("not reproduced on this tree")
        return
    print("replay: rerun ./check C04 with the recorded seed (request-log cases are regenerated from the seed)")
