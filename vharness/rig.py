"""Helpers for driving the *real* Opacus objects in-process (no repo hooks: everything is
observed by wrapping torch entry points from the harness's own process)."""
from __future__ import annotations

import contextlib
import warnings

import torch
import torch.nn as nn

warnings.filterwarnings("ignore")
torch.set_num_threads(2)


class NormalLog:
    """Replacement for torch.normal used while a check runs.

    mode "zero":   returns zeros (noise-free trajectory, requests still logged)
    mode "count":  returns a tensor filled with the 1-based call number (exact integer noise ids)
    mode "real":   calls the real torch.normal
    mode ("unit", k, j): the k-th call (1-based) returns zeros except ONE standard deviation at flat index j, every other call zeros –
                   the response of a released quantity to each single Gaussian coordinate, i.e. the coefficient it enters with
    Every call is logged as (std, tuple(size), id(generator) or None)."""

    def __init__(self, mode="zero"):
        self.mode = mode
        self.calls = []
        self._real = torch.normal

    def __call__(self, mean=0, std=1.0, size=None, *, generator=None, device=None, dtype=None, **kw):
        if size is None:  # tensor-mean / tensor-std overloads: pass through
            return self._real(mean, std, generator=generator, **kw)
        self.calls.append((float(std), tuple(size), None if generator is None else id(generator)))
        if self.mode == "real":
            return self._real(mean=mean, std=std, size=size, generator=generator, device=device, dtype=dtype, **kw)
        if isinstance(self.mode, tuple) and self.mode[0] == "unit":
            out = torch.zeros(tuple(size), dtype=dtype or torch.get_default_dtype(), device=device)
            if len(self.calls) == self.mode[1]:
                out.view(-1)[self.mode[2]] = float(std)
            return out
        else:
            v = 0.0 if self.mode == "zero" else float(len(self.calls))
        return torch.full(tuple(size), v, dtype=dtype or torch.get_default_dtype(), device=device)


@contextlib.contextmanager
def patched_normal(mode="zero"):
    log = NormalLog(mode)
    old = torch.normal
    torch.normal = log
    try:
        yield log
    finally:
        torch.normal = old


@contextlib.contextmanager
def default_dtype(dt):
    old = torch.get_default_dtype()
    torch.set_default_dtype(dt)
    try:
        yield
    finally:
        torch.set_default_dtype(old)


class TokenData(torch.utils.data.Dataset):
    """N samples; sample i is the integer row e_i-like vector with distinct entries so that with
    `TokenModel` the per-sample gradient of sample i *is* its row."""

    def __init__(self, n, d, scale=1.0, dtype=torch.float64):
        g = torch.Generator().manual_seed(12345 + n * 31 + d)
        self.x = torch.randint(-4, 5, (n, d), generator=g).to(dtype) * scale
        for i in range(n):  # make rows pairwise distinct and non-zero
            self.x[i, i % d] += (i + 1) * 10 * scale
        self.n = n

    def __len__(self):
        return self.n

    def __getitem__(self, i):
        return self.x[i], torch.tensor(i)


class TokenModel(nn.Module):
    """bias-free Linear(d,1) with zero weights; loss = sum(outputs) ⇒ grad of sample i = x_i"""

    def __init__(self, d, dtype=torch.float64):
        super().__init__()
        self.fc = nn.Linear(d, 1, bias=False, dtype=dtype)
        with torch.no_grad():
            self.fc.weight.zero_()

    def forward(self, x):
        return self.fc(x)


def map_exc(e: BaseException) -> str:
    """Map implementation errors to the small enum used on the model side."""
    m = str(e)
    if "haven't been cleared" in m:
        return "err:processed-flag"
    if "Per sample gradient is not initialized" in m or "Per sample gradient not found" in m:
        return "err:no-grad-sample"
    if "Poisson sampling is not compatible with grad accumulation" in m or "grad accumulation" in m.lower():
        return "err:accum-forbidden"
    if "inconsistent across parameters" in m:
        return "err:inconsistent-accum"
    return "err:" + type(e).__name__
