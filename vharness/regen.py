"""§2.4(a) of DESIGN.md: re-translate a piece of the source under test into a Generated/*.lean file; if the text
changed, re-build and re-audit the property's obligations (the `generated_*_eq_model` theorems then have to go
through for the new text).  A source outside the translator's subset leaves an empty namespace behind: the tie
theorems no longer build, which the run reports as a broken tie (a failing input is then searched for)."""
from __future__ import annotations

import os

from . import core


def regenerate(ctx, T, namespace, label):
    try:
        txt = T.translate()
        ctx.extra["translator:" + label] = "ok"
    except T.Untranslatable as e:
        why = str(e)[:300].replace("-/", "- /")
        txt = f"/-! GENERATED – {label} is outside the translator's subset: {why} -/\nnamespace {namespace}\nend {namespace}\n"
        ctx.extra["translator:" + label] = "untranslatable: " + str(e)[:300]
        ctx.log("translator:", ctx.extra["translator:" + label])
    old = T.GEN_FILE.read_text() if T.GEN_FILE.exists() else None
    ctx.extra["generated:" + label] = "unchanged" if old == txt else "CHANGED (re-proved)"
    if old == txt:
        return
    foreign = os.path.realpath(str(core.REPO)) != "/repo"
    try:
        T.GEN_FILE.write_text(txt)
        ctx.obligations = []
        ctx.prove()
    finally:
        if foreign and old is not None:   # experiments on other checkouts must not leave their text in the shared library
            T.GEN_FILE.write_text(old)
