import OpacusLean.Model.Proto
/-! Model of the PRV accountant's discrete algebra
(`opacus/accountants/analysis/prv/{domain,compose,prvs}.py`, mesh/domain part of `accountants/prv.py`),
generic in the scalar `R`.

* pmfs are `Array R`; `a.getD i 0` is "`a[i]`, zero outside";
* the analytic primitives NumPy supplies (`exp log sqrt floor ceil round abs`) are the class
  `Analytic R` (instances: `Float` in the driver, `ℝ` – noncomputable – in the proof files);
* the closed-form cdf (`erfc`) and the `quad` mean are *not* modelled: `discretize` receives the
  cdf values at the bin edges and the continuous mean as columns;
* `irfft(rfft(p) ** n)` is *specified* as the n-fold circular convolution `cpow` (the FFT itself is
  trusted SciPy; the correspondence compares the two);
* Python exceptions are explicit `Err` values. -/
namespace Opacus.Prv

class Analytic (R : Type) where
  exp : R → R
  log : R → R
  sqrt : R → R
  abs : R → R
  floor : R → Int
  ceil : R → Int
  /-- `int(np.round(x))` -/
  round : R → Int

inductive Err where
  | sizeOdd          -- Domain.__post_init__: ValueError("`size` must be even")
  | sizeNegative     -- (model only) a negative size would reach np.linspace
  | dtMismatch       -- create_aligned: RuntimeError
  | lenMismatch      -- DiscretePRV.__len__ / compose_heterogeneous: ValueError
  | oddCompose       -- _compose_fourier: ValueError
  | meanShift        -- discretize: RuntimeError
  | emptyTree        -- _compose_convolution_tree([]): IndexError
  | fuel             -- (model only, unreachable: the tree loop is run with fuel = length)
  | fpDominates      -- compute_epsilon: ValueError
  | cannotCompute    -- find_epsilon: RuntimeError("Cannot compute epsilon")
  | indexError       -- find_epsilon: d1[i] with i = len
deriving DecidableEq, Repr

def Err.str : Err → String
  | .sizeOdd => "err:size-odd" | .sizeNegative => "err:size-negative" | .dtMismatch => "err:dt-mismatch"
  | .lenMismatch => "err:len-mismatch" | .oddCompose => "err:odd-compose" | .meanShift => "err:mean-shift"
  | .emptyTree => "err:empty-tree" | .fuel => "err:fuel" | .fpDominates => "err:fp-dominates"
  | .cannotCompute => "err:cannot-compute" | .indexError => "err:index"

/-- `Σ_{i<n} f i`, accumulated left to right -/
def sumTo {R} [Zero R] [Add R] : Nat → (Nat → R) → R
  | 0, _ => 0
  | n + 1, f => sumTo n f + f n

/-! ## domain.py -/

structure Dom (R : Type) where
  tMin : R
  tMax : R
  size : Nat
  shifts : R

section dom
variable {R : Type}

/-- `Domain(t_min, t_max, size)` with the `__post_init__` check -/
def Dom.mk? [Zero R] (tMin tMax : R) (size : Int) : Except Err (Dom R) :=
  if size % 2 ≠ 0 then .error .sizeOdd
  else if size < 0 then .error .sizeNegative
  else .ok ⟨tMin, tMax, size.toNat, 0⟩

def Dom.shiftRight [Add R] (d : Dom R) (s : R) : Dom R :=
  ⟨d.tMin + s, d.tMax + s, d.size, d.shifts + s⟩

def Dom.dt [Sub R] [Div R] [NatCast R] (d : Dom R) : R :=
  (d.tMax - d.tMin) / ((d.size - 1 : Nat) : R)

/-- `np.linspace(t_min, t_max, size)[i]`: `i*step + start`, the last point overwritten by `stop` -/
def Dom.ts [Add R] [Sub R] [Mul R] [Div R] [NatCast R] (d : Dom R) (i : Nat) : R :=
  if i + 1 = d.size then d.tMax else (i : R) * d.dt + d.tMin

/-- `Domain.__getitem__` -/
def Dom.at [Add R] [Sub R] [Mul R] [Div R] [NatCast R] (d : Dom R) (i : Nat) : R :=
  d.tMin + (i : R) * d.dt

/-- the `np.abs(domain.dt - dt) / dt >= 1e-8` check at the end of `create_aligned` -/
def checkDt [Sub R] [Div R] [NatCast R] [LE R] [DecidableLE R] [Analytic R] (tol dt : R) (d : Dom R) :
    Except Err (Dom R) :=
  if tol ≤ Analytic.abs (d.dt - dt) / dt then .error .dtMismatch else .ok d

/-- `Domain.create_aligned(t_min, t_max, dt)`; `tol` is the literal `1e-8` -/
def createAligned [Zero R] [Add R] [Sub R] [Mul R] [Div R] [NatCast R] [IntCast R] [LE R] [DecidableLE R]
    [Analytic R] (tol : R) (tMin tMax dt : R) : Except Err (Dom R) :=
  let lo : R := ((Analytic.floor (tMin / dt) : Int) : R) * dt
  let hi : R := ((Analytic.ceil (tMax / dt) : Int) : R) * dt
  let size : Int := Analytic.round ((hi - lo) / dt) + 1
  let size' : Int := if size % 2 = 1 then size + 1 else size
  let hi' : R := if size % 2 = 1 then hi + dt else hi
  (Dom.mk? lo hi' size').bind (checkDt tol dt)

end dom

/-! ## prvs.py: DiscretePRV, discretize -/

structure DPrv (R : Type) where
  pmf : Array R
  dom : Dom R

section prv
variable {R : Type}

/-- `discretize(prv, domain)`; `cdfR i = prv.cdf(ts[i] + dt/2)`, `cdfL i = prv.cdf(ts[i] - dt/2)`,
`meanC = prv.mean()` are supplied (erfc / quad are not modelled); `two` is the literal 2. -/
def discretize [Zero R] [Add R] [Sub R] [Mul R] [Div R] [NatCast R] [LE R] [DecidableLE R] [Analytic R]
    (cdfR cdfL : Nat → R) (meanC : R) (dom : Dom R) : Except Err (DPrv R) :=
  let pmf : Array R := Array.ofFn (n := dom.size) fun i => cdfR i.val - cdfL i.val
  let meanD := sumTo dom.size fun i => dom.ts i * pmf.getD i 0
  let s := meanC - meanD
  if dom.dt / ((2 : Nat) : R) ≤ Analytic.abs s then .error .meanShift
  else .ok ⟨pmf, dom.shiftRight s⟩

/-! ## compose.py -/

/-- circular convolution of two length-`a.size` arrays -/
def cconv [Zero R] [Add R] [Mul R] (a b : Array R) : Array R :=
  Array.ofFn (n := a.size) fun k =>
    sumTo a.size fun i => a.getD i 0 * b.getD ((k.val + a.size - i) % a.size) 0

/-- `irfft(ones)` : the unit of circular convolution -/
def cunit [Zero R] [One R] (n : Nat) : Array R := Array.ofFn (n := n) fun k => if k.val = 0 then 1 else 0

/-- specification of `irfft(rfft(p) ** n)` for even `len p` -/
def cpow [Zero R] [One R] [Add R] [Mul R] (a : Array R) : Nat → Array R
  | 0 => cunit a.size
  | n + 1 => cconv (cpow a n) a

/-- `np.roll(a, m)` -/
def roll [Zero R] (a : Array R) (m : Int) : Array R :=
  Array.ofFn (n := a.size) fun k => a.getD ((((k.val : Int) - m) % (a.size : Int)).toNat) 0

/-- the shift the code applies after the circular self-composition -/
def rollAmount (size n : Nat) : Int :=
  if n % 2 = 0 then ((n : Int) - 1) + ((size / 2 : Nat) : Int) else (n : Int) - 1

def composeFourier [Zero R] [One R] [Add R] [Mul R] [IntCast R] (d : DPrv R) (n : Nat) : Except Err (DPrv R) :=
  if d.pmf.size ≠ d.dom.size then .error .lenMismatch
  else if d.pmf.size % 2 ≠ 0 then .error .oddCompose
  else
    let c := cpow d.pmf n
    .ok ⟨roll c (rollAmount c.size n), d.dom.shiftRight (d.dom.shifts * (((n : Int) - 1 : Int) : R))⟩

/-- `(a * b)[k]` of the full linear convolution -/
def lconvAt [Zero R] [Add R] [Mul R] (a b : Array R) (k : Nat) : R :=
  sumTo (k + 1) fun i => a.getD i 0 * b.getD (k - i) 0

/-- `scipy.signal.convolve(a, b, mode="same")`: the `a.size` entries of the full convolution
starting at `(b.size - 1) // 2` -/
def convSame [Zero R] [Add R] [Mul R] (a b : Array R) : Array R :=
  Array.ofFn (n := a.size) fun k => lconvAt a b (k.val + (b.size - 1) / 2)

def composeTwo [Zero R] [Add R] [Mul R] (l r : DPrv R) : DPrv R :=
  ⟨convSame l.pmf r.pmf, l.dom.shiftRight r.dom.shifts⟩

/-- `zip(dprvs[:-1:2], dprvs[1::2])` mapped through `_compose_two` (even length) -/
def pairs [Zero R] [Add R] [Mul R] : List (DPrv R) → List (DPrv R)
  | a :: b :: t => composeTwo a b :: pairs t
  | _ => []

/-- one round of the `while` loop: an odd list first moves its *last* element to the front -/
def treeStep [Zero R] [Add R] [Mul R] (l : List (DPrv R)) : List (DPrv R) :=
  if l.length % 2 = 1 then
    match l.getLast? with
    | some x => x :: pairs l.dropLast
    | none => []
  else pairs l

def tree [Zero R] [Add R] [Mul R] : Nat → List (DPrv R) → Except Err (DPrv R)
  | _, [] => .error .emptyTree
  | _, [d] => .ok d
  | 0, _ => .error .fuel
  | f + 1, l => tree f (treeStep l)

def composeConvolutionTree [Zero R] [Add R] [Mul R] (l : List (DPrv R)) : Except Err (DPrv R) :=
  tree l.length l

/-- the list comprehension `[_compose_fourier(dprv, n) for dprv, n in zip(dprvs, ns)]` (first exception wins) -/
def fourierAll [Zero R] [One R] [Add R] [Mul R] [IntCast R] :
    List (DPrv R) → List Nat → Except Err (List (DPrv R))
  | d :: ds, n :: ns =>
    match composeFourier d n with
    | .error e => .error e
    | .ok c =>
      match fourierAll ds ns with
      | .error e => .error e
      | .ok cs => .ok (c :: cs)
  | _, _ => .ok []

def composeHeterogeneous [Zero R] [One R] [Add R] [Mul R] [IntCast R]
    (ds : List (DPrv R)) (ns : List Nat) : Except Err (DPrv R) :=
  if ds.length ≠ ns.length then .error .lenMismatch
  else
    match fourierAll ds ns with
    | .error e => .error e
    | .ok cs => composeConvolutionTree cs

/-! ## DiscretePRV.compute_epsilon / compute_delta_estimate -/

/-- `np.flip(np.flip(p).cumsum())[i]` for a length-`i+k` array: `((p[i+k-1] + …) + p[i+1]) + p[i]` -/
def rcs [Zero R] [Add R] (p : Nat → R) : Nat → Nat → R
  | 0, _ => 0
  | k + 1, i => rcs p k (i + 1) + p i

/-- NumPy's `searchsorted(a, key, side="left")` binary search on `a[0..n)`; `side="right"` is the same
loop with `a[mid] <= key` -/
def bsearch [LT R] [DecidableLT R] (a : Nat → R) (key : R) : Nat → Nat → Nat → Nat
  | 0, lo, _ => lo
  | f + 1, lo, hi =>
    if lo < hi then
      let mid := lo + (hi - lo) / 2
      if a mid < key then bsearch a key f (mid + 1) hi else bsearch a key f lo mid
    else lo

def searchsortedLeft [LT R] [DecidableLT R] (a : Nat → R) (n : Nat) (key : R) : Nat :=
  bsearch a key (n + 1) 0 n

structure EpsTables (R : Type) where
  d1 : Nat → R
  d2 : Nat → R
  ndelta : Nat → R

/-- the three arrays `d1`, `d2`, `ndelta` of `compute_epsilon` (as functions of the index) -/
def epsTables [Zero R] [Add R] [Sub R] [Mul R] [Neg R] [Analytic R] (n : Nat) (t p : Nat → R) : EpsTables R :=
  let d1 := fun i => rcs p (n - i) i
  let d2 := fun i => rcs (fun j => p j * Analytic.exp (-(t j))) (n - i) i
  ⟨d1, d2, fun i => Analytic.exp (t i) * d2 i - d1 i⟩

/-- the local function `find_epsilon(delta_target)` -/
def findEpsilon [Zero R] [Add R] [Sub R] [Mul R] [Div R] [Neg R] [LT R] [DecidableLT R] [Analytic R]
    (n : Nat) (t p : Nat → R) (target : R) : Except Err R :=
  let tb := epsTables n t p
  let i := searchsortedLeft tb.ndelta n (-target)
  if i = 0 then .error .cannotCompute
  else if n ≤ i then .error .indexError
  else .ok (Analytic.log ((tb.d1 i - target) / tb.d2 i))

inductive EpsOut (R : Type) where
  | inf
  | triple (lower estimate upper : R)
  | err (e : Err)

/-- `DiscretePRV.compute_epsilon(delta, delta_error, eps_error)`; `ldEps = np.finfo(np.longdouble).eps` -/
def computeEpsilon [Zero R] [Add R] [Sub R] [Mul R] [Div R] [Neg R] [NatCast R] [LT R] [DecidableLT R]
    [LE R] [DecidableLE R] [Analytic R]
    (d : DPrv R) (ldEps delta deltaError epsError : R) : EpsOut R :=
  if delta ≤ 0 then .inf
  else if delta - deltaError < ldEps * (d.dom.size : R) then .err .fpDominates
  else
    let n := d.dom.size
    let t := d.dom.ts
    let p := fun j => d.pmf.getD j 0
    match findEpsilon n t p (delta - deltaError) with
    | .error e => .err e
    | .ok u =>
      match findEpsilon n t p (delta + deltaError) with
      | .error e => .err e
      | .ok l =>
        match findEpsilon n t p delta with
        | .error e => .err e
        | .ok est => .triple (l - epsError) est (u + epsError)

/-- `DiscretePRV.compute_delta_estimate(eps)` -/
def computeDeltaEstimate [Zero R] [One R] [Add R] [Sub R] [Mul R] [Div R] [Neg R] [NatCast R] [LE R] [DecidableLE R]
    [Analytic R] (d : DPrv R) (eps : R) : R :=
  sumTo d.dom.size fun j =>
    if eps ≤ d.dom.ts j then d.pmf.getD j 0 * (1 - Analytic.exp eps * Analytic.exp (-(d.dom.ts j))) else 0

/-! ## accountants/prv.py: mesh, domain, get_epsilon -/

/-- `eps_error / sqrt(total * log(12 / delta_error) / 2)` -/
def meshSize [Mul R] [Div R] [NatCast R] [Analytic R] (epsError deltaError : R) (total : Nat) : R :=
  epsError / Analytic.sqrt ((total : R) * Analytic.log (((12 : Nat) : R) / deltaError) / ((2 : Nat) : R))

/-- `compute_safe_domain_size` (`analysis/prv/domain.py`).  The RDP accountant is the subject of C06
and enters as data: `epsAll` is its ε for the WHOLE history `[(σ_j, q_j, n_j)]` at `δ_err/4`,
`epsEach j` its ε for one step of mechanism `j` at `δ_err/(8·Σn)`.  `L = max(max(epsAll, epsEach…),
eps_error) + 3`, with Python's `max(a, b) = b if b > a else a`. -/
def safeDomainSize [Add R] [NatCast R] [LT R] [DecidableLT R] (epsAll : R) (epsEach : List R) (epsError : R) : R :=
  let m := epsEach.foldl (fun acc e => if acc < e then e else acc) epsAll
  (if m < epsError then epsError else m) + ((3 : Nat) : R)

/-- `_get_domain`, with `L = compute_safe_domain_size(...)` supplied (see `safeDomainSize`) -/
def getDomain [Zero R] [Add R] [Sub R] [Mul R] [Div R] [Neg R] [NatCast R] [IntCast R] [LE R] [DecidableLE R]
    [Analytic R] (tol : R) (L epsError deltaError : R) (total : Nat) : Except Err (Dom R) :=
  createAligned tol (-L) L (meshSize epsError deltaError total)

end prv
end Opacus.Prv
