/-! Scalar interface of the accountant models (C06 / C12) — Lean core only.

The numeric code of `opacus/accountants/analysis/rdp.py`, `analysis/gdp.py`, `accountants/rdp.py` and
`scripts/compute_dp_sgd_privacy.py` is transcribed ONCE, generic in `R`.  It is executed at `Float`
(IEEE binary64) by the drivers and reasoned about at `ℝ` (noncomputable instance in
`Lemmas/RdpReal.lean`).  `erfc` / `log_ndtr` / `norm.cdf` do not exist for `Float`; the model takes
them as a function parameter whose values the harness supplies from SciPy. -/
namespace Opacus.Rdp

class RScalar (R : Type) extends Add R, Sub R, Mul R, Div R, Neg R where
  ofNat : Nat → R
  exp : R → R
  log : R → R
  /-- `math.log1p` -/
  log1p : R → R
  /-- `math.expm1` -/
  expm1 : R → R
  /-- `math.expm1(x)` raises `OverflowError` (binary64: `x > log(DBL_MAX) ≈ 709.78`; never over ℝ) -/
  expm1Ovf : R → Bool
  sqrt : R → R
  /-- `<` as a Boolean -/
  lt : R → R → Bool
  /-- `==` on floats -/
  beq : R → R → Bool
  /-- `math.ceil` of a non-negative number -/
  ceilNat : R → Nat

/-- Kahan's `log1p`: accurate to a few ulp where `log (1+x)` alone loses everything -/
def floatLog1p (x : Float) : Float :=
  let u := 1.0 + x
  if u == 1.0 then x else if u.isInf then u
  else if x > 1e16 then Float.log u           -- `u - 1 = x` exactly; avoids overflow of `log u * x`
  else Float.log u * x / (u - 1.0)

/-- Kahan's `expm1` -/
def floatExpm1 (x : Float) : Float :=
  let u := Float.exp x
  if u == 1.0 then x
  else if u.isInf then u
  else if x > 40.0 then u - 1.0                -- `e^x - 1` rounds to `e^x`; Kahan's product `um1 * x`
                                               -- would overflow for 703 < x < 709.78 where libm does not
  else
    let um1 := u - 1.0
    if um1 == -1.0 then -1.0 else um1 * x / Float.log u

instance : RScalar Float where
  ofNat := Float.ofNat
  exp := Float.exp
  log := Float.log
  log1p := floatLog1p
  expm1 := floatExpm1
  expm1Ovf x := (Float.exp x).isInf && !x.isInf
  sqrt := Float.sqrt
  lt a b := decide (a < b)
  beq a b := a == b
  ceilNat x := (Float.ceil x).toUInt64.toNat

/-- a value of the extended reals as numpy produces them: finite, `+inf`, or `nan` -/
inductive EV (R : Type) where
  | fin (x : R)
  | pinf
  | nan

namespace EV
variable {R : Type}

def add [Add R] : EV R → EV R → EV R
  | nan, _ => nan
  | _, nan => nan
  | pinf, _ => pinf
  | _, pinf => pinf
  | fin a, fin b => fin (a + b)

/-- `rdp * steps` (`inf * 0 = nan`) -/
def mulNat [RScalar R] : EV R → Nat → EV R
  | fin a, n => fin (a * RScalar.ofNat n)
  | pinf, 0 => nan
  | pinf, _ => pinf
  | nan, _ => nan

/-- `<` of numpy on non-NaN values -/
def lt [RScalar R] : EV R → EV R → Bool
  | fin a, fin b => RScalar.lt a b
  | fin _, pinf => true
  | _, _ => false

def isNaN : EV R → Bool
  | nan => true
  | _ => false

end EV

/-- an RDP order as the code sees it: `float(alpha).is_integer()`, fractional, or `inf` -/
inductive Order (R : Type) where
  | int (n : Nat)
  | frac (a : R)
  | inf

def Order.val? {R} [RScalar R] : Order R → Option R
  | .int n => some (RScalar.ofNat n)
  | .frac a => some a
  | .inf => none

/-- failures of the real code that the model reproduces as explicit outputs -/
inductive Err where
  /-- order ≤ 1 for 0<q<1 (`ZeroDivisionError` at α = 1; outside the modelled domain below) -/
  | badOrder
  /-- `_log_sub`: "The result of subtraction must be non-negative." -/
  | logSubNeg
  /-- `math.log(0)` on a vanishing binomial coefficient -/
  | logZero
  /-- the oracle table for `log_ndtr` handed to the driver was too short (driver artefact) -/
  | oracleExhausted
  /-- `get_privacy_spent`: "Input lists must have the same length." -/
  | lengthMismatch
  /-- `GaussianAccountant.step`: parameters changed -/
  | gdpHeterogeneous
  /-- `compute_dp_sgd_privacy`: sample_rate > 1 -/
  | rateAboveOne
  /-- `math.log` of a non-positive number (`q < 0`, `q > 1`), `1/q` at `q = 0` in the script -/
  | mathDomain
deriving DecidableEq, Repr

def Err.str : Err → String
  | .badOrder => "err:bad-order"
  | .logSubNeg => "err:log-sub-negative"
  | .logZero => "err:log-zero"
  | .oracleExhausted => "err:oracle-exhausted"
  | .lengthMismatch => "err:length-mismatch"
  | .gdpHeterogeneous => "err:gdp-heterogeneous"
  | .rateAboveOne => "err:rate-above-one"
  | .mathDomain => "err:math-domain"

end Opacus.Rdp
