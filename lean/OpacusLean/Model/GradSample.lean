/-! Model of the registered grad samplers of `opacus/grad_sample/{linear,dp_rnn,embedding,group_norm,
instance_norm,layer_norm,dp_multihead_attention}.py`, generic in the scalar `R`.

Tensors are total functions on `Fin` index tuples; sums are the core-only fold `sumFin`.  Every
sampler comes with the layer's forward map for ONE sample, written as a function that is linear
(affine for frozen rows) in the layer's parameters; `Props/C01.lean` proves the adjoint identity
`⟨b, fwd θ a⟩ = ⟨sampler a b, θ⟩` between the two.  Axes that the real code flattens with
`...` / `reshape(batch, -1, ·)` are a single axis here (the harness flattens row-major). -/
namespace Opacus.GS

/-- left-to-right sum `f 0 + f 1 + … + f (n-1)` -/
def sumFin {R} [Add R] [Zero R] (n : Nat) (f : Fin n → R) : R :=
  Fin.foldl n (fun acc i => acc + f i) 0

/-- known-defect switch (DESIGN §3): behaviour of the unchanged tree vs the minimal repair -/
inductive Variant where | asCoded | repaired
deriving DecidableEq, Repr

section
variable {R : Type} [Add R] [Mul R] [Zero R]

/-! ### nn.Linear / RNNLinear  (`linear.py`, `dp_rnn.py` – the same two einsums) -/

/-- `torch.einsum("n...i,n...j->nij", backprops, activations)` -/
def linearWeightGS {N T O I : Nat} (b : Fin N → Fin T → Fin O → R) (a : Fin N → Fin T → Fin I → R) :
    Fin N → Fin O → Fin I → R :=
  fun n i j => sumFin T fun t => b n t i * a n t j

/-- `torch.einsum("n...k->nk", backprops)` -/
def linearBiasGS {N T O : Nat} (b : Fin N → Fin T → Fin O → R) : Fin N → Fin O → R :=
  fun n k => sumFin T fun t => b n t k

/-- `F.linear` on one sample (rows `t` = all middle positions of that sample) -/
def linearFwd {T O I : Nat} (w : Fin O → Fin I → R) (bias : Fin O → R) (a : Fin T → Fin I → R) :
    Fin T → Fin O → R :=
  fun t i => (sumFin I fun j => w i j * a t j) + bias i

/-- what the sampler returns: an entry per parameter that exists and `requires_grad` -/
structure LinearOut (R : Type) (N O I : Nat) where
  weight : Option (Fin N → Fin O → Fin I → R)
  bias : Option (Fin N → Fin O → R)

/-- `compute_linear_grad_sample` / `compute_rnn_linear_grad_sample`;
`biasReq = none` ⇔ `layer.bias is None` -/
def linearGS {N T O I : Nat} (weightReq : Bool) (biasReq : Option Bool)
    (a : Fin N → Fin T → Fin I → R) (b : Fin N → Fin T → Fin O → R) : LinearOut R N O I :=
  { weight := if weightReq then some (linearWeightGS b a) else none
    bias := if biasReq = some true then some (linearBiasGS b) else none }

/-! ### nn.Embedding (`embedding.py`) -/

/-- `scatter_add_(1, index, backprops.reshape(B, -1, D))` into zeros: row `v` collects the
backprops of the positions holding token `v`.  As coded `padding_idx` is ignored (finding D2);
the repaired variant zeroes that row, as torch's own backward does. -/
def embeddingGS {N T V D : Nat} (var : Variant) (pad : Option (Fin V))
    (idx : Fin N → Fin T → Fin V) (b : Fin N → Fin T → Fin D → R) : Fin N → Fin V → Fin D → R :=
  fun n v d =>
    if var = .repaired ∧ pad = some v then 0
    else sumFin T fun t => if idx n t = v then b n t d else 0

/-- the part of `F.embedding` (one sample) that autograd differentiates: the row `padding_idx`
is a constant for autograd (its gradient is defined to be zero), every other row is looked up -/
def embeddingFwd {T V D : Nat} (pad : Option (Fin V)) (w : Fin V → Fin D → R)
    (idx : Fin T → Fin V) : Fin T → Fin D → R :=
  fun t d => if pad = some (idx t) then 0 else w (idx t) d

/-- the sampler's result including the coded empty-batch branch
(`zeros_like(weight).unsqueeze(0)`: ONE all-zero row although the batch has none) -/
def embeddingGSRows {N T V D : Nat} (var : Variant) (pad : Option (Fin V))
    (idx : Fin N → Fin T → Fin V) (b : Fin N → Fin T → Fin D → R) :
    (k : Nat) × (Fin k → Fin V → Fin D → R) :=
  if N = 0 then ⟨1, fun _ _ _ => 0⟩ else ⟨N, embeddingGS var pad idx b⟩

/-! ### nn.EmbeddingBag (`embedding.py`, hooks mode only; 1-D input + offsets) -/

inductive BagMode where | sum | mean
deriving DecidableEq, Repr

/-- bag `i` is `index[offset[i] : offset[i+1]]` (the last one runs to the end) -/
def bagEnd {N : Nat} (L : Nat) (offset : Fin N → Nat) (i : Fin N) : Nat :=
  if h : i.val + 1 < N then offset ⟨i.val + 1, h⟩ else L

def inBag {N : Nat} (L : Nat) (offset : Fin N → Nat) (i : Fin N) (l : Nat) : Bool :=
  offset i ≤ l && l < bagEnd L offset i

/-- `backprops[i]` (sum) or `backprops[i] / (end - begin)` (mean) -/
def bagScale [Div R] (cast : Nat → R) (mode : BagMode) {N : Nat} (L : Nat) (offset : Fin N → Nat)
    (i : Fin N) (x : R) : R :=
  match mode with
  | .sum => x
  | .mean => x / cast (bagEnd L offset i - offset i)

/-- `gsm[i][index[begin:end]] += backprops[i]`.  As coded this is an index-put WITHOUT
accumulation: a token occurring several times in one bag is counted once (finding D22);
the repaired variant counts multiplicity (`index_add_`). -/
def embeddingBagGS [Div R] (cast : Nat → R) (var : Variant) (mode : BagMode) {N L V D : Nat}
    (index : Fin L → Fin V) (offset : Fin N → Nat) (b : Fin N → Fin D → R) :
    Fin N → Fin V → Fin D → R :=
  fun i v d =>
    match var with
    | .repaired => sumFin L fun l =>
        if inBag L offset i l.val ∧ index l = v then bagScale cast mode L offset i (b i d) else 0
    | .asCoded =>
        if (sumFin L fun l => if inBag L offset i l.val ∧ index l = v then 1 else 0) = (0 : Nat)
        then 0 else 0 + bagScale cast mode L offset i (b i d)

/-- `F.embedding_bag` for bag `i` -/
def embeddingBagFwd [Div R] (cast : Nat → R) (mode : BagMode) {N L V D : Nat}
    (w : Fin V → Fin D → R) (index : Fin L → Fin V) (offset : Fin N → Nat) (i : Fin N) : Fin D → R :=
  fun d => bagScale cast mode L offset i (sumFin L fun l => if inBag L offset i l.val then w (index l) d else 0)

/-! ### GroupNorm / InstanceNorm{1,2,3}d (`group_norm.py`, `instance_norm.py`)

`xhat = F.group_norm(activations, G, eps)` resp. `F.instance_norm(activations, eps)` enters as an
opaque tensor: given `xhat` the layer is `xhat * weight[c] + bias[c]`, affine in its parameters. -/

/-- `einsum("ni...->ni", xhat * backprops)` -/
def normWeightGS {N C S : Nat} (xhat b : Fin N → Fin C → Fin S → R) : Fin N → Fin C → R :=
  fun n c => sumFin S fun s => xhat n c s * b n c s

/-- `einsum("ni...->ni", backprops)` -/
def normBiasGS {N C S : Nat} (b : Fin N → Fin C → Fin S → R) : Fin N → Fin C → R :=
  fun n c => sumFin S fun s => b n c s

def normFwd {C S : Nat} (w β : Fin C → R) (xhat : Fin C → Fin S → R) : Fin C → Fin S → R :=
  fun c s => xhat c s * w c + β c

structure NormOut (R : Type) (N C : Nat) where
  weight : Option (Fin N → Fin C → R)
  bias : Option (Fin N → Fin C → R)

/-- `compute_group_norm_grad_sample` / `compute_instance_norm_grad_sample` -/
def normGS {N C S : Nat} (weightReq : Bool) (biasReq : Option Bool)
    (xhat b : Fin N → Fin C → Fin S → R) : NormOut R N C :=
  { weight := if weightReq then some (normWeightGS xhat b) else none
    bias := if biasReq = some true then some (normBiasGS b) else none }

/-! ### LayerNorm (`layer_norm.py` + `sum_over_all_but_batch_and_last_n`)

axes: batch, all middle axes (flattened, `M = 1` when there is none – the `dim == n_dims+1`
shortcut returns the tensor itself), normalized_shape (flattened to `K`). -/

def layerNormWeightGS {N M K : Nat} (xhat b : Fin N → Fin M → Fin K → R) : Fin N → Fin K → R :=
  fun n k => sumFin M fun m => xhat n m k * b n m k

def layerNormBiasGS {N M K : Nat} (b : Fin N → Fin M → Fin K → R) : Fin N → Fin K → R :=
  fun n k => sumFin M fun m => b n m k

def layerNormFwd {M K : Nat} (w β : Fin K → R) (xhat : Fin M → Fin K → R) : Fin M → Fin K → R :=
  fun m k => xhat m k * w k + β k

inductive GSErr where
  /-- `layer.bias.requires_grad` with `layer.bias is None` -/
  | attributeError
deriving DecidableEq, Repr

/-- `compute_layer_norm_grad_sample`.  As coded the bias branch reads `layer.bias.requires_grad`
without the `is not None` guard the other samplers have (finding D18). -/
def layerNormGS {N M K : Nat} (var : Variant) (weightReq : Bool) (biasReq : Option Bool)
    (xhat b : Fin N → Fin M → Fin K → R) : Except GSErr (NormOut R N K) :=
  match var, biasReq with
  | .asCoded, none => .error .attributeError
  | _, _ => .ok
    { weight := if weightReq then some (layerNormWeightGS xhat b) else none
      bias := if biasReq = some true then some (layerNormBiasGS b) else none }

/-! ### SequenceBias (`dp_multihead_attention.py`): `cat([x, bias.repeat(…)])` along the sequence -/

/-- `backprops[:, -1]` -/
def sequenceBiasGS {N L E : Nat} (b : Fin N → Fin (L + 1) → Fin E → R) : Fin N → Fin E → R :=
  fun n e => b n (Fin.last L) e

/-- one sample: positions `< L` copy the input, position `L` is the bias -/
def sequenceBiasFwd {L E : Nat} (bias : Fin E → R) (x : Fin L → Fin E → R) : Fin (L + 1) → Fin E → R :=
  fun t e => if h : t.val < L then x ⟨t.val, h⟩ e else bias e

end
end Opacus.GS
