import OpacusLean.Model.Proto
/-! Model of `opacus/optimizers/optimizer.py::_generate_noise` and `DPOptimizer.add_noise` as a
*consumer of an abstract draw stream*: what is requested from `torch.normal` (std, shape), in which
order, and how the draws are combined.  Generic in the scalar. -/
namespace Opacus.Noise

structure Req (R : Type) where
  std : R
  shape : List Nat
deriving Repr, DecidableEq

/-- `_generate_noise(std, reference, generator, secure_mode)`:
* `std == 0` ⇒ zeros, **no draw**;
* plain ⇒ one `normal(0, std, shape)`;
* secure ⇒ one discarded `(1,1)` draw, then four `normal(0, std, shape)` draws -/
def genReqs {R} (isZero : R → Bool) (std : R) (shape : List Nat) (secure : Bool) : List (Req R) :=
  if isZero std then [] else
  if secure then ⟨std, [1, 1]⟩ :: List.replicate 4 ⟨std, shape⟩ else [⟨std, shape⟩]

/-- how the draws answering `genReqs` are combined into the noise value (one coordinate) -/
def combine {R} [Add R] [Div R] [OfNat R 0] [OfNat R 2] (secure : Bool) (draws : List R) : R :=
  match secure, draws with
  | false, [d] => d
  | true, [_, d1, d2, d3, d4] => (0 + d1 + d2 + d3 + d4) / 2
  | _, _ => 0     -- `std == 0`: zeros

/-- `DPOptimizer.add_noise`: one `_generate_noise` per optimised parameter, in parameter order, all
with `std = noise_multiplier * max_grad_norm` read at call time -/
def addNoiseReqs {R} [Mul R] (isZero : R → Bool) (sigma clip : R) (shapes : List (List Nat)) (secure : Bool) :
    List (Req R) :=
  shapes.flatMap (fun sh => genReqs isZero (sigma * clip) sh secure)

end Opacus.Noise
