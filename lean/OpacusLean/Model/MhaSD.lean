import OpacusLean.Model.Proto
/-! Model of the `state_dict` translation of `opacus/layers/dp_multihead_attention.py`
(`DPMultiheadAttention.load_state_dict`, lines 131–178, and `.state_dict`, lines 374–455) between
`nn.MultiheadAttention`'s keys (`in_proj_weight`, `in_proj_bias`, `q/k/v_proj_weight`, `bias_k`,
`bias_v`, `out_proj.*`) and the DP layer's own parameters (`qlinear.*`, `klinear.*`, `vlinear.*`,
`out_proj.*`, `seq_bias_k.bias`, `seq_bias_v.bias`).

A tensor is its shape and its row-major data, so `chunk(3, dim=0)`, `cat(·, 0)`, `squeeze()` and
`unsqueeze(0)` are literally what torch does to a contiguous buffer.  A dictionary is a record of
optional entries (one field per key that can occur). -/
namespace Opacus.Mha.SD

structure T (R : Type) where
  shape : List Nat
  data : List R
deriving DecidableEq, Repr

def numel (shape : List Nat) : Nat := shape.foldr (· * ·) 1

inductive SDErr where
  /-- `q, k, v = t.chunk(3, dim=0)` does not yield three chunks -/
  | unpack
  /-- `torch.cat` of tensors whose trailing shapes differ -/
  | catShape
  /-- strict loading: key expected by the module but absent -/
  | missing
  /-- strict loading: key not expected by the module -/
  | unexpected
  /-- strict loading: shape of an entry differs from the parameter's -/
  | sizeMismatch
deriving DecidableEq, Repr

/-- `t.chunk(3, dim=0)` unpacked into three names: chunk size `⌈n/3⌉`, exactly three chunks needed -/
def chunk3 {R} (t : T R) : Except SDErr (T R × T R × T R) :=
  match t.shape with
  | [] => .error .unpack
  | n :: rest =>
    let c := (n + 2) / 3
    let p := numel rest
    if c = 0 then .error .unpack
    else if (n + c - 1) / c ≠ 3 then .error .unpack
    else .ok (⟨c :: rest, t.data.take (c * p)⟩,
              ⟨c :: rest, (t.data.drop (c * p)).take (c * p)⟩,
              ⟨(n - 2 * c) :: rest, t.data.drop (2 * c * p)⟩)

/-- `torch.cat((a, b, c), 0)` -/
def cat3 {R} (a b c : T R) : Except SDErr (T R) :=
  match a.shape, b.shape, c.shape with
  | na :: ra, nb :: rb, nc :: rc =>
    if ra = rb ∧ rb = rc then .ok ⟨(na + nb + nc) :: ra, a.data ++ b.data ++ c.data⟩ else .error .catShape
  | _, _, _ => .error .catShape

inductive V where | asCoded | repaired
deriving DecidableEq, Repr

/-- AS CODED `bias_k.squeeze()`: every axis of size 1 goes – including the embedding axis when
`embed_dim = 1`; repaired: only the two leading axes (`bias_k.reshape(-1)`) -/
def squeezeBias {R} (vr : V) (t : T R) : T R :=
  match vr with
  | .asCoded => ⟨t.shape.filter (· ≠ 1), t.data⟩
  | .repaired => ⟨[numel t.shape], t.data⟩

/-- `unsqueeze_0_2`: `torch.unsqueeze(torch.unsqueeze(t, 0), 0)` -/
def unsqueeze02 {R} (t : T R) : T R := ⟨1 :: 1 :: t.shape, t.data⟩

/-- every key that can occur in a dictionary passed to `load_state_dict` -/
structure Raw (R : Type) where
  in_proj_weight : Option (T R) := none
  in_proj_bias : Option (T R) := none
  q_proj_weight : Option (T R) := none
  k_proj_weight : Option (T R) := none
  v_proj_weight : Option (T R) := none
  bias_k : Option (T R) := none
  bias_v : Option (T R) := none
  out_proj_weight : Option (T R) := none
  out_proj_bias : Option (T R) := none
  qlinear_weight : Option (T R) := none
  qlinear_bias : Option (T R) := none
  klinear_weight : Option (T R) := none
  klinear_bias : Option (T R) := none
  vlinear_weight : Option (T R) := none
  vlinear_bias : Option (T R) := none
  seq_bias_k : Option (T R) := none
  seq_bias_v : Option (T R) := none
deriving DecidableEq, Repr

/-- constructor arguments that decide which parameters exist -/
structure Cfg where
  E : Nat
  Kd : Nat
  Vd : Nat
  bias : Bool
  abkv : Bool
deriving DecidableEq, Repr

/-- the key translation of `load_state_dict`, statement by statement -/
def translate {R} (vr : V) (sd : Raw R) : Except SDErr (Raw R) := do
  let sd ← match sd.in_proj_weight with
    | some w => do
      let (q, k, v) ← chunk3 w
      pure { sd with qlinear_weight := some q, klinear_weight := some k, vlinear_weight := some v, in_proj_weight := none }
    | none => pure sd
  let sd ← match sd.in_proj_bias with
    | some w => do
      let (q, k, v) ← chunk3 w
      pure { sd with qlinear_bias := some q, klinear_bias := some k, vlinear_bias := some v, in_proj_bias := none }
    | none => pure sd
  let sd := match sd.bias_k with
    | some b => { sd with seq_bias_k := some (squeezeBias vr b), bias_k := none }
    | none => sd
  let sd := match sd.bias_v with
    | some b => { sd with seq_bias_v := some (squeezeBias vr b), bias_v := none }
    | none => sd
  let sd := match sd.q_proj_weight with
    | some w => { sd with qlinear_weight := some w, q_proj_weight := none }
    | none => sd
  let sd := match sd.k_proj_weight with
    | some w => { sd with klinear_weight := some w, k_proj_weight := none }
    | none => sd
  let sd := match sd.v_proj_weight with
    | some w => { sd with vlinear_weight := some w, v_proj_weight := none }
    | none => sd
  pure sd

/-- the DP layer's own parameters -/
structure DP (R : Type) where
  qlinear_weight : T R
  qlinear_bias : Option (T R)
  klinear_weight : T R
  klinear_bias : Option (T R)
  vlinear_weight : T R
  vlinear_bias : Option (T R)
  out_proj_weight : T R
  out_proj_bias : Option (T R)
  seq_bias_k : Option (T R)
  seq_bias_v : Option (T R)
deriving DecidableEq, Repr

/-- one entry of the strict `nn.Module.load_state_dict`: present iff expected, shape as the parameter -/
def entry {R} (expected : Bool) (shape : List Nat) (x : Option (T R)) : Except SDErr (Option (T R)) :=
  match expected, x with
  | true, none => .error .missing
  | false, some _ => .error .unexpected
  | false, none => .ok none
  | true, some t => if t.shape = shape then .ok (some t) else .error .sizeMismatch

def req {R} (shape : List Nat) (x : Option (T R)) : Except SDErr (T R) :=
  match x with
  | none => .error .missing
  | some t => if t.shape = shape then .ok t else .error .sizeMismatch

def absent {R} (x : Option (T R)) : Except SDErr Unit :=
  match x with
  | none => .ok ()
  | some _ => .error .unexpected

/-- `super().load_state_dict(state_dict)` (strict) -/
def strictLoad {R} (c : Cfg) (sd : Raw R) : Except SDErr (DP R) := do
  absent sd.in_proj_weight; absent sd.in_proj_bias; absent sd.q_proj_weight; absent sd.k_proj_weight
  absent sd.v_proj_weight; absent sd.bias_k; absent sd.bias_v
  let qw ← req [c.E, c.E] sd.qlinear_weight
  let qb ← entry c.bias [c.E] sd.qlinear_bias
  let kw ← req [c.E, c.Kd] sd.klinear_weight
  let kb ← entry c.bias [c.E] sd.klinear_bias
  let vw ← req [c.E, c.Vd] sd.vlinear_weight
  let vb ← entry c.bias [c.E] sd.vlinear_bias
  let ow ← req [c.E, c.E] sd.out_proj_weight
  let ob ← entry c.bias [c.E] sd.out_proj_bias
  let sk ← entry c.abkv [c.E] sd.seq_bias_k
  let sv ← entry c.abkv [c.E] sd.seq_bias_v
  pure ⟨qw, qb, kw, kb, vw, vb, ow, ob, sk, sv⟩

/-- `DPMultiheadAttention.load_state_dict` -/
def load {R} (vr : V) (c : Cfg) (sd : Raw R) : Except SDErr (DP R) := do
  let sd ← translate vr sd
  strictLoad c sd

/-- `DPMultiheadAttention.state_dict()` (top level: `prefix = ""`, no state-dict hooks) -/
def save {R} (c : Cfg) (p : DP R) : Except SDErr (Raw R) := do
  let r : Raw R := {}
  let r ← if c.Kd = c.E ∧ c.Vd = c.E then do
      let w ← cat3 p.qlinear_weight p.klinear_weight p.vlinear_weight
      pure { r with in_proj_weight := some w }
    else pure { r with q_proj_weight := some p.qlinear_weight, k_proj_weight := some p.klinear_weight,
                       v_proj_weight := some p.vlinear_weight }
  let r ← match p.qlinear_bias, p.klinear_bias, p.vlinear_bias with
    | some a, some b, some cc => do
      let w ← cat3 a b cc
      pure { r with in_proj_bias := some w }
    | _, _, _ => pure r
  let r := if c.abkv then
      { r with bias_k := p.seq_bias_k.map unsqueeze02, bias_v := p.seq_bias_v.map unsqueeze02 }
    else r
  pure { r with out_proj_weight := some p.out_proj_weight, out_proj_bias := p.out_proj_bias }

/-- a tensor of the given shape (shape and buffer length agree) -/
def T.hasShape {R} (t : T R) (shape : List Nat) : Prop := t.shape = shape ∧ t.data.length = numel shape

/-- `nn.MultiheadAttention(E, h, bias, add_bias_kv, kdim, vdim).state_dict()` has exactly these entries -/
structure ValidTorch {R} (c : Cfg) (sd : Raw R) : Prop where
  same : c.Kd = c.E ∧ c.Vd = c.E →
    (∃ w, sd.in_proj_weight = some w ∧ w.hasShape [3 * c.E, c.E]) ∧
    sd.q_proj_weight = none ∧ sd.k_proj_weight = none ∧ sd.v_proj_weight = none
  diff : ¬ (c.Kd = c.E ∧ c.Vd = c.E) →
    sd.in_proj_weight = none ∧
    (∃ w, sd.q_proj_weight = some w ∧ w.hasShape [c.E, c.E]) ∧
    (∃ w, sd.k_proj_weight = some w ∧ w.hasShape [c.E, c.Kd]) ∧
    (∃ w, sd.v_proj_weight = some w ∧ w.hasShape [c.E, c.Vd])
  biasT : c.bias = true →
    (∃ w, sd.in_proj_bias = some w ∧ w.hasShape [3 * c.E]) ∧ (∃ w, sd.out_proj_bias = some w ∧ w.hasShape [c.E])
  biasF : c.bias = false → sd.in_proj_bias = none ∧ sd.out_proj_bias = none
  kvT : c.abkv = true →
    (∃ w, sd.bias_k = some w ∧ w.hasShape [1, 1, c.E]) ∧ (∃ w, sd.bias_v = some w ∧ w.hasShape [1, 1, c.E])
  kvF : c.abkv = false → sd.bias_k = none ∧ sd.bias_v = none
  outW : ∃ w, sd.out_proj_weight = some w ∧ w.hasShape [c.E, c.E]
  noDP : sd.qlinear_weight = none ∧ sd.qlinear_bias = none ∧ sd.klinear_weight = none ∧ sd.klinear_bias = none ∧
    sd.vlinear_weight = none ∧ sd.vlinear_bias = none ∧ sd.seq_bias_k = none ∧ sd.seq_bias_v = none

end Opacus.Mha.SD
