/-! Model of what Opacus attaches to, and removes from, user objects
(`opacus/grad_sample/gsm_base.py`, `grad_sample_module.py`, `grad_sample_module_fast_gradient_clipping.py`,
`gsm_exp_weights.py`, `opacus/optimizers/optimizer.py`, `optimizer_fast_gradient_clipping.py`,
`utils/fast_gradient_clipping_utils.py`).

Objects are finite maps attribute ↦ value-kind, written as records with optional fields: `none` =
the attribute does not exist on the object.  A model is a list of parameter objects and a list of
leaf layers (each owning some of the parameters, by index).  The wrapper itself is thrown away by
`to_standard_module`, so only what lives on the *user's* objects is state here. -/
namespace Opacus.Wrap

inductive Mode where | hooks | functorch | ew | ghost
deriving DecidableEq, Repr

/-- value kind of `p.grad_sample` -/
inductive GS where | none_ | tensor | list (n : Nat)
deriving DecidableEq, Repr

/-- `both`: layer type has a grad sampler and a norm sampler (Linear, Embedding); `gradOnly`: grad
sampler only (conv, norms); `neither`: handled by functorch (`prepare_layer`) -/
inductive LKind where | both | gradOnly | neither
deriving DecidableEq, Repr

inductive Err where
  | attrError        -- `del p.grad_sample` on a parameter without that attribute
  | noHooksFound     -- remove_hooks: "Asked to remove hooks, but no hooks found"
  | alreadyWrapped   -- add_hooks: "Trying to add hooks twice to the same model"
  | notWrapped
  | ewAccum          -- ExpandedWeights forward with a non-None grad_sample
  | noGradSample     -- optimizer step without per-sample gradients
  | processed        -- "Gradients haven't been cleared since the last optimizer step"
  | noGraph          -- backward without an outstanding forward
  | noActivations    -- backward hook fired for a forward that was not captured
  | tied             -- ghost: "Parameter tying is not supported with Ghost Clipping" (`_forward_counter > 1`)
  | noNormSample     -- ghost: `get_clipping_coef` finds a parameter without `_norm_sample`
deriving DecidableEq, Repr

structure Param where
  requiresGrad : Bool
  gradSample : Option GS := none
  fwdCounter : Option Nat := none       -- `_forward_counter`
  curGS : Bool := false                 -- `_current_grad_sample`
  summedGrad : Option Bool := none      -- `summed_grad`: `some false` = None, `some true` = tensor
  normSample : Bool := false            -- `_norm_sample`
deriving DecidableEq, Repr

structure Layer where
  kind : LKind
  params : List Nat
  userFwdHooks : Nat := 0
  userBwdHooks : Nat := 0
  activations : Option Nat := none      -- `activations`: list of that length
  maxBatchLen : Bool := false           -- `max_batch_len`
  ftCompute : Bool := false             -- `ft_compute_sample_grad`
  opacusHooks : Bool := false           -- one forward + one backward hook registered by add_hooks
  fullBwdFlag : Option Bool := none     -- torch's `_is_full_backward_hook` (None / False)
deriving DecidableEq, Repr

/-- which of the known leftovers `to_standard_module` cleans up on this tree
(all `false` = the code as it stands) -/
structure Fix where
  activations : Bool
  maxBatchLen : Bool
  summedGrad : Bool
  normSample : Bool
  fullBwdFlag : Bool
  frozenGuard : Bool
deriving DecidableEq, Repr

def Fix.asCoded : Fix := ⟨false, false, false, false, false, false⟩
def Fix.repaired : Fix := ⟨true, true, true, true, true, true⟩

structure St where
  params : List Param
  layers : List Layer
  rootHooks : Option Nat := none        -- `_module.autograd_grad_sample_hooks` (list of that length)
  mode : Option Mode := none            -- wrapped by a GradSampleModule of that kind
  hooksEnabled : Bool := false
  optWrapped : Bool := false            -- a DPOptimizer has been built on the parameters
  lastSkipped : Bool := false
  gsProcessed : Bool := false           -- `_processed` mark on the grad_sample tensors
  sgProcessed : Bool := false           -- `_processed` mark on the summed_grad tensors
  graphs : List Bool := []              -- outstanding forwards (true = captured by the hooks)
deriving DecidableEq, Repr

/-- the part of an object Opacus never touches -/
def Param.erase (p : Param) : Param := { requiresGrad := p.requiresGrad }
def Layer.erase (l : Layer) : Layer :=
  { kind := l.kind, params := l.params, userFwdHooks := l.userFwdHooks, userBwdHooks := l.userBwdHooks }

def trainable (l : Layer) (ps : List Param) : Bool :=
  l.params.any fun i => match ps[i]? with | some p => p.requiresGrad | none => false

/-- apply `f` to the parameters whose index is in `idx` (`k` = index of the head) -/
def updAt (idx : List Nat) (f : Param → Param) : Nat → List Param → List Param
  | _, [] => []
  | k, p :: ps => (if idx.contains k then f p else p) :: updAt idx f (k + 1) ps

/-- thread the parameter list through a per-layer update -/
def mapLayers (f : Layer → List Param → Layer × List Param) : List Layer → List Param → List Layer × List Param
  | [], ps => ([], ps)
  | l :: ls, ps =>
    let x := f l ps
    let r := mapLayers f ls x.2
    (x.1 :: r.1, r.2)

/-! ### make_private -/

/-- `AbstractGradSampleModule.__init__` + `GradSampleModule.__init__` / `add_hooks` -/
def wrap (m : Mode) (s : St) : St × Option Err :=
  if s.mode.isSome || s.rootHooks.isSome then (s, some .alreadyWrapped) else
  let ps := s.params.map fun p =>
    if p.requiresGrad then { p with gradSample := some .none_, fwdCounter := some 0 } else p
  match m with
  | .ew => ({ s with params := ps, mode := some m }, none)
  | _ =>
    let ls := s.layers.map fun l =>
      if trainable l s.params then
        { l with ftCompute := l.ftCompute || m == .functorch || l.kind == .neither,
                 opacusHooks := true, fullBwdFlag := some false }
      else l
    ({ s with params := ps, layers := ls,
              rootHooks := some (2 * (s.layers.filter fun l => trainable l s.params).length),
              mode := some m, hooksEnabled := true }, none)

/-- `DPOptimizer.__init__`: `p.summed_grad = None` on the trainable parameters -/
def wrapOpt (s : St) : St × Option Err :=
  ({ s with optWrapped := true,
            params := s.params.map fun p => if p.requiresGrad then { p with summedGrad := some false } else p }, none)

/-! ### forward / backward -/

def fwdLayer (l : Layer) (ps : List Param) : Layer × List Param :=
  if l.opacusHooks && trainable l ps then
    ({ l with activations := some (l.activations.getD 0 + 1) },
     updAt l.params (fun p => if p.requiresGrad then { p with fwdCounter := some (p.fwdCounter.getD 0 + 1) } else p) 0 ps)
  else (l, ps)

/-- ghost module, layer with a norm sampler: `for p in trainable_parameters(module): p._forward_counter += 1;
if p._forward_counter > 1: raise NotImplementedError` — returns the parameters and whether it raised -/
def incrUntilTied : List Nat → List Param → List Param × Bool
  | [], ps => (ps, false)
  | i :: is, ps =>
    match ps[i]? with
    | some p =>
      if p.requiresGrad then
        let c := p.fwdCounter.getD 0 + 1
        let ps' := ps.set i { p with fwdCounter := some c }
        if c > 1 then (ps', true) else incrUntilTied is ps'
      else incrUntilTied is ps
    | none => incrUntilTied is ps

/-- forward hooks of the ghost module, layer by layer in forward order; stops where one raises -/
def fwdLayersGhost : List Layer → List Param → List Layer × List Param × Bool
  | [], ps => ([], ps, false)
  | l :: ls, ps =>
    if l.opacusHooks && trainable l ps then
      if l.kind == .both then
        let r := incrUntilTied l.params ps
        let l' := { l with activations := some (l.activations.getD 0 + 1) }
        if r.2 then (l' :: ls, r.1, true)
        else let t := fwdLayersGhost ls r.1; (l' :: t.1, t.2.1, t.2.2)
      else
        let x := fwdLayer l ps
        let t := fwdLayersGhost ls x.2
        (x.1 :: t.1, t.2.1, t.2.2)
    else
      let t := fwdLayersGhost ls ps
      (l :: t.1, t.2.1, t.2.2)

/-- forward through the wrapper.  `active` = module in training mode and grad enabled -/
def fwd (active : Bool) (s : St) : St × Option Err :=
  match s.mode with
  | none => (s, none)
  | some .ew =>
    if s.params.any (fun p => match p.gradSample with | some .tensor => true | some (.list _) => true | _ => false)
    then (s, some .ewAccum)
    else if active then ({ s with graphs := true :: s.graphs }, none) else (s, none)
  | some _ =>
    if !active then (s, none)
    else if !s.hooksEnabled then ({ s with graphs := false :: s.graphs }, none)
    else if s.mode == some .ghost then
      let r := fwdLayersGhost s.layers s.params
      if r.2.2 then ({ s with layers := r.1, params := r.2.1 }, some .tied)
      else ({ s with layers := r.1, params := r.2.1, graphs := true :: s.graphs }, none)
    else
      let r := mapLayers fwdLayer s.layers s.params
      ({ s with layers := r.1, params := r.2, graphs := true :: s.graphs }, none)

/-- `promote_current_grad_sample` -/
def promote (p : Param) : Param :=
  { p with gradSample := some (match p.gradSample with
                               | some (.list n) => .list (n + 1)
                               | some .tensor => .list 2
                               | _ => .tensor),
           curGS := false }

/-- hooks / functorch path of `capture_backprops_hook` for one parameter; with `fgc` the
fast-gradient-clipping branch of the ghost module (norm kept, grad_sample deleted) -/
def bwdParam (fgc : Bool) (p : Param) : Param :=
  if !p.requiresGrad then p else
  let c := p.fwdCounter.getD 0 - 1
  let p1 := { p with curGS := true, fwdCounter := some c }
  if c = 0 then
    let p2 := promote p1
    if fgc then { p2 with normSample := true, gradSample := none } else p2
  else p1

/-- ghost-clipping branch (layer has a norm sampler) -/
def bwdParamNorm (p : Param) : Param :=
  if !p.requiresGrad then p else { p with normSample := true, fwdCounter := some (p.fwdCounter.getD 0 - 1) }

def bwdLayer (m : Mode) (l : Layer) (ps : List Param) : Layer × List Param :=
  if l.opacusHooks && trainable l ps && decide (0 < l.activations.getD 0) then
    let n := l.activations.getD 0 - 1
    let f := if m == .ghost then (if l.kind == .both then bwdParamNorm else bwdParam true) else bwdParam false
    ({ l with activations := some n, maxBatchLen := n != 0 }, updAt l.params f 0 ps)
  else (l, ps)

/-- `optimizer.zero_grad()` of the DP optimizer -/
def optZeroGradSt (s : St) : St :=
  { s with gsProcessed := false,
           sgProcessed := if s.lastSkipped then s.sgProcessed else false,
           params := s.params.map fun p =>
             if p.requiresGrad then
               { p with gradSample := some .none_,
                        summedGrad := if s.lastSkipped then p.summedGrad else some false }
             else p }

def optZeroGrad (s : St) : St × Option Err :=
  if s.optWrapped then (optZeroGradSt s, none) else (s, some .notWrapped)

/-- `loss.backward()` on the most recent outstanding forward.  In ghost mode this is
`DPTensorFastGradientClipping.backward`: first pass with hooks, `optimizer.zero_grad()`, second
pass with hooks disabled. -/
def bwd (s : St) : St × Option Err :=
  match s.mode, s.graphs with
  | none, _ => (s, none)
  | some _, [] => (s, some .noGraph)
  | some .ew, _ :: gs =>
    ({ s with graphs := gs,
              params := s.params.map fun p => if p.requiresGrad then { p with gradSample := some .tensor } else p }, none)
  | some m, captured :: gs =>
    if m == .ghost && !s.optWrapped then (s, some .notWrapped)
    else if !s.hooksEnabled then ({ s with graphs := gs }, none)
    else if !captured then (s, some .noActivations)
    else
      let r := mapLayers (bwdLayer m) s.layers s.params
      let s1 := { s with layers := r.1, params := r.2, graphs := gs }
      if m == .ghost then
        let s2 := optZeroGradSt s1
        -- `get_clipping_coef` reads `_norm_sample` of every trainable parameter
        if s2.params.any (fun p => p.requiresGrad && !p.normSample) then (s2, some .noNormSample) else (s2, none)
      else (s1, none)

/-! ### optimizer -/

/-- `DPOptimizer.step()` (`skip` = a `signal_skip_step(True)` was queued for it) -/
def optStep (skip : Bool) (s : St) : St × Option Err :=
  if !s.optWrapped then (s, some .notWrapped) else
  let ghost := s.mode == some .ghost
  if !ghost && s.params.any (fun p => p.requiresGrad && (p.gradSample == some .none_ || p.gradSample == none))
  then (s, some .noGradSample)
  else if !ghost && s.gsProcessed then (s, some .processed)
  else
    let s1 := { s with gsProcessed := if ghost then s.gsProcessed else true,
                       params := s.params.map fun p => if p.requiresGrad then { p with summedGrad := some true } else p }
    if skip then ({ s1 with lastSkipped := true }, none)
    else if s1.sgProcessed then (s1, some .processed)
    else ({ s1 with sgProcessed := true, lastSkipped := false }, none)

/-- `GradSampleModule.zero_grad()`: `grad_sample = None` on *every* parameter -/
def modZeroGrad (s : St) : St × Option Err :=
  match s.mode with
  | none => (s, none)
  | some _ => ({ s with gsProcessed := false, params := s.params.map fun p => { p with gradSample := some .none_ } }, none)

def setHooks (b : Bool) (s : St) : St × Option Err :=
  match s.mode with
  | some .ew | none => (s, some .notWrapped)
  | some _ => ({ s with hooksEnabled := b }, none)

/-! ### to_standard_module -/

/-- `del_grad_sample`: `del p.grad_sample` for every parameter, in order -/
def delGradSample (guard : Bool) : List Param → List Param × Option Err
  | [] => ([], none)
  | p :: ps =>
    match p.gradSample with
    | none =>
      if guard then let r := delGradSample guard ps; (p :: r.1, r.2)
      else (p :: ps, some .attrError)
    | some _ => let r := delGradSample guard ps; ({ p with gradSample := none } :: r.1, r.2)

/-- `_clean_up_attributes` (+ the attributes a repaired tree would also remove) -/
def cleanParam (fx : Fix) (p : Param) : Param :=
  { p with fwdCounter := none, curGS := false,
           summedGrad := if fx.summedGrad then none else p.summedGrad,
           normSample := if fx.normSample then false else p.normSample }

/-- `remove_hooks` on one layer -/
def cleanLayer (fx : Fix) (ps : List Param) (l : Layer) : Layer :=
  { l with opacusHooks := false,
           ftCompute := if trainable l ps then false else l.ftCompute,
           activations := if fx.activations then none else l.activations,
           maxBatchLen := if fx.maxBatchLen then false else l.maxBatchLen,
           fullBwdFlag := if fx.fullBwdFlag then none else l.fullBwdFlag }

/-- `to_standard_module()` = `_close()`: `del_grad_sample`, `_clean_up_attributes`, and for the
hook-based classes `remove_hooks` -/
def unwrap (fx : Fix) (s : St) : St × Option Err :=
  match s.mode with
  | none => (s, some .notWrapped)
  | some m =>
    let d := delGradSample fx.frozenGuard s.params
    match d.2 with
    | some e => ({ s with params := d.1 }, some e)
    | none =>
      let ps := d.1.map (cleanParam fx)
      if m == .ew then ({ s with params := ps, mode := none, graphs := [] }, none)
      else match s.rootHooks with
        | none => ({ s with params := ps }, some .noHooksFound)
        | some _ =>
          ({ s with params := ps, layers := s.layers.map (cleanLayer fx ps), rootHooks := none,
                    mode := none, hooksEnabled := false, graphs := [] }, none)

inductive Op where
  | wrap (m : Mode) | wrapOpt | fwd (active : Bool) | bwd | optStep (skip : Bool)
  | optZeroGrad | modZeroGrad | setHooks (b : Bool) | unwrap
deriving DecidableEq, Repr

def step (fx : Fix) (s : St) : Op → St × Option Err
  | .wrap m => wrap m s
  | .wrapOpt => wrapOpt s
  | .fwd a => fwd a s
  | .bwd => bwd s
  | .optStep k => optStep k s
  | .optZeroGrad => optZeroGrad s
  | .modZeroGrad => modZeroGrad s
  | .setHooks b => setHooks b s
  | .unwrap => unwrap fx s

/-- run a program; an op that raises leaves whatever partial effect it had and the run goes on
(as a Python session would after catching the exception) -/
def run (fx : Fix) (s : St) (ops : List Op) : St := ops.foldl (fun s o => (step fx s o).1) s

def Param.clean (p : Param) : Bool :=
  p.gradSample.isNone && p.fwdCounter.isNone && !p.curGS && p.summedGrad.isNone && !p.normSample

def Layer.clean (l : Layer) : Bool :=
  l.activations.isNone && !l.maxBatchLen && !l.ftCompute && !l.opacusHooks && l.fullBwdFlag.isNone

/-! ### the optimizer wrapper's pass-through (`param_groups`, `state`, `defaults`, `state_dict`) -/

/-- the inner optimizer's three public dictionaries, as opaque values -/
structure Inner (G S D : Type) where
  paramGroups : G
  state : S
  defaults : D

/-- the DP optimizer: a reference to the inner optimizer plus its own live attributes -/
structure DPOpt (G S D X : Type) where
  original : Inner G S D
  own : X        -- noise_multiplier, max_grad_norm, … : not part of any pass-through

def DPOpt.getParamGroups {G S D X} (o : DPOpt G S D X) : G := o.original.paramGroups
def DPOpt.getState {G S D X} (o : DPOpt G S D X) : S := o.original.state
def DPOpt.getDefaults {G S D X} (o : DPOpt G S D X) : D := o.original.defaults
def DPOpt.setParamGroups {G S D X} (o : DPOpt G S D X) (g : G) : DPOpt G S D X :=
  { o with original := { o.original with paramGroups := g } }
def DPOpt.setState {G S D X} (o : DPOpt G S D X) (v : S) : DPOpt G S D X :=
  { o with original := { o.original with state := v } }
def DPOpt.setDefaults {G S D X} (o : DPOpt G S D X) (v : D) : DPOpt G S D X :=
  { o with original := { o.original with defaults := v } }
/-- `state_dict()` / `load_state_dict()` delegate to the inner optimizer -/
def DPOpt.stateDict {G S D X} (o : DPOpt G S D X) : G × S := (o.original.paramGroups, o.original.state)
def DPOpt.loadStateDict {G S D X} (o : DPOpt G S D X) (sd : G × S) : DPOpt G S D X :=
  { o with original := { o.original with paramGroups := sd.1, state := sd.2 } }

/-- the wrapper module: `forward` delegates, `parameters()` are the module's own objects -/
structure Wrapped (X Y : Type) where
  moduleForward : X → Y
  paramIds : List Nat

def Wrapped.forward {X Y} (w : Wrapped X Y) (x : X) : Y := w.moduleForward x

end Opacus.Wrap
