import OpacusLean.Model.Proto
/-! Model of `opacus/layers/dp_multihead_attention.py` (`DPMultiheadAttention.forward`,
`SequenceBias.forward`) and of the function it is supposed to compute (`spec`, the textbook
per-batch-element, per-head attention that `torch.nn.MultiheadAttention` documents).

Tensors are total functions on `Fin` tuples.  `x.contiguous().view(a', b', c')` is modelled
literally: flatten row-major (`flat3`), re-read the same flat buffer under the new shape
(`unflat3`) – see `view3`.  The head split is `view(L, B·h, d).transpose(0, 1)`, the head merge is
`transpose(0, 1).view(L, B, E)` and, AS CODED for `batch_first=True`, `view(B, L, E)` of the
`(B·h, L, d)` buffer.  Everything is generic in the scalar `R`; the scalar operations the layer
needs beyond `+ * 0` (−∞, the scaling constant, the row-wise softmax, division by the number of
heads) are passed as a record `Ops` so that the theorems hold for every choice of them.

Where the unchanged tree deviates from `nn.MultiheadAttention` the model carries both behaviours
(`Variant`); the check detects which one a tree implements. -/
namespace Opacus.Mha

/-! ### sums and memoisation -/

def sumFin {R} [Add R] [Zero R] (n : Nat) (f : Fin n → R) : R :=
  Fin.foldl n (fun acc i => acc + f i) 0

/-- a materialised vector (so that the driver does not recompute a stage on every access) -/
structure Buf (α : Type) (n : Nat) where
  arr : Array α
  size_eq : arr.size = n

def Buf.ofFn {α n} (f : Fin n → α) : Buf α n := ⟨Array.ofFn f, Array.size_ofFn⟩
def Buf.get {α n} (b : Buf α n) (i : Fin n) : α := b.arr[i.val]'(by rw [b.size_eq]; exact i.isLt)

/-! Stages of the pipeline are materialised as *data* (`Buf.ofFn₃ f`) and read back with
`.get₃`; `(Buf.ofFn₃ f).get₃ = f` (lemma `get₃_ofFn₃`).  (A `let`-bound *closure* would be
re-evaluated by the compiled code on every access.) -/
abbrev Buf2 (α : Type) (a b : Nat) := Buf (Buf α b) a
abbrev Buf3 (α : Type) (a b c : Nat) := Buf (Buf2 α b c) a

@[noinline] def Buf.ofFn₂ {α a b} (f : Fin a → Fin b → α) : Buf2 α a b :=
  Buf.ofFn (fun i => Buf.ofFn (f i))
@[noinline] def Buf.ofFn₃ {α a b c} (f : Fin a → Fin b → Fin c → α) : Buf3 α a b c :=
  Buf.ofFn (fun i => Buf.ofFn (fun j => Buf.ofFn (f i j)))
def Buf.get₂ {α a b} (B : Buf2 α a b) (i : Fin a) (j : Fin b) : α := (B.get i).get j
def Buf.get₃ {α a b c} (B : Buf3 α a b c) (i : Fin a) (j : Fin b) (k : Fin c) : α :=
  ((B.get i).get j).get k

/-! ### row-major flat indices -/

theorem enc_lt {a b i j : Nat} (hi : i < a) (hj : j < b) : i * b + j < a * b :=
  Nat.lt_of_lt_of_le (Nat.add_lt_add_left hj _)
    (by rw [← Nat.succ_mul]; exact Nat.mul_le_mul_right _ hi)

/-- flat index of `(i, j)` in a row-major `a × b` block -/
def enc2 {a b : Nat} (i : Fin a) (j : Fin b) : Fin (a * b) := ⟨i.val * b + j.val, enc_lt i.isLt j.isLt⟩

theorem pos_of_lt_mul {a b k : Nat} (h : k < a * b) : 0 < b := by
  cases b with
  | zero => simp at h
  | succ n => exact Nat.succ_pos n

def decL {a b : Nat} (k : Fin (a * b)) : Fin a :=
  ⟨k.val / b, Nat.div_lt_of_lt_mul (Nat.mul_comm a b ▸ k.isLt)⟩
def decR {a b : Nat} (k : Fin (a * b)) : Fin b := ⟨k.val % b, Nat.mod_lt _ (pos_of_lt_mul k.isLt)⟩

/-- `t.contiguous()` as a flat buffer -/
def flat3 {α a b c} (t : Fin a → Fin b → Fin c → α) : Fin (a * b * c) → α :=
  fun n => t (decL (decL n)) (decR (decL n)) (decR n)

/-- a flat buffer read under shape `(a, b, c)` -/
def unflat3 {α a b c} (f : Fin (a * b * c) → α) : Fin a → Fin b → Fin c → α :=
  fun i j k => f (enc2 (enc2 i j) k)

/-- `t.contiguous().view(a', b', c')` -/
def view3 {α a b c a' b' c'} (h : a * b * c = a' * b' * c') (t : Fin a → Fin b → Fin c → α) :
    Fin a' → Fin b' → Fin c' → α :=
  unflat3 (fun n => flat3 t (n.cast h.symm))

def transpose01 {α a b} (x : Fin a → Fin b → α) : Fin b → Fin a → α := fun j i => x i j

/-- `torch.cat([x, y], dim=0)` -/
def catRows {α n m} (x : Fin n → α) (y : Fin m → α) : Fin (n + m) → α :=
  fun i => if h : i.val < n then x ⟨i.val, h⟩ else y ⟨i.val - n, by omega⟩

/-! ### the layer's parameters -/

/-- `nn.Linear(i, o, bias=…)` -/
structure Lin (R : Type) (o i : Nat) where
  w : Fin o → Fin i → R
  b : Option (Fin o → R)

section
variable {R : Type} [Add R] [Mul R] [Zero R]

def Lin.apply {o i} (p : Lin R o i) (x : Fin i → R) : Fin o → R :=
  fun r => match p.b with
    | none => sumFin i (fun e => x e * p.w r e)
    | some b => sumFin i (fun e => x e * p.w r e) + b r

/-- a Linear applied to the last axis of a 3-D tensor -/
def lin3 {o i a b} (p : Lin R o i) (x : Fin a → Fin b → Fin i → R) : Fin a → Fin b → Fin o → R :=
  fun s t => p.apply (x s t)

end

/-- `nkv` = number of rows `SequenceBias` appends: 1 iff `add_bias_kv` (then `bk 0` is
`seq_bias_k.bias`), 0 otherwise.  `h*d` is `embed_dim` (so `num_heads ∣ embed_dim` by construction,
as the constructor asserts). -/
structure Params (R : Type) (h d Kd Vd nkv : Nat) where
  q : Lin R (h * d) (h * d)
  k : Lin R (h * d) Kd
  v : Lin R (h * d) Vd
  o : Lin R (h * d) (h * d)
  bk : Fin nkv → Fin (h * d) → R
  bv : Fin nkv → Fin (h * d) → R

/-- scalar operations that are opaque to the index plumbing -/
structure Ops (R : Type) where
  /-- `float("-inf")` -/
  ninf : R
  /-- `float(head_dim) ** -0.5` -/
  scale : R
  /-- `F.softmax(·, dim=-1)` on one row -/
  softmax : (n : Nat) → (Fin n → R) → Fin n → R
  /-- `· / num_heads` -/
  divH : R → R

/-! ### masks as the caller passes them (any shape: the size checks are part of the model) -/

inductive AttnMask (R : Type) where
  | none
  /-- dtype outside {float32, float64, uint8, bool} -/
  | badDtype
  | b2 (r c : Nat) (v : Fin r → Fin c → Bool)
  | f2 (r c : Nat) (v : Fin r → Fin c → R)
  | b3 (n r c : Nat) (v : Fin n → Fin r → Fin c → Bool)
  | f3 (n r c : Nat) (v : Fin n → Fin r → Fin c → R)
  /-- `attn_mask.dim()` ∉ {2, 3} -/
  | otherDim

inductive Kpm (R : Type) where
  | none
  | bool (r c : Nat) (v : Fin r → Fin c → Bool)
  /-- a floating-point key-padding mask (torch adds it to the scores) -/
  | add (r c : Nat) (v : Fin r → Fin c → R)

inductive Err where
  | maskDtype | maskSize2 | maskSize3 | maskDim | kpmSize | kpmDtype | broadcast
deriving DecidableEq, Repr

inductive V where | asCoded | repaired
deriving DecidableEq, Repr

/-- which behaviour the tree implements at the three places where the unchanged code deviates -/
structure Variant where
  /-- `batch_first` head merge: `view(B, L, E)` of the `(B·h, L, d)` buffer | transpose first -/
  merge : V
  /-- `batch_first` mask size check against `query.size(0)`, `key.size(0)` (= B, B) | against L, S -/
  maskCheck : V
  /-- float `key_padding_mask`: `masked_fill` raises | added to the scores -/
  kpmFloat : V

/-- `attn_mask` after the checks: always 3-D -/
inductive Mask3 (R : Type) where
  | bool (n r c : Nat) (v : Fin n → Fin r → Fin c → Bool)
  | add (n r c : Nat) (v : Fin n → Fin r → Fin c → R)

/-- the dtype / dim / size checks on `attn_mask` (`q0 = query.size(0)`, `k0 = key.size(0)`,
`bh = bsz * num_heads`) followed by `unsqueeze(0)` of a 2-D mask -/
def checkMask {R} (q0 k0 bh : Nat) : AttnMask R → Except Err (Option (Mask3 R))
  | .none => .ok none
  | .badDtype => .error .maskDtype
  | .b2 r c v => if r = q0 ∧ c = k0 then .ok (some (.bool 1 r c (fun _ => v))) else .error .maskSize2
  | .f2 r c v => if r = q0 ∧ c = k0 then .ok (some (.add 1 r c (fun _ => v))) else .error .maskSize2
  | .b3 n r c v => if n = bh ∧ r = q0 ∧ c = k0 then .ok (some (.bool n r c v)) else .error .maskSize3
  | .f3 n r c v => if n = bh ∧ r = q0 ∧ c = k0 then .ok (some (.add n r c v)) else .error .maskSize3
  | .otherDim => .error .maskDim

/-- `F.pad(x, (0, n))` on the last axis with `fillv` -/
def padLast {α a b c} (n : Nat) (fillv : α) (x : Fin a → Fin b → Fin c → α) :
    Fin a → Fin b → Fin (c + n) → α :=
  fun i j k => if h : k.val < c then x i j ⟨k.val, h⟩ else fillv

def padLast2 {α a c} (n : Nat) (fillv : α) (x : Fin a → Fin c → α) : Fin a → Fin (c + n) → α :=
  fun i k => if h : k.val < c then x i ⟨k.val, h⟩ else fillv

def Mask3.pad {R} [Zero R] (k : Nat) : Mask3 R → Mask3 R
  | .bool n r c v => .bool n r (c + k) (padLast k false v)
  | .add n r c v => .add n r (c + k) (padLast k 0 v)

def Kpm.pad {R} [Zero R] (k : Nat) : Kpm R → Kpm R
  | .none => .none
  | .bool r c v => .bool r (c + k) (padLast2 k false v)
  | .add r c v => .add r (c + k) (padLast2 k 0 v)

/-- torch broadcasting of one axis of size `n` against a target axis of size `m` -/
def bcast (n m : Nat) : Option (Fin m → Fin n) :=
  if h : n = m then some (fun i => i.cast h.symm)
  else if h1 : n = 1 then some (fun _ => ⟨0, by omega⟩)
  else none

/-- `scores.masked_fill_(mask, -inf)` / `scores += mask` with broadcasting -/
def Mask3.apply {R} [Add R] {a b c} (ninf : R) (m : Mask3 R) (x : Fin a → Fin b → Fin c → R) :
    Except Err (Fin a → Fin b → Fin c → R) :=
  match m with
  | .bool n r cc v =>
    match bcast n a, bcast r b, bcast cc c with
    | some f0, some f1, some f2 => .ok (fun i j k => if v (f0 i) (f1 j) (f2 k) then ninf else x i j k)
    | _, _, _ => .error .broadcast
  | .add n r cc v =>
    match bcast n a, bcast r b, bcast cc c with
    | some f0, some f1, some f2 => .ok (fun i j k => x i j k + v (f0 i) (f1 j) (f2 k))
    | _, _, _ => .error .broadcast

/-- `if attn_mask is not None: …` -/
def applyMask? {R} [Add R] {a b c} (ninf : R) (m : Option (Mask3 R)) (x : Fin a → Fin b → Fin c → R) :
    Except Err (Fin a → Fin b → Fin c → R) :=
  match m with
  | none => .ok x
  | some mm => mm.apply ninf x

/-- `assert key_padding_mask.size(0) == bsz`, `.size(1) == src_len` -/
def Kpm.check {R} (B S : Nat) : Kpm R → Except Err Unit
  | .none => .ok ()
  | .bool r c _ => if r = B ∧ c = S then .ok () else .error .kpmSize
  | .add r c _ => if r = B ∧ c = S then .ok () else .error .kpmSize

/-- `scores.view(B, h, L, S).masked_fill(kpm.unsqueeze(1).unsqueeze(2), -inf).view(B·h, L, S)`;
the leading-axis view is the flat index `b·h + head` (`decL`) -/
def Kpm.apply {R} [Add R] {B h L S} (vr : V) (ninf : R) (kp : Kpm R)
    (x : Fin (B * h) → Fin L → Fin S → R) : Except Err (Fin (B * h) → Fin L → Fin S → R) :=
  match kp with
  | .none => .ok x
  | .bool r c v =>
    match bcast r B, bcast c S with
    | some f0, some f2 => .ok (fun j l s => if v (f0 (decL j)) (f2 s) then ninf else x j l s)
    | _, _ => .error .broadcast
  | .add r c v =>
    match vr with
    | .asCoded => .error .kpmDtype
    | .repaired =>
      match bcast r B, bcast c S with
      | some f0, some f2 => .ok (fun j l s => x j l s + v (f0 (decL j)) (f2 s))
      | _, _ => .error .broadcast

/-! ### head split / merge -/

theorem split_shape (T B h d : Nat) : T * B * (h * d) = T * (B * h) * d := by
  simp only [Nat.mul_assoc]

/-- `x.contiguous().view(T, B·h, d).transpose(0, 1)` -/
def splitHeads {α T B h d} (x : Fin T → Fin B → Fin (h * d) → α) : Fin (B * h) → Fin T → Fin d → α :=
  transpose01 (view3 (split_shape T B h d) x)

/-- `y.transpose(0, 1).contiguous().view(L, B, E)` -/
def mergeHeads {α L B h d} (y : Fin (B * h) → Fin L → Fin d → α) : Fin L → Fin B → Fin (h * d) → α :=
  view3 (split_shape L B h d).symm (transpose01 y)

theorem bf_shape (L B h d : Nat) : B * h * L * d = B * L * (h * d) := by
  simp only [Nat.mul_assoc, Nat.mul_left_comm h L d]

/-- AS CODED for `batch_first=True`: `y.contiguous().view(B, L, E)` (no transpose) -/
def mergeHeadsBFCoded {α L B h d} (y : Fin (B * h) → Fin L → Fin d → α) :
    Fin B → Fin L → Fin (h * d) → α :=
  view3 (bf_shape L B h d) y

/-! ### the attention core (everything between the projections and the head merge) -/

section
variable {R : Type} [Add R] [Mul R] [Zero R]

/-- `SequenceBias.forward` with `batch_first=False`: `cat([x, bias.repeat(1, bsz, 1)])` -/
def seqBias {S B E nkv} (x : Fin S → Fin B → Fin E → R) (bias : Fin nkv → Fin E → R) :
    Fin (S + nkv) → Fin B → Fin E → R :=
  catRows x (fun r _ e => bias r e)

/-- `torch.cat([k, zeros(k.size(0), 1, d)], dim=1)` (`nz` = 1 iff `add_zero_attn`) -/
def zeroAttn {J S d} (nz : Nat) (x : Fin J → Fin S → Fin d → R) : Fin J → Fin (S + nz) → Fin d → R :=
  fun j => catRows (x j) (fun _ _ => 0)

/-- `torch.bmm(q, k.transpose(1, 2))` -/
def bmmQK {J L S d} (q : Fin J → Fin L → Fin d → R) (k : Fin J → Fin S → Fin d → R) :
    Fin J → Fin L → Fin S → R :=
  fun j l s => sumFin d (fun c => q j l c * k j s c)

/-- `torch.bmm(w, v)` -/
def bmmWV {J L S d} (w : Fin J → Fin L → Fin S → R) (v : Fin J → Fin S → Fin d → R) :
    Fin J → Fin L → Fin d → R :=
  fun j l c => sumFin S (fun s => w j l s * v j s c)

/-- pre-softmax scores, attention weights per (batch·head), per-head outputs -/
structure Core (R : Type) (B h L S2 d : Nat) where
  scores : Fin (B * h) → Fin L → Fin S2 → R
  w : Fin (B * h) → Fin L → Fin S2 → R
  attn : Fin (B * h) → Fin L → Fin d → R

/-- lines 279–352 of `forward`: `q k v` are the projected (and, for `q`, scaled) tensors in
sequence-first layout, `m` the checked 3-D mask, `kf` the float-key-padding-mask variant -/
def core {h d B L S nkv : Nat} (ops : Ops R) (kf : V) (nz : Nat)
    (q : Fin L → Fin B → Fin (h * d) → R) (k v : Fin S → Fin B → Fin (h * d) → R)
    (bk bv : Fin nkv → Fin (h * d) → R) (m : Option (Mask3 R)) (kp : Kpm R) :
    Except Err (Core R B h L (S + nkv + nz) d) := do
  -- add_bias_kv
  let k1 := Buf.ofFn₃ (seqBias k bk)
  let v1 := Buf.ofFn₃ (seqBias v bv)
  let m1 := m.map (Mask3.pad nkv)
  let kp1 := kp.pad nkv
  -- head split
  let qh := Buf.ofFn₃ (splitHeads q)
  let kh := Buf.ofFn₃ (splitHeads k1.get₃)
  let vh := Buf.ofFn₃ (splitHeads v1.get₃)
  Kpm.check B (S + nkv) kp1
  -- add_zero_attn
  let kh2 := Buf.ofFn₃ (zeroAttn nz kh.get₃)
  let vh2 := Buf.ofFn₃ (zeroAttn nz vh.get₃)
  let m2 := m1.map (Mask3.pad nz)
  let kp2 := kp1.pad nz
  let s0 := Buf.ofFn₃ (bmmQK qh.get₃ kh2.get₃)
  let s1 ← applyMask? ops.ninf m2 s0.get₃
  let s2 ← kp2.apply kf ops.ninf s1
  let s2 := Buf.ofFn₃ s2
  let w := Buf.ofFn₃ (fun j l => ops.softmax _ (s2.get₃ j l))
  let attn := Buf.ofFn₃ (bmmWV w.get₃ vh2.get₃)
  pure ⟨s2.get₃, w.get₃, attn.get₃⟩

/-- `attn_output_weights.view(B, h, L, S).sum(dim=1) / num_heads` -/
def avgWeights {B h L S2} (ops : Ops R) (w : Fin (B * h) → Fin L → Fin S2 → R) :
    Fin B → Fin L → Fin S2 → R :=
  fun b l s => ops.divH (sumFin h (fun hd => w (enc2 b hd) l s))

/-- what `forward` returns, plus the pre-softmax scores (observed in the real code at the call of
`F.softmax`) -/
structure Out (R : Type) (o0 o1 E B h L S2 : Nat) where
  out : Fin o0 → Fin o1 → Fin E → R
  w : Fin B → Fin L → Fin S2 → R
  scores : Fin (B * h) → Fin L → Fin S2 → R

def scaleQ {a b c} (ops : Ops R) (x : Fin a → Fin b → Fin c → R) : Fin a → Fin b → Fin c → R :=
  fun i j e => x i j e * ops.scale

/-- `DPMultiheadAttention.forward`, `batch_first=False` -/
def forwardSF {h d Kd Vd nkv B L S : Nat} (ops : Ops R) (vr : Variant) (P : Params R h d Kd Vd nkv)
    (nz : Nat) (query : Fin L → Fin B → Fin (h * d) → R) (key : Fin S → Fin B → Fin Kd → R)
    (value : Fin S → Fin B → Fin Vd → R) (am : AttnMask R) (kp : Kpm R) :
    Except Err (Out R L B (h * d) B h L (S + nkv + nz)) := do
  let q := Buf.ofFn₃ (scaleQ ops (lin3 P.q query))
  let k := Buf.ofFn₃ (lin3 P.k key)
  let v := Buf.ofFn₃ (lin3 P.v value)
  let m ← checkMask L S (B * h) am
  let c ← core ops vr.kpmFloat nz q.get₃ k.get₃ v.get₃ P.bk P.bv m kp
  let merged := Buf.ofFn₃ (mergeHeads c.attn)
  let out := Buf.ofFn₃ (lin3 P.o merged.get₃)
  let w := Buf.ofFn₃ (avgWeights ops c.w)
  pure ⟨out.get₃, w.get₃, c.scores⟩

/-- `DPMultiheadAttention.forward`, `batch_first=True` (inputs and output are `(B, ·, ·)`) -/
def forwardBF {h d Kd Vd nkv B L S : Nat} (ops : Ops R) (vr : Variant) (P : Params R h d Kd Vd nkv)
    (nz : Nat) (query : Fin B → Fin L → Fin (h * d) → R) (key : Fin B → Fin S → Fin Kd → R)
    (value : Fin B → Fin S → Fin Vd → R) (am : AttnMask R) (kp : Kpm R) :
    Except Err (Out R B L (h * d) B h L (S + nkv + nz)) := do
  let q := Buf.ofFn₃ (transpose01 (scaleQ ops (lin3 P.q query)))
  let k := Buf.ofFn₃ (transpose01 (lin3 P.k key))
  let v := Buf.ofFn₃ (transpose01 (lin3 P.v value))
  -- `query.size(0)` / `key.size(0)` are read from the *untransposed* inputs
  let m ← match vr.maskCheck with
    | .asCoded => checkMask B B (B * h) am
    | .repaired => checkMask L S (B * h) am
  let c ← core ops vr.kpmFloat nz q.get₃ k.get₃ v.get₃ P.bk P.bv m kp
  let merged := match vr.merge with
    | .asCoded => Buf.ofFn₃ (mergeHeadsBFCoded c.attn)
    | .repaired => Buf.ofFn₃ (transpose01 (mergeHeads c.attn))
  let out := Buf.ofFn₃ (lin3 P.o merged.get₃)
  let w := Buf.ofFn₃ (avgWeights ops c.w)
  pure ⟨out.get₃, w.get₃, c.scores⟩

/-! ### the specification: per batch element and head `softmax(q_h k_hᵀ·scale + mask) v_h`,
heads concatenated, output projection; weights averaged over heads.  Masks are typed with the
shapes `nn.MultiheadAttention` accepts. -/

inductive SMask (R : Type) (Bh L S : Nat) where
  | none
  | b2 (v : Fin L → Fin S → Bool)
  | f2 (v : Fin L → Fin S → R)
  | b3 (v : Fin Bh → Fin L → Fin S → Bool)
  | f3 (v : Fin Bh → Fin L → Fin S → R)

inductive SKpm (R : Type) (B S : Nat) where
  | none
  | bool (v : Fin B → Fin S → Bool)
  | add (v : Fin B → Fin S → R)

def SMask.toModel {R Bh L S} : SMask R Bh L S → AttnMask R
  | .none => .none
  | .b2 v => .b2 L S v
  | .f2 v => .f2 L S v
  | .b3 v => .b3 Bh L S v
  | .f3 v => .f3 Bh L S v

def SKpm.toModel {R B S} : SKpm R B S → Kpm R
  | .none => .none
  | .bool v => .bool B S v
  | .add v => .add B S v

/-- effect of the attention mask on the score of (batch·head `j`, target `l`, source `s`);
appended keys (bias / zero attention) are never masked -/
def SMask.on {Bh L S} (ninf : R) (m : SMask R Bh L S) (n : Nat) (j : Fin Bh) (l : Fin L)
    (s : Fin (S + n)) (x : R) : R :=
  if hs : s.val < S then
    match m with
    | .none => x
    | .b2 v => if v l ⟨s.val, hs⟩ then ninf else x
    | .f2 v => x + v l ⟨s.val, hs⟩
    | .b3 v => if v j l ⟨s.val, hs⟩ then ninf else x
    | .f3 v => x + v j l ⟨s.val, hs⟩
  else x

def SKpm.on {B S} (ninf : R) (kp : SKpm R B S) (n : Nat) (b : Fin B) (s : Fin (S + n)) (x : R) : R :=
  if hs : s.val < S then
    match kp with
    | .none => x
    | .bool v => if v b ⟨s.val, hs⟩ then ninf else x
    | .add v => x + v b ⟨s.val, hs⟩
  else x

/-- keys / values the heads attend to: the projected sequence, then the bias row(s), then the zero
row(s) -/
def specKeys {S B E nkv} (nz : Nat) (x : Fin S → Fin B → Fin E → R) (bias : Fin nkv → Fin E → R) :
    Fin (S + nkv + nz) → Fin B → Fin E → R :=
  catRows (catRows x (fun r _ e => bias r e)) (fun _ _ _ => 0)

structure Head (R : Type) (L S2 d : Nat) where
  scores : Fin L → Fin S2 → R
  w : Fin L → Fin S2 → R
  o : Fin L → Fin d → R

theorem add_assoc' (S nkv nz : Nat) : S + nkv + nz = S + (nkv + nz) := Nat.add_assoc ..

/-- one head of one batch element -/
def specHead {h d B L S nkv : Nat} (ops : Ops R) (nz : Nat)
    (q : Fin L → Fin B → Fin (h * d) → R) (ks vs : Fin (S + nkv + nz) → Fin B → Fin (h * d) → R)
    (m : SMask R (B * h) L S) (kp : SKpm R B S) (b : Fin B) (hd : Fin h) :
    Head R L (S + nkv + nz) d :=
  let scores := Buf.ofFn₂ (fun (l : Fin L) (s : Fin (S + nkv + nz)) =>
    kp.on ops.ninf (nkv + nz) b (s.cast (add_assoc' ..))
      (m.on ops.ninf (nkv + nz) (enc2 b hd) l (s.cast (add_assoc' ..))
        (sumFin d (fun c => q l b (enc2 hd c) * ks s b (enc2 hd c)))))
  let w := Buf.ofFn₂ (fun l => ops.softmax _ (scores.get₂ l))
  let o := Buf.ofFn₂ (fun (l : Fin L) (c : Fin d) =>
    sumFin (S + nkv + nz) (fun s => w.get₂ l s * vs s b (enc2 hd c)))
  ⟨scores.get₂, w.get₂, o.get₂⟩

/-- the function `nn.MultiheadAttention` computes (sequence-first layout) -/
def spec {h d Kd Vd nkv B L S : Nat} (ops : Ops R) (P : Params R h d Kd Vd nkv) (nz : Nat)
    (query : Fin L → Fin B → Fin (h * d) → R) (key : Fin S → Fin B → Fin Kd → R)
    (value : Fin S → Fin B → Fin Vd → R) (m : SMask R (B * h) L S) (kp : SKpm R B S) :
    Out R L B (h * d) B h L (S + nkv + nz) :=
  let q := Buf.ofFn₃ (scaleQ ops (lin3 P.q query))
  let ks := Buf.ofFn₃ (specKeys nz (lin3 P.k key) P.bk)
  let vs := Buf.ofFn₃ (specKeys nz (lin3 P.v value) P.bv)
  let heads := Buf.ofFn₂ (fun (b : Fin B) (hd : Fin h) => specHead ops nz q.get₃ ks.get₃ vs.get₃ m kp b hd)
  -- heads concatenated along the embedding axis: column `e` belongs to head `e / d`
  let cat := Buf.ofFn₃ (fun (l : Fin L) (b : Fin B) (e : Fin (h * d)) => (heads.get₂ b (decL e)).o l (decR e))
  let out := Buf.ofFn₃ (lin3 P.o cat.get₃)
  let w := Buf.ofFn₃ (fun (b : Fin B) (l : Fin L) (s : Fin (S + nkv + nz)) =>
    ops.divH (sumFin h (fun hd => (heads.get₂ b hd).w l s)))
  ⟨out.get₃, w.get₃, fun j l s => (heads.get₂ (decL j) (decR j)).scores l s⟩

/-- batch-first layout: the same function between transposes -/
def specBF {h d Kd Vd nkv B L S : Nat} (ops : Ops R) (P : Params R h d Kd Vd nkv) (nz : Nat)
    (query : Fin B → Fin L → Fin (h * d) → R) (key : Fin B → Fin S → Fin Kd → R)
    (value : Fin B → Fin S → Fin Vd → R) (m : SMask R (B * h) L S) (kp : SKpm R B S) :
    Out R B L (h * d) B h L (S + nkv + nz) :=
  let o := spec ops P nz (transpose01 query) (transpose01 key) (transpose01 value) m kp
  ⟨transpose01 o.out, o.w, o.scores⟩

end

end Opacus.Mha
