import OpacusLean.Model.Proto
import OpacusLean.Model.Dist
/-! line-protocol interpreter for the C18 driver (kept in the library so that it is compiled once; `Drivers/C18.lean` only calls `handle`)

driver for C18 (`Float` instance of `OpacusLean.Model.Dist`).  One request per line:

  run <A|H> <mean|sum> <fxEmpty 0|1> <fxScale 0|1> <W> <P> <dims…P> <E> <k> <lr> <std> <noisy 0|1>
      <flat|perlayer> <C…P> <init: W·D floats> <T> { per step: { per rank: <n> <n·D floats> } <noise: W·P floats> <noise of the single-process run: P floats> }

  A = DistributedDPOptimizer / ghost twin / SimpleDistributedPerLayerOptimizer (pre_step + reduce_gradients)
  H = DistributedPerLayerOptimizer under torch DDP (per-parameter hook + DDP averaging)
  D = Σ dims; floats are binary64 hex; noise = the value the patched `torch.normal` returns on
  that rank for that parameter in that step (a constant tensor).

  avg <W> <P> <dims…P> <W·D floats>      `opacus.distributed.average_gradients`; reply: W·D floats

reply:  `ok|<params after DPDDP construction, W·D>|<per step, per rank: grad D, params D>|<union run: per step grad D, params D>|<draws per step: n {rank p std}>|<expected_batch_size of the distributed / single-process optimizer>`
   or   `err <t> <ranks…>|…` with the steps before `t` (the hook raised on those ranks at step `t`). -/
namespace Opacus.DistDriver
open Opacus Opacus.Proto Opacus.Dist

instance : NatCast Float := ⟨Nat.toFloat⟩

def offsets (dims : List Nat) : List Nat := (dims.foldl (fun (acc : List Nat × Nat) d => (acc.1 ++ [acc.2], acc.2 + d)) ([], 0)).1

def mkGrad (dimsL : List Nat) (a : Array Float) (base : Nat) : Grad Float dimsL.length (fun p => dimsL[p]) :=
  let offs := (offsets dimsL).toArray
  fun p i => a.getD (base + offs.getD p.val 0 + i.val) 0.0

def flatten {dimsL : List Nat} (g : Grad Float dimsL.length (fun p => dimsL[p])) : List Float :=
  (List.ofFn fun p : Fin dimsL.length => List.ofFn fun i : Fin dimsL[p] => g p i).flatten

/-- evaluate once, so that closures do not nest across steps -/
def freeze {dimsL : List Nat} (g : Grad Float dimsL.length (fun p => dimsL[p])) :
    Grad Float dimsL.length (fun p => dimsL[p]) :=
  mkGrad dimsL (flatten g).toArray 0

def sq (x : Float) : Float := x * x

def normOf {n : Nat} (v : Fin n → Float) : Float := Float.sqrt (sumFin n fun i => sq (v i))

def fmin (a b : Float) : Float := if a < b then a else b

/-- flat clipping: `per_param_norms → stack → norm`, `(C / (norm + 1e-6)).clamp(max=1)` -/
def clipFlat {dimsL : List Nat} (C : Float) (g : Grad Float dimsL.length (fun p => dimsL[p])) :
    Fin dimsL.length → Float :=
  let n := Float.sqrt (sumFin dimsL.length fun p => sq (normOf (g p)))
  fun _ => fmin 1.0 (C / (n + 1e-6))

def clipPerLayer {dimsL : List Nat} (Cs : Array Float) (g : Grad Float dimsL.length (fun p => dimsL[p])) :
    Fin dimsL.length → Float :=
  fun p => fmin 1.0 (Cs.getD p.val 0.0 / (normOf (g p) + 1e-6))

structure Hdr where
  hook : Bool
  red : Reduction
  fxEmpty : Fix
  fxScale : Fix
  W : Nat
  dimsL : List Nat
  E : Float
  k : Float
  lr : Float
  std : Float
  noisy : Bool
  perLayer : Bool
  Cs : List Float

def fix? (s : String) : Option Fix := if s = "0" then some .asCoded else if s = "1" then some .repaired else none

def parseHdr : List String → Option (Hdr × List String)
  | v :: red :: fe :: fs :: w :: rest => do
    let hook ← if v = "A" then some false else if v = "H" then some true else none
    let red ← if red = "mean" then some Reduction.mean else if red = "sum" then some Reduction.sum else none
    let fe ← fix? fe
    let fs ← fix? fs
    let W ← w.toNat?
    let (dimsL, rest) ← takeList? String.toNat? rest
    match rest with
    | e :: k :: lr :: std :: noisy :: mode :: rest =>
      let E ← float? e
      let k ← float? k
      let lr ← float? lr
      let std ← float? std
      let noisy ← bool? noisy
      let perLayer ← if mode = "flat" then some false else if mode = "perlayer" then some true else none
      if rest.length < dimsL.length then none else
      let Cs ← (rest.take dimsL.length).mapM float?
      pure (⟨hook, red, fe, fs, W, dimsL, E, k, lr, std, noisy, perLayer, Cs⟩, rest.drop dimsL.length)
    | _ => none
  | _ => none

/-- `n` + rows for each of `W` ranks -/
def parseShards (D : Nat) : Nat → List String → Option (List (Array Float × Nat) × List String)
  | 0, toks => some ([], toks)
  | w + 1, n :: rest => do
    let n ← n.toNat?
    if rest.length < n * D then none else
    let xs ← (rest.take (n * D)).mapM float?
    let (more, toks) ← parseShards D w (rest.drop (n * D))
    pure ((xs.toArray, n) :: more, toks)
  | _ + 1, [] => none

structure StepTok where
  shards : Array (Array Float × Nat)
  zs : Array Float
  zsingle : Array Float

/-- per step: per rank `n` + rows, then `W·P` noise values, then `P` noise values of the single-process run -/
def parseSteps (W D P : Nat) : Nat → List String → Option (List StepTok × List String)
  | 0, toks => some ([], toks)
  | t + 1, toks => do
    let (sh, toks) ← parseShards D W toks
    if toks.length < W * P + P then none else
    let zs ← (toks.take (W * P)).mapM float?
    let zu ← ((toks.drop (W * P)).take P).mapM float?
    let (more, toks) ← parseSteps W D P t (toks.drop (W * P + P))
    pure (⟨sh.toArray, zs.toArray, zu.toArray⟩ :: more, toks)

abbrev G (dimsL : List Nat) := Grad Float dimsL.length (fun p => dimsL[p])

structure St (dimsL : List Nat) (W : Nat) where
  θ : Fin W → G dimsL
  θu : G dimsL
  t : Nat
  stepOut : List Float
  unionOut : List Float
  drawOut : List String
  err : Option String

def stepCase (h : Hdr) (W : Nat) (_hW : 0 < W) (cD cS : Cfg Float h.dimsL.length (fun p => h.dimsL[p]))
    (s : St h.dimsL W) (tok : StepTok) : St h.dimsL W :=
  let dimsL := h.dimsL
  let P := dimsL.length
  let D := dimsL.foldl (· + ·) 0
  let shA : Array (List (G dimsL)) := (List.ofFn fun w : Fin W =>
      let (xs, n) := tok.shards.getD w.val (#[], 0)
      (List.range n).map fun j => mkGrad dimsL xs (j * D)).toArray
  let sh : Fin W → List (G dimsL) := fun w => shA.getD w.val []
  let z : Fin W → G dimsL := fun w => fun p _ => tok.zs.getD (w.val * P + p.val) 0.0
  let zu : G dimsL := fun p _ => tok.zsingle.getD p.val 0.0
  -- single-process reference on the union batch (never fails)
  let gu := freeze (singleStepGrad cS (unionBatch sh) zu)
  let θu := freeze (sgd cS.lr s.θu gu)
  let s := { s with θu := θu, unionOut := s.unionOut ++ flatten gu ++ flatten θu, t := s.t + 1 }
  if s.err.isSome then s else
  let res : Except (List (Fin W)) (Fin W → G dimsL) :=
    if h.hook then hookStepGrad h.fxEmpty h.fxScale cD sh z else .ok (ddpStepGrad cD sh z)
  match res with
  | .error bad => { s with err := some s!"err {s.t - 1} {joinNats (bad.map (·.val))}" }
  | .ok g =>
    let gA := (List.ofFn fun w => (flatten (g w)).toArray).toArray
    let gF : Fin W → G dimsL := fun w => mkGrad dimsL (gA.getD w.val #[]) 0
    let θA := (List.ofFn fun w => (flatten (sgd cD.lr (s.θ w) (gF w))).toArray).toArray
    let θ : Fin W → G dimsL := fun w => mkGrad dimsL (θA.getD w.val #[]) 0
    let dr := ddpDraws cD W
    { s with θ := θ,
             stepOut := s.stepOut ++ (List.ofFn fun w => flatten (gF w) ++ flatten (θ w)).flatten,
             drawOut := s.drawOut ++ [toString dr.length] ++ dr.map fun (w, p, sd) => s!"{w.val} {p.val} {floatHex sd}" }

def runCase (h : Hdr) (toks : List String) : Option String :=
  let dimsL := h.dimsL
  let P := dimsL.length
  let D := dimsL.foldl (· + ·) 0
  let W := h.W
  if hW : 0 < W then
    if toks.length < W * D + 1 then none else
    match (toks.take (W * D)).mapM float?, (toks.drop (W * D)).head?.bind String.toNat? with
    | some initL, some T =>
      match parseSteps W D P T (toks.drop (W * D + 1)) with
      | some (steps, []) =>
        let initA := initL.toArray
        let clip : G dimsL → Fin P → Float :=
          if h.perLayer then clipPerLayer h.Cs.toArray else clipFlat (h.Cs.headD 0.0)
        let cD : Cfg Float P (fun p => dimsL[p]) :=
          ⟨h.red, engineEbs h.E true W, h.k, h.std, h.noisy, h.lr, clip⟩
        let cS : Cfg Float P (fun p => dimsL[p]) := cD.withEbs (engineEbs h.E false W)
        let θ0 : Fin W → G dimsL := fun w => mkGrad dimsL initA (w.val * D)
        -- DPDDP / DDP construction
        let θ : Fin W → G dimsL := dpddpInit hW θ0
        let initOut := (List.ofFn fun w => flatten (θ w)).flatten
        let s0 : St dimsL W := ⟨θ, θ0 ⟨0, hW⟩, 0, [], [], [], none⟩
        let s := steps.foldl (stepCase h W hW cD cS) s0
        let head := s.err.getD "ok"
        some s!"{head}|{joinFloats initOut}|{joinFloats s.stepOut}|{joinFloats s.unionOut}|{" ".intercalate s.drawOut}|{floatHex cD.ebs} {floatHex cS.ebs}"
      | _ => none
    | _, _ => none
  else none

/-- `avg <W> <P> <dims…> <W·D floats>` → `average_gradients` on every rank (W·D floats) -/
def runAvg (toks : List String) : Option String := do
  match toks with
  | w :: rest =>
    let W ← w.toNat?
    let (dimsL, rest) ← takeList? String.toNat? rest
    let D := dimsL.foldl (· + ·) 0
    if rest.length ≠ W * D then none else
    let a := (← rest.mapM float?).toArray
    let x : Fin W → G dimsL := fun w => mkGrad dimsL a (w.val * D)
    pure (joinFloats (List.ofFn fun w => flatten (averageGradients x w)).flatten)
  | [] => none

def handle (line : String) : String :=
  match words line with
  | "avg" :: rest => (runAvg rest).getD "bad-op"
  | "run" :: rest =>
    match parseHdr rest with
    | some (h, toks) => (runCase h toks).getD "bad-op"
    | none => "bad-op"
  | _ => "bad-op"


end Opacus.DistDriver
