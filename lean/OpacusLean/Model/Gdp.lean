import OpacusLean.Model.AcctHistory
/-! Model of `opacus/accountants/analysis/gdp.py` and `GaussianAccountant.get_epsilon`.
`phi` is `scipy.stats.norm.cdf` (supplied by the harness; Lean's `Float` has no `erf`). -/
namespace Opacus.Gdp
open Opacus.Rdp RScalar

variable {R : Type} [RScalar R]

/-- `compute_mu_poisson`: `sqrt(exp(sigma**-2) - 1) * sqrt(steps) * sample_rate` -/
def muPoisson (steps : Nat) (sigma q : R) : R :=
  sqrt (exp (ofNat 1 / (sigma * sigma)) - ofNat 1) * sqrt (ofNat steps) * q

/-- `compute_mu_uniform` -/
def muUniform (phi : R → R) (steps : Nat) (sigma q : R) : R :=
  let c := q * sqrt (ofNat steps)
  sqrt (ofNat 2) * c *
    sqrt (exp (ofNat 1 / (sigma * sigma)) * phi (ofNat 3 / ofNat 2 / sigma)
      + ofNat 3 * phi (-(ofNat 1 / ofNat 2) / sigma) - ofNat 2)

/-- the two points at which `delta_eps_mu` evaluates `norm.cdf` -/
def deltaArgs (eps mu : R) : R × R := (-eps / mu + mu / ofNat 2, -eps / mu - mu / ofNat 2)

/-- `delta_eps_mu(eps=, mu=)` -/
def deltaEpsMu (phi : R → R) (eps mu : R) : R :=
  phi (-eps / mu + mu / ofNat 2) - exp eps * phi (-eps / mu - mu / ofNat 2)

/-- specification of `eps_from_mu` : the value returned is a root of `delta_eps_mu(·, mu) - delta`;
the driver reports this residual for the implementation's epsilon -/
def rootResidual (phi : R → R) (mu delta eps : R) : R := deltaEpsMu phi eps mu - delta

/-- the `mu` that `GaussianAccountant.get_epsilon(delta, poisson=True)` feeds to `eps_from_mu`
(`history[-1]`; an empty history is an `IndexError`, here `none`) -/
def acctMu (h : Hist R) : Option R :=
  match h.getLast? with
  | none => none
  | some (s, q, n) => some (muPoisson n s q)

end Opacus.Gdp
