/-! # `get_noise_multiplier` (opacus/accountants/utils.py), generic in the scalar

The accountant is an abstract function `eps : R → R` (σ ↦ ε of the history `[(σ, q, steps)]` at the
target δ).  The two `while` loops are fuel-bounded; running out of fuel is an explicit outcome
(`outOfFuel`), never a default value.  The comparisons are transcribed literally:

```
eps_high = float("inf"); sigma_low, sigma_high = 0, 10
while eps_high > target_epsilon:
    sigma_high = 2 * sigma_high
    eps_high = eps(sigma_high)
    if sigma_high > MAX_SIGMA: raise ValueError("The privacy budget is too low.")
while target_epsilon - eps_high > epsilon_tolerance:
    sigma = (sigma_low + sigma_high) / 2
    eps = eps(sigma)
    if eps < target_epsilon: sigma_high = sigma; eps_high = eps
    else: sigma_low = sigma
return sigma_high
```

Note the order inside the first loop: `eps` is evaluated *before* the `MAX_SIGMA` test, and the
test raises even when that `eps` already meets the target.  `inf` is a parameter (`float("inf")`
at `Float`); the theorems assume `target < inf`.

Every σ at which `eps` is evaluated is logged (in evaluation order), so the correspondence
compares the whole query sequence, not only the result. -/
namespace Opacus.Calib

inductive Res (R : Type) where
  | ok (sigma : R)
  | budgetTooLow
  | outOfFuel
deriving Repr, DecidableEq

structure Out (R : Type) where
  res : Res R
  /-- σ values handed to the accountant, most recent first -/
  log : List R

section
variable {R : Type} [Add R] [Sub R] [Mul R] [Div R] [LT R] [DecidableLT R] [OfNat R 2]

/-- second loop; state = `(sigma_low, sigma_high, eps_high)` -/
def bisect (eps : R → R) (target tol : R) : Nat → R → R → R → List R → Out R
  | 0, _, hi, epsHi, log =>
      if tol < target - epsHi then ⟨.outOfFuel, log⟩ else ⟨.ok hi, log⟩
  | fuel + 1, lo, hi, epsHi, log =>
      if tol < target - epsHi then
        let sigma := (lo + hi) / 2
        let e := eps sigma
        if e < target then bisect eps target tol fuel lo sigma e (sigma :: log)
        else bisect eps target tol fuel sigma hi epsHi (sigma :: log)
      else ⟨.ok hi, log⟩

/-- outcome of the first loop -/
inductive Dbl (R : Type) where
  | done (hi epsHi : R) (log : List R)
  | budgetTooLow (log : List R)
  | outOfFuel (log : List R)

/-- first loop; state = `(sigma_high, eps_high)` -/
def doubling (eps : R → R) (target maxSigma : R) : Nat → R → R → List R → Dbl R
  | 0, hi, epsHi, log => if target < epsHi then .outOfFuel log else .done hi epsHi log
  | fuel + 1, hi, epsHi, log =>
      if target < epsHi then
        let hi' := 2 * hi
        let e := eps hi'
        if maxSigma < hi' then .budgetTooLow (hi' :: log)
        else doubling eps target maxSigma fuel hi' e (hi' :: log)
      else .done hi epsHi log

/-- `get_noise_multiplier` after `steps` has been fixed.  `lo0 = 0`, `hi0 = 10`, `inf = float("inf")`
in the real code; they are parameters so that the same definition runs at `Float` and is reasoned
about over ordered fields. -/
def getNoiseMultiplier (eps : R → R) (target tol maxSigma inf lo0 hi0 : R) (fuelD fuelB : Nat) : Out R :=
  match doubling eps target maxSigma fuelD hi0 inf [] with
  | .done hi epsHi log => bisect eps target tol fuelB lo0 hi epsHi log
  | .budgetTooLow log => ⟨.budgetTooLow, log⟩
  | .outOfFuel log => ⟨.outOfFuel, log⟩

end

end Opacus.Calib
