import OpacusLean.Model.Clip
import OpacusLean.Model.GhostNorm
/-! Model of one logical DP step: `DPOptimizer.pre_step` (clip_and_accumulate → skip? → add_noise →
scale_grad), `DPOptimizerFastGradientClipping.pre_step` (accumulate → skip? → add_noise →
scale_grad), `zero_grad`, `signal_skip_step`, `accumulated_iterations`, and
`expected_batch_size = int(len(dataset) * (1 / len(data_loader)))` of `privacy_engine.py`.
Lean core only.

The machine is written once over a *carrier* (gradient type + the handful of tensor operations
`pre_step` performs); the theorems instantiate it with the function-typed model of `Clip.lean`, the
drivers with the array-backed executable forms; `Lemmas/ClipStepExec.lean` proves the two runs
commute with `store`.  The `_processed` flag protocol, step hooks and accounting are other
properties' business (C11, C05) and are not modelled here. -/
namespace Opacus.Step
open Opacus.Clip Opacus.Ghost

inductive Reduction where
  | mean
  | sum
deriving DecidableEq, Repr

/-- the tensor operations a step performs, for a gradient representation `G` over scalars `R` -/
structure Carrier (G R : Type) where
  /-- `clip_and_accumulate()`: old `summed_grad`, the concatenated `grad_sample` -/
  clipAcc : Option G → List G → Option G
  /-- ghost `accumulate()`: old `summed_grad`, `p.grad` -/
  acc : Option G → G → Option G
  /-- `summed_grad + noise` -/
  add : G → G → G
  /-- `p.grad /= denominator` -/
  divS : G → R → G
  /-- int → tensor scalar conversion of the denominator -/
  natCast : Nat → R

/-- optimizer-side state of the parameters (all parameters move together) -/
structure St (G : Type) where
  /-- `p.grad_sample`: one entry per backward pass since the last `zero_grad` (`[]` = `None`) -/
  gradSample : List (List G)
  /-- `p.summed_grad` -/
  summed : Option G
  /-- `p.grad` as the inner optimizer will read it -/
  grad : Option G
  /-- `_step_skip_queue` -/
  skipQueue : List Bool
  /-- `_is_last_step_skipped` -/
  lastSkipped : Bool

def St.init {G : Type} : St G := ⟨[], none, none, [], false⟩

section machine
variable {G R : Type}

/-- a backward pass of a `GradSampleModule` on one physical batch: `grad_sample` is created, or
promoted to / extended as a list -/
def backward (st : St G) (batch : List G) : St G :=
  { st with gradSample := st.gradSample ++ [batch] }

def signalSkip (st : St G) (doSkip : Bool) : St G :=
  { st with skipQueue := st.skipQueue ++ [doSkip] }

/-- `zero_grad()`: `grad_sample` always cleared, `summed_grad` only if the last step was not
skipped; the inner optimizer clears `p.grad` -/
def zeroGrad (st : St G) : St G :=
  { st with gradSample := [], grad := none,
            summed := if st.lastSkipped then st.summed else none }

/-- `_check_skip_next_step()`: pop the head of the queue, `False` when empty -/
def popSkip (q : List Bool) : Bool × List Bool :=
  match q with
  | [] => (false, [])
  | b :: r => (b, r)

/-- `add_noise(); scale_grad()`; `k = accumulated_iterations` -/
def release (c : Carrier G R) (red : Reduction) (E k : Nat) (summed z : G) : G :=
  let g := c.add summed z
  match red with
  | .mean => c.divS g (c.natCast (E * k))
  | .sum => g

/-- `DPOptimizer.pre_step` (flat, per-layer, adaptive: they differ in `c.clipAcc` only).
`none`: the code raises (no per-sample gradient).  The Boolean is `pre_step`'s return value
(`True` = the inner optimizer steps). -/
def preStep (c : Carrier G R) (red : Reduction) (E : Nat) (z : G) (st : St G) :
    Option (St G × Bool) :=
  if st.gradSample.isEmpty then none else
  match c.clipAcc st.summed st.gradSample.flatten with
  | none => none
  | some s =>
    let (skip, q) := popSkip st.skipQueue
    if skip then
      some ({ st with summed := some s, skipQueue := q, lastSkipped := true }, false)
    else
      some ({ st with summed := some s, skipQueue := q, lastSkipped := false,
                      grad := some (release c red E st.gradSample.length s z) }, true)

/-- `loss.backward()` of the ghost wrapper: first backward, `optimizer.zero_grad()`, coefficients,
second backward leaving the coefficient-weighted gradient of this physical batch in `p.grad` -/
def ghostBackward (st : St G) (pgrad : G) : St G :=
  { zeroGrad st with grad := some pgrad }

/-- `DPOptimizerFastGradientClipping.pre_step`; `accumulated_iterations` is the constant 1 -/
def ghostPreStep (c : Carrier G R) (red : Reduction) (E : Nat) (z : G) (st : St G) :
    Option (St G × Bool) :=
  match st.grad with
  | none => none
  | some g =>
    match c.acc st.summed g with
    | none => none
    | some s =>
      let (skip, q) := popSkip st.skipQueue
      if skip then
        some ({ st with summed := some s, skipQueue := q, lastSkipped := true }, false)
      else
        some ({ st with summed := some s, skipQueue := q, lastSkipped := false,
                        grad := some (release c red E 1 s z) }, true)

/-- one logical step the way `BatchMemoryManager` drives it: every physical step but the last is
signalled as skipped; a physical step is `signal; backward…; step; (zero_grad before the next)`.
`phys` lists, per physical step, the batches of its backward passes. -/
def runLogical (c : Carrier G R) (red : Reduction) (E : Nat) (z : G) :
    List (List (List G)) → St G → Option (St G)
  | [], _ => none
  | [bws], st =>
    (preStep c red E z (bws.foldl backward (signalSkip (zeroGrad st) false))).map (·.1)
  | bws :: rest, st =>
    match preStep c red E z (bws.foldl backward (signalSkip (zeroGrad st) true)) with
    | none => none
    | some (st', _) => runLogical c red E z rest st'

/-- the same for the ghost path: one ghost backward per physical step -/
def runLogicalGhost (c : Carrier G R) (red : Reduction) (E : Nat) (z : G) :
    List G → St G → Option (St G)
  | [], _ => none
  | [pg], st =>
    (ghostPreStep c red E z (ghostBackward (signalSkip (zeroGrad st) false) pg)).map (·.1)
  | pg :: rest, st =>
    match ghostPreStep c red E z (ghostBackward (signalSkip (zeroGrad st) true) pg) with
    | none => none
    | some (st', _) => runLogicalGhost c red E z rest st'

end machine

/-! ### carriers -/
section carriers
variable {R : Type} [Add R] [Mul R] [Div R] [Zero R] [One R] [Min R] [OfScientific R] [HasSqrt R]
variable {P : Nat}

def modelCarrier (d : Fin P → Nat) (m : Mode R P) (natCast : Nat → R) : Carrier (Grad R d) R where
  clipAcc := clipAndAccumulate m
  acc := accumulate
  add := gadd
  divS := gdiv
  natCast := natCast

def execCarrier (d : Fin P → Nat) (m : Mode R P) (natCast : Nat → R) : Carrier (Store R) R where
  clipAcc := clipAndAccumulateExec d m
  acc := accumulateExec d
  add := fun a b => store (gadd (lookup d a) (lookup d b))
  divS := fun a c => store (gdiv (lookup d a) c)
  natCast := natCast

end carriers

/-! ### `expected_batch_size`

`sample_rate = 1 / len(data_loader)`; `expected_batch_size = int(len(dataset) * sample_rate)`:
one binary64 division, one binary64 multiplication, truncation. -/

/-- with Lean's own IEEE binary64 (`decide +kernel` evaluates it) -/
def ebsFloat (N L : Nat) : Nat := (N.toFloat * ((1.0 : Float) / L.toFloat)).toUInt64.toNat

/-- `len(DPDataLoader)` for Poisson sampling: `int(1 / (1 / len(data_loader)))` -/
def stepsFloat (L : Nat) : Nat := ((1.0 : Float) / ((1.0 : Float) / L.toFloat)).toUInt64.toNat

/-- `expected_batch_size` as `make_private` computes it from the dataset size `N` and the length
`L` of the user's loader: with Poisson sampling the loader is first replaced by a `DPDataLoader`
whose own length is `stepsFloat L` -/
def engineEbs (N L : Nat) (poisson : Bool) : Nat := ebsFloat N (if poisson then stepsFloat L else L)

/-- a positive binary64 value `m · 2^e`, `2^52 ≤ m < 2^53` -/
structure B64 where
  m : Nat
  e : Int
deriving Repr, DecidableEq

/-- `⌊log₂ (p/q)⌋` for `p, q > 0` -/
def ilog2 (p q : Nat) : Int :=
  let a : Int := (Nat.log2 p : Int) - (Nat.log2 q : Int)
  let ok (k : Int) : Bool := if k ≥ 0 then q * 2 ^ k.toNat ≤ p else q ≤ p * 2 ^ (-k).toNat
  if ok (a + 1) then a + 1 else if ok a then a else a - 1

/-- round-to-nearest-even of the positive rational `p/q` to 53 significant bits (normal range) -/
def rne (p q : Nat) : B64 :=
  let e : Int := ilog2 p q - 52
  let (num, den) := if e ≥ 0 then (p, q * 2 ^ e.toNat) else (p * 2 ^ (-e).toNat, q)
  let fl := num / den
  let r := num % den
  let m := if 2 * r < den then fl else if 2 * r > den then fl + 1
           else (if fl % 2 = 0 then fl else fl + 1)
  if m = 2 ^ 53 then ⟨2 ^ 52, e + 1⟩ else ⟨m, e⟩

/-- `int(N * (1/L))` in exact rational arithmetic with explicit rounding (no `Float`) -/
def ebsExact (N L : Nat) : Nat :=
  if N = 0 ∨ L = 0 then 0 else
  let r := rne 1 L
  let (p, q) := if r.e ≥ 0 then (N * r.m * 2 ^ r.e.toNat, 1) else (N * r.m, 2 ^ (-r.e).toNat)
  let s := rne p q
  if s.e ≥ 0 then s.m * 2 ^ s.e.toNat else s.m / 2 ^ (-s.e).toNat

/-- where `f N L` differs from `⌊N/L⌋` among the exact multiples `N = j·L` -/
def ebsMismatchesOf (f : Nat → Nat → Nat) (maxL maxJ : Nat) : List (Nat × Nat) :=
  (List.range (maxL + 1)).flatMap fun L =>
    ((List.range (maxJ + 1)).filter fun j => L ≥ 1 ∧ j ≥ 1 ∧ f (j * L) L ≠ j).map
      fun j => (j * L, L)

end Opacus.Step
