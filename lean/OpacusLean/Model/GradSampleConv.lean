import OpacusLean.Model.GradSample
/-! Model of `compute_conv_grad_sample` (`opacus/grad_sample/conv.py`) and of `unfold2d` / `unfold3d`
(`opacus/utils/tensor_utils.py`), generic in the scalar.

Everything in this file is indexed by plain naturals (the code does index arithmetic on flat
buffers: `as_strided`, `reshape`, `view`); sums run over `Fin` ranges and apply `.val`.
`Props/C01.lean` proves that no index used lies outside its tensor. -/
namespace Opacus.GS

/-! ### padding -/

inductive PadMode where | zeros | reflect | replicate | circular
deriving DecidableEq, Repr

/-- `layer.padding`: the strings `'same'` / `'valid'` or explicit per-axis amounts -/
inductive PadSpec where | same | valid | explicit (p : Nat)
deriving DecidableEq, Repr

/-- (left, right) padding of one axis exactly as `unfold2d`, `unfold3d` and the Conv1d branch
compute it: `'same'` ⇒ `total = d·(k−1)`, `left = ⌊total/2⌋`, `right = total − left` -/
def padLR (p : PadSpec) (k d : Nat) : Nat × Nat :=
  match p with
  | .same => let total := d * (k - 1); (total / 2, total - total / 2)
  | .valid => (0, 0)
  | .explicit p => (p, p)

/-- `kernel_size + (kernel_size − 1)·(dilation − 1)` -/
def dilatedKernel (k d : Nat) : Nat := k + (k - 1) * (d - 1)

/-- number of windows along one axis of padded length `lp`: `(lp − dk) // s + 1` -/
def outLen (lp k d s : Nat) : Nat := (lp - dilatedKernel k d) / s + 1

/-- `F.pad(…, mode)`: which source cell the padded cell `i` copies (`none` = the constant 0).
`pl` = cells added on the left, `H` = unpadded length.  (torch rejects `pl ≥ H` for reflect and
`pl > H` for circular; the harness never asks for those.) -/
def padSrc (mode : PadMode) (H pl i : Nat) : Option Nat :=
  let r : Int := (i : Int) - (pl : Int)
  match mode with
  | .zeros => if 0 ≤ r ∧ r < (H : Int) then some r.toNat else none
  | .replicate => some (if r < 0 then 0 else if r ≥ (H : Int) then H - 1 else r.toNat)
  | .reflect => some (if r < 0 then (-r).toNat else if r ≥ (H : Int) then (2 * ((H : Int) - 1) - r).toNat else r.toNat)
  | .circular => some (r % (H : Int)).toNat

variable {R : Type} [Zero R]

/-- read a natural-indexed tensor of extent `H × W` (0 outside) -/
def padded2 (mode : PadMode) (H W pt pl : Nat) (x : Nat → Nat → R) : Nat → Nat → R :=
  fun i j => match padSrc mode H pt i, padSrc mode W pl j with
    | some a, some b => if a < H ∧ b < W then x a b else 0
    | _, _ => 0

def padded3 (mode : PadMode) (D H W pf pt pl : Nat) (x : Nat → Nat → Nat → R) : Nat → Nat → Nat → R :=
  fun z i j => match padSrc mode D pf z, padSrc mode H pt i, padSrc mode W pl j with
    | some c, some a, some b => if c < D ∧ a < H ∧ b < W then x c a b else 0
    | _, _, _ => 0

/-! ### flat storage of a strided 4-D tensor (what `as_strided` reads) -/

structure Strides4 where
  n : Nat
  c : Nat
  h : Nat
  w : Nat
deriving DecidableEq, Repr

def Strides4.addr (st : Strides4) (n c i j : Nat) : Nat := n * st.n + c * st.c + i * st.h + j * st.w

/-- row-major (contiguous) strides of an `N×C×H×W` tensor -/
def Strides4.rowMajor (C H W : Nat) : Strides4 := ⟨C * H * W, H * W, W, 1⟩
/-- `torch.channels_last` strides -/
def Strides4.channelsLast (C H W : Nat) : Strides4 := ⟨H * W * C, 1, W * C, C⟩

/-- the storage cell at flat address `a` of a tensor with extents `N×C×H×W`, strides `st` and
values `xp`: the value at the first index whose address is `a` (0 for cells no index maps to) -/
def memOf (st : Strides4) (N C H W : Nat) (xp : Nat → Nat → Nat → Nat → R) (a : Nat) : R :=
  let hit := (List.range N).findSome? fun n => (List.range C).findSome? fun c =>
    (List.range H).findSome? fun i => (List.range W).findSome? fun j =>
      if st.addr n c i j = a then some (xp n c i j) else none
  hit.getD 0

/-- `input.as_strided(shape + [kH, kW, H_eff, W_eff], strides)` of `unfold2d`.  As coded the last
four strides are `[W_pad·d₀, d₁, W_pad·s₀, s₁]` — correct only if the padded tensor is row-major in
its last two axes (finding D19); repaired: `[s_H·d₀, s_W·d₁, s_H·s₀, s_W·s₁]` from the tensor's
own strides. -/
def unfold2dView (var : Variant) (st : Strides4) (Wp d0 d1 s0 s1 : Nat) (mem : Nat → R) :
    Nat → Nat → Nat → Nat → Nat → Nat → R :=
  fun n c kh kw h w =>
    match var with
    | .asCoded => mem (n * st.n + c * st.c + kh * (Wp * d0) + kw * d1 + h * (Wp * s0) + w * s1)
    | .repaired => mem (n * st.n + c * st.c + kh * (st.h * d0) + kw * (st.w * d1) + h * (st.h * s0) + w * (st.w * s1))

/-- `out.reshape(N, -1, H_eff·W_eff)`: row-major merge of `(C,kH,kW)` and of `(H_eff,W_eff)` -/
def unfold2dOut (kH kW Wo : Nat) (view : Nat → Nat → Nat → Nat → Nat → Nat → R) : Nat → Nat → Nat → R :=
  fun n p q => view n (p / (kH * kW)) (p / kW % kH) (p % kW) (q / Wo) (q % Wo)

/-- the window formula `unfold2d` is meant to compute (`F.unfold` semantics) -/
def window2d (kH kW Wo d0 d1 s0 s1 : Nat) (xp : Nat → Nat → Nat → Nat → R) : Nat → Nat → Nat → R :=
  fun n p q => xp n (p / (kH * kW)) ((q / Wo) * s0 + (p / kW % kH) * d0) ((q % Wo) * s1 + (p % kW) * d1)

/-- Conv1d branch: `unsqueeze(-2)`, `F.pad`, then torch's own `F.unfold` with kernel `(1,k)` -/
def window1d (k d s : Nat) (xp : Nat → Nat → Nat → R) : Nat → Nat → Nat → R :=
  fun n p q => xp n (p / k) (q * s + (p % k) * d)

/-! ### `unfold3d`: `Tensor.unfold` on the three spatial axes, `filter_dilated_rows`, permute+reshape -/

/-- three `Tensor.unfold(dim, size=dk, step=s)`: window `o`, offset `j` reads `o·s + j` -/
def unfold3dWindows (s0 s1 s2 : Nat) (xp : Nat → Nat → Nat → Nat → Nat → R) :
    Nat → Nat → Nat → Nat → Nat → Nat → Nat → Nat → R :=
  fun n c od oh ow jd jh jw => xp n c (od * s0 + jd) (oh * s1 + jh) (ow * s2 + jw)

/-- `index_select(arange(0, dk, d))` on the three offset axes (identity when `d = 1`) -/
def filterDilatedRows (d0 d1 d2 : Nat) (u : Nat → Nat → Nat → Nat → Nat → Nat → Nat → Nat → R) :
    Nat → Nat → Nat → Nat → Nat → Nat → Nat → Nat → R :=
  fun n c od oh ow kd kh kw => u n c od oh ow (kd * d0) (kh * d1) (kw * d2)

/-- `permute(0,2,3,4,1,5,6,7).reshape(B, -1, C·K).transpose(1,2)` -/
def unfold3dOut (kD kH kW Ho Wo : Nat) (f : Nat → Nat → Nat → Nat → Nat → Nat → Nat → Nat → R) :
    Nat → Nat → Nat → R :=
  fun n p q => f n (p / (kD * kH * kW)) (q / (Ho * Wo)) (q / Wo % Ho) (q % Wo)
    (p / (kH * kW) % kD) (p / kW % kH) (p % kW)

def unfold3d (kD kH kW Ho Wo s0 s1 s2 d0 d1 d2 : Nat) (xp : Nat → Nat → Nat → Nat → Nat → R) :
    Nat → Nat → Nat → R :=
  unfold3dOut kD kH kW Ho Wo (filterDilatedRows d0 d1 d2 (unfold3dWindows s0 s1 s2 xp))

def window3d (kD kH kW Ho Wo s0 s1 s2 d0 d1 d2 : Nat) (xp : Nat → Nat → Nat → Nat → Nat → R) :
    Nat → Nat → Nat → R :=
  fun n p q => xp n (p / (kD * kH * kW))
    ((q / (Ho * Wo)) * s0 + (p / (kH * kW) % kD) * d0)
    ((q / Wo % Ho) * s1 + (p / kW % kH) * d1)
    ((q % Wo) * s2 + (p % kW) * d2)

/-! ### the part of the sampler common to Conv1d/2d/3d -/

section
variable [Add R] [Mul R]

/-- `torch.einsum("noq,npq->nop", backprops, activations)` -/
def convOuter (Q : Nat) (b unf : Nat → Nat → Nat → R) : Nat → Nat → Nat → R :=
  fun n o p => sumFin Q fun q => b n o q.val * unf n p q.val

/-- `grad_sample.view(n, G, -1, G, C/G, K)`, `einsum("ngrg...->ngr...")`, `.view([n] + weight.shape)`
on the row-major storage of the `[O, C·K]` matrix of sample `n`.  `Og = O/G`, `Cg = C/G`;
`k` is the flattened kernel offset. -/
def convWeightGS (G Og Cg K Q : Nat) (b unf : Nat → Nat → Nat → R) : Nat → Nat → Nat → Nat → R :=
  fun n o ci k =>
    let CK := G * Cg * K
    let flat : Nat → R := fun f => convOuter Q b unf n (f / CK) (f % CK)
    let viewed : Nat → Nat → Nat → Nat → Nat → R := fun g r g' ci k => flat ((((g * Og + r) * G + g') * Cg + ci) * K + k)
    let diag : Nat → Nat → Nat → Nat → R := fun g r ci k => viewed g r g ci k
    diag (o / Og) (o % Og) ci k

/-- `torch.sum(backprops, dim=2)` -/
def convBiasGS (Q : Nat) (b : Nat → Nat → Nat → R) : Nat → Nat → R :=
  fun n o => sumFin Q fun q => b n o q.val

/-- the convolution of ONE sample written on its patches: `patch c k q` is the input value that
kernel offset `k` of input channel `c` meets at output position `q` (torch's cross-correlation
with `groups`: output channel `o` sees the input channels of group `o / Og`) -/
def convFwdCore (Og Cg K : Nat) (w : Nat → Nat → Nat → R) (bias : Nat → R) (patch : Nat → Nat → R) :
    Nat → Nat → R :=
  fun o q => (sumFin Cg fun ci => sumFin K fun k => w o ci.val k.val * patch (((o / Og) * Cg + ci.val) * K + k.val) q) + bias o

/-- `F.conv2d(F.pad(x, mode), w, bias, stride, 0, dilation, groups)` for one sample, in natural indices -/
def conv2dFwd (Og Cg kH kW s0 s1 d0 d1 : Nat) (w : Nat → Nat → Nat → Nat → R) (bias : Nat → R)
    (xp : Nat → Nat → Nat → R) : Nat → Nat → Nat → R :=
  fun o h v => (sumFin Cg fun ci => sumFin kH fun kh => sumFin kW fun kw =>
      w o ci.val kh.val kw.val * xp ((o / Og) * Cg + ci.val) (h * s0 + kh.val * d0) (v * s1 + kw.val * d1)) + bias o

def conv1dFwd (Og Cg k s d : Nat) (w : Nat → Nat → Nat → R) (bias : Nat → R)
    (xp : Nat → Nat → R) : Nat → Nat → R :=
  fun o v => (sumFin Cg fun ci => sumFin k fun kw =>
      w o ci.val kw.val * xp ((o / Og) * Cg + ci.val) (v * s + kw.val * d)) + bias o

def conv3dFwd (Og Cg kD kH kW s0 s1 s2 d0 d1 d2 : Nat) (w : Nat → Nat → Nat → Nat → Nat → R) (bias : Nat → R)
    (xp : Nat → Nat → Nat → Nat → R) : Nat → Nat → Nat → Nat → R :=
  fun o z h v => (sumFin Cg fun ci => sumFin kD fun kd => sumFin kH fun kh => sumFin kW fun kw =>
      w o ci.val kd.val kh.val kw.val *
        xp ((o / Og) * Cg + ci.val) (z * s0 + kd.val * d0) (h * s1 + kh.val * d1) (v * s2 + kw.val * d2)) + bias o

end

/-! ### the three samplers end to end (what `compute_conv_grad_sample` returns for `n > 0`) -/

section
variable [Add R] [Mul R]

/-- geometry of a Conv2d call -/
structure Conv2dCfg where
  N : Nat
  C : Nat
  O : Nat
  G : Nat
  H : Nat
  W : Nat
  kH : Nat
  kW : Nat
  s0 : Nat
  s1 : Nat
  d0 : Nat
  d1 : Nat
  padH : PadSpec
  padW : PadSpec
  mode : PadMode
deriving Repr

namespace Conv2dCfg
def pH (c : Conv2dCfg) : Nat × Nat := padLR c.padH c.kH c.d0
def pW (c : Conv2dCfg) : Nat × Nat := padLR c.padW c.kW c.d1
def Hp (c : Conv2dCfg) : Nat := c.H + c.pH.1 + c.pH.2
def Wp (c : Conv2dCfg) : Nat := c.W + c.pW.1 + c.pW.2
def Ho (c : Conv2dCfg) : Nat := outLen c.Hp c.kH c.d0 c.s0
def Wo (c : Conv2dCfg) : Nat := outLen c.Wp c.kW c.d1 c.s1
def Og (c : Conv2dCfg) : Nat := c.O / c.G
def Cg (c : Conv2dCfg) : Nat := c.C / c.G
def K (c : Conv2dCfg) : Nat := c.kH * c.kW
def Q (c : Conv2dCfg) : Nat := c.Ho * c.Wo
/-- the kernel fits into the padded input (otherwise the layer's own forward raises) -/
def fits (c : Conv2dCfg) : Bool := dilatedKernel c.kH c.d0 ≤ c.Hp && dilatedKernel c.kW c.d1 ≤ c.Wp
end Conv2dCfg

/-- the activation the sampler unfolds.  As coded always ZERO padding, whatever
`layer.padding_mode` says (finding D17); repaired: the layer's own padding mode. -/
def convSamplerPadMode (var17 : Variant) (mode : PadMode) : PadMode :=
  match var17 with
  | .asCoded => .zeros
  | .repaired => mode

/-- `backprops.reshape(n, -1, Q)` of an `[N,O,Ho,Wo]` tensor -/
def flattenB2 (Wo : Nat) (b : Nat → Nat → Nat → Nat → R) : Nat → Nat → Nat → R :=
  fun n o q => b n o (q / Wo) (q % Wo)

def flattenB3 (Ho Wo : Nat) (b : Nat → Nat → Nat → Nat → Nat → R) : Nat → Nat → Nat → R :=
  fun n o q => b n o (q / (Ho * Wo)) (q / Wo % Ho) (q % Wo)

/-- Conv2d weight sampler: pad, store with strides `st`, `unfold2d`, outer product, group diagonal -/
def conv2dWeightGS (var17 var19 : Variant) (c : Conv2dCfg) (st : Strides4)
    (x b : Nat → Nat → Nat → Nat → R) : Nat → Nat → Nat → Nat → R :=
  let xp : Nat → Nat → Nat → Nat → R := fun n ch => padded2 (convSamplerPadMode var17 c.mode) c.H c.W c.pH.1 c.pW.1 (x n ch)
  let mem := memOf st c.N c.C c.Hp c.Wp xp
  let unf := unfold2dOut c.kH c.kW c.Wo (unfold2dView var19 st c.Wp c.d0 c.d1 c.s0 c.s1 mem)
  convWeightGS c.G c.Og c.Cg c.K c.Q (flattenB2 c.Wo b) unf

def conv2dBiasGS (c : Conv2dCfg) (b : Nat → Nat → Nat → Nat → R) : Nat → Nat → R :=
  convBiasGS c.Q (flattenB2 c.Wo b)

/-- geometry of a Conv1d call (the code adds a dummy `H = 1` axis and uses torch's `F.unfold`) -/
structure Conv1dCfg where
  N : Nat
  C : Nat
  O : Nat
  G : Nat
  L : Nat
  k : Nat
  s : Nat
  d : Nat
  pad : PadSpec
  mode : PadMode
deriving Repr

namespace Conv1dCfg
def p (c : Conv1dCfg) : Nat × Nat := padLR c.pad c.k c.d
def Lp (c : Conv1dCfg) : Nat := c.L + c.p.1 + c.p.2
def Lo (c : Conv1dCfg) : Nat := outLen c.Lp c.k c.d c.s
def Og (c : Conv1dCfg) : Nat := c.O / c.G
def Cg (c : Conv1dCfg) : Nat := c.C / c.G
def fits (c : Conv1dCfg) : Bool := dilatedKernel c.k c.d ≤ c.Lp
end Conv1dCfg

/-- one-axis padding of a `C×L` sample -/
def padded1 (mode : PadMode) (L pl : Nat) (x : Nat → R) : Nat → R :=
  fun j => match padSrc mode L pl j with
    | some b => if b < L then x b else 0
    | none => 0

def conv1dWeightGS (var17 : Variant) (c : Conv1dCfg) (x b : Nat → Nat → Nat → R) : Nat → Nat → Nat → Nat → R :=
  let xp : Nat → Nat → Nat → R := fun n ch => padded1 (convSamplerPadMode var17 c.mode) c.L c.p.1 (x n ch)
  convWeightGS c.G c.Og c.Cg c.k c.Lo b (window1d c.k c.d c.s xp)

def conv1dBiasGS (c : Conv1dCfg) (b : Nat → Nat → Nat → R) : Nat → Nat → R := convBiasGS c.Lo b

/-- geometry of a Conv3d call -/
structure Conv3dCfg where
  N : Nat
  C : Nat
  O : Nat
  G : Nat
  D : Nat
  H : Nat
  W : Nat
  kD : Nat
  kH : Nat
  kW : Nat
  s0 : Nat
  s1 : Nat
  s2 : Nat
  d0 : Nat
  d1 : Nat
  d2 : Nat
  padD : PadSpec
  padH : PadSpec
  padW : PadSpec
  mode : PadMode
deriving Repr

namespace Conv3dCfg
def pD (c : Conv3dCfg) : Nat × Nat := padLR c.padD c.kD c.d0
def pH (c : Conv3dCfg) : Nat × Nat := padLR c.padH c.kH c.d1
def pW (c : Conv3dCfg) : Nat × Nat := padLR c.padW c.kW c.d2
def Dp (c : Conv3dCfg) : Nat := c.D + c.pD.1 + c.pD.2
def Hp (c : Conv3dCfg) : Nat := c.H + c.pH.1 + c.pH.2
def Wp (c : Conv3dCfg) : Nat := c.W + c.pW.1 + c.pW.2
def Do (c : Conv3dCfg) : Nat := outLen c.Dp c.kD c.d0 c.s0
def Ho (c : Conv3dCfg) : Nat := outLen c.Hp c.kH c.d1 c.s1
def Wo (c : Conv3dCfg) : Nat := outLen c.Wp c.kW c.d2 c.s2
def Og (c : Conv3dCfg) : Nat := c.O / c.G
def Cg (c : Conv3dCfg) : Nat := c.C / c.G
def K (c : Conv3dCfg) : Nat := c.kD * c.kH * c.kW
def Q (c : Conv3dCfg) : Nat := c.Do * c.Ho * c.Wo
def fits (c : Conv3dCfg) : Bool :=
  dilatedKernel c.kD c.d0 ≤ c.Dp && dilatedKernel c.kH c.d1 ≤ c.Hp && dilatedKernel c.kW c.d2 ≤ c.Wp
end Conv3dCfg

def conv3dUnfolded (var17 : Variant) (c : Conv3dCfg) (x : Nat → Nat → Nat → Nat → Nat → R) : Nat → Nat → Nat → R :=
  let xp : Nat → Nat → Nat → Nat → Nat → R :=
    fun n ch => padded3 (convSamplerPadMode var17 c.mode) c.D c.H c.W c.pD.1 c.pH.1 c.pW.1 (x n ch)
  unfold3d c.kD c.kH c.kW c.Ho c.Wo c.s0 c.s1 c.s2 c.d0 c.d1 c.d2 xp

def conv3dWeightGS (var17 : Variant) (c : Conv3dCfg) (x b : Nat → Nat → Nat → Nat → Nat → R) :
    Nat → Nat → Nat → Nat → R :=
  convWeightGS c.G c.Og c.Cg c.K c.Q (flattenB3 c.Ho c.Wo b) (conv3dUnfolded var17 c x)

def conv3dBiasGS (c : Conv3dCfg) (b : Nat → Nat → Nat → Nat → Nat → R) : Nat → Nat → R :=
  convBiasGS c.Q (flattenB3 c.Ho c.Wo b)

/-- what `compute_conv_grad_sample` returns.  Empty batch (`n == 0`): ONE all-zero row for the
weight (whether or not it requires grad) and for a bias that requires grad. -/
structure ConvOut (R : Type) where
  rows : Nat
  weight : Option (Nat → Nat → Nat → Nat → R)
  bias : Option (Nat → Nat → R)

def convAssemble (N : Nat) (weightReq : Bool) (biasReq : Option Bool)
    (wgs : Nat → Nat → Nat → Nat → R) (bgs : Nat → Nat → R) : ConvOut R :=
  if N = 0 then
    { rows := 1, weight := some fun _ _ _ _ => 0, bias := if biasReq = some true then some fun _ _ => 0 else none }
  else
    { rows := N, weight := if weightReq then some wgs else none, bias := if biasReq = some true then some bgs else none }

end
end Opacus.GS
