/-! Model of the bookkeeping of `GradSampleModule` (`opacus/grad_sample/grad_sample_module.py`):
`capture_activations_hook`, `capture_backprops_hook`, `rearrange_grad_samples`, `_get_batch_size`,
`create_or_accumulate_grad_sample`, `promote_current_grad_sample`, `zero_grad`, the enable/disable
and grad-accumulation switches, and `DPRNNCellBase.set_max_batch_length`.

The machine is generic in the activation payload `A`, the backprop payload `B` (with the action
`n • b` used to undo the mean reduction) and the value `G` of one per-sample-gradient row; the
layer-specific sampler is a parameter `samp`.  Modules and parameters are numbered; a parameter may
belong to several modules (tied weights) and a module may run several times per forward pass
(recurrent cells, reused layers). -/
namespace Opacus.GSM

/-- a `[k, *param.shape]` tensor: `k` rows, row `i` has value `row i` -/
structure Rows (G : Type) where
  n : Nat
  row : Nat → G

/-- `param.grad_sample`: `None`, a tensor, or a list of tensors (one per accumulated batch) -/
inductive GSVal (G : Type) where
  | none
  | tensor (t : Rows G)
  | list (ts : List (Rows G))

inductive Err where
  /-- `rearrange_grad_samples`: module has no `activations` attribute -/
  | noActivations
  /-- `module.activations.pop()` on an empty list -/
  | popEmpty
  /-- `[:k] =` / `[:k] +=` with incompatible row counts -/
  | shape
  /-- "Poisson sampling is not compatible with grad accumulation" -/
  | accumForbidden
deriving DecidableEq, Repr

/-- static description: which trainable parameters a hooked module owns, and whether it is an
`RNNLinear` (whose batch dimension is always 0) -/
structure Static where
  params : Nat → List Nat
  rnnLinear : Nat → Bool
  batchFirst : Bool
  lossMean : Bool

structure State (A G : Type) where
  /-- `module.activations` (`none` = attribute absent); the LAST element is the top of the stack,
  each entry carries the length of its batch axis -/
  acts : Nat → Option (List (A × Nat))
  /-- `module.max_batch_len` -/
  maxLen : Nat → Option Nat
  /-- `p._forward_counter` -/
  counter : Nat → Int
  /-- `p._current_grad_sample` -/
  current : Nat → Option (Rows G)
  /-- `p.grad_sample` -/
  gradSample : Nat → GSVal G
  hooksEnabled : Bool
  accumAllowed : Bool
  err : Option Err

def State.init {A G : Type} : State A G :=
  { acts := fun _ => none, maxLen := fun _ => none, counter := fun _ => 0, current := fun _ => none,
    gradSample := fun _ => .none, hooksEnabled := true, accumAllowed := true, err := none }

inductive Op (A B : Type) where
  /-- forward hook of module `m`; `capture = module.training ∧ torch.is_grad_enabled()`;
  `len` = size of the batch axis of the (last) input -/
  | fwd (m : Nat) (a : A) (len : Nat) (capture : Bool)
  /-- backward hook of module `m` with `forward_output[0]` -/
  | bwd (m : Nat) (b : B)
  /-- `cell.set_max_batch_length(n)` (packed sequences) -/
  | setMaxLen (m : Nat) (n : Nat)
  /-- `zero_grad()` / `set_grad_sample_to_none()` -/
  | zeroGrad
  | enableHooks
  | disableHooks
  | forbidAccum
  | allowAccum

def upd {α : Type} (f : Nat → α) (i : Nat) (v : α) : Nat → α := fun j => if j = i then v else f j

/-- `_get_batch_size`: maximum of the batch-axis lengths over the stacked activations -/
def maxOfLens {A : Type} (l : List (A × Nat)) : Nat := l.foldl (fun acc x => if x.2 > acc then x.2 else acc) 0

/-- may a `k`-row tensor be written into the slice `[:k]` of an `L`-row tensor?  (`k ≤ L`, or a
single row that broadcasts – the empty-batch branches of the Embedding/Conv samplers) -/
def rowsFit (k L : Nat) : Bool := k ≤ L || k = 1

/-- `create_or_accumulate_grad_sample` for one parameter -/
def createOrAccumulate {G : Type} [Add G] [Zero G] (cur : Option (Rows G)) (gs : Rows G) (maxLen : Nat) :
    Except Err (Rows G) :=
  match cur with
  | some acc =>
    if rowsFit gs.n acc.n then
      .ok { n := acc.n, row := fun i => if i < gs.n ∧ i < acc.n then acc.row i + gs.row i else acc.row i }
    else .error .shape
  | none =>
    if rowsFit gs.n maxLen then
      .ok { n := maxLen, row := fun i => if i < gs.n ∧ i < maxLen then gs.row i else 0 }
    else .error .shape

/-- `promote_current_grad_sample` -/
def promote {G : Type} (gsv : GSVal G) (cur : Rows G) : GSVal G :=
  match gsv with
  | .none => .tensor cur
  | .tensor t => .list [t, cur]
  | .list ts => .list (ts ++ [cur])

def gsListLen {G : Type} : GSVal G → Nat
  | .list ts => ts.length
  | _ => 0

section
variable {A B G : Type} [Add G] [Zero G]

/-- what happens to ONE parameter `p` of the module in `capture_backprops_hook`: accumulate the
sampler's rows, decrement the counter, promote at zero, then the accumulation check.
Returns the new (counter, current, grad_sample) or an error. -/
def bwdParam (accumAllowed : Bool) (counter : Int) (cur : Option (Rows G)) (gsv : GSVal G)
    (gs : Rows G) (maxLen : Nat) : Except Err (Int × Option (Rows G) × GSVal G) :=
  match createOrAccumulate cur gs maxLen with
  | .error e => .error e
  | .ok acc =>
    let c := counter - 1
    let (cur', gsv') := if c = 0 then (none, promote gsv acc) else (some acc, gsv)
    if !accumAllowed && gsListLen gsv' > 1 then .error .accumForbidden else .ok (c, cur', gsv')

/-- one transition.  `smul n b` is `backprops * n`; `samp m a b p` are the rows the layer's grad
sampler returns for parameter `p` (their number is the sampler's business: the batch length of
the activation for every registered sampler on a non-empty batch). -/
def step (S : Static) (smul : Nat → B → B) (samp : Nat → A → B → Nat → Rows G)
    (σ : State A G) (op : Op A B) : State A G :=
  if σ.err.isSome then σ else
  match op with
  | .fwd m a len capture =>
    if (S.params m).isEmpty || !capture || !σ.hooksEnabled then σ else
    { σ with
      acts := upd σ.acts m (some ((σ.acts m).getD [] ++ [(a, len)]))
      counter := fun p => if p ∈ S.params m then σ.counter p + 1 else σ.counter p }
  | .bwd m b =>
    if !σ.hooksEnabled then σ else
    match σ.acts m with
    | none => { σ with err := some .noActivations }
    | some stack =>
      let L := (σ.maxLen m).getD (maxOfLens stack)
      match stack.getLast? with
      | none => { σ with err := some .popEmpty, maxLen := upd σ.maxLen m (some L) }
      | some (a, _) =>
        let rest := stack.dropLast
        let b' := if S.lossMean then smul L b else b
        let res : Nat → Except Err (Int × Option (Rows G) × GSVal G) := fun p =>
          bwdParam σ.accumAllowed (σ.counter p) (σ.current p) (σ.gradSample p) (samp m a b' p) L
        match (S.params m).findSome? (fun p => match res p with | .error e => some e | .ok _ => none) with
        | some e => { σ with err := some e }
        | none =>
          let pick {β : Type} (old : Nat → β) (sel : Int × Option (Rows G) × GSVal G → β) : Nat → β := fun p =>
            if p ∈ S.params m then (match res p with | .ok r => sel r | .error _ => old p) else old p
          { σ with
            acts := upd σ.acts m (some rest)
            maxLen := upd σ.maxLen m (if rest.isEmpty then none else some L)
            counter := pick σ.counter (·.1)
            current := pick σ.current (·.2.1)
            gradSample := pick σ.gradSample (·.2.2) }
  | .setMaxLen m n => { σ with maxLen := upd σ.maxLen m (some n) }
  | .zeroGrad => { σ with gradSample := fun _ => .none }
  | .enableHooks => { σ with hooksEnabled := true }
  | .disableHooks => { σ with hooksEnabled := false }
  | .forbidAccum => { σ with accumAllowed := false }
  | .allowAccum => { σ with accumAllowed := true }

def run (S : Static) (smul : Nat → B → B) (samp : Nat → A → B → Nat → Rows G)
    (σ : State A G) (ops : List (Op A B)) : State A G := ops.foldl (step S smul samp) σ

end

/-- `rearrange_grad_samples`: which axis is the batch -/
def batchDim (S : Static) (m : Nat) : Nat := if S.batchFirst || S.rnnLinear m then 0 else 1

/-- `[batch_dim] + [x for x in range(dim) if x != batch_dim]` -/
def batchPerm (batchDim dim : Nat) : List Nat := batchDim :: (List.range dim).filter (· ≠ batchDim)

end Opacus.GSM
