import OpacusLean.Model.Proto
/-! Model of Opacus' model validation and `ModuleValidator.fix`
(`opacus/validators/*.py`, `opacus/utils/module_utils.py`, `GradSampleModule.validate`,
`PrivacyEngine.make_private`'s parameter-set check and `_prepare_model`).  Lean core only.

A module tree is a first-child / next-sibling forest (`Forest`), i.e. an ordered `_modules`
dictionary per node; a node (`Info`) carries exactly the attributes the anchored code reads:
`type(m)`, own `_parameters` (name, object identity, value, `requires_grad`), own `_buffers`,
`training`, and the constructor attributes the fixers copy (`num_features`, `affine`,
`track_running_stats`, LSTM / attention configuration).

Object identity is explicit (`Oid`): `clone_module` produces `Oid.clone`s, constructors called by the
fixers produce `Oid.new`s, so "the result shares no object with the argument" and
"`make_private` compares parameter *objects*" are statements about the model.  Parameter values are
symbolic (`Val`): a token per original tensor plus the few tensor operations the fixers apply
(`chunk(3)[i]`, `squeeze`, fresh `ones` / `zeros`), so "bit-identical" is equality of `Val`s and the
harness realises them on the real tensors.

Where the code as it stands violates C15 the model carries both behaviours (`Variant`). -/
namespace Opacus.Validate

deriving instance DecidableEq for Except

/-! ## Data -/

inductive Ty where
  | bn1 | bn2 | bn3 | syncbn
  | in1 | in2 | in3
  | lstm | mha
  | gn | ln | linear | ndqLinear | conv1 | conv2 | conv3
  | seq | mlist | mdict | box
  | dplstm | dplstmCell | rnnLinear | dpmha | seqBias | dropout
  | other
  deriving DecidableEq, Repr, Inhabited

def Ty.all : List Ty :=
  [.bn1, .bn2, .bn3, .syncbn, .in1, .in2, .in3, .lstm, .mha, .gn, .ln, .linear, .ndqLinear,
   .conv1, .conv2, .conv3, .seq, .mlist, .mdict, .box, .dplstm, .dplstmCell, .rnnLinear, .dpmha,
   .seqBias, .dropout, .other]

/-- `type(m).__name__` -/
def Ty.str : Ty → String
  | .bn1 => "BatchNorm1d" | .bn2 => "BatchNorm2d" | .bn3 => "BatchNorm3d" | .syncbn => "SyncBatchNorm"
  | .in1 => "InstanceNorm1d" | .in2 => "InstanceNorm2d" | .in3 => "InstanceNorm3d"
  | .lstm => "LSTM" | .mha => "MultiheadAttention"
  | .gn => "GroupNorm" | .ln => "LayerNorm" | .linear => "Linear"
  | .ndqLinear => "NonDynamicallyQuantizableLinear"
  | .conv1 => "Conv1d" | .conv2 => "Conv2d" | .conv3 => "Conv3d"
  | .seq => "Sequential" | .mlist => "ModuleList" | .mdict => "ModuleDict" | .box => "Box"
  | .dplstm => "DPLSTM" | .dplstmCell => "DPLSTMCell" | .rnnLinear => "RNNLinear"
  | .dpmha => "DPMultiheadAttention" | .seqBias => "SequenceBias" | .dropout => "Dropout"
  | .other => "Other"

def Ty.ofStr? (s : String) : Option Ty := Ty.all.find? (fun t => t.str == s)

def isBN : Ty → Bool
  | .bn1 | .bn2 | .bn3 | .syncbn => true
  | _ => false

def isIN : Ty → Bool
  | .in1 | .in2 | .in3 => true
  | _ => false

/-- error classes returned by the registered validators (`opacus/validators/errors.py`) -/
inductive ErrC where
  | illegalConfig      -- IllegalModuleConfigurationError
  | shouldReplace      -- ShouldReplaceModuleError
  deriving DecidableEq, Repr

def ErrC.str : ErrC → String
  | .illegalConfig => "IllegalModuleConfigurationError"
  | .shouldReplace => "ShouldReplaceModuleError"

/-- exceptions that leave `validate(strict=True)`, `make_private`, `fix` -/
inductive Exc where
  | unsupportedModule (errs : List ErrC)   -- UnsupportedModuleError(errors)
  | notImplemented (n : Nat)               -- GradSampleModule.validate(strict=True), n offending modules
  | valueError
  | typeError
  | runtimeError                           -- load_state_dict(strict) key mismatch
  | attributeError                         -- get_submodule
  | keyError                               -- `_modules[name]` on the way down
  | unsupportable                          -- UnsupportableModuleError (SyncBatchNorm → InstanceNorm)
  | zeroDivision                           -- nn.GroupNorm(0, C)
  deriving DecidableEq, Repr

/-- object identity -/
inductive Oid where
  | orig (k : Nat)                 -- an object of the caller
  | clone (gen : Nat) (o : Oid)    -- produced by the `gen`-th `clone_module` call of this `fix`
  | new (gen : Nat) (slot : Nat)   -- constructed by the fixer invoked at step `gen`
  deriving DecidableEq, Repr

def Oid.isOrig : Oid → Bool
  | .orig _ => true
  | _ => false

/-- symbolic tensor value -/
inductive Val where
  | tok (k : Nat)
  | ones
  | zeros
  | chunk3 (v : Val) (i : Nat)     -- `v.chunk(3, dim=0)[i]`
  | squeeze (v : Val)
  deriving DecidableEq, Repr

structure Param where
  name : String
  oid : Oid
  val : Val
  reqGrad : Bool
  deriving DecidableEq, Repr

structure Buf where
  name : String
  oid : Oid
  val : Val
  deriving DecidableEq, Repr

/-- constructor attributes read by the validators / fixers -/
structure Cfg where
  numFeatures : Nat := 0
  affine : Bool := false
  trs : Bool := false            -- `track_running_stats` (the attribute, not the buffers)
  numLayers : Nat := 1
  bidir : Bool := false
  bias : Bool := true            -- LSTM `bias`
  dropout : Bool := false        -- `dropout > 0`
  numGroups : Nat := 0
  deriving DecidableEq, Repr

/-- key of a module in its parent's `_modules` (torch forbids `"."` and `""` in names, so dotted
names and name lists are in bijection; `cell` is DPLSTM's `l{layer}` / `l{layer}_reverse`) -/
inductive Name where
  | s (v : String)
  | cell (layer : Nat) (rev : Bool)
  deriving DecidableEq, Repr

def cellSuffix (l : Nat) (rev : Bool) : String :=
  "l" ++ toString l ++ (if rev then "_reverse" else "")

def Name.str : Name → String
  | .s v => v
  | .cell l r => cellSuffix l r

abbrev Path := List Name

def Path.str (p : Path) : String := ".".intercalate (p.map Name.str)

structure Info where
  name : Name := .s ""
  oid : Oid
  ty : Ty
  params : List Param := []
  buffers : List Buf := []
  training : Bool := true
  cfg : Cfg := {}
  deriving DecidableEq, Repr

inductive Forest where
  | nil
  | cons (info : Info) (kids : Forest) (rest : Forest)
  deriving DecidableEq, Repr

structure Tree where
  info : Info
  kids : Forest := .nil
  deriving DecidableEq, Repr

def Forest.ofList : List Tree → Forest
  | [] => .nil
  | t :: ts => .cons t.info t.kids (Forest.ofList ts)

/-! ## Traversals (`named_modules`, `get_submodule`, `_modules[...] = …`) -/

/-- first child registered under `a` -/
def Forest.find (a : Name) : Forest → Option Tree
  | .nil => none
  | .cons i k r => if i.name = a then some ⟨i, k⟩ else r.find a

/-- `get_submodule(module, target)` -/
def subAt : Path → Tree → Option Tree
  | [], t => some t
  | a :: p, t => (t.kids.find a).bind (subAt p)

def infoAt (p : Path) (t : Tree) : Option Info := (subAt p t).map (·.info)

def Tree.setName (t : Tree) (a : Name) : Tree := { t with info := { t.info with name := a } }

/-- rewrite the first child registered under `a` (the slot keeps its position and its key) -/
def Forest.modify (a : Name) (f : Tree → Option Tree) : Forest → Option Forest
  | .nil => none
  | .cons i k r =>
    if i.name = a then (f ⟨i, k⟩).map (fun t => .cons { t.info with name := a } t.kids r)
    else (r.modify a f).map (.cons i k)

/-- `_replace_sub_module`, descendant case: walk `_modules[name]` down the path and assign the last -/
def replaceAt : Path → Tree → Tree → Option Tree
  | [], _, new => some new
  | a :: p, t, new => (t.kids.modify a (fun c => replaceAt p c new)).map (fun k => ⟨t.info, k⟩)

/-- `ModuleValidator._replace_sub_module` (the root case returns the new module itself) -/
def replaceSub (root : Tree) (path : Path) (new : Tree) : Option Tree :=
  if path = [] then some new else replaceAt path root new

/-- `named_modules()` below a node: pre-order, names relative to the node -/
def Forest.named : Forest → List (Path × Tree)
  | .nil => []
  | .cons i k r => ([i.name], ⟨i, k⟩) :: (k.named.map (fun e => (i.name :: e.1, e.2))) ++ r.named

/-- `module.named_modules()` (root has the empty name) -/
def Tree.named (t : Tree) : List (Path × Tree) := ([], t) :: t.kids.named

/-- `any(p.requires_grad for p in m.parameters(recurse=False))` -/
def Info.trainable (i : Info) : Bool := i.params.any (·.reqGrad)

/-- `trainable_modules(module)` -/
def trainableModules (t : Tree) : List (Path × Tree) := t.named.filter (fun e => e.2.info.trainable)

/-- `len(list(m.buffers()))` – recursive, as `nn.Module.buffers()` is -/
def Forest.bufCount : Forest → Nat
  | .nil => 0
  | .cons i k r => i.buffers.length + k.bufCount + r.bufCount

def Tree.bufCount (t : Tree) : Nat := t.info.buffers.length + t.kids.bufCount

/-- identities of `module.parameters()` -/
def Tree.paramOids (t : Tree) : List Oid := t.named.flatMap (fun e => e.2.info.params.map (·.oid))

/-- identities of every module, parameter and buffer object reachable from `t` -/
def Info.oids (i : Info) : List Oid := i.oid :: (i.params.map (·.oid) ++ i.buffers.map (·.oid))
def Tree.oids (t : Tree) : List Oid := t.named.flatMap (fun e => e.2.info.oids)

/-! ## Variants (known findings D3–D6: as coded vs repaired) -/

structure Variant where
  /-- D3/D4 repaired: validators and fixers visit every module, not only the trainable ones -/
  walkAll : Bool := false
  /-- D5 repaired: the InstanceNorm / LSTM / MultiheadAttention fixers accept (and ignore) `**kwargs` -/
  kwIN : Bool := false
  kwLSTM : Bool := false
  kwMHA : Bool := false
  /-- D6 repaired: the fixed InstanceNorm does not keep the running-statistics buffers -/
  inDropBuffers : Bool := false
  /-- repaired (fix f277a95): `fix` puts every replacement in the mode (train / eval) of the layer it replaces
  (`new_sub_module.train(sub_module.training)`); as coded a replacement is a freshly constructed, training-mode layer -/
  keepMode : Bool := false
  deriving DecidableEq, Repr

def asCoded : Variant := {}
def repaired : Variant := ⟨true, true, true, true, true, true⟩

/-! ## Validation -/

/-- `ModuleValidator.VALIDATORS` / `FIXERS` key sets -/
def validatorKeys : List Ty := [.bn1, .bn2, .bn3, .syncbn, .in1, .in2, .in3, .lstm, .mha]
def fixerKeys : List Ty := [.bn1, .bn2, .bn3, .syncbn, .in1, .in2, .in3, .lstm, .mha]

/-- the registered per-type validators (`none`: no validator registered for the type) -/
def validatorOf (i : Info) : Option (List ErrC) :=
  if isBN i.ty then some [.shouldReplace]
  else if isIN i.ty then some (if i.cfg.trs then [.illegalConfig] else [])
  else if i.ty = .lstm ∨ i.ty = .mha then some [.shouldReplace]
  else none

def nodeErrs (i : Info) : List ErrC := (validatorOf i).getD []

/-- the modules a validator / fixer pass visits -/
def walked (v : Variant) (t : Tree) : List (Path × Tree) :=
  if v.walkAll then t.named else trainableModules t

/-- `ModuleValidator.validate(module, strict=False)`: the error classes, in order -/
def mvValidate (v : Variant) (t : Tree) : List ErrC :=
  (if t.info.training then [] else [.illegalConfig]) ++ (walked v t).flatMap (fun e => nodeErrs e.2.info)

def isValid (v : Variant) (t : Tree) : Bool := (mvValidate v t).isEmpty

/-- `GradSampleModule.validate(module, strict=False)`: number of trainable modules with buffers -/
def gsmValidate (t : Tree) : Nat :=
  ((trainableModules t).filter (fun e => e.2.bufCount > 0)).length

/-- `PrivacyEngine.make_private` up to and including the wrapping of the model: parameter-set
check, `ModuleValidator.validate(strict=True)`, `GradSampleModule(..., strict=True)` -/
def makePrivate (v : Variant) (t : Tree) (opt : List Oid) : Except Exc Unit :=
  if opt.any (fun p => !(t.paramOids.contains p)) then .error .valueError
  else
    let errs := mvValidate v t
    if errs ≠ [] then .error (.unsupportedModule errs)
    else
      let n := gsmValidate t
      if n > 0 then .error (.notImplemented n) else .ok ()

/-! ## `clone_module` -/

def Info.mapOid (f : Oid → Oid) (i : Info) : Info :=
  { i with oid := f i.oid,
           params := i.params.map (fun p => { p with oid := f p.oid }),
           buffers := i.buffers.map (fun b => { b with oid := f b.oid }) }

def Forest.mapOid (f : Oid → Oid) : Forest → Forest
  | .nil => .nil
  | .cons i k r => .cons (i.mapOid f) (k.mapOid f) (r.mapOid f)

def Tree.mapOid (f : Oid → Oid) (t : Tree) : Tree := ⟨t.info.mapOid f, t.kids.mapOid f⟩

/-- `clone_module(m)` (serialise + load): same structure and values, fresh objects -/
def cloneModule (gen : Nat) (t : Tree) : Tree := t.mapOid (.clone gen)

/-! ## `state_dict` / `load_state_dict(strict=True)` -/

def Forest.stateDict : Forest → List (String × Val)
  | .nil => []
  | .cons i k r =>
    (i.params.map (fun p => (i.name.str ++ "." ++ p.name, p.val))
      ++ i.buffers.map (fun b => (i.name.str ++ "." ++ b.name, b.val))
      ++ k.stateDict.map (fun e => (i.name.str ++ "." ++ e.1, e.2)))
    ++ r.stateDict

def Tree.stateDict (t : Tree) : List (String × Val) :=
  t.info.params.map (fun p => (p.name, p.val)) ++ t.info.buffers.map (fun b => (b.name, b.val))
    ++ t.kids.stateDict

def sdGet (sd : List (String × Val)) (k : String) : Option Val := (sd.find? (fun e => e.1 == k)).map (·.2)

/-- strict loading: same key sets -/
def sdStrictOk (expected : List String) (sd : List (String × Val)) : Bool :=
  expected.all (fun k => (sdGet sd k).isSome) && sd.all (fun e => expected.contains e.1)

/-! ## Fixers -/

/-- fixer keyword arguments: `replace_bn_with_in=…`, `num_groups=…`, anything else -/
structure Kw where
  replaceBnWithIn : Option Bool := none
  numGroups : Option Nat := none
  extra : Bool := false
  deriving DecidableEq, Repr

def Kw.nonempty (kw : Kw) : Bool := kw.replaceBnWithIn.isSome || kw.numGroups.isSome || kw.extra

def leaf (g slot : Nat) (ty : Ty) (params : List Param := []) (cfg : Cfg := {}) (name : Name := .s "") : Tree :=
  ⟨{ name := name, oid := .new g slot, ty := ty, params := params, buffers := [], training := true, cfg := cfg }, .nil⟩

def bnToIn : Ty → Option Ty
  | .bn1 => some .in1
  | .bn2 => some .in2
  | .bn3 => some .in3
  | _ => none

/-- `batch_norm.fix` -/
def fixBN (kw : Kw) (g : Nat) (m : Tree) : Except Exc Tree :=
  let isIn := kw.replaceBnWithIn.getD false
  if isIn ∧ kw.numGroups.isSome then .error .valueError
  else if isIn then
    match bnToIn m.info.ty with
    | none => .error .unsupportable
    | some ty => .ok (leaf g 0 ty [] { numFeatures := m.info.cfg.numFeatures })
  else
    let c := m.info.cfg.numFeatures
    let ng := kw.numGroups.getD (Nat.gcd 32 c)
    if ng = 0 then .error .zeroDivision
    else if c % ng ≠ 0 then .error .valueError
    else
      let ps := if m.info.cfg.affine then
        [⟨"weight", .new g 1, .ones, true⟩, ⟨"bias", .new g 2, .zeros, true⟩] else []
      .ok (leaf g 0 .gn ps { numFeatures := c, affine := m.info.cfg.affine, numGroups := ng })

/-- `instance_norm.fix` -/
def fixIN (v : Variant) (kw : Kw) (g : Nat) (m : Tree) : Except Exc Tree :=
  if kw.nonempty ∧ ¬ v.kwIN then .error .typeError
  else if ¬ m.info.cfg.trs then .ok m
  else
    let c := cloneModule g m
    let i := { c.info with cfg := { c.info.cfg with trs := false } }
    .ok ⟨if v.inDropBuffers then { i with buffers := [] } else i, c.kids⟩

/-- the cells of a DPLSTM in construction order: `for layer: for direction` -/
def lstmCells : Nat → Bool → List (Nat × Bool)
  | 0, _ => []
  | l + 1, bidir => lstmCells l bidir ++ (if bidir then [(l, false), (l, true)] else [(l, false)])

def mapOpt {α β} (f : α → Option β) : List α → Option (List β)
  | [] => some []
  | a :: as =>
    match f a, mapOpt f as with
    | some b, some bs => some (b :: bs)
    | _, _ => none

def rnnLinear (g slot : Nat) (name : String) (w : Param) (b : Option Param) : Tree :=
  leaf g slot .rnnLinear
    ({ w with name := "weight" } :: (match b with | some bp => [{ bp with name := "bias" }] | none => []))
    {} (.s name)

/-- the (renamed) parameters of one DPLSTM cell, loaded from the LSTM's state dict:
`weight_ih_<sfx>`, `bias_ih_<sfx>`?, `weight_hh_<sfx>`, `bias_hh_<sfx>`? -/
structure CellParams where
  layer : Nat
  rev : Bool
  wih : Param
  bih : Option Param
  whh : Param
  bhh : Option Param

def cellSlot (c : Nat × Bool) : Nat := 20 * c.1 + (if c.2 then 10 else 0) + 10

/-- an optional key of the state dict: absent from the layer (`some none`), loaded, or missing -/
def optVal (wanted : Bool) (x : Option Val) : Option (Option Val) := if wanted then x.map some else some none

def cellParams (g : Nat) (sd : List (String × Val)) (bias : Bool) (c : Nat × Bool) : Option CellParams :=
  let sfx := cellSuffix c.1 c.2
  let slot := cellSlot c
  match sdGet sd ("weight_ih_" ++ sfx), sdGet sd ("weight_hh_" ++ sfx),
        optVal bias (sdGet sd ("bias_ih_" ++ sfx)), optVal bias (sdGet sd ("bias_hh_" ++ sfx)) with
  | some wih, some whh, some bih, some bhh =>
    some ⟨c.1, c.2, ⟨"weight_ih_" ++ sfx, .new g (slot + 2), wih, true⟩,
          bih.map (fun v => ⟨"bias_ih_" ++ sfx, .new g (slot + 3), v, true⟩),
          ⟨"weight_hh_" ++ sfx, .new g (slot + 5), whh, true⟩,
          bhh.map (fun v => ⟨"bias_hh_" ++ sfx, .new g (slot + 6), v, true⟩)⟩
  | _, _, _, _ => none

def CellParams.list (p : CellParams) : List Param :=
  [p.wih] ++ p.bih.toList ++ [p.whh] ++ p.bhh.toList

def dplstmCell (g : Nat) (p : CellParams) : Tree :=
  let slot := cellSlot (p.layer, p.rev)
  ⟨{ name := .cell p.layer p.rev, oid := .new g slot, ty := .dplstmCell },
   Forest.ofList [rnnLinear g (slot + 1) "ih" p.wih p.bih, rnnLinear g (slot + 4) "hh" p.whh p.bhh]⟩

def dplstmKeys (cells : List (Nat × Bool)) (bias : Bool) : List String :=
  cells.flatMap (fun c =>
    let sfx := cellSuffix c.1 c.2
    ["weight_ih_" ++ sfx] ++ (if bias then ["bias_ih_" ++ sfx] else []) ++
    ["weight_hh_" ++ sfx] ++ (if bias then ["bias_hh_" ++ sfx] else []))

/-- `DPLSTM(**config)` with the given loaded parameters.  `RenameParamsMixin`: the cells' parameters
are *also* registered on the DPLSTM itself under the nn.LSTM names (same objects). -/
def dplstmTree (g : Nat) (cfg : Cfg) (cps : List CellParams) : Tree :=
  let drop := if cfg.dropout then [leaf g 1 .dropout [] {} (.s "dropout_layer")] else []
  ⟨{ oid := .new g 0, ty := .dplstm, cfg := cfg, params := cps.flatMap CellParams.list },
   Forest.ofList (drop ++ cps.map (dplstmCell g))⟩

/-- `lstm.fix`: `DPLSTM(**config).load_state_dict(module.state_dict())` -/
def fixLSTM (v : Variant) (kw : Kw) (g : Nat) (m : Tree) : Except Exc Tree :=
  if kw.nonempty ∧ ¬ v.kwLSTM then .error .typeError
  else
    let cfg := m.info.cfg
    let cells := lstmCells cfg.numLayers cfg.bidir
    let sd := m.stateDict
    if ¬ sdStrictOk (dplstmKeys cells cfg.bias) sd then .error .runtimeError
    else
      match mapOpt (cellParams g sd cfg.bias) cells with
      | none => .error .runtimeError
      | some cps => .ok (dplstmTree g cfg cps)

/-- `DPMultiheadAttention.load_state_dict`: key translation from `nn.MultiheadAttention` -/
def mhaTranslate (sd : List (String × Val)) : List (String × Val) :=
  sd.flatMap (fun e =>
    if e.1 == "in_proj_weight" then
      [("qlinear.weight", .chunk3 e.2 0), ("klinear.weight", .chunk3 e.2 1), ("vlinear.weight", .chunk3 e.2 2)]
    else if e.1 == "in_proj_bias" then
      [("qlinear.bias", .chunk3 e.2 0), ("klinear.bias", .chunk3 e.2 1), ("vlinear.bias", .chunk3 e.2 2)]
    else if e.1 == "bias_k" then [("seq_bias_k.bias", .squeeze e.2)]
    else if e.1 == "bias_v" then [("seq_bias_v.bias", .squeeze e.2)]
    else if e.1 == "q_proj_weight" then [("qlinear.weight", e.2)]
    else if e.1 == "k_proj_weight" then [("klinear.weight", e.2)]
    else if e.1 == "v_proj_weight" then [("vlinear.weight", e.2)]
    else [e])

def dpmhaKeys (bias addBiasKv : Bool) : List String :=
  ["qlinear", "klinear", "vlinear", "out_proj"].flatMap
      (fun n => [n ++ ".weight"] ++ (if bias then [n ++ ".bias"] else []))
    ++ (if addBiasKv then ["seq_bias_k.bias", "seq_bias_v.bias"] else [])

/-- weight and optional bias of one `nn.Linear` of the DPMultiheadAttention, from the state dict -/
def linVals (sd : List (String × Val)) (name : String) (bias : Bool) : Option (Val × Option Val) := do
  let w ← sdGet sd (name ++ ".weight")
  let b ← if bias then (sdGet sd (name ++ ".bias")).map some else some none
  pure (w, b)

structure MhaVals where
  q : Val × Option Val
  k : Val × Option Val
  v : Val × Option Val
  o : Val × Option Val
  seqBias : Option (Val × Val)

def mhaVals (sd : List (String × Val)) (bias addBiasKv : Bool) : Option MhaVals := do
  let q ← linVals sd "qlinear" bias
  let k ← linVals sd "klinear" bias
  let v ← linVals sd "vlinear" bias
  let o ← linVals sd "out_proj" bias
  let sb ← if addBiasKv then do
      let bk ← sdGet sd "seq_bias_k.bias"
      let bv ← sdGet sd "seq_bias_v.bias"
      pure (some (bk, bv))
    else some none
  pure ⟨q, k, v, o, sb⟩

def linearOf (g slot : Nat) (name : String) (wb : Val × Option Val) : Tree :=
  leaf g slot .linear
    (⟨"weight", .new g (slot + 1), wb.1, true⟩ ::
      (match wb.2 with | some bv => [⟨"bias", .new g (slot + 2), bv, true⟩] | none => []))
    {} (.s name)

/-- `DPMultiheadAttention(**config)` with the given loaded parameters -/
def dpmhaTree (g : Nat) (cfg : Cfg) (x : MhaVals) : Tree :=
  let sb := match x.seqBias with
    | some (bk, bv) =>
      [leaf g 50 .seqBias [⟨"bias", .new g 51, bk, true⟩] {} (.s "seq_bias_k"),
       leaf g 52 .seqBias [⟨"bias", .new g 53, bv, true⟩] {} (.s "seq_bias_v")]
    | none => []
  ⟨{ oid := .new g 0, ty := .dpmha, cfg := cfg },
   Forest.ofList ([linearOf g 10 "qlinear" x.q, linearOf g 20 "klinear" x.k, linearOf g 30 "vlinear" x.v,
                   linearOf g 40 "out_proj" x.o] ++ sb ++ [leaf g 60 .dropout [] {} (.s "dropout")])⟩

/-- `multihead_attention.fix` -/
def fixMHA (v : Variant) (kw : Kw) (g : Nat) (m : Tree) : Except Exc Tree :=
  if kw.nonempty ∧ ¬ v.kwMHA then .error .typeError
  else
    let bias := m.info.params.any (fun p => p.name == "in_proj_bias")
    let addBiasKv := m.info.params.any (fun p => p.name == "bias_k")
    let sd := mhaTranslate m.stateDict
    if ¬ sdStrictOk (dpmhaKeys bias addBiasKv) sd then .error .runtimeError
    else
      match mhaVals sd bias addBiasKv with
      | none => .error .runtimeError
      | some x => .ok (dpmhaTree g m.info.cfg x)

/-- `ModuleValidator.FIXERS[type(sub_module)](sub_module, **kwargs)` -/
def fixer (v : Variant) (kw : Kw) (g : Nat) (m : Tree) : Except Exc Tree :=
  if isBN m.info.ty then fixBN kw g m
  else if isIN m.info.ty then fixIN v kw g m
  else if m.info.ty = .lstm then fixLSTM v kw g m
  else if m.info.ty = .mha then fixMHA v kw g m
  else .ok m

/-- `module.train(mode)` below a module: the flag of every descendant -/
def Forest.setMode (b : Bool) : Forest → Forest
  | .nil => .nil
  | .cons i k r => .cons { i with training := b } (k.setMode b) (r.setMode b)

/-- `module.train(mode)`: the flag of the module and of everything below it -/
def setMode (b : Bool) (t : Tree) : Tree := ⟨{ t.info with training := b }, t.kids.setMode b⟩

/-- the replacement as `fix` installs it -/
def installed (v : Variant) (old r : Tree) : Tree := if v.keepMode then setMode old.info.training r else r

/-- the loop of `ModuleValidator.fix` over the names collected beforehand; `g` counts the steps -/
def fixLoop (v : Variant) (kw : Kw) : List Path → Tree → Nat → Except Exc Tree
  | [], t, _ => .ok t
  | p :: ps, t, g =>
    match subAt p t with
    | none => .error .attributeError
    | some m =>
      if fixerKeys.contains m.info.ty then
        match fixer v kw g m with
        | .error e => .error e
        | .ok r =>
          match replaceSub t p (installed v m r) with
          | none => .error .keyError
          | some t' => fixLoop v kw ps t' (g + 1)
      else fixLoop v kw ps t (g + 1)

/-- names visited by `fix`, computed on the clone before anything is replaced -/
def fixNames (v : Variant) (t : Tree) : List Path := (walked v (cloneModule 0 t)).map (·.1)

/-- `ModuleValidator.fix(module, **kwargs)` -/
def fix (v : Variant) (kw : Kw) (t : Tree) : Except Exc Tree :=
  fixLoop v kw (fixNames v t) (cloneModule 0 t) 1

/-! ## Semantics of the reference layers (trusted table, validated by the harness on torch)

`couples i`: in the mode the node is in, the output for one sample depends on the other samples of
the batch.  `updatesStats i`: a forward pass writes data-dependent statistics into a buffer. -/

def hasRunBuf (i : Info) : Bool := i.buffers.any (fun b => b.name == "running_mean")

def couples (i : Info) : Bool := isBN i.ty && (i.training || !hasRunBuf i)

def updatesStats (i : Info) : Bool :=
  (isBN i.ty && i.training && i.cfg.trs && hasRunBuf i)
  || (isIN i.ty && hasRunBuf i && (i.training || !i.cfg.trs))

/-- a node that neither couples samples nor keeps running statistics -/
def nodeIndependent (i : Info) : Bool := !couples i && !updatesStats i

/-- every module of the tree is sample-independent -/
def independent (t : Tree) : Prop := ∀ e ∈ t.named, nodeIndependent e.2.info = true

/-- torch constructor invariant: normalisation layers own running-stat buffers iff the flag is set -/
def bufWF (i : Info) : Bool := !(isBN i.ty || isIN i.ty) || (hasRunBuf i == i.cfg.trs)

/-- sibling names are pairwise distinct (`_modules` is a dictionary), recursively -/
def Forest.wf : Forest → Bool
  | .nil => true
  | .cons i k r => (r.find i.name).isNone && k.wf && r.wf

def Tree.WF (t : Tree) : Prop := t.kids.wf = true

instance (t : Tree) : Decidable t.WF := by unfold Tree.WF; infer_instance

/-- a predicate on every node below -/
def Forest.all (P : Info → Bool) : Forest → Bool
  | .nil => true
  | .cons i k r => P i && k.all P && r.all P

def Tree.all (P : Info → Bool) (t : Tree) : Bool := P t.info && t.kids.all P

end Opacus.Validate
