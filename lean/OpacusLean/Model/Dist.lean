/-! Model of distributed DP training in Opacus, generic in the scalar `R`
(`Float` in the driver, any field in the theorems).

Modelled code (all under `opacus/`):
* `optimizers/optimizer.py`           `DPOptimizer.clip_and_accumulate / add_noise / scale_grad / pre_step`
                                       (the single-process reference and the base of every variant)
* `optimizers/ddpoptimizer.py`        `DistributedDPOptimizer.add_noise / reduce_gradients / step`
* `optimizers/ddpoptimizer_fast_gradient_clipping.py`   the ghost twin (same three methods; the
                                       clipped sum arrives in `p.grad` from the module's second backward)
* `optimizers/ddp_perlayeroptimizer.py`  `SimpleDistributedPerLayerOptimizer` (per-layer clip +
                                       the three methods above) and `DistributedPerLayerOptimizer`
                                       (`_ddp_per_layer_hook`: clip, rank-0 noise, scale by
                                       `expected_batch_size * accumulated_iterations * world_size`)
* `distributed.py`                    `DifferentiallyPrivateDistributedDataParallel.__init__` (broadcast from 0)
* `privacy_engine.py:404-407`         `expected_batch_size /= world_size`

A gradient (of the whole network) is a total function `(p : Fin P) → Fin (dims p) → R`: parameter
`p`, flat coordinate `i`.  A *sample* is identified with its per-sample gradient (its "token");
the clip factor is a function of the sample alone, one factor per parameter
(flat clipping: the same factor for every parameter; per-layer: one per parameter).
`W` workers are `Fin W`; collectives are pure functions on `Fin W → Grad`.
`z w` is what `torch.normal` *would* return on worker `w`; whether it is used is the model's business. -/
namespace Opacus.Dist

abbrev Grad (R : Type) (P : Nat) (dims : Fin P → Nat) := (p : Fin P) → Fin (dims p) → R

def sumFin {R} [Add R] [Zero R] (n : Nat) (f : Fin n → R) : R :=
  Fin.foldl n (fun acc i => acc + f i) 0

inductive Reduction where | mean | sum
deriving DecidableEq, Repr

/-- what the tree implements at the two places where the code as it stands departs from the
property (see `Props/C18.lean`) -/
inductive Fix where | asCoded | repaired
deriving DecidableEq, Repr

/-- the optimizer's attributes -/
structure Cfg (R : Type) (P : Nat) (dims : Fin P → Nat) where
  red : Reduction
  /-- `optimizer.expected_batch_size` – whatever the engine passed -/
  ebs : R
  /-- `accumulated_iterations` (1: one backward per step) -/
  k : R
  /-- `noise_multiplier * max_grad_norm` -/
  std : R
  /-- `std ≠ 0` (`_generate_noise` returns zeros without drawing when `std == 0`) -/
  noisy : Bool
  lr : R
  /-- per-sample, per-parameter clip factor: a function of the sample only -/
  clip : Grad R P dims → Fin P → R

/-- the same optimizer with another `expected_batch_size` -/
def Cfg.withEbs {R P dims} (c : Cfg R P dims) (e : R) : Cfg R P dims := { c with ebs := e }

/-- `privacy_engine.py`: `expected_batch_size /= world_size` when the module is DPDDP / DDP -/
def engineEbs {R} [Div R] [NatCast R] (E : R) (distributed : Bool) (W : Nat) : R :=
  if distributed then E / (W : R) else E

section
variable {R : Type} {P : Nat} {dims : Fin P → Nat}

/-- `clip_and_accumulate` (flat, per-layer, `_clip_and_accumulate_parameter`) and, for ghost
clipping, the second backward pass + `accumulate`: `summed_grad = Σ_i c_i · g_i` over the local batch
(`einsum("i,i...")` over an empty batch is the zero tensor) -/
def clipSum [Add R] [Mul R] [Zero R] (clip : Grad R P dims → Fin P → R) (shard : List (Grad R P dims)) :
    Grad R P dims :=
  fun p i => (shard.map fun g => clip g p * g p i).sum

/-- `add_noise` of the distributed optimizers: rank 0 calls `DPOptimizer.add_noise`
(`p.grad = summed_grad + noise`), every other rank `p.grad = summed_grad` -/
def addNoise [Add R] [Zero R] (c : Cfg R P dims) (isRank0 : Bool) (S z : Grad R P dims) : Grad R P dims :=
  if isRank0 then (fun p i => S p i + (if c.noisy then z p i else 0)) else S

/-- the `torch.normal` requests a worker makes in one step: (parameter, std), in parameter order -/
def draws (c : Cfg R P dims) (isRank0 : Bool) : List (Fin P × R) :=
  if isRank0 && c.noisy then List.ofFn (fun p : Fin P => (p, c.std)) else []

/-- `scale_grad`: `p.grad /= expected_batch_size * accumulated_iterations` for mean reduction -/
def scaleGrad [Mul R] [Div R] (c : Cfg R P dims) (g : Grad R P dims) : Grad R P dims :=
  match c.red with
  | .mean => fun p i => g p i / (c.ebs * c.k)
  | .sum => g

/-- `pre_step` (no skip signal): clip+accumulate, add noise, scale -/
def preStep [Add R] [Mul R] [Div R] [Zero R] (c : Cfg R P dims) (isRank0 : Bool)
    (shard : List (Grad R P dims)) (z : Grad R P dims) : Grad R P dims :=
  scaleGrad c (addNoise c isRank0 (clipSum c.clip shard) z)

/-- inner optimizer: plain SGD -/
def sgd [Sub R] [Mul R] (lr : R) (θ g : Grad R P dims) : Grad R P dims :=
  fun p i => θ p i - lr * g p i

/-! ### single process (`DPOptimizer`, `DPPerLayerOptimizer`, `DPOptimizerFastGradientClipping`) -/

def singleStepGrad [Add R] [Mul R] [Div R] [Zero R] (c : Cfg R P dims)
    (batch : List (Grad R P dims)) (z : Grad R P dims) : Grad R P dims :=
  preStep c true batch z

def singleStep [Add R] [Sub R] [Mul R] [Div R] [Zero R] (c : Cfg R P dims) (θ : Grad R P dims)
    (batch : List (Grad R P dims)) (z : Grad R P dims) : Grad R P dims :=
  sgd c.lr θ (singleStepGrad c batch z)

/-! ### collectives -/
variable {W : Nat}

/-- `all_reduce(op=SUM)`: every rank ends with the sum over all ranks -/
def allReduceSum [Add R] [Zero R] (x : Fin W → Grad R P dims) : Fin W → Grad R P dims :=
  fun _ p i => sumFin W fun w => x w p i

/-- `opacus.distributed.average_gradients`: `all_reduce(param.grad, SUM)` then `param.grad /= world_size` -/
def averageGradients [Add R] [Div R] [Zero R] [NatCast R] (x : Fin W → Grad R P dims) : Fin W → Grad R P dims :=
  fun w p i => allReduceSum x w p i / (W : R)

/-- `broadcast(p.data, src)`: every rank ends with the source rank's tensor -/
def broadcast {α : Type} (src : Fin W) (x : Fin W → α) : Fin W → α := fun _ => x src

/-- `DifferentiallyPrivateDistributedDataParallel.__init__`: broadcast every parameter from rank 0
(torch's own DDP constructor does the same) -/
def dpddpInit (hW : 0 < W) (θ0 : Fin W → Grad R P dims) : Fin W → Grad R P dims :=
  broadcast ⟨0, hW⟩ θ0

/-- the union of the shards in rank order = the logical batch -/
def unionBatch (shards : Fin W → List (Grad R P dims)) : List (Grad R P dims) :=
  (List.ofFn shards).flatten

/-! ### `DistributedDPOptimizer`, its ghost twin, `SimpleDistributedPerLayerOptimizer` -/

/-- `reduce_gradients`: `all_reduce(p.grad, SUM)`, then `p.grad /= world_size` for mean reduction -/
def reduceGradients [Add R] [Div R] [Zero R] [NatCast R] (c : Cfg R P dims)
    (x : Fin W → Grad R P dims) : Fin W → Grad R P dims :=
  match c.red with
  | .mean => fun w p i => allReduceSum x w p i / (W : R)
  | .sum => allReduceSum x

/-- `p.grad` on every rank after `step()`: `pre_step` locally, then `reduce_gradients` -/
def ddpStepGrad [Add R] [Mul R] [Div R] [Zero R] [NatCast R] (c : Cfg R P dims)
    (shards : Fin W → List (Grad R P dims)) (z : Fin W → Grad R P dims) : Fin W → Grad R P dims :=
  reduceGradients c fun w => preStep c (w.val == 0) (shards w) (z w)

def ddpStep [Add R] [Sub R] [Mul R] [Div R] [Zero R] [NatCast R] (c : Cfg R P dims)
    (θ : Fin W → Grad R P dims) (shards : Fin W → List (Grad R P dims)) (z : Fin W → Grad R P dims) :
    Fin W → Grad R P dims :=
  fun w => sgd c.lr (θ w) (ddpStepGrad c shards z w)

/-- all `torch.normal` requests of one step, tagged with the rank that made them -/
def ddpDraws (c : Cfg R P dims) (W : Nat) : List (Fin W × Fin P × R) :=
  (List.ofFn fun w : Fin W => (draws c (w.val == 0)).map fun d => (w, d)).flatten

/-! ### `DistributedPerLayerOptimizer` under torch `DistributedDataParallel` -/

/-- ranks on which `_clip_and_accumulate_parameter` raises: `p.grad_sample.view(len, -1)` with
`len == 0` is rejected by torch ("unspecified dimension size -1 can be any value") -/
def hookErrRanks (fxEmpty : Fix) (shards : Fin W → List (Grad R P dims)) : List (Fin W) :=
  match fxEmpty with
  | .asCoded => (List.ofFn fun w : Fin W => if (shards w).isEmpty then [w] else []).flatten
  | .repaired => []

/-- `p.grad` on one rank when its backward pass has finished, before DDP's reduction.
As coded: `_ddp_per_layer_hook` clips, adds noise on rank 0, divides by
`expected_batch_size * accumulated_iterations * world_size` (mean), *assigns* the result to `p.grad`
and also *returns* it; autograd's `AccumulateGrad` then adds the returned gradient to the `p.grad`
it finds, so the rank holds twice the hook's value.
Repaired: the hook only returns the value, scaled so that DDP's averaging yields the union release. -/
def hookLocal [Add R] [Mul R] [Div R] [Zero R] [NatCast R] (fxScale : Fix) (c : Cfg R P dims) (W : Nat)
    (isRank0 : Bool) (shard : List (Grad R P dims)) (z : Grad R P dims) : Grad R P dims :=
  let X := addNoise c isRank0 (clipSum c.clip shard) z
  match fxScale with
  | .asCoded =>
    let Y : Grad R P dims := match c.red with
      | .mean => fun p i => X p i / (c.ebs * c.k * (W : R))
      | .sum => X
    fun p i => Y p i + Y p i
  | .repaired =>
    match c.red with
    | .mean => fun p i => X p i / (c.ebs * c.k)
    | .sum => fun p i => X p i * (W : R)

/-- torch DDP's reducer: every rank's gradient is divided by the world size, then all-reduced (SUM) -/
def torchDDPAverage [Add R] [Div R] [Zero R] [NatCast R] (x : Fin W → Grad R P dims) :
    Fin W → Grad R P dims :=
  fun _ p i => sumFin W fun w => x w p i / (W : R)

/-- `p.grad` on every rank after backward (+ `step()`, which no longer touches it), or the ranks
whose hook raised -/
def hookStepGrad [Add R] [Mul R] [Div R] [Zero R] [NatCast R] (fxEmpty fxScale : Fix) (c : Cfg R P dims)
    (shards : Fin W → List (Grad R P dims)) (z : Fin W → Grad R P dims) :
    Except (List (Fin W)) (Fin W → Grad R P dims) :=
  match hookErrRanks fxEmpty shards with
  | [] => .ok (torchDDPAverage fun w => hookLocal fxScale c W (w.val == 0) (shards w) (z w))
  | bad => .error bad

/-! ### runs: construction (broadcast) + a sequence of steps -/

structure StepIn (R : Type) (P : Nat) (dims : Fin P → Nat) (W : Nat) where
  shards : Fin W → List (Grad R P dims)
  z : Fin W → Grad R P dims

def ddpRun [Add R] [Sub R] [Mul R] [Div R] [Zero R] [NatCast R] (c : Cfg R P dims)
    (θ : Fin W → Grad R P dims) : List (StepIn R P dims W) → Fin W → Grad R P dims
  | [] => θ
  | s :: rest => ddpRun c (ddpStep c θ s.shards s.z) rest

/-- the single-process run on the union batches, drawing rank 0's noise -/
def unionRun [Add R] [Sub R] [Mul R] [Div R] [Zero R] (c : Cfg R P dims) (hW : 0 < W)
    (θ : Grad R P dims) : List (StepIn R P dims W) → Grad R P dims
  | [] => θ
  | s :: rest => unionRun c hW (singleStep c θ (unionBatch s.shards) (s.z ⟨0, hW⟩)) rest

def hookRun [Add R] [Sub R] [Mul R] [Div R] [Zero R] [NatCast R] (fxEmpty fxScale : Fix) (c : Cfg R P dims)
    (θ : Fin W → Grad R P dims) : List (StepIn R P dims W) → Except (Nat × List (Fin W)) (Fin W → Grad R P dims)
  | [] => .ok θ
  | s :: rest =>
    match hookStepGrad fxEmpty fxScale c s.shards s.z with
    | .error bad => .error (0, bad)
    | .ok g =>
      match hookRun fxEmpty fxScale c (fun w => sgd c.lr (θ w) (g w)) rest with
      | .error (t, bad) => .error (t + 1, bad)
      | .ok θ' => .ok θ'

end
end Opacus.Dist
