/-! Model of the skip-signal queue as the hook-based `DistributedPerLayerOptimizer` uses it
(`opacus/optimizers/ddp_perlayeroptimizer.py: _ddp_per_layer_hook`, `pre_step`;
`opacus/optimizers/optimizer.py: signal_skip_step`, `_check_skip_next_step`).

`BatchSplittingSampler` pushes one signal per physical batch (`True` = not the last one of its logical batch), possibly
several batches AHEAD of the training loop (a prefetching loader).  For each physical batch the per-parameter backward hooks
only PEEK at the queue (`_check_skip_next_step(pop_next=False)`: the head, `False` if the queue is empty) and add noise iff
the peeked value is `False`; `pre_step` then POPS the head.  Lean core only. -/
namespace Opacus.PeekQueue

inductive Op where
  | push (b : Bool)      -- `optimizer.signal_skip_step(do_skip=b)` (the sampler yields the next physical batch)
  | batch                -- backward pass of one physical batch (hooks peek) followed by `optimizer.step()` (pops)
deriving Repr, DecidableEq

structure St where
  queue : List Bool
  /-- per processed physical batch: was noise drawn in its backward hooks? -/
  noised : List Bool
deriving Repr, DecidableEq

def peek (q : List Bool) : Bool := q.headD false

def step (s : St) : Op → St
  | .push b => { s with queue := s.queue ++ [b] }
  | .batch => { queue := s.queue.drop 1, noised := s.noised ++ [!peek s.queue] }

def run (ops : List Op) : St := ops.foldl step ⟨[], []⟩

/-- the signals pushed by a schedule, in order -/
def pushed : List Op → List Bool
  | [] => []
  | .push b :: ops => b :: pushed ops
  | .batch :: ops => pushed ops

def batches : List Op → Nat
  | [] => 0
  | .push _ :: ops => batches ops
  | .batch :: ops => batches ops + 1

/-- a schedule in which the sampler is never BEHIND the training loop: before every physical batch runs, its own signal
has been pushed (the loader yields a batch only after the sampler produced it) -/
def ahead : Nat → List Op → Bool
  | _, [] => true
  | n, .push _ :: ops => ahead (n + 1) ops
  | 0, .batch :: _ => false
  | n + 1, .batch :: ops => ahead n ops

end Opacus.PeekQueue
