import OpacusLean.Model.Clip
/-! Model of ghost clipping / fast gradient clipping
(`opacus/grad_sample/linear.py:compute_linear_norm_sample`,
`opacus/grad_sample/embedding_norm_sample.py`,
`grad_sample_module_fast_gradient_clipping.py:get_norm_sample / get_clipping_coef / create_norm_sample`,
`utils/fast_gradient_clipping_utils.py:DPTensorFastGradientClipping.backward`,
`optimizers/optimizer_fast_gradient_clipping.py:accumulate`), generic in the scalar.  Lean core only.

Per sample, a layer sees activations `a` and backprops `b` (already multiplied by the batch size for
mean-reduced losses, as `rearrange_grad_samples` does).  The *norm sampler* returns the norm of the
layer's per-sample gradient without materialising it; the *grad sample* is what autograd's second
backward contributes for that sample. -/
namespace Opacus.Ghost
open Opacus.Clip

/-- which behaviour of a known-defective spot the tree implements -/
inductive Variant where
  | asCoded
  | repaired
deriving DecidableEq, Repr

section samplers
variable {R : Type} [Add R] [Mul R] [Zero R]

/-- squared Frobenius norm of a matrix-shaped gradient -/
def frobSq {O I : Nat} (m : Fin O → Fin I → R) : R :=
  sumFin O fun i => sumFin I fun j => m i j * m i j

def vecSq {n : Nat} (v : Fin n → R) : R := sumFin n fun i => v i * v i

/-! #### `nn.Linear`, 2-D input (`backprops.dim() == 2`) -/

/-- grad sample of the weight: `einsum("n...i,n...j->nij", backprops, activations)` -/
def linWeightGS2 {O I : Nat} (b : Fin O → R) (a : Fin I → R) : Fin O → Fin I → R :=
  fun i j => b i * a j

/-- coded squared norm of the weight gradient: `g * a` with `g = Σ b²`, `a = Σ a²` -/
def linWeightNormSq2 {O I : Nat} (b : Fin O → R) (a : Fin I → R) : R := vecSq b * vecSq a

/-- bias: grad sample is `b`, coded squared norm `Σ b²` -/
def linBiasNormSq2 {O : Nat} (b : Fin O → R) : R := vecSq b

/-! #### `nn.Linear`, 3-D input (`backprops.dim() == 3`): `T` positions per sample -/

def linWeightGS3 {T O I : Nat} (b : Fin T → Fin O → R) (a : Fin T → Fin I → R) :
    Fin O → Fin I → R :=
  fun i j => sumFin T fun t => b t i * a t j

/-- `einsum("n...k->nk", backprops)` -/
def linBiasGS3 {T O : Nat} (b : Fin T → Fin O → R) : Fin O → R :=
  fun i => sumFin T fun t => b t i

/-- `einsum("nik,njk->nij", u, u)`: the Gram matrix over positions -/
def gram {T K : Nat} (u : Fin T → Fin K → R) : Fin T → Fin T → R :=
  fun t t' => sumFin K fun k => u t k * u t' k

/-- `einsum("n...i,n...i->n", ggT, aaT)` (before `clamp(min=0)` and `sqrt`) -/
def linWeightNormSq3 {T O I : Nat} (b : Fin T → Fin O → R) (a : Fin T → Fin I → R) : R :=
  sumFin T fun t => sumFin T fun t' => gram b t t' * gram a t t'

/-- bias, 3-D input.  As coded: `einsum("n...i,n...i->n", ggT, ggT)` = `‖b bᵀ‖²_F`.
Repaired: `Σ_{t,t'} (b bᵀ)_{t t'}` = `‖Σ_t b_t‖²`. -/
def linBiasNormSq3 (v : Variant) {T O : Nat} (b : Fin T → Fin O → R) : R :=
  match v with
  | .asCoded => sumFin T fun t => sumFin T fun t' => gram b t t' * gram b t t'
  | .repaired => sumFin T fun t => sumFin T fun t' => gram b t t'

/-! #### `nn.Embedding`: `T` positions per sample (any input shape flattened), vocabulary `V` -/

/-- grad sample: scatter-add of the backprops into the rows of their ids -/
def embGS {T V D : Nat} (ids : Fin T → Fin V) (b : Fin T → Fin D → R) : Fin V → Fin D → R :=
  fun v j => sumFin T fun t => if ids t = v then b t j else 0

/-- the ids occurring in the sample, sorted and without repetition
(`torch.unique(paired_indices, dim=0, sorted=True)` restricted to one batch row) -/
def uniqueIds {T V : Nat} (ids : Fin T → Fin V) : List (Fin V) :=
  (List.finRange V).filter fun v => (List.finRange T).any fun t => ids t = v

/-- coded squared norm: for every unique (row, id) pair sum the backprops of that id
(`index_add`), square, and `scatter_add` the squared sums back to the row -/
def embNormSq {T V D : Nat} (ids : Fin T → Fin V) (b : Fin T → Fin D → R) : R :=
  ((uniqueIds ids).map fun v => vecSq (embGS ids b v)).foldl (· + ·) 0

end samplers

/-! ### norms from squared norms, per sample -/
section norms
variable {R : Type} [HasSqrt R] [Max R] [Zero R]

/-- `torch.sqrt(x)` (2-D linear, embedding) -/
def normOfSq (x : R) : R := HasSqrt.sqrt x
/-- `torch.sqrt(x.clamp(min=0))` (3-D linear) -/
def normOfSqClamped (x : R) : R := HasSqrt.sqrt (max 0 x)

end norms

section pipeline
variable {R : Type} [Add R] [Mul R] [Div R] [Zero R] [One R] [Min R] [OfScientific R] [HasSqrt R]
variable {P : Nat} {d : Fin P → Nat}

/-- `get_norm_sample` for one sample: `stack([p._norm_sample …]).norm(2, dim=0)` -/
def normSample (pn : Fin P → R) : R := norm2 pn

/-- `get_clipping_coef` for one sample -/
def clippingCoef (C : R) (pn : Fin P → R) : R := clipFactor C (normSample pn)

/-- shape of the per-sample loss tensor handed to `DPTensorFastGradientClipping` -/
inductive LossShape where
  /-- `[B]` -/
  | vec
  /-- `[B, 1]` (what the class docstring announces; what `MSELoss(reduction="none")` gives on a
  `[B,1]` regression output) -/
  | col
deriving DecidableEq, Repr

/-- the weight each sample's loss effectively receives in
`second_loss = torch.sum(coeff * loss_per_sample)`: with a `[B,1]` loss the product broadcasts to
`[B,B]`, so every sample is weighted by `Σ_j coeff_j` (as coded); the repaired variant aligns the
shapes first. -/
def effectiveCoefs (v : Variant) (s : LossShape) (coefs : List R) : List R :=
  match v, s with
  | .asCoded, .col => let tot := coefs.foldl (· + ·) 0; coefs.map fun _ => tot
  | _, _ => coefs

/-- weighted sum of per-sample gradients (autograd's linearity is the contract here) -/
def wsum (l : List (R × Grad R d)) : Grad R d :=
  l.foldl (fun acc cg => gadd acc (gscale (fun _ => cg.1) cg.2)) gzero

/-- `p.grad` after `loss.backward()` of the ghost wrapper on one physical batch: per sample the
per-parameter norm samples `pn` (first backward) and the true gradient `g` (second backward) -/
def ghostBatchGrad (v : Variant) (s : LossShape) (C : R) (batch : List ((Fin P → R) × Grad R d)) :
    Grad R d :=
  let coefs := effectiveCoefs v s (batch.map fun x => clippingCoef C x.1)
  wsum (coefs.zip (batch.map (·.2)))

/-- `DPOptimizerFastGradientClipping.accumulate` after the ghost backward of one physical batch -/
def ghostAccumulate (v : Variant) (s : LossShape) (C : R) (sg : Option (Grad R d))
    (batch : List ((Fin P → R) × Grad R d)) : Option (Grad R d) :=
  accumulate sg (ghostBatchGrad v s C batch)

/-! executable forms (see `Clip.lean`) -/

def wsumExec (d : Fin P → Nat) (l : List (R × Store R)) : Store R :=
  l.foldl (fun acc cg => store (gadd (lookup d acc) (gscale (fun _ => cg.1) (lookup d cg.2))))
    (store (gzero : Grad R d))

def ghostAccumulateExec (d : Fin P → Nat) (v : Variant) (s : LossShape) (C : R)
    (sg : Option (Store R)) (batch : List (Array R × Store R)) : Option (Store R) :=
  let coefs := effectiveCoefs v s (batch.map fun x => clippingCoef C (lookupVec (n := P) x.1))
  accumulateExec d sg (wsumExec d (coefs.zip (batch.map (·.2))))

end pipeline

end Opacus.Ghost
