/-! Line-protocol helpers shared by all drivers (Lean core only – no Mathlib).

Conventions (see /verif/vharness/core.py for the Python side):
* one request per input line, whitespace-separated tokens, one reply line per request;
* integers in decimal; naturals in decimal; booleans `0|1`;
* binary64 values as 16 hex digits of their IEEE-754 bit pattern (`f:` channel) so that
  nothing is lost or re-rounded on the way in or out;
* lists are `n x1 … xn`.
-/
namespace Opacus.Proto

def words (s : String) : List String :=
  ((s.replace "\n" "").replace "\r" "").splitOn " " |>.filter (· ≠ "")

def hexDigit? (c : Char) : Option Nat :=
  if '0' ≤ c ∧ c ≤ '9' then some (c.toNat - '0'.toNat)
  else if 'a' ≤ c ∧ c ≤ 'f' then some (c.toNat - 'a'.toNat + 10)
  else if 'A' ≤ c ∧ c ≤ 'F' then some (c.toNat - 'A'.toNat + 10)
  else none

def hexNat? (s : String) : Option Nat :=
  if s.isEmpty then none else
  s.toList.foldl (fun acc c => match acc, hexDigit? c with
    | some a, some d => some (a * 16 + d)
    | _, _ => none) (some 0)

def float? (s : String) : Option Float := (hexNat? s).map (fun n => Float.ofBits n.toUInt64)

def hexOfNat (n : Nat) (digits : Nat) : String :=
  let rec go (k : Nat) (n : Nat) (acc : List Char) : List Char :=
    match k with
    | 0 => acc
    | k + 1 =>
      let d := n % 16
      let c := if d < 10 then Char.ofNat ('0'.toNat + d) else Char.ofNat ('a'.toNat + d - 10)
      go k (n / 16) (c :: acc)
  String.ofList (go digits n [])

def floatHex (f : Float) : String := hexOfNat f.toBits.toNat 16

def bool? (s : String) : Option Bool :=
  if s = "1" then some true else if s = "0" then some false else none

def boolStr (b : Bool) : String := if b then "1" else "0"

def ints? (ws : List String) : Option (List Int) := ws.mapM (·.toInt?)
def nats? (ws : List String) : Option (List Nat) := ws.mapM (·.toNat?)
def floats? (ws : List String) : Option (List Float) := ws.mapM float?

/-- parse a length-prefixed list `n x1 … xn`, returning the list and the remaining tokens -/
def takeList? {α} (p : String → Option α) : List String → Option (List α × List String)
  | [] => none
  | n :: rest => do
    let k ← n.toNat?
    if rest.length < k then none else
    let xs ← (rest.take k).mapM p
    pure (xs, rest.drop k)

def joinInts (xs : List Int) : String := " ".intercalate (xs.map toString)
def joinNats (xs : List Nat) : String := " ".intercalate (xs.map toString)
def joinFloats (xs : List Float) : String := " ".intercalate (xs.map floatHex)

/-- stateful line loop: `step` returns the new state and the reply line -/
partial def loop {σ} (h : IO.FS.Stream) (out : IO.FS.Stream) (step : σ → String → σ × String) (s : σ) : IO Unit := do
  let line ← h.getLine
  if line.isEmpty then out.flush; return ()
  let (s', o) := step s line
  out.putStrLn o
  loop h out step s'

def runLines {σ} (step : σ → String → σ × String) (init : σ) : IO Unit := do
  loop (← IO.getStdin) (← IO.getStdout) step init

/-- stateless variant -/
def runPure (f : String → String) : IO Unit := runLines (fun (_ : Unit) l => ((), f l)) ()

end Opacus.Proto
