import OpacusLean.Model.Proto
import OpacusLean.Model.Clip
import OpacusLean.Model.GhostNorm
/-! Request parsing shared by the C02 and C03 drivers (Float instance).  Lean core only. -/
namespace Opacus.ClipProto
open Opacus Opacus.Proto Opacus.Clip Opacus.Ghost

/-- binary64 as the decimal value of its bit pattern (core's `String.toNat?` is native code, the
hex parser of `Proto` is interpreted: 20× faster on long tensor lines) -/
def fdec? (s : String) : Option Float := s.toNat?.map (fun n => Float.ofBits n.toUInt64)

def flat (s : Store Float) : List Float := s.toList.flatMap (·.toList)

/-- split `xs` into consecutive chunks of the given sizes -/
def chunks (sizes : List Nat) (xs : List Float) : Option (List (Array Float)) :=
  match sizes with
  | [] => if xs.isEmpty then some [] else none
  | s :: r => if xs.length < s then none else do
      let rest ← chunks r (xs.drop s)
      pure ((xs.take s).toArray :: rest)

def parseBatches (dl : List Nat) : Nat → List String → Option (List (List (List (Array Float))))
  | 0, [] => some []
  | 0, _ => none
  | nb + 1, b :: rest => do
      let B ← b.toNat?
      let tot := dl.foldl (· + ·) 0
      if rest.length < B * tot then none else
      let xs ← (rest.take (B * tot)).mapM fdec?
      let per ← chunks (List.replicate B tot) xs
      let samples ← per.mapM (fun a => chunks dl a.toList)
      let more ← parseBatches dl nb (rest.drop (B * tot))
      pure (samples :: more)
  | _, [] => none

/-- `<kind> <P> <d…> <C…>` → sizes, mode, remaining tokens -/
def parseMode (kind : String) (rest : List String) :
    Option ((dl : List Nat) × Mode Float dl.length × List String) := do
  let (dl, rest) ← takeList? (·.toNat?) rest
  let P := dl.length
  match kind with
  | "flat" | "ghost" => match rest with
      | c :: r => (fdec? c).map (fun c => ⟨dl, Mode.flat c, r⟩)
      | _ => none
  | "adaptive" => match rest with
      | c :: r => (fdec? c).map (fun c => ⟨dl, Mode.adaptive c, r⟩)
      | _ => none
  | "perlayer" =>
      if rest.length < P then none else
      ((rest.take P).mapM fdec?).map (fun cs => ⟨dl, Mode.perLayer (fun k => cs.getD k.val 0), rest.drop P⟩)
  | _ => none

/-! ### ghost clipping -/

def takeN {α} (p : String → Option α) (n : Nat) (ws : List String) : Option (Array α × List String) :=
  if ws.length < n then none else do
    let xs ← (ws.take n).mapM p
    pure (xs.toArray, ws.drop n)

def mat {α} [Inhabited α] (arr : Array α) (r c : Nat) : Fin r → Fin c → α := fun i j => arr[i.val * c + j.val]!
def vec {α} [Inhabited α] (arr : Array α) (n : Nat) : Fin n → α := fun i => arr[i.val]!
def flatMat {α} {r c : Nat} (m : Fin r → Fin c → α) : Array α :=
  (Array.ofFn fun i : Fin r => Array.ofFn fun j : Fin c => m i j).flatten

def variant? : String → Option Variant
  | "a" => some .asCoded
  | "r" => some .repaired
  | _ => none

/-- one layer of one sample → (per-parameter norm samples, per-parameter flat grad samples) -/
def layer (bv : Variant) : List String → Option ((List Float × List (Array Float)) × List String)
  | "lin2" :: o :: i :: hb :: rest => do
      let O ← o.toNat?; let I ← i.toNat?; let hb ← bool? hb
      let (b, rest) ← takeN fdec? O rest
      let (a, rest) ← takeN fdec? I rest
      let bv' := vec b O; let av := vec a I
      let w := (normOfSq (linWeightNormSq2 bv' av), flatMat (linWeightGS2 bv' av))
      if hb then pure (([w.1, normOfSq (linBiasNormSq2 bv')], [w.2, b]), rest)
      else pure (([w.1], [w.2]), rest)
  | "lin3" :: t :: o :: i :: hb :: rest => do
      let T ← t.toNat?; let O ← o.toNat?; let I ← i.toNat?; let hb ← bool? hb
      let (b, rest) ← takeN fdec? (T * O) rest
      let (a, rest) ← takeN fdec? (T * I) rest
      let bm := mat b T O; let am := mat a T I
      let w := (normOfSqClamped (linWeightNormSq3 bm am), flatMat (linWeightGS3 bm am))
      if hb then
        pure (([w.1, normOfSqClamped (linBiasNormSq3 bv bm)], [w.2, Array.ofFn (linBiasGS3 bm)]), rest)
      else pure (([w.1], [w.2]), rest)
  | "emb" :: t :: v :: dd :: rest => do
      let T ← t.toNat?; let V ← v.toNat?; let D ← dd.toNat?
      let (ids, rest) ← takeN (·.toNat?) T rest
      let (b, rest) ← takeN fdec? (T * D) rest
      if h : 0 < V then
        if ids.any (· ≥ V) then none else
        let idf : Fin T → Fin V := fun t => ⟨ids[t.val]! % V, Nat.mod_lt _ h⟩
        let bm := mat b T D
        pure (([normOfSq (embNormSq idf bm)], [flatMat (embGS idf bm)]), rest)
      else none
  | "other" :: n :: rest => do
      -- fast gradient clipping without norm sampler: grad sample materialised, `create_norm_sample`
      let n ← n.toNat?
      let (g, rest) ← takeN fdec? n rest
      pure (([norm2 (vec g n)], [g]), rest)
  | _ => none

def sample (bv : Variant) : Nat → List String → Option ((List Float × List (Array Float)) × List String)
  | 0, rest => some (([], []), rest)
  | nl + 1, rest => do
      let ((pn, gs), rest) ← layer bv rest
      let ((pn', gs'), rest) ← sample bv nl rest
      pure ((pn ++ pn', gs ++ gs'), rest)

def samples (bv : Variant) (nl : Nat) : Nat → List String → Option (List (Array Float × Store Float) × List String)
  | 0, rest => some ([], rest)
  | B + 1, rest => do
      let ((pn, gs), rest) ← sample bv nl rest
      let (more, rest) ← samples bv nl B rest
      pure ((pn.toArray, gs.toArray) :: more, rest)

/-- ghost physical batches: `<nb> {<B> {sample}}` with `nl` pseudo-layers per sample -/
def ghostBatches (bv : Variant) (nl : Nat) : Nat → List String → Option (List (List (Array Float × Store Float)) × List String)
  | 0, rest => some ([], rest)
  | nb + 1, b :: rest => do
      let B ← b.toNat?
      let (ss, rest) ← samples bv nl B rest
      let (more, rest) ← ghostBatches bv nl nb rest
      pure (ss :: more, rest)
  | _, [] => none

end Opacus.ClipProto
