import OpacusLean.Model.Sched
/-! Model of checkpoint save / load (`opacus/privacy_engine.py: save_checkpoint, load_checkpoint`,
`opacus/accountants/accountant.py: state_dict, load_state_dict`, the three accountants' `step`,
`opacus/optimizers/optimizer.py: state_dict / load_state_dict` pass-through and
`opacus/schedulers/*.py: state_dict = __dict__ minus optimizer`).

What is persisted is modelled as persisted, what is not is modelled as not: the DP optimizer's
*live* `noise_multiplier` / `max_grad_norm`, the clipped gradients already accumulated for a
skipped (virtual) step (`summed_grad`, the skip queue) are not part of any `state_dict`.

Python aliasing that matters is explicit: accountant histories are list *objects* in a heap;
`state_dict()` deep-copies (fresh object), `load_state_dict()` binds `self.history` to the very
list object of the dict it is given, RDP/PRV `step` mutate the list in place, GDP `step` reads the
last entry and rebinds `self.history` to a fresh list (it never mutates the old list object).

Generic in the scalar `R` (noise multiplier, clipping norm, sample rate), in the parameter value
`P`, the inner-optimizer state `O` and the batch identifier `B`; the training step itself is a
parameter `train` of the machine. -/
namespace Opacus.Checkpoint
open Opacus.Sched

inductive Mech where | rdp | gdp | prv
deriving DecidableEq, Repr

inductive Variant where | asCoded | repaired
deriving DecidableEq, Repr

inductive Err where
  | gdpHeterogeneous | emptyState | missingHistory | missingMechanism | mechanismMismatch
deriving DecidableEq, Repr

/-- one history entry `(noise_multiplier, sample_rate, num_steps)` -/
abbrev Entry (R : Type) := R × R × Nat

/-! ### heap of history list objects -/
structure Heap (R : Type) where
  cell : Nat → List (Entry R)
  next : Nat

def Heap.get {R} (h : Heap R) (r : Nat) : List (Entry R) := h.cell r
def Heap.set {R} (h : Heap R) (r : Nat) (v : List (Entry R)) : Heap R :=
  { h with cell := fun i => if i = r then v else h.cell i }
def Heap.alloc {R} (h : Heap R) (v : List (Entry R)) : Heap R × Nat :=
  ({ cell := fun i => if i = h.next then v else h.cell i, next := h.next + 1 }, h.next)

/-- the accountant object: its class and the list object `self.history` is bound to -/
structure Acct where
  mech : Mech
  href : Nat
deriving DecidableEq, Repr

/-- RDP / PRV `step` on the value of the history list: `pop`, compare, `append` -/
def coalesce {R} [BEq R] (h : List (Entry R)) (σ q : R) : List (Entry R) :=
  match h.getLast? with
  | none => [(σ, q, 1)]
  | some (σ', q', n) =>
    if σ' == σ && q' == q then h.dropLast ++ [(σ', q', n + 1)] else h ++ [(σ, q, 1)]

/-- value-level effect of `accountant.step` on the history -/
def stepVal {R} [BEq R] (m : Mech) (h : List (Entry R)) (σ q : R) : Except Err (List (Entry R)) :=
  match m with
  | .rdp | .prv => .ok (coalesce h σ q)
  | .gdp =>
    match h.getLast? with
    | none => .ok [(σ, q, 1)]
    | some (σ', q', n) => if σ' == σ && q' == q then .ok [(σ', q', n + 1)] else .error .gdpHeterogeneous

/-- object-level `accountant.step(noise_multiplier=σ, sample_rate=q)` -/
def Acct.step {R} [BEq R] (a : Acct) (hp : Heap R) (σ q : R) : Except Err (Acct × Heap R) :=
  match a.mech with
  | .rdp | .prv => .ok (a, hp.set a.href (coalesce (hp.get a.href) σ q))
  | .gdp =>
    match (hp.get a.href).getLast? with
    | none => let r := hp.alloc [(σ, q, 1)]; .ok ({ a with href := r.2 }, r.1)
    | some (σ', q', n) =>
      if σ' == σ && q' == q then
        -- `self.history[-1]` is only read (since fix bb38b4c; it used to be `self.history.pop()`,
        -- which emptied an aliased state_dict list), then `self.history = [...]` rebinds
        let r := hp.alloc [(σ', q', n + 1)]
        .ok ({ a with href := r.2 }, r.1)
      else .error .gdpHeterogeneous

/-- a state_dict *object*: which keys are present, and the list object under `"history"` -/
structure SDObj where
  href : Option Nat
  mechanism : Option Mech
deriving DecidableEq, Repr

/-- `IAccountant.state_dict()`: deep copy of the history, mechanism tag -/
def Acct.stateDict {R} (a : Acct) (hp : Heap R) : SDObj × Heap R :=
  let r := hp.alloc (hp.get a.href)
  (⟨some r.2, some a.mech⟩, r.1)

/-- `IAccountant.load_state_dict(sd)`: validation, then `self.history = sd["history"]` (no copy) -/
def Acct.loadStateDict (a : Acct) (sd : SDObj) : Except Err Acct :=
  match sd.href, sd.mechanism with
  | none, none => .error .emptyState
  | none, some _ => .error .missingHistory
  | some _, none => .error .missingMechanism
  | some r, some m => if a.mech = m then .ok { a with href := r } else .error .mechanismMismatch

/-- a state_dict after `torch.save` / `torch.load`: a value -/
structure AcctSD (R : Type) where
  history : Option (List (Entry R))
  mechanism : Option Mech

def serialize {R} (sd : SDObj) (hp : Heap R) : AcctSD R := ⟨sd.href.map hp.get, sd.mechanism⟩

def deserialize {R} (v : AcctSD R) (hp : Heap R) : SDObj × Heap R :=
  match v.history with
  | none => (⟨none, v.mechanism⟩, hp)
  | some h => let r := hp.alloc h; (⟨some r.2, v.mechanism⟩, r.1)

/-! ### the engine -/
structure Eng (R P O B : Type) where
  params : P
  inner : O
  acct : Acct
  heap : Heap R
  /-- live `optimizer.noise_multiplier` -/
  sigma : R
  /-- live `optimizer.max_grad_norm` -/
  clip : R
  /-- sample rate fixed by `make_private` -/
  q : R
  ns : Option (Sched R)
  cs : Option (Sched R)
  /-- physical batches already clipped (with the bound then in force) and accumulated in
  `summed_grad` by skipped steps, not yet released -/
  pending : List (B × R)

inductive Op (B : Type) where
  | logical (b : B)     -- forward/backward on batch `b`, `optimizer.step()` that releases
  | skip (b : B)        -- forward/backward on `b`, `signal_skip_step(True)`, `optimizer.step()`, `zero_grad()`
  | noiseSched
  | clipSched

/-- the released update: parameters and inner-optimizer state as a function of the previous ones,
the (batch, clip bound) pairs summed into the release, and `σ`, `C` at release (noise std `σ·C`) -/
abbrev Train (R P O B : Type) := P → O → List (B × R) → R → R → P × O

def Eng.step {R P O B} [BEq R] [Mul R] (train : Train R P O B) (e : Eng R P O B) :
    Op B → Except Err (Eng R P O B)
  | .logical b =>
    -- clip_and_accumulate, add_noise, scale_grad, step_hook (accountant; may raise), inner step
    match e.acct.step e.heap e.sigma e.q with
    | .error er => .error er
    | .ok (a, hp) =>
      let r := train e.params e.inner (e.pending ++ [(b, e.clip)]) e.sigma e.clip
      .ok { e with params := r.1, inner := r.2, acct := a, heap := hp, pending := [] }
  | .skip b => .ok { e with pending := e.pending ++ [(b, e.clip)] }
  | .noiseSched => match e.ns with
    | some s => let r := stepS e.sigma s; .ok { e with sigma := r.1, ns := some r.2 }
    | none => .ok e
  | .clipSched => match e.cs with
    | some s => let r := stepS e.clip s; .ok { e with clip := r.1, cs := some r.2 }
    | none => .ok e

def Eng.run {R P O B} [BEq R] [Mul R] (train : Train R P O B) (e : Eng R P O B) :
    List (Op B) → Except Err (Eng R P O B)
  | [] => .ok e
  | o :: ops => match e.step train o with
    | .error er => .error er
    | .ok e' => e'.run train ops

/-- everything the user constructs the objects from (identical for the original and the fresh run) -/
structure Cfg (R P O : Type) where
  sigma0 : R
  clip0 : R
  q : R
  nk : Option (Kind R)
  ck : Option (Kind R)
  mech : Mech
  params0 : P
  inner0 : O

def mkKnob {R} [Mul R] (k : Option (Kind R)) (v : R) : R × Option (Sched R) :=
  match k with
  | some k => let p := construct k v; (p.1, some p.2)
  | none => (v, none)

/-- freshly constructed engine, model, optimizer, schedulers -/
def fresh {R P O B} [Mul R] (c : Cfg R P O) : Eng R P O B :=
  { params := c.params0, inner := c.inner0, acct := ⟨c.mech, 0⟩,
    heap := ⟨fun _ => [], 1⟩,
    sigma := (mkKnob c.nk c.sigma0).1, clip := (mkKnob c.ck c.clip0).1, q := c.q,
    ns := (mkKnob c.nk c.sigma0).2, cs := (mkKnob c.ck c.clip0).2, pending := [] }

/-- the checkpoint file -/
structure Ckpt (R P O : Type) where
  module : P
  acct : AcctSD R
  inner : Option O
  ns : Option (Sched R)
  cs : Option (Sched R)
  /-- only the repaired variant persists the live values -/
  live : Option (R × R)

/-- `save_checkpoint(path, module, optimizer, noise_scheduler, grad_clip_scheduler)` -/
def save {R P O B} (v : Variant) (e : Eng R P O B) : Ckpt R P O :=
  let sd := e.acct.stateDict e.heap
  { module := e.params, acct := serialize sd.1 sd.2, inner := some e.inner, ns := e.ns, cs := e.cs,
    live := match v with | .asCoded => none | .repaired => some (e.sigma, e.clip) }

/-- `load_checkpoint` into the objects of `e`; also returns the accountant part of the returned
checkpoint dict (whose history list the accountant now shares) -/
def load {R P O B} (e : Eng R P O B) (ck : Ckpt R P O) : Except Err (Eng R P O B × SDObj) :=
  let d := deserialize ck.acct e.heap
  match e.acct.loadStateDict d.1 with
  | .error er => .error er
  | .ok a =>
    let live := match ck.live with | some l => l | none => (e.sigma, e.clip)
    .ok ({ e with
            params := ck.module,
            inner := (match ck.inner with | some o => o | none => e.inner),
            acct := a, heap := d.2,
            ns := (match e.ns, ck.ns with | some _, some s => some s | x, _ => x),
            cs := (match e.cs, ck.cs with | some _, some s => some s | x, _ => x),
            sigma := live.1, clip := live.2 }, d.1)

/-- the observable state (heap layout abstracted away) -/
structure Obs (R P O B : Type) where
  params : P
  inner : O
  mech : Mech
  history : List (Entry R)
  sigma : R
  clip : R
  q : R
  ns : Option (Sched R)
  cs : Option (Sched R)
  pending : List (B × R)

def Eng.history {R P O B} (e : Eng R P O B) : List (Entry R) := e.heap.get e.acct.href

def Eng.obs {R P O B} (e : Eng R P O B) : Obs R P O B :=
  ⟨e.params, e.inner, e.acct.mech, e.history, e.sigma, e.clip, e.q, e.ns, e.cs, e.pending⟩

/-- save, construct everything afresh from the same configuration, load -/
def resume {R P O B} [Mul R] (v : Variant) (c : Cfg R P O) (e : Eng R P O B) :
    Except Err (Eng R P O B × SDObj) :=
  load (fresh c) (save v e)

end Opacus.Checkpoint
