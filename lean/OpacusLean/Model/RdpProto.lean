import OpacusLean.Model.Proto
import OpacusLean.Model.Gdp
import Std.Data.HashMap
/-! Line protocol over the accountant models (`Float` instance), shared by `Drivers/C06.lean` and
`Drivers/C12.lean`.

tokens:  order = `i<nat>` | `f<hex64>` | `inf`;   EV = `fin:<hex64>` | `pinf` | `nan`;
         log-space value = `<hex64>` | `none`  (`none` = -inf)

requests (one per line, one reply line each):
  `oracle K a1 v1 … aK vK`     add `log_ndtr(a) = v` pairs to the oracle table        → `ok`
  `phi K a1 v1 … aK vK`        add `norm.cdf(a) = v` pairs                             → `ok`
  `clear`                      empty both tables                                       → `ok`
  `fuel N`                     series-term bound of the fractional routine             → `ok`
  `variant asCoded|repaired`   stopping rule of the fractional series (finding C06:frac-series-stops-at-first-term) → `ok`
  `logadd x y` / `logsub x y`  `_log_add` / `_log_sub`                                 → log-space value | err
  `logaint q sigma n`          `_compute_log_a_for_int_alpha`                          → log-space value
  `fracargs q sigma alpha N`   the 2N points at which the first N series terms call `log_ndtr`
  `rdp1 q sigma order`         `_compute_rdp`                                          → EV | err
  `rdp q sigma steps K o1…oK`  `compute_rdp`                                           → K EVs | err
  `eps delta K o1 r1 … oK rK`  `get_privacy_spent`                                     → `EV order|none` | err
  `acct delta H (sigma q n)*H K o1…oK`   `RDPAccountant.get_privacy_spent`             → `EV order|none` | err
  `script q sigma epochs delta K o1…oK`  `compute_dp_sgd_privacy`                      → `steps EV order|none` | err
  `hist N (sigma q)*N`         `RDPAccountant.step` N times from an empty history      → `M (sigma q n)*M`
  `ghist N (sigma q)*N`        `GaussianAccountant.step` N times                       → same | err
  `mu steps sigma q`           `compute_mu_poisson`                                    → hex
  `muu steps sigma q`          `compute_mu_uniform` (needs `phi` entries)              → hex
  `dargs eps mu`               the two `norm.cdf` arguments of `delta_eps_mu`          → 2 hex
  `dem eps mu`                 `delta_eps_mu`                                          → hex
-/
namespace Opacus.RdpProto
open Opacus Opacus.Proto Opacus.Rdp Opacus.Gdp

structure St where
  ndtr : Std.HashMap UInt64 Float := {}
  phi : Std.HashMap UInt64 Float := {}
  fuel : Nat := 4096
  repaired : Bool := false

def nanF : Float := 0.0 / 0.0

def St.lnd (s : St) : Float → Float := fun x => (s.ndtr.get? x.toBits).getD nanF
def St.phiF (s : St) : Float → Float := fun x => (s.phi.get? x.toBits).getD nanF
def St.cfg (s : St) : Cfg Float := ⟨s.lnd, s.fuel, s.repaired⟩

def order? (t : String) : Option (Order Float) :=
  if t = "inf" then some .inf
  else if t.startsWith "i" then (String.ofList (t.toList.drop 1)).toNat?.map .int
  else if t.startsWith "f" then (float? (String.ofList (t.toList.drop 1))).map .frac
  else none

def orderStr : Order Float → String
  | .int n => s!"i{n}"
  | .frac a => s!"f{floatHex a}"
  | .inf => "inf"

def ev? (t : String) : Option (EV Float) :=
  if t = "pinf" then some .pinf
  else if t = "nan" then some .nan
  else if t.startsWith "fin:" then (float? (String.ofList (t.toList.drop 4))).map .fin
  else none

def evStr : EV Float → String
  | .fin x => s!"fin:{floatHex x}"
  | .pinf => "pinf"
  | .nan => "nan"

def ls? (t : String) : Option (Option Float) :=
  if t = "none" then some none else (float? t).map some

def lsStr : Option Float → String
  | none => "none"
  | some x => floatHex x

def pairs? : List String → Option (List (Float × Float))
  | [] => some []
  | a :: v :: r => do let a ← float? a; let v ← float? v; let t ← pairs? r; pure ((a, v) :: t)
  | _ => none

def hist? : Nat → List String → Option (Hist Float × List String)
  | 0, r => some ([], r)
  | n + 1, s :: q :: k :: r => do
    let s ← float? s; let q ← float? q; let k ← k.toNat?
    let (t, r') ← hist? n r
    pure ((s, q, k) :: t, r')
  | _, _ => none

def histStr (h : Hist Float) : String :=
  s!"{h.length}" ++ String.join (h.map fun e => s!" {floatHex e.1} {floatHex e.2.1} {e.2.2}")

def spentStr : Except Err (EV Float × Option (Order Float)) → String
  | .error e => e.str
  | .ok (e, a) => s!"{evStr e} {(a.map orderStr).getD "none"}"

def optPair (a : Option α) (b : Option β) : Option (α × β) :=
  match a, b with
  | some x, some y => some (x, y)
  | _, _ => none

def stepLine (s : St) (line : String) : St × String :=
  match words line with
  | "oracle" :: _ :: r =>
    match pairs? r with
    | some ps => ({ s with ndtr := ps.foldl (fun m p => m.insert p.1.toBits p.2) s.ndtr }, "ok")
    | none => (s, "bad-op")
  | "phi" :: _ :: r =>
    match pairs? r with
    | some ps => ({ s with phi := ps.foldl (fun m p => m.insert p.1.toBits p.2) s.phi }, "ok")
    | none => (s, "bad-op")
  | ["clear"] => ({ s with ndtr := {}, phi := {} }, "ok")
  | ["variant", v] =>
    if v = "asCoded" then ({ s with repaired := false }, "ok")
    else if v = "repaired" then ({ s with repaired := true }, "ok")
    else (s, "bad-op")
  | ["fuel", n] => match n.toNat? with
    | some n => ({ s with fuel := n }, "ok")
    | none => (s, "bad-op")
  | ["logadd", x, y] => match ls? x, ls? y with
    | some x, some y => (s, lsStr (logAdd x y))
    | _, _ => (s, "bad-op")
  | ["logsub", x, y] => match ls? x, ls? y with
    | some x, some y => (s, match logSub x y with | .ok v => lsStr v | .error e => e.str)
    | _, _ => (s, "bad-op")
  | ["logaint", q, sg, n] => match float? q, float? sg, n.toNat? with
    | some q, some sg, some n => (s, lsStr (logAInt q sg n))
    | _, _, _ => (s, "bad-op")
  | ["fracargs", q, sg, a, n] => match float? q, float? sg, float? a, n.toNat? with
    | some q, some sg, some a, some n =>
      (s, joinFloats ((List.range n).flatMap fun i => let p := fracNdtrArgs q sg a i; [p.1, p.2]))
    | _, _, _, _ => (s, "bad-op")
  | ["rdp1", q, sg, o] => match float? q, float? sg, order? o with
    | some q, some sg, some o =>
      (s, match computeRdp1 s.cfg q sg o with | .ok v => evStr v | .error e => e.str)
    | _, _, _ => (s, "bad-op")
  | "rdp" :: q :: sg :: n :: r => match float? q, float? sg, n.toNat?, takeList? order? r with
    | some q, some sg, some n, some (os, []) =>
      (s, match computeRdp s.cfg q sg n os with
          | .ok vs => " ".intercalate (vs.map evStr) | .error e => e.str)
    | _, _, _, _ => (s, "bad-op")
  | "eps" :: d :: k :: r => match float? d, k.toNat? with
    | some d, some k =>
      let rec go : Nat → List String → Option (List (Order Float) × List (EV Float))
        | 0, [] => some ([], [])
        | n + 1, o :: v :: t => do
          let o ← order? o; let v ← ev? v; let (os, vs) ← go n t; pure (o :: os, v :: vs)
        | _, _ => none
      match go k r with
      | some (os, vs) => (s, spentStr (getPrivacySpent os vs d))
      | none => (s, "bad-op")
    | _, _ => (s, "bad-op")
  | "acct" :: d :: h :: r => match float? d, h.toNat? with
    | some d, some hn => match hist? hn r with
      | some (hist, r') => match takeList? order? r' with
        | some (os, []) => (s, spentStr (acctPrivacySpent s.cfg hist d os))
        | _ => (s, "bad-op")
      | none => (s, "bad-op")
    | _, _ => (s, "bad-op")
  | "script" :: q :: sg :: ep :: d :: r =>
    match optPair (optPair (float? q) (float? sg)) (optPair ep.toNat? (float? d)), takeList? order? r with
    | some ((q, sg), (ep, d)), some (os, []) =>
      (s, s!"{scriptSteps q ep} " ++ spentStr (script s.cfg q sg ep d os))
    | _, _ => (s, "bad-op")
  | "hist" :: n :: r => match n.toNat?, pairs? r with
    | some n, some ps => if ps.length ≠ n then (s, "bad-op") else (s, histStr (steps [] ps))
    | _, _ => (s, "bad-op")
  | "ghist" :: n :: r => match n.toNat?, pairs? r with
    | some n, some ps =>
      if ps.length ≠ n then (s, "bad-op") else
      (s, match ps.foldlM (fun h p => gdpStep h p.1 p.2) ([] : Hist Float) with
          | .ok h => histStr h | .error e => e.str)
    | _, _ => (s, "bad-op")
  | ["mu", n, sg, q] => match n.toNat?, float? sg, float? q with
    | some n, some sg, some q => (s, floatHex (muPoisson n sg q))
    | _, _, _ => (s, "bad-op")
  | ["muu", n, sg, q] => match n.toNat?, float? sg, float? q with
    | some n, some sg, some q => (s, floatHex (muUniform s.phiF n sg q))
    | _, _, _ => (s, "bad-op")
  | ["dargs", e, m] => match float? e, float? m with
    | some e, some m => let p := deltaArgs e m; (s, s!"{floatHex p.1} {floatHex p.2}")
    | _, _ => (s, "bad-op")
  | ["dem", e, m] => match float? e, float? m with
    | some e, some m => (s, floatHex (deltaEpsMu s.phiF e m))
    | _, _ => (s, "bad-op")
  | _ => (s, "bad-op")

end Opacus.RdpProto
