import OpacusLean.Model.Rdp
/-! Model of the accountants' history handling (`opacus/accountants/rdp.py`, `gdp.py`; the PRV
accountant's `step` is the same code as the RDP one) and of
`opacus/scripts/compute_dp_sgd_privacy.py`. -/
namespace Opacus.Rdp
open RScalar

variable {R : Type} [RScalar R]

/-- `accountant.history`: runs `(noise_multiplier, sample_rate, num_steps)`, oldest first -/
abbrev Hist (R : Type) := List (R × R × Nat)

/-- `RDPAccountant.step` / `PRVAccountant.step`: run-length encoding on the *last* entry only -/
def step (h : Hist R) (sigma q : R) : Hist R :=
  match h.getLast? with
  | none => [(sigma, q, 1)]
  | some (s', q', n) =>
    if beq s' sigma && beq q' q then h.dropLast ++ [(s', q', n + 1)]
    else h ++ [(sigma, q, 1)]

/-- a sequence of `step` calls -/
def steps (h : Hist R) (xs : List (R × R)) : Hist R := xs.foldl (fun h x => step h x.1 x.2) h

/-- the flat list of per-step parameters a history stands for -/
def expand (h : Hist R) : List (R × R) := h.flatMap (fun e => List.replicate e.2.2 (e.1, e.2.1))

/-- `GaussianAccountant.step` -/
def gdpStep (h : Hist R) (sigma q : R) : Except Err (Hist R) :=
  match h.getLast? with
  | none => .ok [(sigma, q, 1)]
  | some (s', q', n) =>
    if !(beq s' sigma) || !(beq q' q) then .error .gdpHeterogeneous
    else .ok [(s', q', n + 1)]

/-- one component of `sum([compute_rdp(q, sigma, steps, alphas) for … in history])`
(Python's `sum` starts from `0` and adds left to right) -/
def histRdpFrom (cfg : Cfg R) (alpha : Order R) : EV R → Hist R → Except Err (EV R)
  | acc, [] => .ok acc
  | acc, e :: t =>
    match computeRdp1 cfg e.2.1 e.1 alpha with
    | .error err => .error err
    | .ok r => histRdpFrom cfg alpha (acc.add (r.mulNat e.2.2)) t

def histRdp (cfg : Cfg R) (h : Hist R) (alpha : Order R) : Except Err (EV R) :=
  histRdpFrom cfg alpha (.fin (ofNat 0)) h

/-- `RDPAccountant.get_privacy_spent(delta=, alphas=)` -/
def acctPrivacySpent (cfg : Cfg R) (h : Hist R) (delta : R) (orders : List (Order R)) :
    Except Err (EV R × Option (Order R)) :=
  if h.isEmpty then .ok (.fin (ofNat 0), some (.int 0))
  else
    match mapE (histRdp cfg h) orders with
    | .error e => .error e
    | .ok rdp => getPrivacySpent orders rdp delta

/-- `RDPAccountant.get_epsilon(delta, alphas)` -/
def acctEpsilon (cfg : Cfg R) (h : Hist R) (delta : R) (orders : List (Order R)) : Except Err (EV R) :=
  (acctPrivacySpent cfg h delta orders).map (·.1)

/-- `steps = epochs * math.ceil(1 / sample_rate)` -/
def scriptSteps (q : R) (epochs : Nat) : Nat := epochs * ceilNat (ofNat 1 / q)

/-- `compute_dp_sgd_privacy(sample_rate=, noise_multiplier=, epochs=, delta=, alphas=)` -/
def script (cfg : Cfg R) (q sigma : R) (epochs : Nat) (delta : R) (orders : List (Order R)) :
    Except Err (EV R × Option (Order R)) :=
  if lt (ofNat 1) q then .error .rateAboveOne
  else if beq q (ofNat 0) then .error .mathDomain      -- `1 / sample_rate`: ZeroDivisionError
  else
    match computeRdp cfg q sigma (scriptSteps q epochs) orders with
    | .error e => .error e
    | .ok rdp => getPrivacySpent orders rdp delta

end Opacus.Rdp
