import OpacusLean.Model.Proto
/-! Model of `opacus/schedulers/noise_scheduler.py` and `grad_clip_scheduler.py`
(the two files are the same code up to the attribute they write), generic in the scalar.

A scheduler does not own the value it schedules: it reads and writes the *live* attribute of the
optimizer (`optimizer.noise_multiplier` / `optimizer.max_grad_norm`).  `Exponential*` and `Step*`
multiply the live value; `Lambda*` writes `base * f(last_epoch)` with `base` captured at
construction.  Construction sets `last_epoch` (default -1) and immediately calls `step()`. -/
namespace Opacus.Sched

inductive Kind (R : Type) where
  | exp (gamma : R)
  | step (gamma : R) (stepSize : Nat)
  | lam (base : R) (f : Int → R)

structure Sched (R : Type) where
  kind : Kind R
  lastEpoch : Int

/-- `get_noise_multiplier()` / `get_max_grad_norm()` evaluated after `last_epoch` was incremented -/
def value {R} [Mul R] (k : Kind R) (lastEpoch : Int) (live : R) : R :=
  match k with
  | .exp g => if lastEpoch = 0 then live else live * g
  | .step g s => if lastEpoch = 0 ∨ lastEpoch % (s : Int) ≠ 0 then live else g * live
  | .lam base f => base * f lastEpoch

/-- `scheduler.step()`: returns the new live value and the new scheduler -/
def stepS {R} [Mul R] (live : R) (s : Sched R) : R × Sched R :=
  let e := s.lastEpoch + 1
  (value s.kind e live, { s with lastEpoch := e })

/-- constructor: `last_epoch` as given (default −1), then one `step()` -/
def construct {R} [Mul R] (k : Kind R) (live : R) (lastEpoch : Int := -1) : R × Sched R :=
  stepS live ⟨k, lastEpoch⟩

/-- live value after construction and `n` further scheduler steps -/
def iter {R} [Mul R] : Nat → R × Sched R → R × Sched R
  | 0, p => p
  | n + 1, p => iter n (stepS p.1 p.2)

/-! ### The value in force is the value used: a two-knob engine

`sigma` and `clip` are the optimizer's live attributes, each optionally driven by a scheduler.
A logical optimizer step reads both *at call time*: clipping with `clip`, noise with
std `sigma * clip`, and the accountant hook records `sigma`. -/
structure Eng (R : Type) where
  sigma : R
  clip : R
  ns : Option (Sched R)
  cs : Option (Sched R)
  /-- one entry per logical step: (clip used, noise std, sigma recorded by the accountant) -/
  log : List (R × R × R)
  /-- the bound applied to each SKIPPED physical batch of a virtual step (`signal_skip_step(True)`:
  `clip_and_accumulate` runs with the live bound, no noise, no accounting), in order -/
  phys : List R

inductive Op where | noiseSched | clipSched | optStep | physStep
deriving DecidableEq, Repr

def Eng.step {R} [Mul R] (e : Eng R) : Op → Eng R
  | .noiseSched => match e.ns with
    | some s => let (v, s') := stepS e.sigma s; { e with sigma := v, ns := some s' }
    | none => e
  | .clipSched => match e.cs with
    | some s => let (v, s') := stepS e.clip s; { e with clip := v, cs := some s' }
    | none => e
  | .optStep => { e with log := e.log ++ [(e.clip, e.sigma * e.clip, e.sigma)] }
  | .physStep => { e with phys := e.phys ++ [e.clip] }

def Eng.run {R} [Mul R] (e : Eng R) (ops : List Op) : Eng R := ops.foldl Eng.step e

end Opacus.Sched
