import OpacusLean.Model.Proto
/-! # The DP-optimizer protocol machine

Model of the flag / queue / accumulation protocol of

* `opacus/optimizers/optimizer.py`  (`DPOptimizer.{clip_and_accumulate, add_noise, scale_grad,
  zero_grad, pre_step, step, signal_skip_step, accumulated_iterations}`, `_mark_as_processed`,
  `_check_processed_flag`) – the per-layer and adaptive optimizers override only the arithmetic of
  `clip_and_accumulate`, not the protocol;
* `opacus/optimizers/optimizer_fast_gradient_clipping.py` (`accumulate`, `pre_step`,
  `accumulated_iterations = 1`) together with `DPTensorFastGradientClipping.backward`
  (`opacus/utils/fast_gradient_clipping_utils.py`: first backward, `optimizer.zero_grad()`,
  second backward into `p.grad`);
* `GradSampleModule.capture_backprops_hook` / `promote_current_grad_sample`
  (`p.grad_sample : None | Tensor | list`, "Poisson sampling is not compatible with grad
  accumulation"), `AbstractGradSampleModule.zero_grad`;
* `IAccountant.get_optimizer_hook_fn` (reads `optim.noise_multiplier` and
  `accumulated_iterations` at call time) and the GDP accountant's refusal of heterogeneous steps.

Gradient *values* are abstracted to **tokens**: every forward/backward pass on a batch of `n`
samples creates `n` fresh token ids, a (clipped) per-sample gradient is its token, a sum of
gradients is a list of tokens with multiplicity.  "Which backward contributed to which release,
how many times" is then literally readable off a state.  Python aliasing that matters is
modelled explicitly: `p.summed_grad += g` keeps the tensor object and therefore its `_processed`
attribute; `p.summed_grad = g` / `p.grad = summed + noise` create fresh objects. -/
namespace Opacus.Engine

/-- a tensor holding (a sum of) per-sample gradients, with the `_processed` attribute -/
structure Flagged where
  toks : List Nat
  processed : Bool
deriving Repr, DecidableEq

inductive Kind where
  | std    -- DPOptimizer / DPPerLayerOptimizer / AdaClipDPOptimizer + GradSampleModule (hooks, functorch, ew)
  | ghost  -- DPOptimizerFastGradientClipping + GradSampleModuleFastGradientClipping + DPLoss wrapper
deriving Repr, DecidableEq

structure Cfg where
  kind : Kind
  /-- `False` after `forbid_grad_accumulation()` (Poisson sampling) -/
  accumAllowed : Bool
  /-- the attached accountant is the GDP one, which refuses a step whose `(σ, q·k)` differs from
  the recorded run (RDP and PRV accountants run-length-encode instead) -/
  gdp : Bool
deriving Repr, DecidableEq

/-! ### Run-length-encoded accountant history (`RDPAccountant.step`, `PRVAccountant.step`,
`GaussianAccountant.step`) -/
def rleStep {α} [DecidableEq α] (h : List (α × Nat)) (x : α) : List (α × Nat) :=
  match h.getLast? with
  | some (y, n) => if y = x then h.dropLast ++ [(y, n + 1)] else h ++ [(x, 1)]
  | none => [(x, 1)]

def rleExpand {α} (h : List (α × Nat)) : List α := (h.map (fun p => List.replicate p.2 p.1)).flatten

/-- `GaussianAccountant.step`: `none` = raises ("have to stay constant"), history untouched -/
def gdpStep {α} [DecidableEq α] (h : List (α × Nat)) (x : α) : Option (List (α × Nat)) :=
  match h.getLast? with
  | some (y, n) => if y = x then some [(y, n + 1)] else none
  | none => some [(x, 1)]

inductive Event where
  /-- one `add_noise` block: one request per optimised parameter with std `σ·C` at the live values -/
  | noise (sigma clip : Nat)
  /-- `accountant.step(noise_multiplier = σ, sample_rate = q·k)` -/
  | account (sigma k : Nat)
  /-- `original_optimizer.step()` consuming `p.grad = Σ toks + noise` -/
  | inner (toks : List Nat)
deriving Repr, DecidableEq

structure St where
  /-- `p.grad_sample`: `[]` = None, singleton = Tensor, longer = list -/
  gs : List Flagged
  /-- `p.summed_grad` -/
  summed : Option Flagged
  /-- ghost mode: what `p.grad` holds (`none` = `None`) -/
  pgrad : Option (List Nat)
  lastSkipped : Bool
  queue : List Bool
  /-- live `noise_multiplier` / `max_grad_norm` (opaque codes: the harness passes bit patterns) -/
  sigma : Nat
  clip : Nat
  /-- `accountant.history`, entries `((σ, k), num_steps)` -/
  hist : List ((Nat × Nat) × Nat)
  /-- next fresh token id -/
  next : Nat
  log : List Event
deriving Repr, DecidableEq

inductive Op where
  | fwdBwd (n : Nat)
  | step
  | optZeroGrad
  | modZeroGrad
  | signal (b : Bool)
  | setSigma (v : Nat)
  | setClip (v : Nat)
deriving Repr, DecidableEq

inductive Out where
  | ok            -- nothing released (or nothing to report)
  | released      -- a logical step: noise, accounting, inner optimizer step
  | skipped       -- `step()` that only accumulated
  | errProcessed  -- "Gradients haven't been cleared since the last optimizer step"
  | errNoGrad     -- "Per sample gradient is not initialized" / ghost: `p.grad is None`
  | errAccum      -- "Poisson sampling is not compatible with grad accumulation"
  | errGdp        -- GDP accountant: heterogeneous step
deriving Repr, DecidableEq

def init (sigma clip : Nat) : St :=
  { gs := [], summed := none, pgrad := none, lastSkipped := false, queue := [],
    sigma := sigma, clip := clip, hist := [], next := 0, log := [] }

def fresh (start n : Nat) : List Nat := (List.range n).map (start + ·)

def popQueue (q : List Bool) : Bool × List Bool :=
  match q with
  | [] => (false, [])
  | x :: q' => (x, q')

/-- `p.summed_grad += g` (in place, flag kept) or `p.summed_grad = g` (fresh object) -/
def accumulateInto (summed : Option Flagged) (g : List Nat) : Flagged :=
  match summed with
  | none => ⟨g, false⟩
  | some f => ⟨f.toks ++ g, f.processed⟩

/-- `optimizer.zero_grad()` (both optimizer kinds): `grad_sample = None`; `summed_grad = None`
unless the last step was skipped; the inner optimizer zeroes `p.grad` in place -/
def optZero (s : St) : St :=
  { s with gs := [], summed := if s.lastSkipped then s.summed else none,
           pgrad := s.pgrad.map (fun _ => []) }

/-- the tail of `pre_step` after accumulation: skip check, `add_noise`, `scale_grad`, hook, inner step -/
def finishStep (c : Cfg) (s : St) (summed' : Flagged) (gs' : List Flagged) (k : Nat) : St × Out :=
  let (skip, q') := popQueue s.queue
  if skip then
    ({ s with gs := gs', summed := some summed', lastSkipped := true, queue := q' }, .skipped)
  else if summed'.processed then
    -- add_noise: `_check_processed_flag(p.summed_grad)` raises
    ({ s with gs := gs', summed := some summed', queue := q' }, .errProcessed)
  else
    let s1 : St := { s with gs := gs', summed := some ⟨summed'.toks, true⟩, queue := q',
                            pgrad := some summed'.toks,
                            log := s.log ++ [.noise s.sigma s.clip] }
    -- step_hook: accountant.step(σ, q·k)
    match (if c.gdp then gdpStep s.hist (s.sigma, k) else some (rleStep s.hist (s.sigma, k))) with
    | none => (s1, .errGdp)
    | some h' =>
      ({ s1 with lastSkipped := false, hist := h',
                 log := s1.log ++ [.account s.sigma k, .inner summed'.toks] }, .released)

def stepOp (c : Cfg) (s : St) : Op → St × Out
  | .signal b => ({ s with queue := s.queue ++ [b] }, .ok)
  | .setSigma v => ({ s with sigma := v }, .ok)
  | .setClip v => ({ s with clip := v }, .ok)
  | .optZeroGrad => (optZero s, .ok)
  | .modZeroGrad =>
    -- `GradSampleModule.zero_grad()`: grad_sample = None, p.grad zeroed; summed_grad untouched
    ({ s with gs := [], pgrad := s.pgrad.map (fun _ => []) }, .ok)
  | .fwdBwd n =>
    let toks := fresh s.next n
    match c.kind with
    | .std =>
      let gs' := s.gs ++ [⟨toks, false⟩]
      let s' := { s with gs := gs', next := s.next + n }
      if !c.accumAllowed ∧ gs'.length > 1 then (s', .errAccum) else (s', .ok)
    | .ghost =>
      -- first backward (norms), `optimizer.zero_grad()`, second backward into the zeroed p.grad
      let z := optZero s
      ({ z with pgrad := some toks, next := s.next + n }, .ok)
  | .step =>
    match c.kind with
    | .std =>
      if s.gs = [] then (s, .errNoGrad) else
      if s.gs.any (·.processed) then (s, .errProcessed) else
      let g := (s.gs.map (·.toks)).flatten
      let summed' := accumulateInto s.summed g
      let gs' := s.gs.map (fun f => { f with processed := true })
      finishStep c s summed' gs' s.gs.length
    | .ghost =>
      match s.pgrad with
      | none => (s, .errNoGrad)
      | some g => finishStep c s (accumulateInto s.summed g) s.gs 1

def run (c : Cfg) (s : St) (ops : List Op) : St := ops.foldl (fun s o => (stepOp c s o).1) s

/-! ### Observables -/
def releases (log : List Event) : List (List Nat) :=
  log.filterMap (fun e => match e with | .inner t => some t | _ => none)

def accounts (log : List Event) : List (Nat × Nat) :=
  log.filterMap (fun e => match e with | .account s k => some (s, k) | _ => none)

def noises (log : List Event) : List (Nat × Nat) :=
  log.filterMap (fun e => match e with | .noise s c => some (s, c) | _ => none)

/-! ### Batch splitting (`BatchSplittingSampler.__iter__`, `numpy.array_split`) -/

/-- sizes of `np.array_split(range n, k)`: the first `n % k` chunks have `n / k + 1` elements -/
def splitSizes (n k : Nat) : List Nat :=
  (List.range k).map (fun i => if i < n % k then n / k + 1 else n / k)

def ceilDiv (n m : Nat) : Nat := (n + m - 1) / m

def takeChunks {α} : List α → List Nat → List (List α)
  | _, [] => []
  | xs, s :: ss => xs.take s :: takeChunks (xs.drop s) ss

/-- the physical batches of one logical batch and the skip signal sent before each -/
def splitBatch {α} (batch : List α) (maxSize : Nat) : List (List α × Bool) :=
  if batch.length = 0 then [([], false)] else
  let k := ceilDiv batch.length maxSize
  let chunks := takeChunks batch (splitSizes batch.length k)
  chunks.zipIdx.map (fun (c, i) => (c, decide (i + 1 < chunks.length)))

end Opacus.Engine
