/-! Model of which modules `GradSampleModule` hooks and which parameters each hooked unit serves
(`opacus/grad_sample/grad_sample_module.py: iterate_submodules, add_hooks`;
`opacus/grad_sample/functorch.py: prepare_layer`).

A module tree node carries the ids of its OWN trainable parameters (`recurse=False`,
`requires_grad`), whether its exact type has a registered grad sampler, whether it is one of the
`DPRNN / DPLSTM / DPGRU` wrappers, and its children in registration order.  Parameter OBJECTS may be
registered twice: the RNN wrappers re-register their cells' parameters under torch's names
(`RenameParamsMixin`), so a wrapper's own parameters are aliases of its descendants' – ids are object
identities, and `module.parameters()` lists every object once (the wrapper's names come first).

`iterate_submodules` yields a module iff it has own trainable parameters, and does not descend
below a module that has own trainable parameters and neither a sampler nor the RNN-wrapper type:
that module becomes ONE functorch unit (`prepare_layer` differentiates w.r.t. all of
`layer.parameters()`, recursively).  A hooked module with a registered sampler serves its own
parameters only.  RNN wrappers are walked through and never hooked (`continue` in `add_hooks`):
their `RNNLinear` cells are. -/
namespace Opacus.HookCover

inductive Mod where
  | node (own : List Nat) (hasSampler : Bool) (rnnWrapper : Bool) (kids : List Mod)

mutual
  /-- trainable parameters of the subtree, in `named_parameters()` order -/
  def allParams : Mod → List Nat
    | .node own _ r kids => if r then own else own ++ allParamsL kids
  def allParamsL : List Mod → List Nat
    | [] => []
    | m :: ms => allParams m ++ allParamsL ms
end

mutual
  /-- the hooked units of the subtree, each with the parameters whose `grad_sample` it produces -/
  def units : Mod → List (List Nat)
    | .node own s r kids =>
      if r then unitsL kids                                           -- walked through, `continue` in add_hooks
      else if !own.isEmpty && !s then [own ++ allParamsL kids]        -- one functorch unit, no descent
      else (if !own.isEmpty then [own] else []) ++ unitsL kids        -- registered sampler: own parameters
  def unitsL : List Mod → List (List Nat)
    | [] => []
    | m :: ms => units m ++ unitsL ms
end

mutual
  /-- an RNN wrapper's own parameters are exactly (aliases of) the parameters of its cells -/
  def wellFormed : Mod → Bool
    | .node own _ r kids => (!r || own.isPerm (allParamsL kids)) && wellFormedL kids
  def wellFormedL : List Mod → Bool
    | [] => true
    | m :: ms => wellFormed m && wellFormedL ms
end

end Opacus.HookCover
