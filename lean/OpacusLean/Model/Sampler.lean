/-! # Poisson samplers and the empty-batch collate (Lean core only)

Model of `opacus/utils/uniform_sampler.py` and of `collate` / `wrap_collate_with_empty` /
`DPDataLoader.__init__` in `opacus/data_loader.py`.

The samplers are functions of the uniform draws: `u b i` is entry `i` of the `b`-th
`torch.rand(num_samples, generator=…)` call of an epoch.  One batch is

    mask = torch.rand(N) < sample_rate ; indices = mask.nonzero().reshape(-1).tolist()

i.e. the ascending list of positions whose draw is below the threshold `q`.  (torch compares the
float32 draws with `sample_rate` rounded to float32; the harness passes that threshold — the
model is generic in the scalar and only uses `<`.) -/
namespace Opacus.Sampler

section
variable {R : Type} [LT R] [DecidableLT R]

/-- one Poisson batch over `N` positions: positions `i < N` with `u i < q`, ascending -/
def batch (q : R) (N : Nat) (u : Nat → R) : List Nat :=
  (List.range N).filter (fun i => decide (u i < q))

/-- `UniformWithReplacementSampler.__iter__`: exactly `steps` batches, empty ones included -/
def epoch (steps : Nat) (q : R) (N : Nat) (u : Nat → Nat → R) : List (List Nat) :=
  (List.range steps).map (fun b => batch q N (u b))

end

/-! ## Distributed sampler -/

/-- `self.num_samples`: `total_size // W`, plus one for the first `total_size % W` ranks -/
def numSamples (N W rank : Nat) : Nat := N / W + (if rank < N % W then 1 else 0)

/-- positions selected by the slice `[rank : N : W]` -/
def shardPositions (N W rank : Nat) : List Nat :=
  (List.range N).filter (fun i => i % W = rank)

/-- `indices[rank : total_size : W]` for `indices = perm` (a permutation of `range N`, or `arange`) -/
def shard (perm : List Nat) (W rank : Nat) : List Nat :=
  (shardPositions perm.length W rank).map (fun i => perm.getD i 0)

inductive Variant where
  | asCoded    -- `if len(selected_examples) > 0: yield …` (empty local batches are dropped)
  | repaired   -- every one of the `num_batches` local batches is yielded
deriving Repr, DecidableEq

section
variable {R : Type} [LT R] [DecidableLT R]

/-- `DistributedUniformWithReplacementSampler.__iter__` on one rank: Poisson-select positions of
the local shard, map them through the shard -/
def distEpoch (v : Variant) (steps : Nat) (q : R) (perm : List Nat) (W rank : Nat) (u : Nat → Nat → R) :
    List (List Nat) :=
  let sh := shard perm W rank
  let all := (List.range steps).map (fun b => (batch q sh.length (u b)).map (fun k => sh.getD k 0))
  match v with
  | .asCoded => all.filter (fun l => !l.isEmpty)
  | .repaired => all

end

/-! ## Empty-batch collate

`DPDataLoader.__init__` computes, once, from `dataset[0]`:

    sample_empty_shapes = [(0, *shape_safe(x)) for x in dataset[0]]
    dtypes = [dtype_safe(x) for x in dataset[0]]

and `collate([])` returns `[torch.zeros(shape, dtype=dtype) for shape, dtype in zip(…)]`.
So the code *iterates over the first item*, whatever it is. -/

inductive DT where
  | f16 | f32 | f64 | i8 | i16 | i32 | i64 | u8 | bool
  | pyInt | pyFloat | pyBool     -- `type(x)` of a Python scalar, accepted by `torch.zeros(dtype=…)`
deriving Repr, DecidableEq

/-- dtype of the tensor `torch.zeros(shape, dtype=d)` (Python `int`/`float`/`bool` map to
int64 / float64 / bool — the same as `default_collate` on Python scalars) -/
def DT.torch : DT → DT
  | .pyInt => .i64
  | .pyFloat => .f64
  | .pyBool => .bool
  | d => d

/-- structure of a dataset item -/
inductive Item where
  | tensor (shape : List Nat) (dtype : DT)
  | scalar (dtype : DT)                     -- Python int / float / bool
  | str                                     -- Python str
  | ndarray (shape : List Nat) (dtype : DT) -- numpy array (has `.shape`; its `.dtype` is a numpy dtype)
  | tuple (items : List Item)               -- tuple or list
  | dict (items : List (String × Item))
deriving Repr

/-- a leaf that `torch.zeros((0, *shape), dtype=…)` can be built from: a tensor or a Python scalar -/
def Item.isLeaf : Item → Bool
  | .tensor _ _ => true
  | .scalar _ => true
  | _ => false

/-- a collated batch -/
inductive Batch where
  | tensor (shape : List Nat) (dtype : DT)
  | list (items : List Batch)
  | dict (items : List (String × Batch))
  | strs                                    -- list of strings (empty here)
deriving Repr

inductive CErr where
  | typeErrorAtInit       -- `for x in dataset[0]` over a 0-d tensor / Python scalar
  | typeErrorAtCollate    -- `torch.zeros(shape, dtype=<class 'str'> | <class 'tuple'> | …)`
deriving Repr, DecidableEq

/-- what iterating over `dataset[0]` yields: `(shape_safe x, dtype_safe x)` per element, `none`
for an element whose `dtype_safe` is not something `torch.zeros` accepts -/
def elemSpec : Item → Option (List Nat × DT)
  | .tensor s d => some (s, d)
  | .scalar d => some ([], d)
  | .str => none
  | .ndarray _ _ => none                       -- `torch.zeros(dtype=numpy.dtype)` raises
  | .tuple _ => none
  | .dict _ => none

/-- elements produced by `for x in item` -/
def iterate : Item → Option (List Item)
  | .tensor [] _ => none                       -- iteration over a 0-d tensor raises
  | .tensor (n :: s) d => some (List.replicate n (.tensor s d))
  | .scalar _ => none
  | .ndarray [] _ => none
  | .ndarray (n :: s) d => some (List.replicate n (.ndarray s d))
  | .str => some []                            -- characters; never reached by the generators (strings are elements, not items)
  | .tuple xs => some xs
  | .dict kvs => some (kvs.map (fun _ => Item.str))   -- iterating a dict yields its (string) keys

/-- `collate([])` as coded -/
def emptyCollateAsCoded (item : Item) : Except CErr Batch :=
  match iterate item with
  | none => .error .typeErrorAtInit
  | some xs =>
    match xs.mapM elemSpec with
    | none => .error .typeErrorAtCollate
    | some specs => .ok (.list (specs.map (fun p => Batch.tensor (0 :: p.1) p.2.torch)))

/-- what `default_collate` would return for a batch of such items with the batch dimension set to
zero: the item's structure, every leaf a `(0, *shape)` tensor of the leaf's dtype -/
def emptyCollateSpec : Item → Batch
  | .tensor s d => .tensor (0 :: s) d.torch
  | .scalar d => .tensor [0] d.torch
  | .str => .strs
  | .ndarray s d => .tensor (0 :: s) d.torch
  | .tuple xs => .list (xs.attach.map (fun ⟨x, _⟩ => emptyCollateSpec x))
  | .dict kvs => .dict (kvs.attach.map (fun ⟨kv, _⟩ => (kv.1, emptyCollateSpec kv.2)))
termination_by i => sizeOf i
decreasing_by
  all_goals simp_wf
  · have := List.sizeOf_lt_of_mem ‹_›; omega
  · have := List.sizeOf_lt_of_mem ‹_›
    have h2 : sizeOf kv.2 < sizeOf kv := by cases kv; simp; omega
    omega

def emptyCollate (v : Variant) (item : Item) : Except CErr Batch :=
  match v with
  | .asCoded => emptyCollateAsCoded item
  | .repaired => .ok (emptyCollateSpec item)

end Opacus.Sampler
