import OpacusLean.Model.Rnn
/-! Numeric cells of `opacus/layers/dp_rnn.py` (`DPRNNCell`, `DPGRUCell`, `DPLSTMCell`, built from two
`RNNLinear`s `ih`, `hh`) generic in the scalar, and the parameter naming of `DPRNNBase`
(`initialize_cells` rename map + `RenameParamsMixin` + the `state_dict` hook) next to the naming of
`torch.nn.RNNBase`.  Lean core only. -/
namespace Opacus.Rnn

/-- the three activation functions, opaque to the theorems -/
class Act (R : Type) where
  tanh : R → R
  sigmoid : R → R
  relu : R → R

section Cells
variable {R : Type} [Add R] [Mul R] [Sub R] [Zero R] [One R] [Act R]

def dot (w x : List R) : R := (List.zipWith (· * ·) w x).foldl (· + ·) 0
def vadd (a b : List R) : List R := List.zipWith (· + ·) a b
def vmul (a b : List R) : List R := List.zipWith (· * ·) a b

/-- `nn.Linear` on one row: `x Wᵀ + b` (`W` given by rows) -/
def linear (W : List (List R)) (b : Option (List R)) (x : List R) : List R :=
  let y := W.map (dot · x)
  match b with
  | some b => vadd y b
  | none => y

/-- the parameters of one cell: `ih.weight [G·H, in]`, `hh.weight [G·H, H]`, `ih.bias`, `hh.bias` -/
structure CellW (R : Type) where
  wih : List (List R)
  whh : List (List R)
  bih : Option (List R)
  bhh : Option (List R)

/-- `torch.split(gates, H, 1)[k]` -/
def chunk (H k : Nat) (v : List R) : List R := (v.drop (k * H)).take H

/-- `DPRNNCell.forward` -/
def rnnCell (relu : Bool) (w : CellW R) (x h : List R) : List R :=
  (vadd (linear w.wih w.bih x) (linear w.whh w.bhh h)).map (if relu then Act.relu else Act.tanh)

/-- `DPGRUCell.forward`: chunks are (r, z, n) -/
def gruCell (H : Nat) (w : CellW R) (x h : List R) : List R :=
  let gx := linear w.wih w.bih x
  let gh := linear w.whh w.bhh h
  let r := (vadd (chunk H 0 gx) (chunk H 0 gh)).map Act.sigmoid
  let z := (vadd (chunk H 1 gx) (chunk H 1 gh)).map Act.sigmoid
  let n := (vadd (chunk H 2 gx) (vmul r (chunk H 2 gh))).map Act.tanh
  vadd (vmul (z.map (1 - ·)) n) (vmul z h)

/-- `DPLSTMCell.forward`: chunks are (i, f, g, o); state row = (h, c) -/
def lstmCell (H : Nat) (w : CellW R) (x : List R) (hc : List R × List R) : List R × List R :=
  let gates := vadd (linear w.wih w.bih x) (linear w.whh w.bhh hc.1)
  let i := (chunk H 0 gates).map Act.sigmoid
  let f := (chunk H 1 gates).map Act.sigmoid
  let g := (chunk H 2 gates).map Act.tanh
  let o := (chunk H 3 gates).map Act.sigmoid
  let c := vadd (vmul f hc.2) (vmul i g)
  (vmul o (c.map Act.tanh), c)

/-- plumbing for RNN / GRU (state row = `h`) -/
def cfgH (H : Nat) : Cfg (List R) (List R) := ⟨id, (· ++ ·), List.replicate H 0⟩
/-- plumbing for LSTM (state row = `(h, c)`) -/
def cfgHC (H : Nat) : Cfg (List R) (List R × List R) :=
  ⟨Prod.fst, (· ++ ·), (List.replicate H 0, List.replicate H 0)⟩

end Cells

/-! ## parameter names -/

inductive Mat | ih | hh
deriving DecidableEq, Repr

/-- `junk` is the `[]` that `["weight"] + ["bias" if self.bias else []]` puts into the component
list when `bias=False` (it is formatted into rename-map keys that match no parameter) -/
inductive Comp | weight | bias | junk
deriving DecidableEq, Repr

inductive PName
  /-- `l{layer}[_reverse].{ih|hh}.{weight|bias}` – the path inside the module tree -/
  | cell (layer : Nat) (rev : Bool) (m : Mat) (c : Comp)
  /-- `{weight|bias}_{ih|hh}_l{layer}[_reverse]` – the `torch.nn` name -/
  | flat (c : Comp) (m : Mat) (layer : Nat) (rev : Bool)
deriving DecidableEq, Repr

def Mat.str : Mat → String | .ih => "ih" | .hh => "hh"
def Comp.str : Comp → String | .weight => "weight" | .bias => "bias" | .junk => "[]"
def cellName (l : Nat) (rev : Bool) : String := s!"l{l}" ++ (if rev then "_reverse" else "")
def PName.render : PName → String
  | .cell l r m c => s!"{cellName l r}.{m.str}.{c.str}"
  | .flat c m l r => s!"{c.str}_{m.str}_{cellName l r}"

def dirs (bidir : Bool) : List Bool := if bidir then [false, true] else [false]

/-- `named_parameters()` of one cell: `ih.weight, ih.bias, hh.weight, hh.bias` -/
def cellParams (bias : Bool) (l : Nat) (rev : Bool) : List PName :=
  [Mat.ih, Mat.hh].flatMap fun m =>
    PName.cell l rev m .weight :: (if bias then [PName.cell l rev m .bias] else [])

/-- parameters reachable through the sub-modules `l0, l0_reverse, l1, …` in registration order -/
def moduleParams (L : Nat) (bidir bias : Bool) : List PName :=
  (List.range L).flatMap fun l => (dirs bidir).flatMap fun d => cellParams bias l d

/-- the `rename_map` built by `initialize_cells` -/
def renameMap (L : Nat) (bidir bias : Bool) : List (PName × PName) :=
  (List.range L).flatMap fun l => (dirs bidir).flatMap fun d =>
    [Comp.weight, if bias then Comp.bias else Comp.junk].flatMap fun c =>
      [Mat.ih, Mat.hh].map fun m => (PName.cell l d m c, PName.flat c m l d)

def lookup (map : List (PName × PName)) (k : PName) : Option PName :=
  (map.find? (·.1 = k)).map (·.2)

/-- `_register_renamed_parameters`: every parameter whose path is a key of the map is registered
on the top module under its new name (the same tensor object) -/
def registered (map : List (PName × PName)) (params : List PName) : List PName :=
  params.filterMap (lookup map)

/-- `state_dict()` of the DP layer: own (renamed) parameters, then the sub-modules' parameters under
their paths, then the hook `filter_out_old_keys` drops every key of the rename map -/
def stateDictKeys (L : Nat) (bidir bias : Bool) : List PName :=
  let map := renameMap L bidir bias
  (registered map (moduleParams L bidir bias) ++ moduleParams L bidir bias).filter
    fun k => (lookup map k).isNone

/-- `torch.nn.RNNBase._flat_weights_names` (`proj_size = 0`) -/
def torchKeys (L : Nat) (bidir bias : Bool) : List PName :=
  (List.range L).flatMap fun l => (dirs bidir).flatMap fun d =>
    [PName.flat .weight .ih l d, PName.flat .weight .hh l d] ++
      (if bias then [PName.flat .bias .ih l d, PName.flat .bias .hh l d] else [])

/-- where a value stored under a `state_dict` key ends up: the renamed parameter *is* the cell's
parameter, so loading `weight_ih_l0` writes `l0.ih.weight` -/
def aliasOf (map : List (PName × PName)) (k : PName) : Option PName :=
  (map.find? (·.2 = k)).map (·.1)

/-- shape of a DP-layer parameter: `ih = RNNLinear(layer_input_size, G·H)`, `hh = RNNLinear(H, G·H)` -/
def dpShape (I H G : Nat) (bidir : Bool) : PName → List Nat
  | .cell l _ .ih .weight => [G * H, if l = 0 then I else H * (if bidir then 2 else 1)]
  | .cell _ _ .hh .weight => [G * H, H]
  | .cell _ _ _ _ => [G * H]
  | .flat _ _ _ _ => []

/-- shape of the `torch.nn` parameter of that name: `w_ih (gate_size, layer_input_size)`,
`w_hh (gate_size, hidden_size)`, `b_ih, b_hh (gate_size)` -/
def torchShape (I H G : Nat) (bidir : Bool) : PName → List Nat
  | .flat .weight .ih l _ => [G * H, if l = 0 then I else H * (if bidir then 2 else 1)]
  | .flat .weight .hh _ _ => [G * H, H]
  | .flat _ _ _ _ => [G * H]
  | .cell _ _ _ _ => []

end Opacus.Rnn
