import OpacusLean.Model.Proto
/-! Model of adaptive clipping, generic in the scalar `R`.

Two implementations are modelled as state machines with the same per-step inputs
(the list of per-sample gradient norms of the batch and the Gaussian draw `z` added to the count)
and the same outputs (`Out`: bound the gradient was clipped with, per-sample clip factors,
gradient-noise multiplier and std, std requested for the count noise, noisy count, multiplier
recorded by the accountant, new bound):

* `Ada.*`   — `opacus/optimizers/adaclipoptimizer.py` (`AdaClipDPOptimizer`): constructor inflation
  of `noise_multiplier`, `zero_grad` (counter reset), `clip_and_accumulate` (counters, clip factors
  w.r.t. the *current* bound), `add_noise` (gradient noise, then count noise), accountant hook
  (reads the live `noise_multiplier`), `update_max_grad_norm`, `pre_step` (skip ⇒ no release).
* `Ghost.*` — `opacus/utils/adaptive_clipping/adaptive_clipping_utils.py`
  (`DPTensorFastGradientAdaptiveClipping.backward/_update_clip_and_noise` followed by
  `DPOptimizerFastGradientClipping.step`): count w.r.t. the *previous* bound, `std = B/20`, clamp,
  inflation from the *initial* multiplier at every step, coefficients with the *new* bound,
  gradient noise `σ'·C'`, accountant hook (reads the live `noise_multiplier`).

Numeric code is written once with the minimal classes; `Analytic` supplies `exp` and `sqrt`
(`Float` in the driver, `ℝ` in `Props/C20.lean`).  No Mathlib here. -/
namespace Opacus.AdaClip

class Analytic (R : Type) where
  exp : R → R
  sqrt : R → R

/-- `asCoded` = what the unchanged tree does; `repaired` = the behaviour of the proposed fixes -/
inductive Variant where | asCoded | repaired
deriving DecidableEq, Repr

inductive Err where
  /-- `assert max_clipbound > min_clipbound` -/
  | badBounds
  /-- σ⁻² − (2σ_b)⁻² is not a positive real (Python: ZeroDivisionError, or a complex multiplier) -/
  | sigmaSplitUndefined
  /-- `g.view(len(g), -1)` on an empty batch (D21) -/
  | emptyBatch
  /-- ghost: `assert batch_size > 10 * initial_noise_multiplier` -/
  | batchTooSmall
deriving DecidableEq, Repr

def Err.str : Err → String
  | .badBounds => "err:bad-bounds"
  | .sigmaSplitUndefined => "err:sigma-split-undefined"
  | .emptyBatch => "err:empty-batch"
  | .batchTooSmall => "err:batch-too-small"

/-- what one released logical step exposes -/
structure Out (R : Type) where
  /-- bound the released gradient was clipped with -/
  clipUsed : R
  /-- per-sample clip factors of the (last) physical batch -/
  factors : List R
  /-- multiplier of the gradient noise (`optimizer.noise_multiplier` at `add_noise`) -/
  gradMult : R
  /-- std passed to `torch.normal` for the gradient noise -/
  gradStd : R
  /-- std passed to `torch.normal` for the count noise -/
  countStd : R
  /-- denominator of the unclipped fraction -/
  sampleSize : Nat
  /-- exact count + Gaussian draw -/
  noisy : R
  /-- `noise_multiplier` handed to `accountant.step` -/
  recorded : R
  /-- bound in force after the step -/
  newC : R

inductive Res (R : Type) where
  | released (o : Out R)
  /-- physical batch of a virtual step: clipped and accumulated, nothing released -/
  | skipped (factors : List R)
  | err (e : Err)

section generic
variable {R : Type} [Add R] [Sub R] [Mul R] [Div R] [Neg R] [NatCast R] [LT R] [LE R]
  [DecidableLT R] [DecidableLE R] [Analytic R]

/-- Andrew et al. 2021, Thm 1: gradient-noise multiplier `(σ⁻² − (2σ_b)⁻²)^(−1/2)` -/
def sigmaDelta (σ σb : R) : R :=
  ((1 : Nat) : R) / Analytic.sqrt (((1 : Nat) : R) / (σ * σ) - ((1 : Nat) : R) / ((((2 : Nat) : R) * σb) * (((2 : Nat) : R) * σb)))

/-- the guard under which the expression above denotes a positive real -/
def splitDefined (σ σb : R) : Bool :=
  decide (((0 : Nat) : R) < σ) && decide (((0 : Nat) : R) < σb) && decide (σ < ((2 : Nat) : R) * σb)

/-- `C * exp(-lr * (frac - target))` -/
def geoUpdate (C η γ frac : R) : R := C * Analytic.exp ((-η) * (frac - γ))

end generic

/-! ## AdaClipDPOptimizer -/
namespace Ada

structure Cfg (R : Type) where
  /-- nominal `noise_multiplier` passed by the user -/
  sigma : R
  /-- `unclipped_num_std` -/
  sigmaB : R
  eta : R
  gamma : R
  minC : R
  maxC : R
  /-- the `1e-6` in `max_grad_norm / (per_sample_norms + 1e-6)` -/
  eps : R
  /-- D9: which multiplier the accountant hook sees -/
  acct : Variant
  /-- D21: empty batch raises (asCoded) or is released and accounted with the bound unchanged -/
  empty : Variant
  /-- counters over virtual steps: `zero_grad` always resets them (asCoded) or keeps them after a
  skipped step, like `summed_grad` (repaired) -/
  accum : Variant

structure State (R : Type) where
  C : R
  /-- live `optimizer.noise_multiplier` -/
  mult : R
  sampleSize : Nat
  unclipped : Nat
  lastSkipped : Bool
  /-- multipliers recorded by the accountant, one per `accountant.step` call -/
  hist : List R

section generic
variable {R : Type} [Add R] [Sub R] [Mul R] [Div R] [Neg R] [NatCast R] [LT R] [LE R]
  [DecidableLT R] [DecidableLE R] [Analytic R]

/-- `(max_grad_norm / (norm + 1e-6)).clamp(max=1.0)` -/
def factor (eps C n : R) : R :=
  let q := C / (n + eps)
  if ((1 : Nat) : R) < q then ((1 : Nat) : R) else q

/-- `len(f) - (f < 1).sum()` -/
def unclippedCount (eps C : R) (norms : List R) : Nat :=
  norms.countP (fun n => !(decide (factor eps C n < ((1 : Nat) : R))))

/-- the `if … > max … elif … < min` of `update_max_grad_norm` -/
def clamp (lo hi c : R) : R := if hi < c then hi else if c < lo then lo else c

/-- constructor -/
def construct (cfg : Cfg R) (C0 : R) : Except Err (State R) :=
  if ¬ (cfg.minC < cfg.maxC) then .error .badBounds
  else if ¬ splitDefined cfg.sigma cfg.sigmaB then .error .sigmaSplitUndefined
  else .ok { C := C0, mult := sigmaDelta cfg.sigma cfg.sigmaB, sampleSize := 0, unclipped := 0,
             lastSkipped := false, hist := [] }

/-- counters after `zero_grad` and `clip_and_accumulate` on a batch with these norms:
(`sample_size`, `unclipped_num`) -/
def counters (cfg : Cfg R) (s : State R) (norms : List R) : Nat × Nat :=
  let keep := cfg.accum = .repaired ∧ s.lastSkipped = true
  ((if keep then s.sampleSize else 0) + norms.length,
   (if keep then s.unclipped else 0) + unclippedCount cfg.eps s.C norms)

/-- `add_noise`, step hook, `update_max_grad_norm`.  Everything downstream of `clip_and_accumulate`
sees the exact count only through `noisy = unclipped_num + z`. -/
def release (cfg : Cfg R) (s : State R) (fs : List R) (ss : Nat) (noisy : R) : State R × Out R :=
  let rec_ : R := match cfg.acct with | .asCoded => s.mult | .repaired => cfg.sigma
  let newC : R :=
    if ss = 0 then s.C
    else clamp cfg.minC cfg.maxC (geoUpdate s.C cfg.eta cfg.gamma (noisy / (ss : R)))
  ({ s with C := newC, sampleSize := 0, unclipped := 0, lastSkipped := false, hist := s.hist ++ [rec_] },
   { clipUsed := s.C, factors := fs, gradMult := s.mult, gradStd := s.mult * s.C,
     countStd := cfg.sigmaB, sampleSize := ss, noisy := noisy, recorded := rec_, newC := newC })

/-- one physical batch: `zero_grad(); backward(); [signal_skip_step(skip)]; step()`.
`norms` are the per-sample gradient norms, `z` the value returned by the count-noise draw. -/
def phys (cfg : Cfg R) (s : State R) (norms : List R) (z : R) (skip : Bool) : State R × Res R :=
  if norms = [] ∧ cfg.empty = .asCoded then
    -- `g.view(len(g), -1)` raises inside clip_and_accumulate
    ({ s with sampleSize := (counters cfg s norms).1, unclipped := (counters cfg s norms).2 }, .err .emptyBatch)
  else
    let fs := norms.map (factor cfg.eps s.C)
    let ss := (counters cfg s norms).1
    let un := (counters cfg s norms).2
    if skip then
      ({ s with sampleSize := ss, unclipped := un, lastSkipped := true }, .skipped fs)
    else
      ((release cfg s fs ss ((un : R) + z)).1, .released (release cfg s fs ss ((un : R) + z)).2)

/-- a run of physical batches; stops at the first error -/
def run (cfg : Cfg R) : State R → List (List R × R × Bool) → State R × List (Res R)
  | s, [] => (s, [])
  | s, (norms, z, skip) :: rest =>
    match phys cfg s norms z skip with
    | (s', .err e) => (s', [.err e])
    | (s', r) => let (s'', rs) := run cfg s' rest; (s'', r :: rs)

end generic
end Ada

/-! ## ghost-clipping adaptive engine -/
namespace Ghost

structure Cfg (R : Type) where
  eta : R
  gamma : R
  minC : R
  maxC : R
  /-- D9: which multiplier the accountant hook sees -/
  acct : Variant

structure State (R : Type) where
  C : R
  /-- live `optimizer.noise_multiplier` -/
  mult : R
  /-- `initial_noise_multiplier` captured by the criterion in `make_private` -/
  sigma0 : R
  hist : List R

section generic
variable {R : Type} [Add R] [Sub R] [Mul R] [Div R] [Neg R] [NatCast R] [LT R] [LE R]
  [DecidableLT R] [DecidableLE R] [Analytic R]

/-- `(per_sample_norms <= current_max_norm).sum()` -/
def unclippedCount (C : R) (norms : List R) : Nat := norms.countP (fun n => decide (n ≤ C))

/-- `torch.where(norm <= C, 1, C / norm)` -/
def factor (C n : R) : R := if n ≤ C then ((1 : Nat) : R) else C / n

/-- `tensor.clamp(min=lo, max=hi)` = `min(max(c, lo), hi)` -/
def clamp (lo hi c : R) : R :=
  let a := if c < lo then lo else c
  if hi < a then hi else a

def init (σ0 C0 : R) : State R := { C := C0, mult := σ0, sigma0 := σ0, hist := [] }

/-- `_update_clip_and_noise` after the count, the assignments in `backward`, and
`optimizer.step()`: sees the exact count only through `noisy = unclipped_num + z`.
`norms` is used for the batch size and the loss-rescaling coefficients only. -/
def release (cfg : Cfg R) (s : State R) (norms : List R) (noisy : R) : State R × Res R :=
  let B := norms.length
  let σb : R := (B : R) / ((20 : Nat) : R)
  let newC := clamp cfg.minC cfg.maxC (geoUpdate s.C cfg.eta cfg.gamma (noisy / (B : R)))
  if ¬ (((10 : Nat) : R) * s.sigma0 < (B : R)) then (s, .err .batchTooSmall)
  else
    let newMult : R := if ((0 : Nat) : R) < s.sigma0 then sigmaDelta s.sigma0 σb else s.sigma0
    let rec_ : R := match cfg.acct with | .asCoded => newMult | .repaired => s.sigma0
    ({ s with C := newC, mult := newMult, hist := s.hist ++ [rec_] },
     .released { clipUsed := newC, factors := norms.map (factor newC), gradMult := newMult,
                 gradStd := newMult * newC, countStd := σb, sampleSize := B, noisy := noisy,
                 recorded := rec_, newC := newC })

/-- `loss.backward(); optimizer.step()` on one batch -/
def step (cfg : Cfg R) (s : State R) (norms : List R) (z : R) : State R × Res R :=
  release cfg s norms ((unclippedCount s.C norms : R) + z)

def run (cfg : Cfg R) : State R → List (List R × R) → State R × List (Res R)
  | s, [] => (s, [])
  | s, (norms, z) :: rest =>
    match step cfg s norms z with
    | (s', .err e) => (s', [.err e])
    | (s', r) => let (s'', rs) := run cfg s' rest; (s'', r :: rs)

end generic
end Ghost

end Opacus.AdaClip
