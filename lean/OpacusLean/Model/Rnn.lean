/-! Model of `opacus/layers/dp_rnn.py` (`DPRNNBase.forward`, `forward_layer`, `iterate_layers`,
`apply_permutation`) and `opacus/utils/packed_sequences.py` (`compute_seq_lengths`), with the cell as
a parameter.  Lean core only.

Representation.  A batch of rows is a `List`; a time-major tensor `[T, B, ·]` and the tuple
`T × [B_t, ·]` obtained from `PackedSequence.data.split(batch_sizes)` are both `List (List ·)`
(outer = time).  `V` is the type of a feature row (input of a layer / output `h_t` of a layer),
`S` the type of a state row (`H` for RNN/GRU, `H × C` for LSTM — the code carries `h` and `c` in two
parallel lists that are sliced, concatenated and indexed in lock-step, which is the same as one list
of pairs).  `none` stands for "the Python code raises" (IndexError / RuntimeError of `torch.stack`,
`split`, `index_select`).

The *specification* (`specDir`, `specLoop`) is the documented `torch.nn` semantics: every sequence
is processed on its own, `h_t = cell(x_t, h_{t-1})` over its own length, backwards for the reverse
direction, layers stacked on the concatenated outputs. -/
namespace Opacus.Rnn

/-! ## small list utilities -/

/-- all entries present -/
def optAll {α : Type} : List (Option α) → Option (List α)
  | [] => some []
  | none :: _ => none
  | some a :: r => match optAll r with
    | some r' => some (a :: r')
    | none => none

/-- row `i` of every step in which it exists: the `i`-th sequence of a packed batch, column `i` of
a time-major padded tensor -/
def seqOf {α : Type} (steps : List (List α)) (i : Nat) : List α := steps.filterMap (·[i]?)

/-- `tensor.transpose(0, 1)` of a `[A, B, ·]` tensor given as `A` lists of `B` rows -/
def transpose {α : Type} (m : List (List α)) : List (List α) :=
  (List.range (m.headD []).length).map (seqOf m)

/-- `data.split(tuple(sizes))` along dim 0; raises unless the sizes add up to `len(data)` -/
def splitBy {α : Type} : List α → List Nat → Option (List (List α))
  | d, [] => if d.isEmpty then some [] else none
  | d, n :: ns =>
    if d.length < n then none else
    match splitBy (d.drop n) ns with
    | some r => some (d.take n :: r)
    | none => none

/-- `apply_permutation(tensor, dim, permutation)` along the batch dim: `index_select`, `None` = identity -/
def applyPerm {α : Type} (xs : List α) : Option (List Nat) → Option (List α)
  | none => some xs
  | some p => optAll (p.map (xs[·]?))

/-! ## `compute_seq_lengths` -/

/-- the loop body, un-reversed: `r` = `running_seq`, `prev` = `batch_sizes[i-1]`.
`delta * [x]` is `[]` for `delta ≤ 0`, which is what truncated subtraction gives. -/
def cslAux : Nat → Nat → List Nat → List Nat
  | r, prev, [] => List.replicate prev (r + 1)
  | r, prev, b :: bs => List.replicate (prev - b) (r + 1) ++ cslAux (r + 1) b bs

def computeSeqLengths : List Nat → Option (List Nat)
  | [] => none                                   -- `batch_sizes[0]` raises
  | [b] => some (List.replicate b 1)             -- the `len(batch_sizes) == 1` early return
  | b :: bs => some (cslAux 0 b bs).reverse

/-- what `pack_padded_sequence` computes from the sequence lengths: `batch_sizes[t] = #{i | len_i > t}` -/
def batchSizes (lens : List Nat) : List Nat :=
  (List.range (lens.foldl max 0)).map (fun t => lens.countP (fun l => t < l))

/-- the steps `pack_padded_sequence` stores for sequences already ordered by decreasing length:
step `t` holds element `t` of every sequence that has one (`PackedSequence.data` is their `cat`) -/
def packSteps {α : Type} (seqs : List (List α)) : List (List α) :=
  (List.range ((seqs.map List.length).foldl max 0)).map (fun t => seqs.filterMap (·[t]?))

/-! ## one direction of one layer (`forward_layer`) -/
section Layer
variable {X S : Type}

/-- the time loop: `h_n[t+1] = step h_n[t] x[t]`; returns `h_n[1:]` -/
def scanSteps (step : List S → List X → List S) : List S → List (List X) → List (List S)
  | _, [] => []
  | h, x :: xs => let h' := step h x; h' :: scanSteps step h' xs

/-- padded path: `cell(x[t], h_n[t])` on whole batches -/
def stepPadded (cell : X → S → S) (h : List S) (x : List X) : List S := List.zipWith cell x h

/-- packed path: `batch_size_t = len(x[t])`, `batch_size_prev = len(h_n[t])`;
`delta > 0` ⇒ the rows `h_0[prev:batch_size_t]` of the sequences that start at this step (reverse
direction) are appended; the cell then reads `h[:batch_size_t]`. -/
def stepPacked (cell : X → S → S) (h0 h : List S) (x : List X) : List S :=
  let bt := x.length
  let prev := h.length
  let hc := if bt > prev then h ++ (h0.take bt).drop prev else h
  List.zipWith cell x (hc.take bt)

/-- `forward_layer(…, is_packed=False)`: returns (`h_temp`, last state).  `torch.stack` of an empty
list raises. -/
def layerPadded (cell : X → S → S) (h0 : List S) (x : List (List X)) (rev : Bool) :
    Option (List (List S) × List S) :=
  let xs := if rev then x.reverse else x            -- `x.flip(0)`
  let hn := scanSteps (stepPadded cell) h0 xs
  match hn.getLast? with
  | none => none
  | some last => some (if rev then hn.reverse else hn, last)   -- outputs flipped back, states not

/-- the `for i, seq_len in enumerate(seq_lengths): h_last[i] = h_temp[seq_len - 1][i]` loop into a
`zeros(max_batch_size, H)` buffer.  `len(seq_lengths) > B` raises; `< B` cannot happen
(`Lemmas.Rnn.length_cslAux_ge`).  Python's `h_temp[-1]` for `seq_len = 0` is kept.

`cast` is the conversion that the assignment into the buffer performs.  As coded the buffer is
`torch.zeros(B, H)` – *default* dtype – so a float64 state is rounded to float32 when the default
dtype is float32 (known finding `C13:packed:state-dtype`); the repaired behaviour (buffer of the
states' dtype) is `cast = id`. -/
def gatherLast (cast : S → S) (B : Nat) (lens : List Nat) (hTemp : List (List S)) : Option (List S) :=
  if lens.length ≠ B then none else
  optAll ((List.range B).map fun i =>
    match lens[i]? with
    | none => none
    | some l =>
      match (if l = 0 then hTemp.getLast? else hTemp[l - 1]?) with
      | none => none
      | some row => (row[i]?).map cast)

/-- `forward_layer(…, is_packed=True)`; `x` is the split data, `B = max_batch_size` -/
def layerPacked (cast : S → S) (B : Nat) (cell : X → S → S) (h0 : List S) (x : List (List X)) (rev : Bool) :
    Option (List (List S) × List S) :=
  let xs := if rev then x.reverse else x            -- `tuple(reversed(x))`
  let bs := xs.map List.length                      -- `batch_sizes` (`.flip(0)` if reverse)
  let hn := scanSteps (stepPacked cell h0) h0 xs
  match computeSeqLengths bs with
  | none => none
  | some lens =>
    match gatherLast cast B lens hn with
    | none => none
    | some last => some (if rev then hn.reverse else hn, last)

end Layer

/-! ## layers × directions (`forward`) -/

structure Cfg (V S : Type) where
  /-- the `h` component of a state row (the layer output) -/
  out : S → V
  /-- `torch.cat` of two feature rows -/
  cat : V → V → V
  /-- a row of the default `torch.zeros` initial state -/
  zero : S

section Forward
variable {V S : Type}

/-- the `for layer, directions in self.iterate_layers(self.cells, h_0s, c_0s)` loop.
`n` layers remain, `l` is the current layer index, flat index `num_directions * layer + direction`. -/
def layersLoop (cfg : Cfg V S)
    (layerFn : (V → S → S) → List S → List (List V) → Bool → Option (List (List S) × List S))
    (bidir : Bool) (cells : List (V → S → S)) (h0s : List (List S)) :
    Nat → Nat → List (List V) → List (List S) → Option (List (List V) × List (List S))
  | 0, _, input, acc => some (input, acc)
  | n + 1, l, input, acc =>
    let P := if bidir then 2 else 1
    match cells[P * l]?, h0s[P * l]? with
    | some c0, some s0 =>
      match layerFn c0 s0 input false with
      | none => none
      | some (o0, hl0) =>
        if bidir then
          match cells[P * l + 1]?, h0s[P * l + 1]? with
          | some c1, some s1 =>
            match layerFn c1 s1 input true with
            | none => none
            | some (o1, hl1) =>
              layersLoop cfg layerFn bidir cells h0s n (l + 1)
                (List.zipWith (List.zipWith fun a b => cfg.cat (cfg.out a) (cfg.out b)) o0 o1)
                (acc ++ [hl0, hl1])
          | _, _ => none
        else
          layersLoop cfg layerFn bidir cells h0s n (l + 1) (o0.map (·.map cfg.out)) (acc ++ [hl0])
    | _, _ => none

/-- initial states: zeros, or the user's tensors re-ordered by `sorted_indices` -/
def initStates (cfg : Cfg V S) (L P B : Nat) (sortedIdx : Option (List Nat)) :
    Option (List (List S)) → Option (List (List S))
  | none => some (List.replicate (L * P) (List.replicate B cfg.zero))
  | some h => optAll (h.map (applyPerm · sortedIdx))

/-- `forward` on a padded tensor given as `shape[0]` lists of `shape[1]` rows -/
def forwardPadded (cfg : Cfg V S) (bidir : Bool) (L : Nat) (cells : List (V → S → S))
    (batchFirst : Bool) (input : List (List V)) (init : Option (List (List S))) :
    Option (List (List V) × List (List S)) :=
  let x := if batchFirst then transpose input else input
  let B := (x.headD []).length
  let P := if bidir then 2 else 1
  if L = 0 then none else                         -- `torch.stack([])`
  match initStates cfg L P B none init with
  | none => none
  | some h0s =>
    match layersLoop cfg layerPadded bidir cells h0s L 0 x [] with
    | none => none
    | some (o, hs) => some (if batchFirst then transpose o else o, hs)

/-- `forward` on a `PackedSequence(data, batch_sizes, sorted_indices, unsorted_indices)`;
returns the `data` of the output `PackedSequence` (its other three fields are passed through) -/
def forwardPacked (cfg : Cfg V S) (cast : S → S) (bidir : Bool) (L : Nat) (cells : List (V → S → S))
    (data : List V) (bs : List Nat) (sortedIdx unsortedIdx : Option (List Nat))
    (init : Option (List (List S))) : Option (List V × List (List S)) :=
  let P := if bidir then 2 else 1
  match bs.head?, splitBy data bs with
  | some B, some x =>
    if L = 0 then none else
    match initStates cfg L P B sortedIdx init with
    | none => none
    | some h0s =>
      match layersLoop cfg (layerPacked cast B) bidir cells h0s L 0 x [] with
      | none => none
      | some (o, hs) =>
        match optAll (hs.map (applyPerm · unsortedIdx)) with
        | none => none
        | some hs' => some (o.flatten, hs')
  | _, _ => none

/-! ## specification: one sequence at a time -/

/-- `h_t = cell(x_t, h_{t-1})`; returns `[h_1, …, h_T]` -/
def scanCell {X : Type} (cell : X → S → S) : S → List X → List S
  | _, [] => []
  | s, x :: xs => let s' := cell x s; s' :: scanCell cell s' xs

/-- one direction of one layer on one sequence: states aligned with the input positions, and the
final state (`h_n`): after the last element (forward) / after the first element (reverse) -/
def specDir {X : Type} (cell : X → S → S) (s0 : S) (xs : List X) (rev : Bool) : List S × S :=
  if rev then ((scanCell cell s0 xs.reverse).reverse, xs.reverse.foldl (fun s x => cell x s) s0)
  else (scanCell cell s0 xs, xs.foldl (fun s x => cell x s) s0)

/-- stacked layers on one sequence; `s0s[P*l+d]` is that sequence's initial state for (l, d).
`cast` is applied to the reported final states only (`id` = the documented semantics; see `gatherLast`) -/
def specLoop (cfg : Cfg V S) (cast : S → S) (bidir : Bool) (cells : List (V → S → S)) (s0s : List S) :
    Nat → Nat → List V → List S → Option (List V × List S)
  | 0, _, input, acc => some (input, acc)
  | n + 1, l, input, acc =>
    let P := if bidir then 2 else 1
    match cells[P * l]?, s0s[P * l]? with
    | some c0, some s0 =>
      let r0 := specDir c0 s0 input false
      if bidir then
        match cells[P * l + 1]?, s0s[P * l + 1]? with
        | some c1, some s1 =>
          let r1 := specDir c1 s1 input true
          specLoop cfg cast bidir cells s0s n (l + 1)
            (List.zipWith (fun a b => cfg.cat (cfg.out a) (cfg.out b)) r0.1 r1.1) (acc ++ [cast r0.2, cast r1.2])
        | _, _ => none
      else specLoop cfg cast bidir cells s0s n (l + 1) (r0.1.map cfg.out) (acc ++ [cast r0.2])
    | _, _ => none

/-- the documented semantics of `torch.nn.RNN/GRU/LSTM` on one sequence (for `cast = id`) -/
def specForward (cfg : Cfg V S) (cast : S → S) (bidir : Bool) (L : Nat) (cells : List (V → S → S))
    (s0s : Option (List S)) (xs : List V) : Option (List V × List S) :=
  let P := if bidir then 2 else 1
  specLoop cfg cast bidir cells (s0s.getD (List.replicate (L * P) cfg.zero)) L 0 xs []

end Forward
end Opacus.Rnn
