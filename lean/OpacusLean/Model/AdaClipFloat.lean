import OpacusLean.Model.AdaClip
/-! `Float` (IEEE binary64) instance of the adaptive-clipping model: what the driver executes. -/
namespace Opacus.AdaClip

instance : NatCast Float := ⟨Float.ofNat⟩
instance : Analytic Float := ⟨Float.exp, Float.sqrt⟩

end Opacus.AdaClip
