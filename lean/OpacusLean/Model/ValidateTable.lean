import OpacusLean.Model.Validate
/-! Single-layer verdict table: the domain, and the model tree that stands for one row.  The rows
themselves are extracted from the running code into `OpacusLean/Generated/ValidatorTable.lean`
on every run of the check. -/
namespace Opacus.Validate

/-- one row: a single layer (as root) with the given flags, and the verdicts of the real code:
error classes of `ModuleValidator.validate`, error count of `GradSampleModule.validate` -/
structure Row where
  ty : Ty
  affine : Bool
  trs : Bool
  trainable : Bool
  training : Bool
  mv : List ErrC
  gsm : Nat
  deriving DecidableEq, Repr

def Row.key (r : Row) : Ty × Bool × Bool × Bool × Bool := (r.ty, r.affine, r.trs, r.trainable, r.training)

def bools : List Bool := [false, true]

def normTys : List Ty := [.bn1, .bn2, .bn3, .syncbn, .in1, .in2, .in3]
def affineOnlyTys : List Ty := [.gn, .ln]
def plainTys : List Ty := [.lstm, .mha, .linear, .conv1, .conv2, .conv3]

/-- layer type × affine × track_running_stats × trainable × training, restricted to the flags the
constructor of the type has -/
def tableDomain : List (Ty × Bool × Bool × Bool × Bool) :=
  (normTys.flatMap fun ty => bools.flatMap fun a => bools.flatMap fun t => bools.flatMap fun tr => bools.map fun m => (ty, a, t, tr, m))
  ++ (affineOnlyTys.flatMap fun ty => bools.flatMap fun a => bools.flatMap fun tr => bools.map fun m => (ty, a, false, tr, m))
  ++ (plainTys.flatMap fun ty => bools.flatMap fun tr => bools.map fun m => (ty, false, false, tr, m))

def mkParams (names : List String) (base : Nat) (rg : Bool) : List Param :=
  names.zipIdx.map (fun e => ⟨e.1, .orig (base + e.2), .tok (base + e.2), rg⟩)

def runBufs (base : Nat) : List Buf :=
  [⟨"running_mean", .orig base, .tok base⟩, ⟨"running_var", .orig (base + 1), .tok (base + 1)⟩,
   ⟨"num_batches_tracked", .orig (base + 2), .tok (base + 2)⟩]

/-- the layer `ty(…, affine=…, track_running_stats=…)` with `requires_grad_(trainable)` and
`.train(training)`, as the harness builds it -/
def rowTree (ty : Ty) (affine trs trainable training : Bool) : Tree :=
  let cfg : Cfg := { numFeatures := 4, affine := affine, trs := trs, numGroups := if ty = .gn then 2 else 0 }
  if isBN ty ∨ isIN ty then
    ⟨{ oid := .orig 0, ty := ty, training := training, cfg := cfg,
       params := if affine then mkParams ["weight", "bias"] 1 trainable else [],
       buffers := if trs then runBufs 3 else [] }, .nil⟩
  else if ty = .gn ∨ ty = .ln then
    ⟨{ oid := .orig 0, ty := ty, training := training, cfg := cfg,
       params := if affine then mkParams ["weight", "bias"] 1 trainable else [] }, .nil⟩
  else if ty = .lstm then
    ⟨{ oid := .orig 0, ty := ty, training := training, cfg := { cfg with numFeatures := 0 },
       params := mkParams ["weight_ih_l0", "weight_hh_l0", "bias_ih_l0", "bias_hh_l0"] 1 trainable }, .nil⟩
  else if ty = .mha then
    ⟨{ oid := .orig 0, ty := ty, training := training, cfg := { cfg with numFeatures := 0 },
       params := mkParams ["in_proj_weight", "in_proj_bias"] 1 trainable },
     .cons { name := .s "out_proj", oid := .orig 3, ty := .ndqLinear, training := training,
             params := mkParams ["weight", "bias"] 4 trainable } .nil .nil⟩
  else
    ⟨{ oid := .orig 0, ty := ty, training := training, cfg := { cfg with numFeatures := 0 },
       params := mkParams ["weight", "bias"] 1 trainable }, .nil⟩

def Row.tree (r : Row) : Tree := rowTree r.ty r.affine r.trs r.trainable r.training

/-- the row agrees with the model under variant `v` -/
def Row.agrees (v : Variant) (r : Row) : Bool :=
  mvValidate v r.tree == r.mv && gsmValidate r.tree == r.gsm

end Opacus.Validate
