import OpacusLean.Model.RdpScalar
/-! Model of `opacus/accountants/analysis/rdp.py` (generic scalar, Lean core only).

Log-space values are `Option R` with `none = log 0 = -inf` (the only place `-inf` occurs in the
real code for parameters in range is the accumulator initialisation and `_log_sub` of equal
arguments).  RDP / epsilon values are `EV R` (`fin | pinf | nan`) because the real code produces
`np.inf` (sigma = 0, alpha = inf) and `nan` (`inf * 0`, the `alpha = inf` column of the conversion)
and `np.nanargmin` treats the latter as `+inf`.

Not modelled: float overflow other than the `OverflowError` branch of `_log_sub` (e.g. `exp` overflow for tiny sigma),
`-0.0`, NaN *inputs*.  Domain guard of the model (absent in the code): orders must be > 1 in the
branch 0 < q < 1 (the code raises `ZeroDivisionError` at alpha = 1 and returns junk below). -/
namespace Opacus.Rdp
open RScalar

variable {R : Type} [RScalar R]

/-- `scipy.special.binom(n, k)` on naturals, multiplicative form (exact; every division is exact) -/
def choose (n : Nat) : Nat → Nat
  | 0 => 1
  | k + 1 => choose n k * (n - k) / (k + 1)

/-- `_log_add(logx, logy)` -/
def logAdd (x y : Option R) : Option R :=
  match x, y with
  | none, y => y
  | x, none => x
  | some x, some y =>
    let a := if lt y x then y else x   -- min(logx, logy)
    let b := if lt x y then y else x   -- max(logx, logy)
    some (log1p (exp (a - b)) + b)

/-- `_log_sub(logx, logy)`; `except OverflowError: return logx` is the `expm1Ovf` branch -/
def logSub (x y : Option R) : Except Err (Option R) :=
  match x, y with
  | x, none => .ok x
  | none, some _ => .error .logSubNeg
  | some x, some y =>
    if lt x y then .error .logSubNeg
    else if beq x y then .ok none
    else if expm1Ovf (x - y) then .ok (some x)
    else .ok (some (log (expm1 (x - y)) + y))

/-- the `i`-th summand `s` of `_compute_log_a_for_int_alpha`, in log space -/
def intTerm (q sigma : R) (alpha i : Nat) : R :=
  let logCoef := log (ofNat (choose alpha i)) + ofNat i * log q + ofNat (alpha - i) * log (ofNat 1 - q)
  logCoef + ofNat (i * i - i) / (ofNat 2 * (sigma * sigma))

/-- `_compute_log_a_for_int_alpha(q, sigma, alpha)`: the loop `for i in range(alpha + 1)` -/
def logAInt (q sigma : R) (alpha : Nat) : Option R :=
  (List.range (alpha + 1)).foldl (fun acc i => logAdd acc (some (intTerm q sigma alpha i))) none

/-- `_log_erfc(x) = log 2 + log_ndtr(-x * 2**0.5)`; `lnd` is `scipy.special.log_ndtr` -/
def logErfc (lnd : R → R) (x : R) : R := log (ofNat 2) + lnd (-x * sqrt (ofNat 2))

/-- the two arguments at which iteration `i` of the fractional series calls `log_ndtr` -/
def fracNdtrArgs (q sigma alpha : R) (i : Nat) : R × R :=
  let z0 := (sigma * sigma) * log (ofNat 1 / q - ofNat 1) + ofNat 1 / ofNat 2
  let iR : R := ofNat i
  let j := alpha - iR
  (-((iR - z0) / (sqrt (ofNat 2) * sigma)) * sqrt (ofNat 2),
   -((z0 - j) / (sqrt (ofNat 2) * sigma)) * sqrt (ofNat 2))

/-- `log_s0` of iteration `i` of `_compute_log_a_for_frac_alpha` (`coef = binom(alpha, i)`) -/
def fracS0 (lnd : R → R) (q sigma alpha z0 : R) (i : Nat) (coef : R) : R :=
  let iR : R := ofNat i
  let logCoef := log (if lt coef (ofNat 0) then -coef else coef)
  let j := alpha - iR
  let logT0 := logCoef + iR * log q + j * log (ofNat 1 - q)
  let logE0 := log (ofNat 1 / ofNat 2) + logErfc lnd ((iR - z0) / (sqrt (ofNat 2) * sigma))
  logT0 + ofNat (i * i - i) / (ofNat 2 * (sigma * sigma)) + logE0

/-- `log_s1` of iteration `i` -/
def fracS1 (lnd : R → R) (q sigma alpha z0 : R) (i : Nat) (coef : R) : R :=
  let iR : R := ofNat i
  let logCoef := log (if lt coef (ofNat 0) then -coef else coef)
  let j := alpha - iR
  let logT1 := logCoef + j * log q + iR * log (ofNat 1 - q)
  let logE1 := log (ofNat 1 / ofNat 2) + logErfc lnd ((z0 - j) / (sqrt (ofNat 2) * sigma))
  logT1 + (j * j - j) / (ofNat 2 * (sigma * sigma)) + logE1

/-- body of the `while True` loop of `_compute_log_a_for_frac_alpha`; `coef = binom(alpha, i)` is
carried along (`binom(α, i+1) = binom(α, i)·(α−i)/(i+1)`) -/
def fracLoop (lnd : R → R) (repaired : Bool) (q sigma alpha z0 : R) :
    Nat → Nat → R → Option R → Option R → Except Err (Option R)
  | 0, _, _, _, _ => .error .oracleExhausted
  | fuel + 1, i, coef, a0, a1 =>
    if beq coef (ofNat 0) then .error .logZero else
    let logS0 := fracS0 lnd q sigma alpha z0 i coef
    let logS1 := fracS1 lnd q sigma alpha z0 i coef
    let upd : Except Err (Option R × Option R) :=
      if lt (ofNat 0) coef then .ok (logAdd a0 (some logS0), logAdd a1 (some logS1))
      else
        match logSub a0 (some logS0), logSub a1 (some logS1) with
        | .ok b0, .ok b1 => .ok (b0, b1)
        | .error e, _ => .error e
        | _, .error e => .error e
    match upd with
    | .error e => .error e
    | .ok (b0, b1) =>
      let m := if lt logS0 logS1 then logS1 else logS0   -- max(log_s0, log_s1)
      -- as coded: `i += 1; if max(log_s0, log_s1) < -30: break`.  Finding C06:frac-series-stops-at-
      -- first-term: when the binomial weights peak in the interior (large q, large sigma, large
      -- fractional alpha) the FIRST terms are already below e^-30 and the loop stops at i = 0.
      -- repaired: the test is made only after the last positive coefficient (`i > alpha`).
      if (!repaired || lt alpha (ofNat (i + 1))) && lt m (-(ofNat 30)) then .ok (logAdd b0 b1)
      else fracLoop lnd repaired q sigma alpha z0 fuel (i + 1)
        (coef * (alpha - ofNat i) / ofNat (i + 1)) b0 b1

/-- `_compute_log_a_for_frac_alpha(q, sigma, alpha)` with at most `fuel` iterations -/
def logAFrac (lnd : R → R) (repaired : Bool) (fuel : Nat) (q sigma alpha : R) : Except Err (Option R) :=
  let z0 := (sigma * sigma) * log (ofNat 1 / q - ofNat 1) + ofNat 1 / ofNat 2
  fracLoop lnd repaired q sigma alpha z0 fuel 0 (ofNat 1) none none

/-- what the fractional-order routine needs from outside the model -/
structure Cfg (R : Type) where
  /-- `scipy.special.log_ndtr` -/
  logNdtr : R → R
  /-- bound on the number of series terms (the driver's oracle table is finite) -/
  fuel : Nat
  /-- variant switch for finding `C06:frac-series-stops-at-first-term` (`false` = as coded) -/
  repaired : Bool := false

/-- `_compute_rdp(q, sigma, alpha)` -/
def computeRdp1 (cfg : Cfg R) (q sigma : R) (alpha : Order R) : Except Err (EV R) :=
  if beq q (ofNat 0) then .ok (.fin (ofNat 0))
  else if beq sigma (ofNat 0) then .ok .pinf
  else if beq q (ofNat 1) then
    match alpha.val? with
    | some a => .ok (.fin (a / (ofNat 2 * (sigma * sigma))))
    | none => .ok .pinf
  else
    match alpha with
    | .inf => .ok .pinf
    | .int n =>
      if n ≤ 1 then .error .badOrder else
      if lt q (ofNat 0) || lt (ofNat 1) q then .error .mathDomain else
      match logAInt q sigma n with
      | some la => .ok (.fin (la / (ofNat n - ofNat 1)))
      | none => .error .logZero      -- unreachable: `range (n+1)` is never empty (`logAInt_isSome`)
    | .frac a =>
      if !(lt (ofNat 1) a) then .error .badOrder else
      if lt q (ofNat 0) || lt (ofNat 1) q then .error .mathDomain else
      match logAFrac cfg.logNdtr cfg.repaired cfg.fuel q sigma a with
      | .error e => .error e
      | .ok (some la) => .ok (.fin (la / (a - ofNat 1)))
      | .ok none => .error .logZero

/-- list comprehension over a function that may raise: the first exception wins -/
def mapE {α β : Type} (f : α → Except Err β) : List α → Except Err (List β)
  | [] => .ok []
  | a :: t =>
    match f a with
    | .error e => .error e
    | .ok b =>
      match mapE f t with
      | .error e => .error e
      | .ok bs => .ok (b :: bs)

/-- `compute_rdp(q=, noise_multiplier=, steps=, orders=)` for a list of orders:
`np.array([_compute_rdp(q, sigma, order) for order in orders]) * steps` -/
def computeRdp (cfg : Cfg R) (q sigma : R) (steps : Nat) (orders : List (Order R)) :
    Except Err (List (EV R)) :=
  mapE (fun a => match computeRdp1 cfg q sigma a with
    | .error e => .error e
    | .ok r => .ok (r.mulNat steps)) orders

/-- one component of the vector `eps` of `get_privacy_spent` (Balle et al. 2020, Thm 21) -/
def epsAt (rdp : EV R) (alpha : Order R) (delta : R) : EV R :=
  match alpha.val? with
  | none => .nan                       -- (log δ + inf) / inf
  | some a =>
    match rdp with
    | .fin r => .fin (r - (log delta + log a) / (a - ofNat 1) + log ((a - ofNat 1) / a))
    | .pinf => .pinf
    | .nan => .nan

/-- `np.nanargmin` replaces every NaN by `+inf` and takes `argmin` (first index of the least key);
the ORIGINAL entry at that index is returned – so with entries `[nan, inf, inf]` it is the NaN at
index 0.  An all-NaN slice makes numpy raise; `get_privacy_spent` tests for it beforehand. -/
def nanKey (x : EV R) : EV R := if x.isNaN then .pinf else x

def argminStep {β : Type} (best : Option (EV R × β)) (x : EV R × β) : Option (EV R × β) :=
  match best with
  | none => some x
  | some b => if EV.lt (nanKey x.1) (nanKey b.1) then some x else best

def nanArgmin {β : Type} (xs : List (EV R × β)) : Option (EV R × β) :=
  if xs.all (fun x => x.1.isNaN) then none else xs.foldl argminStep none

def orderOk (a : Order R) : Bool :=
  match a.val? with
  | none => true
  | some v => lt (ofNat 1) v

/-- `get_privacy_spent(orders=, rdp=, delta=)`: `(eps, optimal order)`; `none` stands for the
`nan` order returned with `eps = inf` when every component is NaN -/
def getPrivacySpent (orders : List (Order R)) (rdp : List (EV R)) (delta : R) :
    Except Err (EV R × Option (Order R)) :=
  if orders.length ≠ rdp.length then .error .lengthMismatch
  else if !(orders.all orderOk) then .error .badOrder
  else
    match nanArgmin ((List.zipWith (fun a r => (epsAt r a delta, a)) orders rdp)) with
    | none => .ok (.pinf, none)
    | some (e, a) => .ok (e, some a)

end Opacus.Rdp
