/-! # Exact IEEE-754 binary64 arithmetic on positive rationals (Lean core only)

Promoted from `notes/spikes/Binary64.lean`.  A (positive, normal) binary64 number is a pair
`⟨m, e⟩` meaning `m · 2^e` with `2^52 ≤ m < 2^53`; zero is `⟨0, 0⟩`.  `rne p q` is the correctly
rounded (round-to-nearest, ties-to-even) value of the rational `p/q`.  Only the normal range is
modelled (no subnormals, no overflow, no signs): the quantities Opacus derives from a loader length
(`1/L`, `1/(1/L)`, `epochs/(1/L)`, `N·(1/L')`) stay within `[2^-64, 2^64]`.

The model is tied to reality three ways: kernel evaluation of Lean's own `Float` on witnesses
(`Props/C08.lean`), exhaustive comparison with CPython for `L ≤ 10^4 / 10^6` (harness), and the
theorem `rne_rel_error` (`Lemmas/Binary64.lean`): `|rne p q − p/q| ≤ 2^-53 · p/q`.

What Opacus computes with it (see `opacus/privacy_engine.py`, `opacus/data_loader.py`,
`opacus/utils/uniform_sampler.py`, `opacus/accountants/utils.py`):

* `sample_rate = 1 / len(data_loader)`                      → `qSampler L = fdiv 1 L`
* sampler `steps = int(1 / sample_rate)` = `len(dp_loader)` → `lenDP L = trunc (fdiv 1 (fdiv 1 L))`
* accountant rate `1 / len(dp_loader)`                      → `qAcc L = fdiv 1 (lenDP L)`
* calibration `steps = int(epochs / sample_rate)`           → `stepsCal E L = trunc (fdiv E (fdiv 1 L))`
* `expected_batch_size = int(len(dataset) * sample_rate)`   → `ebs N L = trunc (fmul N (qAcc L))`
-/
namespace Opacus.Binary64

structure B64 where
  m : Nat
  e : Int
deriving Repr, DecidableEq

def zero : B64 := ⟨0, 0⟩

/-- `2^k ≤ p/q` -/
def pow2Le (p q : Nat) (k : Int) : Bool :=
  if k ≥ 0 then q * 2 ^ k.toNat ≤ p else q ≤ p * 2 ^ (-k).toNat

/-- `⌊log₂ (p/q)⌋` for `p, q > 0`: the difference of the bit lengths or one less -/
def ilog2 (p q : Nat) : Int :=
  let a : Int := (Nat.log2 p : Int) - (Nat.log2 q : Int)
  if pow2Le p q a then a else a - 1

/-- numerator and denominator of `(p/q) / 2^e` -/
def scaled (p q : Nat) (e : Int) : Nat × Nat :=
  if e ≥ 0 then (p, q * 2 ^ e.toNat) else (p * 2 ^ (-e).toNat, q)

/-- round-half-even of `num/den` to an integer -/
def roundHalfEven (num den : Nat) : Nat :=
  let fl := num / den
  let r := num % den
  if 2 * r < den then fl else if den < 2 * r then fl + 1 else (if fl % 2 = 0 then fl else fl + 1)

/-- correctly rounded binary64 value of `p/q` (`p, q > 0`; `p = 0` gives zero) -/
def rne (p q : Nat) : B64 :=
  if p = 0 then zero else
  let e : Int := ilog2 p q - 52
  let s := scaled p q e
  let m := roundHalfEven s.1 s.2
  if m = 2 ^ 53 then ⟨2 ^ 52, e + 1⟩ else ⟨m, e⟩

/-- binary64 value of a natural number (exact below `2^53`) -/
def ofNat (n : Nat) : B64 := rne n 1

def one : B64 := ofNat 1

/-- IEEE division `a / b` (`b ≠ 0`; callers guard the `ZeroDivisionError`) -/
def fdiv (a b : B64) : B64 :=
  if a.m = 0 then zero else
  let r := rne a.m b.m
  ⟨r.m, r.e + a.e - b.e⟩

/-- IEEE multiplication -/
def fmul (a b : B64) : B64 :=
  if a.m = 0 ∨ b.m = 0 then zero else
  let r := rne (a.m * b.m) 1
  ⟨r.m, r.e + a.e + b.e⟩

/-- Python `int(x)` for `x ≥ 0` -/
def trunc (b : B64) : Nat :=
  if b.e ≥ 0 then b.m * 2 ^ b.e.toNat else b.m / 2 ^ (-b.e).toNat

/-- the IEEE bit pattern (sign 0, biased exponent, 52 mantissa bits) -/
def toBits (b : B64) : Nat :=
  if b.m = 0 then 0 else (b.e + 1075).toNat * 2 ^ 52 + (b.m - 2 ^ 52)

/-- the model value with a given bit pattern (positive normal numbers; biased exponent 0 ↦ zero) -/
def ofBits (n : Nat) : B64 :=
  let ex : Nat := (n / 2 ^ 52) % 2048
  if ex = 0 then zero else ⟨2 ^ 52 + n % 2 ^ 52, (ex : Int) - 1075⟩

/-- exact comparison `a < b` of two model values (both ≥ 0) -/
def lt (a b : B64) : Bool :=
  -- a.m·2^a.e < b.m·2^b.e
  if a.e ≤ b.e then a.m < b.m * 2 ^ (b.e - a.e).toNat else a.m * 2 ^ (a.e - b.e).toNat < b.m

/-! ## What Opacus derives from a loader length -/

/-- which tree: `asCoded` derives every count by float truncation; `repaired` carries the
integer `len(data_loader)` through (see finding D14) -/
inductive Variant where | asCoded | repaired
deriving Repr, DecidableEq

/-- `sample_rate = 1 / len(data_loader)` -/
def qSampler (L : Nat) : B64 := fdiv one (ofNat L)

/-- `len(dp_loader)` = sampler `steps` = `int(1 / sample_rate)` -/
def lenDP (v : Variant) (L : Nat) : Nat :=
  match v with
  | .asCoded => trunc (fdiv one (qSampler L))
  | .repaired => L

/-- the samplers' default `steps = int(1 / sample_rate)` for an arbitrary positive rate -/
def stepsOfRate (q : B64) : Nat := trunc (fdiv one q)

/-- `make_private`: `sample_rate = 1 / len(dp_loader)` handed to the accountant -/
def qAcc (v : Variant) (L : Nat) : B64 := fdiv one (ofNat (lenDP v L))

/-- `get_noise_multiplier`: `steps = int(epochs / sample_rate)` -/
def stepsCal (v : Variant) (epochs L : Nat) : Nat :=
  match v with
  | .asCoded => trunc (fdiv (ofNat epochs) (qSampler L))
  | .repaired => epochs * L

/-- the number of optimizer steps `epochs` passes over the DP loader take -/
def stepsTrain (v : Variant) (epochs L : Nat) : Nat := epochs * lenDP v L

/-- `expected_batch_size = int(len(dataset) * sample_rate)` -/
def ebs (v : Variant) (N L : Nat) : Nat := trunc (fmul (ofNat N) (qAcc v L))

/-- distributed: `expected_batch_size /= world_size` (a float) -/
def ebsDist (v : Variant) (N L W : Nat) : B64 := fdiv (ofNat (ebs v N L)) (ofNat W)

/-! ## The same quantities on Lean's `Float` (hardware binary64) -/

def lenDPFloat (L : Nat) : Nat := ((1.0 : Float) / ((1.0 : Float) / L.toFloat)).toUInt64.toNat
def stepsCalFloat (epochs L : Nat) : Nat := (epochs.toFloat / ((1.0 : Float) / L.toFloat)).toUInt64.toNat
def qSamplerFloatBits (L : Nat) : Nat := ((1.0 : Float) / L.toFloat).toBits.toNat
def ebsFloat (N L : Nat) : Nat := (N.toFloat * ((1.0 : Float) / (lenDPFloat L).toFloat)).toUInt64.toNat

end Opacus.Binary64
