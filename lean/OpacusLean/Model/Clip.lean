/-! Model of per-sample clipping and accumulation in the DP optimizers
(`opacus/optimizers/optimizer.py`, `perlayeroptimizer.py`, `adaclipoptimizer.py`
(clipping part only), `ddp_perlayeroptimizer.py:_clip_and_accumulate_parameter`), generic in the
scalar.  Lean core only.

A *gradient* over `P` parameter tensors with `d k` entries each is a total function
`(k : Fin P) → Fin (d k) → R` (tensors flattened, as the code does with `reshape(len(g), -1)`).
A physical batch is the list of its per-sample gradients (`p.grad_sample[i]` for every `p`).
-/
namespace Opacus.Clip

/-- core-only finite sum (bridged to `Finset.sum` in `Lemmas/ClipSum.lean`) -/
def sumFin {R} [Add R] [Zero R] (n : Nat) (f : Fin n → R) : R :=
  Fin.foldl n (fun acc i => acc + f i) 0

class HasSqrt (R : Type) where
  sqrt : R → R

instance : HasSqrt Float := ⟨Float.sqrt⟩

abbrev Grad (R : Type) {P : Nat} (d : Fin P → Nat) := (k : Fin P) → Fin (d k) → R

section ops
variable {R : Type} {P : Nat} {d : Fin P → Nat}

def gzero [Zero R] : Grad R d := fun _ _ => 0
def gadd [Add R] (a b : Grad R d) : Grad R d := fun k i => a k i + b k i
def gsub [Sub R] (a b : Grad R d) : Grad R d := fun k i => a k i - b k i
/-- `torch.einsum("i,i...", factor, grad_sample)` for one sample, one factor per tensor -/
def gscale [Mul R] (c : Fin P → R) (g : Grad R d) : Grad R d := fun k i => c k * g k i
def gdiv [Div R] (g : Grad R d) (c : R) : Grad R d := fun k i => g k i / c

/-- `t.norm(2)` of a flat tensor -/
def norm2 [Add R] [Mul R] [Zero R] [HasSqrt R] {n : Nat} (v : Fin n → R) : R :=
  HasSqrt.sqrt (sumFin n (fun i => v i * v i))

/-- `per_param_norms` of one sample: `g.reshape(len(g), -1).norm(2, dim=-1)` for every parameter -/
def paramNorms [Add R] [Mul R] [Zero R] [HasSqrt R] (g : Grad R d) : Fin P → R :=
  fun k => norm2 (g k)

/-- `torch.stack(per_param_norms, dim=1).norm(2, dim=1)`: the joint norm of one sample, computed
the way the code does (norm of the vector of per-tensor norms) -/
def flatNorm [Add R] [Mul R] [Zero R] [HasSqrt R] (g : Grad R d) : R :=
  norm2 (paramNorms g)

/-- `(C / (norm + 1e-6)).clamp(max=1.0)` -/
def clipFactor [Min R] [One R] [Div R] [Add R] [OfScientific R] (C n : R) : R :=
  min 1 (C / (n + 1e-6))

end ops

/-- which `clip_and_accumulate` -/
inductive Mode (R : Type) (P : Nat) where
  /-- `DPOptimizer`: one factor per sample from the joint norm -/
  | flat (C : R)
  /-- `DPPerLayerOptimizer` / `DistributedPerLayerOptimizer`: one factor per sample and tensor -/
  | perLayer (Cs : Fin P → R)
  /-- `AdaClipDPOptimizer`: flat clipping with the bound in force (the update rule is not modelled
  here) -/
  | adaptive (C : R)

section clip
variable {R : Type} [Add R] [Mul R] [Div R] [Zero R] [One R] [Min R] [OfScientific R] [HasSqrt R]
variable {P : Nat} {d : Fin P → Nat}

/-- `per_sample_clip_factor` of one sample, per tensor -/
def factors (m : Mode R P) (g : Grad R d) : Fin P → R :=
  match m with
  | .flat C => let c := clipFactor C (flatNorm g); fun _ => c
  | .adaptive C => let c := clipFactor C (flatNorm g); fun _ => c
  | .perLayer Cs => fun k => clipFactor (Cs k) (norm2 (g k))

/-- the clipped gradient of one sample -/
def clipped (m : Mode R P) (g : Grad R d) : Grad R d :=
  let c := factors m g
  gscale c g

/-- `grad = einsum("i,i...", per_sample_clip_factor, grad_sample)` for one physical batch;
the empty batch gives the zero tensor (explicit branch in `DPOptimizer.clip_and_accumulate`) -/
def batchSum (m : Mode R P) (batch : List (Grad R d)) : Grad R d :=
  batch.foldl (fun acc g => gadd acc (clipped m g)) gzero

/-- `if p.summed_grad is not None: p.summed_grad += grad else: p.summed_grad = grad` -/
def accumulate (sg : Option (Grad R d)) (grad : Grad R d) : Option (Grad R d) :=
  match sg with
  | none => some grad
  | some s => some (gadd s grad)

/-- `clip_and_accumulate()` on one physical batch -/
def clipAndAccumulate (m : Mode R P) (sg : Option (Grad R d)) (batch : List (Grad R d)) :
    Option (Grad R d) :=
  accumulate sg (batchSum m batch)

/-- `summed_grad` after `clip_and_accumulate()` on each physical batch in turn (what
`BatchMemoryManager` does: skipped steps keep `summed_grad`) -/
def accumulateAll (m : Mode R P) (batches : List (List (Grad R d))) : Option (Grad R d) :=
  batches.foldl (clipAndAccumulate m) none

end clip

/-! ### per-sample gradients inside a batch

`G batch i` is the gradient the grad-sample machinery attributes to position `i` of `batch`.  For a
model whose layers act row-wise this is a function of `batch[i]` alone (`SampleIndependent`); a
layer that mixes samples (BatchNorm) makes it depend on the whole batch. -/
section dependent
variable {R : Type} {P : Nat} {d : Fin P → Nat} {X : Type}

def gradSamples (G : List X → Nat → Grad R d) (batch : List X) : List (Grad R d) :=
  (List.range batch.length).map (G batch)

def SampleIndependent (G : List X → Nat → Grad R d) : Prop :=
  ∃ g : X → Grad R d, ∀ (batch : List X) (i : Nat) (h : i < batch.length), G batch i = g batch[i]

end dependent


/-! ### executable form

A `Grad` is a function, and compiled Lean re-evaluates a function-valued definition at every
application; the drivers therefore run the *same* definitions between array-backed stores
(`store`/`lookup`).  `Lemmas/ClipExec.lean` proves `lookup (store g) = g` and that every `…Exec`
function below is its model counterpart conjugated by `store`/`lookup`, so what the drivers execute
is what the theorems are about. -/
abbrev Store (R : Type) := Array (Array R)

section exec
variable {R : Type} {P : Nat}

def store {d : Fin P → Nat} (g : Grad R d) : Store R :=
  Array.ofFn fun k : Fin P => Array.ofFn fun i : Fin (d k) => g k i

def lookup [Zero R] (d : Fin P → Nat) (a : Store R) : Grad R d :=
  fun k i => (a.getD k.val #[]).getD i.val 0

def storeVec {n : Nat} (v : Fin n → R) : Array R := Array.ofFn v
def lookupVec [Zero R] {n : Nat} (a : Array R) : Fin n → R := fun i => a.getD i.val 0

variable [Add R] [Mul R] [Div R] [Zero R] [One R] [Min R] [OfScientific R] [HasSqrt R]

def clippedExec (d : Fin P → Nat) (m : Mode R P) (g : Store R) : Store R :=
  let cs := storeVec (factors m (lookup d g))
  store (gscale (lookupVec cs) (lookup d g))

def batchSumExec (d : Fin P → Nat) (m : Mode R P) (batch : List (Store R)) : Store R :=
  batch.foldl (fun acc g => store (gadd (lookup d acc) (lookup d (clippedExec d m g))))
    (store (gzero : Grad R d))

def accumulateExec (d : Fin P → Nat) (sg : Option (Store R)) (grad : Store R) : Option (Store R) :=
  match sg with
  | none => some grad
  | some s => some (store (gadd (lookup d s) (lookup d grad)))

def clipAndAccumulateExec (d : Fin P → Nat) (m : Mode R P) (sg : Option (Store R))
    (batch : List (Store R)) : Option (Store R) :=
  accumulateExec d sg (batchSumExec d m batch)

end exec

end Opacus.Clip
