import OpacusLean.Lemmas.RnnPadded
set_option linter.unusedSimpArgs false
namespace Opacus.Rnn
variable {α β γ V S : Type}

theorem seqOf_zipWith2 (f : α → β → γ) :
    ∀ (a : List (List α)) (b : List (List β)), a.map List.length = b.map List.length → ∀ i,
      seqOf (List.zipWith (List.zipWith f) a b) i = List.zipWith f (seqOf a i) (seqOf b i) := by
  intro a
  induction a with
  | nil => intro b _ i; simp [seqOf]
  | cons x a ih =>
    intro b hs i
    cases b with
    | nil => simp at hs
    | cons y b =>
      simp only [List.map_cons, List.cons.injEq] at hs
      obtain ⟨hxy, hab⟩ := hs
      simp only [List.zipWith_cons_cons]
      cases hxi : x[i]? with
      | some u =>
        have hi : i < y.length := by rw [← hxy]; exact lt_of_getElem?_eq_some hxi
        have hyi : y[i]? = some y[i] := List.getElem?_eq_getElem hi
        have hz : (List.zipWith f x y)[i]? = some (f u y[i]) := by
          simp [List.getElem?_zipWith, hxi, hyi]
        rw [seqOf_cons_some hz, seqOf_cons_some hxi, seqOf_cons_some hyi, ih b hab i]
        rfl
      | none =>
        have hi : y.length ≤ i := by rw [← hxy]; exact List.getElem?_eq_none_iff.mp hxi
        have hyi : y[i]? = none := List.getElem?_eq_none_iff.mpr hi
        have hz : (List.zipWith f x y)[i]? = none := by
          simp [List.getElem?_zipWith, hxi]
        rw [seqOf_cons_none hz, seqOf_cons_none hxi, seqOf_cons_none hyi, ih b hab i]

theorem shape_zipWith2 (f : α → β → γ) :
    ∀ (a : List (List α)) (b : List (List β)), a.map List.length = b.map List.length →
      (List.zipWith (List.zipWith f) a b).map List.length = a.map List.length := by
  intro a
  induction a with
  | nil => intro b _; simp
  | cons x a ih =>
    intro b hs
    cases b with
    | nil => simp at hs
    | cons y b =>
      simp only [List.map_cons, List.cons.injEq] at hs
      simp [List.length_zipWith, hs.1, ih b hs.2]

theorem seqOf_map2 (g : α → β) (a : List (List α)) (i : Nat) :
    seqOf (a.map (·.map g)) i = (seqOf a i).map g := by
  induction a with
  | nil => rfl
  | cons x a ih =>
    cases hxi : x[i]? with
    | some u =>
      have : (x.map g)[i]? = some (g u) := by simp [hxi]
      rw [List.map_cons, seqOf_cons_some this, seqOf_cons_some hxi, ih]; rfl
    | none =>
      have : (x.map g)[i]? = none := by simp [hxi]
      rw [List.map_cons, seqOf_cons_none this, seqOf_cons_none hxi, ih]

theorem shape_map2 (g : α → β) (a : List (List α)) :
    (a.map (·.map g)).map List.length = a.map List.length := by
  simp [List.map_map, Function.comp_def]

/-- row `i` of every tensor in a list of `[B, ·]` tensors -/
def RowOf (hs : List (List S)) (i : Nat) (row : List S) : Prop := hs.map (·[i]?) = row.map some

theorem RowOf.get {hs : List (List S)} {i : Nat} {row : List S} (h : RowOf hs i row) {k : Nat} {t : List S}
    (hk : hs[k]? = some t) : ∃ s, row[k]? = some s ∧ t[i]? = some s := by
  have := congrArg (·[k]?) h
  simp only [List.getElem?_map, hk, Option.map_some] at this
  cases hr : row[k]? with
  | none => rw [hr] at this; simp at this
  | some s => rw [hr] at this; exact ⟨s, rfl, by simpa using this⟩

theorem RowOf.append {hs hs' : List (List S)} {i : Nat} {row row' : List S} (h : RowOf hs i row)
    (h' : RowOf hs' i row') : RowOf (hs ++ hs') i (row ++ row') := by
  simp [RowOf] at *; rw [h, h']

/-- the layer × direction loop on a batch is, row by row, the same loop on single sequences -/
theorem layersLoop_refines (cfg : Cfg V S) (cast : S → S)
    (layerFn : (V → S → S) → List S → List (List V) → Bool → Option (List (List S) × List S))
    (B : Nat) (sh : List Nat) (hL : LayerRefines cast B sh layerFn) (bidir : Bool)
    (cells : List (V → S → S)) (h0s : List (List S)) (hh : ∀ h ∈ h0s, h.length = B) :
    ∀ (n l : Nat) (input : List (List V)) (acc : List (List S)),
      input.map List.length = sh →
      (if bidir then 2 else 1) * (l + n) ≤ cells.length →
      (if bidir then 2 else 1) * (l + n) ≤ h0s.length →
      ∃ o hs, layersLoop cfg layerFn bidir cells h0s n l input acc = some (o, hs) ∧
        o.map List.length = sh ∧
        hs.length = acc.length + (if bidir then 2 else 1) * n ∧
        ((∀ a ∈ acc, a.length = B) → ∀ a ∈ hs, a.length = B) ∧
        ∀ i s0s accI, RowOf h0s i s0s → RowOf acc i accI →
          ∃ so sf, specLoop cfg cast bidir cells s0s n l (seqOf input i) accI = some (so, sf) ∧
            seqOf o i = so ∧ RowOf hs i sf := by
  intro n
  induction n with
  | zero =>
    intro l input acc hsh _ _
    exact ⟨input, acc, rfl, hsh, by simp, fun h => h, fun i s0s accI _ hacc => ⟨_, _, rfl, rfl, hacc⟩⟩
  | succ n ih =>
    intro l input acc hsh hc hh0
    cases bidir with
    | false =>
      simp only [Bool.false_eq_true, if_false, Nat.one_mul] at hc hh0 ⊢
      have hcl : l < cells.length := by omega
      have hhl : l < h0s.length := by omega
      have hc0 : cells[l]? = some cells[l] := List.getElem?_eq_getElem hcl
      have hs0 : h0s[l]? = some h0s[l] := List.getElem?_eq_getElem hhl
      obtain ⟨o0, hl0, hrun, hosh, hlen, hrow⟩ := hL cells[l] h0s[l] input false (hh _ (List.getElem_mem hhl)) hsh
      obtain ⟨o, hs, hloop, hsho, hlen', hB, hspec⟩ :=
        ih (l + 1) (o0.map (·.map cfg.out)) (acc ++ [hl0]) (by rw [shape_map2, hosh])
          (by simp only [Bool.false_eq_true, if_false, Nat.one_mul]; omega)
          (by simp only [Bool.false_eq_true, if_false, Nat.one_mul]; omega)
      simp only [Bool.false_eq_true, if_false, Nat.one_mul] at hloop hlen' hspec
      refine ⟨o, hs, ?_, hsho, ?_, ?_, ?_⟩
      · simp only [layersLoop, Bool.false_eq_true, if_false, Nat.one_mul, hc0, hs0, hrun]
        exact hloop
      · rw [hlen']; simp; omega
      · intro ha; apply hB; intro a hmem
        rcases List.mem_append.mp hmem with h | h
        · exact ha a h
        · simp at h; subst h; exact hlen
      · intro i s0s accI hr0 hracc
        obtain ⟨s0, hs0i, hrow0⟩ := hr0.get hs0
        obtain ⟨hseq, hlast⟩ := hrow i s0 hrow0
        have hracc' : RowOf (acc ++ [hl0]) i (accI ++ [cast (specDir cells[l] s0 (seqOf input i) false).2]) := by
          apply hracc.append; simp [RowOf, hlast]
        obtain ⟨so, sf, hsl, hso, hsf⟩ := hspec i s0s _ hr0 hracc'
        refine ⟨so, sf, ?_, hso, hsf⟩
        simp only [specLoop, Bool.false_eq_true, if_false, Nat.one_mul, hc0, hs0i]
        rw [← hsl, seqOf_map2, hseq]
    | true =>
      simp only [if_true] at hc hh0 ⊢
      have hcl : 2 * l + 1 < cells.length := by omega
      have hhl : 2 * l + 1 < h0s.length := by omega
      have hc0 : cells[2 * l]? = some cells[2 * l] := List.getElem?_eq_getElem (by omega)
      have hs0 : h0s[2 * l]? = some h0s[2 * l] := List.getElem?_eq_getElem (by omega)
      have hc1 : cells[2 * l + 1]? = some cells[2 * l + 1] := List.getElem?_eq_getElem hcl
      have hs1 : h0s[2 * l + 1]? = some h0s[2 * l + 1] := List.getElem?_eq_getElem hhl
      obtain ⟨o0, hl0, hrun0, hosh0, hlen0, hrow0⟩ :=
        hL cells[2 * l] h0s[2 * l] input false (hh _ (List.getElem_mem (by omega))) hsh
      obtain ⟨o1, hl1, hrun1, hosh1, hlen1, hrow1⟩ :=
        hL cells[2 * l + 1] h0s[2 * l + 1] input true (hh _ (List.getElem_mem hhl)) hsh
      have hsame : o0.map List.length = o1.map List.length := by rw [hosh0, hosh1]
      obtain ⟨o, hs, hloop, hsho, hlen', hB, hspec⟩ :=
        ih (l + 1) (List.zipWith (List.zipWith fun a b => cfg.cat (cfg.out a) (cfg.out b)) o0 o1)
          (acc ++ [hl0, hl1]) (by rw [shape_zipWith2 _ _ _ hsame, hosh0])
          (by simp only [if_true]; omega) (by simp only [if_true]; omega)
      simp only [if_true] at hloop hlen' hspec
      refine ⟨o, hs, ?_, hsho, ?_, ?_, ?_⟩
      · simp only [layersLoop, if_true, hc0, hs0, hrun0, hc1, hs1, hrun1]
        exact hloop
      · rw [hlen']; simp; omega
      · intro ha; apply hB; intro a hmem
        rcases List.mem_append.mp hmem with h | h
        · exact ha a h
        · simp at h; rcases h with h | h
          · subst h; exact hlen0
          · subst h; exact hlen1
      · intro i s0s accI hr0 hracc
        obtain ⟨s0, hs0i, hr00⟩ := hr0.get hs0
        obtain ⟨s1, hs1i, hr01⟩ := hr0.get hs1
        obtain ⟨hseq0, hlast0⟩ := hrow0 i s0 hr00
        obtain ⟨hseq1, hlast1⟩ := hrow1 i s1 hr01
        have hracc' : RowOf (acc ++ [hl0, hl1]) i
            (accI ++ [cast (specDir cells[2 * l] s0 (seqOf input i) false).2,
                      cast (specDir cells[2 * l + 1] s1 (seqOf input i) true).2]) := by
          apply hracc.append; simp [RowOf, hlast0, hlast1]
        obtain ⟨so, sf, hsl, hso, hsf⟩ := hspec i s0s _ hr0 hracc'
        refine ⟨so, sf, ?_, hso, hsf⟩
        simp only [specLoop, if_true, hc0, hs0i, hc1, hs1i]
        rw [← hsl, seqOf_zipWith2 _ _ _ hsame, hseq0, hseq1]

end Opacus.Rnn
