import OpacusLean.Lemmas.Validate
/-! What the registered fixers return (used by the theorems about `ModuleValidator.fix`). -/
namespace Opacus.Validate

/-- no registered validator complains about this node -/
def okNode (i : Info) : Bool := (nodeErrs i).isEmpty
/-- none of the node's objects (module, parameters, buffers) belongs to the caller -/
def freshNode (i : Info) : Bool := i.oids.all (fun o => !o.isOrig)

theorem okNode_name (i : Info) (a : Name) : okNode { i with name := a } = okNode i := rfl
theorem freshNode_name (i : Info) (a : Name) : freshNode { i with name := a } = freshNode i := rfl

theorem okNode_iff {i : Info} : okNode i = true ↔ nodeErrs i = [] := by simp [okNode]

theorem not_registered {ty : Ty} (h1 : isBN ty = false) (h2 : isIN ty = false) (h3 : ty ≠ .lstm) (h4 : ty ≠ .mha) :
    fixerKeys.contains ty = false := by
  cases ty <;> simp_all [fixerKeys, isBN, isIN]

theorem okNode_of_not_registered {i : Info} (h : fixerKeys.contains i.ty = false) : okNode i = true := by
  obtain ⟨nm, o, ty, ps, bs, tr, cf⟩ := i
  cases ty <;> simp_all [fixerKeys, okNode, nodeErrs, validatorOf, isBN, isIN]

theorem fixBN_spec {kw : Kw} {g : Nat} {m r : Tree} (h : fixBN kw g m = .ok r) :
    r.kids = .nil ∧ okNode r.info = true ∧ r.info.training = true ∧ freshNode r.info = true := by
  unfold fixBN at h
  simp only at h
  split at h
  · cases h
  · split at h
    · split at h
      · cases h
      · rename_i ty hty
        cases h
        refine ⟨rfl, ?_, rfl, rfl⟩
        cases hm : m.info.ty <;> simp [hm, bnToIn] at hty <;> subst hty <;> rfl
    · split at h
      · cases h
      · split at h
        · cases h
        · cases h
          refine ⟨rfl, rfl, rfl, ?_⟩
          cases m.info.cfg.affine <;> rfl

theorem fixIN_spec {v : Variant} {kw : Kw} {g : Nat} {m r : Tree} (h : fixIN v kw g m = .ok r)
    (hin : isIN m.info.ty = true) :
    okNode r.info = true ∧ r.info.training = m.info.training ∧ (r.kids = m.kids ∨ ∃ f, r.kids = m.kids.mapOid f) ∧
    (m.all freshNode = true → r.all freshNode = true) := by
  unfold fixIN at h
  split at h
  · cases h
  · split at h
    · rename_i htrs
      cases h
      refine ⟨?_, rfl, Or.inl rfl, id⟩
      have : m.info.cfg.trs = false := by simpa using htrs
      obtain ⟨⟨nm, o, ty, ps, bs, tr, cf⟩, ck⟩ := m
      simp only at this hin
      cases ty <;> simp_all [okNode, nodeErrs, validatorOf, isBN, isIN]
    · cases h
      refine ⟨?_, ?_, Or.inr ⟨.clone g, rfl⟩, ?_⟩
      · obtain ⟨⟨nm, o, ty, ps, bs, tr, cf⟩, ck⟩ := m
        simp only at hin
        cases ty <;> simp_all [okNode, nodeErrs, validatorOf, isBN, isIN, cloneModule, Tree.mapOid, Info.mapOid] <;>
          split <;> simp
      · simp only [cloneModule, Tree.mapOid]
        split <;> rfl
      · intro _
        simp only [Tree.all, Bool.and_eq_true, cloneModule, Tree.mapOid, Forest.all_mapOid]
        constructor
        · split <;> simp [freshNode, Info.oids, Info.mapOid, Oid.isOrig, List.all_map, Function.comp_def]
        · have : (fun i : Info => freshNode (i.mapOid (Oid.clone g))) = fun _ => true := by
            funext i
            simp [freshNode, Info.oids, Info.mapOid, Oid.isOrig, List.all_map, Function.comp_def]
          rw [this]
          generalize m.kids = k
          induction k with
          | nil => rfl
          | cons i kk r ihk ihr => simp [Forest.all, ihk, ihr]


/-! ### DPMultiheadAttention -/

theorem dpmhaTree_spec (g : Nat) (cfg : Cfg) (x : MhaVals) :
    okNode (dpmhaTree g cfg x).info = true ∧ (dpmhaTree g cfg x).info.training = true ∧
    (dpmhaTree g cfg x).kids.wf = true ∧ (dpmhaTree g cfg x).kids.all okNode = true ∧
    (dpmhaTree g cfg x).all freshNode = true := by
  obtain ⟨⟨qw, qb⟩, ⟨kw, kb⟩, ⟨vw, vb⟩, ⟨ow, ob⟩, sb⟩ := x
  refine ⟨rfl, rfl, ?_, ?_, ?_⟩
  · cases sb with
    | none => simp [dpmhaTree, Forest.ofList, Forest.wf, Forest.find, linearOf, leaf]
    | some p => simp [dpmhaTree, Forest.ofList, Forest.wf, Forest.find, linearOf, leaf]
  · cases sb with
    | none => rfl
    | some p => rfl
  · cases sb <;> cases qb <;> cases kb <;> cases vb <;> cases ob <;> rfl

theorem fixMHA_spec {v : Variant} {kw : Kw} {g : Nat} {m r : Tree} (h : fixMHA v kw g m = .ok r) :
    okNode r.info = true ∧ r.info.training = true ∧ r.kids.wf = true ∧ r.kids.all okNode = true ∧
    r.all freshNode = true := by
  unfold fixMHA at h
  split at h
  · cases h
  · simp only at h
    split at h
    · cases h
    · split at h
      · cases h
      · cases h
        exact dpmhaTree_spec _ _ _


/-! ### DPLSTM -/

theorem mapOpt_map {α β γ} {f : α → Option β} {g : β → γ} {h : α → γ} (hf : ∀ a b, f a = some b → g b = h a)
    {as : List α} {bs : List β} (hm : mapOpt f as = some bs) : bs.map g = as.map h := by
  induction as generalizing bs with
  | nil => simp only [mapOpt, Option.some.injEq] at hm; subst hm; rfl
  | cons a as ih =>
    simp only [mapOpt] at hm
    split at hm
    · rename_i b bs' hb hbs
      cases hm
      simp [hf a b hb, ih hbs]
    · cases hm

theorem mapOpt_mem {α β} {f : α → Option β} {as : List α} {bs : List β} (hm : mapOpt f as = some bs) :
    ∀ b ∈ bs, ∃ a, f a = some b := by
  induction as generalizing bs with
  | nil => simp only [mapOpt, Option.some.injEq] at hm; subst hm; simp
  | cons a as ih =>
    simp only [mapOpt] at hm
    split at hm
    · rename_i b bs' hb hbs
      cases hm
      intro x hx
      simp only [List.mem_cons] at hx
      rcases hx with rfl | hx
      · exact ⟨a, hb⟩
      · exact ih hbs x hx
    · cases hm

theorem lstmCells_lt {l : Nat} {b : Bool} {c : Nat × Bool} (h : c ∈ lstmCells l b) : c.1 < l := by
  induction l with
  | zero => simp [lstmCells] at h
  | succ l ih =>
    simp only [lstmCells, List.mem_append] at h
    rcases h with h | h
    · exact Nat.lt_succ_of_lt (ih h)
    · cases b
      · simp at h; simp [h]
      · simp at h; rcases h with h | h <;> simp [h]

theorem lstmCells_nodup (l : Nat) (b : Bool) : ((lstmCells l b).map (fun c => Name.cell c.1 c.2)).Nodup := by
  induction l with
  | zero => simp [lstmCells]
  | succ l ih =>
    simp only [lstmCells, List.map_append, List.nodup_append]
    refine ⟨ih, ?_, ?_⟩
    · cases b <;> simp
    · intro x hx y hy hxy
      subst hxy
      simp only [List.mem_map] at hx
      obtain ⟨c, hc, rfl⟩ := hx
      have := lstmCells_lt hc
      cases b <;> simp at hy <;> omega

def CellParams.fresh (p : CellParams) : Bool := p.list.all (fun q => !q.oid.isOrig)

theorem cellParams_spec {g : Nat} {sd : List (String × Val)} {bias : Bool} {c : Nat × Bool} {p : CellParams}
    (h : cellParams g sd bias c = some p) : p.layer = c.1 ∧ p.rev = c.2 ∧ p.fresh = true := by
  simp only [cellParams] at h
  split at h
  · rename_i wih whh bih bhh _ _ _ _
    simp only [Option.some.injEq] at h
    subst h
    refine ⟨rfl, rfl, ?_⟩
    cases bih <;> cases bhh <;> rfl
  · cases h

theorem dplstmCell_ok (g : Nat) (p : CellParams) :
    (dplstmCell g p).info.name = .cell p.layer p.rev ∧ (dplstmCell g p).kids.wf = true ∧
    (dplstmCell g p).all okNode = true := by
  refine ⟨rfl, ?_, ?_⟩
  · simp [dplstmCell, Forest.ofList, Forest.wf, Forest.find, rnnLinear, leaf]
  · rfl

theorem dplstmCell_fresh (g : Nat) {p : CellParams} (hp : p.fresh = true) : (dplstmCell g p).all freshNode = true := by
  obtain ⟨l, rv, wih, bih, whh, bhh⟩ := p
  cases bih <;> cases bhh <;>
    simp_all [CellParams.fresh, CellParams.list, dplstmCell, Tree.all, Forest.ofList, Forest.all, rnnLinear, leaf,
      freshNode, Info.oids, Oid.isOrig]

theorem fixLSTM_spec {v : Variant} {kw : Kw} {g : Nat} {m r : Tree} (h : fixLSTM v kw g m = .ok r) :
    okNode r.info = true ∧ r.info.training = true ∧ r.kids.wf = true ∧ r.kids.all okNode = true ∧
    r.all freshNode = true := by
  unfold fixLSTM at h
  split at h
  · cases h
  · simp only at h
    split at h
    · cases h
    · split at h
      · cases h
      · rename_i cps hcps
        cases h
        have hnames : (cps.map (fun p => Name.cell p.layer p.rev)) =
            (lstmCells m.info.cfg.numLayers m.info.cfg.bidir).map (fun c => Name.cell c.1 c.2) :=
          mapOpt_map (fun a b hab => by
            obtain ⟨h1, h2, _⟩ := cellParams_spec hab
            simp [h1, h2]) hcps
        have hfresh : ∀ p ∈ cps, p.fresh = true := fun p hp => by
          obtain ⟨a, ha⟩ := mapOpt_mem hcps p hp
          exact (cellParams_spec ha).2.2
        refine ⟨rfl, rfl, ?_, ?_, ?_⟩
        · simp only [dplstmTree]
          apply Forest.wf_ofList
          · simp only [List.map_append, List.map_map, Function.comp_def, (dplstmCell_ok g _).1]
            rw [hnames]
            rw [List.nodup_append]
            refine ⟨?_, lstmCells_nodup _ _, ?_⟩
            · split <;> simp
            · intro x hx y hy hxy
              subst hxy
              split at hx
              · simp [leaf] at hx
                subst hx
                simp at hy
              · simp at hx
          · intro t ht
            simp only [List.mem_append, List.mem_map] at ht
            rcases ht with ht | ⟨p, _, rfl⟩
            · split at ht
              · simp at ht; subst ht; rfl
              · simp at ht
            · exact (dplstmCell_ok g p).2.1
        · simp only [dplstmTree, Forest.all_ofList, List.all_append, Bool.and_eq_true, List.all_eq_true]
          constructor
          · intro t ht
            split at ht
            · simp at ht; subst ht; rfl
            · simp at ht
          · intro t ht
            simp only [List.mem_map] at ht
            obtain ⟨p, _, rfl⟩ := ht
            exact (dplstmCell_ok g p).2.2
        · simp only [dplstmTree, Tree.all, Forest.all_ofList, List.all_append, Bool.and_eq_true, List.all_eq_true]
          refine ⟨?_, ?_, ?_⟩
          · simp only [freshNode, Info.oids, List.all_cons, Oid.isOrig, Bool.not_false, Bool.true_and, List.all_append,
              List.map_nil, List.all_nil, Bool.and_true, List.all_map, List.all_eq_true, List.mem_flatMap]
            rintro q ⟨p, hp, hq⟩
            have := hfresh p hp
            simp only [CellParams.fresh, List.all_eq_true] at this
            simpa [Function.comp_def, Oid.isOrig] using this q hq
          · intro t ht
            split at ht
            · simp at ht; subst ht; exact ⟨rfl, rfl⟩
            · simp at ht
          · intro t ht
            simp only [List.mem_map] at ht
            obtain ⟨p, hp, rfl⟩ := ht
            simpa [Tree.all] using dplstmCell_fresh g (hfresh p hp)


/-! ### every registered fixer -/

theorem fixer_spec {v : Variant} {kw : Kw} {g : Nat} {m r : Tree} (h : fixer v kw g m = .ok r)
    (hty : fixerKeys.contains m.info.ty = true) :
    okNode r.info = true ∧ (m.info.training = true → r.info.training = true) ∧
    (m.kids.wf = true → r.kids.wf = true) ∧
    (r.kids.all okNode = true ∨ r.kids = m.kids ∨ ∃ f, r.kids = m.kids.mapOid f) ∧
    (m.all freshNode = true → r.all freshNode = true) := by
  unfold fixer at h
  split at h
  · obtain ⟨h1, h2, h3, h4⟩ := fixBN_spec h
    refine ⟨h2, fun _ => h3, fun _ => by rw [h1]; rfl, Or.inl (by rw [h1]; rfl), fun _ => ?_⟩
    simp [Tree.all, h1, h4, Forest.all]
  · split at h
    · rename_i hin
      obtain ⟨h1, h2, h3, h4⟩ := fixIN_spec h hin
      refine ⟨h1, fun ht => by rw [h2, ht], fun hw => ?_, Or.inr h3, h4⟩
      rcases h3 with h3 | ⟨f, h3⟩
      · rw [h3]; exact hw
      · rw [h3, Forest.wf_mapOid]; exact hw
    · split at h
      · obtain ⟨h1, h2, h3, h4, h5⟩ := fixLSTM_spec h
        exact ⟨h1, fun _ => h2, fun _ => h3, Or.inl h4, fun _ => h5⟩
      · split at h
        · obtain ⟨h1, h2, h3, h4, h5⟩ := fixMHA_spec h
          exact ⟨h1, fun _ => h2, fun _ => h3, Or.inl h4, fun _ => h5⟩
        · rename_i h1 h2 h3 h4
          have := not_registered (by simpa using h1) (by simpa using h2) h3 h4
          rw [this] at hty
          cases hty

/-! ### `module.train(mode)` on a replacement -/

theorem find_setMode (b : Bool) (a : Name) (k : Forest) :
    (k.setMode b).find a = (k.find a).map (setMode b) := by
  induction k with
  | nil => rfl
  | cons i kk r _ ihr =>
    simp only [Forest.setMode, Forest.find]
    split
    · rfl
    · exact ihr

theorem subAt_setMode (b : Bool) (q : Path) (t : Tree) : subAt q (setMode b t) = (subAt q t).map (setMode b) := by
  induction q generalizing t with
  | nil => rfl
  | cons a q ih =>
    simp only [subAt_cons, setMode, find_setMode]
    cases t.kids.find a with
    | none => rfl
    | some c => simpa using ih c

theorem forest_all_setMode (P : Info → Bool) (hP : ∀ i b, P { i with training := b } = P i) (b : Bool) (k : Forest) :
    (k.setMode b).all P = k.all P := by
  induction k with
  | nil => rfl
  | cons i kk r ihk ihr => simp [Forest.setMode, Forest.all, hP, ihk, ihr]

theorem tree_all_setMode (P : Info → Bool) (hP : ∀ i b, P { i with training := b } = P i) (b : Bool) (t : Tree) :
    (setMode b t).all P = t.all P := by
  simp [Tree.all, setMode, hP, forest_all_setMode P hP]

theorem forest_wf_setMode (b : Bool) (k : Forest) : (k.setMode b).wf = k.wf := by
  induction k with
  | nil => rfl
  | cons i kk r ihk ihr =>
    simp only [Forest.setMode, Forest.wf, find_setMode, Option.isNone_map, ihk, ihr]

theorem subAt_installed (v : Variant) (m r : Tree) (q : Path) :
    subAt q (installed v m r) = (subAt q r).map (fun s => installed v m s) := by
  unfold installed
  split
  · exact subAt_setMode _ q r
  · simp

theorem installed_info_modulo_mode (v : Variant) (m s : Tree) :
    ∃ b, (installed v m s).info = { s.info with training := b } := by
  unfold installed
  split
  · exact ⟨_, rfl⟩
  · exact ⟨s.info.training, rfl⟩

/-! ### the loop of `ModuleValidator.fix` -/

theorem replaceSub_eq (t : Tree) (p : Path) (r : Tree) : replaceSub t p r = replaceAt p t r := by
  cases p <;> simp [replaceSub, replaceAt]

/-- induction principle for `fixLoop`: an invariant of the pair (names still to visit, working tree) -/
theorem fixLoop_inv {v : Variant} {kw : Kw} (Inv : List Path → Tree → Prop)
    (hfix : ∀ p ps t g m r t1, Inv (p :: ps) t → subAt p t = some m → fixerKeys.contains m.info.ty = true →
      fixer v kw g m = .ok r → replaceAt p t (installed v m r) = some t1 → Inv ps t1)
    (hskip : ∀ p ps t m, Inv (p :: ps) t → subAt p t = some m → fixerKeys.contains m.info.ty = false → Inv ps t) :
    ∀ ps t g t', Inv ps t → fixLoop v kw ps t g = .ok t' → Inv [] t' := by
  intro ps
  induction ps with
  | nil => intro t g t' hI h; simp only [fixLoop] at h; cases h; exact hI
  | cons p ps ih =>
    intro t g t' hI h
    simp only [fixLoop] at h
    split at h
    · cases h
    · rename_i m hm
      split at h
      · rename_i hty
        split at h
        · cases h
        · rename_i r hr
          rw [replaceSub_eq] at h
          split at h
          · cases h
          · rename_i t1 ht1
            exact ih t1 (g + 1) t' (hfix p ps t g m r t1 hI hm hty hr ht1) h
      · rename_i hty
        exact ih t (g + 1) t' (hskip p ps t m hI hm (by simpa using hty)) h

theorem wf_subAt {p : Path} {t m : Tree} (hw : t.WF) (h : subAt p t = some m) : m.WF := by
  induction p generalizing t with
  | nil => simp only [subAt_nil, Option.some.injEq] at h; subst h; exact hw
  | cons a p ih =>
    simp only [subAt_cons] at h
    cases hc : t.kids.find a with
    | none => simp [hc] at h
    | some c =>
      simp only [hc, Option.bind_some] at h
      exact ih (Forest.wf_find hw hc) h

theorem subAt_kids_eq {q : Path} (hq : q ≠ []) {r m : Tree} (hk : r.kids = m.kids) : subAt q r = subAt q m := by
  cases q with
  | nil => exact absurd rfl hq
  | cons a q => simp [subAt_cons, hk]

/-- the modules a pass visits -/
def walkedP (v : Variant) (i : Info) : Bool := v.walkAll || i.trainable
/-- a visited module some registered validator complains about -/
def badNode (v : Variant) (i : Info) : Bool := walkedP v i && !okNode i

theorem badNode_mapOid (v : Variant) (f : Oid → Oid) (i : Info) : badNode v (i.mapOid f) = badNode v i := by
  simp [badNode, walkedP, okNode]

/-- invariant for `fix_then_validate_ok`: every module that would still fail validation is on the
list of names yet to be visited -/
def InvV (v : Variant) (ps : List Path) (t : Tree) : Prop :=
  t.WF ∧ t.info.training = true ∧ ∀ q s, subAt q t = some s → badNode v s.info = true → q ∈ ps

theorem badNode_training (v : Variant) (i : Info) (b : Bool) : badNode v { i with training := b } = badNode v i := rfl

theorem installed_okNode (v : Variant) (m r : Tree) : okNode (installed v m r).info = okNode r.info := by
  obtain ⟨b, hb⟩ := installed_info_modulo_mode v m r
  rw [hb]; rfl

theorem installed_kids_wf (v : Variant) (m r : Tree) : (installed v m r).kids.wf = r.kids.wf := by
  unfold installed
  split
  · exact forest_wf_setMode _ _
  · rfl

theorem installed_training (v : Variant) (m r : Tree) (h : m.info.training = true → r.info.training = true) :
    m.info.training = true → (installed v m r).info.training = true := by
  intro hm
  unfold installed
  split
  · simpa [setMode] using hm
  · exact h hm

theorem invV_fix {v : Variant} {kw : Kw} (p : Path) (ps : List Path) (t : Tree) (g : Nat) (m r t1 : Tree)
    (hI : InvV v (p :: ps) t) (hm : subAt p t = some m) (hty : fixerKeys.contains m.info.ty = true)
    (hf : fixer v kw g m = .ok r) (hr : replaceAt p t (installed v m r) = some t1) : InvV v ps t1 := by
  obtain ⟨hw, htr, hbad⟩ := hI
  obtain ⟨hok, htrain, hwf, hkids, _⟩ := fixer_spec hf hty
  have hmw : m.WF := wf_subAt hw hm
  refine ⟨wf_replaceAt hw (by unfold Tree.WF; rw [installed_kids_wf]; exact hwf hmw) hr, ?_, ?_⟩
  · cases p with
    | nil =>
      simp only [replaceAt, Option.some.injEq] at hr
      simp only [subAt_nil, Option.some.injEq] at hm
      subst hr hm
      exact installed_training v _ r htrain htr
    | cons a p => rw [replaceAt_info (by simp) hr]; exact htr
  · intro q s hq hb
    have hne : ∀ q', q' ≠ [] → p ++ q' ∈ p :: ps → p ++ q' ∈ ps := by
      intro q' hq' hmem
      simp only [List.mem_cons] at hmem
      rcases hmem with h | h
      · exact absurd (by simpa using h) hq'
      · exact h
    by_cases hpq : p <+: q
    · obtain ⟨q', rfl⟩ := hpq
      obtain ⟨a, ha⟩ := subAt_replaceAt_prefix hr q'
      rw [ha] at hq
      by_cases hq' : q' = []
      · subst hq'
        simp only [subAt_nil, Option.some.injEq] at hq
        subst hq
        simp [badNode, Tree.setName, okNode_name, installed_okNode, hok] at hb
      · rw [subAt_setName _ _ _ hq', subAt_installed] at hq
        simp only [Option.map_eq_some_iff] at hq
        obtain ⟨s1, hq, rfl⟩ := hq
        have hb : badNode v s1.info = true := by
          obtain ⟨b, hbb⟩ := installed_info_modulo_mode v m s1
          rw [hbb, badNode_training] at hb
          exact hb
        rcases hkids with hk | hk | ⟨f, hk⟩
        · have hall : r.all okNode = true := by simp [Tree.all, hok, hk]
          have := all_subAt hall hq
          simp only [Tree.all, Bool.and_eq_true] at this
          simp [badNode, this.1] at hb
        · rw [subAt_kids_eq hq' hk] at hq
          apply hne q' hq'
          exact hbad _ s1 (by rw [subAt_append, hm]; exact hq) hb
        · have : subAt q' r = subAt q' (m.mapOid f) := subAt_kids_eq hq' (by simp [Tree.mapOid, hk])
          rw [this, subAt_mapOid] at hq
          simp only [Option.map_eq_some_iff] at hq
          obtain ⟨s0, hs0, rfl⟩ := hq
          apply hne q' hq'
          refine hbad _ s0 (by rw [subAt_append, hm]; exact hs0) ?_
          simpa [Tree.mapOid, badNode_mapOid] using hb
    · have hi := infoAt_replaceAt_other hr hpq
      simp only [infoAt, hq, Option.map_some] at hi
      cases hs0 : subAt q t with
      | none => simp [hs0] at hi
      | some s0 =>
        simp only [hs0, Option.map_some, Option.some.injEq] at hi
        have := hbad q s0 hs0 (by rw [← hi]; exact hb)
        simp only [List.mem_cons] at this
        rcases this with h | h
        · exact absurd (h ▸ List.prefix_refl p) hpq
        · exact h

theorem invV_skip {v : Variant} (p : Path) (ps : List Path) (t m : Tree)
    (hI : InvV v (p :: ps) t) (hm : subAt p t = some m) (hty : fixerKeys.contains m.info.ty = false) : InvV v ps t := by
  obtain ⟨hw, htr, hbad⟩ := hI
  refine ⟨hw, htr, fun q s hq hb => ?_⟩
  have := hbad q s hq hb
  simp only [List.mem_cons] at this
  rcases this with h | h
  · subst h
    rw [hm] at hq
    cases hq
    simp [badNode, okNode_of_not_registered hty] at hb
  · exact h

end Opacus.Validate
