import OpacusLean.Model.RnnCells
set_option linter.unusedSimpArgs false
namespace Opacus.Rnn

/-! ### parameter names -/

theorem perm_flatMap_of_forall {α β : Type} {l : List α} {f g : α → List β} (h : ∀ a ∈ l, (f a).Perm (g a)) :
    (l.flatMap f).Perm (l.flatMap g) := by
  induction l with
  | nil => exact List.Perm.refl _
  | cons a l ih =>
    simp only [List.flatMap_cons]
    exact List.Perm.append (h a (by simp)) (ih (fun b hb => h b (by simp [hb])))

theorem filterMap_eq_map_of_forall {α β : Type} {l : List α} {f : α → Option β} {g : α → β}
    (h : ∀ a ∈ l, f a = some (g a)) : l.filterMap f = l.map g := by
  induction l with
  | nil => rfl
  | cons a l ih =>
    rw [List.filterMap_cons, h a (by simp), List.map_cons, ih (fun b hb => h b (by simp [hb]))]


/-- the `torch.nn` name of a cell parameter -/
def toFlat : PName → PName
  | .cell l r m c => .flat c m l r
  | p => p

theorem renameMap_mem {L : Nat} {bidir bias : Bool} {e : PName × PName} (h : e ∈ renameMap L bidir bias) :
    ∃ l d m c, e = (PName.cell l d m c, PName.flat c m l d) := by
  simp only [renameMap, List.mem_flatMap, List.mem_map] at h
  obtain ⟨l, _, d, _, c, _, m, _, rfl⟩ := h
  exact ⟨l, d, m, c, rfl⟩

theorem moduleParams_mem {L : Nat} {bidir bias : Bool} {p : PName} (h : p ∈ moduleParams L bidir bias) :
    (p, toFlat p) ∈ renameMap L bidir bias ∧ ∃ l d m c, p = PName.cell l d m c := by
  simp only [moduleParams, cellParams, List.mem_flatMap] at h
  obtain ⟨l, hl, d, hd, m, hm, hp⟩ := h
  simp only [renameMap, List.mem_flatMap, List.mem_map]
  rcases List.mem_cons.mp hp with rfl | hp
  · exact ⟨⟨l, hl, d, hd, .weight, by simp, m, hm, rfl⟩, _, _, _, _, rfl⟩
  · cases bias with
    | false => simp at hp
    | true =>
      simp at hp; subst hp
      exact ⟨⟨l, hl, d, hd, .bias, by simp, m, hm, rfl⟩, _, _, _, _, rfl⟩

theorem lookup_moduleParam {L : Nat} {bidir bias : Bool} {p : PName} (h : p ∈ moduleParams L bidir bias) :
    lookup (renameMap L bidir bias) p = some (toFlat p) := by
  obtain ⟨hmem, _⟩ := moduleParams_mem h
  unfold lookup
  cases hf : (renameMap L bidir bias).find? (fun e => e.1 = p) with
  | none =>
    have := List.find?_eq_none.mp hf (p, toFlat p) hmem
    simp at this
  | some e =>
    have he : e.1 = p := by simpa using List.find?_some hf
    obtain ⟨l, d, m, c, rfl⟩ := renameMap_mem (List.mem_of_find?_eq_some hf)
    simp at he; subst he; rfl

theorem lookup_flat (L : Nat) (bidir bias : Bool) (c : Comp) (m : Mat) (l : Nat) (r : Bool) :
    lookup (renameMap L bidir bias) (PName.flat c m l r) = none := by
  unfold lookup
  cases hf : (renameMap L bidir bias).find? (fun e => e.1 = PName.flat c m l r) with
  | none => rfl
  | some e =>
    have he : e.1 = PName.flat c m l r := by simpa using List.find?_some hf
    obtain ⟨l', d, m', c', rfl⟩ := renameMap_mem (List.mem_of_find?_eq_some hf)
    simp at he

/-- after the hook the DP layer's `state_dict` lists exactly its parameters under their torch names -/
theorem stateDictKeys_eq (L : Nat) (bidir bias : Bool) :
    stateDictKeys L bidir bias = (moduleParams L bidir bias).map toFlat := by
  unfold stateDictKeys registered
  simp only
  have h1 : (moduleParams L bidir bias).filterMap (lookup (renameMap L bidir bias)) =
      (moduleParams L bidir bias).map toFlat := by
    exact filterMap_eq_map_of_forall (fun p hp => lookup_moduleParam hp)
  rw [h1, List.filter_append]
  have h2 : (moduleParams L bidir bias).filter (fun k => (lookup (renameMap L bidir bias) k).isNone) = [] := by
    rw [List.filter_eq_nil_iff]
    intro p hp; simp [lookup_moduleParam hp]
  have h3 : ((moduleParams L bidir bias).map toFlat).filter (fun k => (lookup (renameMap L bidir bias) k).isNone) =
      (moduleParams L bidir bias).map toFlat := by
    rw [List.filter_eq_self]
    intro k hk
    obtain ⟨p, hp, rfl⟩ := List.mem_map.mp hk
    obtain ⟨_, l, d, m, c, rfl⟩ := moduleParams_mem hp
    simp [toFlat, lookup_flat]
  rw [h2, h3, List.append_nil]

theorem stateDictKeys_perm_torchKeys (L : Nat) (bidir bias : Bool) :
    (stateDictKeys L bidir bias).Perm (torchKeys L bidir bias) := by
  rw [stateDictKeys_eq]
  unfold moduleParams torchKeys
  rw [List.map_flatMap]
  apply perm_flatMap_of_forall
  intro l _
  rw [List.map_flatMap]
  apply perm_flatMap_of_forall
  intro d _
  cases bias
  · simp [cellParams, toFlat]
  · simp only [cellParams, toFlat, if_true, List.flatMap_cons, List.flatMap_nil, List.append_nil,
      List.cons_append, List.nil_append, List.map_cons, List.map_nil]
    exact List.Perm.cons _ (List.Perm.swap _ _ _)

/-- loading a value under a `state_dict` key writes the cell parameter of the same (layer, direction, matrix, component) -/
theorem aliasOf_stateDictKey {L : Nat} {bidir bias : Bool} {p : PName} (h : p ∈ moduleParams L bidir bias) :
    aliasOf (renameMap L bidir bias) (toFlat p) = some p := by
  obtain ⟨hmem, l, d, m, c, rfl⟩ := moduleParams_mem h
  unfold aliasOf
  cases hf : (renameMap L bidir bias).find? (fun e => e.2 = toFlat (PName.cell l d m c)) with
  | none =>
    have := List.find?_eq_none.mp hf _ hmem
    simp at this
  | some e =>
    have he : e.2 = toFlat (PName.cell l d m c) := by simpa using List.find?_some hf
    obtain ⟨l', d', m', c', rfl⟩ := renameMap_mem (List.mem_of_find?_eq_some hf)
    simp [toFlat] at he
    obtain ⟨rfl, rfl, rfl, rfl⟩ := he
    rfl

theorem shape_eq (I H G : Nat) (bidir : Bool) {L : Nat} {bias : Bool} {p : PName}
    (h : p ∈ moduleParams L bidir bias) : dpShape I H G bidir p = torchShape I H G bidir (toFlat p) := by
  simp only [moduleParams, cellParams, List.mem_flatMap] at h
  obtain ⟨l, hl, d, hd, m, hm, hp⟩ := h
  rcases List.mem_cons.mp hp with rfl | hp
  · cases m <;> simp [dpShape, torchShape, toFlat]
  · cases bias with
    | false => simp at hp
    | true => simp at hp; subst hp; cases m <;> simp [dpShape, torchShape, toFlat]

end Opacus.Rnn
