import OpacusLean.Model.Validate
/-! Path lemmas for the module-tree model: `find` / `modify`, `subAt` / `replaceAt`,
`named` ↔ `subAt`, preservation of `wf` and of node-wise predicates. -/
namespace Opacus.Validate

/-! ### find / modify -/

theorem Forest.find_name {k : Forest} {a : Name} {c : Tree} (h : k.find a = some c) : c.info.name = a := by
  induction k with
  | nil => simp [Forest.find] at h
  | cons i kk r _ ihr =>
    simp only [Forest.find] at h
    split at h
    · cases h; assumption
    · exact ihr h

theorem Forest.find_modify_same {k k' : Forest} {a : Name} {f : Tree → Option Tree}
    (h : k.modify a f = some k') :
    ∃ c c', k.find a = some c ∧ f c = some c' ∧ k'.find a = some (c'.setName a) := by
  induction k generalizing k' with
  | nil => simp [Forest.modify] at h
  | cons i kk r _ ihr =>
    simp only [Forest.modify] at h
    by_cases hia : i.name = a
    · simp only [hia, if_true, Option.map_eq_some_iff] at h
      obtain ⟨c', hc', rfl⟩ := h
      exact ⟨⟨i, kk⟩, c', by simp [Forest.find, hia], hc', by simp [Forest.find, Tree.setName]⟩
    · simp only [hia, if_false, Option.map_eq_some_iff] at h
      obtain ⟨r', hr', rfl⟩ := h
      obtain ⟨c, c', h1, h2, h3⟩ := ihr hr'
      exact ⟨c, c', by simp [Forest.find, hia, h1], h2, by simp [Forest.find, hia, h3]⟩

theorem Forest.find_modify_other {k k' : Forest} {a b : Name} {f : Tree → Option Tree}
    (h : k.modify a f = some k') (hb : b ≠ a) : k'.find b = k.find b := by
  induction k generalizing k' with
  | nil => simp [Forest.modify] at h
  | cons i kk r _ ihr =>
    simp only [Forest.modify] at h
    by_cases hia : i.name = a
    · simp only [hia, if_true, Option.map_eq_some_iff] at h
      obtain ⟨c', _, rfl⟩ := h
      have : ¬ a = b := fun h => hb h.symm
      simp [Forest.find, hia, this]
    · simp only [hia, if_false, Option.map_eq_some_iff] at h
      obtain ⟨r', hr', rfl⟩ := h
      simp [Forest.find, ihr hr']

theorem Forest.modify_isSome {k : Forest} {a : Name} {f : Tree → Option Tree} {c c' : Tree}
    (h : k.find a = some c) (hf : f c = some c') : ∃ k', k.modify a f = some k' := by
  induction k with
  | nil => simp [Forest.find] at h
  | cons i kk r _ ihr =>
    simp only [Forest.find] at h
    by_cases hia : i.name = a
    · simp only [hia, if_true, Option.some.injEq] at h
      subst h
      simp [Forest.modify, hia, hf]
    · simp only [hia, if_false] at h
      obtain ⟨r', hr'⟩ := ihr h
      simp [Forest.modify, hia, hr']

/-! ### subAt / replaceAt -/

@[simp] theorem subAt_nil (t : Tree) : subAt [] t = some t := rfl

theorem subAt_cons (a : Name) (p : Path) (t : Tree) : subAt (a :: p) t = (t.kids.find a).bind (subAt p) := rfl

theorem subAt_append (p q : Path) (t : Tree) : subAt (p ++ q) t = (subAt p t).bind (subAt q) := by
  induction p generalizing t with
  | nil => simp
  | cons a p ih =>
    simp only [List.cons_append, subAt_cons]
    cases t.kids.find a with
    | none => simp
    | some c => simp [ih]

theorem subAt_setName (q : Path) (r : Tree) (a : Name) (hq : q ≠ []) : subAt q (r.setName a) = subAt q r := by
  cases q with
  | nil => exact absurd rfl hq
  | cons b q => simp [subAt_cons, Tree.setName]

theorem replaceAt_info {n : Path} {t r t' : Tree} (hn : n ≠ []) (h : replaceAt n t r = some t') : t'.info = t.info := by
  cases n with
  | nil => exact absurd rfl hn
  | cons a n =>
    simp only [replaceAt, Option.map_eq_some_iff] at h
    obtain ⟨k, _, rfl⟩ := h
    rfl

/-- below the replaced name the new tree is the replacement (whose root carries the slot's key) -/
theorem subAt_replaceAt_prefix {n : Path} {t r t' : Tree} (h : replaceAt n t r = some t') (q : Path) :
    ∃ a, subAt (n ++ q) t' = subAt q (r.setName a) := by
  induction n generalizing t t' with
  | nil =>
    simp only [replaceAt, Option.some.injEq] at h
    subst h
    exact ⟨r.info.name, by simp [Tree.setName]⟩
  | cons a n ih =>
    simp only [replaceAt, Option.map_eq_some_iff] at h
    obtain ⟨k, hk, rfl⟩ := h
    obtain ⟨c, c', hc, hc', hk'⟩ := Forest.find_modify_same hk
    simp only [List.cons_append, subAt_cons, hk', Option.bind_some]
    obtain ⟨b, hb⟩ := ih hc'
    cases n with
    | nil =>
      simp only [replaceAt, Option.some.injEq] at hc'
      subst hc'
      exact ⟨a, by simp⟩
    | cons b' n' =>
      refine ⟨b, ?_⟩
      rw [← hb]
      simp [subAt_cons, Tree.setName]

/-- away from the replaced name every node keeps its own attributes -/
theorem infoAt_replaceAt_other {n : Path} {t r t' : Tree} (h : replaceAt n t r = some t') {p : Path}
    (hp : ¬ n <+: p) : infoAt p t' = infoAt p t := by
  induction n generalizing t t' p with
  | nil => exact absurd (List.nil_prefix) hp
  | cons a n ih =>
    simp only [replaceAt, Option.map_eq_some_iff] at h
    obtain ⟨k, hk, rfl⟩ := h
    cases p with
    | nil => rfl
    | cons b p =>
      simp only [infoAt, subAt_cons]
      by_cases hba : b = a
      · subst hba
        obtain ⟨c, c', hc, hc', hk'⟩ := Forest.find_modify_same hk
        have hp' : ¬ n <+: p := fun hh => hp (by simpa using hh)
        have := ih hc' hp'
        simp only [infoAt] at this
        rw [hk', hc]
        simp only [Option.bind_some]
        cases p with
        | nil =>
          have hn : n ≠ [] := fun hn => hp' (by simp [hn])
          have hnm := Forest.find_name hc
          obtain ⟨⟨nm, o, ty, ps, bs, tr, cf⟩, ck⟩ := c
          simp only at hnm
          subst hnm
          simp [Tree.setName, replaceAt_info hn hc']
        | cons b' p' =>
          rw [subAt_setName _ _ _ (by simp)]
          exact this
      · rw [Forest.find_modify_other hk hba]

theorem replaceAt_isSome {n : Path} {t m : Tree} (r : Tree) (h : subAt n t = some m) : ∃ t', replaceAt n t r = some t' := by
  induction n generalizing t with
  | nil => exact ⟨r, rfl⟩
  | cons a n ih =>
    simp only [subAt_cons] at h
    cases hc : t.kids.find a with
    | none => simp [hc] at h
    | some c =>
      simp only [hc, Option.bind_some] at h
      obtain ⟨c', hc'⟩ := ih h
      obtain ⟨k', hk'⟩ := Forest.modify_isSome (f := fun c => replaceAt n c r) hc hc'
      exact ⟨⟨t.info, k'⟩, by simp [replaceAt, hk']⟩


/-! ### named ↔ subAt -/

theorem Forest.named_cons (i : Info) (k r : Forest) :
    (Forest.cons i k r).named = (Tree.named ⟨i, k⟩).map (fun e => (i.name :: e.1, e.2)) ++ r.named := by
  simp [Forest.named, Tree.named]

theorem Forest.wf_find {k : Forest} {a : Name} {c : Tree} (hw : k.wf = true) (h : k.find a = some c) :
    c.kids.wf = true := by
  induction k with
  | nil => simp [Forest.find] at h
  | cons i kk r _ ihr =>
    simp only [Forest.wf, Bool.and_eq_true] at hw
    simp only [Forest.find] at h
    split at h
    · cases h; exact hw.1.2
    · exact ihr hw.2 h

/-- every entry of `named_modules()` below a node sits under the (first) child of its first name -/
theorem Forest.mem_named {k : Forest} (hw : k.wf = true) {p : Path} {s : Tree} (h : (p, s) ∈ k.named) :
    ∃ a q c, p = a :: q ∧ k.find a = some c ∧ (q, s) ∈ c.named := by
  induction k with
  | nil => simp [Forest.named] at h
  | cons i kk r _ ihr =>
    simp only [Forest.wf, Bool.and_eq_true] at hw
    rw [Forest.named_cons, List.mem_append] at h
    rcases h with h | h
    · simp only [List.mem_map, Prod.mk.injEq] at h
      obtain ⟨e, he, rfl, rfl⟩ := h
      exact ⟨i.name, e.1, ⟨i, kk⟩, rfl, by simp [Forest.find], he⟩
    · obtain ⟨a, q, c, rfl, hc, hq⟩ := ihr hw.2 h
      refine ⟨a, q, c, rfl, ?_, hq⟩
      have : i.name ≠ a := by
        intro hia
        rw [hia, hc] at hw
        simp at hw
      simp [Forest.find, this, hc]

theorem mem_named_of_find {k : Forest} {a : Name} {c : Tree} (h : k.find a = some c) {q : Path} {s : Tree}
    (hq : (q, s) ∈ c.named) : (a :: q, s) ∈ k.named := by
  induction k with
  | nil => simp [Forest.find] at h
  | cons i kk r _ ihr =>
    rw [Forest.named_cons, List.mem_append]
    simp only [Forest.find] at h
    split at h
    · cases h
      left
      simp only [List.mem_map, Prod.mk.injEq]
      exact ⟨(q, s), hq, by simp_all, rfl⟩
    · right; exact ihr h

/-- `get_submodule` finds what `named_modules` lists -/
theorem mem_named_of_subAt {p : Path} {t s : Tree} (h : subAt p t = some s) : (p, s) ∈ t.named := by
  induction p generalizing t with
  | nil => simp only [subAt_nil, Option.some.injEq] at h; subst h; simp [Tree.named]
  | cons a p ih =>
    simp only [subAt_cons] at h
    cases hc : t.kids.find a with
    | none => simp [hc] at h
    | some c =>
      simp only [hc, Option.bind_some] at h
      simp only [Tree.named, List.mem_cons]
      right
      exact mem_named_of_find hc (ih h)

/-- … and, when sibling names are distinct, nothing else -/
theorem subAt_of_mem_named {p : Path} {t s : Tree} (hw : t.WF) (h : (p, s) ∈ t.named) : subAt p t = some s := by
  induction p generalizing t with
  | nil =>
    simp only [Tree.named, List.mem_cons, Prod.mk.injEq, true_and] at h
    rcases h with h | h
    · simp [h]
    · obtain ⟨a, q, c, hp, _, _⟩ := Forest.mem_named hw h
      cases hp
  | cons a p ih =>
    simp only [Tree.named, List.mem_cons, Prod.mk.injEq] at h
    rcases h with h | h
    · cases h.1
    · obtain ⟨a', q, c, hp, hc, hq⟩ := Forest.mem_named hw h
      cases hp
      simp only [subAt_cons, hc, Option.bind_some]
      exact ih (Forest.wf_find hw hc) hq

/-! ### wf is preserved by replacement -/

theorem Forest.wf_modify {k k' : Forest} {a : Name} {f : Tree → Option Tree} (hw : k.wf = true)
    (hf : ∀ c c', f c = some c' → c.kids.wf = true → c'.kids.wf = true) (h : k.modify a f = some k') :
    k'.wf = true := by
  induction k generalizing k' with
  | nil => simp [Forest.modify] at h
  | cons i kk r _ ihr =>
    simp only [Forest.wf, Bool.and_eq_true] at hw
    simp only [Forest.modify] at h
    by_cases hia : i.name = a
    · simp only [hia, if_true, Option.map_eq_some_iff] at h
      obtain ⟨c', hc', rfl⟩ := h
      simp only [Forest.wf, Bool.and_eq_true]
      refine ⟨⟨?_, hf _ _ hc' hw.1.2⟩, hw.2⟩
      rw [← hia]; exact hw.1.1
    · simp only [hia, if_false, Option.map_eq_some_iff] at h
      obtain ⟨r', hr', rfl⟩ := h
      simp only [Forest.wf, Bool.and_eq_true]
      refine ⟨⟨?_, hw.1.2⟩, ihr hw.2 hr'⟩
      rw [Forest.find_modify_other hr' hia]; exact hw.1.1

theorem wf_replaceAt {n : Path} {t r t' : Tree} (hw : t.WF) (hr : r.WF) (h : replaceAt n t r = some t') : t'.WF := by
  induction n generalizing t t' with
  | nil => simp only [replaceAt, Option.some.injEq] at h; subst h; exact hr
  | cons a n ih =>
    simp only [replaceAt, Option.map_eq_some_iff] at h
    obtain ⟨k, hk, rfl⟩ := h
    exact Forest.wf_modify hw (fun c c' hc hcw => ih hcw hc) hk

/-! ### node-wise predicates -/

theorem Forest.all_find {P : Info → Bool} {k : Forest} {a : Name} {c : Tree} (hk : k.all P = true)
    (h : k.find a = some c) : c.all P = true := by
  induction k with
  | nil => simp [Forest.find] at h
  | cons i kk r _ ihr =>
    simp only [Forest.all, Bool.and_eq_true] at hk
    simp only [Forest.find] at h
    split at h
    · cases h; simp [Tree.all, hk.1.1, hk.1.2]
    · exact ihr hk.2 h

theorem all_subAt {P : Info → Bool} {p : Path} {t s : Tree} (ht : t.all P = true) (h : subAt p t = some s) :
    s.all P = true := by
  induction p generalizing t with
  | nil => simp only [subAt_nil, Option.some.injEq] at h; subst h; exact ht
  | cons a p ih =>
    simp only [subAt_cons] at h
    cases hc : t.kids.find a with
    | none => simp [hc] at h
    | some c =>
      simp only [hc, Option.bind_some] at h
      simp only [Tree.all, Bool.and_eq_true] at ht
      exact ih (Forest.all_find ht.2 hc) h

theorem Forest.all_named {P : Info → Bool} {k : Forest} :
    k.all P = true ↔ ∀ e ∈ k.named, P e.2.info = true := by
  induction k with
  | nil => simp [Forest.all, Forest.named]
  | cons i kk r ihk ihr =>
    simp only [Forest.all, Bool.and_eq_true, Forest.named, List.mem_cons, List.mem_append, List.mem_map, ihk, ihr]
    constructor
    · rintro ⟨⟨h1, h2⟩, h3⟩ e ((rfl | ⟨e', he', rfl⟩) | he)
      · exact h1
      · exact h2 e' he'
      · exact h3 e he
    · intro h
      exact ⟨⟨h _ (Or.inl (Or.inl rfl)), fun e he => h (i.name :: e.1, e.2) (Or.inl (Or.inr ⟨e, he, rfl⟩))⟩, fun e he => h e (Or.inr he)⟩

theorem all_named {P : Info → Bool} {t : Tree} : t.all P = true ↔ ∀ e ∈ t.named, P e.2.info = true := by
  simp only [Tree.all, Bool.and_eq_true, Tree.named, List.mem_cons, Forest.all_named]
  constructor
  · rintro ⟨h1, h2⟩ e (rfl | he)
    · exact h1
    · exact h2 e he
  · intro h; exact ⟨h _ (Or.inl rfl), fun e he => h e (Or.inr he)⟩

theorem Forest.all_modify {P : Info → Bool} (hname : ∀ i a, P { i with name := a } = P i) {k k' : Forest} {a : Name}
    {f : Tree → Option Tree} (hk : k.all P = true)
    (hf : ∀ c c', f c = some c' → c.all P = true → c'.all P = true) (h : k.modify a f = some k') :
    k'.all P = true := by
  induction k generalizing k' with
  | nil => simp [Forest.modify] at h
  | cons i kk r _ ihr =>
    simp only [Forest.all, Bool.and_eq_true] at hk
    simp only [Forest.modify] at h
    by_cases hia : i.name = a
    · simp only [hia, if_true, Option.map_eq_some_iff] at h
      obtain ⟨c', hc', rfl⟩ := h
      have := hf _ _ hc' (by simp [Tree.all, hk.1.1, hk.1.2])
      simp only [Tree.all, Bool.and_eq_true] at this
      simp only [Forest.all, Bool.and_eq_true, hname]
      exact ⟨this, hk.2⟩
    · simp only [hia, if_false, Option.map_eq_some_iff] at h
      obtain ⟨r', hr', rfl⟩ := h
      simp only [Forest.all, Bool.and_eq_true]
      exact ⟨hk.1, ihr hk.2 hr'⟩

theorem all_replaceAt {P : Info → Bool} (hname : ∀ i a, P { i with name := a } = P i) {n : Path} {t r t' : Tree}
    (ht : t.all P = true) (hr : r.all P = true) (h : replaceAt n t r = some t') : t'.all P = true := by
  induction n generalizing t t' with
  | nil => simp only [replaceAt, Option.some.injEq] at h; subst h; exact hr
  | cons a n ih =>
    simp only [replaceAt, Option.map_eq_some_iff] at h
    obtain ⟨k, hk, rfl⟩ := h
    simp only [Tree.all, Bool.and_eq_true] at ht ⊢
    exact ⟨ht.1, Forest.all_modify hname ht.2 (fun c c' hc hca => ih hca hc) hk⟩


/-! ### clone_module -/

@[simp] theorem Info.mapOid_name (f : Oid → Oid) (i : Info) : (i.mapOid f).name = i.name := rfl
@[simp] theorem Info.mapOid_ty (f : Oid → Oid) (i : Info) : (i.mapOid f).ty = i.ty := rfl
@[simp] theorem Info.mapOid_cfg (f : Oid → Oid) (i : Info) : (i.mapOid f).cfg = i.cfg := rfl
@[simp] theorem Info.mapOid_training (f : Oid → Oid) (i : Info) : (i.mapOid f).training = i.training := rfl

@[simp] theorem Info.mapOid_trainable (f : Oid → Oid) (i : Info) : (i.mapOid f).trainable = i.trainable := by
  simp [Info.trainable, Info.mapOid, List.any_map, Function.comp_def]

@[simp] theorem nodeErrs_mapOid (f : Oid → Oid) (i : Info) : nodeErrs (i.mapOid f) = nodeErrs i := rfl

theorem Forest.find_mapOid (f : Oid → Oid) (k : Forest) (a : Name) :
    (k.mapOid f).find a = (k.find a).map (Tree.mapOid f) := by
  induction k with
  | nil => rfl
  | cons i kk r _ ihr =>
    simp only [Forest.mapOid, Forest.find, Info.mapOid_name]
    by_cases h : i.name = a
    · simp [h, Tree.mapOid]
    · simp [h, ihr]

theorem subAt_mapOid (f : Oid → Oid) (p : Path) (t : Tree) :
    subAt p (t.mapOid f) = (subAt p t).map (Tree.mapOid f) := by
  induction p generalizing t with
  | nil => rfl
  | cons a p ih =>
    simp only [subAt_cons, Tree.mapOid, Forest.find_mapOid]
    cases t.kids.find a with
    | none => rfl
    | some c => simpa [Tree.mapOid] using ih c

theorem Forest.wf_mapOid (f : Oid → Oid) (k : Forest) : (k.mapOid f).wf = k.wf := by
  induction k with
  | nil => rfl
  | cons i kk r ihk ihr =>
    simp only [Forest.mapOid, Forest.wf, Info.mapOid_name, Forest.find_mapOid, ihk, ihr]
    cases r.find i.name <;> rfl

theorem Forest.named_mapOid (f : Oid → Oid) (k : Forest) :
    (k.mapOid f).named = k.named.map (fun e => (e.1, e.2.mapOid f)) := by
  induction k with
  | nil => rfl
  | cons i kk r ihk ihr =>
    simp [Forest.mapOid, Forest.named, ihk, ihr, Tree.mapOid, Function.comp_def]

theorem named_mapOid (f : Oid → Oid) (t : Tree) :
    (t.mapOid f).named = t.named.map (fun e => (e.1, e.2.mapOid f)) := by
  simp [Tree.named, Forest.named_mapOid, Tree.mapOid]

theorem Forest.all_mapOid (P : Info → Bool) (f : Oid → Oid) (k : Forest) :
    (k.mapOid f).all P = k.all (fun i => P (i.mapOid f)) := by
  induction k with
  | nil => rfl
  | cons i kk r ihk ihr => simp [Forest.mapOid, Forest.all, ihk, ihr]

/-! ### forests built from lists -/

theorem Forest.find_ofList_none {ts : List Tree} {a : Name} (h : a ∉ ts.map (·.info.name)) :
    (Forest.ofList ts).find a = none := by
  induction ts with
  | nil => rfl
  | cons t ts ih =>
    simp only [List.map_cons, List.mem_cons, not_or] at h
    simp only [Forest.ofList, Forest.find]
    rw [if_neg (fun hh => h.1 hh.symm)]
    exact ih h.2

theorem Forest.wf_ofList {ts : List Tree} (hn : (ts.map (·.info.name)).Nodup) (hk : ∀ t ∈ ts, t.kids.wf = true) :
    (Forest.ofList ts).wf = true := by
  induction ts with
  | nil => rfl
  | cons t ts ih =>
    simp only [List.map_cons, List.nodup_cons] at hn
    simp only [Forest.ofList, Forest.wf, Bool.and_eq_true]
    refine ⟨⟨?_, hk t (by simp)⟩, ih hn.2 (fun t' ht' => hk t' (by simp [ht']))⟩
    rw [Forest.find_ofList_none hn.1]; rfl

theorem Forest.all_ofList (P : Info → Bool) (ts : List Tree) :
    (Forest.ofList ts).all P = ts.all (fun t => t.all P) := by
  induction ts with
  | nil => rfl
  | cons t ts ih => simp [Forest.ofList, Forest.all, Tree.all, ih, Bool.and_assoc]

end Opacus.Validate
