import OpacusLean.Model.Calib
import Mathlib.Order.Basic
import Mathlib.Algebra.Order.Field.Basic
import Mathlib.Tactic.Linarith
/-! helper lemmas about the two loops of `Opacus.Calib` (used by `Props/C08.lean`) -/
set_option linter.unusedSectionVars false
namespace Opacus.Calib

section anyOrder
variable {R : Type} [Add R] [Sub R] [Mul R] [Div R] [Preorder R] [DecidableLT R] [OfNat R 2]

/-- second loop: if it is entered with `eps_high = eps sigma_high ≤ target` then whatever it returns
satisfies both exit conditions *at the returned σ* -/
theorem bisect_ok (eps : R → R) (target tol : R) :
    ∀ (fuel : Nat) (lo hi epsHi : R) (log : List R) (σ : R),
      epsHi = eps hi → ¬ target < epsHi →
      (bisect eps target tol fuel lo hi epsHi log).res = .ok σ →
      ¬ target < eps σ ∧ ¬ tol < target - eps σ := by
  intro fuel
  induction fuel with
  | zero =>
    intro lo hi epsHi log σ h1 h2 h
    unfold bisect at h
    split at h
    · cases h
    · injection h with h; subst h; subst h1; exact ⟨h2, by assumption⟩
  | succ n ih =>
    intro lo hi epsHi log σ h1 h2 h
    unfold bisect at h
    split at h
    · simp only at h
      split at h
      · rename_i hlt
        exact ih _ _ _ _ σ rfl (lt_asymm hlt) h
      · exact ih _ _ _ _ σ h1 h2 h
    · injection h with h; subst h; subst h1; exact ⟨h2, by assumption⟩

/-- first loop: started from `eps_high = inf > target`, it can only finish with
`eps_high = eps sigma_high` and `¬ eps_high > target` -/
theorem doubling_done (eps : R → R) (target maxSigma : R) :
    ∀ (fuel : Nat) (hi epsHi : R) (log : List R) (hi' epsHi' : R) (log' : List R),
      (epsHi = eps hi ∨ target < epsHi) →
      doubling eps target maxSigma fuel hi epsHi log = .done hi' epsHi' log' →
      epsHi' = eps hi' ∧ ¬ target < epsHi' := by
  intro fuel
  induction fuel with
  | zero =>
    intro hi epsHi log hi' epsHi' log' h0 h
    unfold doubling at h
    split at h
    · cases h
    · rename_i hn
      injection h with a b c; subst a; subst b
      rcases h0 with h0 | h0
      · exact ⟨h0, hn⟩
      · exact absurd h0 hn
  | succ n ih =>
    intro hi epsHi log hi' epsHi' log' h0 h
    unfold doubling at h
    split at h
    · simp only at h
      split at h
      · cases h
      · exact ih _ _ _ _ _ _ (Or.inl rfl) h
    · rename_i hn
      injection h with a b c; subst a; subst b
      rcases h0 with h0 | h0
      · exact ⟨h0, hn⟩
      · exact absurd h0 hn

end anyOrder

/-- the returned σ is one of the values the accountant was asked about (`sigma_high` is only ever
assigned a queried value) — provided the first loop ran at least once -/
theorem bisect_sigma_logged {R : Type} [Add R] [Sub R] [Mul R] [Div R] [LT R] [DecidableLT R] [OfNat R 2]
    (eps : R → R) (target tol : R) :
    ∀ (fuel : Nat) (lo hi epsHi : R) (log : List R) (σ : R), hi ∈ log →
      (bisect eps target tol fuel lo hi epsHi log).res = .ok σ →
      σ ∈ (bisect eps target tol fuel lo hi epsHi log).log := by
  intro fuel
  induction fuel with
  | zero =>
    intro lo hi epsHi log σ hm h
    unfold bisect at h ⊢
    split at h
    · cases h
    · rename_i hc
      injection h with h; subst h; simp only [hc, if_false]; exact hm
  | succ n ih =>
    intro lo hi epsHi log σ hm h
    unfold bisect at h ⊢
    split at h
    · rename_i hc
      simp only [hc, if_true] at h ⊢
      split at h
      · rename_i hlt
        simp only [hlt, if_true]
        exact ih _ _ _ _ σ (List.mem_cons_self) h
      · rename_i hlt
        simp only [hlt, if_false]
        exact ih _ _ _ _ σ (List.mem_cons_of_mem _ hm) h
    · rename_i hc
      injection h with h; subst h; simp only [hc, if_false]; exact hm

section field
variable {R : Type} [Field R] [LinearOrder R] [IsStrictOrderedRing R]

/-- the second loop keeps `sigma_low ≤ sigma_high` and returns a point of the bracket -/
theorem bisect_range (eps : R → R) (target tol : R) :
    ∀ (fuel : Nat) (lo hi epsHi : R) (log : List R) (σ : R), lo ≤ hi →
      (bisect eps target tol fuel lo hi epsHi log).res = .ok σ → lo ≤ σ ∧ σ ≤ hi := by
  intro fuel
  induction fuel with
  | zero =>
    intro lo hi epsHi log σ hle h
    unfold bisect at h
    split at h
    · cases h
    · injection h with h; subst h; exact ⟨hle, le_refl _⟩
  | succ n ih =>
    intro lo hi epsHi log σ hle h
    unfold bisect at h
    split at h
    · simp only at h
      have hm1 : lo ≤ (lo + hi) / 2 := by linarith
      have hm2 : (lo + hi) / 2 ≤ hi := by linarith
      split at h
      · obtain ⟨a, b⟩ := ih _ _ _ _ σ hm1 h
        exact ⟨a, le_trans b hm2⟩
      · obtain ⟨a, b⟩ := ih _ _ _ _ σ hm2 h
        exact ⟨le_trans hm1 a, b⟩
    · injection h with h; subst h; exact ⟨hle, le_refl _⟩

/-- the first loop never hands a `sigma_high > MAX_SIGMA` to the second one, and only grows it -/
theorem doubling_le (eps : R → R) (target maxSigma : R) :
    ∀ (fuel : Nat) (hi epsHi : R) (log : List R) (hi' epsHi' : R) (log' : List R),
      0 ≤ hi → (target < epsHi ∨ hi ≤ maxSigma) →
      doubling eps target maxSigma fuel hi epsHi log = .done hi' epsHi' log' →
      hi' ≤ maxSigma ∧ hi ≤ hi' := by
  intro fuel
  induction fuel with
  | zero =>
    intro hi epsHi log hi' epsHi' log' h0 hor h
    unfold doubling at h
    split at h
    · cases h
    · rename_i hn
      injection h with a b c; subst a
      rcases hor with h1 | h1
      · exact absurd h1 hn
      · exact ⟨h1, le_refl _⟩
  | succ n ih =>
    intro hi epsHi log hi' epsHi' log' h0 hor h
    unfold doubling at h
    split at h
    · simp only at h
      split at h
      · cases h
      · rename_i hm
        have h2 : (0 : R) ≤ 2 * hi := by linarith
        obtain ⟨a, b⟩ := ih _ _ _ _ _ _ h2 (Or.inr (not_lt.1 hm)) h
        exact ⟨a, by linarith⟩
    · rename_i hn
      injection h with a b c; subst a
      rcases hor with h1 | h1
      · exact absurd h1 hn
      · exact ⟨h1, le_refl _⟩

end field

end Opacus.Calib
