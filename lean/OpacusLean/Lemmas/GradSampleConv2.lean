import OpacusLean.Lemmas.GradSampleConv
/-! Conv1d/2d/3d: the natural-index forward equals the patch-level forward, `unfold2d`/`unfold3d`
produce the patches, and the resulting adjoint identities. -/
namespace Opacus.GS

theorem sum_flatten_val {M : Type} [AddCommMonoid M] (m n : Nat) (F : Nat → M) :
    ∑ i : Fin m, ∑ j : Fin n, F (i.val * n + j.val) = ∑ q : Fin (m * n), F q.val := by
  rw [← sum_flatten m n (fun i j => F (i * n + j))]
  refine Finset.sum_congr rfl fun q _ => ?_
  rw [Nat.mul_comm, Nat.div_add_mod]

/-- three merged axes -/
theorem sum_flatten3 {M : Type} [AddCommMonoid M] (a b c : Nat) (F : Nat → Nat → Nat → M) :
    ∑ q : Fin (a * b * c), F (q.val / (b * c)) (q.val / c % b) (q.val % c)
      = ∑ i : Fin a, ∑ j : Fin b, ∑ k : Fin c, F i.val j.val k.val := by
  have h := sum_flatten (a * b) c (fun r t => F (r / b) (r % b) t)
  rw [show (∑ q : Fin (a * b * c), F (q.val / (b * c)) (q.val / c % b) (q.val % c))
        = ∑ q : Fin (a * b * c), F (q.val / c / b) (q.val / c % b) (q.val % c) from
      Finset.sum_congr rfl fun q _ => by rw [Nat.div_div_eq_div_mul, Nat.mul_comm c b]]
  rw [h]
  exact sum_flatten a b (fun i j => ∑ k : Fin c, F i j k.val)

section decode
variable {cc k kh kw kH kW : Nat}

theorem patch_chan2 (hk : k < kH * kW) : (cc * (kH * kW) + k) / (kH * kW) = cc := decode_div hk

theorem patch_kh2 (hk : k < kH * kW) : (cc * (kH * kW) + k) / kW % kH = k / kW := by
  have hkW : 0 < kW := by
    rcases Nat.eq_zero_or_pos kW with h | h
    · subst h; simp at hk
    · exact h
  have : cc * (kH * kW) + k = (cc * kH) * kW + k := by ring
  rw [this, Nat.add_comm, Nat.add_mul_div_right _ _ hkW, Nat.add_comm, decode_mod]
  rw [Nat.div_lt_iff_lt_mul hkW]; exact hk

theorem patch_kw2 : (cc * (kH * kW) + k) % kW = k % kW := by
  have : cc * (kH * kW) + k = k + (cc * kH) * kW := by ring
  rw [this, Nat.add_mul_mod_self_right]
end decode

/-- Conv2d: the forward in natural indices is the patch-level forward on `window2d` -/
theorem conv2dFwd_eq_core {R : Type} [CommRing R] (Og Cg kH kW Wo s0 s1 d0 d1 : Nat)
    (w : Nat → Nat → Nat → Nat → R) (bias : Nat → R) (xp : Nat → Nat → Nat → Nat → R) (n o q : Nat) :
    conv2dFwd Og Cg kH kW s0 s1 d0 d1 w bias (xp n) o (q / Wo) (q % Wo)
      = convFwdCore Og Cg (kH * kW) (fun o ci k => w o ci (k / kW) (k % kW)) bias
          (fun p q => window2d kH kW Wo d0 d1 s0 s1 xp n p q) o q := by
  simp only [conv2dFwd, convFwdCore, sumFin_eq_sum]
  congr 1
  refine Finset.sum_congr rfl fun ci _ => ?_
  rw [← sum_flatten kH kW (fun kh kw => w o ci.val kh kw *
      xp n (o / Og * Cg + ci.val) (q / Wo * s0 + kh * d0) (q % Wo * s1 + kw * d1))]
  refine Finset.sum_congr rfl fun k _ => ?_
  simp only [window2d, patch_chan2 k.isLt, patch_kh2 k.isLt, patch_kw2]

/-- `unfold2d` (view + reshape) produces the windows, and every read is inside the padded tensor -/
theorem unfold2d_eq_window {R : Type} [Zero R] (var : Variant) (c : Conv2dCfg) (st : Strides4)
    (xp : Nat → Nat → Nat → Nat → R)
    (hlay : var = .repaired ∨ (st.h = c.Wp ∧ st.w = 1))
    (hf : Faithful st c.N c.C c.Hp c.Wp xp) (hs0 : 0 < c.s0) (hs1 : 0 < c.s1) (hfit : c.fits = true)
    {n p q : Nat} (hn : n < c.N) (hp : p < c.C * (c.kH * c.kW)) (hq : q < c.Ho * c.Wo) :
    unfold2dOut c.kH c.kW c.Wo (unfold2dView var st c.Wp c.d0 c.d1 c.s0 c.s1 (memOf st c.N c.C c.Hp c.Wp xp)) n p q
      = window2d c.kH c.kW c.Wo c.d0 c.d1 c.s0 c.s1 xp n p q := by
  have hK : 0 < c.kH * c.kW := by
    rcases Nat.eq_zero_or_pos (c.kH * c.kW) with h | h
    · rw [h] at hp; simp at hp
    · exact h
  have hkW : 0 < c.kW := by
    rcases Nat.eq_zero_or_pos c.kW with h | h
    · rw [h] at hK; simp at hK
    · exact h
  have hkH : 0 < c.kH := by
    rcases Nat.eq_zero_or_pos c.kH with h | h
    · rw [h] at hK; simp at hK
    · exact h
  have hWo : 0 < c.Wo := by
    rcases Nat.eq_zero_or_pos c.Wo with h | h
    · rw [h] at hq; simp at hq
    · exact h
  have hch : p / (c.kH * c.kW) < c.C := by rw [Nat.div_lt_iff_lt_mul hK]; exact hp
  have hkh : p / c.kW % c.kH < c.kH := Nat.mod_lt _ hkH
  have hkw : p % c.kW < c.kW := Nat.mod_lt _ hkW
  have hh : q / c.Wo < c.Ho := by rw [Nat.div_lt_iff_lt_mul hWo]; exact hq
  have hw : q % c.Wo < c.Wo := Nat.mod_lt _ hWo
  simp only [Conv2dCfg.fits, Bool.and_eq_true, decide_eq_true_eq] at hfit
  have hi : q / c.Wo * c.s0 + p / c.kW % c.kH * c.d0 < c.Hp := window_in_range hs0 hfit.1 hh hkh
  have hj : q % c.Wo * c.s1 + p % c.kW * c.d1 < c.Wp := window_in_range hs1 hfit.2 hw hkw
  simp only [unfold2dOut, window2d]
  have key : unfold2dView var st c.Wp c.d0 c.d1 c.s0 c.s1 (memOf st c.N c.C c.Hp c.Wp xp) n (p / (c.kH * c.kW))
      (p / c.kW % c.kH) (p % c.kW) (q / c.Wo) (q % c.Wo)
      = memOf st c.N c.C c.Hp c.Wp xp (st.addr n (p / (c.kH * c.kW)) (q / c.Wo * c.s0 + p / c.kW % c.kH * c.d0)
          (q % c.Wo * c.s1 + p % c.kW * c.d1)) := by
    cases var with
    | asCoded =>
      rcases hlay with h | h
      · cases h
      · exact unfold2dView_asCoded st _ _ _ _ _ _ h _ _ _ _ _ _
    | repaired => exact unfold2dView_repaired st _ _ _ _ _ _ _ _ _ _ _ _
  rw [key, memOf_addr st _ _ _ _ xp hf hn hch hi hj]

end Opacus.GS

namespace Opacus.GS

/-- Conv1d: natural-index forward = patch-level forward on `window1d` -/
theorem conv1dFwd_eq_core {R : Type} [CommRing R] (Og Cg k s d : Nat)
    (w : Nat → Nat → Nat → R) (bias : Nat → R) (xp : Nat → Nat → Nat → R) (n o q : Nat) :
    conv1dFwd Og Cg k s d w bias (xp n) o q
      = convFwdCore Og Cg k w bias (fun p q => window1d k d s xp n p q) o q := by
  simp only [conv1dFwd, convFwdCore, sumFin_eq_sum]
  congr 1
  refine Finset.sum_congr rfl fun ci _ => Finset.sum_congr rfl fun kw _ => ?_
  simp only [window1d, decode_div kw.isLt, decode_mod kw.isLt]

section decode3
variable {cc k kD kH kW : Nat}

theorem patch_chan3 (hk : k < kD * kH * kW) : (cc * (kD * kH * kW) + k) / (kD * kH * kW) = cc := decode_div hk

theorem patch_kd3 (hk : k < kD * kH * kW) : (cc * (kD * kH * kW) + k) / (kH * kW) % kD = k / (kH * kW) := by
  have hpos : 0 < kH * kW := by
    rcases Nat.eq_zero_or_pos (kH * kW) with h | h
    · rw [Nat.mul_assoc, h] at hk; simp at hk
    · exact h
  have : cc * (kD * kH * kW) + k = (cc * kD) * (kH * kW) + k := by ring
  rw [this, Nat.add_comm, Nat.add_mul_div_right _ _ hpos, Nat.add_comm, decode_mod]
  rw [Nat.div_lt_iff_lt_mul hpos, ← Nat.mul_assoc]; exact hk

theorem patch_kh3 : (cc * (kD * kH * kW) + k) / kW % kH = k / kW % kH := by
  rcases Nat.eq_zero_or_pos kW with h | h
  · subst h; simp
  · have : cc * (kD * kH * kW) + k = k + (cc * kD * kH) * kW := by ring
    rw [this, Nat.add_mul_div_right _ _ h]
    have : k / kW + cc * kD * kH = k / kW + (cc * kD) * kH := by ring
    rw [this, Nat.add_mul_mod_self_right]

theorem patch_kw3 : (cc * (kD * kH * kW) + k) % kW = k % kW := by
  have : cc * (kD * kH * kW) + k = k + (cc * kD * kH) * kW := by ring
  rw [this, Nat.add_mul_mod_self_right]

theorem recompose3 (b c k : Nat) : (k / (b * c) * b + k / c % b) * c + k % c = k := by
  have h1 : k / (b * c) * b + k / c % b = k / c := by
    rw [Nat.mul_comm b c, ← Nat.div_div_eq_div_mul, Nat.mul_comm]; exact Nat.div_add_mod _ _
  rw [h1, Nat.mul_comm]; exact Nat.div_add_mod _ _
end decode3

theorem conv3dFwd_eq_core {R : Type} [CommRing R] (Og Cg kD kH kW Ho Wo s0 s1 s2 d0 d1 d2 : Nat)
    (w : Nat → Nat → Nat → Nat → Nat → R) (bias : Nat → R) (xp : Nat → Nat → Nat → Nat → Nat → R) (n o q : Nat) :
    conv3dFwd Og Cg kD kH kW s0 s1 s2 d0 d1 d2 w bias (xp n) o (q / (Ho * Wo)) (q / Wo % Ho) (q % Wo)
      = convFwdCore Og Cg (kD * kH * kW) (fun o ci k => w o ci (k / (kH * kW)) (k / kW % kH) (k % kW)) bias
          (fun p q => window3d kD kH kW Ho Wo s0 s1 s2 d0 d1 d2 xp n p q) o q := by
  simp only [conv3dFwd, convFwdCore, sumFin_eq_sum]
  congr 1
  refine Finset.sum_congr rfl fun ci _ => ?_
  rw [← sum_flatten3 kD kH kW (fun kd kh kw => w o ci.val kd kh kw *
      xp n (o / Og * Cg + ci.val) (q / (Ho * Wo) * s0 + kd * d0) (q / Wo % Ho * s1 + kh * d1) (q % Wo * s2 + kw * d2))]
  refine Finset.sum_congr rfl fun k _ => ?_
  simp only [window3d, patch_chan3 k.isLt, patch_kd3 k.isLt, patch_kh3, patch_kw3]

/-- `unfold3d` (three `Tensor.unfold`, `filter_dilated_rows`, permute/reshape/transpose) is the
window formula – by unfolding the definitions -/
theorem unfold3d_eq_window {R : Type} (kD kH kW Ho Wo s0 s1 s2 d0 d1 d2 : Nat)
    (xp : Nat → Nat → Nat → Nat → Nat → R) :
    unfold3d kD kH kW Ho Wo s0 s1 s2 d0 d1 d2 xp = window3d kD kH kW Ho Wo s0 s1 s2 d0 d1 d2 xp := rfl

end Opacus.GS
