import OpacusLean.Lemmas.Binary64
/-! # What the float truncations can and cannot do

Pure-ℚ consequences of the relative-error contract, then the same facts for the executable model's
`lenDP`, `stepsCal`, `qAcc`, `ebs`. -/
namespace Opacus.Binary64

/-- unfold the contract into two linear inequalities -/
theorem RelClose.bounds {x y : ℚ} (h : RelClose x y) :
    y * (1 - 1 / 2 ^ 53) ≤ x ∧ x ≤ y * (1 + 1 / 2 ^ 53) := by
  unfold RelClose at h
  obtain ⟨h1, h2⟩ := abs_le.1 h
  constructor <;> [skip; skip] <;> ring_nf at * <;> linarith

/-- floor from a two-sided bound -/
theorem floor_cases (s : ℚ) (n : ℕ) (h1 : (n : ℚ) - 1 ≤ s) (h2 : s < n + 1) (h0 : 0 ≤ s) :
    ⌊s⌋₊ = n ∨ ⌊s⌋₊ + 1 = n := by
  by_cases hs : (n : ℚ) ≤ s
  · left
    rw [Nat.floor_eq_iff h0]
    exact ⟨hs, h2⟩
  · right
    rw [not_le] at hs
    rcases Nat.eq_zero_or_pos n with hn | hn
    · subst hn; simp at hs; linarith
    · have : ⌊s⌋₊ = n - 1 := by
        rw [Nat.floor_eq_iff h0]
        have : ((n - 1 : ℕ) : ℚ) = (n : ℚ) - 1 := by
          rw [Nat.cast_sub hn]; simp
        rw [this]; constructor <;> linarith
      omega

/-- **core arithmetic fact**: if `q` is `1/L` up to one rounding and `s` is `E/q` up to one rounding,
then `⌊s⌋` is `E·L` or `E·L − 1` — truncation can lose one, never gain -/
theorem floor_of_relclose (E L : ℕ) (hL : 0 < L) (q s : ℚ) (hq : RelClose q (1 / L))
    (hs : RelClose s (E / q)) (h : E * L < 2 ^ 51) :
    ⌊s⌋₊ = E * L ∨ ⌊s⌋₊ + 1 = E * L := by
  have hL' : (0 : ℚ) < L := by exact_mod_cast hL
  have hqpos : 0 < q := hq.pos (by positivity)
  obtain ⟨hq1, hq2⟩ := hq.bounds
  obtain ⟨hs1, hs2⟩ := hs.bounds
  have hW1 : 1 - 1 / 2 ^ 53 ≤ q * L := by
    have := mul_le_mul_of_nonneg_right hq1 hL'.le
    have e : 1 / (L : ℚ) * (1 - 1 / 2 ^ 53) * L = 1 - 1 / 2 ^ 53 := by field_simp
    rwa [e] at this
  have hW2 : q * L ≤ 1 + 1 / 2 ^ 53 := by
    have := mul_le_mul_of_nonneg_right hq2 hL'.le
    have e : 1 / (L : ℚ) * (1 + 1 / 2 ^ 53) * L = 1 + 1 / 2 ^ 53 := by field_simp
    rwa [e] at this
  set t : ℚ := E / q with ht
  have ht0 : 0 ≤ t := by positivity
  have htW : t * (q * L) = (E : ℚ) * L := by rw [ht]; field_simp
  have hA : t * (1 - 1 / 2 ^ 53) ≤ (E : ℚ) * L := by
    rw [← htW]; exact mul_le_mul_of_nonneg_left hW1 ht0
  have hB : (E : ℚ) * L ≤ t * (1 + 1 / 2 ^ 53) := by
    rw [← htW]; exact mul_le_mul_of_nonneg_left hW2 ht0
  have hEL : ((E * L : ℕ) : ℚ) < 2 ^ 51 := by exact_mod_cast h
  push_cast at hEL
  have hs0 : 0 ≤ s := by
    have : 0 ≤ t * (1 - 1 / 2 ^ 53) := mul_nonneg ht0 (by norm_num)
    linarith
  have := floor_cases s (E * L) (by push_cast; nlinarith) (by push_cast; nlinarith) hs0
  exact this


/-! ## The executable model -/

theorem ofNat_m_pos (n : ℕ) (hn : 0 < n) (h : n < 2 ^ 53) : 0 < (ofNat n).m :=
  (val_pos_iff _).1 (by rw [ofNat_val n hn h]; exact_mod_cast hn)

theorem one_val : one.val = 1 := by
  have := ofNat_val 1 Nat.one_pos (by norm_num)
  simpa [one] using this

theorem one_m_pos : 0 < one.m := ofNat_m_pos 1 Nat.one_pos (by norm_num)

theorem qSampler_close (L : ℕ) (hL : 0 < L) (h : L < 2 ^ 53) : RelClose (qSampler L).val (1 / L) := by
  have := fdiv_val one (ofNat L) one_m_pos (ofNat_m_pos L hL h)
  rwa [one_val, ofNat_val L hL h] at this

theorem qSampler_m_pos (L : ℕ) (hL : 0 < L) (h : L < 2 ^ 53) : 0 < (qSampler L).m := by
  have hL' : (0 : ℚ) < L := by exact_mod_cast hL
  exact (val_pos_iff _).1 ((qSampler_close L hL h).pos (by positivity))

/-- `len(dp_loader) = int(1/(1/L))` is `L` or `L − 1` -/
theorem lenDP_bounds (L : ℕ) (hL : 0 < L) (h : L < 2 ^ 51) :
    lenDP .asCoded L = L ∨ lenDP .asCoded L + 1 = L := by
  have h53 : L < 2 ^ 53 := lt_trans h (by norm_num)
  have hq := qSampler_close L hL h53
  have hs := fdiv_val one (qSampler L) one_m_pos (qSampler_m_pos L hL h53)
  rw [one_val] at hs
  have := floor_of_relclose 1 L hL _ _ hq (by simpa using hs) (by simpa using h)
  simpa [lenDP, trunc_val] using this

/-- calibration `steps = int(epochs/(1/L))` is `epochs·L` or `epochs·L − 1` -/
theorem stepsCal_bounds (E L : ℕ) (hL : 0 < L) (hE : E < 2 ^ 53) (h : E * L < 2 ^ 51) :
    stepsCal .asCoded E L = E * L ∨ stepsCal .asCoded E L + 1 = E * L := by
  rcases Nat.eq_zero_or_pos E with h0 | hE0
  · subst h0
    left
    have : ofNat 0 = zero := by simp [ofNat, rne]
    simp [stepsCal, this, fdiv, zero, trunc]
  · have hL53 : L < 2 ^ 53 := by
      have : L ≤ E * L := Nat.le_mul_of_pos_left L hE0
      omega
    have hq := qSampler_close L hL hL53
    have hs := fdiv_val (ofNat E) (qSampler L) (ofNat_m_pos E hE0 hE) (qSampler_m_pos L hL hL53)
    rw [ofNat_val E hE0 hE] at hs
    have := floor_of_relclose E L hL _ _ hq hs h
    simpa [stepsCal, trunc_val] using this


theorem lenDP_one : lenDP .asCoded 1 = 1 := by decide +kernel

theorem lenDP_pos (L : ℕ) (hL : 0 < L) (h : L < 2 ^ 51) : 0 < lenDP .asCoded L := by
  rcases Nat.lt_or_ge L 2 with h2 | h2
  · have : L = 1 := by omega
    subst this; rw [lenDP_one]; exact Nat.one_pos
  · rcases lenDP_bounds L hL h with h1 | h1 <;> omega

theorem qAcc_close (L : ℕ) (hL : 0 < L) (h : L < 2 ^ 51) :
    RelClose (qAcc .asCoded L).val (1 / (lenDP .asCoded L : ℕ)) := by
  have hp := lenDP_pos L hL h
  have hb : lenDP .asCoded L < 2 ^ 53 := by
    rcases lenDP_bounds L hL h with h1 | h1 <;> omega
  exact qSampler_close _ hp hb

/-- the rate handed to the accountant is never below the rate the sampler uses -/
theorem qSampler_le_qAcc (L : ℕ) (hL : 0 < L) (h : L < 2 ^ 51) :
    (qSampler L).val ≤ (qAcc .asCoded L).val ∧
    (lenDP .asCoded L ≠ L → (qSampler L).val < (qAcc .asCoded L).val) := by
  rcases lenDP_bounds L hL h with h1 | h1
  · have : qAcc .asCoded L = qSampler L := by simp [qAcc, qSampler, h1]
    rw [this]; exact ⟨le_refl _, fun hne => absurd h1 hne⟩
  · have hlt : (qSampler L).val < (qAcc .asCoded L).val := by
      have hp := lenDP_pos L hL h
      have hqa := (qAcc_close L hL h).bounds.1
      have hqs := (qSampler_close L hL (lt_trans h (by norm_num))).bounds.2
      set D := lenDP .asCoded L with hD
      have hD' : (0 : ℚ) < D := by exact_mod_cast hp
      have hLq : (L : ℚ) = D + 1 := by exact_mod_cast h1.symm
      have hL' : (0 : ℚ) < L := by exact_mod_cast hL
      have hDb : (D : ℚ) < 2 ^ 51 := by
        have : D < 2 ^ 51 := by omega
        exact_mod_cast this
      have key : 1 / (L : ℚ) * (1 + 1 / 2 ^ 53) < 1 / (D : ℚ) * (1 - 1 / 2 ^ 53) := by
        rw [one_div_mul_eq_div, one_div_mul_eq_div, div_lt_div_iff₀ hL' hD', hLq]
        nlinarith
      linarith
    exact ⟨hlt.le, fun _ => hlt⟩

/-- **rate consistency**: accounted rate = sampler rate iff the DP loader kept its length -/
theorem qAcc_eq_iff (L : ℕ) (hL : 0 < L) (h : L < 2 ^ 51) :
    qAcc .asCoded L = qSampler L ↔ lenDP .asCoded L = L := by
  constructor
  · intro he
    by_contra hne
    have := (qSampler_le_qAcc L hL h).2 hne
    rw [he] at this
    exact lt_irrefl _ this
  · intro h1; simp [qAcc, qSampler, h1]

/-- `⌊fl(N·fl(1/D))⌋` never exceeds `⌊N/D⌋`, is at most one below it, and equals it when `D ∤ N` -/
theorem floor_mul_relclose (N D : ℕ) (hD : 0 < D) (qa pr : ℚ) (hq : RelClose qa (1 / D))
    (hp : RelClose pr (N * qa)) (hN : N < 2 ^ 51) :
    ⌊pr⌋₊ ≤ N / D ∧ N / D ≤ ⌊pr⌋₊ + 1 ∧ (N % D ≠ 0 → ⌊pr⌋₊ = N / D) := by
  have hD' : (0 : ℚ) < D := by exact_mod_cast hD
  have hqpos : 0 < qa := hq.pos (by positivity)
  obtain ⟨hq1, hq2⟩ := hq.bounds
  obtain ⟨hp1, hp2⟩ := hp.bounds
  have hW1 : 1 - 1 / 2 ^ 53 ≤ qa * D := by
    have := mul_le_mul_of_nonneg_right hq1 hD'.le
    have e : 1 / (D : ℚ) * (1 - 1 / 2 ^ 53) * D = 1 - 1 / 2 ^ 53 := by field_simp
    rwa [e] at this
  have hW2 : qa * D ≤ 1 + 1 / 2 ^ 53 := by
    have := mul_le_mul_of_nonneg_right hq2 hD'.le
    have e : 1 / (D : ℚ) * (1 + 1 / 2 ^ 53) * D = 1 + 1 / 2 ^ 53 := by field_simp
    rwa [e] at this
  have hN0 : (0 : ℚ) ≤ N := by positivity
  have hNb : (N : ℚ) < 2 ^ 51 := by exact_mod_cast hN
  -- T = N·qa·D,  P = pr·D
  have hT1 : (N : ℚ) * (1 - 1 / 2 ^ 53) ≤ N * qa * D := by
    rw [mul_assoc]; exact mul_le_mul_of_nonneg_left hW1 hN0
  have hT2 : (N : ℚ) * qa * D ≤ N * (1 + 1 / 2 ^ 53) := by
    rw [mul_assoc]; exact mul_le_mul_of_nonneg_left hW2 hN0
  have hP1 : (N : ℚ) * qa * D * (1 - 1 / 2 ^ 53) ≤ pr * D := by
    have := mul_le_mul_of_nonneg_right hp1 hD'.le
    linarith
  have hP2 : pr * D ≤ (N : ℚ) * qa * D * (1 + 1 / 2 ^ 53) := by
    have := mul_le_mul_of_nonneg_right hp2 hD'.le
    linarith
  have hdm : (N : ℚ) = (D : ℚ) * (N / D : ℕ) + (N % D : ℕ) := by exact_mod_cast (Nat.div_add_mod N D).symm
  have hr : ((N % D : ℕ) : ℚ) + 1 ≤ D := by exact_mod_cast Nat.mod_lt N hD
  have hr0 : (0 : ℚ) ≤ (N % D : ℕ) := by positivity
  set k := N / D with hk
  set r := N % D with hrr
  have hpr0 : 0 ≤ pr := by
    have : 0 ≤ (N : ℚ) * qa * (1 - 1 / 2 ^ 53) := by positivity
    linarith
  -- pr < k + 1
  have hup : pr < (k : ℚ) + 1 := by
    have : pr * D < ((k : ℚ) + 1) * D := by nlinarith
    exact lt_of_mul_lt_mul_right this hD'.le
  have h1 : ⌊pr⌋₊ ≤ k := by
    have : ⌊pr⌋₊ < k + 1 := by
      rw [Nat.floor_lt hpr0]; push_cast; exact hup
    omega
  -- k - 1 ≤ pr
  have hlow : (k : ℚ) - 1 ≤ pr := by
    have : ((k : ℚ) - 1) * D ≤ pr * D := by nlinarith
    exact le_of_mul_le_mul_right this hD'
  have h2 : k ≤ ⌊pr⌋₊ + 1 := by
    rcases Nat.eq_zero_or_pos k with hk0 | hk0
    · omega
    · have : k - 1 ≤ ⌊pr⌋₊ := by
        rw [Nat.le_floor_iff hpr0]
        have : ((k - 1 : ℕ) : ℚ) = (k : ℚ) - 1 := by rw [Nat.cast_sub hk0]; simp
        rw [this]; exact hlow
      omega
  refine ⟨h1, h2, ?_⟩
  intro hne
  have hr1 : (1 : ℚ) ≤ (r : ℕ) := by
    have : 1 ≤ r := Nat.one_le_iff_ne_zero.2 hne
    exact_mod_cast this
  have hk' : (k : ℚ) ≤ pr := by
    have : (k : ℚ) * D ≤ pr * D := by nlinarith
    exact le_of_mul_le_mul_right this hD'
  have : k ≤ ⌊pr⌋₊ := by rw [Nat.le_floor_iff hpr0]; exact hk'
  omega

/-- `expected_batch_size = int(N·(1/L'))`: never above `⌊N/L'⌋`, at most one below, equal when `L' ∤ N` -/
theorem ebs_bounds (N L : ℕ) (hN : 0 < N) (hL : 0 < L) (hNb : N < 2 ^ 51) (hLb : L < 2 ^ 51) :
    ebs .asCoded N L ≤ N / lenDP .asCoded L ∧ N / lenDP .asCoded L ≤ ebs .asCoded N L + 1 ∧
    (N % lenDP .asCoded L ≠ 0 → ebs .asCoded N L = N / lenDP .asCoded L) := by
  have hp := lenDP_pos L hL hLb
  have hqa := qAcc_close L hL hLb
  have hD' : (0 : ℚ) < (lenDP .asCoded L : ℕ) := by exact_mod_cast hp
  have hqm : 0 < (qAcc .asCoded L).m := (val_pos_iff _).1 (hqa.pos (by positivity))
  have hN53 : N < 2 ^ 53 := lt_trans hNb (by norm_num)
  have hpr := fmul_val (ofNat N) (qAcc .asCoded L) (ofNat_m_pos N hN hN53) hqm
  rw [ofNat_val N hN hN53] at hpr
  have := floor_mul_relclose N (lenDP .asCoded L) hp _ _ hqa hpr hNb
  simpa [ebs, trunc_val] using this

end Opacus.Binary64
