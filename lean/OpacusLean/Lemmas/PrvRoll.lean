import OpacusLean.Lemmas.PrvWrap
import Mathlib.Tactic.Ring
import Mathlib.Tactic.Linarith
/-! the coded roll of `_compose_fourier` -/
set_option linter.unusedSectionVars false
namespace Opacus.Prv
open Finset Polynomial

variable {R : Type} [CommSemiring R]

theorem roll_size (a : Array R) (m : ℤ) : (roll a m).size = a.size := by simp [roll]

theorem roll_getD (a : Array R) (m : ℤ) (j : ℕ) (hj : j < a.size) :
    (roll a m).getD j 0 = a.getD ((((j : ℤ) - m) % (a.size : ℤ)).toNat) 0 := by
  unfold roll
  rw [getD_ofFn, dif_pos hj]

/-- the roll amount undoes `(n-1)` centre offsets: `m + (n-1)(N/2-1)` is a multiple of `N` -/
theorem rollAmount_spec (N n : ℕ) (hN : N % 2 = 0) (hN0 : 0 < N) (hn : 1 ≤ n) :
    ∃ k : ℕ, rollAmount N n + (((n - 1) * (N / 2 - 1) : ℕ) : ℤ) = (N : ℤ) * k := by
  obtain ⟨H, rfl⟩ : ∃ H, N = 2 * H := ⟨N / 2, by omega⟩
  have hH : 1 ≤ H := by omega
  have h2 : 2 * H / 2 = H := by omega
  unfold rollAmount
  rw [h2]
  rcases Nat.even_or_odd' n with ⟨k, rfl | rfl⟩
  · refine ⟨k, ?_⟩
    have hk : 1 ≤ k := by omega
    rw [if_pos (by omega)]
    have e1 : ((2 * k - 1 : ℕ) : ℤ) = 2 * (k : ℤ) - 1 := by omega
    have e2 : ((H - 1 : ℕ) : ℤ) = (H : ℤ) - 1 := by omega
    push_cast [e1, e2]
    ring
  · refine ⟨k, ?_⟩
    rw [if_neg (by omega)]
    have e1 : 2 * k + 1 - 1 = 2 * k := by omega
    have e2 : ((H - 1 : ℕ) : ℤ) = (H : ℤ) - 1 := by omega
    rw [e1]
    push_cast [e2]
    ring

theorem wrapZ_eq_sum_range' (N : ℕ) (P : R[X]) (M : ℕ) (hM : P.natDegree < M) (z : ZMod N) :
    wrapZ N P z = ∑ s ∈ range M, if (s : ZMod N) = z then P.coeff s else 0 := by
  unfold wrapZ
  rw [sum_over_range' P (by intro n; split_ifs <;> rfl) M hM]

theorem natDegree_toPoly_pow_lt (a : Array R) (h : 0 < a.size) (n : ℕ) :
    (toPoly a ^ n).natDegree < n * (a.size - 1) + 1 := by
  have h1 : (toPoly a).natDegree ≤ a.size - 1 := by
    have := natDegree_toPoly_lt a h; omega
  calc (toPoly a ^ n).natDegree ≤ n * (toPoly a).natDegree := natDegree_pow_le
    _ ≤ n * (a.size - 1) := Nat.mul_le_mul_left _ h1
    _ < _ := Nat.lt_succ_self _

/-- **roll correctness, raw form.**  With `N = a.size` even, `c = N/2 - 1` (the index of `t = 0`)
and `n ≥ 1`: entry `j` of `roll(cpow a n, rollAmount)` is the total mass of the n-fold *linear*
convolution at the indices `s` with `s - n·c ≡ j - c (mod N)` (written `s + c ≡ j + n·c`). -/
theorem roll_cpow_getD (a : Array R) (n : ℕ) (hN : a.size % 2 = 0) (hN0 : 0 < a.size) (hn : 1 ≤ n)
    (j : ℕ) (hj : j < a.size) :
    (roll (cpow a n) (rollAmount (cpow a n).size n)).getD j 0 =
      ∑ s ∈ range (n * (a.size - 1) + 1),
        if (s + (a.size / 2 - 1)) % a.size = (j + n * (a.size / 2 - 1)) % a.size
        then (toPoly a ^ n).coeff s else 0 := by
  have : NeZero a.size := ⟨hN0.ne'⟩
  set N := a.size with hNdef
  set c := N / 2 - 1 with hc
  rw [roll_getD _ _ _ (by rw [cpow_size]; exact hj), cpow_size]
  set m := rollAmount N n with hm
  set r := (((j : ℤ) - m) % (N : ℤ)).toNat with hr
  have hNpos : (0 : ℤ) < (N : ℤ) := by exact_mod_cast hN0
  have hr0 : 0 ≤ ((j : ℤ) - m) % (N : ℤ) := Int.emod_nonneg _ hNpos.ne'
  have hrN : r < N := by
    have : ((j : ℤ) - m) % (N : ℤ) < N := Int.emod_lt_of_pos _ hNpos
    omega
  have hrz : (r : ZMod N) = (j : ZMod N) - ((m : ℤ) : ZMod N) := by
    have : ((r : ℤ) : ZMod N) = ((((j : ℤ) - m) % (N : ℤ) : ℤ) : ZMod N) := by
      rw [hr, Int.toNat_of_nonneg hr0]
    rw [Int.cast_natCast] at this
    rw [this, ZMod.intCast_mod]; push_cast; ring
  obtain ⟨k, hk⟩ := rollAmount_spec N n hN hN0 hn
  have hmz : ((m : ℤ) : ZMod N) = - (((n - 1) * c : ℕ) : ZMod N) := by
    have : ((m + (((n - 1) * c : ℕ) : ℤ) : ℤ) : ZMod N) = (((N : ℤ) * k : ℤ) : ZMod N) := by rw [hk]
    push_cast at this
    rw [ZMod.natCast_self, zero_mul] at this
    rw [eq_neg_iff_add_eq_zero]; push_cast; exact this
  rw [← arrZ_natCast N _ r hrN, arrZ_cpow_eq_wrapZ N a rfl n,
    wrapZ_eq_sum_range' N _ _ (natDegree_toPoly_pow_lt a hN0 n)]
  refine Finset.sum_congr rfl fun s _ => ?_
  have hn' : n = (n - 1) + 1 := by omega
  have : ((s : ZMod N) = (r : ZMod N)) ↔ (s + c) % N = (j + n * c) % N := by
    rw [← ZMod.natCast_eq_natCast_iff', hrz, hmz]
    constructor
    · intro h
      rw [Nat.cast_add, h, hn']; push_cast; ring
    · intro h
      rw [hn'] at h
      push_cast at h
      have h' : (s : ZMod N) + c = ((j : ZMod N) + ((n - 1 : ℕ) : ZMod N) * c) + c := by
        rw [h]; ring
      have := add_right_cancel h'
      rw [this]; push_cast; ring
  by_cases h : (s : ZMod N) = (r : ZMod N)
  · rw [if_pos h, if_pos (this.mp h)]
  · rw [if_neg h, if_neg (fun h' => h (this.mpr h'))]

end Opacus.Prv
