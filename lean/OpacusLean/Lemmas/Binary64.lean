import OpacusLean.Model.Binary64
import Mathlib.Data.Rat.Floor
import Mathlib.Algebra.Order.Floor.Semifield
import Mathlib.Algebra.Order.Field.Power
import Mathlib.Tactic.Linarith
import Mathlib.Tactic.Positivity
import Mathlib.Tactic.FieldSimp
import Mathlib.Tactic.Ring
import Mathlib.Tactic.NormNum
/-! # The exact binary64 model denotes correctly rounded rationals

`B64.val` is the rational a model value denotes; `rne_rel_error`: the rounding of `p/q` is within
relative error `2^-53`; naturals below `2^53` are exact; `fdiv`/`fmul` inherit the bound; `trunc` is
the floor. -/
namespace Opacus.Binary64

/-- the rational a model value denotes -/
def B64.val (b : B64) : ℚ := (b.m : ℚ) * (2 : ℚ) ^ b.e

theorem pow2Le_iff (p q : ℕ) (hq : 0 < q) (k : ℤ) :
    pow2Le p q k = true ↔ (2 : ℚ) ^ k ≤ (p : ℚ) / q := by
  have hq' : (0 : ℚ) < q := by exact_mod_cast hq
  unfold pow2Le
  by_cases hk : k ≥ 0
  · simp only [hk, if_true, decide_eq_true_eq]
    obtain ⟨n, rfl⟩ := Int.eq_ofNat_of_zero_le hk
    simp only [Int.toNat_natCast, zpow_natCast]
    rw [le_div_iff₀ hq']
    constructor
    · intro h; have : ((q * 2 ^ n : ℕ) : ℚ) ≤ p := by exact_mod_cast h
      push_cast at this; linarith
    · intro h; have : ((q * 2 ^ n : ℕ) : ℚ) ≤ p := by push_cast; linarith
      exact_mod_cast this
  · simp only [hk, if_false, decide_eq_true_eq]
    have hk' : 0 ≤ -k := by omega
    obtain ⟨n, hn⟩ := Int.eq_ofNat_of_zero_le hk'
    have hkn : k = -(n : ℤ) := by omega
    rw [hn, hkn]
    simp only [Int.toNat_natCast, zpow_neg, zpow_natCast]
    rw [le_div_iff₀ hq']
    have h2 : (0 : ℚ) < 2 ^ n := by positivity
    constructor
    · intro h; have : ((q : ℕ) : ℚ) ≤ ((p * 2 ^ n : ℕ) : ℚ) := by exact_mod_cast h
      push_cast at this
      rw [inv_mul_le_iff₀ h2]; linarith
    · intro h
      rw [inv_mul_le_iff₀ h2] at h
      have : ((q : ℕ) : ℚ) ≤ ((p * 2 ^ n : ℕ) : ℚ) := by push_cast; linarith
      exact_mod_cast this


theorem ilog2_le (p q : ℕ) (hp : 0 < p) (hq : 0 < q) : (2 : ℚ) ^ (ilog2 p q) ≤ (p : ℚ) / q := by
  have hq' : (0 : ℚ) < q := by exact_mod_cast hq
  unfold ilog2
  simp only
  split
  · rename_i h; exact (pow2Le_iff p q hq _).1 h
  · have h1 : ((2 ^ p.log2 : ℕ) : ℚ) ≤ p := by exact_mod_cast Nat.log2_self_le hp.ne'
    have h2 : (q : ℚ) < ((2 ^ (q.log2 + 1) : ℕ) : ℚ) := by exact_mod_cast Nat.lt_log2_self
    push_cast at h1 h2
    have e : ((p.log2 : ℤ) - (q.log2 : ℤ) - 1) = (p.log2 : ℤ) - ((q.log2 + 1 : ℕ) : ℤ) := by push_cast; ring
    rw [e, zpow_sub₀ (by norm_num : (2 : ℚ) ≠ 0), zpow_natCast, zpow_natCast]
    have h3 : (0 : ℚ) < 2 ^ (q.log2 + 1) := by positivity
    rw [div_le_div_iff₀ h3 hq']
    have hp' : (0 : ℚ) ≤ 2 ^ p.log2 := by positivity
    nlinarith

theorem lt_ilog2 (p q : ℕ) (_hp : 0 < p) (hq : 0 < q) : (p : ℚ) / q < (2 : ℚ) ^ (ilog2 p q + 1) := by
  have hq' : (0 : ℚ) < q := by exact_mod_cast hq
  unfold ilog2
  simp only
  split
  · have h1 : (p : ℚ) < ((2 ^ (p.log2 + 1) : ℕ) : ℚ) := by exact_mod_cast Nat.lt_log2_self
    have h2 : ((2 ^ q.log2 : ℕ) : ℚ) ≤ q := by exact_mod_cast Nat.log2_self_le hq.ne'
    push_cast at h1 h2
    have e : ((p.log2 : ℤ) - (q.log2 : ℤ) + 1) = ((p.log2 + 1 : ℕ) : ℤ) - (q.log2 : ℤ) := by push_cast; ring
    rw [e, zpow_sub₀ (by norm_num : (2 : ℚ) ≠ 0), zpow_natCast, zpow_natCast]
    have h3 : (0 : ℚ) < 2 ^ q.log2 := by positivity
    rw [div_lt_div_iff₀ hq' h3]
    have hp' : (0 : ℚ) < 2 ^ (p.log2 + 1) := by positivity
    nlinarith
  · rename_i h
    have := (pow2Le_iff p q hq ((p.log2 : ℤ) - (q.log2 : ℤ))).not.1 h
    simpa using this


theorem scaled_val (p q : ℕ) (hq : 0 < q) (e : ℤ) :
    0 < (scaled p q e).2 ∧ ((scaled p q e).1 : ℚ) / (scaled p q e).2 = (p : ℚ) / q / (2 : ℚ) ^ e := by
  have hq' : (0 : ℚ) < q := by exact_mod_cast hq
  unfold scaled
  by_cases he : e ≥ 0
  · simp only [he, if_true]
    obtain ⟨n, rfl⟩ := Int.eq_ofNat_of_zero_le he
    simp only [Int.toNat_natCast, zpow_natCast]
    refine ⟨by positivity, ?_⟩
    push_cast
    rw [div_div]
  · simp only [he, if_false]
    have he' : 0 ≤ -e := by omega
    obtain ⟨n, hn⟩ := Int.eq_ofNat_of_zero_le he'
    have hen : e = -(n : ℤ) := by omega
    rw [hn, hen]
    simp only [Int.toNat_natCast, zpow_neg, zpow_natCast]
    refine ⟨hq, ?_⟩
    push_cast
    field_simp

theorem roundHalfEven_err (num den : ℕ) (hd : 0 < den) :
    |((roundHalfEven num den : ℕ) : ℚ) - (num : ℚ) / den| ≤ 1 / 2 := by
  have hd' : (0 : ℚ) < den := by exact_mod_cast hd
  have hdm : den * (num / den) + num % den = num := Nat.div_add_mod num den
  have hr : num % den < den := Nat.mod_lt _ hd
  have hx : (num : ℚ) / den = (num / den : ℕ) + ((num % den : ℕ) : ℚ) / den := by
    have : (num : ℚ) = (den : ℚ) * (num / den : ℕ) + (num % den : ℕ) := by exact_mod_cast hdm.symm
    rw [div_eq_iff hd'.ne', add_mul, div_mul_cancel₀ _ hd'.ne']
    linarith
  set fl := num / den with hfl
  set r := num % den with hrr
  have hr' : ((r : ℕ) : ℚ) < den := by exact_mod_cast hr
  have hr0 : (0 : ℚ) ≤ (r : ℚ) := by positivity
  unfold roundHalfEven
  simp only [← hfl, ← hrr]
  rw [hx, abs_le]
  by_cases h1 : 2 * r < den
  · simp only [h1, if_true]
    have : (2 : ℚ) * r < den := by exact_mod_cast h1
    have h2 : (r : ℚ) / den < 1 / 2 := by rw [div_lt_iff₀ hd']; linarith
    have h3 : (0 : ℚ) ≤ (r : ℚ) / den := by positivity
    constructor <;> linarith
  · simp only [h1, if_false]
    by_cases h2 : den < 2 * r
    · simp only [h2, if_true]
      have : (den : ℚ) < 2 * r := by exact_mod_cast h2
      have h3 : (1 : ℚ) / 2 < (r : ℚ) / den := by rw [lt_div_iff₀ hd']; linarith
      have h4 : (r : ℚ) / den < 1 := by rw [div_lt_one hd']; exact hr'
      push_cast
      constructor <;> linarith
    · simp only [h2, if_false]
      have heq : 2 * r = den := by omega
      have : (2 : ℚ) * r = den := by exact_mod_cast heq
      have h3 : (r : ℚ) / den = 1 / 2 := by rw [div_eq_iff hd'.ne']; linarith
      split
      · constructor <;> linarith
      · push_cast; constructor <;> linarith


theorem rne_val (p q : ℕ) (hp : 0 < p) :
    (rne p q).val =
      ((roundHalfEven (scaled p q (ilog2 p q - 52)).1 (scaled p q (ilog2 p q - 52)).2 : ℕ) : ℚ)
        * (2 : ℚ) ^ (ilog2 p q - 52) := by
  unfold rne
  simp only [hp.ne', if_false]
  split
  · rename_i h
    simp only [B64.val, h]
    rw [zpow_add₀ (by norm_num : (2 : ℚ) ≠ 0)]
    push_cast
    ring
  · simp only [B64.val]

/-- **rne_rel_error** — the model's rounding is within relative error `2^-53` of the exact quotient -/
theorem rne_rel_error (p q : ℕ) (hp : 0 < p) (hq : 0 < q) :
    |(rne p q).val - (p : ℚ) / q| ≤ (p : ℚ) / q / 2 ^ 53 := by
  rw [rne_val p q hp]
  set e := ilog2 p q - 52 with he
  obtain ⟨hs0, hs⟩ := scaled_val p q hq e
  have herr := roundHalfEven_err (scaled p q e).1 (scaled p q e).2 hs0
  rw [hs] at herr
  set m : ℚ := ((roundHalfEven (scaled p q e).1 (scaled p q e).2 : ℕ) : ℚ) with hm
  have h2e : (0 : ℚ) < (2 : ℚ) ^ e := by positivity
  set x : ℚ := (p : ℚ) / q with hx
  have hlow : (2 : ℚ) ^ (ilog2 p q) ≤ x := ilog2_le p q hp hq
  have hx52 : (2 : ℚ) ^ (52 : ℕ) ≤ x / (2 : ℚ) ^ e := by
    rw [le_div_iff₀ h2e, ← zpow_natCast, ← zpow_add₀ (by norm_num : (2 : ℚ) ≠ 0)]
    have : ((52 : ℕ) : ℤ) + e = ilog2 p q := by rw [he]; push_cast; ring
    rw [this]; exact hlow
  have hx' : x = x / (2 : ℚ) ^ e * (2 : ℚ) ^ e := by field_simp
  have : m * (2 : ℚ) ^ e - x = (m - x / (2 : ℚ) ^ e) * (2 : ℚ) ^ e := by
    rw [sub_mul, ← hx']
  rw [this, abs_mul, abs_of_pos h2e]
  have hb : (1 : ℚ) / 2 ≤ x / (2 : ℚ) ^ e / 2 ^ 53 := by
    rw [le_div_iff₀ (by positivity)]
    have : (1 : ℚ) / 2 * 2 ^ 53 = 2 ^ (52 : ℕ) := by norm_num
    rw [this]; exact hx52
  calc |m - x / (2 : ℚ) ^ e| * (2 : ℚ) ^ e ≤ (x / (2 : ℚ) ^ e / 2 ^ 53) * (2 : ℚ) ^ e :=
        mul_le_mul_of_nonneg_right (le_trans herr hb) h2e.le
    _ = x / 2 ^ 53 := by field_simp


/-- `x` is within relative error `2^-53` of `y` -/
def RelClose (x y : ℚ) : Prop := |x - y| ≤ y / 2 ^ 53

theorem roundHalfEven_one (num : ℕ) : roundHalfEven num 1 = num := by
  simp [roundHalfEven, Nat.mod_one]

theorem ilog2_nat_le (n : ℕ) (hn : 0 < n) (h : n < 2 ^ 53) : ilog2 n 1 ≤ 52 := by
  have h1 := ilog2_le n 1 hn Nat.one_pos
  have h2 : ((n : ℕ) : ℚ) < ((2 ^ 53 : ℕ) : ℚ) := by exact_mod_cast h
  push_cast at h1 h2
  rw [div_one] at h1
  have h3 : (2 : ℚ) ^ (ilog2 n 1) < (2 : ℚ) ^ ((53 : ℕ) : ℤ) := by
    rw [zpow_natCast]; exact lt_of_le_of_lt h1 h2
  have := (zpow_lt_zpow_iff_right₀ (by norm_num : (1 : ℚ) < 2)).1 h3
  push_cast at this
  omega

/-- naturals below `2^53` are represented exactly -/
theorem ofNat_val (n : ℕ) (hn : 0 < n) (h : n < 2 ^ 53) : (ofNat n).val = n := by
  unfold ofNat
  rw [rne_val n 1 hn]
  set e := ilog2 n 1 - 52 with he
  have hle : e ≤ 0 := by have := ilog2_nat_le n hn h; omega
  obtain ⟨_, hs⟩ := scaled_val n 1 Nat.one_pos e
  have hden : (scaled n 1 e).2 = 1 := by
    unfold scaled
    by_cases h0 : e ≥ 0
    · have : e = 0 := by omega
      simp [this]
    · simp [h0]
  rw [hden, roundHalfEven_one]
  rw [hden] at hs
  have h2e : (2 : ℚ) ^ e ≠ 0 := by positivity
  push_cast at hs
  rw [div_one, div_one] at hs
  rw [hs]; field_simp

theorem val_pos_iff (b : B64) : 0 < b.val ↔ 0 < b.m := by
  unfold B64.val
  have h2e : (0 : ℚ) < (2 : ℚ) ^ b.e := by positivity
  constructor
  · intro h
    rcases Nat.eq_zero_or_pos b.m with h0 | h0
    · rw [h0] at h; simp at h
    · exact h0
  · intro h; have : (0 : ℚ) < b.m := by exact_mod_cast h
    positivity

theorem RelClose.pos {x y : ℚ} (h : RelClose x y) (hy : 0 < y) : 0 < x := by
  unfold RelClose at h
  have := (abs_le.1 h).1
  have h2 : y / 2 ^ 53 < y := by
    rw [div_lt_iff₀ (by positivity)]; nlinarith
  linarith

/-- IEEE division is within relative error `2^-53` of the exact quotient -/
theorem fdiv_val (a b : B64) (ha : 0 < a.m) (hb : 0 < b.m) :
    RelClose (fdiv a b).val (a.val / b.val) := by
  unfold fdiv RelClose
  simp only [ha.ne', if_false]
  have hr := rne_rel_error a.m b.m ha hb
  have h2 : (0 : ℚ) < (2 : ℚ) ^ (a.e - b.e) := by positivity
  have hv : (⟨(rne a.m b.m).m, (rne a.m b.m).e + a.e - b.e⟩ : B64).val = (rne a.m b.m).val * (2 : ℚ) ^ (a.e - b.e) := by
    simp only [B64.val]
    rw [show (rne a.m b.m).e + a.e - b.e = (rne a.m b.m).e + (a.e - b.e) by ring,
      zpow_add₀ (by norm_num : (2 : ℚ) ≠ 0)]
    ring
  have hq : a.val / b.val = (a.m : ℚ) / b.m * (2 : ℚ) ^ (a.e - b.e) := by
    simp only [B64.val]
    rw [zpow_sub₀ (by norm_num : (2 : ℚ) ≠ 0)]
    have : (0 : ℚ) < b.m := by exact_mod_cast hb
    field_simp
  rw [hv, hq, ← sub_mul, abs_mul, abs_of_pos h2]
  calc |(rne a.m b.m).val - (a.m : ℚ) / b.m| * (2 : ℚ) ^ (a.e - b.e)
      ≤ ((a.m : ℚ) / b.m / 2 ^ 53) * (2 : ℚ) ^ (a.e - b.e) := mul_le_mul_of_nonneg_right hr h2.le
    _ = (a.m : ℚ) / b.m * (2 : ℚ) ^ (a.e - b.e) / 2 ^ 53 := by ring

/-- IEEE multiplication is within relative error `2^-53` of the exact product -/
theorem fmul_val (a b : B64) (ha : 0 < a.m) (hb : 0 < b.m) :
    RelClose (fmul a b).val (a.val * b.val) := by
  unfold fmul RelClose
  have hne : ¬ (a.m = 0 ∨ b.m = 0) := by omega
  simp only [hne, if_false]
  have hr := rne_rel_error (a.m * b.m) 1 (Nat.mul_pos ha hb) Nat.one_pos
  have h2 : (0 : ℚ) < (2 : ℚ) ^ (a.e + b.e) := by positivity
  have hv : (⟨(rne (a.m * b.m) 1).m, (rne (a.m * b.m) 1).e + a.e + b.e⟩ : B64).val
      = (rne (a.m * b.m) 1).val * (2 : ℚ) ^ (a.e + b.e) := by
    simp only [B64.val]
    rw [show (rne (a.m * b.m) 1).e + a.e + b.e = (rne (a.m * b.m) 1).e + (a.e + b.e) by ring,
      zpow_add₀ (by norm_num : (2 : ℚ) ≠ 0)]
    ring
  have hq : a.val * b.val = ((a.m * b.m : ℕ) : ℚ) / (1 : ℕ) * (2 : ℚ) ^ (a.e + b.e) := by
    simp only [B64.val]
    rw [zpow_add₀ (by norm_num : (2 : ℚ) ≠ 0)]
    push_cast
    ring
  rw [hv, hq, ← sub_mul, abs_mul, abs_of_pos h2]
  calc |(rne (a.m * b.m) 1).val - ((a.m * b.m : ℕ) : ℚ) / (1 : ℕ)| * (2 : ℚ) ^ (a.e + b.e)
      ≤ (((a.m * b.m : ℕ) : ℚ) / (1 : ℕ) / 2 ^ 53) * (2 : ℚ) ^ (a.e + b.e) := mul_le_mul_of_nonneg_right hr h2.le
    _ = ((a.m * b.m : ℕ) : ℚ) / (1 : ℕ) * (2 : ℚ) ^ (a.e + b.e) / 2 ^ 53 := by ring

/-- Python `int(x)` is the floor of the denoted rational -/
theorem trunc_val (b : B64) : trunc b = ⌊b.val⌋₊ := by
  unfold trunc B64.val
  by_cases he : b.e ≥ 0
  · simp only [he, if_true]
    obtain ⟨n, hn⟩ := Int.eq_ofNat_of_zero_le he
    rw [hn]
    simp only [Int.toNat_natCast, zpow_natCast]
    have : (b.m : ℚ) * 2 ^ n = ((b.m * 2 ^ n : ℕ) : ℚ) := by push_cast; ring
    rw [this, Nat.floor_natCast]
  · simp only [he, if_false]
    have he' : 0 ≤ -b.e := by omega
    obtain ⟨n, hn⟩ := Int.eq_ofNat_of_zero_le he'
    have hen : b.e = -(n : ℤ) := by omega
    rw [hn, hen]
    simp only [Int.toNat_natCast, zpow_neg, zpow_natCast]
    have : (b.m : ℚ) * ((2 : ℚ) ^ n)⁻¹ = (b.m : ℚ) / ((2 ^ n : ℕ) : ℚ) := by push_cast; rw [div_eq_mul_inv]
    rw [this, Nat.floor_div_eq_div]

end Opacus.Binary64
