import OpacusLean.Lemmas.RnnTop
set_option linter.unusedSimpArgs false
namespace Opacus.Rnn
variable {α β γ V S : Type}

/-! ### `transpose(0, 1)` of a rectangular tensor -/

theorem filterMap_range_getElem? (l : List α) : (List.range l.length).filterMap (l[·]?) = l := by
  induction l with
  | nil => rfl
  | cons a l ih =>
    rw [List.length_cons, List.range_succ_eq_map, List.filterMap_cons]
    simp only [List.getElem?_cons_zero, List.filterMap_map]
    congr 1

theorem pairwise_ge_replicate (n a : Nat) : (List.replicate n a).Pairwise (· ≥ ·) := by
  rw [List.pairwise_replicate]; omega

/-- `m` = `A` rows of `T` entries (`A ≥ 1`): the transpose has `T` rows of `A` entries … -/
theorem shape_transpose {m : List (List α)} {A T : Nat} (hA : 0 < A)
    (hm : m.map List.length = List.replicate A T) :
    (transpose m).map List.length = List.replicate T A := by
  have hhead : (m.headD []).length = T := by
    cases m with
    | nil => cases A <;> simp at hm hA
    | cons r m =>
      cases A with
      | zero => simp at hA
      | succ A => simp [List.replicate_succ] at hm; simp [hm.1]
  unfold transpose
  rw [hhead, List.map_map]
  apply List.ext_getElem?
  intro t
  by_cases ht : t < T
  · simp [ht, length_seqOf, hm, List.countP_replicate]
  · simp [ht, List.getElem?_eq_none_iff.mpr]

/-- … and its column `j` is row `j` of `m` -/
theorem seqOf_transpose {m : List (List α)} {A T : Nat} (hA : 0 < A)
    (hm : m.map List.length = List.replicate A T) {j : Nat} {row : List α} (hj : m[j]? = some row) :
    seqOf (transpose m) j = row := by
  have hhead : (m.headD []).length = T := by
    cases m with
    | nil => cases A <;> simp at hm hA
    | cons r m =>
      cases A with
      | zero => simp at hA
      | succ A => simp [List.replicate_succ] at hm; simp [hm.1]
  have hrow : row.length = T := by
    have : row.length ∈ m.map List.length := List.mem_map_of_mem (List.mem_of_getElem? hj)
    rw [hm] at this; exact (List.mem_replicate.mp this).2
  have hp : (m.map List.length).Pairwise (· ≥ ·) := by rw [hm]; exact pairwise_ge_replicate _ _
  unfold transpose seqOf
  rw [hhead, List.filterMap_map]
  have : ((fun x : List α => x[j]?) ∘ fun (i : Nat) => List.filterMap (fun x => x[i]?) m) = fun t => row[t]? := by
    funext t
    have := seqOf_getElem? hp t j
    simp only [seqOf] at this
    simp [Function.comp, this, hj]
  rw [this, ← hrow]
  exact filterMap_range_getElem? row

theorem transpose_getElem? {o : List (List α)} {B : Nat} (hB : (o.headD []).length = B) {j : Nat} (hj : j < B) :
    (transpose o)[j]? = some (seqOf o j) := by
  unfold transpose
  rw [hB, List.getElem?_map, List.getElem?_range hj]; rfl

/-- sequence `j` of a padded batch: row `j` if `batch_first`, column `j` otherwise -/
def padSeq (batchFirst : Bool) (t : List (List α)) (j : Nat) : List α :=
  if batchFirst then t.getD j [] else seqOf t j

end Opacus.Rnn
