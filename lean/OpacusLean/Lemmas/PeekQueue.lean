import OpacusLean.Model.PeekQueue
namespace Opacus.PeekQueue

/-- generalised invariant: starting from a queue `q` (signals pushed but not yet consumed) -/
theorem run_from (q : List Bool) (nz : List Bool) (ops : List Op) (h : ahead q.length ops = true) :
    (ops.foldl step ⟨q, nz⟩).noised = nz ++ ((q ++ pushed ops).take (batches ops)).map (!·) ∧
    (ops.foldl step ⟨q, nz⟩).queue = (q ++ pushed ops).drop (batches ops) := by
  induction ops generalizing q nz with
  | nil => simp [pushed, batches]
  | cons o ops ih =>
    cases o with
    | push b =>
      simp only [List.foldl_cons, step, pushed, batches]
      have := ih (q ++ [b]) nz (by simpa [ahead] using h)
      simpa [List.append_assoc] using this
    | batch =>
      cases q with
      | nil => simp [ahead] at h
      | cons a q =>
        simp only [List.foldl_cons, step, pushed, batches, peek, List.headD_cons, List.drop_succ_cons, List.drop_zero]
        have := ih q (nz ++ [!a]) (by simpa [ahead] using h)
        constructor
        · rw [this.1]; simp [List.take_succ_cons, List.append_assoc]
        · rw [this.2]; simp

end Opacus.PeekQueue
