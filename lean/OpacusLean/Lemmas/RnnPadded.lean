import OpacusLean.Lemmas.RnnLayer
set_option linter.unusedSimpArgs false
namespace Opacus.Rnn
variable {α β X S : Type}

/-! ### padded path -/

theorem padded_scan (cell : X → S → S) :
    ∀ (xs : List (List X)) (h : List S), (∀ x ∈ xs, x.length = h.length) →
      (scanSteps (stepPadded cell) h xs).map List.length = xs.map List.length ∧
      ∀ i s, h[i]? = some s →
        seqOf (scanSteps (stepPadded cell) h xs) i = scanCell cell s (seqOf xs i) := by
  intro xs
  induction xs with
  | nil => intro h _; exact ⟨rfl, fun i s _ => rfl⟩
  | cons x xs ih =>
    intro h hb
    have hxl : x.length = h.length := hb x (by simp)
    have hlen : (stepPadded cell h x).length = x.length := by
      simp [stepPadded, List.length_zipWith, hxl]
    obtain ⟨ihs, ihv⟩ := ih (stepPadded cell h x) (fun y hy => by rw [hlen, hxl]; exact hb y (by simp [hy]))
    refine ⟨by simp [scanSteps, hlen, ihs], ?_⟩
    intro i s hs
    have hi : i < x.length := by rw [hxl]; exact lt_of_getElem?_eq_some hs
    have hxi : x[i]? = some (x[i]) := List.getElem?_eq_getElem hi
    have hrow : (stepPadded cell h x)[i]? = some (cell x[i] s) := by
      simp [stepPadded, List.getElem?_zipWith, hxi, hs]
    simp only [scanSteps]
    rw [seqOf_cons_some hrow, seqOf_cons_some hxi, ihv i _ hrow]
    rfl

theorem layerPadded_refines (B T' : Nat) :
    LayerRefines (X := X) (S := S) id B (B :: List.replicate T' B) layerPadded := by
  intro cell h0 x rev h0len hsh
  have hxne : x ≠ [] := by intro h; subst h; simp at hsh
  have hall : ∀ y ∈ x, y.length = h0.length := by
    intro y hy
    have : y.length ∈ B :: List.replicate T' B := by rw [← hsh]; exact List.mem_map_of_mem hy
    rw [h0len]
    rcases List.mem_cons.mp this with h | h
    · exact h
    · exact (List.mem_replicate.mp h).2
  -- the order in which the steps are consumed
  obtain ⟨xs, hxs, hxsmem, hxseq⟩ : ∃ xs : List (List X), xs = (if rev then x.reverse else x) ∧
      (∀ y ∈ xs, y.length = h0.length) ∧
      (∀ i, seqOf xs i = if rev then (seqOf x i).reverse else seqOf x i) := by
    refine ⟨_, rfl, ?_, ?_⟩
    · cases rev <;> simp <;> exact hall
    · intro i; cases rev <;> simp [seqOf_reverse]
  have hxsne : xs ≠ [] := by rw [hxs]; cases rev <;> simp [hxne]
  obtain ⟨hshape, hseq⟩ := padded_scan cell xs h0 hxsmem
  have hne' : scanSteps (stepPadded cell) h0 xs ≠ [] := by
    intro h; rw [h] at hshape; simp at hshape; exact hxsne hshape
  have hgl := List.getLast?_eq_some_getLast hne'
  have hlastlen : ((scanSteps (stepPadded cell) h0 xs).getLast hne').length = B := by
    have hm : (scanSteps (stepPadded cell) h0 xs).getLast hne' ∈ scanSteps (stepPadded cell) h0 xs :=
      List.getLast_mem hne'
    have : ((scanSteps (stepPadded cell) h0 xs).getLast hne').length ∈ xs.map List.length := by
      rw [← hshape]; exact List.mem_map_of_mem hm
    obtain ⟨y, hy, hyl⟩ := List.mem_map.mp this
    rw [← hyl, hxsmem y hy, h0len]
  have key : ∀ i s, h0[i]? = some s →
      ((scanSteps (stepPadded cell) h0 xs).getLast hne')[i]? = some ((seqOf xs i).foldl (fun s x => cell x s) s) := by
    intro i s hs
    have hi : i < B := by rw [← h0len]; exact lt_of_getElem?_eq_some hs
    have hrow : ((scanSteps (stepPadded cell) h0 xs).getLast hne')[i]? =
        some (((scanSteps (stepPadded cell) h0 xs).getLast hne')[i]'(by omega)) :=
      List.getElem?_eq_getElem (by omega)
    have h2 := seqOf_getLast? hgl hrow
    rw [hseq i s hs] at h2
    have hne : seqOf xs i ≠ [] := by
      intro h; rw [h] at h2; simp [scanCell] at h2
    rw [scanCell_getLast? cell s _ hne] at h2
    rw [hrow, h2]
  refine ⟨if rev then (scanSteps (stepPadded cell) h0 xs).reverse else scanSteps (stepPadded cell) h0 xs,
    (scanSteps (stepPadded cell) h0 xs).getLast hne', ?_, ?_, hlastlen, ?_⟩
  · simp only [layerPadded, ← hxs, hgl]
  · cases rev
    · simp at hxs; subst hxs; simpa using hshape.trans hsh
    · simp at hxs; subst hxs
      simp only [if_true, List.map_reverse, hshape, List.reverse_reverse]
      exact hsh
  · intro i s hs
    refine ⟨?_, ?_⟩
    · cases rev
      · simp [specDir, hseq i s hs, hxseq i]
      · simp [specDir, seqOf_reverse, hseq i s hs, hxseq i]
    · rw [key i s hs, hxseq i]; cases rev <;> simp [specDir]

end Opacus.Rnn
