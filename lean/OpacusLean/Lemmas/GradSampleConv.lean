import OpacusLean.Model.GradSampleConv
import OpacusLean.Lemmas.GradSample
import Mathlib.Logic.Equiv.Fin.Basic
import Mathlib.Algebra.BigOperators.Group.Finset.Basic
import Mathlib.Tactic.Ring
import Mathlib.Tactic.Linarith
/-! Index lemmas behind `unfold2d` / `unfold3d` / the group diagonal, and the patch-level adjoint. -/
namespace Opacus.GS

/-! ### row-major decode -/

theorem decode_div {i j n : Nat} (hj : j < n) : (i * n + j) / n = i := by
  have hn : 0 < n := Nat.lt_of_le_of_lt (Nat.zero_le _) hj
  rw [Nat.add_comm, Nat.add_mul_div_right _ _ hn, Nat.div_eq_of_lt hj, Nat.zero_add]

theorem decode_mod {i j n : Nat} (hj : j < n) : (i * n + j) % n = j := by
  rw [Nat.add_comm, Nat.add_mul_mod_self_right, Nat.mod_eq_of_lt hj]

/-- a sum over the merged axis `Fin (m·n)` is the double sum (row-major merge) -/
theorem sum_flatten {M : Type} [AddCommMonoid M] (m n : Nat) (F : Nat → Nat → M) :
    ∑ q : Fin (m * n), F (q.val / n) (q.val % n) = ∑ i : Fin m, ∑ j : Fin n, F i.val j.val := by
  rw [← Fintype.sum_prod_type']
  refine (Fintype.sum_equiv finProdFinEquiv _ _ ?_).symm
  rintro ⟨i, j⟩
  have h1 : (j.val + n * i.val) / n = i.val := by
    rw [Nat.mul_comm, Nat.add_comm]; exact decode_div j.isLt
  have h2 : (j.val + n * i.val) % n = j.val := by
    rw [Nat.mul_comm, Nat.add_comm]; exact decode_mod j.isLt
  simp [finProdFinEquiv, h1, h2]

/-- the windows never leave the padded axis -/
theorem window_in_range {lp k d s h kh : Nat} (_hs : 0 < s) (hfit : dilatedKernel k d ≤ lp)
    (hh : h < outLen lp k d s) (hk : kh < k) : h * s + kh * d < lp := by
  unfold outLen at hh
  have h1 : h * s ≤ lp - dilatedKernel k d := by
    have : h ≤ (lp - dilatedKernel k d) / s := Nat.lt_succ_iff.mp hh
    calc h * s ≤ (lp - dilatedKernel k d) / s * s := Nat.mul_le_mul_right _ this
      _ ≤ lp - dilatedKernel k d := Nat.div_mul_le_self _ _
  have h2 : kh * d + 1 ≤ dilatedKernel k d := by
    unfold dilatedKernel
    obtain ⟨k', rfl⟩ : ∃ k', k = k' + 1 := ⟨k - 1, by omega⟩
    have hk' : kh ≤ k' := by omega
    simp only [Nat.add_sub_cancel]
    rcases d with _ | d'
    · simp
    · simp only [Nat.add_sub_cancel]
      calc kh * (d' + 1) + 1 ≤ k' * (d' + 1) + 1 := by
            have := Nat.mul_le_mul_right (d' + 1) hk'; omega
        _ = k' + 1 + k' * d' := by ring
  omega

/-! ### `as_strided` in `unfold2d` -/

theorem unfold2dView_asCoded {R : Type} (st : Strides4) (Wp d0 d1 s0 s1 : Nat) (mem : Nat → R)
    (hrow : st.h = Wp ∧ st.w = 1) (n c kh kw h w : Nat) :
    unfold2dView .asCoded st Wp d0 d1 s0 s1 mem n c kh kw h w
      = mem (st.addr n c (h * s0 + kh * d0) (w * s1 + kw * d1)) := by
  obtain ⟨h1, h2⟩ := hrow
  simp only [unfold2dView, Strides4.addr, h1, h2]
  congr 1; ring

theorem unfold2dView_repaired {R : Type} (st : Strides4) (Wp d0 d1 s0 s1 : Nat) (mem : Nat → R)
    (n c kh kw h w : Nat) :
    unfold2dView .repaired st Wp d0 d1 s0 s1 mem n c kh kw h w
      = mem (st.addr n c (h * s0 + kh * d0) (w * s1 + kw * d1)) := by
  simp only [unfold2dView, Strides4.addr]
  congr 1; ring

/-! ### storage -/

/-- cells that share an address carry the same value (true for every view of a real tensor;
injective addressing – contiguous, channels_last, permuted, sliced – is the special case) -/
def Faithful {R : Type} (st : Strides4) (N C H W : Nat) (xp : Nat → Nat → Nat → Nat → R) : Prop :=
  ∀ n c i j n' c' i' j', n < N → c < C → i < H → j < W → n' < N → c' < C → i' < H → j' < W →
    st.addr n c i j = st.addr n' c' i' j' → xp n c i j = xp n' c' i' j'

theorem findSome_range {α : Type} (n : Nat) (f : Nat → Option α) :
    ((List.range n).findSome? f = none ∧ ∀ i < n, f i = none) ∨
    (∃ i < n, ∃ v, f i = some v ∧ (List.range n).findSome? f = some v) := by
  cases h : (List.range n).findSome? f with
  | none =>
    left; refine ⟨rfl, fun i hi => ?_⟩
    rw [List.findSome?_eq_none_iff] at h
    exact h i (List.mem_range.mpr hi)
  | some v =>
    right
    obtain ⟨i, hi, hv⟩ := List.exists_of_findSome?_eq_some h
    exact ⟨i, List.mem_range.mp hi, v, hv, rfl⟩

theorem memOf_addr {R : Type} [Zero R] (st : Strides4) (N C H W : Nat) (xp : Nat → Nat → Nat → Nat → R)
    (hf : Faithful st N C H W xp) {n c i j : Nat} (hn : n < N) (hc : c < C) (hi : i < H) (hj : j < W) :
    memOf st N C H W xp (st.addr n c i j) = xp n c i j := by
  unfold memOf
  simp only
  rcases findSome_range N (fun n' => (List.range C).findSome? fun c' => (List.range H).findSome? fun i' =>
      (List.range W).findSome? fun j' => if st.addr n' c' i' j' = st.addr n c i j then some (xp n' c' i' j') else none) with ⟨_, h0⟩ | ⟨n', hn', v, hv, hres⟩
  · exfalso
    have := h0 n hn
    rcases findSome_range C (fun c' => (List.range H).findSome? fun i' =>
      (List.range W).findSome? fun j' => if st.addr n c' i' j' = st.addr n c i j then some (xp n c' i' j') else none) with ⟨_, h1⟩ | ⟨_, _, _, hv1, hr1⟩
    · have := h1 c hc
      rcases findSome_range H (fun i' =>
        (List.range W).findSome? fun j' => if st.addr n c i' j' = st.addr n c i j then some (xp n c i' j') else none) with ⟨_, h2⟩ | ⟨_, _, _, hv2, hr2⟩
      · have := h2 i hi
        rcases findSome_range W (fun j' => if st.addr n c i j' = st.addr n c i j then some (xp n c i j') else none) with ⟨_, h3⟩ | ⟨_, _, _, hv3, hr3⟩
        · have := h3 j hj; simp at this
        · rw [hr3] at this; cases this
      · rw [hr2] at this; cases this
    · rw [hr1] at this; cases this
  · rw [hres]
    simp only [Option.getD_some]
    obtain ⟨c', hc', hv⟩ := List.exists_of_findSome?_eq_some hv
    obtain ⟨i', hi', hv⟩ := List.exists_of_findSome?_eq_some hv
    obtain ⟨j', hj', hv⟩ := List.exists_of_findSome?_eq_some hv
    split_ifs at hv with heq
    · cases hv
      exact hf n' c' i' j' n c i j hn' (List.mem_range.mp hc') (List.mem_range.mp hi') (List.mem_range.mp hj') hn hc hi hj heq

/-- mixed-radix encoding is injective: contiguous storage is faithful for every tensor -/
theorem faithful_rowMajor {R : Type} (N C H W : Nat) (xp : Nat → Nat → Nat → Nat → R) :
    Faithful (Strides4.rowMajor C H W) N C H W xp := by
  intro n c i j n' c' i' j' _ hc hi hj _ hc' hi' hj' h
  simp only [Strides4.addr, Strides4.rowMajor] at h
  have e : ∀ a b x y : Nat, a * (C * H * W) + b * (H * W) + x * W + y * 1 = ((a * C + b) * H + x) * W + y := by
    intros; ring
  rw [e, e] at h
  have hj0 : j = j' := by
    have := congrArg (· % W) h
    simpa [decode_mod hj, decode_mod hj'] using this
  have h1 : (n * C + c) * H + i = (n' * C + c') * H + i' := by
    have := congrArg (· / W) h
    simpa [decode_div hj, decode_div hj'] using this
  have hi0 : i = i' := by
    have := congrArg (· % H) h1
    simpa [decode_mod hi, decode_mod hi'] using this
  have h2 : n * C + c = n' * C + c' := by
    have := congrArg (· / H) h1
    simpa [decode_div hi, decode_div hi'] using this
  have hc0 : c = c' := by
    have := congrArg (· % C) h2
    simpa [decode_mod hc, decode_mod hc'] using this
  have hn0 : n = n' := by
    have := congrArg (· / C) h2
    simpa [decode_div hc, decode_div hc'] using this
  subst hj0 hi0 hc0 hn0; rfl

theorem faithful_channelsLast {R : Type} (N C H W : Nat) (xp : Nat → Nat → Nat → Nat → R) :
    Faithful (Strides4.channelsLast C H W) N C H W xp := by
  intro n c i j n' c' i' j' _ hc hi hj _ hc' hi' hj' h
  simp only [Strides4.addr, Strides4.channelsLast] at h
  have e : ∀ a b x y : Nat, a * (H * W * C) + b * 1 + x * (W * C) + y * C = ((a * H + x) * W + y) * C + b := by
    intros; ring
  rw [e, e] at h
  have hc0 : c = c' := by
    have := congrArg (· % C) h
    simpa [decode_mod hc, decode_mod hc'] using this
  have h1 : (n * H + i) * W + j = (n' * H + i') * W + j' := by
    have := congrArg (· / C) h
    simpa [decode_div hc, decode_div hc'] using this
  have hj0 : j = j' := by
    have := congrArg (· % W) h1
    simpa [decode_mod hj, decode_mod hj'] using this
  have h2 : n * H + i = n' * H + i' := by
    have := congrArg (· / W) h1
    simpa [decode_div hj, decode_div hj'] using this
  have hi0 : i = i' := by
    have := congrArg (· % H) h2
    simpa [decode_mod hi, decode_mod hi'] using this
  have hn0 : n = n' := by
    have := congrArg (· / H) h2
    simpa [decode_div hi, decode_div hi'] using this
  subst hj0 hi0 hc0 hn0; rfl

/-! ### the group diagonal -/

theorem conv_groups_diag {R : Type} [Add R] [Mul R] [Zero R] (G Og Cg K Q : Nat) (b unf : Nat → Nat → Nat → R)
    (n : Nat) {o ci k : Nat} (ho : o < G * Og) (hci : ci < Cg) (hk : k < K) :
    convWeightGS G Og Cg K Q b unf n o ci k = convOuter Q b unf n o (((o / Og) * Cg + ci) * K + k) := by
  have hOg : 0 < Og := by
    rcases Nat.eq_zero_or_pos Og with h | h
    · subst h; simp at ho
    · exact h
  have hg : o / Og < G := by
    rw [Nat.div_lt_iff_lt_mul hOg]; exact ho
  have hsmall : ((o / Og) * Cg + ci) * K + k < G * Cg * K := by
    have h1 : (o / Og) * Cg + ci < G * Cg := by
      calc (o / Og) * Cg + ci < (o / Og) * Cg + Cg := by omega
        _ = (o / Og + 1) * Cg := by ring
        _ ≤ G * Cg := Nat.mul_le_mul_right _ hg
    calc ((o / Og) * Cg + ci) * K + k < ((o / Og) * Cg + ci) * K + K := by omega
      _ = ((o / Og) * Cg + ci + 1) * K := by ring
      _ ≤ G * Cg * K := Nat.mul_le_mul_right _ h1
  have hidx : ((((o / Og) * Og + o % Og) * G + o / Og) * Cg + ci) * K + k
      = o * (G * Cg * K) + (((o / Og) * Cg + ci) * K + k) := by
    have : (o / Og) * Og + o % Og = o := by rw [Nat.mul_comm]; exact Nat.div_add_mod o Og
    rw [this]; ring
  simp only [convWeightGS]
  rw [hidx, decode_div hsmall, decode_mod hsmall]

/-! ### patch-level adjoint (common to Conv1d/2d/3d) -/

theorem convCore_adjoint {R : Type} [CommRing R] (O Og Cg K Q : Nat) (w : Nat → Nat → Nat → R) (bias : Nat → R)
    (patch : Nat → Nat → R) (b : Nat → Nat → R) :
    (∑ o : Fin O, ∑ q : Fin Q, b o.val q.val * convFwdCore Og Cg K w bias patch o.val q.val)
      = (∑ o : Fin O, ∑ ci : Fin Cg, ∑ k : Fin K,
          (∑ q : Fin Q, b o.val q.val * patch (((o.val / Og) * Cg + ci.val) * K + k.val) q.val) * w o.val ci.val k.val)
        + ∑ o : Fin O, (∑ q : Fin Q, b o.val q.val) * bias o.val := by
  simp only [convFwdCore, sumFin_eq_sum, mul_add, Finset.sum_add_distrib, Finset.mul_sum, Finset.sum_mul]
  congr 1
  refine Finset.sum_congr rfl fun o _ => ?_
  rw [Finset.sum_comm]
  refine Finset.sum_congr rfl fun ci _ => ?_
  rw [Finset.sum_comm]
  refine Finset.sum_congr rfl fun k _ => Finset.sum_congr rfl fun q _ => ?_
  ring

end Opacus.GS
