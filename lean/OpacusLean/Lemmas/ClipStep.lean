import OpacusLean.Model.ClipStep
import OpacusLean.Lemmas.ClipReal
import OpacusLean.Lemmas.ClipGhost
/-! Lemmas about the step machine instantiated with the real-valued clip model. -/
namespace Opacus.Step
open Opacus.Clip Opacus.Ghost

section generic
variable {G : Type}

theorem foldl_backward (bws : List (List G)) (st : St G) :
    bws.foldl backward st = { st with gradSample := st.gradSample ++ bws } := by
  induction bws generalizing st with
  | nil => simp
  | cons b bs ih => simp [List.foldl_cons, ih, backward, List.append_assoc]

/-- `summed_grad` as the next `clip_and_accumulate` will see it after a `zero_grad()` -/
def effSummed (st : St G) : Option G := if st.lastSkipped then st.summed else none

end generic

section real
variable {P : Nat} {d : Fin P → Nat}

/-- the carrier of the theorems: real-valued gradients -/
noncomputable abbrev rc (d : Fin P → Nat) (m : Mode ℝ P) : Carrier (Grad ℝ d) ℝ :=
  modelCarrier d m (fun n => (n : ℝ))

/-- old `summed_grad` plus the clipped sum of `samples` -/
noncomputable def accTo (m : Mode ℝ P) (sg : Option (Grad ℝ d)) (samples : List (Grad ℝ d)) : Grad ℝ d :=
  match sg with
  | none => batchSum m samples
  | some s => gadd s (batchSum m samples)

theorem clipAndAccumulate_eq (m : Mode ℝ P) (sg : Option (Grad ℝ d)) (l : List (Grad ℝ d)) :
    clipAndAccumulate m sg l = some (accTo m sg l) := by
  cases sg <;> rfl

theorem accTo_accTo (m : Mode ℝ P) (sg : Option (Grad ℝ d)) (l₁ l₂ : List (Grad ℝ d)) :
    accTo m (some (accTo m sg l₁)) l₂ = accTo m sg (l₁ ++ l₂) := by
  cases sg with
  | none => simp [accTo, batchSum_append]
  | some s => simp only [accTo, batchSum_append]; funext k i; simp [gadd, add_assoc]

/-- one physical step from a state whose skip queue is empty -/
theorem physStep_spec (m : Mode ℝ P) (red : Reduction) (E : Nat) (z : Grad ℝ d) (st : St (Grad ℝ d))
    (hq : st.skipQueue = []) (skip : Bool) (bws : List (List (Grad ℝ d))) (hb : bws ≠ []) :
    preStep (rc d m) red E z (bws.foldl backward (signalSkip (zeroGrad st) skip)) =
      some (if skip then
              { gradSample := bws, summed := some (accTo m (effSummed st) bws.flatten), grad := none,
                skipQueue := [], lastSkipped := true }
            else
              { gradSample := bws, summed := some (accTo m (effSummed st) bws.flatten),
                grad := some (release (rc d m) red E bws.length (accTo m (effSummed st) bws.flatten) z),
                skipQueue := [], lastSkipped := false }, !skip) := by
  have hne : (bws.isEmpty) = false := by cases bws <;> simp_all
  rw [foldl_backward]
  simp only [preStep, signalSkip, zeroGrad, hq, List.nil_append, hne, Bool.false_eq_true, if_false,
    modelCarrier, clipAndAccumulate_eq, popSkip, effSummed]
  cases skip <;> simp

theorem runLogical_spec (m : Mode ℝ P) (red : Reduction) (E : Nat) (z : Grad ℝ d)
    (phys : List (List (List (Grad ℝ d)))) (hne : phys ≠ []) (hb : ∀ bws ∈ phys, bws ≠ [])
    (st : St (Grad ℝ d)) (hq : st.skipQueue = []) :
    ∃ st', runLogical (rc d m) red E z phys st = some st' ∧
      st'.summed = some (accTo m (effSummed st) phys.flatten.flatten) ∧
      st'.grad = some (release (rc d m) red E (phys.getLast hne).length
                        (accTo m (effSummed st) phys.flatten.flatten) z) := by
  induction phys generalizing st with
  | nil => exact absurd rfl hne
  | cons bws rest ih =>
    have hbws : bws ≠ [] := hb bws List.mem_cons_self
    cases rest with
    | nil =>
      simp only [runLogical, physStep_spec m red E z st hq false bws hbws]
      simp
    | cons b2 rest' =>
      rw [runLogical, physStep_spec m red E z st hq true bws hbws]
      · simp only [if_true]
        obtain ⟨st', h1, h2, h3⟩ := ih (by simp) (fun x hx => hb x (List.mem_cons_of_mem _ hx))
          { gradSample := bws, summed := some (accTo m (effSummed st) bws.flatten), grad := none,
            skipQueue := [], lastSkipped := true } rfl
        refine ⟨st', h1, ?_, ?_⟩
        · rw [h2]; simp [effSummed, accTo_accTo]
        · rw [h3]; simp [effSummed, accTo_accTo]
      · simp


theorem foldl_clipAndAccumulate (m : Mode ℝ P) (sg : Option (Grad ℝ d)) (bs : List (List (Grad ℝ d)))
    (h : bs ≠ []) : bs.foldl (clipAndAccumulate m) sg = some (accTo m sg bs.flatten) := by
  induction bs generalizing sg with
  | nil => exact absurd rfl h
  | cons b rest ih =>
    cases rest with
    | nil => simp [clipAndAccumulate_eq]
    | cons b2 r =>
      rw [List.foldl_cons, clipAndAccumulate_eq, ih _ (by simp), accTo_accTo]
      simp

/-- one ghost physical step from a state whose skip queue is empty -/
theorem ghostPhysStep_spec (m : Mode ℝ P) (red : Reduction) (E : Nat) (z : Grad ℝ d)
    (st : St (Grad ℝ d)) (hq : st.skipQueue = []) (skip : Bool) (pg : Grad ℝ d) :
    ghostPreStep (rc d m) red E z (ghostBackward (signalSkip (zeroGrad st) skip) pg) =
      (accumulate (effSummed st) pg).map fun s =>
        (if skip then
            { gradSample := [], summed := some s, grad := some pg, skipQueue := [], lastSkipped := true }
          else
            { gradSample := [], summed := some s, grad := some (release (rc d m) red E 1 s z),
              skipQueue := [], lastSkipped := false }, !skip) := by
  simp only [ghostPreStep, ghostBackward, signalSkip, zeroGrad, hq, List.nil_append, modelCarrier,
    popSkip, effSummed]
  cases skip <;> cases st.lastSkipped <;> cases st.summed <;> simp [accumulate]

theorem runLogicalGhost_spec (m : Mode ℝ P) (red : Reduction) (E : Nat) (z : Grad ℝ d)
    (pgs : List (Grad ℝ d)) (hne : pgs ≠ []) (st : St (Grad ℝ d)) (hq : st.skipQueue = []) :
    ∃ st' s, runLogicalGhost (rc d m) red E z pgs st = some st' ∧
      pgs.foldl accumulate (effSummed st) = some s ∧
      st'.summed = some s ∧ st'.grad = some (release (rc d m) red E 1 s z) := by
  induction pgs generalizing st with
  | nil => exact absurd rfl hne
  | cons pg rest ih =>
    have hacc : ∃ s0, accumulate (effSummed st) pg = some s0 := by
      cases effSummed st <;> simp [accumulate]
    obtain ⟨s0, hs0⟩ := hacc
    cases rest with
    | nil =>
      simp only [runLogicalGhost, ghostPhysStep_spec m red E z st hq false pg, hs0, List.foldl_cons,
        List.foldl_nil]
      simp
    | cons p2 rest' =>
      rw [runLogicalGhost, ghostPhysStep_spec m red E z st hq true pg, hs0]
      · simp only [Option.map_some, if_true]
        obtain ⟨st', s, h1, h2, h3, h4⟩ := ih (by simp)
          { gradSample := [], summed := some s0, grad := some pg, skipQueue := [], lastSkipped := true } rfl
        refine ⟨st', s, h1, ?_, h3, h4⟩
        rw [List.foldl_cons, hs0]
        simpa [effSummed] using h2
      · simp

end real

end Opacus.Step
