import OpacusLean.Model.GradSampleMachine
import Mathlib.Data.List.Induction
/-! Pairing theorem for the `GradSampleModule` bookkeeping machine (C01, `hooks_pairing`).

A *pass* is a list of uses `u = (module, activation, cotangent)` in forward order: the forward hooks
run in that order, the backward hooks in exactly the reverse order (autograd contract).  A module may
occur several times (reused layer, recurrent cell), a parameter may belong to several modules (tied
weights).  All uses see a batch axis of the same length `Bn` and every sampler returns `Bn` rows.

`stateOf pre suf` is the state in which the forward hooks of `pre ++ suf` have run and the backward
hooks of `suf` have run (in reverse order).  The two step lemmas show that the machine moves along
these states; the theorem `run_pass` is the closed form of a whole forward+backward pass. -/
namespace Opacus.GSM

variable {A B G : Type} [Add G] [Zero G]

structure Use (A B : Type) where
  m : Nat
  a : A
  b : B

def fwdOps (Bn : Nat) (us : List (Use A B)) : List (Op A B) := us.map fun u => .fwd u.m u.a Bn true
def bwdOps (us : List (Use A B)) : List (Op A B) := us.reverse.map fun u => .bwd u.m u.b

/-- the quiescent states a pass may start from -/
structure Quiescent (σ : State A G) : Prop where
  acts : ∀ m, σ.acts m = none ∨ σ.acts m = some []
  maxLen : ∀ m, σ.maxLen m = none
  counter : ∀ p, σ.counter p = 0
  current : ∀ p, σ.current p = none
  hooks : σ.hooksEnabled = true
  err : σ.err = none

section
variable (S : Static) (smul : Nat → B → B) (samp : Nat → A → B → Nat → Rows G) (Bn : Nat)

/-- rows the sampler contributes for parameter `p` at use `u` (cotangent rescaled for mean loss) -/
def contrib (u : Use A B) (p : Nat) : Rows G :=
  samp u.m u.a (if S.lossMean then smul Bn u.b else u.b) p

def usesP (p : Nat) (u : Use A B) : Bool := decide (p ∈ S.params u.m)

/-- accumulate one more block of rows the way `create_or_accumulate_grad_sample` does -/
def accOpt (cur : Option (Rows G)) (gs : Rows G) : Option (Rows G) :=
  match createOrAccumulate cur gs Bn with
  | .ok r => some r
  | .error _ => cur

def accRows (cs : List (Rows G)) : Option (Rows G) := cs.foldl (accOpt Bn) none

/-- contributions to `p` already accumulated when the backward hooks of `suf` have run -/
def done (suf : List (Use A B)) (p : Nat) : List (Rows G) :=
  ((suf.filter (usesP S p)).reverse).map fun u => contrib S smul samp Bn u p

def stateOf (σ₀ : State A G) (pre suf : List (Use A B)) : State A G :=
  { acts := fun m =>
      if (pre ++ suf).any (fun u => u.m == m) then
        some ((pre.filter (fun u => u.m == m)).map fun u => (u.a, Bn))
      else σ₀.acts m
    maxLen := fun m =>
      if pre.any (fun u => u.m == m) && suf.any (fun u => u.m == m) then some Bn else none
    counter := fun p => ((pre.filter (usesP S p)).length : Int)
    current := fun p =>
      if pre.any (usesP S p) && suf.any (usesP S p) then accRows Bn (done S smul samp Bn suf p) else none
    gradSample := fun p =>
      if !pre.any (usesP S p) && suf.any (usesP S p) then
        match accRows Bn (done S smul samp Bn suf p) with
        | some r => promote (σ₀.gradSample p) r
        | none => σ₀.gradSample p
      else σ₀.gradSample p
    hooksEnabled := true
    accumAllowed := σ₀.accumAllowed
    err := none }

end

/-! ### small facts -/

theorem State.ext' {A G : Type} (s t : State A G) (h1 : s.acts = t.acts) (h2 : s.maxLen = t.maxLen)
    (h3 : s.counter = t.counter) (h4 : s.current = t.current) (h5 : s.gradSample = t.gradSample)
    (h6 : s.hooksEnabled = t.hooksEnabled) (h7 : s.accumAllowed = t.accumAllowed) (h8 : s.err = t.err) :
    s = t := by
  cases s; cases t; simp_all

theorem maxOfLens_const {α β : Type} (f : α → β) (Bn : Nat) (l : List α) (h : l ≠ []) :
    maxOfLens (l.map fun u => (f u, Bn)) = Bn := by
  unfold maxOfLens
  have key : ∀ (l : List α) (acc : Nat), acc ≤ Bn → (acc = Bn ∨ l ≠ []) →
      (l.map fun u => (f u, Bn)).foldl (fun acc x => if x.2 > acc then x.2 else acc) acc = Bn := by
    intro l
    induction l with
    | nil => intro acc _ h; rcases h with h | h; exact h; exact absurd rfl h
    | cons x xs ih =>
      intro acc hle _
      simp only [List.map_cons, List.foldl_cons]
      apply ih
      · split <;> omega
      · left; split <;> omega
  exact key l 0 (Nat.zero_le _) (Or.inr h)

section
variable (Bn : Nat)

theorem createOrAccumulate_ok (cur : Option (Rows G)) (gs : Rows G)
    (hc : ∀ r, cur = some r → r.n = Bn) (hg : gs.n = Bn) :
    ∃ r, createOrAccumulate cur gs Bn = .ok r ∧ r.n = Bn := by
  cases cur with
  | none => simp [createOrAccumulate, rowsFit, hg]
  | some acc =>
    have := hc acc rfl
    simp [createOrAccumulate, rowsFit, hg, this]

theorem accRows_n (cs : List (Rows G)) (h : ∀ c ∈ cs, c.n = Bn) :
    ∀ r, accRows Bn cs = some r → r.n = Bn := by
  unfold accRows
  have key : ∀ (cs : List (Rows G)) (cur : Option (Rows G)), (∀ c ∈ cs, c.n = Bn) →
      (∀ r, cur = some r → r.n = Bn) → ∀ r, cs.foldl (accOpt Bn) cur = some r → r.n = Bn := by
    intro cs
    induction cs with
    | nil => intro cur _ hc r hr; exact hc r hr
    | cons c cs ih =>
      intro cur h hc r hr
      simp only [List.foldl_cons] at hr
      refine ih _ (fun c' hc' => h c' (List.mem_cons_of_mem _ hc')) ?_ r hr
      intro r' hr'
      obtain ⟨r'', h1, h2⟩ := createOrAccumulate_ok Bn cur c hc (h c (List.mem_cons_self))
      simp only [accOpt, h1] at hr'
      cases hr'; exact h2
  exact key cs none h (by intro r hr; cases hr)

theorem accRows_snoc (cs : List (Rows G)) (c : Rows G) :
    accRows Bn (cs ++ [c]) = accOpt Bn (accRows Bn cs) c := by
  simp [accRows, List.foldl_append]

theorem accRows_snoc_isSome (cs : List (Rows G)) (c : Rows G) (h : ∀ c ∈ cs, c.n = Bn) (hc : c.n = Bn) :
    ∃ r, accRows Bn (cs ++ [c]) = some r ∧ createOrAccumulate (accRows Bn cs) c Bn = .ok r ∧ r.n = Bn := by
  obtain ⟨r, h1, h2⟩ := createOrAccumulate_ok Bn (accRows Bn cs) c (accRows_n Bn cs h) hc
  exact ⟨r, by rw [accRows_snoc]; simp [accOpt, h1], h1, h2⟩

end

end Opacus.GSM

namespace Opacus.GSM
variable {A B G : Type} [Add G] [Zero G]
variable (S : Static) (smul : Nat → B → B) (samp : Nat → A → B → Nat → Rows G) (Bn : Nat)

theorem step_fwd (σ₀ : State A G) (hq : Quiescent σ₀) (pre : List (Use A B)) (u : Use A B)
    (hne : (S.params u.m).isEmpty = false) :
    step S smul samp (stateOf S smul samp Bn σ₀ pre []) (.fwd u.m u.a Bn true)
      = stateOf S smul samp Bn σ₀ (pre ++ [u]) [] := by
  simp only [step, stateOf, Option.isSome_none, Bool.false_eq_true, if_false, hne, Bool.not_true,
    Bool.or_self, List.append_nil, List.any_nil, Bool.and_false]
  congr 1
  · funext m
    simp only [upd]
    by_cases hm : m = u.m
    · subst hm
      simp only [if_true, List.any_append, List.any_cons, beq_self_eq_true, Bool.true_or, Bool.or_true,
        List.any_nil, List.filter_append, List.filter_cons, List.filter_nil, List.map_append, List.map_cons, List.map_nil]
      by_cases hp : pre.any (fun v => v.m == u.m) = true
      · simp [hp]
      · have hf : pre.filter (fun v => v.m == u.m) = [] := by
          rw [List.filter_eq_nil_iff]; intro v hv hvm
          exact hp (List.any_eq_true.mpr ⟨v, hv, hvm⟩)
        rcases hq.acts u.m with h | h <;> simp [hp, hf, h]
    · have hne' : (u.m == m) = false := by simpa using fun h => hm h.symm
      simp [hm, List.any_append, hne', List.filter_append]
  · funext p
    simp only [List.filter_append, List.length_append]
    by_cases hp : p ∈ S.params u.m <;> simp [hp, usesP, List.filter_cons]

theorem gsListLen_promote_none (r : Rows G) : gsListLen (promote (GSVal.none) r) = 0 := rfl

theorem done_cons_uses (suf : List (Use A B)) (u : Use A B) (p : Nat) (h : usesP S p u = true) :
    done S smul samp Bn (u :: suf) p = done S smul samp Bn suf p ++ [contrib S smul samp Bn u p] := by
  simp [done, List.filter_cons, h]

theorem done_cons_not (suf : List (Use A B)) (u : Use A B) (p : Nat) (h : usesP S p u = false) :
    done S smul samp Bn (u :: suf) p = done S smul samp Bn suf p := by
  simp [done, List.filter_cons, h]

theorem done_nil_of_not_any (suf : List (Use A B)) (p : Nat) (h : suf.any (usesP S p) = false) :
    done S smul samp Bn suf p = [] := by
  have : suf.filter (usesP S p) = [] := by
    rw [List.filter_eq_nil_iff]; intro v hv hvm
    have := List.any_eq_true.mpr ⟨v, hv, hvm⟩
    rw [h] at this; cases this
  simp [done, this]

/-- what `capture_backprops_hook` does to a parameter of the module whose hook runs -/
theorem bwdParam_stateOf (σ₀ : State A G) (hacc : σ₀.accumAllowed = true ∨ ∀ p, σ₀.gradSample p = .none)
    (hrows : ∀ m a b p, (samp m a b p).n = Bn)
    (pre suf : List (Use A B)) (u : Use A B) (p : Nat) (hp : usesP S p u = true) :
    bwdParam σ₀.accumAllowed ((stateOf S smul samp Bn σ₀ (pre ++ [u]) suf).counter p)
        ((stateOf S smul samp Bn σ₀ (pre ++ [u]) suf).current p)
        ((stateOf S smul samp Bn σ₀ (pre ++ [u]) suf).gradSample p) (contrib S smul samp Bn u p) Bn
      = .ok ((stateOf S smul samp Bn σ₀ pre (u :: suf)).counter p,
             (stateOf S smul samp Bn σ₀ pre (u :: suf)).current p,
             (stateOf S smul samp Bn σ₀ pre (u :: suf)).gradSample p) := by
  have hall : ∀ c ∈ done S smul samp Bn suf p, c.n = Bn := by
    intro c hc; simp only [done, List.mem_map] at hc; obtain ⟨v, _, rfl⟩ := hc; exact hrows _ _ _ _
  obtain ⟨r, hr1, hr2, hr3⟩ := accRows_snoc_isSome Bn (done S smul samp Bn suf p)
    (contrib S smul samp Bn u p) hall (hrows _ _ _ _)
  have hcur : (stateOf S smul samp Bn σ₀ (pre ++ [u]) suf).current p = accRows Bn (done S smul samp Bn suf p) := by
    simp only [stateOf, List.any_append, List.any_cons, hp, List.any_nil, Bool.or_false, Bool.or_true, Bool.true_and]
    by_cases hs : suf.any (usesP S p) = true
    · simp [hs]
    · have hs' : suf.any (usesP S p) = false := by simpa using hs
      simp [hs', done_nil_of_not_any S smul samp Bn suf p hs', accRows]
  have hgs : (stateOf S smul samp Bn σ₀ (pre ++ [u]) suf).gradSample p = σ₀.gradSample p := by
    simp [stateOf, List.any_append, hp]
  have hcnt : (stateOf S smul samp Bn σ₀ (pre ++ [u]) suf).counter p = ((pre.filter (usesP S p)).length : Int) + 1 := by
    simp [stateOf, List.filter_append, hp]
  rw [hcur, hgs, hcnt]
  simp only [bwdParam, hr2, Int.add_sub_cancel]
  have hd : done S smul samp Bn (u :: suf) p = done S smul samp Bn suf p ++ [contrib S smul samp Bn u p] :=
    done_cons_uses S smul samp Bn suf u p hp
  by_cases hz : pre.any (usesP S p) = true
  · -- other uses of `p` still outstanding
    have hlen : ((pre.filter (usesP S p)).length : Int) ≠ 0 := by
      obtain ⟨v, hv, hvp⟩ := List.any_eq_true.mp hz
      have : v ∈ pre.filter (usesP S p) := List.mem_filter.mpr ⟨hv, hvp⟩
      have : 0 < (pre.filter (usesP S p)).length := List.length_pos_of_mem this
      omega
    have hck : (!σ₀.accumAllowed && decide (gsListLen (σ₀.gradSample p) > 1)) = false := by
      rcases hacc with h | h
      · simp [h]
      · simp [h p, gsListLen]
    have hz1 : ∃ x, x ∈ pre ∧ usesP S p x = true := List.any_eq_true.mp hz
    have hz2 : ¬ (∀ a, a ∈ pre → usesP S p a = false) := by
      intro h; obtain ⟨x, hx, hxp⟩ := hz1; rw [h x hx] at hxp; cases hxp
    simp only [Bool.and_eq_false_iff, Bool.not_eq_false', decide_eq_false_iff_not] at hck
    simp [hlen, stateOf, hp, hd, hr1, hz1, hz2]
    intro h1
    rcases hck with h | h
    · rw [h] at h1; cases h1
    · omega
  · have hz' : pre.any (usesP S p) = false := by simpa using hz
    have hlen : ((pre.filter (usesP S p)).length : Int) = 0 := by
      have : pre.filter (usesP S p) = [] := by
        rw [List.filter_eq_nil_iff]; intro v hv hvm
        have := List.any_eq_true.mpr ⟨v, hv, hvm⟩
        rw [hz'] at this; cases this
      simp [this]
    have hck : (!σ₀.accumAllowed && decide (gsListLen (promote (σ₀.gradSample p) r) > 1)) = false := by
      rcases hacc with h | h
      · simp [h]
      · simp [h p, gsListLen_promote_none]
    have hz1 : ∀ a, a ∈ pre → usesP S p a = false := by
      intro a ha
      cases hh : usesP S p a with
      | false => rfl
      | true => have := List.any_eq_true.mpr ⟨a, ha, hh⟩; rw [hz'] at this; cases this
    have hz2 : ¬ ∃ x, x ∈ pre ∧ usesP S p x = true := by
      rintro ⟨x, hx, hxp⟩; rw [hz1 x hx] at hxp; cases hxp
    simp only [Bool.and_eq_false_iff, Bool.not_eq_false', decide_eq_false_iff_not] at hck
    have hif : ¬ (σ₀.accumAllowed = false ∧ 1 < gsListLen (promote (σ₀.gradSample p) r)) := by
      rintro ⟨h1, h2⟩
      rcases hck with h | h
      · rw [h] at h1; cases h1
      · exact h h2
    simp [hlen, stateOf, hp, hd, hr1, hz1, hz2, hif]

/-- parameters that do not belong to the module whose hook runs are untouched -/
theorem stateOf_other (σ₀ : State A G) (pre suf : List (Use A B)) (u : Use A B) (p : Nat)
    (hp : usesP S p u = false) :
    (stateOf S smul samp Bn σ₀ (pre ++ [u]) suf).counter p = (stateOf S smul samp Bn σ₀ pre (u :: suf)).counter p ∧
    (stateOf S smul samp Bn σ₀ (pre ++ [u]) suf).current p = (stateOf S smul samp Bn σ₀ pre (u :: suf)).current p ∧
    (stateOf S smul samp Bn σ₀ (pre ++ [u]) suf).gradSample p = (stateOf S smul samp Bn σ₀ pre (u :: suf)).gradSample p := by
  have hd := done_cons_not S smul samp Bn suf u p hp
  refine ⟨?_, ?_, ?_⟩ <;>
    simp [stateOf, List.filter_append, List.any_append, hp, hd]

theorem step_bwd (σ₀ : State A G) (hacc : σ₀.accumAllowed = true ∨ ∀ p, σ₀.gradSample p = .none)
    (hrows : ∀ m a b p, (samp m a b p).n = Bn)
    (pre suf : List (Use A B)) (u : Use A B) :
    step S smul samp (stateOf S smul samp Bn σ₀ (pre ++ [u]) suf) (.bwd u.m u.b)
      = stateOf S smul samp Bn σ₀ pre (u :: suf) := by
  -- the activation stack of the module and the batch length used
  have hacts : (stateOf S smul samp Bn σ₀ (pre ++ [u]) suf).acts u.m
      = some ((pre.filter (fun v => v.m == u.m)).map (fun v => (v.a, Bn)) ++ [(u.a, Bn)]) := by
    simp [stateOf, List.any_append, List.filter_append]
  have hL : ((stateOf S smul samp Bn σ₀ (pre ++ [u]) suf).maxLen u.m).getD
      (maxOfLens ((pre.filter (fun v => v.m == u.m)).map (fun v => (v.a, Bn)) ++ [(u.a, Bn)])) = Bn := by
    have h1 : maxOfLens ((pre.filter (fun v => v.m == u.m)).map (fun v => (v.a, Bn)) ++ [(u.a, Bn)]) = Bn := by
      have := maxOfLens_const (fun v : Use A B => v.a) Bn (pre.filter (fun v => v.m == u.m) ++ [u]) (by simp)
      simpa using this
    rw [h1]
    simp only [stateOf]
    split <;> rfl
  have hres : ∀ p ∈ S.params u.m,
      bwdParam σ₀.accumAllowed ((stateOf S smul samp Bn σ₀ (pre ++ [u]) suf).counter p)
        ((stateOf S smul samp Bn σ₀ (pre ++ [u]) suf).current p)
        ((stateOf S smul samp Bn σ₀ (pre ++ [u]) suf).gradSample p) (contrib S smul samp Bn u p) Bn
      = .ok ((stateOf S smul samp Bn σ₀ pre (u :: suf)).counter p,
             (stateOf S smul samp Bn σ₀ pre (u :: suf)).current p,
             (stateOf S smul samp Bn σ₀ pre (u :: suf)).gradSample p) := by
    intro p hp
    exact bwdParam_stateOf S smul samp Bn σ₀ hacc hrows pre suf u p (by simp [usesP, hp])
  unfold step
  have herr : (stateOf S smul samp Bn σ₀ (pre ++ [u]) suf).err = none := rfl
  have hhk : (stateOf S smul samp Bn σ₀ (pre ++ [u]) suf).hooksEnabled = true := rfl
  have hac : (stateOf S smul samp Bn σ₀ (pre ++ [u]) suf).accumAllowed = σ₀.accumAllowed := rfl
  simp only [herr, hhk, hac, Option.isSome_none, Bool.false_eq_true, if_false, Bool.not_true, hacts,
    List.getLast?_append, List.getLast?_singleton, Option.some_or, hL, List.dropLast_concat]
  have hcontrib : ∀ p, samp u.m u.a (if S.lossMean = true then smul Bn u.b else u.b) p = contrib S smul samp Bn u p := by
    intro p; rfl
  simp only [hcontrib]
  split
  · rename_i e heq
    obtain ⟨p, hp, hpe⟩ := List.exists_of_findSome?_eq_some heq
    rw [hres p hp] at hpe
    cases hpe
  · have hother := stateOf_other S smul samp Bn σ₀ pre suf u
    have hpick : ∀ {β : Type} (old new : Nat → β) (sel : Int × Option (Rows G) × GSVal G → β),
        (∀ p, p ∈ S.params u.m → sel ((stateOf S smul samp Bn σ₀ pre (u :: suf)).counter p,
          (stateOf S smul samp Bn σ₀ pre (u :: suf)).current p,
          (stateOf S smul samp Bn σ₀ pre (u :: suf)).gradSample p) = new p) →
        (∀ p, p ∉ S.params u.m → old p = new p) →
        (fun p => if p ∈ S.params u.m then
          (match bwdParam σ₀.accumAllowed ((stateOf S smul samp Bn σ₀ (pre ++ [u]) suf).counter p)
            ((stateOf S smul samp Bn σ₀ (pre ++ [u]) suf).current p)
            ((stateOf S smul samp Bn σ₀ (pre ++ [u]) suf).gradSample p) (contrib S smul samp Bn u p) Bn with
          | Except.ok r => sel r
          | Except.error _ => old p) else old p) = new := by
      intro β old new sel h1 h2
      funext p
      by_cases hp : p ∈ S.params u.m
      · simp only [hp, if_true, hres p hp]; exact h1 p hp
      · simp only [hp, if_false]; exact h2 p hp
    have hnot : ∀ p, p ∉ S.params u.m → usesP S p u = false := by
      intro p hp; simp [usesP, hp]
    apply State.ext'
    · -- acts
      funext m
      simp only [upd]
      by_cases hm : m = u.m
      · subst hm; simp [stateOf, List.any_append]
      · have hne' : (u.m == m) = false := by simpa using fun h => hm h.symm
        simp [hm, stateOf, List.any_append, hne', List.filter_append]
    · -- maxLen
      funext m
      simp only [upd]
      by_cases hm : m = u.m
      · subst hm
        by_cases hp : pre.any (fun v => v.m == u.m) = true
        · have hf : pre.filter (fun v => v.m == u.m) ≠ [] := by
            obtain ⟨v, hv, hvm⟩ := List.any_eq_true.mp hp
            exact List.ne_nil_of_mem (List.mem_filter.mpr ⟨hv, hvm⟩)
          simp [stateOf, hf]
          obtain ⟨v, hv, hvm⟩ := List.any_eq_true.mp hp
          exact ⟨v, hv, by simpa using hvm⟩
        · have hf : pre.filter (fun v => v.m == u.m) = [] := by
            rw [List.filter_eq_nil_iff]; intro v hv hvm
            exact hp (List.any_eq_true.mpr ⟨v, hv, hvm⟩)
          simp [stateOf, hf]
          intro x hx hxm
          exact hp (List.any_eq_true.mpr ⟨x, hx, by simpa using hxm⟩)
      · have hne' : (u.m == m) = false := by simpa using fun h => hm h.symm
        have hne'' : ¬ u.m = m := fun h => hm h.symm
        simp [hm, stateOf, List.any_append, hne', hne'']
    · exact hpick _ _ (·.1) (fun _ _ => rfl) (fun p hp => (hother p (hnot p hp)).1)
    · exact hpick _ _ (·.2.1) (fun _ _ => rfl) (fun p hp => (hother p (hnot p hp)).2.1)
    · exact hpick _ _ (·.2.2) (fun _ _ => rfl) (fun p hp => (hother p (hnot p hp)).2.2)
    · rfl
    · rfl
    · rfl

theorem stateOf_nil (σ₀ : State A G) (hq : Quiescent σ₀) : stateOf S smul samp Bn σ₀ [] [] = σ₀ := by
  apply State.ext'
  · funext m; simp [stateOf]
  · funext m; simp [stateOf, hq.maxLen m]
  · funext p; simp [stateOf, hq.counter p]
  · funext p; simp [stateOf, hq.current p]
  · funext p; simp [stateOf]
  · simp [stateOf, hq.hooks]
  · rfl
  · simp [stateOf, hq.err]

theorem run_fwd (σ₀ : State A G) (hq : Quiescent σ₀) (pre us : List (Use A B))
    (hne : ∀ u ∈ us, (S.params u.m).isEmpty = false) :
    run S smul samp (stateOf S smul samp Bn σ₀ pre []) (fwdOps Bn us)
      = stateOf S smul samp Bn σ₀ (pre ++ us) [] := by
  induction us generalizing pre with
  | nil => simp [run, fwdOps]
  | cons u us ih =>
    have h1 := step_fwd S smul samp Bn σ₀ hq pre u (hne u (List.mem_cons_self))
    have h2 := ih (pre ++ [u]) (fun v hv => hne v (List.mem_cons_of_mem _ hv))
    simp only [run, fwdOps, List.map_cons, List.foldl_cons] at h2 ⊢
    rw [h1, h2, List.append_assoc, List.singleton_append]

theorem run_bwd (σ₀ : State A G) (hacc : σ₀.accumAllowed = true ∨ ∀ p, σ₀.gradSample p = .none)
    (hrows : ∀ m a b p, (samp m a b p).n = Bn) (pre us suf : List (Use A B)) :
    run S smul samp (stateOf S smul samp Bn σ₀ (pre ++ us) suf) (bwdOps us)
      = stateOf S smul samp Bn σ₀ pre (us ++ suf) := by
  induction us using List.reverseRecOn generalizing suf with
  | nil => simp [run, bwdOps]
  | append_singleton us u ih =>
    have h1 := step_bwd S smul samp Bn σ₀ hacc hrows (pre ++ us) suf u
    have h2 := ih (u :: suf)
    simp only [run, bwdOps, List.reverse_append, List.reverse_cons, List.reverse_nil, List.nil_append,
      List.singleton_append, List.map_cons, List.foldl_cons] at h2 ⊢
    rw [← List.append_assoc, h1, h2, List.append_assoc, List.singleton_append]

/-- **hooks_pairing** (state form): a whole pass – forward hooks in order, backward hooks in reverse
order – takes a quiescent state to `stateOf [] us`. -/
theorem run_pass (σ₀ : State A G) (hq : Quiescent σ₀)
    (hacc : σ₀.accumAllowed = true ∨ ∀ p, σ₀.gradSample p = .none)
    (hrows : ∀ m a b p, (samp m a b p).n = Bn) (us : List (Use A B))
    (hne : ∀ u ∈ us, (S.params u.m).isEmpty = false) :
    run S smul samp σ₀ (fwdOps Bn us ++ bwdOps us) = stateOf S smul samp Bn σ₀ [] us := by
  have h1 := run_fwd S smul samp Bn σ₀ hq [] us hne
  have h2 := run_bwd S smul samp Bn σ₀ hacc hrows [] us []
  rw [stateOf_nil S smul samp Bn σ₀ hq] at h1
  simp only [List.nil_append, List.append_nil] at h1 h2
  simp only [run, List.foldl_append] at h1 h2 ⊢
  rw [h1, h2]

/-- closed form of the accumulated rows: row `i < Bn` is the sum (in backward order) of row `i` of
every contribution; rows beyond `Bn` do not exist (zero) -/
theorem accRows_closed (c : Rows G) (cs : List (Rows G)) (hc : c.n = Bn) (h : ∀ c' ∈ cs, c'.n = Bn) :
    accRows Bn (c :: cs) = some ⟨Bn, fun i => if i < Bn then cs.foldl (fun acc c' => acc + c'.row i) (c.row i) else 0⟩ := by
  induction cs using List.reverseRecOn with
  | nil =>
    simp [accRows, accOpt, createOrAccumulate, rowsFit, hc]
  | append_singleton cs c' ih =>
    have ih' := ih (fun x hx => h x (List.mem_append_left _ hx))
    have hc' : c'.n = Bn := h c' (List.mem_append_right _ (List.mem_singleton_self _))
    rw [← List.cons_append, accRows_snoc, ih']
    simp only [accOpt, createOrAccumulate, rowsFit, hc', Nat.le_refl, decide_true, Bool.true_or, if_true, and_self,
      List.foldl_append, List.foldl_cons, List.foldl_nil]
    congr 2
    funext i
    by_cases hi : i < Bn <;> simp [hi]

end Opacus.GSM
