import OpacusLean.Lemmas.RnnGrow
import OpacusLean.Lemmas.RnnCsl
set_option linter.unusedSimpArgs false
namespace Opacus.Rnn
variable {α β X S : Type}

theorem optAll_map_eq {l : List α} {f : α → Option β} {g : α → β} (h : ∀ a ∈ l, f a = some (g a)) :
    optAll (l.map f) = some (l.map g) := by
  induction l with
  | nil => rfl
  | cons a l ih =>
    have ha := h a (by simp)
    have := ih (fun b hb => h b (by simp [hb]))
    simp [optAll, ha, this]

/-- non-increasing shapes: a row, once gone, stays gone – so the `t`-th element of sequence `i` sits in step `t` -/
theorem seqOf_getElem? {ys : List (List α)} (hp : (ys.map List.length).Pairwise (· ≥ ·)) (i t : Nat) :
    (seqOf ys i)[t]? = (ys[t]?).bind (·[i]?) := by
  induction ys generalizing t with
  | nil => simp [seqOf]
  | cons y ys ih =>
    simp only [List.map_cons, List.pairwise_cons] at hp
    obtain ⟨hhead, hp'⟩ := hp
    cases hyi : y[i]? with
    | some a =>
      rw [seqOf_cons_some hyi]
      cases t with
      | zero => simp [hyi]
      | succ t => simp [ih hp' t]
    | none =>
      have hi : y.length ≤ i := List.getElem?_eq_none_iff.mp hyi
      have hall : ∀ z ∈ ys, z.length ≤ i := fun z hz =>
        Nat.le_trans (hhead z.length (List.mem_map_of_mem hz)) hi
      rw [seqOf_cons_none hyi, seqOf_eq_nil hall]
      cases t with
      | zero => simp [hyi]
      | succ t =>
        simp only [List.getElem?_nil, List.getElem?_cons_succ]
        cases hz : ys[t]? with
        | none => rfl
        | some z =>
          have hzm : z ∈ ys := List.mem_of_getElem? hz
          simp [List.getElem?_eq_none_iff.mpr (hall z hzm)]

theorem length_seqOf (ys : List (List α)) (i : Nat) :
    (seqOf ys i).length = (ys.map List.length).countP (fun b => i < b) := by
  unfold seqOf
  rw [List.length_filterMap_eq_countP, List.countP_map]
  congr 1
  funext y
  simp only [Function.comp]
  by_cases h : i < y.length
  · simp [h]
  · simp [h, List.getElem?_eq_none_iff.mpr (Nat.le_of_not_lt h)]

/-- if the last step has row `i`, that row is the last element of sequence `i` -/
theorem seqOf_getLast? {ys : List (List α)} {y : List α} {a : α} {i : Nat}
    (hl : ys.getLast? = some y) (ha : y[i]? = some a) : (seqOf ys i).getLast? = some a := by
  obtain ⟨ys', rfl⟩ : ∃ ys', ys = ys' ++ [y] := by
    cases hys : ys.reverse with
    | nil => simp at hys; subst hys; simp at hl
    | cons z zs =>
      have : ys = zs.reverse ++ [z] := by
        have := congrArg List.reverse hys; simpa using this
      subst this
      simp at hl; subst hl
      exact ⟨_, rfl⟩
  rw [seqOf_append]
  have : seqOf [y] i = [a] := by rw [seqOf_cons_some ha]; rfl
  rw [this]; simp

theorem optAll_map_isSome {l : List α} {f : α → Option β} (h : ∀ a ∈ l, (f a).isSome) :
    ∃ r, optAll (l.map f) = some r ∧ r.map some = l.map f := by
  induction l with
  | nil => exact ⟨[], rfl, rfl⟩
  | cons a l ih =>
    obtain ⟨r, hr, hm⟩ := ih (fun b hb => h b (by simp [hb]))
    have ha := h a (by simp)
    cases hfa : f a with
    | none => simp [hfa] at ha
    | some v => exact ⟨v :: r, by simp [optAll, hfa, hr], by simp [hfa, hm]⟩

/-- what `gatherLast` returns when every looked-up row exists -/
theorem gatherLast_eq (cast : S → S) {B : Nat} {lens : List Nat} {hTemp : List (List S)}
    (hlen : lens.length = B)
    (h : ∀ i, i < B → ∃ l v, lens[i]? = some l ∧ l ≠ 0 ∧ (hTemp[l - 1]?).bind (·[i]?) = some v) :
    ∃ last, gatherLast cast B lens hTemp = some last ∧ last.length = B ∧
      ∀ i l, i < B → lens[i]? = some l → last[i]? = ((hTemp[l - 1]?).bind (·[i]?)).map cast := by
  let f : Nat → Option S := fun i =>
    match lens[i]? with
    | none => none
    | some l =>
      match (if l = 0 then hTemp.getLast? else hTemp[l - 1]?) with
      | none => none
      | some row => (row[i]?).map cast
  have hf : ∀ i, i < B → ∀ l, lens[i]? = some l → f i = ((hTemp[l - 1]?).bind (·[i]?)).map cast := by
    intro i hi l hl
    obtain ⟨l', v, h1, h2, h3⟩ := h i hi
    rw [hl] at h1; cases h1
    simp only [f, hl, h2, if_false]
    cases hTemp[l - 1]? <;> rfl
  have hsome : ∀ i ∈ List.range B, (f i).isSome := by
    intro i hi
    have hi := List.mem_range.mp hi
    obtain ⟨l, v, h1, h2, h3⟩ := h i hi
    rw [hf i hi l h1, h3]; rfl
  obtain ⟨r, hr, hm⟩ := optAll_map_isSome hsome
  refine ⟨r, ?_, ?_, ?_⟩
  · unfold gatherLast
    simp only [hlen, ne_eq, not_true_eq_false, if_false]
    exact hr
  · have := congrArg List.length hm; simpa using this
  · intro i l hi hl
    have := congrArg (·[i]?) hm
    simp only [List.getElem?_map, List.getElem?_range hi, Option.map_some] at this
    rw [hf i hi l hl] at this
    cases hri : r[i]? with
    | none => rw [hri] at this; simp at this
    | some v => rw [hri] at this; simpa using this

/-! ### one direction of one layer refines the per-sequence recurrence -/

/-- the contract a `forward_layer` variant has to meet on inputs of shape `sh` with `B` state rows -/
def LayerRefines (cast : S → S) (B : Nat) (sh : List Nat)
    (layerFn : (X → S → S) → List S → List (List X) → Bool → Option (List (List S) × List S)) : Prop :=
  ∀ (cell : X → S → S) (h0 : List S) (x : List (List X)) (rev : Bool),
    h0.length = B → x.map List.length = sh →
    ∃ o last, layerFn cell h0 x rev = some (o, last) ∧ o.map List.length = sh ∧ last.length = B ∧
      ∀ i s, h0[i]? = some s →
        seqOf o i = (specDir cell s (seqOf x i) rev).1 ∧
        last[i]? = some (cast (specDir cell s (seqOf x i) rev).2)


theorem lt_of_getElem?_eq_some {l : List α} {i : Nat} {a : α} (h : l[i]? = some a) : i < l.length :=
  (List.getElem?_eq_some_iff.mp h).1

theorem layerPacked_refines (cast : S → S) (B : Nat) (rest : List Nat) (hp : (B :: rest).Pairwise (· ≥ ·)) :
    LayerRefines (X := X) (S := S) cast B (B :: rest) (layerPacked cast B) := by
  intro cell h0 x rev h0len hsh
  have hbound : ∀ y ∈ x, y.length ≤ h0.length := by
    intro y hy
    have : y.length ∈ B :: rest := by rw [← hsh]; exact List.mem_map_of_mem hy
    rw [h0len]
    rcases List.mem_cons.mp this with h | h
    · omega
    · exact (List.pairwise_cons.mp hp).1 _ h
  cases rev with
  | false =>
    have hpx : (x.map List.length).Pairwise (· ≥ ·) := by rw [hsh]; exact hp
    obtain ⟨hshape, hseq⟩ := packed_fwd_scan cell h0 x h0 hpx hbound
    obtain ⟨lens, hcsl, hlensl, hlens⟩ := computeSeqLengths_nonInc B rest hp
    have hpn : ((scanSteps (stepPacked cell h0) h0 x).map List.length).Pairwise (· ≥ ·) := by
      rw [hshape]; exact hpx
    have key : ∀ i s, h0[i]? = some s →
        lens[i]? = some ((B :: rest).countP (fun c => i < c)) ∧ (B :: rest).countP (fun c => i < c) ≠ 0 ∧
        ((scanSteps (stepPacked cell h0) h0 x)[(B :: rest).countP (fun c => i < c) - 1]?).bind (·[i]?)
          = some ((seqOf x i).foldl (fun s x => cell x s) s) := by
      intro i s hs
      have hi : i < B := by rw [← h0len]; exact lt_of_getElem?_eq_some hs
      have hl0 : (B :: rest).countP (fun c => i < c) ≠ 0 := by
        simp [List.countP_cons, hi]
      have hlenx : (seqOf x i).length = (B :: rest).countP (fun c => i < c) := by
        rw [length_seqOf, hsh]
      have hne : seqOf x i ≠ [] := by
        intro h; rw [h] at hlenx; exact hl0 hlenx.symm
      have h1 := seqOf_getElem? hpn i ((B :: rest).countP (fun c => i < c) - 1)
      rw [hseq i s hs] at h1
      have hlast := scanCell_getLast? cell s (seqOf x i) hne
      rw [List.getLast?_eq_getElem?, length_scanCell, hlenx] at hlast
      exact ⟨hlens i hi, hl0, by rw [← h1, hlast]⟩
    have key' : ∀ i, i < B → ∃ l v, lens[i]? = some l ∧ l ≠ 0 ∧
        ((scanSteps (stepPacked cell h0) h0 x)[l - 1]?).bind (·[i]?) = some v := by
      intro i hi
      have hs : h0[i]? = some (h0[i]'(by omega)) := List.getElem?_eq_getElem (by omega)
      obtain ⟨a, b, c⟩ := key i _ hs
      exact ⟨_, _, a, b, c⟩
    obtain ⟨last, hg, hll, hlast⟩ := gatherLast_eq cast hlensl key'
    refine ⟨scanSteps (stepPacked cell h0) h0 x, last, ?_, hshape.trans hsh, hll, ?_⟩
    · simp [layerPacked, hsh, hcsl, hg]
    · intro i s hs
      have hi : i < B := by rw [← h0len]; exact lt_of_getElem?_eq_some hs
      obtain ⟨a, _, c⟩ := key i s hs
      refine ⟨by simpa [specDir] using hseq i s hs, ?_⟩
      rw [hlast i _ hi a, c]; simp [specDir]
  | true =>
    have hxne : x ≠ [] := by intro h; subst h; simp at hsh
    have hrsh : x.reverse.map List.length = (B :: rest).reverse := by rw [List.map_reverse, hsh]
    have hpx : (x.reverse.map List.length).Pairwise (· ≤ ·) := by
      rw [hrsh, List.pairwise_reverse]; exact hp
    have hbound' : ∀ y ∈ x.reverse, y.length ≤ h0.length := fun y hy => hbound y (List.mem_reverse.mp hy)
    have hstart := scanSteps_packed_h0 cell h0 x.reverse hbound'
    obtain ⟨hshape, hseq⟩ := packed_grow_scan cell h0 x.reverse [] hpx hbound' (by simp)
    rw [← hstart] at hshape hseq
    -- the flipped batch sizes are non-decreasing: all lengths are `T`
    obtain ⟨b, bs, hbbs⟩ : ∃ b bs, (B :: rest).reverse = b :: bs := by
      cases h : (B :: rest).reverse with
      | nil => simp at h
      | cons b bs => exact ⟨b, bs, rfl⟩
    have hpb : (b :: bs).Pairwise (· ≤ ·) := by rw [← hbbs, ← hrsh]; exact hpx
    have hcsl := computeSeqLengths_nonDec b bs hpb
    have hlastb : (b :: bs).getLast (by simp) = B := by
      have : (b :: bs).getLast? = some B := by rw [← hbbs, List.getLast?_reverse]; rfl
      rw [List.getLast?_eq_some_getLast (by simp)] at this
      exact Option.some.inj this
    rw [hlastb] at hcsl
    have hT : bs.length + 1 = x.length := by
      have := congrArg List.length hbbs
      have h2 := congrArg List.length hsh
      simp at this h2; omega
    -- the last step (original step 0) has `B` rows
    have hnlen : (scanSteps (stepPacked cell h0) h0 x.reverse).length = x.length := by
      have := congrArg List.length hshape; simpa using this
    have key : ∀ i s, h0[i]? = some s →
        ((scanSteps (stepPacked cell h0) h0 x.reverse)[x.length - 1]?).bind (·[i]?)
          = some ((seqOf x i).reverse.foldl (fun s x => cell x s) s) := by
      intro i s hs
      have hi : i < B := by rw [← h0len]; exact lt_of_getElem?_eq_some hs
      have hne' : scanSteps (stepPacked cell h0) h0 x.reverse ≠ [] := by
        intro h; rw [h] at hnlen; simp at hnlen
        exact hxne (List.length_eq_zero_iff.mp hnlen.symm)
      have hgl := List.getLast?_eq_some_getLast hne'
      have hlastlen : ((scanSteps (stepPacked cell h0) h0 x.reverse).getLast hne').length = B := by
        have h1 : ((scanSteps (stepPacked cell h0) h0 x.reverse).map List.length).getLast? = some B := by
          rw [hshape, hrsh, List.getLast?_reverse]; rfl
        rw [List.getLast?_map, hgl] at h1
        simpa using h1
      have hrow : ((scanSteps (stepPacked cell h0) h0 x.reverse).getLast hne')[i]? =
          some (((scanSteps (stepPacked cell h0) h0 x.reverse).getLast hne')[i]'(by omega)) :=
        List.getElem?_eq_getElem (by omega)
      have h2 := seqOf_getLast? hgl hrow
      have hv : (virt h0 ([] : List S))[i]? = some s := by simpa [virt] using hs
      rw [hseq i s hv, seqOf_reverse] at h2
      have hne : (seqOf x i).reverse ≠ [] := by
        intro h; rw [h] at h2; simp [scanCell] at h2
      rw [scanCell_getLast? cell s _ hne] at h2
      rw [← hnlen, ← List.getLast?_eq_getElem?, hgl]
      simp only [Option.bind_some]
      rw [hrow, h2]
    have key' : ∀ i, i < B → ∃ l v, (List.replicate B (bs.length + 1))[i]? = some l ∧ l ≠ 0 ∧
        ((scanSteps (stepPacked cell h0) h0 x.reverse)[l - 1]?).bind (·[i]?) = some v := by
      intro i hi
      have hs : h0[i]? = some (h0[i]'(by omega)) := List.getElem?_eq_getElem (by omega)
      have hk := key i _ hs
      have h1 : (List.replicate B (bs.length + 1))[i]? = some (bs.length + 1) := by simp [hi]
      have h2 : bs.length + 1 ≠ 0 := by omega
      rw [← hT] at hk
      exact ⟨bs.length + 1, _, h1, h2, hk⟩
    obtain ⟨last, hg, hll, hlast⟩ := gatherLast_eq cast (by simp) key'
    refine ⟨(scanSteps (stepPacked cell h0) h0 x.reverse).reverse, last, ?_, ?_, hll, ?_⟩
    · simp [layerPacked, hrsh, hbbs, hcsl, hg]
    · rw [List.map_reverse, hshape, hrsh, List.reverse_reverse]
    · intro i s hs
      have hi : i < B := by rw [← h0len]; exact lt_of_getElem?_eq_some hs
      have hv : (virt h0 ([] : List S))[i]? = some s := by simpa [virt] using hs
      refine ⟨by simp [specDir, seqOf_reverse, hseq i s hv], ?_⟩
      rw [hlast i (bs.length + 1) hi (by simp [hi]), hT, key i s hs]; simp [specDir]

end Opacus.Rnn
