import OpacusLean.Lemmas.RnnLoop
set_option linter.unusedSimpArgs false
namespace Opacus.Rnn
variable {α β γ V S : Type}

/-! ### `split` / `cat` of the packed data -/

theorem splitBy_shape : ∀ (bs : List Nat) (d : List α) (x : List (List α)), splitBy d bs = some x →
    x.map List.length = bs ∧ x.flatten = d := by
  intro bs
  induction bs with
  | nil =>
    intro d x h
    simp only [splitBy] at h
    split at h
    · cases h; rename_i hd; simp at hd; simp [hd]
    · cases h
  | cons n ns ih =>
    intro d x h
    simp only [splitBy] at h
    split at h
    · cases h
    · rename_i hlt
      cases hr : splitBy (d.drop n) ns with
      | none => rw [hr] at h; cases h
      | some r =>
        rw [hr] at h; cases h
        obtain ⟨h1, h2⟩ := ih _ _ hr
        refine ⟨by simp [h1]; omega, by simp [h2]⟩

theorem splitBy_exists : ∀ (bs : List Nat) (d : List α), d.length = bs.sum → ∃ x, splitBy d bs = some x := by
  intro bs
  induction bs with
  | nil => intro d h; simp at h; subst h; exact ⟨[], rfl⟩
  | cons n ns ih =>
    intro d h
    simp only [List.sum_cons] at h
    obtain ⟨r, hr⟩ := ih (d.drop n) (by simp; omega)
    exact ⟨d.take n :: r, by simp [splitBy, hr]; omega⟩

theorem splitBy_flatten : ∀ (o : List (List α)), splitBy o.flatten (o.map List.length) = some o := by
  intro o
  induction o with
  | nil => rfl
  | cons x o ih => simp [splitBy, ih]

/-! ### permutations of the state rows -/

theorem applyPerm_some {xs : List α} {p : List Nat} (hp : ∀ a ∈ p, a < xs.length) :
    ∃ r, applyPerm xs (some p) = some r ∧ r.length = p.length ∧
      ∀ a b : Nat, p[a]? = some b → r[a]? = xs[b]? := by
  obtain ⟨r, hr, hm⟩ := optAll_map_isSome (l := p) (f := fun j => xs[j]?)
    (fun a ha => by simp [List.getElem?_eq_getElem (hp a ha)])
  refine ⟨r, hr, ?_, ?_⟩
  · have := congrArg List.length hm; simpa using this
  · intro a b hab
    have := congrArg (·[a]?) hm
    simp only [List.getElem?_map, hab, Option.map_some] at this
    have hbl : b < xs.length := hp b (List.mem_of_getElem? hab)
    have hb : xs[b]? = some (xs[b]'hbl) := List.getElem?_eq_getElem hbl
    rw [hb] at this ⊢
    cases hra : r[a]? with
    | none => rw [hra] at this; simp at this
    | some v => rw [hra] at this; simpa using this

/-- `apply_permutation(·, 1, p)` on every `[B, ·]` tensor of a list: row `a` of the result is row `p[a]` -/
theorem permAll {hs : List (List S)} {p : List Nat} {B : Nat} (hB : ∀ h ∈ hs, h.length = B)
    (hp : ∀ a ∈ p, a < B) :
    ∃ hs', optAll (hs.map (applyPerm · (some p))) = some hs' ∧ hs'.length = hs.length ∧
      (∀ h ∈ hs', h.length = p.length) ∧
      ∀ (a b : Nat) r, p[a]? = some b → RowOf hs b r → RowOf hs' a r := by
  have hsome : ∀ h ∈ hs, (applyPerm h (some p)).isSome := by
    intro h hh
    obtain ⟨r, hr, _⟩ := applyPerm_some (xs := h) (p := p) (fun a ha => by rw [hB h hh]; exact hp a ha)
    simp [hr]
  obtain ⟨hs', hr, hm⟩ := optAll_map_isSome hsome
  have hlen : hs'.length = hs.length := by have := congrArg List.length hm; simpa using this
  have hk : ∀ (k : Nat) t', hs'[k]? = some t' → ∃ t, hs[k]? = some t ∧ applyPerm t (some p) = some t' := by
    intro k t' hk
    have := congrArg (·[k]?) hm
    simp only [List.getElem?_map, hk, Option.map_some] at this
    cases hsk : hs[k]? with
    | none => rw [hsk] at this; simp at this
    | some t => rw [hsk] at this; exact ⟨t, rfl, by simpa using this.symm⟩
  refine ⟨hs', hr, hlen, ?_, ?_⟩
  · intro h hh
    obtain ⟨k, hk', hkk⟩ := List.mem_iff_getElem.mp hh
    obtain ⟨t, ht, hap⟩ := hk k h (by rw [← hkk]; exact List.getElem?_eq_getElem hk')
    obtain ⟨r, hr', hl, _⟩ := applyPerm_some (xs := t) (p := p)
      (fun a ha => by rw [hB t (List.mem_of_getElem? ht)]; exact hp a ha)
    rw [hap] at hr'; cases hr'; exact hl
  · intro a b r hab hrow
    unfold RowOf at hrow ⊢
    rw [← hrow]
    apply List.ext_getElem?
    intro k
    simp only [List.getElem?_map]
    cases hk' : hs'[k]? with
    | none =>
      have : hs[k]? = none := by
        rw [List.getElem?_eq_none_iff] at hk' ⊢; omega
      simp [this]
    | some t' =>
      obtain ⟨t, ht, hap⟩ := hk k t' hk'
      obtain ⟨r', hr', _, hel⟩ := applyPerm_some (xs := t) (p := p)
        (fun a ha => by rw [hB t (List.mem_of_getElem? ht)]; exact hp a ha)
      rw [hap] at hr'; cases hr'
      simp [ht, hel a b hab]

theorem permAll_none (hs : List (List S)) : optAll (hs.map (applyPerm · none)) = some hs := by
  have := optAll_map_eq (l := hs) (f := (applyPerm · none)) (g := id) (fun a _ => rfl)
  simpa using this

/-- `sorted_indices` / `unsorted_indices` of a `PackedSequence` over `B` sequences: both `None`, or a
permutation of `0..B-1` and its inverse -/
def PermOK (B : Nat) : Option (List Nat) → Option (List Nat) → Prop
  | none, none => True
  | some s, some u => s.length = B ∧ u.length = B ∧ (∀ a ∈ s, a < B) ∧ (∀ a ∈ u, a < B) ∧
      ∀ j, j < B → ∃ i, u[j]? = some i ∧ s[i]? = some j
  | _, _ => False

/-- position of the user's sequence `j` inside the (sorted) packed batch -/
def posOf (u : Option (List Nat)) (j i : Nat) : Prop :=
  match u with
  | none => i = j
  | some u => u[j]? = some i

/-- `h_n = unsort(sort(h))`: re-ordering by `sorted_indices` and then by `unsorted_indices` is the identity -/
theorem unsort_sort_id' {B : Nat} {s u : List Nat} (hp : PermOK B (some s) (some u)) (xs : List α)
    (hx : xs.length = B) :
    ∃ ys, applyPerm xs (some s) = some ys ∧ applyPerm ys (some u) = some xs := by
  obtain ⟨hsl, hul, hsB, huB, hinv⟩ := hp
  obtain ⟨ys, hys, hyl, hyel⟩ := applyPerm_some (xs := xs) (p := s) (fun a ha => by rw [hx]; exact hsB a ha)
  obtain ⟨zs, hzs, hzl, hzel⟩ := applyPerm_some (xs := ys) (p := u) (fun a ha => by rw [hyl, hsl]; exact huB a ha)
  refine ⟨ys, hys, ?_⟩
  rw [hzs]; congr 1
  apply List.ext_getElem?
  intro j
  by_cases hj : j < B
  · obtain ⟨i, hui, hsi⟩ := hinv j hj
    rw [hzel j i hui, hyel i j hsi]
  · rw [List.getElem?_eq_none_iff.mpr (by omega), List.getElem?_eq_none_iff.mpr (by omega)]


/-- the initial state of the user's sequence `j`, layer/direction by layer/direction (`none` = default zeros) -/
def InitRow (init : Option (List (List S))) (j : Nat) (s0 : Option (List S)) : Prop :=
  match init, s0 with
  | none, none => True
  | some h0s, some r => RowOf h0s j r
  | _, _ => False

theorem rowOf_replicate (n B : Nat) (z : S) {i : Nat} (hi : i < B) :
    RowOf (List.replicate n (List.replicate B z)) i (List.replicate n z) := by
  simp [RowOf, List.map_replicate, hi]

theorem posOf_lt {B : Nat} {s u : Option (List Nat)} (hp : PermOK B s u) {j i : Nat} (hj : j < B)
    (h : posOf u j i) : i < B := by
  cases s <;> cases u <;> simp only [PermOK, posOf] at hp h
  · omega
  · obtain ⟨_, _, _, huB, _⟩ := hp
    exact huB i (List.mem_of_getElem? h)

theorem initStates_ok (cfg : Cfg V S) (L P B : Nat) (sIdx uIdx : Option (List Nat)) (hperm : PermOK B sIdx uIdx)
    (init : Option (List (List S)))
    (hinit : ∀ h0s, init = some h0s → h0s.length = P * L ∧ ∀ h ∈ h0s, h.length = B) :
    ∃ h0s, initStates cfg L P B sIdx init = some h0s ∧ h0s.length = P * L ∧ (∀ h ∈ h0s, h.length = B) ∧
      ∀ j i s0, j < B → posOf uIdx j i → InitRow init j s0 →
        RowOf h0s i (s0.getD (List.replicate (L * P) cfg.zero)) := by
  cases init with
  | none =>
    refine ⟨_, rfl, by simp [Nat.mul_comm], ?_, ?_⟩
    · intro h hh; rw [(List.mem_replicate.mp hh).2]; simp
    · intro j i s0 hj hpos hrow
      cases s0 with
      | some r => simp [InitRow] at hrow
      | none => exact rowOf_replicate _ _ _ (posOf_lt hperm hj hpos)
  | some h =>
    obtain ⟨hlen, hB⟩ := hinit h rfl
    cases sIdx with
    | none =>
      cases uIdx with
      | some u => simp [PermOK] at hperm
      | none =>
        refine ⟨h, by simp [initStates, permAll_none], hlen, hB, ?_⟩
        intro j i s0 hj hpos hrow
        simp only [posOf] at hpos; subst hpos
        cases s0 with
        | none => simp [InitRow] at hrow
        | some r => simpa [InitRow] using hrow
    | some s =>
      cases uIdx with
      | none => simp [PermOK] at hperm
      | some u =>
        obtain ⟨hsl, hul, hsB, huB, hinv⟩ := hperm
        obtain ⟨h0s, hr, hl, hB', hrows⟩ := permAll (hs := h) (p := s) hB hsB
        refine ⟨h0s, by simp [initStates, hr], by rw [hl, hlen], fun a ha => by rw [hB' a ha, hsl], ?_⟩
        intro j i s0 hj hpos hrow
        simp only [posOf] at hpos
        obtain ⟨i', hui, hsi⟩ := hinv j hj
        rw [hpos] at hui; cases hui
        cases s0 with
        | none => simp [InitRow] at hrow
        | some r => exact hrows i j r hsi (by simpa [InitRow] using hrow)

theorem finalPerm_ok {B : Nat} (sIdx uIdx : Option (List Nat)) (hperm : PermOK B sIdx uIdx)
    (hs : List (List S)) (hB : ∀ h ∈ hs, h.length = B) :
    ∃ hn, optAll (hs.map (applyPerm · uIdx)) = some hn ∧ hn.length = hs.length ∧ (∀ h ∈ hn, h.length = B) ∧
      ∀ j i r, posOf uIdx j i → RowOf hs i r → RowOf hn j r := by
  cases uIdx with
  | none =>
    refine ⟨hs, permAll_none hs, rfl, hB, ?_⟩
    intro j i r hpos hrow
    simp only [posOf] at hpos; subst hpos; exact hrow
  | some u =>
    cases sIdx with
    | none => simp [PermOK] at hperm
    | some s =>
      obtain ⟨hsl, hul, hsB, huB, hinv⟩ := hperm
      obtain ⟨hn, hr, hl, hB', hrows⟩ := permAll (hs := hs) (p := u) hB huB
      exact ⟨hn, hr, hl, fun a ha => by rw [hB' a ha, hul], fun j i r hpos hrow => hrows j i r hpos hrow⟩

end Opacus.Rnn
