import Mathlib.Analysis.SpecialFunctions.ExpDeriv
import Mathlib.Analysis.Calculus.Deriv.MeanValue
import Mathlib.Analysis.Calculus.Deriv.Inv
import Mathlib.Probability.Distributions.Gaussian.Real
import Mathlib.MeasureTheory.Integral.IntervalIntegral.FundThmCalculus
import Mathlib.Tactic
/-! The Gaussian-DP curve `δ(ε, μ) = Φ(-ε/μ + μ/2) - e^ε Φ(-ε/μ - μ/2)` is strictly decreasing in `ε` and
strictly increasing in `μ`; hence `eps_from_mu` (its root in `ε`) is unique, non-increasing in `δ` and
non-decreasing in `μ`.  `Φ` enters through three facts only: it is positive, differentiable, and its
derivative is a Gaussian density `K·exp(-x²/2)`. -/
namespace Opacus.GdpMono
open Real

structure GaussLike (phi dens : ℝ → ℝ) (K : ℝ) : Prop where
  K_pos : 0 < K
  deriv : ∀ x, HasDerivAt phi (dens x) x
  dens_eq : ∀ x, dens x = K * exp (-(x ^ 2) / 2)
  pos : ∀ x, 0 < phi x

/-- `delta_eps_mu` over the reals -/
noncomputable def D (phi : ℝ → ℝ) (ε μ : ℝ) : ℝ := phi (-ε / μ + μ / 2) - exp ε * phi (-ε / μ - μ / 2)

variable {phi dens : ℝ → ℝ} {K : ℝ}

theorem dens_pos (h : GaussLike phi dens K) (x : ℝ) : 0 < dens x := by
  rw [h.dens_eq]; exact mul_pos h.K_pos (exp_pos _)

/-- the two evaluation points sit symmetrically so that the density terms cancel -/
theorem dens_link (h : GaussLike phi dens K) (ε : ℝ) {μ : ℝ} (hμ : μ ≠ 0) :
    dens (-ε / μ + μ / 2) = exp ε * dens (-ε / μ - μ / 2) := by
  rw [h.dens_eq, h.dens_eq, mul_left_comm, ← exp_add]
  congr 2
  field_simp
  ring

theorem hasDerivAt_eps (h : GaussLike phi dens K) (ε : ℝ) {μ : ℝ} (hμ : μ ≠ 0) :
    HasDerivAt (fun e => D phi e μ) (-(exp ε * phi (-ε / μ - μ / 2))) ε := by
  have ha : HasDerivAt (fun e : ℝ => -e / μ + μ / 2) (-1 / μ) ε := by
    have := ((hasDerivAt_id ε).neg.div_const μ).add_const (μ / 2)
    simpa using this
  have hb : HasDerivAt (fun e : ℝ => -e / μ - μ / 2) (-1 / μ) ε := by
    have := ((hasDerivAt_id ε).neg.div_const μ).sub_const (μ / 2)
    simpa using this
  have h1 : HasDerivAt (fun e : ℝ => phi (-e / μ + μ / 2)) (dens (-ε / μ + μ / 2) * (-1 / μ)) ε :=
    (h.deriv (-ε / μ + μ / 2)).comp ε ha
  have h2' : HasDerivAt (fun e : ℝ => phi (-e / μ - μ / 2)) (dens (-ε / μ - μ / 2) * (-1 / μ)) ε :=
    (h.deriv (-ε / μ - μ / 2)).comp ε hb
  have h2 : HasDerivAt (fun e : ℝ => exp e * phi (-e / μ - μ / 2))
      (exp ε * phi (-ε / μ - μ / 2) + exp ε * (dens (-ε / μ - μ / 2) * (-1 / μ))) ε :=
    (Real.hasDerivAt_exp ε).mul h2'
  have h3 : HasDerivAt (fun e : ℝ => D phi e μ) _ ε := h1.sub h2
  refine h3.congr_deriv ?_
  rw [dens_link h ε hμ]
  ring

theorem strictAnti_eps (h : GaussLike phi dens K) {μ : ℝ} (hμ : μ ≠ 0) : StrictAnti (fun e => D phi e μ) := by
  apply strictAnti_of_deriv_neg
  intro ε
  rw [(hasDerivAt_eps h ε hμ).deriv]
  have := mul_pos (exp_pos ε) (h.pos (-ε / μ - μ / 2))
  linarith

theorem hasDerivAt_mu (h : GaussLike phi dens K) (ε : ℝ) {μ : ℝ} (hμ : μ ≠ 0) :
    HasDerivAt (fun m => D phi ε m) (dens (-ε / μ + μ / 2)) μ := by
  have hinv : HasDerivAt (fun m : ℝ => -ε / m) (ε / μ ^ 2) μ := by
    have h0 : HasDerivAt (fun m : ℝ => -ε * m⁻¹) (-ε * -(μ ^ 2)⁻¹) μ := (hasDerivAt_inv hμ).const_mul (-ε)
    have h0' : HasDerivAt (fun m : ℝ => -ε / m) (-ε * -(μ ^ 2)⁻¹) μ := by
      simpa only [div_eq_mul_inv] using h0
    refine h0'.congr_deriv ?_
    field_simp
  have hhalf : HasDerivAt (fun m : ℝ => m / 2) (1 / 2) μ := (hasDerivAt_id μ).div_const 2
  have ha : HasDerivAt (fun m : ℝ => -ε / m + m / 2) (ε / μ ^ 2 + 1 / 2) μ := hinv.add hhalf
  have hb : HasDerivAt (fun m : ℝ => -ε / m - m / 2) (ε / μ ^ 2 - 1 / 2) μ := hinv.sub hhalf
  have h1 : HasDerivAt (fun m : ℝ => phi (-ε / m + m / 2)) (dens (-ε / μ + μ / 2) * (ε / μ ^ 2 + 1 / 2)) μ :=
    (h.deriv (-ε / μ + μ / 2)).comp μ ha
  have h2' : HasDerivAt (fun m : ℝ => phi (-ε / m - m / 2)) (dens (-ε / μ - μ / 2) * (ε / μ ^ 2 - 1 / 2)) μ :=
    (h.deriv (-ε / μ - μ / 2)).comp μ hb
  have h2 : HasDerivAt (fun m : ℝ => exp ε * phi (-ε / m - m / 2))
      (exp ε * (dens (-ε / μ - μ / 2) * (ε / μ ^ 2 - 1 / 2))) μ := h2'.const_mul (exp ε)
  have h3 : HasDerivAt (fun m : ℝ => D phi ε m) _ μ := h1.sub h2
  refine h3.congr_deriv ?_
  have := dens_link h ε hμ
  rw [← mul_assoc, ← this]
  ring

theorem strictMonoOn_mu (h : GaussLike phi dens K) (ε : ℝ) : StrictMonoOn (fun m => D phi ε m) (Set.Ioi 0) := by
  apply strictMonoOn_of_deriv_pos (convex_Ioi 0)
  · intro m hm
    exact (hasDerivAt_mu h ε (ne_of_gt hm)).continuousAt.continuousWithinAt
  · intro m hm
    rw [interior_Ioi] at hm
    rw [(hasDerivAt_mu h ε (ne_of_gt hm)).deriv]
    exact dens_pos h _

/-- **the root `eps_from_mu` looks for is unique** -/
theorem root_unique (h : GaussLike phi dens K) {μ : ℝ} (hμ : μ ≠ 0) {δ ε₁ ε₂ : ℝ}
    (h1 : D phi ε₁ μ = δ) (h2 : D phi ε₂ μ = δ) : ε₁ = ε₂ :=
  (strictAnti_eps h hμ).injective (by simp only [h1, h2])

/-- **a larger δ, a smaller (or equal) ε** -/
theorem eps_antitone_delta (h : GaussLike phi dens K) {μ : ℝ} (hμ : μ ≠ 0) {δ δ' ε ε' : ℝ}
    (h1 : D phi ε μ = δ) (h2 : D phi ε' μ = δ') (hd : δ ≤ δ') : ε' ≤ ε := by
  by_contra hlt
  rw [not_le] at hlt
  have := strictAnti_eps h hμ hlt
  simp only [h1, h2] at this
  linarith

/-- **a larger μ, a larger (or equal) ε** at the same δ -/
theorem eps_mono_mu (h : GaussLike phi dens K) {μ μ' : ℝ} (hμ : 0 < μ) (hle : μ ≤ μ') {δ ε ε' : ℝ}
    (h1 : D phi ε μ = δ) (h2 : D phi ε' μ' = δ) : ε ≤ ε' := by
  by_contra hlt
  rw [not_le] at hlt
  have hμ' : 0 < μ' := lt_of_lt_of_le hμ hle
  have a := strictAnti_eps h (ne_of_gt hμ') hlt
  have b : D phi ε μ ≤ D phi ε μ' := (strictMonoOn_mu h ε).monotoneOn hμ hμ' hle
  simp only at a
  linarith


section stdNormal
open MeasureTheory ProbabilityTheory Set

/-- the standard normal CDF: `scipy.stats.norm.cdf` -/
noncomputable def Phi (x : ℝ) : ℝ := ∫ t in Iic x, gaussianPDFReal 0 1 t

theorem pdf_continuous : Continuous (gaussianPDFReal 0 1) := by
  rw [gaussianPDFReal_def]
  fun_prop

theorem Phi_eq (x : ℝ) : Phi x = Phi 0 + ∫ t in (0:ℝ)..x, gaussianPDFReal 0 1 t := by
  have hi : ∀ a : ℝ, IntegrableOn (gaussianPDFReal 0 1) (Iic a) := fun a => (integrable_gaussianPDFReal 0 1).integrableOn
  have := intervalIntegral.integral_Iic_sub_Iic (hi 0) (hi x)
  unfold Phi
  linarith

theorem Phi_hasDerivAt (x : ℝ) : HasDerivAt Phi (gaussianPDFReal 0 1 x) x := by
  have h1 : HasDerivAt (fun u => ∫ t in (0:ℝ)..u, gaussianPDFReal 0 1 t) (gaussianPDFReal 0 1 x) x :=
    intervalIntegral.integral_hasDerivAt_right (pdf_continuous.intervalIntegrable _ _)
      (pdf_continuous.stronglyMeasurableAtFilter _ _) pdf_continuous.continuousAt
  have h2 : HasDerivAt (fun u => Phi 0 + ∫ t in (0:ℝ)..u, gaussianPDFReal 0 1 t) (gaussianPDFReal 0 1 x) x :=
    h1.const_add (Phi 0)
  have : Phi = fun u => Phi 0 + ∫ t in (0:ℝ)..u, gaussianPDFReal 0 1 t := funext Phi_eq
  rw [this]; exact h2

theorem Phi_pos (x : ℝ) : 0 < Phi x := by
  unfold Phi
  rw [setIntegral_pos_iff_support_of_nonneg_ae]
  · have : Function.support (gaussianPDFReal 0 1) = univ := by
      ext t; simp [Function.mem_support, (gaussianPDFReal_pos 0 1 t one_ne_zero).ne']
    rw [this, univ_inter]
    simp
  · exact Filter.Eventually.of_forall (fun t => (gaussianPDFReal_pos 0 1 t one_ne_zero).le)
  · exact (integrable_gaussianPDFReal 0 1).integrableOn

theorem pdf_eq (x : ℝ) : gaussianPDFReal 0 1 x = (√(2 * π))⁻¹ * exp (-(x ^ 2) / 2) := by
  simp [gaussianPDFReal]


/-- the standard normal CDF satisfies everything the monotonicity argument uses -/
theorem gaussLike_Phi : GaussLike Phi (gaussianPDFReal 0 1) (√(2 * π))⁻¹ where
  K_pos := by positivity
  deriv := Phi_hasDerivAt
  dens_eq := pdf_eq
  pos := Phi_pos

end stdNormal

end Opacus.GdpMono
