import OpacusLean.Lemmas.RdpAcct
import Mathlib.Algebra.BigOperators.Group.List.Basic
import Mathlib.Analysis.SpecialFunctions.Pow.Real
/-! Order facts about the real-valued RDP of the model: `A_α ≥ 1`, antitone in σ, additive over
histories, permutation invariant. -/
namespace Opacus.Rdp
open Finset

theorem sq_sub_nonneg (k : ℕ) : (0 : ℝ) ≤ (k : ℝ) ^ 2 - k := by
  rcases Nat.eq_zero_or_pos k with rfl | hk
  · simp
  · have : (1 : ℝ) ≤ k := by exact_mod_cast hk
    nlinarith

/-- binomial part of `A_α`: the weights sum to one -/
theorem binom_weights_sum (q : ℝ) (n : ℕ) :
    ∑ k ∈ range (n + 1), ((n.choose k : ℝ) * (1 - q) ^ (n - k) * q ^ k) = 1 := by
  have h := add_pow q (1 - q) n
  rw [show q + (1 - q) = 1 by ring, one_pow] at h
  refine Eq.trans ?_ h.symm
  apply Finset.sum_congr rfl
  intro k _
  ring

/-- `A_α ≥ 1` because every exponent `(k²−k)/(2σ²)` is non-negative -/
theorem one_le_sgmSum {q v : ℝ} (hq0 : 0 ≤ q) (hq1 : q ≤ 1) (hv : 0 < v) (n : ℕ) :
    1 ≤ sgmSum q v n := by
  rw [← binom_weights_sum q n]
  unfold sgmSum sgmTerm
  apply Finset.sum_le_sum
  intro k _
  have h1 : 0 ≤ 1 - q := by linarith
  have hw : 0 ≤ (n.choose k : ℝ) * (1 - q) ^ (n - k) * q ^ k := by positivity
  have he : 1 ≤ Real.exp (((k : ℝ) ^ 2 - k) / (2 * v)) := by
    rw [← Real.exp_zero]
    apply Real.exp_le_exp.mpr
    exact div_nonneg (sq_sub_nonneg k) (by positivity)
  calc (n.choose k : ℝ) * (1 - q) ^ (n - k) * q ^ k
      = (n.choose k : ℝ) * (1 - q) ^ (n - k) * q ^ k * 1 := by ring
    _ ≤ _ := mul_le_mul_of_nonneg_left he hw

/-- `A_α` is antitone in the variance -/
theorem sgmSum_antitone {q v v' : ℝ} (hq0 : 0 ≤ q) (hq1 : q ≤ 1) (hv : 0 < v) (hvv : v ≤ v') (n : ℕ) :
    sgmSum q v' n ≤ sgmSum q v n := by
  unfold sgmSum sgmTerm
  apply Finset.sum_le_sum
  intro k _
  have h1 : 0 ≤ 1 - q := by linarith
  have hw : 0 ≤ (n.choose k : ℝ) * (1 - q) ^ (n - k) * q ^ k := by positivity
  apply mul_le_mul_of_nonneg_left _ hw
  apply Real.exp_le_exp.mpr
  apply div_le_div_of_nonneg_left (sq_sub_nonneg k) (by positivity) (by linarith)

theorem rdpR_nonneg {q s : ℝ} (hq0 : 0 ≤ q) (hq1 : q ≤ 1) (hs : 0 < s) {n : ℕ} (hn : 2 ≤ n) :
    0 ≤ rdpR q s n := by
  unfold rdpR
  have hn' : (0 : ℝ) < (n : ℝ) - 1 := by
    have : (2 : ℝ) ≤ n := by exact_mod_cast hn
    linarith
  split_ifs
  · exact le_refl _
  · positivity
  · exact div_nonneg (Real.log_nonneg (one_le_sgmSum hq0 hq1 (mul_pos hs hs) n)) hn'.le

/-- term-wise: more noise, less RDP (integer orders) -/
theorem rdpR_antitone_sigma {q s s' : ℝ} (hq0 : 0 ≤ q) (hq1 : q ≤ 1) (hs : 0 < s) (hss : s ≤ s')
    {n : ℕ} (hn : 2 ≤ n) : rdpR q s' n ≤ rdpR q s n := by
  unfold rdpR
  have hn' : (0 : ℝ) < (n : ℝ) - 1 := by
    have : (2 : ℝ) ≤ n := by exact_mod_cast hn
    linarith
  have hs' : 0 < s' := lt_of_lt_of_le hs hss
  have hsq : s * s ≤ s' * s' := mul_le_mul hss hss hs.le hs'.le
  split_ifs
  · exact le_refl _
  · apply div_le_div_of_nonneg_left (by positivity) (by positivity)
    linarith
  · apply div_le_div_of_nonneg_right _ hn'.le
    apply Real.log_le_log
    · exact lt_of_lt_of_le one_pos (one_le_sgmSum hq0 hq1 (mul_pos hs' hs') n)
    · exact sgmSum_antitone hq0 hq1 (mul_pos hs hs) hsq n

/-! ### the summed RDP of a history -/

theorem totR_nil (n : ℕ) : totR [] n = 0 := rfl

theorem totR_cons (e : ℝ × ℝ × ℕ) (t : Hist ℝ) (n : ℕ) :
    totR (e :: t) n = rdpR e.2.1 e.1 n * (e.2.2 : ℝ) + totR t n := by simp [totR]

theorem totR_append (h₁ h₂ : Hist ℝ) (n : ℕ) : totR (h₁ ++ h₂) n = totR h₁ n + totR h₂ n := by
  simp [totR]

theorem totR_perm {h h' : Hist ℝ} (hp : h.Perm h') (n : ℕ) : totR h n = totR h' n := by
  unfold totR
  exact (hp.map _).sum_eq

theorem totR_nonneg {h : Hist ℝ} (hg : GoodHist h) {n : ℕ} (hn : 2 ≤ n) : 0 ≤ totR h n := by
  unfold totR
  apply List.sum_nonneg
  intro x hx
  obtain ⟨e, he, rfl⟩ := List.mem_map.mp hx
  obtain ⟨h0, h1, hs⟩ := hg e he
  exact mul_nonneg (rdpR_nonneg h0 h1 hs hn) (Nat.cast_nonneg _)

/-- splitting / merging a run of identical steps does not change the summed RDP -/
theorem totR_split (s q : ℝ) (n₁ n₂ : ℕ) (n : ℕ) :
    totR [(s, q, n₁ + n₂)] n = totR [(s, q, n₁), (s, q, n₂)] n := by
  simp [totR]; ring

theorem epsOf_mono_rdp {ρ ρ' : ℝ} (h : ρ ≤ ρ') (α δ : ℝ) : epsOf ρ α δ ≤ epsOf ρ' α δ := by
  unfold epsOf; linarith

theorem epsOf_antitone_delta (ρ : ℝ) {α : ℝ} (hα : 1 < α) {δ δ' : ℝ} (hδ : 0 < δ) (h : δ ≤ δ') :
    epsOf ρ α δ' ≤ epsOf ρ α δ := by
  unfold epsOf
  have h1 : 0 < α - 1 := by linarith
  have hl : Real.log δ ≤ Real.log δ' := Real.log_le_log hδ h
  have : (Real.log δ + Real.log α) / (α - 1) ≤ (Real.log δ' + Real.log α) / (α - 1) :=
    div_le_div_of_nonneg_right (by linarith) h1.le
  linarith

end Opacus.Rdp
