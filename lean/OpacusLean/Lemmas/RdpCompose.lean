import OpacusLean.Lemmas.RdpMoment
import OpacusLean.Lemmas.AcctHistoryRle
import Mathlib.MeasureTheory.Integral.Pi
/-! End-to-end soundness of the model's ε for the (non-adaptive) composition of the canonical pairs
of the recorded steps: product measure, product density, Fubini. -/
namespace Opacus.Rdp
open MeasureTheory ProbabilityTheory Real
open scoped NNReal ENNReal

/-- variance `σ²` as an `ℝ≥0` -/
noncomputable def var (s : ℝ) : ℝ≥0 := ⟨s * s, mul_self_nonneg s⟩

theorem var_ne_zero {s : ℝ} (hs : s ≠ 0) : var s ≠ 0 := by
  intro h
  have : s * s = 0 := congrArg NNReal.toReal h
  exact hs (mul_self_eq_zero.mp this)

theorem var_coe (s : ℝ) : ((var s : ℝ≥0) : ℝ) = s * s := rfl

/-- the canonical `P = (1−q)·N(0,v) + q·N(1,v)` as a measure -/
noncomputable def sgmP (q : ℝ) (v : ℝ≥0) : Measure ℝ :=
  ENNReal.ofReal (1 - q) • gaussianReal 0 v + ENNReal.ofReal q • gaussianReal 1 v

theorem measurable_ratio (q : ℝ) (v : ℝ≥0) : Measurable (ratio q v) := by
  unfold ratio; fun_prop

/-- `P = ratio · Q` as measures -/
theorem sgmP_eq_withDensity {q : ℝ} (hq0 : 0 ≤ q) (hq1 : q ≤ 1) (v : ℝ≥0) (hv : v ≠ 0) :
    sgmP q v = (gaussianReal 0 v).withDensity (fun x => ENNReal.ofReal (ratio q v x)) := by
  have h1 : 0 ≤ 1 - q := by linarith
  unfold sgmP
  rw [gaussianReal_of_var_ne_zero 0 hv, gaussianReal_of_var_ne_zero 1 hv]
  rw [← withDensity_smul _ (measurable_gaussianPDF 0 v), ← withDensity_smul _ (measurable_gaussianPDF 1 v),
    ← withDensity_add_left ((measurable_gaussianPDF 0 v).const_smul _),
    ← withDensity_mul _ (measurable_gaussianPDF 0 v) (measurable_ratio q v).ennreal_ofReal]
  congr 1
  funext x
  simp only [Pi.add_apply, Pi.smul_apply, Pi.mul_apply, smul_eq_mul, gaussianPDF]
  rw [← ENNReal.ofReal_mul h1, ← ENNReal.ofReal_mul hq0, ← ENNReal.ofReal_add (mul_nonneg h1 (gaussianPDFReal_nonneg _ _ _)) (mul_nonneg hq0 (gaussianPDFReal_nonneg _ _ _)),
    ← ENNReal.ofReal_mul (gaussianPDFReal_nonneg _ _ _), ratio_mul_pdf q v hv x, mul_comm]

/-- `P(S) = ∫_S (dP/dQ) dQ` -/
theorem sgmP_apply {q : ℝ} (hq0 : 0 ≤ q) (hq1 : q ≤ 1) (v : ℝ≥0) (hv : v ≠ 0) {S : Set ℝ}
    (hS : MeasurableSet S) :
    (sgmP q v S).toReal = ∫ x in S, ratio q v x ∂(gaussianReal 0 v) := by
  rw [sgmP_eq_withDensity hq0 hq1 v hv, withDensity_apply _ hS,
    ← ofReal_integral_eq_lintegral_ofReal (integrable_ratio q v hv).integrableOn
      (Filter.Eventually.of_forall fun x => ratio_nonneg hq0 hq1 v x),
    ENNReal.toReal_ofReal]
  exact integral_nonneg fun x => ratio_nonneg hq0 hq1 v x

/-- the order-`n` moment of one step is `e^{(n−1)·rdp}` for the RDP value the code computes —
in all three branches `q = 0`, `q = 1`, `0 < q < 1` -/
theorem moment_eq_exp_rdpR {q s : ℝ} (hq0 : 0 ≤ q) (hq1 : q ≤ 1) (hs : s ≠ 0) {n : ℕ} (hn : 2 ≤ n) :
    ∫ x, (ratio q (var s) x) ^ n ∂(gaussianReal 0 (var s)) = rexp (((n : ℝ) - 1) * rdpR q s n) := by
  have hn1 : ((n : ℝ) - 1) ≠ 0 := by
    have : (2 : ℝ) ≤ n := by exact_mod_cast hn
    intro h; linarith
  have hss : s * s ≠ 0 := mul_ne_zero hs hs
  unfold rdpR
  by_cases h0 : q = 0
  · subst h0; simp [ratio]
  by_cases h1 : q = 1
  · subst h1
    simp only [one_ne_zero, if_false, if_true]
    have := gaussian_moment (var s) (var_ne_zero hs) (n : ℝ)
    simp only [Real.rpow_natCast] at this
    have hr : ∀ x, ratio 1 (var s) x = rexp ((2 * x - 1) / (2 * (var s : ℝ))) := by
      intro x; simp [ratio]
    simp_rw [hr, this, var_coe]
    congr 1; field_simp
  · simp only [h0, h1, if_false]
    rw [sgm_moment_eq_sgmSum q (var s) (var_ne_zero hs) n, var_coe, mul_div_cancel₀ _ hn1, Real.exp_log]
    have hq0' : 0 < q := lt_of_le_of_ne hq0 (Ne.symm h0)
    have hq1' : q < 1 := lt_of_le_of_ne hq1 h1
    exact Finset.sum_pos (fun k hk => sgmTerm_pos hq0' hq1' (by simpa [Nat.lt_succ_iff] using hk)) (by simp)

/-- per-step parameters `(σ, q)` in the regular domain -/
def GoodStep (p : ℝ × ℝ) : Prop := 0 ≤ p.2 ∧ p.2 ≤ 1 ∧ 0 < p.1

/-- the product reference measure `⊗ᵢ N(0, σᵢ²)` of `k` recorded steps -/
noncomputable def prodQ {k : ℕ} (par : Fin k → ℝ × ℝ) : Measure (Fin k → ℝ) :=
  Measure.pi fun i => gaussianReal 0 (var (par i).1)

/-- the product density `∏ᵢ dPᵢ/dQᵢ` -/
noncomputable def prodL {k : ℕ} (par : Fin k → ℝ × ℝ) (x : Fin k → ℝ) : ℝ :=
  ∏ i, ratio (par i).2 (var (par i).1) (x i)

instance {k : ℕ} (par : Fin k → ℝ × ℝ) : IsProbabilityMeasure (prodQ par) := by
  unfold prodQ; infer_instance

theorem prodL_nonneg {k : ℕ} (par : Fin k → ℝ × ℝ) (hp : ∀ i, GoodStep (par i)) (x : Fin k → ℝ) :
    0 ≤ prodL par x :=
  Finset.prod_nonneg fun i _ => ratio_nonneg (hp i).1 (hp i).2.1 _ _

theorem prodL_integrable {k : ℕ} (par : Fin k → ℝ × ℝ) (hp : ∀ i, GoodStep (par i)) :
    Integrable (prodL par) (prodQ par) :=
  Integrable.fintype_prod (f := fun i x => ratio (par i).2 (var (par i).1) x)
    (μ := fun i => gaussianReal 0 (var (par i).1))
    fun i => integrable_ratio _ _ (var_ne_zero (hp i).2.2.ne')

theorem prodL_rpow {k : ℕ} (par : Fin k → ℝ × ℝ) (n : ℕ) (x : Fin k → ℝ) :
    prodL par x ^ (n : ℝ) = ∏ i, (ratio (par i).2 (var (par i).1) (x i)) ^ n := by
  rw [Real.rpow_natCast, prodL, Finset.prod_pow]

theorem prodL_pow_integrable {k : ℕ} (par : Fin k → ℝ × ℝ) (hp : ∀ i, GoodStep (par i)) (n : ℕ) :
    Integrable (fun x => prodL par x ^ (n : ℝ)) (prodQ par) := by
  simp_rw [prodL_rpow]
  exact Integrable.fintype_prod (f := fun i x => ratio (par i).2 (var (par i).1) x ^ n)
    (μ := fun i => gaussianReal 0 (var (par i).1))
    fun i => integrable_ratio_pow _ _ (var_ne_zero (hp i).2.2.ne') n

/-- Fubini: the moment of the composition is `e^{(n−1)·Σᵢ rdpᵢ}` -/
theorem prodL_moment {k : ℕ} (par : Fin k → ℝ × ℝ) (hp : ∀ i, GoodStep (par i)) {n : ℕ} (hn : 2 ≤ n) :
    ∫ x, prodL par x ^ (n : ℝ) ∂(prodQ par)
      = rexp (((n : ℝ) - 1) * ∑ i, rdpR (par i).2 (par i).1 n) := by
  simp_rw [prodL_rpow]
  unfold prodQ
  rw [integral_fintype_prod_eq_prod (fun i x => ratio (par i).2 (var (par i).1) x ^ n)]
  simp_rw [fun i => moment_eq_exp_rdpR (hp i).1 (hp i).2.1 (hp i).2.2.ne' hn]
  rw [← Real.exp_sum, Finset.mul_sum]

theorem totR_of_expand {k : ℕ} (par : Fin k → ℝ × ℝ) {h : Hist ℝ} (he : expand h = List.ofFn par) (n : ℕ) :
    totR h n = ∑ i, rdpR (par i).2 (par i).1 n := by
  rw [totR_eq_expand, he, List.map_ofFn, List.sum_ofFn]
  rfl

/-- **the ε the RDP accountant reports is a valid (ε, δ) guarantee for the recorded history.**
Let the history `h` stand for the `k` steps `par 0 … par (k−1)` (`expand h = ofFn par`; this is what
`step()` produces, `rle_expand`).  For the composition of the canonical pairs of these steps —
`Q = ⊗ᵢ N(0,σᵢ²)`, `P = (∏ᵢ dPᵢ/dQᵢ)·Q` with `Pᵢ = (1−qᵢ)N(0,σᵢ²)+qᵢN(1,σᵢ²)` — the ε returned by the
transcribed `get_epsilon` (any non-empty list of integer orders ≥ 2) satisfies
`P(S) ≤ e^ε Q(S) + δ` for every measurable `S`. -/
theorem composed_eps_valid (cfg : Cfg ℝ) {h : Hist ℝ} (hne : h ≠ []) (hg : GoodHist h) {k : ℕ}
    (par : Fin k → ℝ × ℝ) (hp : ∀ i, GoodStep (par i)) (he : expand h = List.ofFn par)
    {δ : ℝ} (hδ : 0 < δ) {ns : List ℕ} (hns : ns ≠ []) (hn2 : ∀ n ∈ ns, 2 ≤ n) :
    ∃ v, acctEpsilon cfg h δ (ns.map .int) = .ok (.fin v) ∧
      ∀ S : Set (Fin k → ℝ), MeasurableSet S →
        ∫ x in S, prodL par x ∂(prodQ par) ≤ rexp v * (prodQ par S).toReal + δ := by
  obtain ⟨v, hv, ⟨n, hn, hvn⟩, _⟩ := acctEpsilon_int cfg h hne hg δ ns hns hn2
  refine ⟨v, hv, fun S hS => ?_⟩
  have h1 : (1 : ℝ) < n := by exact_mod_cast (hn2 n hn)
  rw [hvn]
  apply rdp_to_dp_sound_gen (prodQ par) (prodL par) (prodL_nonneg par hp) (prodL_integrable par hp)
    (n : ℝ) (totR h n) δ h1 hδ (prodL_pow_integrable par hp n) _ S hS
  rw [prodL_moment par hp (hn2 n hn), totR_of_expand par he]

end Opacus.Rdp
