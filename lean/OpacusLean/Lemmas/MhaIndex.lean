import OpacusLean.Model.Mha
import Mathlib.Tactic.Ring
import Mathlib.Algebra.BigOperators.Fin
import Mathlib.Algebra.BigOperators.Ring.Finset
/-! Index lemmas for the C14 model: materialisation (`Buf`) is the identity, row-major encode/decode are
inverse, `view` regroupings used by the head split / merge. -/
namespace Opacus.Mha

@[simp] theorem get_ofFn {α n} (f : Fin n → α) : (Buf.ofFn f).get = f := by
  funext i; simp [Buf.get, Buf.ofFn]

@[simp] theorem get₂_ofFn₂ {α a b} (f : Fin a → Fin b → α) : (Buf.ofFn₂ f).get₂ = f := by
  funext i j; simp [Buf.get₂, Buf.ofFn₂]

@[simp] theorem get₃_ofFn₃ {α a b c} (f : Fin a → Fin b → Fin c → α) : (Buf.ofFn₃ f).get₃ = f := by
  funext i j k; simp [Buf.get₃, Buf.ofFn₃]

@[simp] theorem decL_enc2 {a b} (i : Fin a) (j : Fin b) : decL (enc2 i j) = i := by
  apply Fin.ext
  have hb : 0 < b := Nat.lt_of_le_of_lt (Nat.zero_le _) j.isLt
  simp only [decL, enc2]
  rw [Nat.add_comm, Nat.add_mul_div_right _ _ hb, Nat.div_eq_of_lt j.isLt, Nat.zero_add]

@[simp] theorem decR_enc2 {a b} (i : Fin a) (j : Fin b) : decR (enc2 i j) = j := by
  apply Fin.ext
  simp only [decR, enc2]
  rw [Nat.add_comm, Nat.add_mul_mod_self_right, Nat.mod_eq_of_lt j.isLt]

@[simp] theorem enc2_dec {a b} (k : Fin (a * b)) : enc2 (decL k) (decR k) = k := by
  apply Fin.ext
  simp only [decL, decR, enc2]
  rw [Nat.mul_comm]; exact Nat.div_add_mod _ _

theorem enc2_inj {a b} {i i' : Fin a} {j j' : Fin b} (h : enc2 i j = enc2 i' j') : i = i' ∧ j = j' := by
  have h1 := congrArg decL h
  have h2 := congrArg decR h
  simpa using And.intro h1 h2

@[simp] theorem flat3_enc {α a b c} (t : Fin a → Fin b → Fin c → α) (i : Fin a) (j : Fin b) (k : Fin c) :
    flat3 t (enc2 (enc2 i j) k) = t i j k := by
  simp [flat3]

/-- the regrouping `(T, B, h·d) → (T, B·h, d)` of a contiguous buffer -/
theorem view3_split {α T B h d} (x : Fin T → Fin B → Fin (h * d) → α) (t : Fin T) (b : Fin B)
    (hd : Fin h) (c : Fin d) :
    view3 (split_shape T B h d) x t (enc2 b hd) c = x t b (enc2 hd c) := by
  have : (Fin.cast (split_shape T B h d).symm (enc2 (enc2 t (enc2 b hd)) c))
      = enc2 (enc2 t b) (enc2 hd c) := by
    apply Fin.ext; simp only [enc2, Fin.val_cast]; ring
  simp only [view3, unflat3, this, flat3_enc]

theorem view3_merge {α T B h d} (y : Fin T → Fin (B * h) → Fin d → α) (t : Fin T) (b : Fin B)
    (hd : Fin h) (c : Fin d) :
    view3 (split_shape T B h d).symm y t b (enc2 hd c) = y t (enc2 b hd) c := by
  have : (Fin.cast (split_shape T B h d).symm.symm (enc2 (enc2 t b) (enc2 hd c)))
      = enc2 (enc2 t (enc2 b hd)) c := by
    apply Fin.ext; simp only [enc2, Fin.val_cast]; ring
  simp only [view3, unflat3, this, flat3_enc]

theorem splitHeads_apply {α T B h d} (x : Fin T → Fin B → Fin (h * d) → α) (b : Fin B) (hd : Fin h)
    (t : Fin T) (c : Fin d) : splitHeads x (enc2 b hd) t c = x t b (enc2 hd c) := by
  simp [splitHeads, transpose01, view3_split]

theorem mergeHeads_apply {α L B h d} (y : Fin (B * h) → Fin L → Fin d → α) (l : Fin L) (b : Fin B)
    (hd : Fin h) (c : Fin d) : mergeHeads y l b (enc2 hd c) = y (enc2 b hd) l c := by
  simp [mergeHeads, transpose01, view3_merge]

/-- every column `e` of the embedding axis is `(head e / d, offset e % d)` -/
theorem mergeHeads_apply' {α L B h d} (y : Fin (B * h) → Fin L → Fin d → α) (l : Fin L) (b : Fin B)
    (e : Fin (h * d)) : mergeHeads y l b e = y (enc2 b (decL e)) l (decR e) := by
  conv_lhs => rw [← enc2_dec e]
  exact mergeHeads_apply ..

theorem splitHeads_apply' {α T B h d} (x : Fin T → Fin B → Fin (h * d) → α) (j : Fin (B * h))
    (t : Fin T) (c : Fin d) : splitHeads x j t c = x t (decL j) (enc2 (decR j) c) := by
  conv_lhs => rw [← enc2_dec j]
  exact splitHeads_apply ..

theorem mergeHeads_splitHeads {α T B h d} (x : Fin T → Fin B → Fin (h * d) → α) :
    mergeHeads (splitHeads x) = x := by
  funext t b e
  rw [mergeHeads_apply', splitHeads_apply, enc2_dec]

theorem splitHeads_mergeHeads {α L B h d} (y : Fin (B * h) → Fin L → Fin d → α) :
    splitHeads (mergeHeads y) = y := by
  funext j l c
  rw [splitHeads_apply', mergeHeads_apply, enc2_dec]

end Opacus.Mha
