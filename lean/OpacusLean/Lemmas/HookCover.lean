import OpacusLean.Model.HookCover
import Mathlib.Data.List.Nodup
import Mathlib.Data.List.Perm.Basic
/-! `hooked_cover`: the hooked units of a module tree partition its trainable parameters. -/
namespace Opacus.HookCover

mutual
  theorem cover : ∀ (m : Mod), wellFormed m = true → ((units m).flatten).Perm (allParams m)
    | .node own s r kids, h => by
      simp only [wellFormed, Bool.and_eq_true, Bool.or_eq_true, Bool.not_eq_true'] at h
      have hk := coverL kids h.2
      unfold units allParams
      cases r with
      | true =>
        have hp : own.isPerm (allParamsL kids) = true := by
          rcases h.1 with h1 | h1
          · cases h1
          · exact h1
        simp only [if_true]
        exact hk.trans (List.isPerm_iff.mp hp).symm
      | false =>
        simp only [Bool.false_eq_true, if_false]
        by_cases hc : (!own.isEmpty && !s) = true
        · simp [hc]
        · simp only [hc, Bool.false_eq_true, if_false, List.flatten_append]
          by_cases ho : (!own.isEmpty) = true
          · simp only [ho, if_true, List.flatten_cons, List.flatten_nil, List.append_nil]
            exact List.Perm.append_left own hk
          · have : own = [] := by
              cases own with
              | nil => rfl
              | cons a as => simp at ho
            simp only [ho, Bool.false_eq_true, if_false, List.flatten_nil, this, List.nil_append]
            exact hk
  theorem coverL : ∀ (ms : List Mod), wellFormedL ms = true → ((unitsL ms).flatten).Perm (allParamsL ms)
    | [], _ => by simp [unitsL, allParamsL]
    | m :: ms, h => by
      simp only [wellFormedL, Bool.and_eq_true] at h
      simp only [unitsL, allParamsL, List.flatten_append]
      exact List.Perm.append (cover m h.1) (coverL ms h.2)
end

/-- with distinct parameter objects: every trainable parameter lies in some unit, and no two units share one -/
theorem units_partition (m : Mod) (h : wellFormed m = true) (hn : (allParams m).Nodup) :
    (∀ p, p ∈ allParams m ↔ ∃ u ∈ units m, p ∈ u) ∧ (units m).Pairwise List.Disjoint := by
  have hc := cover m h
  refine ⟨fun p => ?_, ?_⟩
  · rw [← hc.mem_iff, List.mem_flatten]
  · have hn' : ((units m).flatten).Nodup := hc.nodup_iff.mpr hn
    rw [List.nodup_flatten] at hn'
    exact hn'.2

end Opacus.HookCover
