import OpacusLean.Model.Wrap
/-! Helper lemmas for C19: which slices of the state the individual operations leave alone. -/
namespace Opacus.Wrap

/-- what no training operation touches on a layer (only wrap / unwrap change the last three) -/
def Layer.frame (l : Layer) : Layer × Bool × Bool × Option Bool :=
  (l.erase, l.opacusHooks, l.ftCompute, l.fullBwdFlag)

/-- training operations (everything but wrap / unwrap) -/
def Op.inner : Op → Bool
  | .wrap _ => false
  | .unwrap => false
  | _ => true

/-! ### generic list lemmas -/

theorem set_self {α} (l : List α) (i : Nat) (a : α) (h : l[i]? = some a) : l.set i a = l := by
  induction l generalizing i with
  | nil => rfl
  | cons x xs ih =>
    cases i with
    | zero => simp at h; simp [h]
    | succ j => simp at h; simp [ih j h]

theorem map_set_proj {α β} (proj : α → β) (l : List α) (i : Nat) (a b : α) (h : l[i]? = some a)
    (hp : proj b = proj a) : (l.set i b).map proj = l.map proj := by
  rw [List.map_set, hp]
  apply set_self
  simp [h]

theorem updAt_map {β} (proj : Param → β) (idx : List Nat) (f : Param → Param)
    (h : ∀ p, proj (f p) = proj p) (k : Nat) (ps : List Param) :
    (updAt idx f k ps).map proj = ps.map proj := by
  induction ps generalizing k with
  | nil => rfl
  | cons p ps ih =>
    simp only [updAt, List.map_cons, ih]
    split <;> simp [h]

theorem updAt_forall (Q : Param → Prop) (idx : List Nat) (f : Param → Param)
    (h : ∀ p, Q p → Q (f p)) (k : Nat) (ps : List Param) (hq : ∀ p ∈ ps, Q p) :
    ∀ p ∈ updAt idx f k ps, Q p := by
  induction ps generalizing k with
  | nil => intro p hp; simp [updAt] at hp
  | cons x xs ih =>
    intro p hp
    simp only [updAt, List.mem_cons] at hp
    rcases hp with hp | hp
    · subst hp
      have hx := hq x (by simp)
      split
      · exact h x hx
      · exact hx
    · exact ih (k + 1) (fun q hq' => hq q (by simp [hq'])) p hp

theorem mapLayers_map {α β} (projL : Layer → α) (projP : Param → β)
    (f : Layer → List Param → Layer × List Param)
    (hl : ∀ l ps, projL (f l ps).1 = projL l) (hp : ∀ l ps, (f l ps).2.map projP = ps.map projP)
    (ls : List Layer) (ps : List Param) :
    (mapLayers f ls ps).1.map projL = ls.map projL ∧ (mapLayers f ls ps).2.map projP = ps.map projP := by
  induction ls generalizing ps with
  | nil => exact ⟨rfl, rfl⟩
  | cons l ls ih =>
    simp only [mapLayers, List.map_cons]
    obtain ⟨a, b⟩ := ih (f l ps).2
    exact ⟨by rw [hl, a], by rw [b, hp]⟩

theorem mapLayers_forall (Q : Param → Prop) (f : Layer → List Param → Layer × List Param)
    (h : ∀ l ps, (∀ p ∈ ps, Q p) → ∀ p ∈ (f l ps).2, Q p)
    (ls : List Layer) (ps : List Param) (hq : ∀ p ∈ ps, Q p) :
    ∀ p ∈ (mapLayers f ls ps).2, Q p := by
  induction ls generalizing ps with
  | nil => exact hq
  | cons l ls ih => simp only [mapLayers]; exact ih _ (h l ps hq)

/-! ### `trainable` only looks at the untouched part -/

theorem trainable_congr (l : Layer) (ps ps' : List Param) (h : ps.map Param.erase = ps'.map Param.erase) :
    trainable l ps = trainable l ps' := by
  unfold trainable
  congr 1
  funext i
  have : (ps.map Param.erase)[i]? = (ps'.map Param.erase)[i]? := by rw [h]
  simp only [List.getElem?_map] at this
  cases h1 : ps[i]? <;> cases h2 : ps'[i]? <;> simp [h1, h2] at this ⊢
  simpa [Param.erase] using this

theorem trainable_erase (l : Layer) (ps : List Param) : trainable l.erase ps = trainable l ps := rfl

/-! ### per-layer updates -/

theorem fwdLayer_frame (l : Layer) (ps : List Param) : (fwdLayer l ps).1.frame = l.frame := by
  unfold fwdLayer; split <;> rfl

theorem fwdLayer_erase (l : Layer) (ps : List Param) :
    (fwdLayer l ps).2.map Param.erase = ps.map Param.erase := by
  unfold fwdLayer; split
  · apply updAt_map; intro p; split <;> rfl
  · rfl

theorem bwdParam_erase (b : Bool) (p : Param) : (bwdParam b p).erase = p.erase := by
  unfold bwdParam promote; split
  · rfl
  · simp only []; split
    · split <;> rfl
    · rfl

theorem bwdParamNorm_erase (p : Param) : (bwdParamNorm p).erase = p.erase := by
  unfold bwdParamNorm; split <;> rfl

theorem bwdLayer_frame (m : Mode) (l : Layer) (ps : List Param) : (bwdLayer m l ps).1.frame = l.frame := by
  unfold bwdLayer; split <;> rfl

theorem bwdLayer_erase (m : Mode) (l : Layer) (ps : List Param) :
    (bwdLayer m l ps).2.map Param.erase = ps.map Param.erase := by
  unfold bwdLayer; split
  · apply updAt_map; intro p
    split
    · split
      · exact bwdParamNorm_erase p
      · exact bwdParam_erase _ p
    · exact bwdParam_erase _ p
  · rfl

theorem incrUntilTied_erase (idx : List Nat) (ps : List Param) :
    (incrUntilTied idx ps).1.map Param.erase = ps.map Param.erase := by
  induction idx generalizing ps with
  | nil => rfl
  | cons i is ih =>
    unfold incrUntilTied
    cases h : ps[i]? with
    | none => simpa using ih ps
    | some p =>
      simp only []
      split
      · have hs : (ps.set i { p with fwdCounter := some (p.fwdCounter.getD 0 + 1) }).map Param.erase = ps.map Param.erase :=
          map_set_proj Param.erase ps i p _ h rfl
        split
        · exact hs
        · rw [ih, hs]
      · exact ih ps

theorem fwdLayersGhost_map (ls : List Layer) (ps : List Param) :
    (fwdLayersGhost ls ps).1.map Layer.frame = ls.map Layer.frame ∧
    (fwdLayersGhost ls ps).2.1.map Param.erase = ps.map Param.erase := by
  induction ls generalizing ps with
  | nil => exact ⟨rfl, rfl⟩
  | cons l ls ih =>
    unfold fwdLayersGhost
    obtain ⟨a1, b1⟩ := ih (incrUntilTied l.params ps).1
    obtain ⟨a2, b2⟩ := ih (fwdLayer l ps).2
    obtain ⟨a3, b3⟩ := ih ps
    have e1 := incrUntilTied_erase l.params ps
    have e2 := fwdLayer_erase l ps
    have f2 := fwdLayer_frame l ps
    simp only []
    repeat' split
    · exact ⟨by simp [Layer.frame, Layer.erase], e1⟩
    · exact ⟨by simp [a1, Layer.frame, Layer.erase], by rw [b1, e1]⟩
    · exact ⟨by simp [a2, f2], by rw [b2, e2]⟩
    · exact ⟨by simp [a3], b3⟩

/-! ### what a training operation leaves alone -/

theorem map_if_erase (ps : List Param) (c : Param → Bool) (f : Param → Param) (h : ∀ p, (f p).erase = p.erase) :
    (ps.map fun p => if c p then f p else p).map Param.erase = ps.map Param.erase := by
  rw [List.map_map]; apply List.map_congr_left; intro p _; simp only [Function.comp]; split <;> simp [h]

theorem map_erase_of (ps : List Param) (f : Param → Param) (h : ∀ p, (f p).erase = p.erase) :
    (ps.map f).map Param.erase = ps.map Param.erase := by
  rw [List.map_map]; apply List.map_congr_left; intro p _; exact h p

/-- `Frame s s'`: going from `s` to `s'` changed neither the mode, nor the hook list, nor the identity /
untouched part of parameters and layers, nor which layers carry hooks or functorch closures; in `ew`
mode the layers were not touched at all -/
def Frame (s s' : St) : Prop :=
  s'.mode = s.mode ∧ s'.rootHooks = s.rootHooks ∧
  s'.params.map Param.erase = s.params.map Param.erase ∧
  s'.layers.map Layer.frame = s.layers.map Layer.frame ∧
  (s.mode = some .ew → s'.layers = s.layers)

theorem Frame.refl (s : St) : Frame s s := ⟨rfl, rfl, rfl, rfl, fun _ => rfl⟩

theorem Frame.trans {a b c : St} (h1 : Frame a b) (h2 : Frame b c) : Frame a c :=
  ⟨h2.1.trans h1.1, h2.2.1.trans h1.2.1, h2.2.2.1.trans h1.2.2.1, h2.2.2.2.1.trans h1.2.2.2.1,
   fun h => (h2.2.2.2.2 (h1.1.trans h)).trans (h1.2.2.2.2 h)⟩

/-- only the parameters changed, and not their untouched part -/
theorem Frame.of_params (s : St) (s' : St) (hm : s'.mode = s.mode) (hr : s'.rootHooks = s.rootHooks)
    (hl : s'.layers = s.layers) (hp : s'.params.map Param.erase = s.params.map Param.erase) : Frame s s' :=
  ⟨hm, hr, hp, by rw [hl], fun _ => hl⟩

theorem optZeroGradSt_frame (s : St) : Frame s (optZeroGradSt s) :=
  Frame.of_params s _ rfl rfl rfl (map_if_erase _ _ _ (fun _ => rfl))

theorem wrapOpt_frame (s : St) : Frame s (wrapOpt s).1 :=
  Frame.of_params s _ rfl rfl rfl (map_if_erase _ _ _ (fun _ => rfl))

theorem optZeroGrad_frame (s : St) : Frame s (optZeroGrad s).1 := by
  unfold optZeroGrad; split
  · exact optZeroGradSt_frame s
  · exact Frame.refl s

theorem modZeroGrad_frame (s : St) : Frame s (modZeroGrad s).1 := by
  unfold modZeroGrad; split
  · exact Frame.refl s
  · exact Frame.of_params s _ rfl rfl rfl (map_erase_of _ _ (fun _ => rfl))

theorem setHooks_frame (b : Bool) (s : St) : Frame s (setHooks b s).1 := by
  unfold setHooks; split
  · exact Frame.refl s
  · exact Frame.refl s
  · exact Frame.of_params s _ rfl rfl rfl rfl

theorem optStep_frame (k : Bool) (s : St) : Frame s (optStep k s).1 := by
  unfold optStep
  have hp : ∀ (s1 : St), s1.mode = s.mode → s1.rootHooks = s.rootHooks → s1.layers = s.layers →
      s1.params = (s.params.map fun p => if p.requiresGrad then { p with summedGrad := some true } else p) → Frame s s1 :=
    fun s1 a b c d => Frame.of_params s s1 a b c (by rw [d]; exact map_if_erase _ _ _ (fun _ => rfl))
  simp only []
  repeat' split
  all_goals first
    | exact Frame.refl s
    | exact hp _ rfl rfl rfl rfl

theorem fwd_frame (a : Bool) (s : St) : Frame s (fwd a s).1 := by
  have h1 := mapLayers_map Layer.frame Param.erase fwdLayer fwdLayer_frame fwdLayer_erase s.layers s.params
  have h2 := fwdLayersGhost_map s.layers s.params
  unfold fwd
  cases hm : s.mode with
  | none => exact Frame.refl s
  | some m =>
    have hne : ∀ (s' : St), s'.mode = s.mode → s'.rootHooks = s.rootHooks → m ≠ .ew →
        s'.params.map Param.erase = s.params.map Param.erase → s'.layers.map Layer.frame = s.layers.map Layer.frame → Frame s s' :=
      fun s' a b c d e => ⟨a, b, d, e, fun h => by rw [hm] at h; cases h; exact absurd rfl c⟩
    cases m with
    | ew =>
      simp only []
      repeat' split
      all_goals first
        | exact Frame.refl s
        | exact Frame.of_params s _ (by first | rfl | exact hm.symm) rfl rfl rfl
    | hooks =>
      simp only []
      repeat' split
      all_goals first
        | exact Frame.refl s
        | exact Frame.of_params s _ (by first | rfl | exact hm.symm) rfl rfl rfl
        | exact hne _ (by first | rfl | exact hm.symm) rfl (by decide) h1.2 h1.1
        | exact hne _ (by first | rfl | exact hm.symm) rfl (by decide) h2.2 h2.1
    | functorch =>
      simp only []
      repeat' split
      all_goals first
        | exact Frame.refl s
        | exact Frame.of_params s _ (by first | rfl | exact hm.symm) rfl rfl rfl
        | exact hne _ (by first | rfl | exact hm.symm) rfl (by decide) h1.2 h1.1
        | exact hne _ (by first | rfl | exact hm.symm) rfl (by decide) h2.2 h2.1
    | ghost =>
      simp only []
      repeat' split
      all_goals first
        | exact Frame.refl s
        | exact Frame.of_params s _ (by first | rfl | exact hm.symm) rfl rfl rfl
        | exact hne _ (by first | rfl | exact hm.symm) rfl (by decide) h1.2 h1.1
        | exact hne _ (by first | rfl | exact hm.symm) rfl (by decide) h2.2 h2.1

theorem frame_optZero {s x : St} (h : Frame s x) : Frame s (optZeroGradSt x) := h.trans (optZeroGradSt_frame x)

theorem bwd_frame (s : St) : Frame s (bwd s).1 := by
  unfold bwd
  cases hm : s.mode with
  | none => exact Frame.refl s
  | some m =>
    cases hg : s.graphs with
    | nil => exact Frame.refl s
    | cons c gs =>
      have h1 := mapLayers_map Layer.frame Param.erase (bwdLayer m) (bwdLayer_frame _) (bwdLayer_erase _) s.layers s.params
      have hne : ∀ (s' : St), s'.mode = s.mode → s'.rootHooks = s.rootHooks → m ≠ .ew →
          s'.params.map Param.erase = s.params.map Param.erase → s'.layers.map Layer.frame = s.layers.map Layer.frame → Frame s s' :=
        fun s' a b c d e => ⟨a, b, d, e, fun h => by rw [hm] at h; cases h; exact absurd rfl c⟩
      cases m with
      | ew => exact Frame.of_params s _ (by first | rfl | exact hm.symm) rfl rfl (map_if_erase _ _ _ (fun _ => rfl))
      | hooks =>
        simp only []
        repeat' split
        all_goals first
          | exact Frame.refl s
          | exact Frame.of_params s _ (by first | rfl | exact hm.symm) rfl rfl rfl
          | exact hne _ (by first | rfl | exact hm.symm) rfl (by decide) h1.2 h1.1
          | exact frame_optZero (hne _ (by first | rfl | exact hm.symm) rfl (by decide) h1.2 h1.1)
      | functorch =>
        simp only []
        repeat' split
        all_goals first
          | exact Frame.refl s
          | exact Frame.of_params s _ (by first | rfl | exact hm.symm) rfl rfl rfl
          | exact hne _ (by first | rfl | exact hm.symm) rfl (by decide) h1.2 h1.1
          | exact frame_optZero (hne _ (by first | rfl | exact hm.symm) rfl (by decide) h1.2 h1.1)
      | ghost =>
        simp only []
        repeat' split
        all_goals first
          | exact Frame.refl s
          | exact Frame.of_params s _ (by first | rfl | exact hm.symm) rfl rfl rfl
          | exact hne _ (by first | rfl | exact hm.symm) rfl (by decide) h1.2 h1.1
          | exact frame_optZero (hne _ (by first | rfl | exact hm.symm) rfl (by decide) h1.2 h1.1)

theorem inner_frame (fx : Fix) (s : St) (o : Op) (ho : o.inner = true) : Frame s (step fx s o).1 := by
  cases o with
  | wrap m => simp [Op.inner] at ho
  | unwrap => simp [Op.inner] at ho
  | wrapOpt => exact wrapOpt_frame s
  | fwd a => exact fwd_frame a s
  | bwd => exact bwd_frame s
  | optStep k => exact optStep_frame k s
  | optZeroGrad => exact optZeroGrad_frame s
  | modZeroGrad => exact modZeroGrad_frame s
  | setHooks b => exact setHooks_frame b s

theorem inner_run_frame (fx : Fix) (ops : List Op) (hin : ∀ o ∈ ops, o.inner = true) (s : St) :
    Frame s (run fx s ops) := by
  induction ops generalizing s with
  | nil => exact Frame.refl s
  | cons o ops ih =>
    have a := inner_frame fx s o (hin o (by simp))
    have b := ih (fun o' h => hin o' (by simp [h])) (step fx s o).1
    simp only [run, List.foldl_cons] at *
    exact a.trans b

/-! ### `del_grad_sample` -/

theorem delGradSample_none (g : Bool) (ps : List Param) (h : (delGradSample g ps).2 = none) :
    ∀ p ∈ (delGradSample g ps).1, p.gradSample = none := by
  induction ps with
  | nil => intro p hp; simp [delGradSample] at hp
  | cons x xs ih =>
    intro p hp
    cases hx : x.gradSample with
    | none =>
      unfold delGradSample at h hp
      simp only [hx] at h hp
      cases g with
      | true =>
        simp only [if_true, List.mem_cons] at h hp
        rcases hp with hp | hp
        · rw [hp]; exact hx
        · exact ih h p hp
      | false => simp at h
    | some v =>
      unfold delGradSample at h hp
      simp only [hx, List.mem_cons] at h hp
      rcases hp with hp | hp
      · rw [hp]
      · exact ih h p hp

theorem delGradSample_erase (g : Bool) (ps : List Param) :
    (delGradSample g ps).1.map Param.erase = ps.map Param.erase := by
  induction ps with
  | nil => rfl
  | cons x xs ih =>
    unfold delGradSample
    cases hx : x.gradSample with
    | none => simp only []; split <;> simp [ih]
    | some v => simp [ih, Param.erase]

theorem delGradSample_guard (ps : List Param) : (delGradSample true ps).2 = none := by
  induction ps with
  | nil => rfl
  | cons x xs ih => unfold delGradSample; cases hx : x.gradSample <;> simp [ih]

theorem delGradSample_ok (g : Bool) (ps : List Param) (h : ∀ p ∈ ps, p.gradSample.isSome = true) :
    (delGradSample g ps).2 = none := by
  induction ps with
  | nil => rfl
  | cons x xs ih =>
    unfold delGradSample
    have hx := h x (by simp)
    cases hg : x.gradSample with
    | none => rw [hg] at hx; simp at hx
    | some v => simp only []; exact ih (fun p hp => h p (by simp [hp]))

/-! ### every trainable parameter keeps a `grad_sample` attribute -/

def HasGS (s : St) : Prop := ∀ p ∈ s.params, p.requiresGrad = true → p.gradSample.isSome = true

theorem map_if_forall (Q : Param → Prop) (ps : List Param) (c : Param → Bool) (f : Param → Param)
    (h : ∀ p, Q p → c p = true → Q (f p)) (hq : ∀ p ∈ ps, Q p) :
    ∀ p ∈ (ps.map fun p => if c p then f p else p), Q p := by
  intro p hp
  simp only [List.mem_map] at hp
  obtain ⟨x, hx, rfl⟩ := hp
  split
  · exact h x (hq x hx) (by assumption)
  · exact hq x hx

abbrev QGS (p : Param) : Prop := p.requiresGrad = true → p.gradSample.isSome = true

theorem fwdLayer_gs (l : Layer) (ps : List Param) (h : ∀ p ∈ ps, QGS p) : ∀ p ∈ (fwdLayer l ps).2, QGS p := by
  unfold fwdLayer; split
  · apply updAt_forall QGS _ _ _ _ _ h
    intro p hp; split
    · exact hp
    · exact hp
  · exact h

theorem bwdParam_false_gs (p : Param) (h : QGS p) : QGS (bwdParam false p) := by
  unfold bwdParam promote
  split
  · exact h
  · simp only []
    split
    · intro _; simp
    · exact h

theorem bwdLayer_gs (m : Mode) (hm : m ≠ .ghost) (l : Layer) (ps : List Param) (h : ∀ p ∈ ps, QGS p) :
    ∀ p ∈ (bwdLayer m l ps).2, QGS p := by
  unfold bwdLayer; split
  · apply updAt_forall QGS _ _ _ _ _ h
    intro p hp
    have : (m == Mode.ghost) = false := by cases m <;> simp_all
    simp only [this]
    exact bwdParam_false_gs p hp
  · exact h

theorem optZeroGradSt_gs (s : St) : HasGS (optZeroGradSt s) := by
  intro p hp hr
  simp only [optZeroGradSt, List.mem_map] at hp
  obtain ⟨x, _, rfl⟩ := hp
  by_cases hx : x.requiresGrad = true
  · simp [hx]
  · simp [hx] at hr

theorem incrUntilTied_gs (idx : List Nat) (ps : List Param) (h : ∀ p ∈ ps, QGS p) :
    ∀ p ∈ (incrUntilTied idx ps).1, QGS p := by
  induction idx generalizing ps with
  | nil => exact h
  | cons i is ih =>
    unfold incrUntilTied
    cases hi : ps[i]? with
    | none => simpa using ih ps h
    | some x =>
      simp only []
      have hx : QGS x := h x (List.mem_of_getElem? hi)
      have hset : ∀ p ∈ ps.set i { x with fwdCounter := some (x.fwdCounter.getD 0 + 1) }, QGS p := by
        intro p hp
        rcases List.mem_or_eq_of_mem_set hp with hp | hp
        · exact h p hp
        · rw [hp]; exact hx
      split
      · split
        · exact hset
        · exact ih _ hset
      · exact ih ps h

theorem fwdLayersGhost_gs (ls : List Layer) (ps : List Param) (h : ∀ p ∈ ps, QGS p) :
    ∀ p ∈ (fwdLayersGhost ls ps).2.1, QGS p := by
  induction ls generalizing ps with
  | nil => exact h
  | cons l ls ih =>
    unfold fwdLayersGhost
    have e1 := incrUntilTied_gs l.params ps h
    have e2 := fwdLayer_gs l ps h
    simp only []
    repeat' split
    · exact e1
    · exact ih _ e1
    · exact ih _ e2
    · exact ih _ h

theorem fwd_gs (a : Bool) (s : St) (h : HasGS s) : HasGS (fwd a s).1 := by
  have h1 := mapLayers_forall QGS fwdLayer fwdLayer_gs s.layers s.params h
  have h2 := fwdLayersGhost_gs s.layers s.params h
  unfold fwd
  simp only []
  repeat' split
  all_goals first
    | exact h
    | exact h1
    | exact h2

theorem bwd_gs (s : St) (h : HasGS s) : HasGS (bwd s).1 := by
  unfold bwd
  cases hm : s.mode with
  | none => exact h
  | some m =>
    cases hg : s.graphs with
    | nil => exact h
    | cons c gs =>
      cases m with
      | ew =>
        simp only []
        exact map_if_forall QGS s.params _ _ (fun p _ _ _ => by simp) h
      | hooks =>
        have h1 := mapLayers_forall QGS (bwdLayer .hooks) (bwdLayer_gs .hooks (by decide)) s.layers s.params h
        simp only []
        repeat' split
        all_goals first
          | exact h
          | exact h1
          | exact optZeroGradSt_gs _
      | functorch =>
        have h1 := mapLayers_forall QGS (bwdLayer .functorch) (bwdLayer_gs .functorch (by decide)) s.layers s.params h
        simp only []
        repeat' split
        all_goals first
          | exact h
          | exact h1
          | exact optZeroGradSt_gs _
      | ghost =>
        have e : (Mode.ghost == Mode.ghost) = true := by decide
        simp only [e, ↓reduceIte]
        repeat' split
        all_goals first
          | exact h
          | exact optZeroGradSt_gs _

theorem inner_gs (fx : Fix) (s : St) (o : Op) (ho : o.inner = true) (h : HasGS s) : HasGS (step fx s o).1 := by
  cases o with
  | wrap m => simp [Op.inner] at ho
  | unwrap => simp [Op.inner] at ho
  | wrapOpt => exact map_if_forall QGS s.params _ _ (fun p hp _ => hp) h
  | fwd a => exact fwd_gs a s h
  | bwd => exact bwd_gs s h
  | optStep k =>
    have hp := map_if_forall QGS s.params (fun p => p.requiresGrad) (fun p => { p with summedGrad := some true }) (fun p hp _ => hp) h
    simp only [step]
    unfold optStep
    simp only []
    repeat' split
    all_goals first
      | exact h
      | exact hp
  | optZeroGrad =>
    simp only [step]; unfold optZeroGrad; split
    · exact optZeroGradSt_gs s
    · exact h
  | modZeroGrad =>
    simp only [step]; unfold modZeroGrad; split
    · exact h
    · intro p hp _
      simp only [List.mem_map] at hp
      obtain ⟨x, _, rfl⟩ := hp
      rfl
  | setHooks b =>
    simp only [step]; unfold setHooks
    repeat' split
    all_goals exact h

theorem inner_run_gs (fx : Fix) (ops : List Op) (hin : ∀ o ∈ ops, o.inner = true) (s : St) (h : HasGS s) :
    HasGS (run fx s ops) := by
  induction ops generalizing s with
  | nil => exact h
  | cons o ops ih =>
    simp only [run, List.foldl_cons]
    exact ih (fun o' h' => hin o' (by simp [h'])) _ (inner_gs fx s o (hin o (by simp)) h)

end Opacus.Wrap
