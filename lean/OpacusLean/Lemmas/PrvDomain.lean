import OpacusLean.Lemmas.PrvEps
import Mathlib.Tactic.FieldSimp
/-! `Domain.create_aligned` over ℝ -/
namespace Opacus.Prv

theorem createAligned_unfold (tol tMin tMax dt : ℝ) :
    createAligned tol tMin tMax dt =
      (Dom.mk? (((⌊tMin / dt⌋ : ℤ) : ℝ) * dt)
        (if (round ((((⌈tMax / dt⌉ : ℤ) : ℝ) * dt - ((⌊tMin / dt⌋ : ℤ) : ℝ) * dt) / dt) + 1) % 2 = 1
          then ((⌈tMax / dt⌉ : ℤ) : ℝ) * dt + dt else ((⌈tMax / dt⌉ : ℤ) : ℝ) * dt)
        (if (round ((((⌈tMax / dt⌉ : ℤ) : ℝ) * dt - ((⌊tMin / dt⌋ : ℤ) : ℝ) * dt) / dt) + 1) % 2 = 1
          then round ((((⌈tMax / dt⌉ : ℤ) : ℝ) * dt - ((⌊tMin / dt⌋ : ℤ) : ℝ) * dt) / dt) + 1 + 1
          else round ((((⌈tMax / dt⌉ : ℤ) : ℝ) * dt - ((⌊tMin / dt⌋ : ℤ) : ℝ) * dt) / dt) + 1)).bind
        (checkDt tol dt) := rfl

/-- the symmetric domain built by `_get_domain`: even size `2(K+1)` with `K = ⌈L/dt⌉`, grid step exactly
`dt`, and **`t = 0` sits at index `size/2 - 1`** – the "centre bin" of the composition theorems. -/
theorem createAligned_symm (tol L dt : ℝ) (hdt : 0 < dt) (htol : 0 < tol) (hL : 0 ≤ L) :
    ∃ d : Dom ℝ, createAligned tol (-L) L dt = .ok d ∧
      d.size = 2 * (⌈L / dt⌉.toNat + 1) ∧ d.tMin = -((⌈L / dt⌉ : ℤ) : ℝ) * dt ∧
      d.tMax = (((⌈L / dt⌉ : ℤ) : ℝ) + 1) * dt ∧ d.shifts = 0 ∧ d.dt = dt ∧
      d.ts (d.size / 2 - 1) = 0 := by
  have hfl : ⌊-L / dt⌋ = -⌈L / dt⌉ := by rw [neg_div, Int.floor_neg]
  rw [createAligned_unfold, hfl]
  generalize hKdef : ⌈L / dt⌉ = K
  have hK0 : 0 ≤ K := by rw [← hKdef]; exact Int.ceil_nonneg (div_nonneg hL hdt.le)
  have hKr : ((K.toNat : ℕ) : ℝ) = (K : ℝ) := by
    have := Int.toNat_of_nonneg hK0
    exact_mod_cast congrArg (fun z : ℤ => (z : ℝ)) this
  have hKr0 : (0 : ℝ) ≤ (K : ℝ) := by exact_mod_cast hK0
  have hdiv : (((K : ℤ) : ℝ) * dt - ((-K : ℤ) : ℝ) * dt) / dt = ((2 * K : ℤ) : ℝ) := by
    push_cast; field_simp; ring
  rw [hdiv, round_intCast]
  have hodd : (2 * K + 1) % 2 = 1 := by omega
  rw [if_pos hodd, if_pos hodd]
  have hsz : (2 * K + 1 + 1).toNat = 2 * (K.toNat + 1) := by omega
  have hmk : Dom.mk? (R := ℝ) (((-K : ℤ) : ℝ) * dt) ((K : ℝ) * dt + dt) (2 * K + 1 + 1) =
      .ok ⟨((-K : ℤ) : ℝ) * dt, (K : ℝ) * dt + dt, 2 * (K.toNat + 1), 0⟩ := by
    unfold Dom.mk?
    rw [if_neg (by omega), if_neg (by omega), hsz]
  rw [hmk]
  have hdt' : (Dom.mk (((-K : ℤ) : ℝ) * dt) ((K : ℝ) * dt + dt) (2 * (K.toNat + 1)) (0 : ℝ)).dt = dt := by
    unfold Dom.dt
    have h1 : 2 * (K.toNat + 1) - 1 = 2 * K.toNat + 1 := by omega
    simp only [h1]
    push_cast
    rw [hKr]
    have hpos : (0 : ℝ) < 2 * (K : ℝ) + 1 := by linarith
    field_simp; ring
  simp only [Except.bind]
  unfold checkDt
  simp only [Analytic.abs]
  have hng : ¬ tol ≤ |dt - dt| / dt := by rw [sub_self, abs_zero, zero_div]; exact not_le.mpr htol
  rw [hdt', if_neg hng]
  refine ⟨_, rfl, rfl, by push_cast; ring, by ring, rfl, hdt', ?_⟩
  unfold Dom.ts
  simp only [hdt']
  have hidx : 2 * (K.toNat + 1) / 2 - 1 = K.toNat := by omega
  rw [hidx, if_neg (by omega), hKr]; push_cast; ring

end Opacus.Prv
