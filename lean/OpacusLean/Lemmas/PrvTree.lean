import OpacusLean.Lemmas.PrvConv
import Mathlib.Algebra.Order.BigOperators.Ring.Finset
import Mathlib.Algebra.Order.Ring.Defs
import Mathlib.Tactic.Ring
import Mathlib.Tactic.Linarith
/-! `_compose_two`, the convolution tree, `compose_heterogeneous`: domain bookkeeping and mass -/
set_option linter.unusedSectionVars false
namespace Opacus.Prv
open Finset Polynomial

section shifts
variable {R : Type} [CommRing R]

/-- sum of the recorded shifts of a list of discrete PRVs -/
def shiftSum (l : List (DPrv R)) : R := (l.map (·.dom.shifts)).sum

/-- every domain is the common unshifted grid `[lo, hi]` (with `size` points) moved by its own `shifts` –
what `discretize` produces from one aligned domain -/
def SameBase (lo hi : R) (size : ℕ) (l : List (DPrv R)) : Prop :=
  ∀ d ∈ l, d.dom.tMin = lo + d.dom.shifts ∧ d.dom.tMax = hi + d.dom.shifts ∧ d.dom.size = size

theorem pairs_shiftSum (l : List (DPrv R)) (h : l.length % 2 = 0) : shiftSum (pairs l) = shiftSum l := by
  induction l using pairs.induct with
  | case1 a b t ih =>
    have ht : t.length % 2 = 0 := by simp only [List.length_cons] at h; omega
    simp only [pairs, shiftSum, List.map_cons, List.sum_cons] at ih ⊢
    rw [ih ht]
    simp [composeTwo, Dom.shiftRight, add_assoc]
  | case2 l hne =>
    match l, hne with
    | [], _ => simp [pairs]
    | [x], _ => simp at h
    | a :: b :: t, hne => exact absurd rfl (hne a b t)

theorem pairs_sameBase (lo hi : R) (size : ℕ) (l : List (DPrv R)) (h : SameBase lo hi size l) :
    SameBase lo hi size (pairs l) := by
  induction l using pairs.induct with
  | case1 a b t ih =>
    intro d hd
    simp only [pairs, List.mem_cons] at hd
    rcases hd with rfl | hd
    · obtain ⟨a1, a2, a3⟩ := h a (by simp)
      simp only [composeTwo, Dom.shiftRight]
      refine ⟨by rw [a1]; ring, by rw [a2]; ring, a3⟩
    · exact ih (fun d hd => h d (by simp [hd])) d hd
  | case2 l hne =>
    match l, hne with
    | [], _ => intro d hd; simp [pairs] at hd
    | [x], _ => intro d hd; simp [pairs] at hd
    | a :: b :: t, hne => exact absurd rfl (hne a b t)

theorem treeStep_shiftSum (l : List (DPrv R)) : shiftSum (treeStep l) = shiftSum l := by
  unfold treeStep
  by_cases h : l.length % 2 = 1
  · rw [if_pos h]
    have hne : l ≠ [] := by intro h0; simp [h0] at h
    rw [List.getLast?_eq_some_getLast hne]
    simp only
    have hd : l.dropLast.length % 2 = 0 := by rw [List.length_dropLast]; omega
    conv_rhs => rw [← List.dropLast_append_getLast hne]
    simp only [shiftSum, List.map_cons, List.sum_cons, List.map_append, List.sum_append, List.map_nil,
      List.sum_nil, add_zero]
    have := pairs_shiftSum l.dropLast hd
    simp only [shiftSum] at this
    rw [this, add_comm]
  · rw [if_neg h]; exact pairs_shiftSum l (by omega)

theorem treeStep_sameBase (lo hi : R) (size : ℕ) (l : List (DPrv R)) (h : SameBase lo hi size l) :
    SameBase lo hi size (treeStep l) := by
  unfold treeStep
  by_cases hl : l.length % 2 = 1
  · rw [if_pos hl]
    have hne : l ≠ [] := by intro h0; simp [h0] at hl
    rw [List.getLast?_eq_some_getLast hne]
    intro d hd
    simp only [List.mem_cons] at hd
    rcases hd with rfl | hd
    · exact h _ (List.getLast_mem hne)
    · exact pairs_sameBase lo hi size _ (fun d hd => h d (List.mem_of_mem_dropLast hd)) d hd
  · rw [if_neg hl]; exact pairs_sameBase lo hi size l h

theorem tree_domain (lo hi : R) (size : ℕ) (f : ℕ) (l : List (DPrv R)) (r : DPrv R)
    (h : tree f l = .ok r) (hb : SameBase lo hi size l) :
    r.dom.shifts = shiftSum l ∧ r.dom.tMin = lo + shiftSum l ∧ r.dom.tMax = hi + shiftSum l ∧
      r.dom.size = size := by
  induction f generalizing l with
  | zero =>
    match l, h with
    | [d], h =>
      simp only [tree] at h; injection h with h; subst h
      obtain ⟨a1, a2, a3⟩ := hb d (by simp)
      simp [shiftSum, a1, a2, a3]
  | succ f ih =>
    match l, h with
    | [d], h =>
      simp only [tree] at h; injection h with h; subst h
      obtain ⟨a1, a2, a3⟩ := hb d (by simp)
      simp [shiftSum, a1, a2, a3]
    | a :: b :: t, h =>
      simp only [tree] at h
      have := ih _ h (treeStep_sameBase lo hi size _ hb)
      rwa [treeStep_shiftSum] at this

theorem composeFourier_ok (d c : DPrv R) (n : ℕ) (h : composeFourier d n = .ok c) :
    d.pmf.size = d.dom.size ∧ d.pmf.size % 2 = 0 ∧
    c.pmf = roll (cpow d.pmf n) (rollAmount (cpow d.pmf n).size n) ∧
    c.dom = d.dom.shiftRight (d.dom.shifts * (((n : ℤ) - 1 : ℤ) : R)) := by
  unfold composeFourier at h
  split_ifs at h with h1 h2
  injection h with h; subst h
  exact ⟨not_not.mp h1, not_not.mp h2, rfl, rfl⟩

/-- `Σ_i n_i · shifts_i` -/
def weightedShift : List (DPrv R) → List ℕ → R
  | d :: ds, n :: ns => (n : R) * d.dom.shifts + weightedShift ds ns
  | _, _ => 0

theorem fourierAll_domain (lo hi : R) (size : ℕ) (ds : List (DPrv R)) (ns : List ℕ) (cs : List (DPrv R))
    (h : fourierAll ds ns = .ok cs) (hb : SameBase lo hi size ds) :
    SameBase lo hi size cs ∧ shiftSum cs = weightedShift ds ns := by
  induction ds generalizing ns cs with
  | nil =>
    simp only [fourierAll] at h; injection h with h; subst h
    exact ⟨fun d hd => by simp at hd, by simp [shiftSum, weightedShift]⟩
  | cons d ds ih =>
    match ns, h with
    | [], h =>
      simp only [fourierAll] at h; injection h with h; subst h
      exact ⟨fun d hd => by simp at hd, by simp [shiftSum, weightedShift]⟩
    | n :: ns, h =>
      simp only [fourierAll] at h
      split at h
      · cases h
      · rename_i c hc
        split at h
        · cases h
        · rename_i cs' hcs
          injection h with h; subst h
          obtain ⟨_, _, _, hdom⟩ := composeFourier_ok d c n hc
          obtain ⟨a1, a2, a3⟩ := hb d (by simp)
          obtain ⟨ib, is⟩ := ih ns cs' hcs (fun x hx => hb x (by simp [hx]))
          have hcshift : c.dom.shifts = (n : R) * d.dom.shifts := by
            rw [hdom]; simp only [Dom.shiftRight]; push_cast; ring
          refine ⟨?_, ?_⟩
          · intro x hx
            simp only [List.mem_cons] at hx
            rcases hx with rfl | hx
            · rw [hcshift, hdom]
              simp only [Dom.shiftRight]
              refine ⟨by rw [a1]; push_cast; ring, by rw [a2]; push_cast; ring, a3⟩
            · exact ib x hx
          · simp only [shiftSum, List.map_cons, List.sum_cons, weightedShift] at is ⊢
            rw [is, hcshift]

end shifts

section massSec
variable {R : Type} [CommRing R] [LinearOrder R] [IsStrictOrderedRing R]

/-- entrywise non-negative -/
def NonNeg (a : Array R) : Prop := ∀ j, 0 ≤ a.getD j 0

theorem coeff_mul_nonneg (a b : Array R) (ha : NonNeg a) (hb : NonNeg b) (s : ℕ) :
    0 ≤ (toPoly a * toPoly b).coeff s := by
  rw [coeff_mul]
  refine Finset.sum_nonneg fun x _ => ?_
  rw [coeff_toPoly, coeff_toPoly]
  exact mul_nonneg (ha _) (hb _)

theorem convSame_nonneg (a b : Array R) (ha : NonNeg a) (hb : NonNeg b) : NonNeg (convSame a b) := by
  intro j
  rw [convSame_getD]
  split_ifs
  · exact coeff_mul_nonneg a b ha hb _
  · exact le_refl _

theorem mass_convSame_eq (a b : Array R) :
    mass (convSame a b) = ∑ s ∈ Ico ((b.size - 1) / 2) ((b.size - 1) / 2 + a.size), (toPoly a * toPoly b).coeff s := by
  unfold mass
  rw [sumTo_eq_sum, convSame_size, Finset.sum_Ico_eq_sum_range, Nat.add_sub_cancel_left]
  refine Finset.sum_congr rfl fun j hj => ?_
  rw [convSame_getD, if_pos (Finset.mem_range.mp hj), add_comm]

theorem mass_mul_eq (a b : Array R) (M : ℕ) (hM : (toPoly a * toPoly b).natDegree < M) :
    mass a * mass b = ∑ s ∈ range M, (toPoly a * toPoly b).coeff s := by
  rw [mass_eq_eval, mass_eq_eval, ← eval_mul, eval_eq_sum_range' hM]
  simp

/-- `mode='same'` keeps a window of the full convolution: exact mass accounting -/
theorem compose_two_mass_exact (a b : Array R) (M : ℕ) (hM : (toPoly a * toPoly b).natDegree < M)
    (hwin : (b.size - 1) / 2 + a.size ≤ M) :
    mass (convSame a b)
      + ∑ s ∈ range ((b.size - 1) / 2), (toPoly a * toPoly b).coeff s
      + ∑ s ∈ Ico ((b.size - 1) / 2 + a.size) M, (toPoly a * toPoly b).coeff s
      = mass a * mass b := by
  rw [mass_convSame_eq, mass_mul_eq a b M hM, Finset.range_eq_Ico, add_comm (∑ s ∈ Ico _ _, _) (∑ s ∈ Ico 0 _, _),
    Finset.sum_Ico_consecutive _ (Nat.zero_le _) (Nat.le_add_right _ _), Finset.sum_Ico_consecutive _ (Nat.zero_le _) hwin, Finset.range_eq_Ico]

theorem mass_convSame_le (a b : Array R) (ha : NonNeg a) (hb : NonNeg b) :
    mass (convSame a b) ≤ mass a * mass b := by
  set M := max ((toPoly a * toPoly b).natDegree + 1) ((b.size - 1) / 2 + a.size) with hMdef
  rw [mass_convSame_eq, mass_mul_eq a b M (lt_of_lt_of_le (Nat.lt_succ_self _) (le_max_left _ _))]
  refine Finset.sum_le_sum_of_subset_of_nonneg ?_ (fun s _ _ => coeff_mul_nonneg a b ha hb s)
  intro s hs
  rw [Finset.mem_Ico] at hs
  exact Finset.mem_range.mpr (lt_of_lt_of_le hs.2 (le_max_right _ _))

theorem mass_nonneg (a : Array R) (ha : NonNeg a) : 0 ≤ mass a := by
  unfold mass; rw [sumTo_eq_sum]; exact Finset.sum_nonneg fun j _ => ha j

/-- product of the masses of a list of discrete PRVs -/
def massProd (l : List (DPrv R)) : R := (l.map (fun d => mass d.pmf)).prod

def AllNonNeg (l : List (DPrv R)) : Prop := ∀ d ∈ l, NonNeg d.pmf

theorem massProd_nonneg (l : List (DPrv R)) (h : AllNonNeg l) : 0 ≤ massProd l := by
  induction l with
  | nil => simp [massProd]
  | cons d t ih =>
    simp only [massProd, List.map_cons, List.prod_cons]
    exact mul_nonneg (mass_nonneg _ (h d (by simp))) (ih (fun x hx => h x (by simp [hx])))

theorem pairs_mass (l : List (DPrv R)) (h : AllNonNeg l) (he : l.length % 2 = 0) :
    AllNonNeg (pairs l) ∧ massProd (pairs l) ≤ massProd l := by
  induction l using pairs.induct with
  | case1 a b t ih =>
    have ht : t.length % 2 = 0 := by simp only [List.length_cons] at he; omega
    have hta : AllNonNeg t := fun x hx => h x (by simp [hx])
    obtain ⟨i1, i2⟩ := ih hta ht
    have hna := h a (by simp)
    have hnb := h b (by simp)
    refine ⟨?_, ?_⟩
    · intro d hd
      simp only [pairs, List.mem_cons] at hd
      rcases hd with rfl | hd
      · exact convSame_nonneg _ _ hna hnb
      · exact i1 d hd
    · simp only [pairs, massProd, List.map_cons, List.prod_cons] at i2 ⊢
      rw [← mul_assoc]
      exact mul_le_mul (mass_convSame_le _ _ hna hnb) i2 (massProd_nonneg _ i1)
        (mul_nonneg (mass_nonneg _ hna) (mass_nonneg _ hnb))
  | case2 l hne =>
    match l, hne with
    | [], _ => exact ⟨fun d hd => by simp [pairs] at hd, by simp [pairs]⟩
    | [x], _ => simp at he
    | a :: b :: t, hne => exact absurd rfl (hne a b t)

theorem treeStep_mass (l : List (DPrv R)) (h : AllNonNeg l) :
    AllNonNeg (treeStep l) ∧ massProd (treeStep l) ≤ massProd l := by
  unfold treeStep
  by_cases hl : l.length % 2 = 1
  · rw [if_pos hl]
    have hne : l ≠ [] := by intro h0; simp [h0] at hl
    rw [List.getLast?_eq_some_getLast hne]
    have hd : l.dropLast.length % 2 = 0 := by rw [List.length_dropLast]; omega
    have hdn : AllNonNeg l.dropLast := fun d hd => h d (List.mem_of_mem_dropLast hd)
    obtain ⟨i1, i2⟩ := pairs_mass l.dropLast hdn hd
    have hlast := h _ (List.getLast_mem hne)
    refine ⟨?_, ?_⟩
    · intro d hd
      simp only [List.mem_cons] at hd
      rcases hd with rfl | hd
      · exact hlast
      · exact i1 d hd
    · have hsplit : massProd l = massProd l.dropLast * mass (l.getLast hne).pmf := by
        conv_lhs => rw [← List.dropLast_append_getLast hne]
        simp [massProd]
      simp only [massProd, List.map_cons, List.prod_cons] at i2 ⊢
      rw [show (List.map (fun d => mass d.pmf) l).prod = massProd l from rfl, hsplit, mul_comm]
      exact mul_le_mul_of_nonneg_right i2 (mass_nonneg _ hlast)
  · rw [if_neg hl]; exact pairs_mass l h (by omega)

theorem tree_mass_le (f : ℕ) (l : List (DPrv R)) (r : DPrv R) (h : tree f l = .ok r) (hn : AllNonNeg l) :
    NonNeg r.pmf ∧ mass r.pmf ≤ massProd l := by
  induction f generalizing l with
  | zero =>
    match l, h with
    | [d], h =>
      simp only [tree] at h; injection h with h; subst h
      exact ⟨hn d (by simp), by simp [massProd]⟩
  | succ f ih =>
    match l, h with
    | [d], h =>
      simp only [tree] at h; injection h with h; subst h
      exact ⟨hn d (by simp), by simp [massProd]⟩
    | a :: b :: t, h =>
      simp only [tree] at h
      obtain ⟨s1, s2⟩ := treeStep_mass _ hn
      obtain ⟨r1, r2⟩ := ih _ h s1
      exact ⟨r1, le_trans r2 s2⟩

end massSec
end Opacus.Prv
