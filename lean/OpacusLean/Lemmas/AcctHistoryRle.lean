import OpacusLean.Lemmas.RdpMono
/-! The run-length encoding of `RDPAccountant.step` / `PRVAccountant.step` is faithful: the history
stands for exactly the sequence of per-step parameters that were recorded, and the summed RDP
depends on the history only through that sequence. -/
namespace Opacus.Rdp

theorem expand_append (h₁ h₂ : Hist ℝ) : expand (h₁ ++ h₂) = expand h₁ ++ expand h₂ := by
  simp [expand]

theorem expand_singleton (s q : ℝ) (n : ℕ) : expand [(s, q, n)] = List.replicate n (s, q) := by
  simp [expand]

/-- one `step` call appends exactly one step to the sequence the history stands for -/
theorem expand_step (h : Hist ℝ) (s q : ℝ) : expand (step h s q) = expand h ++ [(s, q)] := by
  unfold step
  rcases List.eq_nil_or_concat h with rfl | ⟨t, e, rfl⟩
  · simp [expand]
  · obtain ⟨s', q', n⟩ := e
    simp only [List.concat_eq_append, List.getLast?_append, List.getLast?_singleton, Option.some_or,
      List.dropLast_concat, beq_real, Bool.and_eq_true, decide_eq_true_eq]
    by_cases hc : s' = s ∧ q' = q
    · obtain ⟨rfl, rfl⟩ := hc
      simp only [and_self, if_true, expand_append, expand_singleton, List.replicate_succ',
        List.append_assoc]
    · simp only [hc, if_false, expand_append, expand_singleton]
      simp [expand]

theorem expand_steps (h : Hist ℝ) (xs : List (ℝ × ℝ)) : expand (steps h xs) = expand h ++ xs := by
  induction xs generalizing h with
  | nil => simp [steps]
  | cons x t ih =>
    have : steps h (x :: t) = steps (step h x.1 x.2) t := rfl
    rw [this, ih, expand_step]; simp

theorem goodHist_step {h : Hist ℝ} (hg : GoodHist h) {s q : ℝ} (h0 : 0 ≤ q) (h1 : q ≤ 1) (hs : 0 < s) :
    GoodHist (step h s q) := by
  unfold step
  rcases List.eq_nil_or_concat h with rfl | ⟨t, e, rfl⟩
  · intro x hx; simp at hx; subst hx; exact ⟨h0, h1, hs⟩
  · obtain ⟨s', q', n⟩ := e
    simp only [List.concat_eq_append, List.getLast?_append, List.getLast?_singleton, Option.some_or,
      List.dropLast_concat]
    have hlast := hg (s', q', n) (by simp)
    split_ifs
    · intro x hx
      rcases List.mem_append.mp hx with hx | hx
      · exact hg x (by simp [hx])
      · simp at hx; subst hx; exact hlast
    · intro x hx
      rcases List.mem_append.mp hx with hx | hx
      · exact hg x (by simpa using hx)
      · simp at hx; subst hx; exact ⟨h0, h1, hs⟩

theorem step_ne_nil (h : Hist ℝ) (s q : ℝ) : step h s q ≠ [] := by
  unfold step
  rcases List.eq_nil_or_concat h with rfl | ⟨t, e, rfl⟩
  · simp
  · obtain ⟨s', q', n⟩ := e
    simp only [List.concat_eq_append, List.getLast?_append, List.getLast?_singleton, Option.some_or,
      List.dropLast_concat]
    split_ifs <;> simp

/-- the summed RDP is a function of the expanded step sequence -/
theorem totR_eq_expand (h : Hist ℝ) (n : ℕ) :
    totR h n = ((expand h).map fun x => rdpR x.2 x.1 n).sum := by
  induction h with
  | nil => simp [totR, expand]
  | cons e t ih =>
    rw [totR_cons, ih]
    have : expand (e :: t) = List.replicate e.2.2 (e.1, e.2.1) ++ expand t := by simp [expand]
    rw [this, List.map_append, List.sum_append, List.map_replicate, List.sum_replicate]
    simp [mul_comm]

theorem totR_congr_expand {h h' : Hist ℝ} (he : expand h = expand h') (n : ℕ) : totR h n = totR h' n := by
  rw [totR_eq_expand, totR_eq_expand, he]

end Opacus.Rdp
