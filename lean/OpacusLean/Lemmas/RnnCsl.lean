import OpacusLean.Lemmas.RnnSeq
set_option linter.unusedSimpArgs false
namespace Opacus.Rnn
variable {α β X S : Type}

/-! ### `compute_seq_lengths` -/

theorem length_cslAux (r prev : Nat) (bs : List Nat) (hp : (prev :: bs).Pairwise (· ≥ ·)) :
    (cslAux r prev bs).length = prev := by
  induction bs generalizing r prev with
  | nil => simp [cslAux]
  | cons b bs ih =>
    simp only [List.pairwise_cons] at hp
    obtain ⟨h1, h2, h3⟩ := hp
    have hb : b ≤ prev := h1 b (by simp)
    simp only [cslAux, List.length_append, List.length_replicate]
    rw [ih (r + 1) b (List.pairwise_cons.mpr ⟨h2, h3⟩)]
    omega

/-- `len(seq_lengths) ≥ batch_sizes[0]` always: the buffer `h_last` is never left partly unwritten -/
theorem length_cslAux_ge (r prev : Nat) (bs : List Nat) : prev ≤ (cslAux r prev bs).length := by
  induction bs generalizing r prev with
  | nil => simp [cslAux]
  | cons b bs ih =>
    simp only [cslAux, List.length_append, List.length_replicate]
    have := ih (r + 1) b
    omega

/-- non-increasing batch sizes: entry `i` of the result is the number of steps in which row `i` is active -/
theorem cslAux_reverse_getElem? (r prev : Nat) (bs : List Nat) (hp : (prev :: bs).Pairwise (· ≥ ·))
    (i : Nat) (hi : i < prev) :
    (cslAux r prev bs).reverse[i]? = some (r + 1 + bs.countP (fun b => i < b)) := by
  induction bs generalizing r prev with
  | nil => simp [cslAux, List.getElem?_replicate, hi]
  | cons b bs ih =>
    simp only [List.pairwise_cons] at hp
    obtain ⟨h1, h2, h3⟩ := hp
    have hb : b ≤ prev := h1 b (by simp)
    have hlen := length_cslAux (r + 1) b bs (List.pairwise_cons.mpr ⟨h2, h3⟩)
    simp only [cslAux, List.reverse_append, List.reverse_replicate]
    by_cases hib : i < b
    · rw [List.getElem?_append_left (by simp [hlen, hib])]
      rw [ih (r + 1) b (List.pairwise_cons.mpr ⟨h2, h3⟩) hib]
      simp [List.countP_cons, hib]; omega
    · have hib' : b ≤ i := Nat.le_of_not_lt hib
      rw [List.getElem?_append_right (by simp [hlen, hib'])]
      have hz : bs.countP (fun b => decide (i < b)) = 0 := by
        rw [List.countP_eq_zero]
        intro y hy; have := h2 y hy; simp; omega
      simp [List.getElem?_replicate, hlen, List.countP_cons, hib, hz]
      omega

theorem computeSeqLengths_nonInc (b : Nat) (bs : List Nat) (hp : (b :: bs).Pairwise (· ≥ ·)) :
    ∃ lens, computeSeqLengths (b :: bs) = some lens ∧ lens.length = b ∧
      ∀ i, i < b → lens[i]? = some ((b :: bs).countP (fun c => i < c)) := by
  cases bs with
  | nil =>
    refine ⟨List.replicate b 1, rfl, by simp, ?_⟩
    intro i hi; simp [List.getElem?_replicate, hi, List.countP_cons]
  | cons c cs =>
    refine ⟨(cslAux 0 b (c :: cs)).reverse, rfl, by simp [length_cslAux 0 b (c :: cs) hp], ?_⟩
    intro i hi
    rw [cslAux_reverse_getElem? 0 b (c :: cs) hp i hi]
    simp [List.countP_cons (l := c :: cs) (a := b), hi]; omega

/-- non-decreasing batch sizes (the flipped ones the reverse pass sees): every length is `T` -/
theorem cslAux_nonDec (r prev : Nat) (bs : List Nat) (hp : (prev :: bs).Pairwise (· ≤ ·)) :
    cslAux r prev bs = List.replicate ((prev :: bs).getLast (by simp)) (r + 1 + bs.length) := by
  induction bs generalizing r prev with
  | nil => simp [cslAux]
  | cons b bs ih =>
    simp only [List.pairwise_cons] at hp
    obtain ⟨h1, h2, h3⟩ := hp
    have hb : prev ≤ b := h1 b (by simp)
    simp only [cslAux]
    rw [ih (r + 1) b (List.pairwise_cons.mpr ⟨h2, h3⟩)]
    have : prev - b = 0 := by omega
    simp [this, List.getLast_cons]
    omega

theorem computeSeqLengths_nonDec (b : Nat) (bs : List Nat) (hp : (b :: bs).Pairwise (· ≤ ·)) :
    computeSeqLengths (b :: bs) =
      some (List.replicate ((b :: bs).getLast (by simp)) (bs.length + 1)) := by
  cases bs with
  | nil => simp [computeSeqLengths]
  | cons c cs =>
    simp only [computeSeqLengths]
    rw [cslAux_nonDec 0 b (c :: cs) hp]
    simp; omega

end Opacus.Rnn
