import OpacusLean.Lemmas.PrvBasic
import Mathlib.Algebra.Polynomial.Basic
import Mathlib.Algebra.Polynomial.Coeff
import Mathlib.Algebra.Polynomial.Eval.Defs
import Mathlib.Algebra.Polynomial.Degree.Support
import Mathlib.Algebra.Polynomial.Degree.Lemmas
import Mathlib.Algebra.Polynomial.Eval.Degree
import Mathlib.Data.ZMod.Basic
/-! linear convolution of pmfs = multiplication of generating polynomials -/
namespace Opacus.Prv
open Finset Polynomial

variable {R : Type} [CommSemiring R]

/-- generating polynomial `Σ_i a[i] X^i` of a pmf -/
noncomputable def toPoly (a : Array R) : R[X] := ∑ i ∈ range a.size, monomial i (a.getD i 0)

theorem coeff_toPoly (a : Array R) (i : ℕ) : (toPoly a).coeff i = a.getD i 0 := by
  unfold toPoly
  rw [finsetSum_coeff]
  simp only [coeff_monomial]
  by_cases h : i < a.size
  · rw [Finset.sum_eq_single i]
    · simp
    · intro b _ hb; simp [hb]
    · intro hi; exact absurd (Finset.mem_range.mpr h) hi
  · rw [getD_eq_zero a i (Nat.le_of_not_lt h)]
    refine Finset.sum_eq_zero fun j hj => ?_
    have : j ≠ i := by have := Finset.mem_range.mp hj; omega
    simp [this]

theorem lconvAt_eq_coeff (a b : Array R) (k : ℕ) : lconvAt a b k = (toPoly a * toPoly b).coeff k := by
  unfold lconvAt
  rw [sumTo_eq_sum, coeff_mul, Finset.Nat.sum_antidiagonal_eq_sum_range_succ (fun i j => (toPoly a).coeff i * (toPoly b).coeff j)]
  simp only [coeff_toPoly]

theorem convSame_size (a b : Array R) : (convSame a b).size = a.size := by simp [convSame]

theorem convSame_getD (a b : Array R) (j : ℕ) :
    (convSame a b).getD j 0 = if j < a.size then (toPoly a * toPoly b).coeff (j + (b.size - 1) / 2) else 0 := by
  unfold convSame
  rw [getD_ofFn]
  by_cases h : j < a.size
  · simp only [h, dif_pos, if_true, lconvAt_eq_coeff]
  · simp [h]

theorem natDegree_toPoly_lt (a : Array R) (h : 0 < a.size) : (toPoly a).natDegree < a.size := by
  rw [Nat.lt_iff_le_pred h]
  apply natDegree_le_iff_coeff_eq_zero.mpr
  intro i hi
  rw [coeff_toPoly]; exact getD_eq_zero a i (by omega)

/-- total mass -/
def mass {R} [Zero R] [Add R] (a : Array R) : R := sumTo a.size fun i => a.getD i 0

theorem mass_eq_eval (a : Array R) : mass a = (toPoly a).eval 1 := by
  unfold mass toPoly
  rw [sumTo_eq_sum, eval_finsetSum]
  simp

end Opacus.Prv
