import OpacusLean.Model.Rnn
namespace Opacus.Rnn
variable {α β X S : Type}

theorem seqOf_nil (i : Nat) : seqOf ([] : List (List α)) i = [] := rfl

theorem seqOf_cons_some {x : List α} {xs : List (List α)} {i : Nat} {a : α} (h : x[i]? = some a) :
    seqOf (x :: xs) i = a :: seqOf xs i := by
  simp [seqOf, h]

theorem seqOf_cons_none {x : List α} {xs : List (List α)} {i : Nat} (h : x[i]? = none) :
    seqOf (x :: xs) i = seqOf xs i := by
  simp [seqOf, h]

theorem seqOf_reverse (xs : List (List α)) (i : Nat) : seqOf xs.reverse i = (seqOf xs i).reverse := by
  simp [seqOf, List.filterMap_reverse]

theorem seqOf_append (xs ys : List (List α)) (i : Nat) : seqOf (xs ++ ys) i = seqOf xs i ++ seqOf ys i := by
  simp [seqOf]

/-- rows beyond every step's length do not exist -/
theorem seqOf_eq_nil {xs : List (List α)} {i : Nat} (h : ∀ x ∈ xs, x.length ≤ i) : seqOf xs i = [] := by
  induction xs with
  | nil => rfl
  | cons x xs ih =>
    have hx : x[i]? = none := by
      rw [List.getElem?_eq_none_iff]; exact h x (by simp)
    rw [seqOf_cons_none hx]
    exact ih (fun y hy => h y (by simp [hy]))

/-- `seqOf` only depends on the shape for emptiness -/
theorem seqOf_eq_nil_of_shape {xs : List (List α)} {ys : List (List β)} {i : Nat}
    (hs : ys.map List.length = xs.map List.length) (h : ∀ x ∈ xs, x.length ≤ i) : seqOf ys i = [] := by
  apply seqOf_eq_nil
  intro y hy
  have : y.length ∈ xs.map List.length := by rw [← hs]; exact List.mem_map_of_mem hy
  obtain ⟨x, hx, hl⟩ := List.mem_map.mp this
  rw [← hl]; exact h x hx

theorem scanCell_getLast? (cell : X → S → S) (s : S) (xs : List X) (hne : xs ≠ []) :
    (scanCell cell s xs).getLast? = some (xs.foldl (fun s x => cell x s) s) := by
  induction xs generalizing s with
  | nil => exact absurd rfl hne
  | cons x xs ih =>
    cases xs with
    | nil => simp [scanCell]
    | cons y ys =>
      have := ih (cell x s) (by simp)
      simp only [scanCell] at this ⊢
      rw [List.getLast?_cons_cons, this]
      rfl

theorem length_scanCell (cell : X → S → S) (s : S) (xs : List X) : (scanCell cell s xs).length = xs.length := by
  induction xs generalizing s with
  | nil => rfl
  | cons x xs ih => simp [scanCell, ih]

/-! ### forward direction of the packed loop: batch shrinking -/

theorem stepPacked_shrink (cell : X → S → S) (h0 h : List S) (x : List X) (hx : x.length ≤ h.length) :
    stepPacked cell h0 h x = List.zipWith cell x (h.take x.length) := by
  simp [stepPacked, Nat.not_lt.mpr hx]

theorem packed_fwd_scan (cell : X → S → S) (h0 : List S) :
    ∀ (xs : List (List X)) (h : List S),
      (xs.map List.length).Pairwise (· ≥ ·) → (∀ x ∈ xs, x.length ≤ h.length) →
      (scanSteps (stepPacked cell h0) h xs).map List.length = xs.map List.length ∧
      ∀ i s, h[i]? = some s →
        seqOf (scanSteps (stepPacked cell h0) h xs) i = scanCell cell s (seqOf xs i) := by
  intro xs
  induction xs with
  | nil => intro h _ _; exact ⟨rfl, fun i s _ => rfl⟩
  | cons x xs ih =>
    intro h hp hb
    have hxl : x.length ≤ h.length := hb x (by simp)
    simp only [List.map_cons, List.pairwise_cons] at hp
    obtain ⟨hhead, hp'⟩ := hp
    have hstep := stepPacked_shrink cell h0 h x hxl
    have hlen : (stepPacked cell h0 h x).length = x.length := by
      rw [hstep]; simp [List.length_zipWith, List.length_take, Nat.min_eq_left hxl]
    have hb' : ∀ y ∈ xs, y.length ≤ (stepPacked cell h0 h x).length := by
      intro y hy; rw [hlen]; exact hhead y.length (List.mem_map_of_mem hy)
    obtain ⟨ihs, ihv⟩ := ih (stepPacked cell h0 h x) hp' hb'
    refine ⟨by simp [scanSteps, hlen, ihs], ?_⟩
    intro i s hs
    simp only [scanSteps]
    cases hxi : x[i]? with
    | some a =>
      have hi : i < x.length := by
        rcases List.getElem?_eq_some_iff.mp hxi with ⟨hi, _⟩; exact hi
      have hrow : (stepPacked cell h0 h x)[i]? = some (cell a s) := by
        rw [hstep, List.getElem?_zipWith, hxi, List.getElem?_take]
        simp [hi, hs]
      rw [seqOf_cons_some hrow, seqOf_cons_some hxi, ihv i (cell a s) hrow]
      rfl
    | none =>
      have hi : x.length ≤ i := List.getElem?_eq_none_iff.mp hxi
      have hrow : (stepPacked cell h0 h x)[i]? = none := by
        rw [List.getElem?_eq_none_iff, hlen]; exact hi
      have hall : ∀ y ∈ xs, y.length ≤ i := fun y hy =>
        Nat.le_trans (hhead y.length (List.mem_map_of_mem hy)) hi
      rw [seqOf_cons_none hrow, seqOf_cons_none hxi, seqOf_eq_nil hall, seqOf_eq_nil_of_shape ihs hall]
      rfl

end Opacus.Rnn
