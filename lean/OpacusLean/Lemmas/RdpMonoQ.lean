import OpacusLean.Lemmas.RdpMono
/-! `A_α(q)` is non-decreasing in the sampling rate `q` (integer orders): the binomial weights
`C(n,k)(1-q)^(n-k) q^k` move mass towards larger `k` as `q` grows, and the exponents
`(k²-k)/(2σ²)` are non-decreasing in `k`. -/
namespace Opacus.Rdp
open Finset

/-- expectation of `f` under Binomial(n, q) (not assuming `0 ≤ q ≤ 1`) -/
noncomputable def binE (n : ℕ) (q : ℝ) (f : ℕ → ℝ) : ℝ :=
  ∑ k ∈ range (n + 1), (n.choose k : ℝ) * (1 - q) ^ (n - k) * q ^ k * f k

theorem binE_zero (q : ℝ) (f : ℕ → ℝ) : binE 0 q f = f 0 := by simp [binE]

/-- one more Bernoulli(q) trial: Pascal's rule -/
theorem binE_succ (n : ℕ) (q : ℝ) (f : ℕ → ℝ) :
    binE (n + 1) q f = (1 - q) * binE n q f + q * binE n q (fun k => f (k + 1)) := by
  unfold binE
  rw [Finset.sum_range_succ' (fun k => ((n + 1).choose k : ℝ) * (1 - q) ^ (n + 1 - k) * q ^ k * f k) (n + 1)]
  simp only [Nat.choose_zero_right, Nat.cast_one, one_mul, Nat.sub_zero, pow_zero, mul_one]
  -- the shifted part
  have hA : ∀ j ∈ range (n + 1), ((n + 1).choose (j + 1) : ℝ) * (1 - q) ^ (n + 1 - (j + 1)) * q ^ (j + 1) * f (j + 1)
      = q * ((n.choose j : ℝ) * (1 - q) ^ (n - j) * q ^ j * f (j + 1))
        + (n.choose (j + 1) : ℝ) * (1 - q) ^ (n - j) * q ^ (j + 1) * f (j + 1) := by
    intro j _
    rw [Nat.choose_succ_succ, Nat.cast_add, Nat.add_sub_add_right]
    ring
  rw [Finset.sum_congr rfl hA, Finset.sum_add_distrib, ← Finset.mul_sum]
  -- the remaining part is (1-q) * binE n q f
  have hB : ∑ j ∈ range (n + 1), (n.choose (j + 1) : ℝ) * (1 - q) ^ (n - j) * q ^ (j + 1) * f (j + 1)
      + (1 - q) ^ (n + 1) * f 0
      = (1 - q) * ∑ k ∈ range (n + 1), (n.choose k : ℝ) * (1 - q) ^ (n - k) * q ^ k * f k := by
    rw [Finset.sum_range_succ' (fun k => (n.choose k : ℝ) * (1 - q) ^ (n - k) * q ^ k * f k) n]
    simp only [Nat.choose_zero_right, Nat.cast_one, one_mul, Nat.sub_zero, pow_zero, mul_one]
    rw [Finset.sum_range_succ (fun j => (n.choose (j + 1) : ℝ) * (1 - q) ^ (n - j) * q ^ (j + 1) * f (j + 1)) n]
    simp only [Nat.choose_succ_self, Nat.cast_zero, zero_mul, add_zero]
    rw [mul_add, Finset.mul_sum]
    congr 1
    · apply Finset.sum_congr rfl
      intro j hj
      have hjn : j < n := Finset.mem_range.mp hj
      have : n - j = (n - (j + 1)) + 1 := by omega
      rw [this, pow_succ]
      ring
    · ring
  linarith [hB]

/-- for a non-decreasing `f` the binomial expectation is non-decreasing in `q ∈ [0,1]` and lies
below the expectation of the shifted function -/
theorem binE_mono_q : ∀ (n : ℕ) (f : ℕ → ℝ), (∀ k, f k ≤ f (k + 1)) →
    ∀ q q' : ℝ, 0 ≤ q → q ≤ q' → q' ≤ 1 → binE n q f ≤ binE n q' f
  | 0, f, _, q, q', _, _, _ => by simp [binE_zero]
  | n + 1, f, hf, q, q', h0, hqq, h1 => by
    rw [binE_succ, binE_succ]
    have hf' : ∀ k, (fun k => f (k + 1)) k ≤ (fun k => f (k + 1)) (k + 1) := fun k => hf (k + 1)
    have ha := binE_mono_q n f hf q q' h0 hqq h1
    have hb := binE_mono_q n (fun k => f (k + 1)) hf' q q' h0 hqq h1
    -- a(q') ≤ b(q'): pointwise f ≤ f∘succ with non-negative weights
    have hab : binE n q' f ≤ binE n q' (fun k => f (k + 1)) := by
      unfold binE
      apply Finset.sum_le_sum
      intro k _
      have h0' : 0 ≤ q' := le_trans h0 hqq
      have hw : 0 ≤ (n.choose k : ℝ) * (1 - q') ^ (n - k) * q' ^ k := by
        have : 0 ≤ 1 - q' := by linarith
        positivity
      exact mul_le_mul_of_nonneg_left (hf k) hw
    have h1q : 0 ≤ 1 - q := by linarith
    calc (1 - q) * binE n q f + q * binE n q (fun k => f (k + 1))
        ≤ (1 - q) * binE n q' f + q * binE n q' (fun k => f (k + 1)) :=
          add_le_add (mul_le_mul_of_nonneg_left ha h1q) (mul_le_mul_of_nonneg_left hb h0)
      _ ≤ (1 - q') * binE n q' f + q' * binE n q' (fun k => f (k + 1)) := by nlinarith

theorem sgmSum_eq_binE (q v : ℝ) (n : ℕ) :
    sgmSum q v n = binE n q (fun k => Real.exp (((k : ℝ) ^ 2 - k) / (2 * v))) := rfl

/-- the exponents `(k²−k)/(2v)` grow with `k` -/
theorem sgm_weight_mono {v : ℝ} (hv : 0 < v) (k : ℕ) :
    Real.exp (((k : ℝ) ^ 2 - k) / (2 * v)) ≤ Real.exp ((((k + 1 : ℕ) : ℝ) ^ 2 - ((k + 1 : ℕ) : ℝ)) / (2 * v)) := by
  apply Real.exp_le_exp.mpr
  apply div_le_div_of_nonneg_right _ (by positivity)
  push_cast
  nlinarith [Nat.cast_nonneg (α := ℝ) k]

/-- **`A_α` is non-decreasing in the sampling rate** -/
theorem sgmSum_mono_q {q q' v : ℝ} (h0 : 0 ≤ q) (hqq : q ≤ q') (h1 : q' ≤ 1) (hv : 0 < v) (n : ℕ) :
    sgmSum q v n ≤ sgmSum q' v n := by
  rw [sgmSum_eq_binE, sgmSum_eq_binE]
  exact binE_mono_q n _ (sgm_weight_mono hv) q q' h0 hqq h1

end Opacus.Rdp

namespace Opacus.Rdp
open Finset

/-- at `q = 1` only the `k = α` term survives -/
theorem sgmSum_one (v : ℝ) (n : ℕ) : sgmSum 1 v n = Real.exp (((n : ℝ) ^ 2 - n) / (2 * v)) := by
  unfold sgmSum sgmTerm
  rw [Finset.sum_eq_single n]
  · simp
  · intro k hk hkn
    have hlt : k < n := by
      have := Finset.mem_range.mp hk
      omega
    have : n - k ≠ 0 := by omega
    simp [this]
  · intro h; exact absurd (Finset.mem_range.mpr (Nat.lt_succ_self n)) h

/-- term-wise: a larger sampling rate, more RDP (integer orders, rates in [0,1]) -/
theorem rdpR_mono_q {q q' s : ℝ} (h0 : 0 ≤ q) (hqq : q ≤ q') (h1 : q' ≤ 1) (hs : 0 < s)
    {n : ℕ} (hn : 2 ≤ n) : rdpR q s n ≤ rdpR q' s n := by
  have hn' : (0 : ℝ) < (n : ℝ) - 1 := by
    have : (2 : ℝ) ≤ n := by exact_mod_cast hn
    linarith
  have hv : 0 < s * s := mul_pos hs hs
  by_cases hq0 : q = 0
  · subst hq0
    have : rdpR 0 s n = 0 := by simp [rdpR]
    rw [this]
    exact rdpR_nonneg (le_trans h0 hqq) h1 hs hn
  have hq'0 : q' ≠ 0 := by
    intro h; apply hq0; linarith
  have hpos : 0 < q := lt_of_le_of_ne h0 (Ne.symm hq0)
  by_cases hq1 : q = 1
  · have : q' = 1 := le_antisymm h1 (by linarith)
    subst hq1; subst this; exact le_refl _
  have key : Real.log (sgmSum q (s * s) n) / ((n : ℝ) - 1) ≤ Real.log (sgmSum q' (s * s) n) / ((n : ℝ) - 1) := by
    apply div_le_div_of_nonneg_right _ hn'.le
    apply Real.log_le_log
    · exact lt_of_lt_of_le one_pos (one_le_sgmSum h0 (le_trans hqq h1) hv n)
    · exact sgmSum_mono_q h0 hqq h1 hv n
  by_cases hq'1 : q' = 1
  · subst hq'1
    have e1 : rdpR q s n = Real.log (sgmSum q (s * s) n) / ((n : ℝ) - 1) := by simp [rdpR, hq0, hq1]
    have e2 : rdpR 1 s n = (n : ℝ) / (2 * (s * s)) := by simp [rdpR]
    rw [e1, e2]
    refine le_trans key ?_
    rw [sgmSum_one, Real.log_exp]
    rw [div_le_div_iff₀ hn' (by positivity)]
    have : ((n : ℝ) ^ 2 - n) / (2 * (s * s)) * (2 * (s * s)) = (n : ℝ) ^ 2 - n := by field_simp
    nlinarith [this]
  · have e1 : rdpR q s n = Real.log (sgmSum q (s * s) n) / ((n : ℝ) - 1) := by simp [rdpR, hq0, hq1]
    have e2 : rdpR q' s n = Real.log (sgmSum q' (s * s) n) / ((n : ℝ) - 1) := by simp [rdpR, hq'0, hq'1]
    rw [e1, e2]; exact key

end Opacus.Rdp
