import OpacusLean.Lemmas.PrvConv
/-! circular convolution = linear convolution aliased modulo `N` (`wrapZ`), via `ZMod N` -/
set_option linter.unusedSectionVars false
namespace Opacus.Prv
open Finset Polynomial

variable {R : Type} [CommSemiring R] (N : ℕ) [NeZero N]

/-- aliasing: total coefficient mass of `P` at the exponents congruent to `z` modulo `N` -/
noncomputable def wrapZ (P : R[X]) (z : ZMod N) : R :=
  P.sum fun s c => if (s : ZMod N) = z then c else 0

/-- convolution on the cyclic group -/
def cconvZ (f g : ZMod N → R) (z : ZMod N) : R := ∑ x, f x * g (z - x)

def cpowZ (f : ZMod N → R) : ℕ → ZMod N → R
  | 0 => fun z => if z = 0 then 1 else 0
  | n + 1 => cconvZ N (cpowZ f n) f

theorem wrapZ_zero : wrapZ N (0 : R[X]) = 0 := by
  funext z; simp [wrapZ]

theorem wrapZ_add (P Q : R[X]) : wrapZ N (P + Q) = wrapZ N P + wrapZ N Q := by
  funext z
  simp only [wrapZ, Pi.add_apply]
  rw [sum_add_index]
  · intro i; split_ifs <;> rfl
  · intro a b₁ b₂; split_ifs <;> simp

theorem wrapZ_monomial (i : ℕ) (a : R) (z : ZMod N) :
    wrapZ N (monomial i a) z = if (i : ZMod N) = z then a else 0 := by
  unfold wrapZ
  rw [sum_monomial_index]
  split_ifs <;> rfl

theorem wrapZ_finset_sum {ι : Type} (s : Finset ι) (f : ι → R[X]) :
    wrapZ N (∑ i ∈ s, f i) = ∑ i ∈ s, wrapZ N (f i) := by
  classical
  induction s using Finset.induction_on with
  | empty => simp [wrapZ_zero]
  | insert a s ha ih => rw [Finset.sum_insert ha, Finset.sum_insert ha, wrapZ_add, ih]

theorem cconvZ_add_left (f₁ f₂ g : ZMod N → R) :
    cconvZ N (f₁ + f₂) g = cconvZ N f₁ g + cconvZ N f₂ g := by
  funext z; simp [cconvZ, add_mul, Finset.sum_add_distrib]

theorem cconvZ_add_right (f g₁ g₂ : ZMod N → R) :
    cconvZ N f (g₁ + g₂) = cconvZ N f g₁ + cconvZ N f g₂ := by
  funext z; simp [cconvZ, mul_add, Finset.sum_add_distrib]

theorem wrapZ_mul (P Q : R[X]) : wrapZ N (P * Q) = cconvZ N (wrapZ N P) (wrapZ N Q) := by
  induction P using Polynomial.induction_on' with
  | add p q hp hq => rw [add_mul, wrapZ_add, wrapZ_add, cconvZ_add_left, hp, hq]
  | monomial i a =>
    induction Q using Polynomial.induction_on' with
    | add p q hp hq => rw [mul_add, wrapZ_add, wrapZ_add, cconvZ_add_right, hp, hq]
    | monomial j b =>
      funext z
      rw [monomial_mul_monomial, wrapZ_monomial]
      unfold cconvZ
      simp only [wrapZ_monomial]
      rw [Finset.sum_eq_single (i : ZMod N)]
      · simp only [if_true]
        have : ((i + j : ℕ) : ZMod N) = z ↔ (j : ZMod N) = z - (i : ZMod N) := by
          rw [Nat.cast_add, eq_sub_iff_add_eq, add_comm]
        by_cases h : ((i + j : ℕ) : ZMod N) = z
        · rw [if_pos h, if_pos (this.mp h)]
        · rw [if_neg h, if_neg (fun h' => h (this.mpr h')), mul_zero]
      · intro x _ hx; rw [if_neg (Ne.symm hx), zero_mul]
      · intro h; exact absurd (Finset.mem_univ _) h

theorem wrapZ_pow (P : R[X]) (n : ℕ) : wrapZ N (P ^ n) = cpowZ N (wrapZ N P) n := by
  induction n with
  | zero =>
    funext z
    rw [pow_zero, ← monomial_zero_one, wrapZ_monomial]
    simp only [cpowZ, Nat.cast_zero]
    by_cases h : z = 0
    · simp [h]
    · rw [if_neg h, if_neg (Ne.symm h)]
  | succ n ih => rw [pow_succ, wrapZ_mul, ih]; rfl

/-- explicit form of the aliasing sum -/
theorem wrapZ_eq_sum_range (P : R[X]) (M : ℕ) (hM : P.natDegree < M) (k : ℕ) :
    wrapZ N P (k : ZMod N) = ∑ s ∈ range M, if s % N = k % N then P.coeff s else 0 := by
  unfold wrapZ
  rw [sum_over_range' P (by intro n; split_ifs <;> rfl) M hM]
  refine Finset.sum_congr rfl fun s _ => ?_
  simp only [ZMod.natCast_eq_natCast_iff']

/-! ### arrays as functions on `ZMod N` -/

/-- the array `a` (of size `N`) as a function on `ZMod N` -/
def arrZ (a : Array R) (z : ZMod N) : R := a.getD z.val 0

theorem sum_zmod_eq_sum_range {M : Type} [AddCommMonoid M] (f : ℕ → M) :
    ∑ x : ZMod N, f x.val = ∑ i ∈ range N, f i := by
  refine Finset.sum_bij (fun x _ => x.val) ?_ ?_ ?_ ?_
  · intro x _; exact Finset.mem_range.mpr (ZMod.val_lt x)
  · intro x _ y _ h; exact ZMod.val_injective N h
  · intro i hi
    exact ⟨(i : ZMod N), Finset.mem_univ _, ZMod.val_natCast_of_lt (Finset.mem_range.mp hi)⟩
  · intro x _; rfl

theorem arrZ_natCast (a : Array R) (i : ℕ) (hi : i < N) : arrZ N a (i : ZMod N) = a.getD i 0 := by
  unfold arrZ; rw [ZMod.val_natCast_of_lt hi]

theorem wrapZ_toPoly (a : Array R) (ha : a.size = N) : wrapZ N (toPoly a) = arrZ N a := by
  funext z
  unfold toPoly
  rw [wrapZ_finset_sum, Finset.sum_apply, ha]
  simp only [wrapZ_monomial]
  rw [Finset.sum_eq_single z.val]
  · simp [arrZ]
  · intro i hi hne
    rw [if_neg]
    intro h
    apply hne
    rw [← h, ZMod.val_natCast_of_lt (Finset.mem_range.mp hi)]
  · intro h; exact absurd (Finset.mem_range.mpr (ZMod.val_lt z)) h

theorem val_sub_eq (z x : ZMod N) : (z - x).val = (z.val + N - x.val) % N := by
  have hx : x.val ≤ z.val + N := le_trans (ZMod.val_lt x).le (Nat.le_add_left _ _)
  have : z - x = ((z.val + N - x.val : ℕ) : ZMod N) := by
    rw [Nat.cast_sub hx, Nat.cast_add, ZMod.natCast_self, add_zero, ZMod.natCast_zmod_val, ZMod.natCast_zmod_val]
  rw [this, ZMod.val_natCast]

theorem cconv_size (a b : Array R) : (cconv a b).size = a.size := by simp [cconv]

theorem cconv_getD (a b : Array R) (k : ℕ) (hk : k < a.size) :
    (cconv a b).getD k 0 = ∑ i ∈ range a.size, a.getD i 0 * b.getD ((k + a.size - i) % a.size) 0 := by
  unfold cconv
  rw [getD_ofFn, dif_pos hk, sumTo_eq_sum]

theorem arrZ_cconv (a b : Array R) (ha : a.size = N) :
    arrZ N (cconv a b) = cconvZ N (arrZ N a) (arrZ N b) := by
  subst ha
  funext z
  unfold arrZ cconvZ
  rw [cconv_getD a b z.val (ZMod.val_lt z)]
  simp only [val_sub_eq]
  exact (sum_zmod_eq_sum_range a.size (fun i => a.getD i 0 * b.getD ((z.val + a.size - i) % a.size) 0)).symm

theorem cpow_size (a : Array R) (n : ℕ) : (cpow a n).size = a.size := by
  induction n with
  | zero => simp [cpow, cunit]
  | succ n ih => rw [cpow, cconv_size, ih]

theorem arrZ_cpow (a : Array R) (ha : a.size = N) (n : ℕ) :
    arrZ N (cpow a n) = cpowZ N (arrZ N a) n := by
  induction n with
  | zero =>
    funext z
    unfold arrZ cpow cunit cpowZ
    rw [getD_ofFn, dif_pos (by rw [ha]; exact ZMod.val_lt z)]
    simp only [ZMod.val_eq_zero]
  | succ n ih =>
    rw [cpow, arrZ_cconv N _ _ (by rw [cpow_size, ha]), ih]; rfl

/-- **the circular n-fold self-convolution is the aliased n-th power of the generating polynomial** -/
theorem arrZ_cpow_eq_wrapZ (a : Array R) (ha : a.size = N) (n : ℕ) :
    arrZ N (cpow a n) = wrapZ N (toPoly a ^ n) := by
  rw [arrZ_cpow N a ha, wrapZ_pow, wrapZ_toPoly N a ha]

end Opacus.Prv
