import OpacusLean.Model.Prv
import Mathlib.Algebra.BigOperators.Intervals
import Mathlib.Algebra.BigOperators.Ring.Finset
import Mathlib.Tactic.Ring
import Mathlib.Tactic.Linarith
/-! bridges from the core-only folds of `Model/Prv.lean` to `Finset.sum` -/
namespace Opacus.Prv
open Finset

theorem sumTo_eq_sum {R} [AddCommMonoid R] (n : Nat) (f : Nat → R) :
    sumTo n f = ∑ i ∈ range n, f i := by
  induction n with
  | zero => simp [sumTo]
  | succ n ih => rw [sumTo, ih, Finset.sum_range_succ]

theorem rcs_eq_sum {R} [AddCommMonoid R] (p : Nat → R) (k i : Nat) :
    rcs p k i = ∑ j ∈ Ico i (i + k), p j := by
  induction k generalizing i with
  | zero => simp [rcs]
  | succ k ih =>
    rw [rcs, ih, show i + (k + 1) = (i + 1) + k by omega, Finset.sum_eq_sum_Ico_succ_bot (by omega : i < i + 1 + k)]
    exact add_comm _ _

theorem getD_ofFn {R} [Zero R] (n : Nat) (f : Fin n → R) (i : Nat) :
    (Array.ofFn f).getD i 0 = if h : i < n then f ⟨i, h⟩ else 0 := by
  by_cases h : i < n
  · simp [Array.getD, h]
  · simp [Array.getD, h]

theorem getD_eq_zero {R} [Zero R] (a : Array R) (i : Nat) (h : a.size ≤ i) : a.getD i 0 = 0 := by
  simp [Array.getD, Nat.not_lt.mpr h]

/-- NumPy's binary search returns a *local* crossing point – no sortedness needed -/
theorem bsearch_spec {R} [LT R] [DecidableLT R] (a : Nat → R) (key : R) (n : Nat) :
    ∀ (f lo hi : Nat), hi - lo < f → lo ≤ hi → hi ≤ n →
      (lo = 0 ∨ a (lo - 1) < key) → (hi = n ∨ ¬ a hi < key) →
      lo ≤ bsearch a key f lo hi ∧ bsearch a key f lo hi ≤ hi ∧
      (bsearch a key f lo hi = 0 ∨ a (bsearch a key f lo hi - 1) < key) ∧
      (bsearch a key f lo hi = n ∨ ¬ a (bsearch a key f lo hi) < key) := by
  intro f
  induction f with
  | zero => intro lo hi h; omega
  | succ f ih =>
    intro lo hi hf hle hhi hL hH
    unfold bsearch
    by_cases hlt : lo < hi
    · simp only [hlt, if_true]
      by_cases hm : a (lo + (hi - lo) / 2) < key
      · simp only [hm, if_true]
        have := ih (lo + (hi - lo) / 2 + 1) hi (by omega) (by omega) hhi (Or.inr (by simpa using hm)) hH
        refine ⟨by omega, this.2.1, this.2.2.1, this.2.2.2⟩
      · simp only [hm, if_false]
        have := ih lo (lo + (hi - lo) / 2) (by omega) (by omega) (by omega) hL (Or.inr hm)
        refine ⟨this.1, by omega, this.2.2.1, this.2.2.2⟩
    · simp only [hlt, if_false]
      have : lo = hi := by omega
      subst this
      exact ⟨le_refl _, le_refl _, hL, hH⟩

theorem searchsortedLeft_spec {R} [LT R] [DecidableLT R] (a : Nat → R) (n : Nat) (key : R) :
    searchsortedLeft a n key ≤ n ∧
    (searchsortedLeft a n key = 0 ∨ a (searchsortedLeft a n key - 1) < key) ∧
    (searchsortedLeft a n key = n ∨ ¬ a (searchsortedLeft a n key) < key) := by
  have := bsearch_spec a key n (n + 1) 0 n (by omega) (by omega) (le_refl _) (Or.inl rfl) (Or.inl rfl)
  exact ⟨this.2.1, this.2.2.1, this.2.2.2⟩
end Opacus.Prv
