import OpacusLean.Model.GhostNorm
import OpacusLean.Lemmas.ClipReal
/-! Ghost-clipping norm identities over an arbitrary commutative ring. -/
namespace Opacus.Ghost
open Opacus.Clip

section ring
variable {R : Type} [CommRing R]

theorem sum4_reorder {α β γ δ : Type} [Fintype α] [Fintype β] [Fintype γ] [Fintype δ]
    (f : α → β → γ → δ → R) :
    ∑ i, ∑ j, ∑ t, ∑ t', f i j t t' = ∑ t, ∑ t', ∑ i, ∑ j, f i j t t' := by
  calc ∑ i, ∑ j, ∑ t, ∑ t', f i j t t' = ∑ i, ∑ t, ∑ j, ∑ t', f i j t t' :=
        Finset.sum_congr rfl fun i _ => Finset.sum_comm
    _ = ∑ t, ∑ i, ∑ j, ∑ t', f i j t t' := Finset.sum_comm
    _ = ∑ t, ∑ i, ∑ t', ∑ j, f i j t t' :=
        Finset.sum_congr rfl fun t _ => Finset.sum_congr rfl fun i _ => Finset.sum_comm
    _ = ∑ t, ∑ t', ∑ i, ∑ j, f i j t t' := Finset.sum_congr rfl fun t _ => Finset.sum_comm

/-- 2-D `nn.Linear`: `‖b aᵀ‖²_F = ‖b‖²·‖a‖²` -/
theorem linWeightNormSq2_eq {O I : Nat} (b : Fin O → R) (a : Fin I → R) :
    frobSq (linWeightGS2 b a) = linWeightNormSq2 b a := by
  simp only [frobSq, linWeightGS2, linWeightNormSq2, vecSq, sumFin_eq_sum, Finset.sum_mul_sum]
  exact Finset.sum_congr rfl fun i _ => Finset.sum_congr rfl fun j _ => by ring

/-- 3-D `nn.Linear` weight: `‖Σ_t b_t a_tᵀ‖²_F = Σ_{t,t'} (b_t·b_t')(a_t·a_t')` -/
theorem linWeightNormSq3_eq {T O I : Nat} (b : Fin T → Fin O → R) (a : Fin T → Fin I → R) :
    frobSq (linWeightGS3 b a) = linWeightNormSq3 b a := by
  simp only [frobSq, linWeightGS3, linWeightNormSq3, gram, sumFin_eq_sum, Finset.sum_mul_sum]
  rw [sum4_reorder]
  exact Finset.sum_congr rfl fun t _ => Finset.sum_congr rfl fun t' _ =>
    Finset.sum_congr rfl fun i _ => Finset.sum_congr rfl fun j _ => by ring

/-- 3-D `nn.Linear` bias, repaired variant: `‖Σ_t b_t‖² = Σ_{t,t'} b_t·b_t'` -/
theorem linBiasNormSq3_repaired_eq {T O : Nat} (b : Fin T → Fin O → R) :
    vecSq (linBiasGS3 b) = linBiasNormSq3 .repaired b := by
  simp only [vecSq, linBiasGS3, linBiasNormSq3, gram, sumFin_eq_sum, Finset.sum_mul_sum]
  rw [Finset.sum_comm]
  refine Finset.sum_congr rfl fun t _ => ?_
  rw [Finset.sum_comm]

theorem list_sum_filter_of_zero {α : Type} (l : List α) (p : α → Bool) (f : α → R)
    (h : ∀ x ∈ l, p x = false → f x = 0) : ((l.filter p).map f).sum = (l.map f).sum := by
  induction l with
  | nil => rfl
  | cons x xs ih =>
    have ih' := ih fun y hy => h y (List.mem_cons_of_mem _ hy)
    by_cases hp : p x = true
    · simp [hp, ih']
    · have hp' : p x = false := by simpa using hp
      simp [hp', ih', h x List.mem_cons_self hp']

/-- `nn.Embedding`: the unique-(row,id) computation is the squared norm of the scatter-added
gradient -/
theorem embNormSq_eq {T V D : Nat} (ids : Fin T → Fin V) (b : Fin T → Fin D → R) :
    frobSq (embGS ids b) = embNormSq ids b := by
  unfold embNormSq uniqueIds
  rw [← List.sum_eq_foldl, list_sum_filter_of_zero]
  · simp only [frobSq, vecSq, sumFin_eq_sum]
    rw [Fin.sum_univ_def]
  · intro v _ hv
    have hv' : ∀ t, ids t ≠ v := by
      intro t ht
      have : (List.finRange T).any (fun t => decide (ids t = v)) = true :=
        List.any_eq_true.mpr ⟨t, List.mem_finRange t, by simpa using ht⟩
      rw [hv] at this; exact Bool.noConfusion this
    simp [vecSq, embGS, sumFin_eq_sum, hv']

end ring


/-! ### over ℝ: exact samplers, ghost = flat -/
section real
variable {P : Nat} {d : Fin P → Nat}

theorem frobSq_nonneg {O I : Nat} (m : Fin O → Fin I → ℝ) : 0 ≤ frobSq m := by
  simp only [frobSq, sumFin_eq_sum]
  exact Finset.sum_nonneg fun i _ => Finset.sum_nonneg fun j _ => mul_self_nonneg _

theorem vecSq_nonneg {n : Nat} (v : Fin n → ℝ) : 0 ≤ vecSq v := by
  simp only [vecSq, sumFin_eq_sum]
  exact Finset.sum_nonneg fun i _ => mul_self_nonneg _

theorem normOfSqClamped_of_nonneg {x : ℝ} (h : 0 ≤ x) : normOfSqClamped x = Real.sqrt x := by
  simp [normOfSqClamped, HasSqrt.sqrt, max_eq_right h]

theorem wsum_apply (l : List (ℝ × Grad ℝ d)) (k : Fin P) (i : Fin (d k)) :
    wsum l k i = (l.map fun cg => cg.1 * cg.2 k i).sum := by
  unfold wsum
  rw [foldl_gadd_apply (fun cg : ℝ × Grad ℝ d => gscale (fun _ => cg.1) cg.2)]
  simp [gzero, gscale]

theorem zip_map_map {α β γ : Type} (l : List α) (f : α → β) (g : α → γ) :
    (l.map f).zip (l.map g) = l.map fun x => (f x, g x) := by
  induction l with
  | nil => rfl
  | cons x xs ih => simp [ih]

/-- whenever the loss is not of the broadcasting shape (or the wrapper is repaired), the ghost
gradient of a physical batch is the coefficient-weighted sum of the per-sample gradients -/
theorem ghostBatchGrad_apply (v : Variant) (s : LossShape) (hvs : ¬ (v = .asCoded ∧ s = .col))
    (C : ℝ) (batch : List ((Fin P → ℝ) × Grad ℝ d)) (k : Fin P) (i : Fin (d k)) :
    ghostBatchGrad v s C batch k i = (batch.map fun x => clippingCoef C x.1 * x.2 k i).sum := by
  have he : effectiveCoefs v s (batch.map fun x => clippingCoef C x.1)
      = batch.map fun x => clippingCoef C x.1 := by
    cases v <;> cases s <;> simp_all [effectiveCoefs]
  unfold ghostBatchGrad
  simp only [he, zip_map_map, wsum_apply, List.map_map]
  rfl


/-- exact per-parameter norm samples ⇒ the ghost gradient of a physical batch is the flat clipped
sum -/
theorem ghostBatchGrad_eq_batchSum (v : Variant) (s : LossShape) (hvs : ¬ (v = .asCoded ∧ s = .col))
    (C : ℝ) (batch : List ((Fin P → ℝ) × Grad ℝ d)) (hex : ∀ x ∈ batch, x.1 = paramNorms x.2) :
    ghostBatchGrad v s C batch = batchSum (.flat C) (batch.map (·.2)) := by
  funext k i
  rw [ghostBatchGrad_apply v s hvs, batchSum_apply, List.map_map]
  congr 1
  apply List.map_congr_left
  intro x hx
  simp only [Function.comp, clippingCoef, normSample, hex x hx]
  rfl

end real

end Opacus.Ghost
