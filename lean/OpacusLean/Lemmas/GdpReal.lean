import OpacusLean.Lemmas.RdpAcct
/-! Real-number facts about the GDP accountant's `mu`. -/
namespace Opacus.Gdp
open Opacus.Rdp

theorem muPoisson_real (steps : ℕ) (s q : ℝ) :
    muPoisson steps s q = Real.sqrt (Real.exp (1 / (s * s)) - 1) * Real.sqrt (steps : ℝ) * q := by
  show Real.sqrt (Real.exp (((1 : ℕ) : ℝ) / (s * s)) - ((1 : ℕ) : ℝ)) * Real.sqrt ((steps : ℕ) : ℝ) * q = _
  simp

theorem exp_inv_sq_sub_one_nonneg (s : ℝ) : 0 ≤ Real.exp (1 / (s * s)) - 1 := by
  have : 0 ≤ 1 / (s * s) := div_nonneg zero_le_one (mul_self_nonneg s)
  have := Real.one_le_exp this
  linarith

/-- the coded `mu` is the central-limit formula `q·√(T·(e^{1/σ²} − 1))` -/
theorem muPoisson_formula (steps : ℕ) (s q : ℝ) :
    muPoisson steps s q = q * Real.sqrt ((steps : ℝ) * (Real.exp (1 / (s * s)) - 1)) := by
  rw [muPoisson_real, mul_comm (steps : ℝ), Real.sqrt_mul (exp_inv_sq_sub_one_nonneg s)]
  ring

theorem muPoisson_mono_steps {n n' : ℕ} (h : n ≤ n') (s : ℝ) {q : ℝ} (hq : 0 ≤ q) :
    muPoisson n s q ≤ muPoisson n' s q := by
  rw [muPoisson_real, muPoisson_real]
  apply mul_le_mul_of_nonneg_right _ hq
  apply mul_le_mul_of_nonneg_left _ (Real.sqrt_nonneg _)
  exact Real.sqrt_le_sqrt (by exact_mod_cast h)

theorem muPoisson_mono_q (n : ℕ) (s : ℝ) {q q' : ℝ} (h : q ≤ q') :
    muPoisson n s q ≤ muPoisson n s q' := by
  rw [muPoisson_real, muPoisson_real]
  exact mul_le_mul_of_nonneg_left h (mul_nonneg (Real.sqrt_nonneg _) (Real.sqrt_nonneg _))

theorem muPoisson_antitone_sigma (n : ℕ) {s s' : ℝ} (hs : 0 < s) (h : s ≤ s') {q : ℝ} (hq : 0 ≤ q) :
    muPoisson n s' q ≤ muPoisson n s q := by
  rw [muPoisson_real, muPoisson_real]
  apply mul_le_mul_of_nonneg_right _ hq
  apply mul_le_mul_of_nonneg_right _ (Real.sqrt_nonneg _)
  apply Real.sqrt_le_sqrt
  have hs' : 0 < s' := lt_of_lt_of_le hs h
  have : 1 / (s' * s') ≤ 1 / (s * s) :=
    one_div_le_one_div_of_le (mul_pos hs hs) (mul_le_mul h h hs.le hs'.le)
  have := Real.exp_le_exp.mpr this
  linarith

end Opacus.Gdp
