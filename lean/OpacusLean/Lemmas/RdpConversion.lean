import Mathlib.Analysis.Convex.SpecificFunctions.Basic
import Mathlib.MeasureTheory.Integral.Bochner.Set
import Mathlib.MeasureTheory.Measure.WithDensity
/-! RDP → (ε, δ) conversion of Balle et al. 2020, Theorem 21, as coded in
`privacy_analysis.get_privacy_spent` (promoted from `notes/spikes/Conversion*.lean`). -/
namespace Opacus.Rdp
open Real MeasureTheory

theorem bern (α t : ℝ) (hα : 1 ≤ α) (ht : 0 ≤ t) : α * t - (α - 1) ≤ t ^ α := by
  have h := one_add_mul_self_le_rpow_one_add (s := t - 1) (by linarith) hα
  have : (1 : ℝ) + (t - 1) = t := by ring
  rw [this] at h
  linarith

/-- pointwise bound: `x - e^ε ≤ K x^α` with `K = e^{-(α-1)ε} (α-1)^(α-1) / α^α` -/
theorem pointwise (α ε x : ℝ) (hα : 1 < α) (hx : 0 ≤ x) :
    x - rexp ε ≤ rexp (-(α - 1) * ε) * ((α - 1) ^ (α - 1) / α ^ α) * x ^ α := by
  have hα0 : 0 < α := by linarith
  have hα1 : 0 < α - 1 := by linarith
  have ht0 : 0 ≤ x * rexp (-ε) * ((α - 1) / α) := by positivity
  have hb := bern α (x * rexp (-ε) * ((α - 1) / α)) hα.le ht0
  have hpow : (x * rexp (-ε) * ((α - 1) / α)) ^ α
      = x ^ α * rexp (-ε * α) * ((α - 1) ^ α / α ^ α) := by
    rw [mul_rpow (by positivity) (by positivity), mul_rpow hx (exp_pos _).le,
      div_rpow hα1.le hα0.le, ← exp_mul]
  have hsplit : (α - 1) ^ α = (α - 1) ^ (α - 1) * (α - 1) := by
    have := rpow_add_one hα1.ne' (α - 1)
    rw [show α - 1 + 1 = α by ring] at this
    exact this
  have hexp : rexp (-(α - 1) * ε) = rexp (-ε * α) * rexp ε := by
    rw [← exp_add]; congr 1; ring
  have hee : rexp ε * rexp (-ε) = 1 := by rw [← exp_add]; simp
  have hpos : 0 < rexp ε / (α - 1) := by positivity
  have h2 := mul_le_mul_of_nonneg_left hb hpos.le
  have e1 : rexp ε / (α - 1) * (α * (x * rexp (-ε) * ((α - 1) / α)) - (α - 1)) = x - rexp ε := by
    have : rexp ε / (α - 1) * (α * (x * rexp (-ε) * ((α - 1) / α)) - (α - 1))
        = x * (rexp ε * rexp (-ε)) - rexp ε := by field_simp
    rw [this, hee, mul_one]
  rw [e1, hpow, hsplit] at h2
  calc x - rexp ε ≤ _ := h2
    _ = _ := by rw [hexp]; field_simp

/-- the epsilon `get_privacy_spent` computes from an RDP value `ρ` at order `α` and target `δ` -/
noncomputable def epsOf (ρ α δ : ℝ) : ℝ := ρ - (log δ + log α) / (α - 1) + log ((α - 1) / α)

theorem K_identity (ρ α δ : ℝ) (hα : 1 < α) (hδ : 0 < δ) :
    rexp (-(α - 1) * epsOf ρ α δ) * ((α - 1) ^ (α - 1) / α ^ α) * rexp ((α - 1) * ρ) = δ := by
  have hα0 : 0 < α := by linarith
  have hα1 : 0 < α - 1 := by linarith
  have h1 : -(α - 1) * epsOf ρ α δ + (α - 1) * ρ
      = log δ + log α - (α - 1) * log ((α - 1) / α) := by
    unfold epsOf; field_simp; ring
  have hK : ((α - 1) ^ (α - 1) / α ^ α) = rexp ((α - 1) * log (α - 1) - α * log α) := by
    rw [exp_sub, mul_comm (α - 1), mul_comm α, ← rpow_def_of_pos hα1, ← rpow_def_of_pos hα0]
  rw [mul_right_comm, ← exp_add, h1, hK, ← exp_add, log_div hα1.ne' hα0.ne']
  have : log δ + log α - (α - 1) * (log (α - 1) - log α) + ((α - 1) * log (α - 1) - α * log α) = log δ := by ring
  rw [this, exp_log hδ]

/-- **Balle et al. Thm 21 for the coded ε.**  `Q` a finite measure, `L ≥ 0` a density (so
`P(S) = ∫_S L dQ`), real order `α > 1`.  If the order-α moment is at most `e^{(α-1)ρ}` (i.e. the
Rényi divergence `D_α(P‖Q) ≤ ρ`), then `P(S) ≤ e^ε Q(S) + δ` for `ε = epsOf ρ α δ`. -/
theorem rdp_to_dp_sound_gen {Ω} [MeasurableSpace Ω] (Q : Measure Ω) [IsFiniteMeasure Q]
    (L : Ω → ℝ) (hL0 : ∀ x, 0 ≤ L x) (hLi : Integrable L Q)
    (α ρ δ : ℝ) (hα : 1 < α) (hδ : 0 < δ)
    (hLα : Integrable (fun x => L x ^ α) Q)
    (hrdp : ∫ x, L x ^ α ∂Q ≤ rexp ((α - 1) * ρ))
    (S : Set Ω) (_hS : MeasurableSet S) :
    ∫ x in S, L x ∂Q ≤ rexp (epsOf ρ α δ) * (Q S).toReal + δ := by
  set ε := epsOf ρ α δ
  set K := rexp (-(α - 1) * ε) * ((α - 1) ^ (α - 1) / α ^ α) with hK
  have hKpos : 0 ≤ K := by
    have : 0 < α - 1 := by linarith
    have : 0 < α := by linarith
    positivity
  have h1 : ∫ x in S, (L x - rexp ε) ∂Q ≤ ∫ x in S, K * L x ^ α ∂Q := by
    apply setIntegral_mono
    · exact (hLi.sub (integrable_const _)).integrableOn
    · exact (hLα.const_mul K).integrableOn
    · intro x; exact pointwise α ε (L x) hα (hL0 x)
  have h2 : ∫ x in S, K * L x ^ α ∂Q ≤ ∫ x, K * L x ^ α ∂Q := by
    apply setIntegral_le_integral (hLα.const_mul K)
    exact Filter.Eventually.of_forall fun x => mul_nonneg hKpos (rpow_nonneg (hL0 x) _)
  have h3 : ∫ x, K * L x ^ α ∂Q ≤ δ := by
    rw [integral_const_mul]
    calc K * ∫ x, L x ^ α ∂Q ≤ K * rexp ((α - 1) * ρ) := mul_le_mul_of_nonneg_left hrdp hKpos
      _ = δ := K_identity ρ α δ hα hδ
  have h4 : ∫ x in S, (L x - rexp ε) ∂Q = ∫ x in S, L x ∂Q - rexp ε * (Q S).toReal := by
    rw [integral_sub hLi.integrableOn (integrable_const _).integrableOn, setIntegral_const]
    simp [Measure.real, mul_comm]
  linarith

end Opacus.Rdp
