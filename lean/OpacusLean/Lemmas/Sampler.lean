import OpacusLean.Model.Sampler
import Mathlib.Data.Int.CardIntervalMod
import Mathlib.Data.List.Perm.Basic
import Mathlib.Data.List.Nodup
import Mathlib.Data.List.Range
import Mathlib.Data.List.GetD
/-! helper lemmas about the rank-strided shards of `Opacus.Sampler` -/
namespace Opacus.Sampler

theorem mem_shardPositions (N W r i : Nat) : i ∈ shardPositions N W r ↔ i < N ∧ i % W = r := by
  simp [shardPositions]

theorem shardPositions_nodup (N W r : Nat) : (shardPositions N W r).Nodup :=
  List.Nodup.filter _ List.nodup_range

/-- the size of a slice `[r : N : W]` is `N / W + [r < N % W]` (so the `assert` in the sampler never fires) -/
theorem shardPositions_length (N W r : Nat) (hW : 0 < W) (hr : r < W) :
    (shardPositions N W r).length = numSamples N W r := by
  unfold shardPositions numSamples
  rw [← List.countP_eq_length_filter]
  have h1 : List.countP (fun i => decide (i % W = r)) (List.range N) = Nat.count (· ≡ r [MOD W]) N := by
    unfold Nat.count
    apply List.countP_congr
    intro i _
    simp only [decide_eq_true_eq, Nat.ModEq, Nat.mod_eq_of_lt hr]
  rw [h1, Nat.count_modEq_card N hW r, Nat.mod_eq_of_lt hr]

theorem shard_eq (perm : List Nat) (W r : Nat) :
    shard perm W r = (shardPositions perm.length W r).map (fun i => perm.getD i 0) := rfl

theorem mem_shard (perm : List Nat) (W r x : Nat) :
    x ∈ shard perm W r ↔ ∃ p, ∃ h : p < perm.length, p % W = r ∧ perm[p] = x := by
  simp only [shard, List.mem_map, mem_shardPositions]
  constructor
  · rintro ⟨p, ⟨hp, hm⟩, hx⟩
    refine ⟨p, hp, hm, ?_⟩
    rw [← hx, List.getD_eq_getElem (l := perm) (d := 0) hp]
  · rintro ⟨p, hp, hm, hx⟩
    exact ⟨p, ⟨hp, hm⟩, by rw [List.getD_eq_getElem (l := perm) (d := 0) hp, hx]⟩

/-- for a duplicate-free `perm`: every shard is duplicate-free, shards of different ranks are
disjoint, together they are exactly the elements of `perm`, sizes are balanced -/
theorem shards_of_nodup (perm : List Nat) (W : Nat) (hW : 0 < W) (hnd : perm.Nodup) :
    (∀ r, r < W → (shard perm W r).length = numSamples perm.length W r) ∧
    (∀ r, (shard perm W r).Nodup) ∧
    (∀ r₁ r₂, r₁ ≠ r₂ → List.Disjoint (shard perm W r₁) (shard perm W r₂)) ∧
    (∀ x, x ∈ perm ↔ ∃ r, r < W ∧ x ∈ shard perm W r) := by
  refine ⟨?_, ?_, ?_, ?_⟩
  · intro r hr
    rw [shard_eq, List.length_map, shardPositions_length _ _ _ hW hr]
  · intro r
    rw [shard_eq]
    refine List.Nodup.map_on ?_ (shardPositions_nodup _ _ _)
    intro a ha b hb hab
    have ha' := ((mem_shardPositions _ _ _ _).1 ha).1
    have hb' := ((mem_shardPositions _ _ _ _).1 hb).1
    rw [List.getD_eq_getElem (l := perm) (d := 0) ha', List.getD_eq_getElem (l := perm) (d := 0) hb'] at hab
    exact (List.Nodup.getElem_inj_iff hnd).1 hab
  · intro r₁ r₂ hne x h1 h2
    obtain ⟨p1, hp1, hm1, hx1⟩ := (mem_shard _ _ _ _).1 h1
    obtain ⟨p2, hp2, hm2, hx2⟩ := (mem_shard _ _ _ _).1 h2
    have : p1 = p2 := (List.Nodup.getElem_inj_iff hnd).1 (hx1.trans hx2.symm)
    subst this
    exact hne (hm1.symm.trans hm2)
  · intro x
    constructor
    · intro hx
      obtain ⟨p, hp, hpx⟩ := List.getElem_of_mem hx
      exact ⟨p % W, Nat.mod_lt _ hW, (mem_shard _ _ _ _).2 ⟨p, hp, rfl, hpx⟩⟩
    · rintro ⟨r, _, hx⟩
      obtain ⟨p, hp, _, hpx⟩ := (mem_shard _ _ _ _).1 hx
      rw [← hpx]; exact List.getElem_mem hp

/-- the specification on a tuple item, without the `attach` of the well-founded definition -/
theorem spec_tuple (xs : List Item) : emptyCollateSpec (.tuple xs) = .list (xs.map emptyCollateSpec) := by
  rw [emptyCollateSpec]
  congr 1
  rw [List.map_attach_eq_pmap]
  simp [List.pmap_eq_map]


end Opacus.Sampler
