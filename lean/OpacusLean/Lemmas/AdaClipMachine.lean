import OpacusLean.Lemmas.AdaClipReal
/-! Helper definitions and lemmas about the adaptive-clipping machines at `R = ℝ` used by
`Props/C20.lean`: unfolding lemmas for `phys` / `release`, the projections an observer sees
(`pub`), run invariants, and the concrete witness configuration. -/
namespace Opacus.C20
open Opacus.AdaClip

/-- the counters were reset by `zero_grad` (always, as coded; after a released step, repaired) -/
def Ada.Fresh (cfg : Ada.Cfg ℝ) (s : Ada.State ℝ) : Prop := cfg.accum = .asCoded ∨ s.lastSkipped = false

theorem Ada.counters_fresh {cfg : Ada.Cfg ℝ} {s : Ada.State ℝ} (h : Ada.Fresh cfg s) (norms : List ℝ) :
    Ada.counters cfg s norms = (norms.length, Ada.unclippedCount cfg.eps s.C norms) := by
  have hkeep : ¬ (cfg.accum = .repaired ∧ s.lastSkipped = true) := by
    rcases h with h | h
    · intro ⟨h1, _⟩; rw [h] at h1; cases h1
    · intro ⟨_, h2⟩; rw [h] at h2; cases h2
  simp [Ada.counters, hkeep]

theorem Ada.phys_released (cfg : Ada.Cfg ℝ) (s : Ada.State ℝ) (norms : List ℝ) (z : ℝ)
    (h : ¬ (norms = [] ∧ cfg.empty = .asCoded)) :
    Ada.phys cfg s norms z false =
      ((Ada.release cfg s (norms.map (Ada.factor cfg.eps s.C)) (Ada.counters cfg s norms).1
          (((Ada.counters cfg s norms).2 : ℝ) + z)).1,
       .released (Ada.release cfg s (norms.map (Ada.factor cfg.eps s.C)) (Ada.counters cfg s norms).1
          (((Ada.counters cfg s norms).2 : ℝ) + z)).2) := by
  simp [Ada.phys, h]

/-- the `Out` of a released step -/
noncomputable def Ada.outOf (cfg : Ada.Cfg ℝ) (s : Ada.State ℝ) (norms : List ℝ) (z : ℝ) : Out ℝ :=
  (Ada.release cfg s (norms.map (Ada.factor cfg.eps s.C)) (Ada.counters cfg s norms).1
    (((Ada.counters cfg s norms).2 : ℝ) + z)).2

theorem Ada.phys_released_snd (cfg : Ada.Cfg ℝ) (s : Ada.State ℝ) (norms : List ℝ) (z : ℝ)
    (h : ¬ (norms = [] ∧ cfg.empty = .asCoded)) :
    (Ada.phys cfg s norms z false).2 = .released (Ada.outOf cfg s norms z) := by
  rw [Ada.phys_released cfg s norms z h]; rfl

/-- what an observer of a step sees besides the gradient itself -/
def pub : Res ℝ → Option (ℝ × ℝ × ℝ × ℝ × ℕ × ℝ × ℝ × ℝ) ⊕ Err
  | .released o => .inl (some (o.clipUsed, o.gradMult, o.gradStd, o.countStd, o.sampleSize, o.noisy, o.recorded, o.newC))
  | .skipped _ => .inl none
  | .err e => .inr e

/-- states that agree on everything except the exact (un-noised) unclipped counter -/
def Ada.AgreeUpToCount (s₁ s₂ : Ada.State ℝ) : Prop :=
  s₁.C = s₂.C ∧ s₁.mult = s₂.mult ∧ s₁.sampleSize = s₂.sampleSize ∧ s₁.lastSkipped = s₂.lastSkipped ∧ s₁.hist = s₂.hist

theorem Ada.phys_mult (cfg : Ada.Cfg ℝ) (s : Ada.State ℝ) (norms : List ℝ) (z : ℝ) (k : Bool) :
    (Ada.phys cfg s norms z k).1.mult = s.mult := by
  unfold Ada.phys
  split_ifs <;> simp [Ada.release]

theorem Ada.construct_ok {cfg : Ada.Cfg ℝ} {C0 : ℝ} {s0 : Ada.State ℝ} (h : Ada.construct cfg C0 = .ok s0) :
    cfg.minC < cfg.maxC ∧ 0 < cfg.sigma ∧ 0 < cfg.sigmaB ∧ cfg.sigma < 2 * cfg.sigmaB ∧
    s0 = { C := C0, mult := sigmaDelta cfg.sigma cfg.sigmaB, sampleSize := 0, unclipped := 0,
           lastSkipped := false, hist := [] } := by
  unfold Ada.construct at h
  by_cases h1 : cfg.minC < cfg.maxC
  · by_cases h2 : splitDefined cfg.sigma cfg.sigmaB = true
    · obtain ⟨a, b, c⟩ := (splitDefined_iff _ _).mp h2
      simp only [h1, h2, not_true_eq_false, if_false] at h
      injection h with h
      exact ⟨h1, a, b, c, h.symm⟩
    · simp [h1, h2] at h
  · simp [h1] at h

/-- every released step of a run satisfies `P` -/
def AllReleased (P : Out ℝ → Prop) (rs : List (Res ℝ)) : Prop := ∀ r ∈ rs, ∀ o, r = .released o → P o

theorem Ada.run_invariant (cfg : Ada.Cfg ℝ) (P : Out ℝ → Prop) (m : ℝ)
    (hstep : ∀ s norms z k o, s.mult = m → (Ada.phys cfg s norms z k).2 = .released o → P o) :
    ∀ (ops : List (List ℝ × ℝ × Bool)) (s : Ada.State ℝ), s.mult = m → AllReleased P (Ada.run cfg s ops).2 := by
  intro ops
  induction ops with
  | nil => intro s _ r hr; simp [Ada.run] at hr
  | cons op rest ih =>
    intro s hs r hr o ho
    obtain ⟨norms, z, k⟩ := op
    have hm := Ada.phys_mult cfg s norms z k
    have hP := hstep s norms z k
    unfold Ada.run at hr
    rcases hph : Ada.phys cfg s norms z k with ⟨s', r'⟩
    rw [hph] at hr hm hP
    cases r' with
    | err e => simp at hr; subst hr; cases ho
    | skipped fs =>
      simp only [List.mem_cons] at hr
      rcases hr with hr | hr
      · subst hr; cases ho
      · exact ih s' (by simpa [hs] using hm) r hr o ho
    | released o' =>
      simp only [List.mem_cons] at hr
      rcases hr with hr | hr
      · subst hr; injection ho with ho; subst ho; exact hP o' hs rfl
      · exact ih s' (by simpa [hs] using hm) r hr o ho

/-- the witness replayed on the real code: σ = 1, σ_b = 1 -/
noncomputable def wCfg (acct : Variant) : Ada.Cfg ℝ :=
  ⟨1, 1, 1/5, 1/2, 1/100, 100, 1/1000000, acct, .asCoded, .asCoded⟩

theorem wCfg_construct (acct : Variant) :
    Ada.construct (wCfg acct) 1 = .ok ⟨1, sigmaDelta 1 1, 0, 0, false, []⟩ := by
  have h : splitDefined (1 : ℝ) 1 = true := by rw [splitDefined_iff]; norm_num
  simp [Ada.construct, wCfg, h]
  norm_num

theorem sigmaDelta_one_one : sigmaDelta (1 : ℝ) 1 = 2 / Real.sqrt 3 := by
  rw [sigmaDelta_real]
  have : (1 : ℝ) / (1 * 1) - 1 / (2 * 1 * (2 * 1)) = 3 / 4 := by norm_num
  rw [this, Real.sqrt_div (by norm_num), show (4 : ℝ) = 2 * 2 by norm_num, Real.sqrt_mul_self (by norm_num)]
  field_simp

theorem Ghost.release_ok (cfg : Ghost.Cfg ℝ) (s : Ghost.State ℝ) (norms : List ℝ) (x : ℝ)
    (h10 : 10 * s.sigma0 < (norms.length : ℝ)) :
    Ghost.release cfg s norms x =
      (let newC := Ghost.clamp cfg.minC cfg.maxC (geoUpdate s.C cfg.eta cfg.gamma (x / (norms.length : ℝ)))
       let newMult : ℝ := if 0 < s.sigma0 then sigmaDelta s.sigma0 ((norms.length : ℝ) / 20) else s.sigma0
       let rec_ : ℝ := match cfg.acct with | .asCoded => newMult | .repaired => s.sigma0
       ({ s with C := newC, mult := newMult, hist := s.hist ++ [rec_] },
        .released { clipUsed := newC, factors := norms.map (Ghost.factor newC), gradMult := newMult,
                    gradStd := newMult * newC, countStd := (norms.length : ℝ) / 20, sampleSize := norms.length,
                    noisy := x, recorded := rec_, newC := newC })) := by
  rcases cfg with ⟨_, _, _, _, a⟩
  cases a <;> simp [Ghost.release, h10]

theorem Ghost.release_err (cfg : Ghost.Cfg ℝ) (s : Ghost.State ℝ) (norms : List ℝ) (x : ℝ)
    (h10 : ¬ 10 * s.sigma0 < (norms.length : ℝ)) :
    Ghost.release cfg s norms x = (s, .err .batchTooSmall) := by
  unfold Ghost.release
  simp [h10]

theorem Ghost.step_sigma0 (cfg : Ghost.Cfg ℝ) (s : Ghost.State ℝ) (norms : List ℝ) (z : ℝ) :
    (Ghost.step cfg s norms z).1.sigma0 = s.sigma0 := by
  unfold Ghost.step
  by_cases h10 : 10 * s.sigma0 < (norms.length : ℝ)
  · rw [Ghost.release_ok cfg s norms _ h10]
  · rw [Ghost.release_err cfg s norms _ h10]

theorem Ghost.run_invariant (cfg : Ghost.Cfg ℝ) (P : Out ℝ → Prop) (σ0 : ℝ)
    (hstep : ∀ s norms z o, s.sigma0 = σ0 → (Ghost.step cfg s norms z).2 = .released o → P o) :
    ∀ (ops : List (List ℝ × ℝ)) (s : Ghost.State ℝ), s.sigma0 = σ0 → AllReleased P (Ghost.run cfg s ops).2 := by
  intro ops
  induction ops with
  | nil => intro s _ r hr; simp [Ghost.run] at hr
  | cons op rest ih =>
    intro s hs r hr o ho
    obtain ⟨norms, z⟩ := op
    have hm := Ghost.step_sigma0 cfg s norms z
    have hP := hstep s norms z
    unfold Ghost.run at hr
    rcases hph : Ghost.step cfg s norms z with ⟨s', r'⟩
    rw [hph] at hr hm hP
    cases r' with
    | err e => simp at hr; subst hr; cases ho
    | skipped fs =>
      simp only [List.mem_cons] at hr
      rcases hr with hr | hr
      · subst hr; cases ho
      · exact ih s' (by simpa [hs] using hm) r hr o ho
    | released o' =>
      simp only [List.mem_cons] at hr
      rcases hr with hr | hr
      · subst hr; injection ho with ho; subst ho; exact hP o' hs rfl
      · exact ih s' (by simpa [hs] using hm) r hr o ho

theorem Ghost.step_released_inv {cfg : Ghost.Cfg ℝ} {s : Ghost.State ℝ} {norms : List ℝ} {z : ℝ} {o : Out ℝ}
    (ho : (Ghost.step cfg s norms z).2 = .released o) :
    10 * s.sigma0 < (norms.length : ℝ) ∧
    o.gradMult = (if 0 < s.sigma0 then sigmaDelta s.sigma0 ((norms.length : ℝ) / 20) else s.sigma0) ∧
    o.countStd = (norms.length : ℝ) / 20 ∧
    o.recorded = (match cfg.acct with | .asCoded => o.gradMult | .repaired => s.sigma0) := by
  unfold Ghost.step at ho
  by_cases h10 : 10 * s.sigma0 < (norms.length : ℝ)
  · rw [Ghost.release_ok cfg s norms _ h10] at ho
    injection ho with ho; subst ho
    exact ⟨h10, rfl, rfl, rfl⟩
  · rw [Ghost.release_err cfg s norms _ h10] at ho; cases ho

end Opacus.C20
