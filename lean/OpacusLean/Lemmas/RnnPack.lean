import OpacusLean.Lemmas.RnnTranspose
import OpacusLean.Lemmas.RnnCsl2
set_option linter.unusedSimpArgs false
namespace Opacus.Rnn
variable {α : Type}

/-! ### `pack_padded_sequence` as a function of the sequences -/

theorem filterMap_range_getElem?_ge (l : List α) (M : Nat) (h : l.length ≤ M) :
    (List.range M).filterMap (l[·]?) = l := by
  obtain ⟨k, rfl⟩ : ∃ k, M = l.length + k := ⟨M - l.length, by omega⟩
  rw [List.range_add, List.filterMap_append, filterMap_range_getElem?]
  have : List.filterMap (fun x => l[x]?) (List.map (fun x => l.length + x) (List.range k)) = [] := by
    rw [List.filterMap_eq_nil_iff]
    intro a ha
    obtain ⟨b, _, rfl⟩ := List.mem_map.mp ha
    exact List.getElem?_eq_none_iff.mpr (by omega)
  rw [this, List.append_nil]

/-- unpacking what was packed: sequence `i` of `packSteps seqs` is `seqs[i]` (lengths non-increasing) -/
theorem seqOf_packSteps {seqs : List (List α)} (hp : (seqs.map List.length).Pairwise (· ≥ ·))
    {i : Nat} {s : List α} (hi : seqs[i]? = some s) : seqOf (packSteps seqs) i = s := by
  have hle : s.length ≤ (seqs.map List.length).foldl max 0 :=
    (foldl_max_ge _ 0).2 _ (List.mem_map_of_mem (List.mem_of_getElem? hi))
  unfold packSteps seqOf
  rw [List.filterMap_map]
  have : ((fun x : List α => x[i]?) ∘ fun (t : Nat) => List.filterMap (fun x => x[t]?) seqs) = fun t => s[t]? := by
    funext t
    have := seqOf_getElem? hp t i
    simp only [seqOf] at this
    simp [Function.comp, this, hi]
  rw [this]
  exact filterMap_range_getElem?_ge s _ hle

theorem shape_packSteps (seqs : List (List α)) :
    (packSteps seqs).map List.length = batchSizes (seqs.map List.length) := by
  unfold packSteps batchSizes
  rw [List.map_map]
  apply List.map_congr_left
  intro t _
  simp only [Function.comp]
  exact length_seqOf seqs t

/-- shape of the batch sizes of non-increasing positive lengths: `B` first, non-increasing -/
theorem batchSizes_form {lens : List Nat} (hne : lens ≠ []) (hp : lens.Pairwise (· ≥ ·))
    (hpos : ∀ l ∈ lens, 0 < l) :
    ∃ rest, batchSizes lens = lens.length :: rest ∧ (lens.length :: rest).Pairwise (· ≥ ·) := by
  obtain ⟨a, l, rfl⟩ : ∃ a l, lens = a :: l := by
    cases lens with
    | nil => exact absurd rfl hne
    | cons a l => exact ⟨a, l, rfl⟩
  obtain ⟨hhead, _⟩ := List.pairwise_cons.mp hp
  have ha : 0 < a := hpos a (by simp)
  have hM : (a :: l).foldl max 0 = a := by
    simp only [List.foldl_cons]; exact foldl_max_head hhead 0 (by omega)
  have hbs : batchSizes (a :: l) = (List.range a).map (fun t => (a :: l).countP (fun x => t < x)) := by
    unfold batchSizes; rw [hM]
  have hpb : (batchSizes (a :: l)).Pairwise (· ≥ ·) := by
    rw [hbs, List.pairwise_map]
    apply List.Pairwise.imp _ (List.pairwise_lt_range (n := a))
    intro t t' htt
    apply List.countP_mono_left
    intro x _ hx; simp at hx ⊢; omega
  obtain ⟨n, rfl⟩ : ∃ n, a = n + 1 := ⟨a - 1, by omega⟩
  have hform : batchSizes ((n + 1) :: l) = (l.length + 1) ::
      (List.range n).map (fun t => ((n + 1) :: l).countP (fun x => t + 1 < x)) := by
    rw [hbs, List.range_succ_eq_map, List.map_cons, List.map_map]
    congr 1
    rw [List.countP_eq_length.mpr]
    · simp
    · intro x hx; have := hpos x hx; simp; omega
  rw [hform] at hpb
  exact ⟨_, hform, hpb⟩

end Opacus.Rnn
