import OpacusLean.Lemmas.RdpReal
import OpacusLean.Lemmas.RdpConversion
/-! Real-number semantics of the accountant model on its regular domain (integer orders ≥ 2,
sample rates in [0,1], positive noise multipliers): the transcribed code returns
`min_α epsOf (Σ_runs steps·rdp(q,σ,α)) α δ`. -/
namespace Opacus.Rdp
open RScalar

@[simp] theorem beq_real (a b : ℝ) : RScalar.beq a b = decide (a = b) := rfl
@[simp] theorem lt_real (a b : ℝ) : RScalar.lt a b = decide (a < b) := rfl
@[simp] theorem ofNat_real (n : ℕ) : (RScalar.ofNat n : ℝ) = (n : ℝ) := rfl
theorem log_real (x : ℝ) : RScalar.log x = Real.log x := rfl

/-- real-valued RDP of one step at integer order `n`, with the code's branches -/
noncomputable def rdpR (q s : ℝ) (n : ℕ) : ℝ :=
  if q = 0 then 0 else if q = 1 then (n : ℝ) / (2 * (s * s))
  else Real.log (sgmSum q (s * s) n) / ((n : ℝ) - 1)

theorem computeRdp1_int (cfg : Cfg ℝ) {q s : ℝ} (hq0 : 0 ≤ q) (hq1 : q ≤ 1) (hs : s ≠ 0) {n : ℕ}
    (hn : 2 ≤ n) : computeRdp1 cfg q s (.int n) = .ok (.fin (rdpR q s n)) := by
  unfold computeRdp1 rdpR
  by_cases h0 : q = 0
  · simp [h0]
  by_cases h1 : q = 1
  · simp [h1, hs, Order.val?]
  have hq0' : 0 < q := lt_of_le_of_ne hq0 (Ne.symm h0)
  have hq1' : q < 1 := lt_of_le_of_ne hq1 h1
  have hn' : ¬ n ≤ 1 := by omega
  have hlt0 : ¬ q < 0 := not_lt.mpr hq0
  have hlt1 : ¬ (1 : ℝ) < q := not_lt.mpr hq1
  simp only [beq_real, ofNat_real, Nat.cast_zero, Nat.cast_one, h0, h1, hs, decide_false,
    Bool.false_eq_true, if_false, hn', lt_real, hlt0, hlt1, Bool.or_self, logAInt_real hq0' hq1']

/-- total real-valued RDP of a history at integer order `n` -/
noncomputable def totR (h : Hist ℝ) (n : ℕ) : ℝ := (h.map fun e => rdpR e.2.1 e.1 n * (e.2.2 : ℝ)).sum

/-- histories the theorems talk about -/
def GoodHist (h : Hist ℝ) : Prop := ∀ e ∈ h, 0 ≤ e.2.1 ∧ e.2.1 ≤ 1 ∧ 0 < e.1

theorem histRdpFrom_int (cfg : Cfg ℝ) {n : ℕ} (hn : 2 ≤ n) (h : Hist ℝ) (hg : GoodHist h) (acc : ℝ) :
    histRdpFrom cfg (.int n) (.fin acc) h = .ok (.fin (acc + totR h n)) := by
  induction h generalizing acc with
  | nil => simp [histRdpFrom, totR]
  | cons e t ih =>
    obtain ⟨h0, h1, hs⟩ := hg e (by simp)
    rw [histRdpFrom, computeRdp1_int cfg h0 h1 hs.ne' hn]
    simp only [EV.mulNat, EV.add]
    rw [show (RScalar.ofNat e.2.2 : ℝ) = (e.2.2 : ℝ) from rfl]
    have := ih (fun x hx => hg x (by simp [hx])) (acc + rdpR e.2.1 e.1 n * (e.2.2 : ℝ))
    rw [show (EV.fin (acc + rdpR e.2.1 e.1 n * (e.2.2 : ℝ)) : EV ℝ)
      = EV.fin (HAdd.hAdd (self := @instHAdd ℝ RScalar.toAdd) acc
          (HMul.hMul (self := @instHMul ℝ RScalar.toMul) (rdpR e.2.1 e.1 n) (e.2.2 : ℝ))) from rfl] at this
    rw [this]
    simp [totR, add_assoc]

theorem histRdp_int (cfg : Cfg ℝ) {n : ℕ} (hn : 2 ≤ n) (h : Hist ℝ) (hg : GoodHist h) :
    histRdp cfg h (.int n) = .ok (.fin (totR h n)) := by
  unfold histRdp
  rw [show (EV.fin (RScalar.ofNat 0) : EV ℝ) = EV.fin (0 : ℝ) by simp]
  rw [histRdpFrom_int cfg hn h hg 0, zero_add]

theorem fin_zero_add (x : EV ℝ) : (EV.fin (0 : ℝ) : EV ℝ).add x = x := by
  cases x with
  | fin a => show EV.fin ((0 : ℝ) + a : ℝ) = EV.fin a; simp
  | pinf => rfl
  | nan => rfl

theorem mapE_congr {α β : Type} {f g : α → Except Err β} (h : ∀ a, f a = g a) (l : List α) :
    mapE f l = mapE g l := by
  have : f = g := funext h
  rw [this]

/-! ### `np.nanargmin` on finite values -/

theorem argmin_fold_fin {β : Type} (l : List (ℝ × β)) (v0 : ℝ) (a0 : β) :
    ∃ v a, (l.map fun p => ((EV.fin p.1 : EV ℝ), p.2)).foldl argminStep (some (EV.fin v0, a0))
        = some (EV.fin v, a)
      ∧ ((v, a) = (v0, a0) ∨ (v, a) ∈ l) ∧ v ≤ v0 ∧ ∀ p ∈ l, v ≤ p.1 := by
  induction l generalizing v0 a0 with
  | nil => exact ⟨v0, a0, rfl, Or.inl rfl, le_refl _, by simp⟩
  | cons p t ih =>
    simp only [List.map_cons, List.foldl_cons]
    by_cases hlt : p.1 < v0
    · have hstep : argminStep (some ((EV.fin v0 : EV ℝ), a0)) (EV.fin p.1, p.2) = some (EV.fin p.1, p.2) := by
        simp [argminStep, nanKey, EV.isNaN, EV.lt, hlt]
      rw [hstep]
      obtain ⟨v, a, he, hm, hle, hall⟩ := ih p.1 p.2
      refine ⟨v, a, he, ?_, le_trans hle hlt.le, ?_⟩
      · rcases hm with h | h
        · right; rw [h]; simp
        · right; simp [h]
      · intro x hx
        rcases List.mem_cons.mp hx with rfl | hx
        · exact hle
        · exact hall x hx
    · have hstep : argminStep (some ((EV.fin v0 : EV ℝ), a0)) (EV.fin p.1, p.2) = some (EV.fin v0, a0) := by
        simp [argminStep, nanKey, EV.isNaN, EV.lt, hlt]
      rw [hstep]
      obtain ⟨v, a, he, hm, hle, hall⟩ := ih v0 a0
      refine ⟨v, a, he, ?_, hle, ?_⟩
      · rcases hm with h | h
        · left; exact h
        · right; simp [h]
      · intro x hx
        rcases List.mem_cons.mp hx with rfl | hx
        · exact le_trans hle (not_lt.mp hlt)
        · exact hall x hx

/-- on a non-empty list of finite values `nanArgmin` returns a least element -/
theorem nanArgmin_fin {β : Type} (l : List (ℝ × β)) (hl : l ≠ []) :
    ∃ v a, nanArgmin (l.map fun p => ((EV.fin p.1 : EV ℝ), p.2)) = some (EV.fin v, a)
      ∧ (v, a) ∈ l ∧ ∀ p ∈ l, v ≤ p.1 := by
  cases l with
  | nil => exact absurd rfl hl
  | cons p t =>
    unfold nanArgmin
    have hall0 : ((((p :: t).map fun p => ((EV.fin p.1 : EV ℝ), p.2))).all fun x => x.1.isNaN) = false := by
      simp [EV.isNaN]
    rw [hall0]
    simp only [Bool.false_eq_true, if_false, List.map_cons, List.foldl_cons]
    have h0 : argminStep (none : Option (EV ℝ × β)) (EV.fin p.1, p.2) = some (EV.fin p.1, p.2) := by
      simp [argminStep]
    rw [h0]
    obtain ⟨v, a, he, hm, hle, hall⟩ := argmin_fold_fin t p.1 p.2
    refine ⟨v, a, he, ?_, ?_⟩
    · rcases hm with h | h
      · rw [h]; simp
      · simp [h]
    · intro x hx
      rcases List.mem_cons.mp hx with rfl | hx
      · exact hle
      · exact hall x hx

/-! ### the accountant on its regular domain -/

theorem epsAt_int (r : ℝ) (n : ℕ) (δ : ℝ) :
    epsAt (EV.fin r) (.int n) δ = EV.fin (epsOf r n δ) := by
  simp [epsAt, Order.val?, epsOf, log_real]

theorem mapE_histRdp_int (cfg : Cfg ℝ) (h : Hist ℝ) (hg : GoodHist h) (ns : List ℕ)
    (hn2 : ∀ n ∈ ns, 2 ≤ n) :
    mapE (histRdp cfg h) (ns.map Order.int) = .ok (ns.map fun n => EV.fin (totR h n)) := by
  induction ns with
  | nil => rfl
  | cons n t ih =>
    simp only [List.map_cons, mapE]
    rw [histRdp_int cfg (hn2 n (by simp)) h hg, ih (fun m hm => hn2 m (by simp [hm]))]

theorem zipWith_eps (h : Hist ℝ) (δ : ℝ) (ns : List ℕ) :
    List.zipWith (fun a r => (epsAt r a δ, a)) (ns.map Order.int) (ns.map fun n => EV.fin (totR h n))
      = (ns.map fun n => (epsOf (totR h n) n δ, (Order.int n : Order ℝ))).map
          fun p => ((EV.fin p.1 : EV ℝ), p.2) := by
  induction ns with
  | nil => rfl
  | cons n t ih => simp only [List.map_cons, List.zipWith_cons_cons, ih, epsAt_int]

/-- **what `RDPAccountant.get_epsilon` computes** on a non-empty history with sample rates in
[0,1], positive noise multipliers and integer orders ≥ 2: the least, over the orders, of the
Balle conversion of the summed RDP — attained at one of the orders. -/
theorem acctEpsilon_int (cfg : Cfg ℝ) (h : Hist ℝ) (hne : h ≠ []) (hg : GoodHist h) (δ : ℝ)
    (ns : List ℕ) (hns : ns ≠ []) (hn2 : ∀ n ∈ ns, 2 ≤ n) :
    ∃ v, acctEpsilon cfg h δ (ns.map Order.int) = .ok (EV.fin v)
      ∧ (∃ n ∈ ns, v = epsOf (totR h n) n δ) ∧ ∀ n ∈ ns, v ≤ epsOf (totR h n) n δ := by
  have hemp : h.isEmpty = false := by cases h with
    | nil => exact absurd rfl hne
    | cons _ _ => rfl
  have hall : (ns.map (Order.int : ℕ → Order ℝ)).all orderOk = true := by
    rw [List.all_eq_true]
    intro a ha
    obtain ⟨n, hn, rfl⟩ := List.mem_map.mp ha
    have : (1 : ℝ) < n := by exact_mod_cast (hn2 n hn)
    simp [orderOk, Order.val?, this]
  set l := ns.map fun n => (epsOf (totR h n) n δ, (Order.int n : Order ℝ)) with hl
  have hlne : l ≠ [] := by simpa [hl] using hns
  obtain ⟨v, a, he, hm, hmin⟩ := nanArgmin_fin l hlne
  refine ⟨v, ?_, ?_, ?_⟩
  · unfold acctEpsilon acctPrivacySpent
    rw [hemp]
    simp only [Bool.false_eq_true, if_false, mapE_histRdp_int cfg h hg ns hn2]
    unfold getPrivacySpent
    simp only [List.length_map, ne_eq, not_true_eq_false, if_false, hall, Bool.not_true,
      Bool.false_eq_true, zipWith_eps]
    rw [← hl, he]
    rfl
  · obtain ⟨n, hn, hp⟩ := List.mem_map.mp hm
    exact ⟨n, hn, (congrArg Prod.fst hp).symm⟩
  · intro n hn
    exact hmin _ (List.mem_map.mpr ⟨n, hn, rfl⟩)

/-- the value is determined by the summed-RDP function -/
theorem acctEpsilon_int_unique {h h' : Hist ℝ} {δ δ' : ℝ} {ns : List ℕ}
    (hle : ∀ n ∈ ns, epsOf (totR h n) n δ ≤ epsOf (totR h' n) n δ') {v v' : ℝ}
    (hv : (∃ n ∈ ns, v = epsOf (totR h n) n δ) ∧ ∀ n ∈ ns, v ≤ epsOf (totR h n) n δ)
    (hv' : (∃ n ∈ ns, v' = epsOf (totR h' n) n δ') ∧ ∀ n ∈ ns, v' ≤ epsOf (totR h' n) n δ') :
    v ≤ v' := by
  obtain ⟨n, hn, rfl⟩ := hv'.1
  exact le_trans (hv.2 n hn) (hle n hn)

end Opacus.Rdp
