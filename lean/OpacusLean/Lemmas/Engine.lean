import OpacusLean.Model.Engine
/-! Helper lemmas about the protocol machine (core Lean only). -/
namespace Opacus.Engine
open List

def unproc (gs : List Flagged) : List Nat := ((gs.filter (!·.processed)).map (·.toks)).flatten

def pendSummed (o : Option Flagged) : List Nat :=
  match o with
  | some f => if f.processed then [] else f.toks
  | none => []

/-- token occurrences that are, or may still become, part of a release (std optimizers) -/
def pending (s : St) : List Nat := pendSummed s.summed ++ unproc s.gs

/-- all tokens released so far, with multiplicity -/
def rel (s : St) : List Nat := (releases s.log).flatten

theorem unproc_of_none_processed {gs : List Flagged} (h : gs.any (·.processed) = false) :
    unproc gs = (gs.map (·.toks)).flatten := by
  unfold unproc
  induction gs with
  | nil => rfl
  | cons a t ih =>
    simp only [List.any_cons, Bool.or_eq_false_iff] at h
    simp only [List.filter_cons, h.1, Bool.not_false, if_true, List.map_cons, List.flatten_cons]
    rw [ih h.2]

theorem unproc_mark (gs : List Flagged) :
    unproc (gs.map (fun f => { f with processed := true })) = [] := by
  unfold unproc
  induction gs with
  | nil => rfl
  | cons a t ih => simp

theorem unproc_append (a b : List Flagged) : unproc (a ++ b) = unproc a ++ unproc b := by
  simp [unproc, List.filter_append, List.map_append, List.flatten_append]

@[simp] theorem unproc_nil : unproc [] = [] := rfl

@[simp] theorem unproc_single_false (t : List Nat) : unproc [⟨t, false⟩] = t := by
  simp [unproc, List.filter_cons]

@[simp] theorem releases_append (a b : List Event) : releases (a ++ b) = releases a ++ releases b := by
  simp [releases, List.filterMap_append]

@[simp] theorem releases_block (σ C σ' k : Nat) (t : List Nat) :
    releases [Event.noise σ C, Event.account σ' k, Event.inner t] = [t] := by
  simp [releases, List.filterMap_cons]

@[simp] theorem releases_noise (σ C : Nat) : releases [Event.noise σ C] = [] := by
  simp [releases, List.filterMap_cons]

theorem mem_fresh {start n t : Nat} : t ∈ fresh start n ↔ start ≤ t ∧ t < start + n := by
  simp only [fresh, List.mem_map, List.mem_range]
  constructor
  · rintro ⟨i, hi, rfl⟩; omega
  · rintro ⟨h1, h2⟩; exact ⟨t - start, by omega, by omega⟩

theorem fresh_nodup (start n : Nat) : (fresh start n).Nodup := by
  unfold fresh
  rw [List.nodup_iff_pairwise_ne, List.pairwise_map]
  exact (List.nodup_iff_pairwise_ne.mp List.nodup_range).imp (by intro a b h; omega)

end Opacus.Engine
