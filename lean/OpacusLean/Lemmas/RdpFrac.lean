import OpacusLean.Lemmas.RdpAcct
import Mathlib.Analysis.Complex.ExponentialBounds
/-! The fractional-order series of `_compute_log_a_for_frac_alpha` at `ℝ`: the as-coded stopping
rule ends the loop at its FIRST term whenever both first terms are below `e^-30`. -/
namespace Opacus.Rdp
open RScalar

/-- as coded (`repaired = false`): if both first terms are below `-30` the loop returns after one
iteration with `log(e^{s0} + e^{s1})` -/
theorem fracLoop_stops_first (lnd : ℝ → ℝ) (q s a z0 : ℝ) (fuel : ℕ)
    (h0 : fracS0 lnd q s a z0 0 1 < -30) (h1 : fracS1 lnd q s a z0 0 1 < -30) :
    fracLoop lnd false q s a z0 (fuel + 1) 0 (1 : ℝ) none none
      = .ok (some (Real.log (Real.exp (fracS0 lnd q s a z0 0 1) + Real.exp (fracS1 lnd q s a z0 0 1)))) := by
  unfold fracLoop
  have hm : (if fracS0 lnd q s a z0 0 1 < fracS1 lnd q s a z0 0 1 then fracS1 lnd q s a z0 0 1
      else fracS0 lnd q s a z0 0 1) < -30 := by split_ifs <;> assumption
  simp only [beq_real, lt_real, ofNat_real, Nat.cast_zero, Nat.cast_one, one_ne_zero, decide_false,
    Bool.false_eq_true, if_false, zero_lt_one, decide_true, if_true, Bool.not_false, Bool.true_or,
    Bool.true_and, decide_eq_true_eq]
  have h30 : ((30 : ℕ) : ℝ) = 30 := by norm_num
  rw [h30]
  simp only [hm, if_true]
  have : logAdd (none : Option ℝ) (some (fracS0 lnd q s a z0 0 1)) = some (fracS0 lnd q s a z0 0 1) := rfl
  have h' : logAdd (none : Option ℝ) (some (fracS1 lnd q s a z0 0 1)) = some (fracS1 lnd q s a z0 0 1) := rfl
  rw [this, h', logAdd_some_real]

theorem log_half_add_log_two : Real.log (1 / 2) + Real.log 2 = 0 := by
  rw [one_div, Real.log_inv]; ring

theorem fracS0_zero_le (lnd : ℝ → ℝ) (hl : ∀ x, lnd x ≤ 0) (q s a z0 : ℝ) :
    fracS0 lnd q s a z0 0 1 ≤ a * Real.log (1 - q) := by
  unfold fracS0 logErfc
  simp only [lt_real, ofNat_real, Nat.cast_zero, Nat.cast_one, not_lt_of_gt zero_lt_one,
    decide_false, Bool.false_eq_true, if_false, log_real, Real.log_one, zero_mul, sub_zero, mul_zero,
    Nat.zero_sub, zero_div, add_zero, zero_add, Nat.cast_ofNat]
  generalize hy : lnd _ = y
  have hy0 : y ≤ 0 := hy ▸ hl _
  have := log_half_add_log_two
  linarith

theorem fracS1_zero_le (lnd : ℝ → ℝ) (hl : ∀ x, lnd x ≤ 0) (q s a z0 : ℝ) :
    fracS1 lnd q s a z0 0 1 ≤ a * Real.log q + (a * a - a) / (2 * (s * s)) := by
  unfold fracS1 logErfc
  simp only [lt_real, ofNat_real, Nat.cast_zero, Nat.cast_one, not_lt_of_gt zero_lt_one,
    decide_false, Bool.false_eq_true, if_false, log_real, Real.log_one, zero_mul, sub_zero,
    add_zero, zero_add, Nat.cast_ofNat]
  generalize hy : lnd _ = y
  have hy0 : y ≤ 0 := hy ▸ hl _
  have := log_half_add_log_two
  linarith

/-- **counterexample (finding C06:frac-series-stops-at-first-term).**  For `q = 1/2`, `σ = 20` and the
fractional order `α = 50.5` the transcribed routine — with ANY oracle for `log_ndtr` that is `≤ 0`,
as a log-probability is — stops after its first term and returns a strictly NEGATIVE RDP value,
whereas a Rényi divergence is never negative. -/
theorem frac_early_stop_witness (lnd : ℝ → ℝ) (hl : ∀ x, lnd x ≤ 0) (fuel : ℕ) :
    ∃ v, computeRdp1 ⟨lnd, fuel + 1, false⟩ (1 / 2) 20 (.frac (101 / 2)) = .ok (.fin v) ∧ v < 0 := by
  have hl2 := Real.log_two_gt_d9
  have hlh : Real.log (1 / 2 : ℝ) = -Real.log 2 := by rw [one_div, Real.log_inv]
  set z0 : ℝ := (20 * 20) * Real.log (1 / (1 / 2) - 1) + 1 / 2 with hz0
  have e0 := fracS0_zero_le lnd hl (1 / 2) 20 (101 / 2) z0
  have e1 := fracS1_zero_le lnd hl (1 / 2) 20 (101 / 2) z0
  have hs0 : fracS0 lnd (1 / 2) 20 (101 / 2) z0 0 1 < -30 := by
    rw [show (1 : ℝ) - 1 / 2 = 1 / 2 by norm_num, hlh] at e0
    norm_num at hl2
    nlinarith
  have hs1 : fracS1 lnd (1 / 2) 20 (101 / 2) z0 0 1 < -30 := by
    rw [hlh] at e1
    norm_num at hl2 e1
    nlinarith
  have hstop := fracLoop_stops_first lnd (1 / 2) 20 (101 / 2) z0 fuel hs0 hs1
  have h1 : ¬ ((1 : ℝ) / 2 = 0) := by norm_num
  have h2 : ¬ ((20 : ℝ) = 0) := by norm_num
  have h3 : ¬ ((1 : ℝ) / 2 = 1) := by norm_num
  have h4 : (1 : ℝ) < 101 / 2 := by norm_num
  have h5 : ¬ ((1 : ℝ) / 2 < 0) := by norm_num
  have h6 : ¬ ((1 : ℝ) < 1 / 2) := by norm_num
  refine ⟨Real.log (Real.exp (fracS0 lnd (1 / 2) 20 (101 / 2) z0 0 1)
      + Real.exp (fracS1 lnd (1 / 2) 20 (101 / 2) z0 0 1)) / (101 / 2 - 1), ?_, ?_⟩
  · unfold computeRdp1 logAFrac
    simp only [beq_real, lt_real, ofNat_real, Nat.cast_zero, Nat.cast_one, h1, h2, h3, h4, h5, h6,
      decide_false, decide_true, Bool.false_eq_true, if_false, Bool.not_true, Bool.or_self]
    have hz : (20 * 20 : ℝ) * RScalar.log (1 / (1 / 2) - 1) + 1 / ((2 : ℕ) : ℝ) = z0 := by
      rw [hz0, log_real]; norm_num
    rw [hz, hstop]
  · apply div_neg_of_neg_of_pos _ (by norm_num)
    apply Real.log_neg (by positivity)
    have b0 : Real.exp (fracS0 lnd (1 / 2) 20 (101 / 2) z0 0 1) < Real.exp (-30) := Real.exp_lt_exp.mpr hs0
    have b1 : Real.exp (fracS1 lnd (1 / 2) 20 (101 / 2) z0 0 1) < Real.exp (-30) := Real.exp_lt_exp.mpr hs1
    have b2 : Real.exp (-30) < 1 / 2 := by
      have : Real.exp (-30) ≤ Real.exp (-1) := Real.exp_le_exp.mpr (by norm_num)
      have h3 : Real.exp (-1) < 1 / 2 := by
        rw [Real.exp_neg, inv_lt_comm₀ (Real.exp_pos 1) (by norm_num)]
        have := Real.exp_one_gt_d9
        norm_num; linarith
      linarith
    linarith

end Opacus.Rdp
