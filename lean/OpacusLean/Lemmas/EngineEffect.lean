import OpacusLean.Lemmas.Engine
/-! One-step effect of every operation of the standard optimizers on (released, pending, next). -/
namespace Opacus.Engine
open List

inductive Effect (s s' : St) : Prop
  | same : rel s' = rel s → (pending s').Sublist (pending s) → s'.next = s.next → Effect s s'
  | fresh (n : Nat) : rel s' = rel s → pending s' = pending s ++ fresh s.next n → s'.next = s.next + n → Effect s s'
  | release : rel s' = rel s ++ pending s → pending s' = [] → s'.next = s.next → Effect s s'

theorem pending_accumulate_unprocessed (summed : Option Flagged) (g : List Nat)
    (h : (accumulateInto summed g).processed = false) :
    (accumulateInto summed g).toks = pendSummed summed ++ g := by
  cases summed with
  | none => simp [accumulateInto, pendSummed]
  | some f =>
    simp only [accumulateInto] at h
    simp [accumulateInto, pendSummed, h]

theorem pendSummed_accumulate_sublist (summed : Option Flagged) (g : List Nat) :
    (pendSummed (some (accumulateInto summed g))).Sublist (pendSummed summed ++ g) := by
  cases summed with
  | none => simp [accumulateInto, pendSummed]
  | some f =>
    by_cases hp : f.processed <;> simp [accumulateInto, pendSummed, hp]

theorem finishStep_effect (c : Cfg) (s : St) (g : List Nat) (gs' : List Flagged) (k : Nat)
    (hg : unproc s.gs = g) (hgs' : unproc gs' = []) :
    Effect s (finishStep c s (accumulateInto s.summed g) gs' k).1 := by
  unfold finishStep
  cases hq : popQueue s.queue with
  | mk skip q' =>
  simp only
  by_cases hskip : skip
  · simp only [hskip, if_true]
    refine Effect.same ?_ ?_ rfl
    · simp [rel]
    · simp only [pending, hgs', List.append_nil, hg]
      exact pendSummed_accumulate_sublist _ _
  · simp only [hskip, Bool.false_eq_true, if_false]
    by_cases hp : (accumulateInto s.summed g).processed
    · simp only [hp, if_true]
      refine Effect.same ?_ ?_ rfl
      · simp [rel]
      · simp [pending, hgs', pendSummed, hp]
    · simp only [hp, Bool.false_eq_true, if_false]
      have hp' : (accumulateInto s.summed g).processed = false := by simpa using hp
      have htoks := pending_accumulate_unprocessed s.summed g hp'
      split
      · -- errGdp
        refine Effect.same ?_ ?_ rfl
        · simp [rel]
        · simp [pending, hgs', pendSummed]
      · refine Effect.release ?_ ?_ rfl
        · simp [rel, pending, hg, htoks, List.append_assoc]
        · simp [pending, hgs', pendSummed]

theorem stepOp_effect (c : Cfg) (hc : c.kind = .std) (s : St) (o : Op) :
    Effect s (stepOp c s o).1 := by
  cases o with
  | signal b => exact Effect.same rfl (List.Sublist.refl _) rfl
  | setSigma v => exact Effect.same rfl (List.Sublist.refl _) rfl
  | setClip v => exact Effect.same rfl (List.Sublist.refl _) rfl
  | optZeroGrad =>
    refine Effect.same rfl ?_ rfl
    simp only [stepOp, optZero, pending, unproc_nil, List.append_nil]
    by_cases h : s.lastSkipped <;> simp [h, pendSummed]
  | modZeroGrad =>
    refine Effect.same rfl ?_ rfl
    simp [stepOp, pending]
  | fwdBwd n =>
    simp only [stepOp, hc]
    split <;> exact Effect.fresh n rfl (by simp [pending, unproc_append, List.append_assoc]) rfl
  | step =>
    simp only [stepOp, hc]
    split
    · exact Effect.same rfl (List.Sublist.refl _) rfl
    · split
      · exact Effect.same rfl (List.Sublist.refl _) rfl
      · rename_i hne hany
        have hany' : s.gs.any (·.processed) = false := by simpa using hany
        exact finishStep_effect c s _ _ _ (unproc_of_none_processed hany') (unproc_mark _)

end Opacus.Engine
