import OpacusLean.Lemmas.PrvCentred
/-! `polyProd`, `totalCount`, `weightedRad` as products / sums over the zipped group list (so that a joint
permutation of the groups visibly leaves them unchanged). -/
namespace Opacus.Prv
open Finset Polynomial
variable {R : Type} [CommRing R]

theorem polyProd_eq_zip (ds : List (DPrv R)) (ns : List ℕ) :
    polyProd ds ns = ((ds.zip ns).map (fun p => toPoly p.1.pmf ^ p.2)).prod := by
  induction ds generalizing ns with
  | nil => simp [polyProd]
  | cons d ds ih =>
    cases ns with
    | nil => simp [polyProd]
    | cons n ns => simp [polyProd, ih]

omit [CommRing R] in
theorem totalCount_eq_zip (ds : List (DPrv R)) (ns : List ℕ) :
    totalCount ds ns = ((ds.zip ns).map (fun p => p.2)).sum := by
  induction ds generalizing ns with
  | nil => simp [totalCount]
  | cons d ds ih =>
    cases ns with
    | nil => simp [totalCount]
    | cons n ns => simp [totalCount, ih]

omit [CommRing R] in
theorem weightedRad_eq_zip (rad : DPrv R → ℕ) (ds : List (DPrv R)) (ns : List ℕ) :
    weightedRad rad ds ns = ((ds.zip ns).map (fun p => p.2 * rad p.1)).sum := by
  induction ds generalizing ns with
  | nil => simp [weightedRad]
  | cons d ds ih =>
    cases ns with
    | nil => simp [weightedRad]
    | cons n ns => simp [weightedRad, ih]

end Opacus.Prv

