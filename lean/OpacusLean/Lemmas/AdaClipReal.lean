import OpacusLean.Model.AdaClip
import Mathlib.Analysis.SpecialFunctions.Pow.Real
import Mathlib.Tactic.Linarith
import Mathlib.Tactic.Positivity
import Mathlib.Tactic.FieldSimp
import Mathlib.Tactic.Ring
/-! Real-number instance of the adaptive-clipping model and the analytic facts used by
`Props/C20.lean` (σ-split of Andrew et al. Thm 1, clamp, count predicates). -/
namespace Opacus.AdaClip

noncomputable instance instAnalyticReal : Analytic ℝ := ⟨Real.exp, Real.sqrt⟩

/-- nominal multiplier of the combined release (noisy clipped sum with multiplier `a`, noisy count
with std `b`): `(a⁻² + (2b)⁻²)^(−1/2)` (Andrew et al. 2021, Thm 1 — cited) -/
noncomputable def nominalSigma (a b : ℝ) : ℝ := 1 / Real.sqrt (1 / (a * a) + 1 / ((2 * b) * (2 * b)))

theorem sigmaDelta_real (σ σb : ℝ) :
    sigmaDelta σ σb = 1 / Real.sqrt (1 / (σ * σ) - 1 / ((2 * σb) * (2 * σb))) := by
  simp [sigmaDelta, Analytic.sqrt]

theorem splitDefined_iff (σ σb : ℝ) : splitDefined σ σb = true ↔ 0 < σ ∧ 0 < σb ∧ σ < 2 * σb := by
  simp [splitDefined, and_assoc]

theorem geoUpdate_real (C η γ f : ℝ) : geoUpdate C η γ f = C * Real.exp (-η * (f - γ)) := by
  simp [geoUpdate, Analytic.exp]

/-- the radicand is positive exactly when `σ < 2σ_b` -/
theorem radicand_pos_iff {σ σb : ℝ} (hσ : 0 < σ) (hb : 0 < σb) :
    0 < 1 / (σ * σ) - 1 / ((2 * σb) * (2 * σb)) ↔ σ < 2 * σb := by
  have h2 : 0 < 2 * σb := by positivity
  rw [sub_pos, one_div_lt_one_div (by positivity) (by positivity)]
  constructor
  · intro h
    by_contra hc
    push Not at hc
    nlinarith
  · intro h
    nlinarith

theorem sigmaDelta_pos {σ σb : ℝ} (hσ : 0 < σ) (hb : 0 < σb) (h : σ < 2 * σb) : 0 < sigmaDelta σ σb := by
  rw [sigmaDelta_real]
  have := (radicand_pos_iff hσ hb).mpr h
  positivity

theorem sigmaDelta_sq {σ σb : ℝ} (hσ : 0 < σ) (hb : 0 < σb) (h : σ < 2 * σb) :
    1 / (sigmaDelta σ σb * sigmaDelta σ σb) = 1 / (σ * σ) - 1 / ((2 * σb) * (2 * σb)) := by
  rw [sigmaDelta_real]
  have hx := (radicand_pos_iff hσ hb).mpr h
  have hs : Real.sqrt (1 / (σ * σ) - 1 / ((2 * σb) * (2 * σb))) * Real.sqrt (1 / (σ * σ) - 1 / ((2 * σb) * (2 * σb)))
      = 1 / (σ * σ) - 1 / ((2 * σb) * (2 * σb)) := Real.mul_self_sqrt hx.le
  rw [div_mul_div_comm, hs]
  simp

theorem nominalSigma_sigmaDelta {σ σb : ℝ} (hσ : 0 < σ) (hb : 0 < σb) (h : σ < 2 * σb) :
    nominalSigma (sigmaDelta σ σb) σb = σ := by
  unfold nominalSigma
  rw [sigmaDelta_sq hσ hb h, sub_add_cancel]
  rw [show (1 : ℝ) / (σ * σ) = (1 / σ) * (1 / σ) by field_simp]
  rw [Real.sqrt_mul_self (by positivity)]
  field_simp

theorem sigma_lt_sigmaDelta {σ σb : ℝ} (hσ : 0 < σ) (hb : 0 < σb) (h : σ < 2 * σb) :
    σ < sigmaDelta σ σb := by
  have hp := sigmaDelta_pos hσ hb h
  have hsq := sigmaDelta_sq hσ hb h
  have hb2 : 0 < 1 / ((2 * σb) * (2 * σb)) := by positivity
  have hlt : 1 / (sigmaDelta σ σb * sigmaDelta σ σb) < 1 / (σ * σ) := by rw [hsq]; linarith
  rw [one_div_lt_one_div (by positivity) (by positivity)] at hlt
  by_contra hc
  push Not at hc
  nlinarith

/-- `(σ⁻² − (2σ_b)⁻²)^(−1/2)` literally, with real powers -/
theorem sigmaDelta_eq_rpow {σ σb : ℝ} (hσ : 0 < σ) (hb : 0 < σb) (h : σ < 2 * σb) :
    sigmaDelta σ σb = (σ ^ (-2 : ℝ) - (2 * σb) ^ (-2 : ℝ)) ^ (-(1 / 2) : ℝ) := by
  have h2 : 0 < 2 * σb := by positivity
  have e1 : σ ^ (-2 : ℝ) = 1 / (σ * σ) := by
    rw [Real.rpow_neg hσ.le, show (2 : ℝ) = ((2 : ℕ) : ℝ) by norm_num, Real.rpow_natCast]; simp [pow_two]
  have e2 : (2 * σb) ^ (-2 : ℝ) = 1 / ((2 * σb) * (2 * σb)) := by
    rw [Real.rpow_neg h2.le, show (2 : ℝ) = ((2 : ℕ) : ℝ) by norm_num, Real.rpow_natCast]; simp [pow_two]
  have hx := (radicand_pos_iff hσ hb).mpr h
  rw [sigmaDelta_real, e1, e2, Real.rpow_neg hx.le, Real.sqrt_eq_rpow, one_div]

/-! ### clamp and count predicates over ℝ -/

theorem Ada.clamp_eq {lo hi : ℝ} (h : lo < hi) (c : ℝ) : Ada.clamp lo hi c = max lo (min hi c) := by
  unfold Ada.clamp
  split_ifs with h1 h2
  · rw [min_eq_left h1.le, max_eq_right h.le]
  · rw [min_eq_right (by linarith), max_eq_left h2.le]
  · push Not at h1 h2
    rw [min_eq_right h1, max_eq_right h2]

theorem Ghost.clamp_eq {lo hi : ℝ} (h : lo ≤ hi) (c : ℝ) : Ghost.clamp lo hi c = max lo (min hi c) := by
  unfold Ghost.clamp
  by_cases h1 : c < lo
  · simp only [h1, if_true]
    rw [if_neg (not_lt.mpr h), min_eq_right (by linarith), max_eq_left h1.le]
  · simp only [h1, if_false]
    push Not at h1
    split_ifs with h2
    · rw [min_eq_left h2.le, max_eq_right h]
    · push Not at h2
      rw [min_eq_right h2, max_eq_right h1]

/-- AdaClip: a sample is counted as unclipped iff `norm + 1e-6 ≤ C` -/
theorem Ada.unclipped_iff {eps C n : ℝ} (hpos : 0 < n + eps) :
    (!(decide (Ada.factor eps C n < ((1 : ℕ) : ℝ)))) = decide (n + eps ≤ C) := by
  have hq : C / (n + eps) < 1 ↔ C < n + eps := div_lt_one hpos
  unfold Ada.factor
  simp only [Nat.cast_one]
  by_cases h1 : 1 < C / (n + eps)
  · have : n + eps ≤ C := by
      have := (one_lt_div hpos).mp h1; linarith
    simp [h1, this]
  · simp only [h1, if_false]
    by_cases h2 : C / (n + eps) < 1
    · have := hq.mp h2
      simp [h2, not_le.mpr this]
    · have : n + eps ≤ C := not_lt.mp (fun h => h2 (hq.mpr h))
      simp [h2, this]

theorem Ada.unclippedCount_eq {eps C : ℝ} {norms : List ℝ} (heps : 0 < eps) (hn : ∀ n ∈ norms, 0 ≤ n) :
    Ada.unclippedCount eps C norms = norms.countP (fun n => decide (n + eps ≤ C)) := by
  unfold Ada.unclippedCount
  apply List.countP_congr
  intro n hmem
  have := Ada.unclipped_iff (C := C) (show 0 < n + eps by have := hn n hmem; linarith)
  rw [this]

end Opacus.AdaClip
