import OpacusLean.Model.GradSample
import Mathlib.Algebra.BigOperators.Fin
import Mathlib.Algebra.BigOperators.Ring.Finset
import Mathlib.Algebra.BigOperators.Pi
import Mathlib.Algebra.BigOperators.Field
import Mathlib.Tactic.Ring
/-! Helper lemmas for C01: the `sumFin` bridge to `Finset.sum` and uniqueness of adjoints. -/
namespace Opacus.GS

theorem sumFin_eq_sum {R} [AddCommMonoid R] (n : Nat) (f : Fin n → R) :
    sumFin n f = ∑ i, f i := by
  unfold sumFin
  induction n with
  | zero => simp [Fin.foldl_zero]
  | succ n ih => rw [Fin.foldl_succ_last, Fin.sum_univ_castSucc, ← ih]

/-- a covector is determined by its pairings: `⟨g,θ⟩ = ⟨g',θ⟩` for all `θ` forces `g = g'` -/
theorem adjoint_unique {R} [CommRing R] {ι : Type} [Fintype ι] [DecidableEq ι] (g g' : ι → R)
    (h : ∀ θ : ι → R, ∑ i, g i * θ i = ∑ i, g' i * θ i) : g = g' := by
  funext i
  have := h (fun j => if j = i then 1 else 0)
  simpa [Finset.sum_ite_eq', Finset.mem_univ, mul_ite] using this

theorem adjoint_unique₂ {R} [CommRing R] {m n : Nat} (g g' : Fin m → Fin n → R)
    (h : ∀ θ : Fin m → Fin n → R, ∑ i, ∑ j, g i j * θ i j = ∑ i, ∑ j, g' i j * θ i j) : g = g' := by
  have := adjoint_unique (ι := Fin m × Fin n) (fun p => g p.1 p.2) (fun p => g' p.1 p.2) (by
    intro θ
    have := h (fun i j => θ (i, j))
    simpa [Fintype.sum_prod_type] using this)
  funext i j
  exact congrFun this (i, j)

theorem adjoint_unique₃ {R} [CommRing R] {m n k : Nat} (g g' : Fin m → Fin n → Fin k → R)
    (h : ∀ θ : Fin m → Fin n → Fin k → R,
      ∑ i, ∑ j, ∑ l, g i j l * θ i j l = ∑ i, ∑ j, ∑ l, g' i j l * θ i j l) : g = g' := by
  have := adjoint_unique (ι := Fin m × Fin n × Fin k) (fun p => g p.1 p.2.1 p.2.2) (fun p => g' p.1 p.2.1 p.2.2) (by
    intro θ
    have := h (fun i j l => θ (i, j, l))
    simpa [Fintype.sum_prod_type] using this)
  funext i j l
  exact congrFun this (i, j, l)

theorem adjoint_unique₄ {R} [CommRing R] {m n k q : Nat} (g g' : Fin m → Fin n → Fin k → Fin q → R)
    (h : ∀ θ : Fin m → Fin n → Fin k → Fin q → R,
      ∑ i, ∑ j, ∑ l, ∑ r, g i j l r * θ i j l r = ∑ i, ∑ j, ∑ l, ∑ r, g' i j l r * θ i j l r) : g = g' := by
  have := adjoint_unique (ι := Fin m × Fin n × Fin k × Fin q)
    (fun p => g p.1 p.2.1 p.2.2.1 p.2.2.2) (fun p => g' p.1 p.2.1 p.2.2.1 p.2.2.2) (by
    intro θ
    have := h (fun i j l r => θ (i, j, l, r))
    simpa [Fintype.sum_prod_type] using this)
  funext i j l r
  exact congrFun this (i, j, l, r)

end Opacus.GS
