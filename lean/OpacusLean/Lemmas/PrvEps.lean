import OpacusLean.Lemmas.PrvBasic
import Mathlib.Analysis.SpecialFunctions.Log.Basic
import Mathlib.Analysis.Real.Sqrt
import Mathlib.Algebra.Order.Round
/-! `compute_epsilon` over ℝ: the value returned by `find_epsilon` inverts the hockey-stick
divergence of the discrete distribution exactly. -/
namespace Opacus.Prv
open Finset

noncomputable instance instAnalyticReal : Analytic ℝ where
  exp := Real.exp
  log := Real.log
  sqrt := Real.sqrt
  abs := fun x => |x|
  floor := Int.floor
  ceil := Int.ceil
  round := round

/-- `δ_p(ε) = Σ_j p_j · max(0, 1 − e^{ε − t_j})`: the hockey-stick divergence at `ε` of the
distribution putting mass `p_j` on privacy loss `t_j` -/
noncomputable def hockey (n : ℕ) (t p : ℕ → ℝ) (ε : ℝ) : ℝ :=
  ∑ j ∈ range n, p j * max 0 (1 - Real.exp (ε - t j))

theorem hockey_antitone (n : ℕ) (t p : ℕ → ℝ) (hp : ∀ j, 0 ≤ p j) {a b : ℝ} (h : a ≤ b) :
    hockey n t p b ≤ hockey n t p a := by
  unfold hockey
  refine Finset.sum_le_sum fun j _ => mul_le_mul_of_nonneg_left ?_ (hp j)
  have : Real.exp (a - t j) ≤ Real.exp (b - t j) := Real.exp_le_exp.mpr (by linarith)
  exact max_le_max le_rfl (by linarith)

section tables
variable (n : ℕ) (t p : ℕ → ℝ)

theorem d1_eq (i : ℕ) (hi : i ≤ n) : (epsTables n t p).d1 i = ∑ j ∈ Ico i n, p j := by
  simp only [epsTables, rcs_eq_sum]; rw [Nat.add_sub_cancel' hi]

theorem d2_eq (i : ℕ) (hi : i ≤ n) :
    (epsTables n t p).d2 i = ∑ j ∈ Ico i n, p j * Real.exp (-(t j)) := by
  simp only [epsTables, rcs_eq_sum]; rw [Nat.add_sub_cancel' hi]; rfl

theorem ndelta_eq (i : ℕ) :
    (epsTables n t p).ndelta i = Real.exp (t i) * (epsTables n t p).d2 i - (epsTables n t p).d1 i := rfl

end tables

/-- **find_epsilon inverts the hockey stick.**  If `find_epsilon(δ)` returns `ε` (no exception) on a
non-negative pmf over a strictly increasing grid, then with `i` the index chosen by `searchsorted`:
`0 < i < n`, `t_{i-1} < ε ≤ t_i`, and `δ_p(ε) = δ` exactly. -/
theorem findEpsilon_spec (n : ℕ) (t p : ℕ → ℝ) (δ ε : ℝ)
    (hp : ∀ j, 0 ≤ p j) (ht : ∀ i j, i < j → j < n → t i < t j)
    (h : findEpsilon n t p δ = .ok ε) :
    let i := searchsortedLeft (epsTables n t p).ndelta n (-δ)
    0 < i ∧ i < n ∧ t (i - 1) < ε ∧ ε ≤ t i ∧ hockey n t p ε = δ := by
  intro i
  obtain ⟨_, hL, hH⟩ := searchsortedLeft_spec (epsTables n t p).ndelta n (-δ)
  have hdef : findEpsilon n t p δ =
      if i = 0 then .error .cannotCompute else if n ≤ i then .error .indexError
      else .ok (Real.log (((epsTables n t p).d1 i - δ) / (epsTables n t p).d2 i)) := rfl
  rw [hdef] at h
  by_cases hi0 : i = 0
  · simp [hi0] at h
  by_cases hin : n ≤ i
  · simp [hi0, hin] at h
  simp only [hi0, hin, if_false] at h
  have hε : ε = Real.log (((epsTables n t p).d1 i - δ) / (epsTables n t p).d2 i) := by
    injection h with h; exact h.symm
  have hin' : i < n := Nat.lt_of_not_le hin
  have hipos : 0 < i := Nat.pos_of_ne_zero hi0
  have hL' : (epsTables n t p).ndelta (i - 1) < -δ := hL.resolve_left hi0
  have hH' : -δ ≤ (epsTables n t p).ndelta i := not_lt.mp (hH.resolve_left (by omega))
  set D1 := (epsTables n t p).d1 i with hD1
  set D2 := (epsTables n t p).d2 i with hD2
  have hD1e : D1 = ∑ j ∈ Ico i n, p j := d1_eq n t p i hin'.le
  have hD2e : D2 = ∑ j ∈ Ico i n, p j * Real.exp (-(t j)) := d2_eq n t p i hin'.le
  -- the entry below: the `p_{i-1}` terms cancel
  have hprev : (epsTables n t p).ndelta (i - 1) = Real.exp (t (i - 1)) * D2 - D1 := by
    rw [ndelta_eq, d1_eq n t p (i - 1) (by omega), d2_eq n t p (i - 1) (by omega), hD1e, hD2e]
    rw [Finset.sum_eq_sum_Ico_succ_bot (by omega : i - 1 < n), Finset.sum_eq_sum_Ico_succ_bot (by omega : i - 1 < n)]
    rw [show i - 1 + 1 = i by omega]
    have : Real.exp (t (i - 1)) * (p (i - 1) * Real.exp (-(t (i - 1)))) = p (i - 1) := by
      rw [mul_comm (p (i - 1)), ← mul_assoc, ← Real.exp_add]; simp
    rw [mul_add, this]; ring
  have hcur : (epsTables n t p).ndelta i = Real.exp (t i) * D2 - D1 := rfl
  have hD2nn : 0 ≤ D2 := by
    rw [hD2e]; exact Finset.sum_nonneg fun j _ => mul_nonneg (hp j) (Real.exp_pos _).le
  have hE1 : Real.exp (t (i - 1)) * D2 < D1 - δ := by rw [hprev] at hL'; linarith
  have hE2 : D1 - δ ≤ Real.exp (t i) * D2 := by rw [hcur] at hH'; linarith
  have hEpos : 0 < D1 - δ := lt_of_le_of_lt (mul_nonneg (Real.exp_pos _).le hD2nn) hE1
  have hD2pos : 0 < D2 := by
    rcases hD2nn.lt_or_eq with h | h
    · exact h
    · rw [← h] at hE2; linarith
  have hexp : Real.exp ε = (D1 - δ) / D2 := by rw [hε, Real.exp_log (div_pos hEpos hD2pos)]
  have hlo : t (i - 1) < ε := by
    rw [← Real.exp_lt_exp, hexp, lt_div_iff₀ hD2pos]; exact hE1
  have hhi : ε ≤ t i := by
    rw [← Real.exp_le_exp, hexp, div_le_iff₀ hD2pos]; exact hE2
  refine ⟨hipos, hin', hlo, hhi, ?_⟩
  -- the hockey stick: bins below `i` contribute 0, bins from `i` on contribute `p_j (1 - e^ε e^{-t_j})`
  unfold hockey
  rw [Finset.range_eq_Ico, ← Finset.sum_Ico_consecutive _ (Nat.zero_le i) hin'.le]
  have hlow : ∑ j ∈ Ico 0 i, p j * max 0 (1 - Real.exp (ε - t j)) = 0 := by
    refine Finset.sum_eq_zero fun j hj => ?_
    have hj' : j < i := (Finset.mem_Ico.mp hj).2
    have htj : t j ≤ t (i - 1) := by
      rcases Nat.lt_or_ge j (i - 1) with h | h
      · exact (ht j (i - 1) h (by omega)).le
      · have : j = i - 1 := by omega
        rw [this]
    have : 1 ≤ Real.exp (ε - t j) := Real.one_le_exp (by linarith)
    rw [max_eq_left (by linarith), mul_zero]
  have hupp : ∑ j ∈ Ico i n, p j * max 0 (1 - Real.exp (ε - t j)) = D1 - Real.exp ε * D2 := by
    rw [hD1e, hD2e, Finset.mul_sum, ← Finset.sum_sub_distrib]
    refine Finset.sum_congr rfl fun j hj => ?_
    obtain ⟨hj1, hj2⟩ := Finset.mem_Ico.mp hj
    have htj : t i ≤ t j := by
      rcases Nat.lt_or_ge i j with h | h
      · exact (ht i j h hj2).le
      · have : j = i := by omega
        rw [this]
    have : Real.exp (ε - t j) ≤ 1 := Real.exp_le_one_iff.mpr (by linarith)
    rw [max_eq_right (by linarith), sub_eq_add_neg ε, Real.exp_add]; ring
  rw [hlow, hupp, hexp, div_mul_cancel₀ _ hD2pos.ne']; ring

/-- `find_epsilon` is antitone in its target -/
theorem findEpsilon_antitone (n : ℕ) (t p : ℕ → ℝ) (δ₁ δ₂ ε₁ ε₂ : ℝ)
    (hp : ∀ j, 0 ≤ p j) (ht : ∀ i j, i < j → j < n → t i < t j)
    (h₁ : findEpsilon n t p δ₁ = .ok ε₁) (h₂ : findEpsilon n t p δ₂ = .ok ε₂) (hδ : δ₂ ≤ δ₁) :
    ε₁ ≤ ε₂ := by
  rcases hδ.lt_or_eq with hlt | heq
  · by_contra hcon
    have hcon : ε₂ ≤ ε₁ := (not_le.mp hcon).le
    have e₁ := (findEpsilon_spec n t p δ₁ ε₁ hp ht h₁).2.2.2.2
    have e₂ := (findEpsilon_spec n t p δ₂ ε₂ hp ht h₂).2.2.2.2
    have := hockey_antitone n t p hp hcon
    rw [e₁, e₂] at this
    linarith
  · subst heq
    rw [h₁] at h₂
    injection h₂ with h; exact h.le

end Opacus.Prv
