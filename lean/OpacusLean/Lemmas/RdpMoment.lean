import OpacusLean.Lemmas.RdpReal
import Mathlib.Probability.Distributions.Gaussian.Real
/-! Measure-theoretic facts behind the RDP accountant (promoted from `notes/spikes/RdpMoment.lean`):
the order-α moment `∫ (dP/dQ)^α dQ` of the canonical pair of the sampled Gaussian mechanism,
`Q = N(0,σ²)`, `P = (1−q)·N(0,σ²) + q·N(1,σ²)`. -/
namespace Opacus.Rdp
open MeasureTheory ProbabilityTheory Real Finset
open scoped NNReal ENNReal

lemma integral_exp_mul_gaussian (v : ℝ≥0) (t : ℝ) :
    ∫ x, rexp (t * x) ∂(gaussianReal 0 v) = rexp (v * t ^ 2 / 2) := by
  have h := mgf_gaussianReal (p := gaussianReal 0 v) (X := id) (μ := 0) (v := v) (by simp) t
  simpa [mgf] using h

/-- `dP/dQ` at `x` for `P = (1−q)N(0,v) + qN(1,v)`, `Q = N(0,v)` -/
noncomputable def ratio (q v x : ℝ) : ℝ := (1 - q) + q * rexp ((2 * x - 1) / (2 * v))

theorem ratio_nonneg {q : ℝ} (hq0 : 0 ≤ q) (hq1 : q ≤ 1) (v x : ℝ) : 0 ≤ ratio q v x := by
  unfold ratio
  have : 0 ≤ 1 - q := by linarith
  positivity

/-- `ratio` really is the ratio of the two densities -/
theorem ratio_mul_pdf (q : ℝ) (v : ℝ≥0) (hv : v ≠ 0) (x : ℝ) :
    (1 - q) * gaussianPDFReal 0 v x + q * gaussianPDFReal 1 v x
      = ratio q v x * gaussianPDFReal 0 v x := by
  have hv' : (v : ℝ) ≠ 0 := by exact_mod_cast hv
  simp only [gaussianPDFReal, ratio]
  have : rexp (-(x - 1) ^ 2 / (2 * v)) = rexp ((2 * x - 1) / (2 * v)) * rexp (-(x - 0) ^ 2 / (2 * v)) := by
    rw [← Real.exp_add]; congr 1; field_simp; ring
  rw [this]; ring

theorem sgm_moment_int' (q : ℝ) (s2 : ℝ≥0) (hs : (s2 : ℝ) ≠ 0) (α : ℕ) :
    ∫ x, (ratio q s2 x) ^ α ∂(gaussianReal 0 s2)
      = ∑ k ∈ range (α + 1),
          (α.choose k : ℝ) * (1 - q) ^ (α - k) * q ^ k * rexp (((k:ℝ) ^ 2 - k) / (2 * s2)) := by
  have hexp : ∀ (k : ℕ) (x : ℝ), (q * rexp ((2 * x - 1) / (2 * s2))) ^ k
      = q ^ k * rexp (-(k:ℝ) / (2 * s2)) * rexp ((k:ℝ) / s2 * x) := by
    intro k x
    rw [mul_pow, ← Real.exp_nat_mul, mul_assoc, ← Real.exp_add]
    congr 2
    field_simp
    ring
  have hint : ∀ k : ℕ, Integrable (fun x => (q * rexp ((2 * x - 1) / (2 * s2))) ^ k * (1 - q) ^ (α - k) * (α.choose k : ℝ)) (gaussianReal 0 s2) := by
    intro k
    simp_rw [hexp]
    have := (integrable_exp_mul_gaussianReal (μ := 0) (v := s2) ((k:ℝ) / s2))
    exact ((this.const_mul (q ^ k * rexp (-(k:ℝ) / (2 * s2)))).mul_const _).mul_const _
  simp_rw [ratio, add_comm (1 - q), add_pow]
  rw [integral_finsetSum _ (fun k _ => hint k)]
  refine Finset.sum_congr rfl fun k _ => ?_
  simp_rw [hexp]
  rw [integral_mul_const, integral_mul_const, integral_const_mul, integral_exp_mul_gaussian]
  have : rexp (-(k:ℝ) / (2 * s2)) * rexp (s2 * ((k:ℝ) / s2) ^ 2 / 2) = rexp (((k:ℝ) ^ 2 - k) / (2 * s2)) := by
    rw [← Real.exp_add]; congr 1; field_simp; ring
  rw [mul_assoc (q ^ k), this]; ring

theorem integrable_ratio_pow (q : ℝ) (v : ℝ≥0) (hv : v ≠ 0) (α : ℕ) :
    Integrable (fun x => (ratio q v x) ^ α) (gaussianReal 0 v) := by
  have hv' : (v : ℝ) ≠ 0 := by exact_mod_cast hv
  have hexp : ∀ (k : ℕ) (x : ℝ), (q * rexp ((2 * x - 1) / (2 * v))) ^ k
      = q ^ k * rexp (-(k:ℝ) / (2 * v)) * rexp ((k:ℝ) / v * x) := by
    intro k x
    rw [mul_pow, ← Real.exp_nat_mul, mul_assoc, ← Real.exp_add]
    congr 2
    field_simp
    ring
  have hint : ∀ k : ℕ, Integrable (fun x => (q * rexp ((2 * x - 1) / (2 * v))) ^ k * (1 - q) ^ (α - k) * (α.choose k : ℝ)) (gaussianReal 0 v) := by
    intro k
    simp_rw [hexp]
    have := (integrable_exp_mul_gaussianReal (μ := 0) (v := v) ((k:ℝ) / v))
    exact ((this.const_mul (q ^ k * rexp (-(k:ℝ) / (2 * v)))).mul_const _).mul_const _
  simp_rw [ratio, add_comm (1 - q), add_pow]
  exact integrable_finsetSum _ (fun k _ => hint k)

theorem integrable_ratio (q : ℝ) (v : ℝ≥0) (hv : v ≠ 0) :
    Integrable (fun x => ratio q v x) (gaussianReal 0 v) := by
  simpa using integrable_ratio_pow q v hv 1

/-- integer-order moment of the sampled Gaussian mechanism = the binomial sum `A_α` -/
theorem sgm_moment_eq_sgmSum (q : ℝ) (v : ℝ≥0) (hv : v ≠ 0) (α : ℕ) :
    ∫ x, (ratio q v x) ^ α ∂(gaussianReal 0 v) = sgmSum q v α := by
  have hv' : (v : ℝ) ≠ 0 := by exact_mod_cast hv
  rw [sgm_moment_int' q v hv' α]; rfl

/-- order-`a` moment of the plain Gaussian mechanism (`q = 1`), any real order -/
theorem gaussian_moment (v : ℝ≥0) (hv : v ≠ 0) (a : ℝ) :
    ∫ x, (rexp ((2 * x - 1) / (2 * v))) ^ a ∂(gaussianReal 0 v) = rexp ((a ^ 2 - a) / (2 * v)) := by
  have hv' : (v : ℝ) ≠ 0 := by exact_mod_cast hv
  have h : ∀ x : ℝ, (rexp ((2 * x - 1) / (2 * v))) ^ a = rexp (-a / (2 * v)) * rexp (a / v * x) := by
    intro x
    rw [← Real.exp_mul, ← Real.exp_add]; congr 1; field_simp; ring
  simp_rw [h]
  rw [integral_const_mul, integral_exp_mul_gaussian, ← Real.exp_add]
  congr 1; field_simp; ring

end Opacus.Rdp
