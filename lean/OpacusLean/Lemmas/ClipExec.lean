import OpacusLean.Model.Clip
/-! The array-backed executable forms equal the function-typed model (any scalar type). -/
namespace Opacus.Clip

variable {R : Type} {P : Nat} {d : Fin P → Nat}

@[simp] theorem lookup_store [Zero R] (g : Grad R d) : lookup d (store g) = g := by
  funext k i
  simp [lookup, store, Array.getD]

@[simp] theorem lookupVec_storeVec [Zero R] {n : Nat} (v : Fin n → R) :
    lookupVec (storeVec v) = v := by
  funext i
  simp [lookupVec, storeVec, Array.getD]

variable [Add R] [Mul R] [Div R] [Zero R] [One R] [Min R] [OfScientific R] [HasSqrt R]

theorem clippedExec_store (m : Mode R P) (g : Grad R d) :
    clippedExec d m (store g) = store (clipped m g) := by
  simp [clippedExec, clipped]

theorem batchSumExec_store (m : Mode R P) (batch : List (Grad R d)) :
    batchSumExec d m (batch.map store) = store (batchSum m batch) := by
  unfold batchSumExec batchSum
  generalize (gzero : Grad R d) = a
  induction batch generalizing a with
  | nil => rfl
  | cons g gs ih =>
    simp only [List.map_cons, List.foldl_cons, clippedExec_store, lookup_store]
    exact ih _

/-- what the drivers run is the model's `clip_and_accumulate` -/
theorem clipAndAccumulateExec_store (m : Mode R P) (sg : Option (Grad R d))
    (batch : List (Grad R d)) :
    clipAndAccumulateExec d m (sg.map store) (batch.map store)
      = (clipAndAccumulate m sg batch).map store := by
  unfold clipAndAccumulateExec clipAndAccumulate
  rw [batchSumExec_store]
  cases sg <;> simp [accumulateExec, accumulate]

end Opacus.Clip
