import OpacusLean.Model.Clip
import OpacusLean.Model.GhostNorm
import OpacusLean.Model.ClipStep
set_option linter.unusedSectionVars false
/-! The array-backed executable forms equal the function-typed model (any scalar type). -/
namespace Opacus.Clip

variable {R : Type} {P : Nat} {d : Fin P → Nat}

@[simp] theorem lookup_store [Zero R] (g : Grad R d) : lookup d (store g) = g := by
  funext k i
  simp [lookup, store, Array.getD]

@[simp] theorem lookupVec_storeVec [Zero R] {n : Nat} (v : Fin n → R) :
    lookupVec (storeVec v) = v := by
  funext i
  simp [lookupVec, storeVec, Array.getD]

variable [Add R] [Mul R] [Div R] [Zero R] [One R] [Min R] [OfScientific R] [HasSqrt R]

theorem clippedExec_store (m : Mode R P) (g : Grad R d) :
    clippedExec d m (store g) = store (clipped m g) := by
  simp [clippedExec, clipped]

theorem batchSumExec_store (m : Mode R P) (batch : List (Grad R d)) :
    batchSumExec d m (batch.map store) = store (batchSum m batch) := by
  unfold batchSumExec batchSum
  generalize (gzero : Grad R d) = a
  induction batch generalizing a with
  | nil => rfl
  | cons g gs ih =>
    simp only [List.map_cons, List.foldl_cons, clippedExec_store, lookup_store]
    exact ih _

/-- what the drivers run is the model's `clip_and_accumulate` -/
theorem clipAndAccumulateExec_store (m : Mode R P) (sg : Option (Grad R d))
    (batch : List (Grad R d)) :
    clipAndAccumulateExec d m (sg.map store) (batch.map store)
      = (clipAndAccumulate m sg batch).map store := by
  unfold clipAndAccumulateExec clipAndAccumulate
  rw [batchSumExec_store]
  cases sg <;> simp [accumulateExec, accumulate]


end Opacus.Clip

namespace Opacus.Ghost
open Opacus.Clip
variable {R : Type} {P : Nat} {d : Fin P → Nat}
variable [Add R] [Mul R] [Div R] [Zero R] [One R] [Min R] [OfScientific R] [HasSqrt R]

theorem wsumExec_store (l : List (R × Grad R d)) :
    wsumExec d (l.map fun cg => (cg.1, store cg.2)) = store (wsum l) := by
  unfold wsumExec wsum
  generalize (gzero : Grad R d) = a
  induction l generalizing a with
  | nil => rfl
  | cons x xs ih => simp only [List.map_cons, List.foldl_cons, lookup_store]; exact ih _

theorem zip_map_store (cs : List R) (gs : List (Grad R d)) :
    cs.zip (gs.map store) = (cs.zip gs).map fun cg => (cg.1, store cg.2) := by
  induction cs generalizing gs with
  | nil => simp
  | cons c cs ih => cases gs with
    | nil => simp
    | cons g gs => simp [ih]

/-- what the C02 driver runs for the ghost path is the model's `ghostAccumulate` -/
theorem ghostAccumulateExec_store (v : Variant) (s : LossShape) (C : R) (sg : Option (Grad R d))
    (batch : List ((Fin P → R) × Grad R d)) :
    ghostAccumulateExec d v s C (sg.map store) (batch.map fun x => (storeVec x.1, store x.2))
      = (ghostAccumulate v s C sg batch).map store := by
  unfold ghostAccumulateExec ghostAccumulate ghostBatchGrad
  simp only [List.map_map, Function.comp_def, lookupVec_storeVec]
  rw [show (batch.map fun x => store x.2) = (batch.map (·.2)).map store by simp [List.map_map, Function.comp_def],
    zip_map_store, wsumExec_store]
  cases sg <;> simp [accumulateExec, accumulate]

end Opacus.Ghost

namespace Opacus.Step
open Opacus.Clip
variable {G H R : Type}

/-- transport of a machine state along a change of gradient representation -/
def St.map (φ : G → H) (st : St G) : St H :=
  ⟨st.gradSample.map (·.map φ), st.summed.map φ, st.grad.map φ, st.skipQueue, st.lastSkipped⟩

structure CarrierHom (φ : G → H) (c₁ : Carrier G R) (c₂ : Carrier H R) : Prop where
  clipAcc : ∀ sg l, c₂.clipAcc (Option.map φ sg) (List.map φ l) = (c₁.clipAcc sg l).map φ
  acc : ∀ sg g, c₂.acc (Option.map φ sg) (φ g) = (c₁.acc sg g).map φ
  add : ∀ a b, c₂.add (φ a) (φ b) = φ (c₁.add a b)
  divS : ∀ a r, c₂.divS (φ a) r = φ (c₁.divS a r)
  natCast : c₂.natCast = c₁.natCast

variable {φ : G → H} {c₁ : Carrier G R} {c₂ : Carrier H R}

theorem backward_map (st : St G) (b : List G) :
    backward (st.map φ) (b.map φ) = (backward st b).map φ := by
  simp [backward, St.map]

theorem signalSkip_map (st : St G) (b : Bool) : signalSkip (st.map φ) b = (signalSkip st b).map φ := rfl

theorem zeroGrad_map (st : St G) : zeroGrad (st.map φ) = (zeroGrad st).map φ := by
  cases h : st.lastSkipped <;> simp [zeroGrad, St.map, h]

theorem ghostBackward_map (st : St G) (g : G) :
    ghostBackward (st.map φ) (φ g) = (ghostBackward st g).map φ := by
  cases h : st.lastSkipped <;> simp [ghostBackward, zeroGrad, St.map, h]

theorem release_map (h : CarrierHom φ c₁ c₂) (red : Reduction) (E k : Nat) (s z : G) :
    release c₂ red E k (φ s) (φ z) = φ (release c₁ red E k s z) := by
  cases red <;> simp [release, h.add, h.divS, h.natCast]

/-- `pre_step` commutes with the change of representation: the driver's run *is* the model's run -/
theorem preStep_map (h : CarrierHom φ c₁ c₂) (red : Reduction) (E : Nat) (z : G) (st : St G) :
    preStep c₂ red E (φ z) (st.map φ) =
      (preStep c₁ red E z st).map fun p => (p.1.map φ, p.2) := by
  unfold preStep
  have e1 : (st.map φ).gradSample.isEmpty = st.gradSample.isEmpty := by
    cases hg : st.gradSample <;> simp [St.map, hg]
  have e2 : (st.map φ).gradSample.flatten = st.gradSample.flatten.map φ := by
    simp [St.map, List.map_flatten]
  have e3 : (st.map φ).gradSample.length = st.gradSample.length := by simp [St.map]
  rw [e1, e2, e3]
  by_cases hE : st.gradSample.isEmpty = true
  · simp [hE]
  · simp only [hE, Bool.false_eq_true, if_false]
    have : (st.map φ).summed = Option.map φ st.summed := rfl
    rw [this, h.clipAcc]
    cases c₁.clipAcc st.summed st.gradSample.flatten with
    | none => rfl
    | some s =>
      simp only [Option.map_some]
      have : (st.map φ).skipQueue = st.skipQueue := rfl
      rw [this]
      cases (popSkip st.skipQueue) with
      | mk skip q => cases skip <;> simp [St.map, release_map h]

theorem ghostPreStep_map (h : CarrierHom φ c₁ c₂) (red : Reduction) (E : Nat) (z : G) (st : St G) :
    ghostPreStep c₂ red E (φ z) (st.map φ) =
      (ghostPreStep c₁ red E z st).map fun p => (p.1.map φ, p.2) := by
  unfold ghostPreStep
  have e0 : (st.map φ).grad = Option.map φ st.grad := rfl
  rw [e0]
  cases st.grad with
  | none => rfl
  | some g =>
    simp only [Option.map_some]
    have : (st.map φ).summed = Option.map φ st.summed := rfl
    rw [this, h.acc]
    cases c₁.acc st.summed g with
    | none => rfl
    | some s =>
      simp only [Option.map_some]
      have : (st.map φ).skipQueue = st.skipQueue := rfl
      rw [this]
      cases (popSkip st.skipQueue) with
      | mk skip q => cases skip <;> simp [St.map, release_map h]

section inst
variable {R : Type} [Add R] [Mul R] [Div R] [Zero R] [One R] [Min R] [OfScientific R] [HasSqrt R]
variable {P : Nat} (d : Fin P → Nat)

/-- the executable carrier of the drivers simulates the model carrier of the theorems -/
theorem execCarrier_hom (m : Mode R P) (nc : Nat → R) :
    CarrierHom (store (d := d)) (modelCarrier d m nc) (execCarrier d m nc) where
  clipAcc := fun sg l => clipAndAccumulateExec_store m sg l
  acc := fun sg g => by cases sg <;> simp [execCarrier, modelCarrier, accumulateExec, accumulate]
  add := fun a b => by simp [execCarrier, modelCarrier]
  divS := fun a r => by simp [execCarrier, modelCarrier]
  natCast := rfl

end inst

end Opacus.Step
