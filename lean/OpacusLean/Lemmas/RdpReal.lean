import OpacusLean.Model.Gdp
import Mathlib.Analysis.SpecialFunctions.Log.Basic
import Mathlib.Analysis.SpecialFunctions.Sqrt
import Mathlib.Data.Nat.Choose.Basic
import Mathlib.Algebra.Order.Floor.Defs
import Mathlib.Algebra.BigOperators.Group.Finset.Basic
import Mathlib.Algebra.Order.BigOperators.Group.Finset
/-! The `ℝ` instance of the accountant models' scalar interface, and the bridge lemmas that restate
the transcribed definitions in ordinary real-number notation. -/
namespace Opacus.Rdp
open RScalar Finset

noncomputable instance instRScalarReal : RScalar ℝ where
  add := (· + ·)
  sub := (· - ·)
  mul := (· * ·)
  div := (· / ·)
  neg := fun x => -x
  ofNat n := (n : ℝ)
  exp := Real.exp
  log := Real.log
  log1p x := Real.log (1 + x)
  expm1 x := Real.exp x - 1
  expm1Ovf _ := false
  sqrt := Real.sqrt
  lt a b := decide (a < b)
  beq a b := decide (a = b)
  ceilNat x := ⌈x⌉₊

/-- the model's exact binomial coefficient is `Nat.choose` -/
theorem choose_eq (n k : ℕ) : choose n k = Nat.choose n k := by
  induction k with
  | zero => simp [choose]
  | succ k ih =>
    rw [choose, ih]
    have h := Nat.choose_succ_right_eq n k
    rw [← h]
    exact Nat.mul_div_cancel _ (Nat.succ_pos k)

theorem intTerm_real (q s : ℝ) (α i : ℕ) :
    intTerm q s α i = Real.log ((choose α i : ℕ) : ℝ) + (i : ℝ) * Real.log q
      + ((α - i : ℕ) : ℝ) * Real.log (((1 : ℕ) : ℝ) - q) + ((i * i - i : ℕ) : ℝ) / (((2 : ℕ) : ℝ) * (s * s)) := rfl

theorem logAdd_some_real (x y : ℝ) :
    logAdd (some x) (some y) = some (Real.log (Real.exp x + Real.exp y)) := by
  have key : ∀ a b : ℝ, Real.log (1 + Real.exp (a - b)) + b = Real.log (Real.exp b + Real.exp a) := by
    intro a b
    have h1 : (0:ℝ) < 1 + Real.exp (a - b) := by positivity
    have h2 : Real.exp b + Real.exp a = (1 + Real.exp (a - b)) * Real.exp b := by
      rw [add_mul, one_mul, ← Real.exp_add]; congr 2; ring
    rw [h2, Real.log_mul h1.ne' (Real.exp_pos _).ne', Real.log_exp]
  show some (Real.log (1 + Real.exp ((if decide (y < x) then y else x) - (if decide (x < y) then y else x)))
      + (if decide (x < y) then y else x)) = _
  congr 1
  rcases lt_trichotomy x y with h | h | h
  · have h' : ¬ y < x := not_lt.mpr h.le
    simp only [h, h', decide_true, decide_false, if_true, Bool.false_eq_true, if_false]
    rw [key, add_comm]
  · subst h; simp only [lt_irrefl, decide_false, Bool.false_eq_true, if_false]; rw [key]
  · have h' : ¬ x < y := not_lt.mpr h.le
    simp only [h, h', decide_true, decide_false, if_true, Bool.false_eq_true, if_false]
    rw [key]

/-- the accumulation pattern of the integer-order loop: `logAdd` folds to `log` of the sum -/
theorem foldl_logAdd_real (t : ℕ → ℝ) (ht : ∀ i, 0 < t i) (n : ℕ) :
    (List.range (n + 1)).foldl (fun acc i => logAdd acc (some (Real.log (t i)))) (none : Option ℝ)
      = some (Real.log (∑ i ∈ range (n + 1), t i)) := by
  induction n with
  | zero => simp [logAdd]
  | succ n ih =>
    rw [List.range_succ, List.foldl_append, ih, Finset.sum_range_succ _ (n + 1)]
    simp only [List.foldl_cons, List.foldl_nil]
    rw [logAdd_some_real, Real.exp_log (ht _), Real.exp_log]
    exact Finset.sum_pos (fun i _ => ht i) (by simp)

/-- the `k`-th summand of `A_α` for the sampled Gaussian mechanism with variance `v = σ²` -/
noncomputable def sgmTerm (q v : ℝ) (α k : ℕ) : ℝ :=
  (α.choose k : ℝ) * (1 - q) ^ (α - k) * q ^ k * Real.exp (((k : ℝ) ^ 2 - k) / (2 * v))

/-- `A_α = Σ_k C(α,k) (1-q)^(α-k) q^k e^{(k²-k)/(2σ²)}` -/
noncomputable def sgmSum (q v : ℝ) (α : ℕ) : ℝ := ∑ k ∈ range (α + 1), sgmTerm q v α k

theorem sgmTerm_pos {q v : ℝ} (hq0 : 0 < q) (hq1 : q < 1) {α k : ℕ} (hk : k ≤ α) :
    0 < sgmTerm q v α k := by
  have : 0 < 1 - q := by linarith
  have hc : (0 : ℝ) < (α.choose k : ℝ) := by exact_mod_cast Nat.choose_pos hk
  unfold sgmTerm; positivity

theorem intTerm_eq_log {q s : ℝ} (hq0 : 0 < q) (hq1 : q < 1) {α k : ℕ} (hk : k ≤ α) :
    intTerm q s α k = Real.log (sgmTerm q (s * s) α k) := by
  have h1 : 0 < 1 - q := by linarith
  have hc : (0 : ℝ) < (α.choose k : ℝ) := by exact_mod_cast Nat.choose_pos hk
  rw [intTerm_real, choose_eq, sgmTerm]
  rw [Real.log_mul (by positivity) (Real.exp_pos _).ne', Real.log_mul (by positivity) (by positivity),
    Real.log_mul hc.ne' (by positivity), Real.log_pow, Real.log_pow, Real.log_exp]
  have hsq : ((k * k - k : ℕ) : ℝ) = (k : ℝ) ^ 2 - k := by
    rw [Nat.cast_sub (Nat.le_mul_self k)]; push_cast; ring
  rw [hsq]
  push_cast
  ring

/-- **the integer-order loop computes `log A_α`** -/
theorem logAInt_real {q s : ℝ} (hq0 : 0 < q) (hq1 : q < 1) (α : ℕ) :
    logAInt q s α = some (Real.log (sgmSum q (s * s) α)) := by
  unfold logAInt sgmSum
  -- replace the terms outside the range by anything positive
  let t : ℕ → ℝ := fun i => if i ≤ α then sgmTerm q (s * s) α i else 1
  have ht : ∀ i, 0 < t i := by
    intro i; simp only [t]; split_ifs with h
    · exact sgmTerm_pos hq0 hq1 h
    · exact one_pos
  have hfold : ∀ (l : List ℕ) (acc : Option ℝ), (∀ i ∈ l, i ≤ α) →
      l.foldl (fun acc i => logAdd acc (some (intTerm q s α i))) acc
        = l.foldl (fun acc i => logAdd acc (some (Real.log (t i)))) acc := by
    intro l
    induction l with
    | nil => intro acc _; rfl
    | cons a l ih =>
      intro acc h
      simp only [List.foldl_cons]
      have ha : a ≤ α := h a (by simp)
      rw [intTerm_eq_log hq0 hq1 ha]
      have : t a = sgmTerm q (s * s) α a := by simp [t, ha]
      rw [this]
      exact ih _ (fun i hi => h i (by simp [hi]))
  rw [hfold _ _ (fun i hi => by simpa [Nat.lt_succ_iff] using hi), foldl_logAdd_real t ht α]
  congr 2
  apply Finset.sum_congr rfl
  intro i hi
  have : i ≤ α := by simpa [Nat.lt_succ_iff] using hi
  simp [t, this]

end Opacus.Rdp
