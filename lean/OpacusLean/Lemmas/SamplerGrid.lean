import OpacusLean.Model.Sampler
import Mathlib.Data.Rat.Floor
import Mathlib.Algebra.Order.Floor.Semifield
import Mathlib.Data.List.Range
import Mathlib.Tactic.Linarith
import Mathlib.Tactic.Positivity
namespace Opacus.Sampler

theorem filter_lt_range (c M : ℕ) (hc : c ≤ M) :
    (List.range M).filter (fun k => decide (k < c)) = List.range c := by
  induction M with
  | zero => have : c = 0 := by omega
            subst this; simp
  | succ n ih =>
    rcases Nat.lt_or_ge c (n + 1) with h | h
    · rw [List.range_succ, List.filter_append]
      have hn : ¬ n < c := by omega
      simp [hn, ih (by omega : c ≤ n)]
    · have : c = n + 1 := by omega
      subst this
      rw [List.filter_eq_self]
      intro a ha; simpa using List.mem_range.1 ha

/-- number of grid points `k/M`, `k < M`, strictly below a threshold `t ∈ [0,1]`: `⌈t·M⌉` -/
theorem grid_count (t : ℚ) (M : ℕ) (hM : 0 < M) (h1 : t ≤ 1) :
    ((List.range M).filter (fun (k : ℕ) => decide ((k : ℚ) / M < t))).length = ⌈t * M⌉₊ := by
  have hM' : (0 : ℚ) < M := by exact_mod_cast hM
  have hc : ⌈t * M⌉₊ ≤ M := by
    rw [Nat.ceil_le]; nlinarith
  have hp : ∀ k : ℕ, decide ((k : ℚ) / M < t) = decide (k < ⌈t * M⌉₊) := by
    intro k
    congr 1
    rw [div_lt_iff₀ hM', Nat.lt_ceil]
  simp only [hp]
  rw [filter_lt_range _ _ hc, List.length_range]
end Opacus.Sampler
