import OpacusLean.Lemmas.RnnCsl
set_option linter.unusedSimpArgs false
namespace Opacus.Rnn

theorem countP_lt_range (k M : Nat) : (List.range M).countP (fun t => t < k) = min k M := by
  induction M with
  | zero => simp
  | succ M ih =>
    rw [List.range_succ, List.countP_append, ih]
    by_cases h : M < k
    · simp [h]; omega
    · simp [h]; omega

/-- for non-increasing `lens`: more than `i` sequences are longer than `t` iff sequence `i` is -/
theorem lt_countP_iff {lens : List Nat} (hp : lens.Pairwise (· ≥ ·)) {i : Nat} (hi : i < lens.length) (t : Nat) :
    i < lens.countP (fun l => t < l) ↔ t < lens[i] := by
  induction lens generalizing i with
  | nil => simp at hi
  | cons a l ih =>
    obtain ⟨hhead, hp'⟩ := List.pairwise_cons.mp hp
    by_cases hta : t < a
    · cases i with
      | zero => simp [List.countP_cons, hta]
      | succ i =>
        have hi' : i < l.length := by simpa using hi
        simp only [List.countP_cons, hta, decide_true, if_true, List.getElem_cons_succ]
        rw [← ih hp' hi']; omega
    · have hz : l.countP (fun l => decide (t < l)) = 0 := by
        rw [List.countP_eq_zero]; intro y hy; have := hhead y hy; simp; omega
      have hle : (a :: l)[i] ≤ a := by
        cases i with
        | zero => simp
        | succ i => simp; exact hhead _ (List.getElem_mem _)
      simp only [List.countP_cons, hta, decide_false, hz]
      simp; omega

theorem foldl_max_ge (l : List Nat) (m : Nat) : m ≤ l.foldl max m ∧ ∀ a ∈ l, a ≤ l.foldl max m := by
  induction l generalizing m with
  | nil => simp
  | cons a l ih =>
    simp only [List.foldl_cons]
    obtain ⟨h1, h2⟩ := ih (max m a)
    refine ⟨by omega, ?_⟩
    intro b hb
    rcases List.mem_cons.mp hb with h | h
    · subst h; omega
    · exact h2 b h

theorem foldl_max_head {a : Nat} {l : List Nat} (h : ∀ b ∈ l, b ≤ a) (m : Nat) (hm : m ≤ a) :
    l.foldl max (max m a) = a := by
  induction l generalizing m with
  | nil => simp; omega
  | cons b l ih =>
    simp only [List.foldl_cons]
    have hb := h b (by simp)
    have : max (max m a) b = max m a := by omega
    rw [this]
    exact ih (fun c hc => h c (by simp [hc])) m hm

/-- `compute_seq_lengths` inverts `pack_padded_sequence`'s `batch_sizes` -/
theorem computeSeqLengths_batchSizes {lens : List Nat} (hne : lens ≠ []) (hp : lens.Pairwise (· ≥ ·))
    (hpos : ∀ l ∈ lens, 0 < l) : computeSeqLengths (batchSizes lens) = some lens := by
  obtain ⟨a, l, rfl⟩ : ∃ a l, lens = a :: l := by
    cases lens with
    | nil => exact absurd rfl hne
    | cons a l => exact ⟨a, l, rfl⟩
  obtain ⟨hhead, _⟩ := List.pairwise_cons.mp hp
  have ha : 0 < a := hpos a (by simp)
  have hM : (a :: l).foldl max 0 = a := by
    simp only [List.foldl_cons]; exact foldl_max_head hhead 0 (by omega)
  -- batch sizes as a list `b :: bs`, non-increasing
  have hbs : batchSizes (a :: l) = (List.range a).map (fun t => (a :: l).countP (fun x => t < x)) := by
    unfold batchSizes; rw [hM]
  have hpb : (batchSizes (a :: l)).Pairwise (· ≥ ·) := by
    rw [hbs, List.pairwise_map]
    apply List.Pairwise.imp _ (List.pairwise_lt_range (n := a))
    intro t t' htt
    apply List.countP_mono_left
    intro x _ hx; simp at hx ⊢; omega
  obtain ⟨n, rfl⟩ : ∃ n, a = n + 1 := ⟨a - 1, by omega⟩
  have hform : batchSizes ((n + 1) :: l) = (l.length + 1) ::
      (List.range n).map (fun t => ((n + 1) :: l).countP (fun x => t + 1 < x)) := by
    rw [hbs, List.range_succ_eq_map, List.map_cons, List.map_map]
    congr 1
    rw [List.countP_eq_length.mpr]
    · simp
    · intro x hx; have := hpos x hx; simp; omega
  rw [hform] at hpb
  obtain ⟨r, hr, hrl, hre⟩ := computeSeqLengths_nonInc _ _ hpb
  rw [hform, hr]; congr 1
  apply List.ext_getElem?
  intro i
  by_cases hi : i < l.length + 1
  · rw [hre i hi, ← hform, hbs, List.countP_map]
    have hfun : ((fun c => decide (i < c)) ∘ fun t => List.countP (fun x => decide (t < x)) ((n + 1) :: l)) =
        fun t => decide (t < ((n + 1) :: l)[i]'(by simpa using hi)) := by
      funext t
      simp only [Function.comp]
      have := lt_countP_iff hp (i := i) (by simpa using hi) t
      exact decide_eq_decide.mpr this
    rw [hfun, countP_lt_range]
    have hle : ((n + 1) :: l)[i]'(by simpa using hi) ≤ n + 1 := by
      cases i with
      | zero => simp
      | succ i => simp; exact hhead _ (List.getElem_mem _)
    rw [Nat.min_eq_left hle, List.getElem?_eq_getElem (by simpa using hi)]
  · rw [List.getElem?_eq_none_iff.mpr (by omega), List.getElem?_eq_none_iff.mpr (by simp; omega)]

end Opacus.Rnn
