import OpacusLean.Lemmas.MhaIndex
/-! Refinement lemmas for C14: on well-shaped masks the checks of the model pass, padding and
broadcasting reduce to the specification's mask functions, and the per-(batch·head) quantities of
the model are the specification's heads. -/
namespace Opacus.Mha

variable {R : Type}

/-- the checked 3-D mask of a well-shaped mask -/
def SMask.mask3 {Bh L S} : SMask R Bh L S → Option (Mask3 R)
  | .none => Option.none
  | .b2 v => some (.bool 1 L S (fun _ => v))
  | .f2 v => some (.add 1 L S (fun _ => v))
  | .b3 v => some (.bool Bh L S v)
  | .f3 v => some (.add Bh L S v)

theorem checkMask_toModel {Bh L S} (m : SMask R Bh L S) :
    checkMask L S Bh m.toModel = .ok m.mask3 := by
  cases m <;> simp [SMask.toModel, checkMask, SMask.mask3]

theorem bcast_self (n : Nat) : bcast n n = some (fun i => i) := by
  simp [bcast]

theorem bcast_one (m : Nat) : ∃ f, bcast 1 m = some f := by
  unfold bcast
  by_cases h : 1 = m
  · exact ⟨_, dif_pos h⟩
  · rw [dif_neg h]; exact ⟨_, dif_pos rfl⟩

section
variable [AddZeroClass R] [Mul R]

theorem mask_apply {Bh L S} (ninf : R) (m : SMask R Bh L S) (nkv nz : Nat)
    (x : Fin Bh → Fin L → Fin (S + nkv + nz) → R) :
    applyMask? ninf ((m.mask3.map (Mask3.pad nkv)).map (Mask3.pad nz)) x
    = .ok (fun j l s => m.on ninf (nkv + nz) j l (s.cast (add_assoc' ..)) (x j l s)) := by
  obtain ⟨f1, hf1⟩ := bcast_one Bh
  cases m with
  | none =>
    simp only [SMask.mask3, Option.map_none, SMask.on, applyMask?]
    congr 1; funext j l s; split <;> rfl
  | b2 v =>
    simp only [SMask.mask3, Option.map_some, Mask3.pad, Mask3.apply, bcast_self, hf1, applyMask?]
    congr 1; funext j l s
    simp only [padLast, SMask.on, Fin.val_cast]
    by_cases h1 : s.val < S
    · have h2 : s.val < S + nkv := by omega
      simp [h1, h2]
    · by_cases h2 : s.val < S + nkv <;> simp [h1, h2]
  | f2 v =>
    simp only [SMask.mask3, Option.map_some, Mask3.pad, Mask3.apply, bcast_self, hf1, applyMask?]
    congr 1; funext j l s
    simp only [padLast, SMask.on, Fin.val_cast]
    by_cases h1 : s.val < S
    · have h2 : s.val < S + nkv := by omega
      simp [h1, h2]
    · by_cases h2 : s.val < S + nkv <;> simp [h1, h2]
  | b3 v =>
    simp only [SMask.mask3, Option.map_some, Mask3.pad, Mask3.apply, bcast_self, applyMask?]
    congr 1; funext j l s
    simp only [padLast, SMask.on, Fin.val_cast]
    by_cases h1 : s.val < S
    · have h2 : s.val < S + nkv := by omega
      simp [h1, h2]
    · by_cases h2 : s.val < S + nkv <;> simp [h1, h2]
  | f3 v =>
    simp only [SMask.mask3, Option.map_some, Mask3.pad, Mask3.apply, bcast_self, applyMask?]
    congr 1; funext j l s
    simp only [padLast, SMask.on, Fin.val_cast]
    by_cases h1 : s.val < S
    · have h2 : s.val < S + nkv := by omega
      simp [h1, h2]
    · by_cases h2 : s.val < S + nkv <;> simp [h1, h2]

def SKpm.isAdd {B S} : SKpm R B S → Bool
  | .add _ => true
  | _ => false

omit [Mul R] in
theorem kpm_check {B S} (kp : SKpm R B S) (nkv : Nat) :
    Kpm.check B (S + nkv) (kp.toModel.pad nkv) = .ok () := by
  cases kp <;> simp [SKpm.toModel, Kpm.pad, Kpm.check]

omit [Mul R] in
theorem kpm_apply {B h L S} (vr : V) (ninf : R) (kp : SKpm R B S) (nkv nz : Nat)
    (hv : kp.isAdd = true → vr = .repaired)
    (x : Fin (B * h) → Fin L → Fin (S + nkv + nz) → R) :
    ((kp.toModel.pad nkv).pad nz).apply vr ninf x
    = .ok (fun j l s => kp.on ninf (nkv + nz) (decL j) (s.cast (add_assoc' ..)) (x j l s)) := by
  cases kp with
  | none =>
    simp only [SKpm.toModel, Kpm.pad, Kpm.apply, SKpm.on]
    congr 1; funext j l s; split <;> rfl
  | bool v =>
    simp only [SKpm.toModel, Kpm.pad, Kpm.apply, bcast_self]
    congr 1; funext j l s
    simp only [padLast2, SKpm.on, Fin.val_cast]
    by_cases h1 : s.val < S
    · have h2 : s.val < S + nkv := by omega
      simp [h1, h2]
    · by_cases h2 : s.val < S + nkv <;> simp [h1, h2]
  | add v =>
    have hr : vr = .repaired := hv rfl
    subst hr
    simp only [SKpm.toModel, Kpm.pad, Kpm.apply, bcast_self]
    congr 1; funext j l s
    simp only [padLast2, SKpm.on, Fin.val_cast]
    by_cases h1 : s.val < S
    · have h2 : s.val < S + nkv := by omega
      simp [h1, h2]
    · by_cases h2 : s.val < S + nkv <;> simp [h1, h2]

/-- zero rows appended after the head split = head slice of zero rows appended before it -/
theorem zeroAttn_splitHeads {T B h d} (nz : Nat) (x : Fin T → Fin B → Fin (h * d) → R)
    (b : Fin B) (hd : Fin h) (s : Fin (T + nz)) (c : Fin d) :
    zeroAttn nz (splitHeads x) (enc2 b hd) s c
      = (catRows x (fun (_ : Fin nz) (_ : Fin B) (_ : Fin (h * d)) => (0 : R))) s b (enc2 hd c) := by
  unfold zeroAttn catRows
  by_cases hs : s.val < T
  · simp [hs, splitHeads_apply]
  · simp [hs]

/-- the attention core on well-shaped masks computes the specification's heads -/
theorem core_eq {h d B L S nkv : Nat} (ops : Ops R) (vr : V) (nz : Nat)
    (q : Fin L → Fin B → Fin (h * d) → R) (k v : Fin S → Fin B → Fin (h * d) → R)
    (bk bv : Fin nkv → Fin (h * d) → R) (m : SMask R (B * h) L S) (kp : SKpm R B S)
    (hv : kp.isAdd = true → vr = .repaired) :
    core ops vr nz q k v bk bv m.mask3 kp.toModel = .ok
      ⟨fun j l s => (specHead ops nz q (specKeys nz k bk) (specKeys nz v bv) m kp (decL j) (decR j)).scores l s,
       fun j l s => (specHead ops nz q (specKeys nz k bk) (specKeys nz v bv) m kp (decL j) (decR j)).w l s,
       fun j l c => (specHead ops nz q (specKeys nz k bk) (specKeys nz v bv) m kp (decL j) (decR j)).o l c⟩ := by
  have hscore : ∀ (j : Fin (B * h)) (l : Fin L) (s : Fin (S + nkv + nz)),
      bmmQK (splitHeads q) (zeroAttn nz (splitHeads (seqBias k bk))) j l s
        = sumFin d (fun c => q l (decL j) (enc2 (decR j) c) * specKeys nz k bk s (decL j) (enc2 (decR j) c)) := by
    intro j l s
    unfold bmmQK
    congr 1; funext c
    conv_lhs => rw [← enc2_dec j]
    rw [splitHeads_apply, zeroAttn_splitHeads]
    rfl
  have hv' : ∀ (j : Fin (B * h)) (s : Fin (S + nkv + nz)) (c : Fin d),
      zeroAttn nz (splitHeads (seqBias v bv)) j s c = specKeys nz v bv s (decL j) (enc2 (decR j) c) := by
    intro j s c
    conv_lhs => rw [← enc2_dec j]
    rw [zeroAttn_splitHeads]
    rfl
  simp only [core, get₃_ofFn₃, kpm_check, bind, Except.bind, mask_apply, kpm_apply _ _ _ _ _ hv, pure, Except.pure]
  simp only [specHead, get₂_ofFn₂, enc2_dec, hscore]
  congr 2
  funext j l c
  simp only [bmmWV, hv']

/-- merging the per-(batch·head) outputs = concatenating the heads along the embedding axis -/
theorem mergeHeads_heads {h d B L S nkv : Nat} (ops : Ops R) (nz : Nat)
    (q : Fin L → Fin B → Fin (h * d) → R) (ks vs : Fin (S + nkv + nz) → Fin B → Fin (h * d) → R)
    (m : SMask R (B * h) L S) (kp : SKpm R B S) :
    mergeHeads (fun j l c => (specHead ops nz q ks vs m kp (decL j) (decR j)).o l c)
      = fun l b e => (specHead ops nz q ks vs m kp b (decL e)).o l (decR e) := by
  funext l b e
  rw [mergeHeads_apply']
  simp only [decL_enc2, decR_enc2]

theorem avgWeights_heads {h d B L S nkv : Nat} (ops : Ops R) (nz : Nat)
    (q : Fin L → Fin B → Fin (h * d) → R) (ks vs : Fin (S + nkv + nz) → Fin B → Fin (h * d) → R)
    (m : SMask R (B * h) L S) (kp : SKpm R B S) :
    avgWeights ops (fun j l s => (specHead ops nz q ks vs m kp (decL j) (decR j)).w l s)
      = fun b l s => ops.divH (sumFin h (fun hd => (specHead ops nz q ks vs m kp b hd).w l s)) := by
  funext b l s
  simp only [avgWeights, decL_enc2, decR_enc2]

end
end Opacus.Mha
