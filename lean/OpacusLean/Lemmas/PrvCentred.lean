import OpacusLean.Lemmas.PrvRoll
import OpacusLean.Lemmas.PrvTree
/-! exactness of the whole composition pipeline when nothing is aliased or truncated:
arrays of even size `N` are read as distributions of an offset `j - c` from the centre `c = N/2 - 1`. -/
set_option linter.unusedSectionVars false
namespace Opacus.Prv
open Finset Polynomial

variable {R : Type} [CommRing R]

/-- all non-zero coefficients of `P` have index in `[lo, hi]` -/
def SuppIn (P : R[X]) (lo hi : ℕ) : Prop := ∀ s, P.coeff s ≠ 0 → lo ≤ s ∧ s ≤ hi

theorem SuppIn.mul {P Q : R[X]} {l h l' h' : ℕ} (hP : SuppIn P l h) (hQ : SuppIn Q l' h') :
    SuppIn (P * Q) (l + l') (h + h') := by
  intro s hs
  rw [coeff_mul] at hs
  obtain ⟨x, hx, hne⟩ := Finset.exists_ne_zero_of_sum_ne_zero hs
  have h1 : P.coeff x.1 ≠ 0 := fun h0 => hne (by rw [h0, zero_mul])
  have h2 : Q.coeff x.2 ≠ 0 := fun h0 => hne (by rw [h0, mul_zero])
  have := Finset.mem_antidiagonal.mp hx
  obtain ⟨a1, a2⟩ := hP _ h1
  obtain ⟨b1, b2⟩ := hQ _ h2
  omega

theorem SuppIn.one [Nontrivial R] : SuppIn (1 : R[X]) 0 0 := by
  intro s hs
  rw [coeff_one] at hs
  split_ifs at hs with h
  · omega
  · exact absurd rfl hs

theorem SuppIn.pow {P : R[X]} {l h : ℕ} (hP : SuppIn P l h) (n : ℕ) : SuppIn (P ^ n) (n * l) (n * h) := by
  induction n with
  | zero =>
    intro s hs
    rw [pow_zero, coeff_one] at hs
    split_ifs at hs with h0
    · omega
    · exact absurd rfl hs
  | succ n ih =>
    rw [pow_succ]
    have := ih.mul hP
    rwa [show n * l + l = (n + 1) * l by ring, show n * h + h = (n + 1) * h by ring] at this

/-- the non-zero entries of `a` lie within `r` bins of the centre `c` -/
def Fits (c : ℕ) (a : Array R) (r : ℕ) : Prop :=
  ∀ j, a.getD j 0 ≠ 0 → c ≤ j + r ∧ j ≤ c + r

theorem Fits.suppIn {c : ℕ} {a : Array R} {r : ℕ} (h : Fits c a r) :
    SuppIn (toPoly a) (c - r) (c + r) := by
  intro s hs
  rw [coeff_toPoly] at hs
  have := h s hs
  omega

/-- `a` (size `N = 2c+2`, centre `c = N/2 - 1`) represents the distribution `Q` of a sum of `m` offsets:
`Q = X^{(m-1)c} · Σ a[j] X^j` (so `a[j] = Q[j + (m-1)c]` and `Q` vanishes elsewhere), supported within
`r ≤ c` bins of the centre. -/
structure Rep (c : ℕ) (a : Array R) (Q : R[X]) (m r : ℕ) : Prop where
  size : a.size = 2 * c + 2
  shift : Q = X ^ ((m - 1) * c) * toPoly a
  fits : Fits c a r
  rad : r ≤ c
  mpos : 1 ≤ m

theorem Rep.getD {c : ℕ} {a : Array R} {Q : R[X]} {m r : ℕ} (h : Rep c a Q m r) (j : ℕ) :
    a.getD j 0 = Q.coeff (j + (m - 1) * c) := by
  rw [h.shift, coeff_X_pow_mul, coeff_toPoly]

theorem rep_base {c : ℕ} {a : Array R} {r : ℕ} (hs : a.size = 2 * c + 2) (hf : Fits c a r) (hr : r ≤ c) :
    Rep c a (toPoly a) 1 r :=
  ⟨hs, by simp, hf, hr, le_refl _⟩

theorem pred_mul_add (m c : ℕ) (hm : 1 ≤ m) : m * c = (m - 1) * c + c := by
  obtain ⟨x, rfl⟩ : ∃ x, m = x + 1 := ⟨m - 1, by omega⟩
  rw [Nat.add_sub_cancel]; ring

/-- `_compose_two` on representations -/
theorem rep_two {c : ℕ} {a b : Array R} {Qa Qb : R[X]} {ma mb ra rb : ℕ}
    (ha : Rep c a Qa ma ra) (hb : Rep c b Qb mb rb) (hfit : ra + rb ≤ c) :
    Rep c (convSame a b) (Qa * Qb) (ma + mb) (ra + rb) := by
  have hbs : (b.size - 1) / 2 = c := by rw [hb.size]; omega
  have hra := ha.rad
  have hrb := hb.rad
  have hsupp2 : SuppIn (toPoly a * toPoly b) (c - ra + (c - rb)) (c + ra + (c + rb)) :=
    ha.fits.suppIn.mul hb.fits.suppIn
  have hfits : Fits c (convSame a b) (ra + rb) := by
    intro j hj
    rw [convSame_getD] at hj
    split_ifs at hj with hlt
    · have := hsupp2 _ hj
      rw [hbs] at this
      omega
    · exact absurd rfl hj
  have hprod : toPoly a * toPoly b = X ^ c * toPoly (convSame a b) := by
    ext s
    rw [coeff_X_pow_mul', coeff_toPoly, convSame_getD, ha.size, hbs]
    by_cases hcs : c ≤ s
    · rw [if_pos hcs]
      by_cases hlt : s - c < 2 * c + 2
      · rw [if_pos hlt, Nat.sub_add_cancel hcs]
      · rw [if_neg hlt]
        by_contra hne
        have := hsupp2 s hne
        omega
    · rw [if_neg hcs]
      by_contra hne
      have := hsupp2 s hne
      omega
  refine ⟨by rw [convSame_size, ha.size], ?_, hfits, hfit, by have := ha.mpos; omega⟩
  rw [ha.shift, hb.shift]
  have hexp : (ma + mb - 1) * c = (ma - 1) * c + (mb - 1) * c + c := by
    have h1 := pred_mul_add ma c ha.mpos
    have h2 := pred_mul_add mb c hb.mpos
    have h3 := pred_mul_add (ma + mb) c (by have := ha.mpos; omega)
    have h4 : (ma + mb) * c = ma * c + mb * c := by ring
    omega
  rw [hexp, pow_add, pow_add]
  calc X ^ ((ma - 1) * c) * toPoly a * (X ^ ((mb - 1) * c) * toPoly b)
      = X ^ ((ma - 1) * c) * X ^ ((mb - 1) * c) * (toPoly a * toPoly b) := by ring
    _ = _ := by rw [hprod]; ring

/-- `_compose_fourier` on a pmf within radius `r` of the centre, when `n·r ≤ c` (no aliasing) -/
theorem rep_fourier {c : ℕ} {a : Array R} {r : ℕ} (n : ℕ) (hn : 1 ≤ n)
    (hs : a.size = 2 * c + 2) (hf : Fits c a r) (hfit : n * r ≤ c) :
    Rep c (roll (cpow a n) (rollAmount (cpow a n).size n)) (toPoly a ^ n) n (n * r) := by
  have hN : a.size % 2 = 0 := by omega
  have hN0 : 0 < a.size := by omega
  have hcdef : a.size / 2 - 1 = c := by omega
  have hr : r ≤ c := le_trans (Nat.le_mul_of_pos_left r (by omega)) hfit
  have hsupp : SuppIn (toPoly a ^ n) (n * (c - r)) (n * (c + r)) := hf.suppIn.pow n
  have hnc := pred_mul_add n c hn
  have e1 : n * (c - r) + n * r = n * c := by rw [← Nat.mul_add, Nat.sub_add_cancel hr]
  have e2 : n * (c + r) = n * c + n * r := Nat.mul_add n c r
  -- value of every entry
  have hval : ∀ j, j < a.size → (roll (cpow a n) (rollAmount (cpow a n).size n)).getD j 0 =
      (toPoly a ^ n).coeff (j + (n - 1) * c) := by
    intro j hj
    rw [roll_cpow_getD a n hN hN0 hn j hj, hcdef]
    generalize he : (n - 1) * c = e at *
    rw [Finset.sum_eq_single (j + e)]
    · rw [if_pos (by rw [hnc]; congr 1; omega)]
    · intro s _ hne
      by_cases hcz : (toPoly a ^ n).coeff s = 0
      · rw [hcz]; split_ifs <;> rfl
      · obtain ⟨h1, h2⟩ := hsupp s hcz
        rw [if_neg]
        intro hcond
        apply hne
        obtain ⟨s', rfl⟩ : ∃ s', s = e + s' := ⟨s - e, by omega⟩
        have hs' : s' < a.size := by omega
        have : s' ≡ j [MOD a.size] := by
          have h3 : s' + (e + c) ≡ j + (e + c) [MOD a.size] := by
            unfold Nat.ModEq
            rw [hnc] at hcond
            rw [show s' + (e + c) = e + s' + c by omega, hcond]
          exact Nat.ModEq.add_right_cancel' _ h3
        have := Nat.ModEq.eq_of_lt_of_lt this hs' hj
        omega
    · intro hnot
      have hdeg := natDegree_toPoly_pow_lt a hN0 n
      have : (toPoly a ^ n).coeff (j + e) = 0 :=
        coeff_eq_zero_of_natDegree_lt (lt_of_lt_of_le hdeg (by
          have := Finset.mem_range.not.mp hnot; omega))
      rw [this]; split_ifs <;> rfl
  have hsz : (roll (cpow a n) (rollAmount (cpow a n).size n)).size = a.size := by
    rw [roll_size, cpow_size]
  refine ⟨by rw [hsz, hs], ?_, ?_, hfit, hn⟩
  · ext s
    rw [coeff_X_pow_mul', coeff_toPoly]
    generalize he : (n - 1) * c = e at *
    by_cases hcs : e ≤ s
    · rw [if_pos hcs]
      by_cases hlt : s - e < a.size
      · rw [hval _ hlt, Nat.sub_add_cancel hcs]
      · rw [getD_eq_zero _ _ (by rw [hsz]; omega)]
        by_contra hne
        have := hsupp s hne
        omega
    · rw [if_neg hcs]
      by_contra hne
      have := hsupp s hne
      omega
  · intro j hj
    by_cases hlt : j < a.size
    · rw [hval j hlt] at hj
      have := hsupp _ hj
      omega
    · exact absurd (getD_eq_zero _ _ (by rw [hsz]; omega)) hj

/-! ### lists of representations: the tree and `compose_heterogeneous` -/

/-- the list represents distributions whose product is `Q`, with `m` summands in total and total radius `r` -/
inductive RepList (c : ℕ) : List (DPrv R) → R[X] → ℕ → ℕ → Prop
  | nil : RepList c [] 1 0 0
  | cons {d : DPrv R} {l : List (DPrv R)} {Q Q' : R[X]} {m m' r r' : ℕ} :
      Rep c d.pmf Q m r → RepList c l Q' m' r' → RepList c (d :: l) (Q * Q') (m + m') (r + r')

theorem RepList.cast {c : ℕ} {l : List (DPrv R)} {Q Q' : R[X]} {m m' r r' : ℕ}
    (h : RepList c l Q m r) (hQ : Q = Q') (hm : m = m') (hr : r = r') : RepList c l Q' m' r' := by
  subst hQ; subst hm; subst hr; exact h

theorem RepList.snoc {c : ℕ} {l : List (DPrv R)} {x : DPrv R} {Q : R[X]} {m r : ℕ}
    (h : RepList c (l ++ [x]) Q m r) :
    ∃ Q1 m1 r1 Qx mx rx, RepList c l Q1 m1 r1 ∧ Rep c x.pmf Qx mx rx ∧ Q = Qx * Q1 ∧ m = mx + m1 ∧ r = rx + r1 := by
  induction l generalizing Q m r with
  | nil =>
    cases h with
    | cons hd ht =>
      cases ht
      exact ⟨1, 0, 0, _, _, _, RepList.nil, hd, rfl, rfl, rfl⟩
  | cons d l ih =>
    cases h with
    | cons hd ht =>
      obtain ⟨Q1, m1, r1, Qx, mx, rx, hl, hx, rfl, rfl, rfl⟩ := ih ht
      exact ⟨_, _, _, Qx, mx, rx, RepList.cons hd hl, hx, by ring, by omega, by omega⟩

theorem pairs_repList {c : ℕ} (l : List (DPrv R)) {Q : R[X]} {m r : ℕ}
    (h : RepList c l Q m r) (hr : r ≤ c) (he : l.length % 2 = 0) : RepList c (pairs l) Q m r := by
  induction l using pairs.induct generalizing Q m r with
  | case1 a b t ih =>
    cases h with
    | cons ha hbt =>
      cases hbt with
      | cons hb ht =>
        have hte : t.length % 2 = 0 := by simp only [List.length_cons] at he; omega
        have := RepList.cons (d := composeTwo a b) (rep_two ha hb (by omega)) (ih ht (by omega) hte)
        simp only [pairs]
        exact this.cast (by ring) (by omega) (by omega)
  | case2 l hne =>
    match l, hne with
    | [], _ => simpa [pairs] using h
    | [x], _ => simp at he
    | a :: b :: t, hne => exact absurd rfl (hne a b t)

theorem treeStep_repList {c : ℕ} (l : List (DPrv R)) {Q : R[X]} {m r : ℕ}
    (h : RepList c l Q m r) (hr : r ≤ c) : RepList c (treeStep l) Q m r := by
  unfold treeStep
  by_cases hl : l.length % 2 = 1
  · rw [if_pos hl]
    have hne : l ≠ [] := by intro h0; simp [h0] at hl
    rw [List.getLast?_eq_some_getLast hne]
    have hd : l.dropLast.length % 2 = 0 := by rw [List.length_dropLast]; omega
    rw [← List.dropLast_append_getLast hne] at h
    obtain ⟨Q1, m1, r1, Qx, mx, rx, hl', hx, rfl, rfl, rfl⟩ := h.snoc
    exact RepList.cons hx (pairs_repList _ hl' (by omega) hd)
  · rw [if_neg hl]; exact pairs_repList l h hr (by omega)

theorem tree_rep {c : ℕ} (f : ℕ) (l : List (DPrv R)) (res : DPrv R) {Q : R[X]} {m r : ℕ}
    (h : tree f l = .ok res) (hl : RepList c l Q m r) (hr : r ≤ c) : Rep c res.pmf Q m r := by
  induction f generalizing l with
  | zero =>
    match l, h, hl with
    | [d], h, hl =>
      simp only [tree] at h; injection h with h; subst h
      cases hl with
      | cons hd ht => cases ht; simpa using hd
  | succ f ih =>
    match l, h, hl with
    | [d], h, hl =>
      simp only [tree] at h; injection h with h; subst h
      cases hl with
      | cons hd ht => cases ht; simpa using hd
    | a :: b :: t, h, hl =>
      simp only [tree] at h
      exact ih _ h (treeStep_repList _ hl hr)

/-- `Π_i P_i^{n_i}`: the generating polynomial of the sum of all steps -/
noncomputable def polyProd : List (DPrv R) → List ℕ → R[X]
  | d :: ds, n :: ns => toPoly d.pmf ^ n * polyProd ds ns
  | _, _ => 1

/-- total number of composed steps `Σ n_i` -/
def totalCount : List (DPrv R) → List ℕ → ℕ
  | _ :: ds, n :: ns => n + totalCount ds ns
  | _, _ => 0

/-- `Σ n_i · rad(d_i)` -/
def weightedRad (rad : DPrv R → ℕ) : List (DPrv R) → List ℕ → ℕ
  | d :: ds, n :: ns => n * rad d + weightedRad rad ds ns
  | _, _ => 0

theorem fourierAll_repList {c : ℕ} (rad : DPrv R → ℕ) (ds : List (DPrv R)) (ns : List ℕ) (cs : List (DPrv R))
    (h : fourierAll ds ns = .ok cs)
    (hsz : ∀ d ∈ ds, d.pmf.size = 2 * c + 2) (hf : ∀ d ∈ ds, Fits c d.pmf (rad d))
    (hn : ∀ n ∈ ns, 1 ≤ n) (hfit : weightedRad rad ds ns ≤ c) :
    RepList c cs (polyProd ds ns) (totalCount ds ns) (weightedRad rad ds ns) := by
  induction ds generalizing ns cs with
  | nil =>
    simp only [fourierAll] at h; injection h with h; subst h
    exact RepList.nil
  | cons d ds ih =>
    match ns, h, hn, hfit with
    | [], h, _, _ =>
      simp only [fourierAll] at h; injection h with h; subst h
      exact RepList.nil
    | n :: ns, h, hn, hfit =>
      simp only [fourierAll] at h
      split at h
      · cases h
      · rename_i c' hc'
        split at h
        · cases h
        · rename_i cs' hcs
          injection h with h; subst h
          obtain ⟨_, _, hpmf, _⟩ := composeFourier_ok d c' n hc'
          simp only [weightedRad] at hfit
          have hrep := rep_fourier (a := d.pmf) (r := rad d) n (hn n (by simp)) (hsz d (by simp)) (hf d (by simp)) (by omega)
          rw [← hpmf] at hrep
          exact RepList.cons hrep (ih ns cs' hcs (fun x hx => hsz x (by simp [hx])) (fun x hx => hf x (by simp [hx]))
            (fun k hk => hn k (by simp [hk])) (by omega))

/-- **exactness of `compose_heterogeneous` without aliasing / truncation.** -/
theorem composeHeterogeneous_rep {c : ℕ} (rad : DPrv R → ℕ) (ds : List (DPrv R)) (ns : List ℕ) (res : DPrv R)
    (h : composeHeterogeneous ds ns = .ok res)
    (hsz : ∀ d ∈ ds, d.pmf.size = 2 * c + 2) (hf : ∀ d ∈ ds, Fits c d.pmf (rad d))
    (hn : ∀ n ∈ ns, 1 ≤ n) (hfit : weightedRad rad ds ns ≤ c) :
    Rep c res.pmf (polyProd ds ns) (totalCount ds ns) (weightedRad rad ds ns) := by
  unfold composeHeterogeneous at h
  split_ifs at h
  split at h
  · cases h
  · rename_i cs hcs
    exact tree_rep _ cs res h (fourierAll_repList rad ds ns cs hcs hsz hf hn hfit) hfit

end Opacus.Prv
