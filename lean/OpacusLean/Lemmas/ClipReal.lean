import OpacusLean.Model.Clip
import Mathlib.Analysis.Real.Sqrt
import Mathlib.Algebra.BigOperators.Fin
import Mathlib.Algebra.BigOperators.Ring.Finset
import Mathlib.Algebra.Order.BigOperators.Ring.Finset
import Mathlib.Tactic.Ring
import Mathlib.Tactic.Linarith
import Mathlib.Tactic.Positivity
import Mathlib.Tactic.NormNum
/-! Helper lemmas about the clip model over ℝ. -/
namespace Opacus.Clip

noncomputable instance : HasSqrt ℝ := ⟨Real.sqrt⟩

theorem sumFin_eq_sum {R} [AddCommMonoid R] (n : Nat) (f : Fin n → R) :
    sumFin n f = ∑ i, f i := by
  unfold sumFin
  induction n with
  | zero => simp [Fin.foldl_zero]
  | succ n ih => rw [Fin.foldl_succ_last, Fin.sum_univ_castSucc, ← ih]

theorem norm2_eq {n : Nat} (v : Fin n → ℝ) : norm2 v = Real.sqrt (∑ i, v i * v i) := by
  simp [norm2, HasSqrt.sqrt, sumFin_eq_sum]

theorem norm2_nonneg {n : Nat} (v : Fin n → ℝ) : 0 ≤ norm2 v := by
  rw [norm2_eq]; exact Real.sqrt_nonneg _

theorem norm2_sq {n : Nat} (v : Fin n → ℝ) : norm2 v * norm2 v = ∑ i, v i * v i := by
  rw [norm2_eq]
  exact Real.mul_self_sqrt (Finset.sum_nonneg fun i _ => mul_self_nonneg _)

theorem norm2_smul {n : Nat} (c : ℝ) (v : Fin n → ℝ) :
    norm2 (fun i => c * v i) = |c| * norm2 v := by
  rw [norm2_eq, norm2_eq]
  have : ∑ i, c * v i * (c * v i) = c ^ 2 * ∑ i, v i * v i := by
    rw [Finset.mul_sum]; exact Finset.sum_congr rfl fun i _ => by ring
  rw [this, Real.sqrt_mul (sq_nonneg c), Real.sqrt_sq_eq_abs]

theorem norm2_le_of_sq_le {n m : Nat} (v : Fin n → ℝ) (w : Fin m → ℝ)
    (h : ∑ i, v i * v i ≤ ∑ i, w i * w i) : norm2 v ≤ norm2 w := by
  rw [norm2_eq, norm2_eq]; exact Real.sqrt_le_sqrt h

/-- the joint norm the code computes (norm of the per-tensor norms) is the Euclidean norm of all
entries together -/
theorem flatNorm_eq {P : Nat} {d : Fin P → Nat} (g : Grad ℝ d) :
    flatNorm g = Real.sqrt (∑ k, ∑ i, g k i * g k i) := by
  unfold flatNorm
  rw [norm2_eq]
  congr 1
  exact Finset.sum_congr rfl fun k _ => norm2_sq _

theorem flatNorm_nonneg {P : Nat} {d : Fin P → Nat} (g : Grad ℝ d) : 0 ≤ flatNorm g :=
  norm2_nonneg _

theorem flatNorm_gscale_const {P : Nat} {d : Fin P → Nat} (c : ℝ) (g : Grad ℝ d) :
    flatNorm (gscale (fun _ => c) g) = |c| * flatNorm g := by
  unfold flatNorm
  have : paramNorms (gscale (fun _ => c) g) = fun k => |c| * paramNorms g k := by
    funext k; exact norm2_smul c (g k)
  rw [this, norm2_smul, abs_abs]

/-! ### the clip factor -/

theorem eps_pos : (0 : ℝ) < 1e-6 := by norm_num

theorem clipFactor_pos {C n : ℝ} (hC : 0 < C) (hn : 0 ≤ n) : 0 < clipFactor C n := by
  unfold clipFactor
  have : 0 < n + 1e-6 := by have := eps_pos; linarith
  exact lt_min one_pos (div_pos hC this)

theorem clipFactor_le_one (C n : ℝ) : clipFactor C n ≤ 1 := min_le_left _ _

/-- the heart of clipping: factor × norm stays strictly below the bound -/
theorem clipFactor_mul_lt {C n : ℝ} (hC : 0 < C) (hn : 0 ≤ n) : clipFactor C n * n < C := by
  unfold clipFactor
  have he := eps_pos
  have hpos : 0 < n + 1e-6 := by linarith
  calc min 1 (C / (n + 1e-6)) * n ≤ C / (n + 1e-6) * n :=
        mul_le_mul_of_nonneg_right (min_le_right _ _) hn
    _ = C * (n / (n + 1e-6)) := by ring
    _ < C * 1 := by
        apply mul_lt_mul_of_pos_left _ hC
        rw [div_lt_one hpos]; linarith
    _ = C := mul_one C

theorem clipFactor_eq_one {C n : ℝ} (h : n + 1e-6 ≤ C) (hn : 0 ≤ n) : clipFactor C n = 1 := by
  unfold clipFactor
  have he := eps_pos
  have hpos : 0 < n + 1e-6 := by linarith
  apply min_eq_left
  rw [le_div_iff₀ hpos]; linarith

/-! ### batch sums as list sums, pointwise -/

section sums
variable {P : Nat} {d : Fin P → Nat}

theorem foldl_gadd_apply {α : Type} (f : α → Grad ℝ d) (l : List α) (a : Grad ℝ d)
    (k : Fin P) (i : Fin (d k)) :
    (l.foldl (fun acc g => gadd acc (f g)) a) k i = a k i + (l.map (fun g => f g k i)).sum := by
  induction l generalizing a with
  | nil => simp
  | cons x xs ih => simp [List.foldl_cons, ih, gadd, add_assoc]

theorem batchSum_apply (m : Mode ℝ P) (l : List (Grad ℝ d)) (k : Fin P) (i : Fin (d k)) :
    batchSum m l k i = (l.map (fun g => clipped m g k i)).sum := by
  unfold batchSum
  rw [foldl_gadd_apply]; simp [gzero]

theorem batchSum_append (m : Mode ℝ P) (l₁ l₂ : List (Grad ℝ d)) :
    batchSum m (l₁ ++ l₂) = gadd (batchSum m l₁) (batchSum m l₂) := by
  funext k i; simp [gadd, batchSum_apply]

theorem batchSum_nil (m : Mode ℝ P) : batchSum m ([] : List (Grad ℝ d)) = gzero := rfl

theorem batchSum_singleton (m : Mode ℝ P) (g : Grad ℝ d) : batchSum m [g] = clipped m g := by
  funext k i; simp [batchSum_apply]

/-- removing one sample from a physical batch changes the clipped sum by exactly that sample's
clipped gradient -/
theorem batchSum_remove (m : Mode ℝ P) (l₁ l₂ : List (Grad ℝ d)) (x : Grad ℝ d) :
    gsub (batchSum m (l₁ ++ [x] ++ l₂)) (batchSum m (l₁ ++ l₂)) = clipped m x := by
  funext k i
  simp only [gsub, batchSum_apply, List.map_append, List.sum_append, List.map_cons, List.map_nil,
    List.sum_cons, List.sum_nil]
  ring

end sums

end Opacus.Clip
