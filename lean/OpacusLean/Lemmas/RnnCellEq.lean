import OpacusLean.Model.RnnCells
set_option linter.unusedSimpArgs false
set_option linter.unusedSectionVars false
namespace Opacus.Rnn
variable {R : Type} [Add R] [Mul R] [Sub R] [Zero R] [One R] [Act R]

theorem chunk_getElem? (H k j : Nat) (v : List R) (hj : j < H) : (chunk H k v)[j]? = v[k * H + j]? := by
  simp [chunk, List.getElem?_take, hj, List.getElem?_drop]

theorem vadd_getElem? {a b : List R} {j : Nat} {x y : R} (ha : a[j]? = some x) (hb : b[j]? = some y) :
    (vadd a b)[j]? = some (x + y) := by
  simp [vadd, List.getElem?_zipWith, ha, hb]

theorem vmul_getElem? {a b : List R} {j : Nat} {x y : R} (ha : a[j]? = some x) (hb : b[j]? = some y) :
    (vmul a b)[j]? = some (x * y) := by
  simp [vmul, List.getElem?_zipWith, ha, hb]

/-- `nn.Linear`: output feature `j` is `⟨W_j, x⟩ (+ b_j)` -/
theorem linear_getElem?_bias {W : List (List R)} {b x row : List R} {j : Nat} {bj : R}
    (hW : W[j]? = some row) (hb : b[j]? = some bj) : (linear W (some b) x)[j]? = some (dot row x + bj) := by
  simp [linear, vadd, List.getElem?_zipWith, hW, hb]

theorem linear_getElem?_nobias {W : List (List R)} {x row : List R} {j : Nat}
    (hW : W[j]? = some row) : (linear W none x)[j]? = some (dot row x) := by
  simp [linear, hW]

/-- pre-activations of a cell: `ih(x) + hh(h)` -/
def gatesOf (w : CellW R) (x h : List R) : List R := vadd (linear w.wih w.bih x) (linear w.whh w.bhh h)

/-- Elman cell: `h'_j = act(ih(x)_j + hh(h)_j)` -/
theorem rnn_cell_eq (relu : Bool) (w : CellW R) (x h : List R) (j : Nat) (a b : R)
    (ha : (linear w.wih w.bih x)[j]? = some a) (hb : (linear w.whh w.bhh h)[j]? = some b) :
    (rnnCell relu w x h)[j]? = some ((if relu then Act.relu else Act.tanh) (a + b)) := by
  simp [rnnCell, vadd_getElem? ha hb]

/-- LSTM cell with the torch gate order `(i, f, g, o)`:
`c' = σ(f)·c + σ(i)·tanh(g)`, `h' = σ(o)·tanh(c')` where gate `k` of unit `j` is row `k·H + j` -/
theorem lstm_cell_eq (H : Nat) (w : CellW R) (x h c : List R) (j : Nat) (hj : j < H) (gi gf gg go cj : R)
    (hi : (gatesOf w x h)[j]? = some gi) (hf : (gatesOf w x h)[H + j]? = some gf)
    (hg : (gatesOf w x h)[2 * H + j]? = some gg) (ho : (gatesOf w x h)[3 * H + j]? = some go)
    (hc : c[j]? = some cj) :
    (lstmCell H w x (h, c)).2[j]? = some (Act.sigmoid gf * cj + Act.sigmoid gi * Act.tanh gg) ∧
    (lstmCell H w x (h, c)).1[j]? =
      some (Act.sigmoid go * Act.tanh (Act.sigmoid gf * cj + Act.sigmoid gi * Act.tanh gg)) := by
  have e0 : (chunk H 0 (gatesOf w x h))[j]? = some gi := by rw [chunk_getElem? _ _ _ _ hj]; simpa using hi
  have e1 : (chunk H 1 (gatesOf w x h))[j]? = some gf := by rw [chunk_getElem? _ _ _ _ hj]; simpa using hf
  have e2 : (chunk H 2 (gatesOf w x h))[j]? = some gg := by rw [chunk_getElem? _ _ _ _ hj]; simpa using hg
  have e3 : (chunk H 3 (gatesOf w x h))[j]? = some go := by rw [chunk_getElem? _ _ _ _ hj]; simpa using ho
  have hcn : (vadd (vmul ((chunk H 1 (gatesOf w x h)).map Act.sigmoid) c)
      (vmul ((chunk H 0 (gatesOf w x h)).map Act.sigmoid) ((chunk H 2 (gatesOf w x h)).map Act.tanh)))[j]? =
      some (Act.sigmoid gf * cj + Act.sigmoid gi * Act.tanh gg) := by
    apply vadd_getElem?
    · exact vmul_getElem? (by simp [e1]) hc
    · exact vmul_getElem? (by simp [e0]) (by simp [e2])
  have hc2 : (lstmCell H w x (h, c)).2[j]? = some (Act.sigmoid gf * cj + Act.sigmoid gi * Act.tanh gg) := hcn
  refine ⟨hc2, ?_⟩
  have hh : (lstmCell H w x (h, c)).1 = vmul ((chunk H 3 (gatesOf w x h)).map Act.sigmoid)
      ((lstmCell H w x (h, c)).2.map Act.tanh) := rfl
  rw [hh]
  exact vmul_getElem? (by simp [e3]) (by rw [List.getElem?_map, hc2]; rfl)

/-- GRU cell with the torch gate order `(r, z, n)`:
`r = σ(x_r + h_r)`, `z = σ(x_z + h_z)`, `n = tanh(x_n + r·h_n)`, `h' = (1 − z)·n + z·h` -/
theorem gru_cell_eq (H : Nat) (w : CellW R) (x h : List R) (j : Nat) (hj : j < H)
    (xr xz xn hr hz hn hj' : R)
    (h1 : (linear w.wih w.bih x)[j]? = some xr) (h2 : (linear w.wih w.bih x)[H + j]? = some xz)
    (h3 : (linear w.wih w.bih x)[2 * H + j]? = some xn)
    (h4 : (linear w.whh w.bhh h)[j]? = some hr) (h5 : (linear w.whh w.bhh h)[H + j]? = some hz)
    (h6 : (linear w.whh w.bhh h)[2 * H + j]? = some hn) (h7 : h[j]? = some hj') :
    (gruCell H w x h)[j]? =
      some ((1 - Act.sigmoid (xz + hz)) * Act.tanh (xn + Act.sigmoid (xr + hr) * hn)
            + Act.sigmoid (xz + hz) * hj') := by
  have a0 : (chunk H 0 (linear w.wih w.bih x))[j]? = some xr := by rw [chunk_getElem? _ _ _ _ hj]; simpa using h1
  have a1 : (chunk H 1 (linear w.wih w.bih x))[j]? = some xz := by rw [chunk_getElem? _ _ _ _ hj]; simpa using h2
  have a2 : (chunk H 2 (linear w.wih w.bih x))[j]? = some xn := by rw [chunk_getElem? _ _ _ _ hj]; simpa using h3
  have b0 : (chunk H 0 (linear w.whh w.bhh h))[j]? = some hr := by rw [chunk_getElem? _ _ _ _ hj]; simpa using h4
  have b1 : (chunk H 1 (linear w.whh w.bhh h))[j]? = some hz := by rw [chunk_getElem? _ _ _ _ hj]; simpa using h5
  have b2 : (chunk H 2 (linear w.whh w.bhh h))[j]? = some hn := by rw [chunk_getElem? _ _ _ _ hj]; simpa using h6
  have hr' := vadd_getElem? a0 b0
  have hz' := vadd_getElem? a1 b1
  simp only [gruCell]
  apply vadd_getElem?
  · apply vmul_getElem?
    · simp [hz']
    · simp only [List.getElem?_map]
      have hrs : ((vadd (chunk H 0 (linear w.wih w.bih x)) (chunk H 0 (linear w.whh w.bhh h))).map Act.sigmoid)[j]? =
          some (Act.sigmoid (xr + hr)) := by simp [hr']
      rw [vadd_getElem? a2 (vmul_getElem? hrs b2)]; rfl
  · exact vmul_getElem? (by simp [hz']) h7

end Opacus.Rnn
