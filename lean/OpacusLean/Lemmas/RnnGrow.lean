import OpacusLean.Lemmas.RnnSeq
namespace Opacus.Rnn
variable {α β X S : Type}

/-! ### reverse direction of the packed loop: batch growing, new rows start from `h_0[prev:cur]` -/

/-- the state every row would be fed next: rows already running come from `h`, the others from `h_0` -/
def virt (h0 h : List S) : List S := h ++ h0.drop h.length

theorem stepPacked_grow (cell : X → S → S) (h0 h : List S) (x : List X) (hx : h.length ≤ x.length) :
    stepPacked cell h0 h x = List.zipWith cell x ((virt h0 h).take x.length) := by
  unfold stepPacked virt
  by_cases hgt : x.length > h.length
  · simp only [hgt, if_true]
    congr 1
    rw [List.take_append, List.take_append, List.take_of_length_le (Nat.le_of_lt hgt), List.drop_take]
    simp [List.take_take]
  · have heq : x.length = h.length := by omega
    simp [heq]

theorem virt_getElem?_lt {h0 h : List S} {i : Nat} (hi : i < h.length) : (virt h0 h)[i]? = h[i]? := by
  simp [virt, List.getElem?_append_left hi]

theorem virt_getElem?_ge {h0 h : List S} {i : Nat} (hi : h.length ≤ i) : (virt h0 h)[i]? = h0[i]? := by
  simp [virt, List.getElem?_append_right hi, List.getElem?_drop]
  congr 1; omega

theorem packed_grow_scan (cell : X → S → S) (h0 : List S) :
    ∀ (xs : List (List X)) (h : List S),
      (xs.map List.length).Pairwise (· ≤ ·) → (∀ x ∈ xs, x.length ≤ h0.length) →
      (∀ x ∈ xs, h.length ≤ x.length) →
      (scanSteps (stepPacked cell h0) h xs).map List.length = xs.map List.length ∧
      ∀ i s, (virt h0 h)[i]? = some s →
        seqOf (scanSteps (stepPacked cell h0) h xs) i = scanCell cell s (seqOf xs i) := by
  intro xs
  induction xs with
  | nil => intro h _ _ _; exact ⟨rfl, fun i s _ => rfl⟩
  | cons x xs ih =>
    intro h hp hb hl
    have hxl : h.length ≤ x.length := hl x (by simp)
    have hx0 : x.length ≤ h0.length := hb x (by simp)
    simp only [List.map_cons, List.pairwise_cons] at hp
    obtain ⟨hhead, hp'⟩ := hp
    have hstep := stepPacked_grow cell h0 h x hxl
    have hvl : x.length ≤ (virt h0 h).length := by
      simp [virt]; omega
    have hlen : (stepPacked cell h0 h x).length = x.length := by
      rw [hstep]; simp [List.length_zipWith, List.length_take, Nat.min_eq_left hvl]
    have hl' : ∀ y ∈ xs, (stepPacked cell h0 h x).length ≤ y.length := by
      intro y hy; rw [hlen]; exact hhead y.length (List.mem_map_of_mem hy)
    obtain ⟨ihs, ihv⟩ := ih (stepPacked cell h0 h x) hp' (fun y hy => hb y (by simp [hy])) hl'
    refine ⟨by simp [scanSteps, hlen, ihs], ?_⟩
    intro i s hs
    simp only [scanSteps]
    cases hxi : x[i]? with
    | some a =>
      have hi : i < x.length := by
        rcases List.getElem?_eq_some_iff.mp hxi with ⟨hi, _⟩; exact hi
      have hrow : (stepPacked cell h0 h x)[i]? = some (cell a s) := by
        rw [hstep, List.getElem?_zipWith, hxi, List.getElem?_take]
        simp [hi, hs]
      have hv' : (virt h0 (stepPacked cell h0 h x))[i]? = some (cell a s) := by
        rw [virt_getElem?_lt (by rw [hlen]; exact hi)]; exact hrow
      rw [seqOf_cons_some hrow, seqOf_cons_some hxi, ihv i (cell a s) hv']
      rfl
    | none =>
      have hi : x.length ≤ i := List.getElem?_eq_none_iff.mp hxi
      have hrow : (stepPacked cell h0 h x)[i]? = none := by
        rw [List.getElem?_eq_none_iff, hlen]; exact hi
      have hv' : (virt h0 (stepPacked cell h0 h x))[i]? = some s := by
        rw [virt_getElem?_ge (by rw [hlen]; exact hi), ← virt_getElem?_ge (h := h) (Nat.le_trans hxl hi)]
        exact hs
      rw [seqOf_cons_none hrow, seqOf_cons_none hxi]
      exact ihv i s hv'

/-- the very first step of the loop runs on `h_n[0] = h_0` itself (`delta ≤ 0`, rows `h_0[:bt]`):
the same as starting from an empty running batch -/
theorem scanSteps_packed_h0 (cell : X → S → S) (h0 : List S) (xs : List (List X))
    (hb : ∀ x ∈ xs, x.length ≤ h0.length) :
    scanSteps (stepPacked cell h0) h0 xs = scanSteps (stepPacked cell h0) [] xs := by
  cases xs with
  | nil => rfl
  | cons x xs =>
    have hx : x.length ≤ h0.length := hb x (by simp)
    have : stepPacked cell h0 h0 x = stepPacked cell h0 [] x := by
      rw [stepPacked_shrink cell h0 h0 x hx, stepPacked_grow cell h0 [] x (Nat.zero_le _)]
      simp [virt]
    simp [scanSteps, this]

end Opacus.Rnn
