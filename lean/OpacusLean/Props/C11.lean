import OpacusLean.Generated.ZeroGrad
import OpacusLean.Lemmas.EngineEffect
/-! # C11 — no per-sample gradient is ever released twice; stale state never leaks

Statements are about the protocol machine `Opacus.Engine` (Model/Engine.lean), for **every finite
sequence** over {forward+backward(batch), optimizer.step, optimizer.zero_grad, module.zero_grad,
signal_skip_step(True/False), scheduler writes}, by induction – no bound on length or batch sizes. -/
namespace Opacus.C11
open Opacus.Engine List

def Inv (s : St) : Prop :=
  (rel s ++ pending s).Nodup ∧ ∀ t ∈ rel s ++ pending s, t < s.next

theorem inv_init (σ C : Nat) : Inv (init σ C) := by
  simp [Inv, init, rel, pending, releases, pendSummed]

theorem inv_step (c : Cfg) (hc : c.kind = .std) (s : St) (o : Op) (h : Inv s) :
    Inv (stepOp c s o).1 := by
  obtain ⟨hnd, hlt⟩ := h
  cases stepOp_effect c hc s o with
  | same hr hp hn =>
    have hsub : (rel (stepOp c s o).1 ++ pending (stepOp c s o).1).Sublist (rel s ++ pending s) := by
      rw [hr]; exact List.Sublist.append (List.Sublist.refl _) hp
    exact ⟨hnd.sublist hsub, fun t ht => by rw [hn]; exact hlt t (hsub.subset ht)⟩
  | fresh n hr hp hn =>
    rw [Inv, hr, hp, hn, ← List.append_assoc]
    refine ⟨List.nodup_append.mpr ⟨hnd, fresh_nodup _ _, ?_⟩, ?_⟩
    · intro a ha b hb hab
      have := hlt a ha
      have := (mem_fresh.mp hb).1
      omega
    · intro t ht
      rcases List.mem_append.mp ht with h1 | h2
      · have := hlt t h1; omega
      · exact (mem_fresh.mp h2).2
  | release hr hp hn =>
    rw [Inv, hr, hp, hn, List.append_nil]
    exact ⟨hnd, hlt⟩

theorem inv_run (c : Cfg) (hc : c.kind = .std) (ops : List Op) (s : St) (h : Inv s) :
    Inv (run c s ops) := by
  induction ops generalizing s with
  | nil => exact h
  | cons o ops ih => exact ih _ (inv_step c hc s o h)

/-- **no_double_release** (DPOptimizer / per-layer / adaptive; hooks, functorch, ew): after *any*
finite operation sequence, no token – i.e. no per-sample gradient of any backward pass – occurs
twice among everything ever handed to the inner optimizer, and nothing still pending duplicates a
released one. -/
theorem no_double_release (c : Cfg) (hc : c.kind = .std) (σ C : Nat) (ops : List Op) :
    ((releases (run c (init σ C) ops).log).flatten ++ pending (run c (init σ C) ops)).Nodup :=
  (inv_run c hc ops _ (inv_init σ C)).1

/-- every logical step hands the inner optimizer **exactly** what has been accumulated and not
cleared since the previous release – each token once (see `no_double_release`) – together with
exactly one noise block and exactly one accountant record, in this order, and leaves nothing pending -/
theorem release_shape (c : Cfg) (hc : c.kind = .std) (s s' : St)
    (h : stepOp c s .step = (s', .released)) :
    s'.log = s.log ++ [.noise s.sigma s.clip, .account s.sigma s.gs.length, .inner (pending s)]
      ∧ pending s' = [] := by
  simp only [stepOp, hc] at h
  split at h
  · simp at h
  · split at h
    · simp at h
    · rename_i hne hany
      have hany' : s.gs.any (·.processed) = false := by simpa using hany
      have hun := unproc_of_none_processed hany'
      unfold finishStep at h
      cases hq : popQueue s.queue with
      | mk skip q' =>
      simp only [hq] at h
      by_cases hskip : skip
      · simp [hskip] at h
      · simp only [hskip, Bool.false_eq_true, if_false] at h
        by_cases hp : (accumulateInto s.summed (s.gs.map (·.toks)).flatten).processed
        · simp [hp] at h
        · simp only [hp, Bool.false_eq_true, if_false] at h
          have hp' : (accumulateInto s.summed (s.gs.map (·.toks)).flatten).processed = false := by
            simpa using hp
          have htoks := pending_accumulate_unprocessed s.summed _ hp'
          split at h
          · simp at h
          · have hs := (Prod.mk.inj h).1
            subst hs
            simp [pending, hun, htoks, unproc_mark, pendSummed]

/-- operations other than a successful logical step never hand anything to the inner optimizer and
never touch the accountant -/
theorem no_release_unless_released (c : Cfg) (s : St) (o : Op)
    (h : (stepOp c s o).2 ≠ .released) :
    releases (stepOp c s o).1.log = releases s.log ∧ accounts (stepOp c s o).1.log = accounts s.log := by
  cases o with
  | signal b => simp [stepOp]
  | setSigma v => simp [stepOp]
  | setClip v => simp [stepOp]
  | optZeroGrad => simp [stepOp, optZero]
  | modZeroGrad => simp [stepOp]
  | fwdBwd n =>
    simp only [stepOp]
    cases c.kind <;> simp only [] <;> (try split) <;> simp [optZero]
  | step =>
    have key : ∀ (sm : Flagged) (gs' : List Flagged) (k : Nat),
        (finishStep c s sm gs' k).2 ≠ .released →
        releases (finishStep c s sm gs' k).1.log = releases s.log ∧
        accounts (finishStep c s sm gs' k).1.log = accounts s.log := by
      intro sm gs' k
      unfold finishStep
      cases hq : popQueue s.queue with
      | mk skip q' =>
      simp only
      by_cases hskip : skip
      · simp [hskip]
      · simp only [hskip, Bool.false_eq_true, if_false]
        by_cases hp : sm.processed
        · simp [hp]
        · simp only [hp, Bool.false_eq_true, if_false]
          split
          · intro _; simp [accounts, releases, List.filterMap_append]
          · intro hh; simp at hh
    simp only [stepOp] at h ⊢
    cases hk : c.kind with
    | std =>
      simp only [hk] at h ⊢
      split
      · simp
      · split
        · simp
        · rename_i h1 h2
          simp only [h1, h2, if_false] at h
          exact key _ _ _ h
    | ghost =>
      simp only [hk] at h ⊢
      cases hpg : s.pgrad with
      | none => simp
      | some g =>
        simp only [hpg] at h
        exact key _ _ _ h

theorem std_step_any_processed (c : Cfg) (hc : c.kind = .std) (st : St) (hne : st.gs ≠ [])
    (hany : st.gs.any (·.processed) = true) : stepOp c st .step = (st, .errProcessed) := by
  simp [stepOp, hc, hne, hany]

theorem fwdBwd_std_state (c : Cfg) (hc : c.kind = .std) (s : St) (n : Nat) :
    (stepOp c s (.fwdBwd n)).1 = { s with gs := s.gs ++ [⟨fresh s.next n, false⟩], next := s.next + n } := by
  simp only [stepOp, hc]; split <;> rfl

/-- **reuse_raises (step; step)**: immediately after a logical step, a second `step()` raises the
processed-flag error and changes nothing -/
theorem step_step_raises (c : Cfg) (hc : c.kind = .std) (s s' : St)
    (h : stepOp c s .step = (s', .released)) :
    stepOp c s' .step = (s', .errProcessed) := by
  have hgs : s'.gs = s.gs.map (fun f => { f with processed := true }) ∧ s.gs ≠ [] := by
    simp only [stepOp, hc] at h
    split at h
    · simp at h
    · split at h
      · simp at h
      · rename_i hne _
        refine ⟨?_, hne⟩
        unfold finishStep at h
        cases hq : popQueue s.queue with
        | mk skip q' =>
        simp only [hq] at h
        by_cases hskip : skip
        · simp [hskip] at h
        · simp only [hskip, Bool.false_eq_true, if_false] at h
          split at h
          · simp at h
          · split at h
            · simp at h
            · have hs := (Prod.mk.inj h).1
              subst hs; rfl
  obtain ⟨hgs, hne⟩ := hgs
  have hne' : s'.gs ≠ [] := by rw [hgs]; simpa using hne
  have hany : s'.gs.any (·.processed) = true := by
    rw [hgs]
    cases hg : s.gs with
    | nil => exact absurd hg hne
    | cons a t => simp
  simp [stepOp, hc, hne', hany]

/-- **reuse_raises (step; backward; step)**: stepping after a new backward without clearing raises
and changes nothing (accumulation allowed – otherwise the backward itself already raised) -/
theorem step_backward_step_raises (c : Cfg) (hc : c.kind = .std) (s s' : St) (n : Nat)
    (h : stepOp c s .step = (s', .released)) :
    stepOp c (stepOp c s' (.fwdBwd n)).1 .step = ((stepOp c s' (.fwdBwd n)).1, .errProcessed) := by
  have h2 := step_step_raises c hc s s' h
  have hany : s'.gs.any (·.processed) = true := by
    simp only [stepOp, hc] at h2
    split at h2
    · simp at h2
    · split at h2
      · rename_i _ ha; exact ha
      · rename_i _ ha
        exfalso
        unfold finishStep at h2
        cases hq : popQueue s'.queue with
        | mk skip q' =>
        simp only [hq] at h2
        by_cases hskip : skip
        · simp [hskip] at h2
        · simp only [hskip, Bool.false_eq_true, if_false] at h2
          split at h2
          · have := (Prod.mk.inj h2).1
            have hgs := congrArg St.gs this
            simp at hgs
            have : s'.gs.any (·.processed) = true := by
              rw [← hgs]
              cases hg : s'.gs with
              | nil => simp_all
              | cons a t => simp
            exact ha this
          · split at h2 <;> simp at h2
  have hgs : (stepOp c s' (.fwdBwd n)).1.gs = s'.gs ++ [⟨fresh s'.next n, false⟩] := by
    simp only [stepOp, hc]; split <;> rfl
  apply std_step_any_processed c hc
  · rw [hgs]; simp
  · rw [hgs]; simp [hany]

/-- **poisson_second_backward_raises**: with gradient accumulation forbidden (Poisson sampling) a
backward pass while per-sample gradients of an earlier pass are still attached raises -/
theorem poisson_second_backward_raises (c : Cfg) (hc : c.kind = .std) (hacc : c.accumAllowed = false)
    (s : St) (n : Nat) (hgs : s.gs ≠ []) : (stepOp c s (.fwdBwd n)).2 = .errAccum := by
  have hpos : 0 < s.gs.length := List.length_pos_iff.mpr hgs
  simp [stepOp, hc, hacc, hpos]

/-- **module_zero_grad_safe**: clearing on the module instead of the optimizer after a release, then a
new backward and a step, raises (the stale `summed_grad` keeps its processed flag through `+=`) and
releases nothing -/
theorem module_zero_grad_then_step_raises (c : Cfg) (hc : c.kind = .std) (s s' : St) (n : Nat)
    (h : stepOp c s .step = (s', .released)) (hq : s'.queue = []) :
    (stepOp c (stepOp c (stepOp c s' .modZeroGrad).1 (.fwdBwd n)).1 .step).2 = .errProcessed := by
  have hsum : ∃ t, s'.summed = some ⟨t, true⟩ := by
    simp only [stepOp, hc] at h
    split at h
    · simp at h
    · split at h
      · simp at h
      · unfold finishStep at h
        cases hq : popQueue s.queue with
        | mk skip q' =>
        simp only [hq] at h
        by_cases hskip : skip
        · simp [hskip] at h
        · simp only [hskip, Bool.false_eq_true, if_false] at h
          split at h
          · simp at h
          · split at h
            · simp at h
            · have hs := (Prod.mk.inj h).1
              subst hs; exact ⟨_, rfl⟩
  obtain ⟨t, ht⟩ := hsum
  rw [fwdBwd_std_state c hc]
  simp [stepOp, hc, finishStep, accumulateInto, ht, hq, popQueue]

/-! ## Ghost clipping (DPOptimizerFastGradientClipping): the guarantee fails as coded -/

/-- **ghost_double_release_counterexample** (finding D10): `backward; signal_skip_step(True); step;
step` hands the inner optimizer every per-sample gradient of the batch twice, with a single noise
block and a single accountant record. -/
theorem ghost_double_release_counterexample :
    releases (run ⟨.ghost, true, false⟩ (init 1 1) [.fwdBwd 2, .signal true, .step, .step]).log
      = [[0, 1, 0, 1]] ∧
    accounts (run ⟨.ghost, true, false⟩ (init 1 1) [.fwdBwd 2, .signal true, .step, .step]).log
      = [(1, 1)] := by decide

/-! ### … but holds under the usage discipline of every training loop -/

/-- usage discipline under which the ghost-clipping optimizer is safe as coded: between two
`optimizer.step()` calls there is a backward pass or a gradient clearing (what every training loop,
with or without BatchMemoryManager, does). `armed` = "p.grad has already been accumulated". -/
def disciplined : Bool → List Op → Bool
  | _, [] => true
  | armed, .step :: ops => !armed && disciplined true ops
  | _, .fwdBwd _ :: ops => disciplined false ops
  | _, .optZeroGrad :: ops => disciplined false ops
  | _, .modZeroGrad :: ops => disciplined false ops
  | armed, .signal _ :: ops => disciplined armed ops
  | armed, .setSigma _ :: ops => disciplined armed ops
  | armed, .setClip _ :: ops => disciplined armed ops

def armedAfter (armed : Bool) : Op → Bool
  | .step => true
  | .fwdBwd _ => false
  | .optZeroGrad => false
  | .modZeroGrad => false
  | _ => armed

def pendG (s : St) (armed : Bool) : List Nat :=
  pendSummed s.summed ++ (if armed then [] else s.pgrad.getD [])

def InvG (s : St) (armed : Bool) : Prop :=
  (rel s ++ pendG s armed).Nodup ∧ ∀ t ∈ rel s ++ pendG s armed, t < s.next

theorem pendSummed_optZero_sublist (s : St) : (pendSummed (optZero s).summed).Sublist (pendSummed s.summed) := by
  simp only [optZero]
  by_cases h : s.lastSkipped <;> simp [h, pendSummed]

theorem pendSummed_sublist_pendG (s : St) (armed : Bool) : (pendSummed s.summed).Sublist (pendG s armed) := by
  simp [pendG]

theorem invG_of_sublist {s s' : St} {armed armed' : Bool} (h : InvG s armed)
    (hr : rel s' = rel s) (hp : (pendG s' armed').Sublist (pendG s armed)) (hn : s'.next = s.next) :
    InvG s' armed' := by
  obtain ⟨hnd, hlt⟩ := h
  have hsub : (rel s' ++ pendG s' armed').Sublist (rel s ++ pendG s armed) := by
    rw [hr]; exact List.Sublist.append (List.Sublist.refl _) hp
  exact ⟨hnd.sublist hsub, fun t ht => by rw [hn]; exact hlt t (hsub.subset ht)⟩

theorem finishStep_ghost_inv (c : Cfg) (s : St) (g : List Nat) (k : Nat)
    (hg : s.pgrad = some g) (h : InvG s false) :
    InvG (finishStep c s (accumulateInto s.summed g) s.gs k).1 true := by
  have hpend : pendG s false = pendSummed s.summed ++ g := by simp [pendG, hg]
  unfold finishStep
  cases hq : popQueue s.queue with
  | mk skip q' =>
  simp only
  by_cases hskip : skip
  · simp only [hskip, if_true]
    refine invG_of_sublist h (by simp [rel]) ?_ rfl
    rw [hpend]
    simp only [pendG, if_true, List.append_nil]
    exact pendSummed_accumulate_sublist _ _
  · simp only [hskip, Bool.false_eq_true, if_false]
    by_cases hp : (accumulateInto s.summed g).processed
    · simp only [hp, if_true]
      refine invG_of_sublist h (by simp [rel]) ?_ rfl
      simp [pendG, pendSummed, hp]
    · simp only [hp, Bool.false_eq_true, if_false]
      have hp' : (accumulateInto s.summed g).processed = false := by simpa using hp
      have htoks := pending_accumulate_unprocessed s.summed g hp'
      split
      · refine invG_of_sublist h (by simp [rel]) ?_ rfl
        simp [pendG, pendSummed]
      · obtain ⟨hnd, hlt⟩ := h
        have hrel : ∀ (st : St), st.log = s.log ++ [.noise s.sigma s.clip] ++ [.account s.sigma k, .inner (accumulateInto s.summed g).toks] →
            rel st = rel s ++ pendG s false := by
          intro st hst
          simp [rel, hst, hpend, htoks]
        refine ⟨?_, ?_⟩
        · simp only [pendG, pendSummed, if_true, List.append_nil]
          rw [hrel _ (by simp)]
          exact hnd
        · intro t ht
          simp only [pendG, pendSummed, if_true, List.append_nil] at ht
          rw [hrel _ (by simp)] at ht
          exact hlt t ht

theorem invG_step (c : Cfg) (hc : c.kind = .ghost) (s : St) (o : Op) (armed : Bool)
    (hd : o = .step → armed = false) (h : InvG s armed) :
    InvG (stepOp c s o).1 (armedAfter armed o) := by
  cases o with
  | signal b => exact h
  | setSigma v => exact h
  | setClip v => exact h
  | optZeroGrad =>
    refine invG_of_sublist h rfl ?_ rfl
    simp only [stepOp, armedAfter, pendG, Bool.false_eq_true, if_false]
    have : ((optZero s).pgrad.getD []) = [] := by
      simp only [optZero]; cases s.pgrad <;> simp
    rw [this, List.append_nil]
    exact (pendSummed_optZero_sublist s).trans (pendSummed_sublist_pendG s armed)
  | modZeroGrad =>
    refine invG_of_sublist h rfl ?_ rfl
    simp only [stepOp, armedAfter, pendG, Bool.false_eq_true, if_false]
    have : (Option.map (fun _ => ([] : List Nat)) s.pgrad).getD [] = [] := by cases s.pgrad <;> simp
    rw [this, List.append_nil]
    exact pendSummed_sublist_pendG s armed
  | fwdBwd n =>
    obtain ⟨hnd, hlt⟩ := h
    simp only [stepOp, hc, armedAfter]
    have hsub : (rel s ++ pendSummed (optZero s).summed).Sublist (rel s ++ pendG s armed) :=
      List.Sublist.append (List.Sublist.refl _) ((pendSummed_optZero_sublist s).trans (pendSummed_sublist_pendG s armed))
    have hrel : rel { optZero s with pgrad := some (fresh s.next n), next := s.next + n } = rel s := by
      simp [rel, optZero]
    refine ⟨?_, ?_⟩
    · rw [hrel]
      simp only [pendG, Bool.false_eq_true, if_false, Option.getD_some]
      rw [← List.append_assoc]
      refine List.nodup_append.mpr ⟨hnd.sublist hsub, fresh_nodup _ _, ?_⟩
      intro a ha b hb hab
      have := hlt a (hsub.subset ha)
      have := (mem_fresh.mp hb).1
      omega
    · intro t ht
      rw [hrel] at ht
      simp only [pendG, Bool.false_eq_true, if_false, Option.getD_some, ← List.append_assoc] at ht
      rcases List.mem_append.mp ht with h1 | h2
      · have := hlt t (hsub.subset h1); simp; omega
      · exact (mem_fresh.mp h2).2
  | step =>
    have ha := hd rfl
    subst ha
    simp only [stepOp, hc, armedAfter]
    cases hpg : s.pgrad with
    | none =>
      refine invG_of_sublist h rfl ?_ rfl
      simp [pendG, hpg]
    | some g => exact finishStep_ghost_inv c s g 1 hpg h

theorem invG_run (c : Cfg) (hc : c.kind = .ghost) (ops : List Op) (s : St) (armed : Bool)
    (hd : disciplined armed ops = true) (h : InvG s armed) :
    ∃ armed', InvG (run c s ops) armed' := by
  induction ops generalizing s armed with
  | nil => exact ⟨armed, h⟩
  | cons o ops ih =>
    have hstep : o = .step → armed = false := by
      intro ho; subst ho
      simp only [disciplined, Bool.and_eq_true, Bool.not_eq_true'] at hd
      exact hd.1
    have hrest : disciplined (armedAfter armed o) ops = true := by
      cases o <;> simp_all [disciplined, armedAfter]
    exact ih _ _ hrest (invG_step c hc s o armed hstep h)

/-- **ghost_no_double_release_partial**: under the usage discipline "a backward pass or a gradient
clearing between any two `step()` calls", the ghost-clipping optimizer as coded never hands a
per-sample gradient to the inner optimizer twice (every finite op sequence). Without the discipline
it does: `ghost_double_release_counterexample`. -/
theorem ghost_no_double_release_partial (c : Cfg) (hc : c.kind = .ghost) (σ C : Nat) (ops : List Op)
    (hd : disciplined false ops = true) :
    ((releases (run c (init σ C) ops).log).flatten).Nodup := by
  have h0 : InvG (init σ C) false := by simp [InvG, init, rel, pendG, releases, pendSummed]
  obtain ⟨armed', hnd, _⟩ := invG_run c hc ops _ false hd h0
  exact (List.nodup_append.mp hnd).1

/-- the counterexample's sequence violates the discipline; BatchMemoryManager-style loops satisfy it -/
example : disciplined false [.fwdBwd 2, .signal true, .step, .step] = false := by decide
example : disciplined false [.signal true, .fwdBwd 2, .step, .optZeroGrad, .signal false, .fwdBwd 1, .step, .optZeroGrad] = true := by decide


/-- non-vacuity of the theorems above: a standard BatchMemoryManager-style history -/
example :
    releases (run ⟨.std, false, false⟩ (init 1 1)
      [.signal true, .fwdBwd 2, .step, .optZeroGrad, .signal false, .fwdBwd 1, .step, .optZeroGrad]).log
      = [[0, 1, 2]] := by decide

/-- **Accumulated gradients are dropped by nothing but their release.**  Whatever has been clipped and
summed into `p.summed_grad` for the current logical batch stays there under every operation that is
neither `optimizer.step()` nor a clearing after a release: `module.zero_grad()`, skip signals, scheduler
writes, a new backward pass – and `optimizer.zero_grad()` (also the one inside the ghost-clipping
backward) while the last step was a skipped one. -/
theorem accumulated_kept (c : Cfg) (s : St) (o : Op) (hstep : o ≠ .step)
    (hclear : s.lastSkipped = true ∨ (o ≠ .optZeroGrad ∧ (c.kind = .ghost → ∀ n, o ≠ .fwdBwd n))) :
    (stepOp c s o).1.summed = s.summed := by
  cases o with
  | step => exact absurd rfl hstep
  | signal b => rfl
  | setSigma v => rfl
  | setClip v => rfl
  | modZeroGrad => rfl
  | optZeroGrad =>
    rcases hclear with h | ⟨h, _⟩
    · simp [stepOp, optZero, h]
    · exact absurd rfl h
  | fwdBwd n =>
    cases hk : c.kind with
    | std =>
      simp only [stepOp, hk]
      split <;> rfl
    | ghost =>
      rcases hclear with h | ⟨_, h⟩
      · simp [stepOp, hk, optZero, h]
      · exact absurd rfl (h hk n)

/-- premises satisfiable: a skipped step has accumulated two samples; `module.zero_grad()` keeps them -/
example :
    let c : Cfg := ⟨.std, true, false⟩
    let s := run c (init 1 1) [.signal true, .fwdBwd 2, .step]
    s.summed = some ⟨[0, 1], false⟩ ∧ (stepOp c s .modZeroGrad).1.summed = s.summed := by decide

/-! ## The tie to the source: `zero_grad` of both DP optimizers, re-translated on every run (`Generated/ZeroGrad.lean`) -/

/-- what `DPOptimizer.zero_grad` and `DPOptimizerFastGradientClipping.zero_grad` do to a parameter's
`(grad_sample, summed_grad)` as written in the source is the engine model's `optZero` (per-sample gradients always dropped,
the clipped sum kept exactly when the last step was skipped), and both hand on to the inner optimizer's `zero_grad` -/
theorem generated_zero_grad_eq_model (s : St) :
    ((optZero s).gs, (optZero s).summed) = Opacus.Generated.ZeroGrad.flat s.lastSkipped s.gs s.summed ∧
    ((optZero s).gs, (optZero s).summed) = Opacus.Generated.ZeroGrad.ghost s.lastSkipped s.gs s.summed ∧
    Opacus.Generated.ZeroGrad.flatCallsInner = true ∧ Opacus.Generated.ZeroGrad.ghostCallsInner = true := by
  refine ⟨?_, ?_, by decide, by decide⟩
  · cases h : s.lastSkipped <;> simp [optZero, Opacus.Generated.ZeroGrad.flat, h]
  · cases h : s.lastSkipped <;> simp [optZero, Opacus.Generated.ZeroGrad.ghost, h]

/-! ## A new optimizer on parameters another optimizer has used (training in phases, a second `make_private`) -/

/-- constructing a `DPOptimizer` for the parameters: what `__init__` does to the protocol state (the three initial values are parameters so
that the theorem below can be stated for what the source writes, `Generated.ZeroGrad.init*`) -/
def newOpt (s : St) (summedInit : Option Flagged) (queueInit : List Bool) (skippedInit : Bool) : St :=
  { s with summed := summedInit, queue := queueInit, lastSkipped := skippedInit }

/-- **fresh_optimizer_releases_own_batch**: whatever an earlier optimizer left behind (an interrupted logical batch in `summed`, queued
skip signals, a set skip marker), the first step of a new optimizer on one fresh backward releases exactly that batch, under one noise block
and one accountant record -/
theorem fresh_optimizer_releases_own_batch (c : Cfg) (hc : c.kind = .std) (hg : c.gdp = false) (s : St) (toks : List Nat)
    (hgs : s.gs = [⟨toks, false⟩]) :
    (stepOp c (newOpt s none [] false) .step).2 = .released ∧
    (stepOp c (newOpt s none [] false) .step).1.log = s.log ++ [.noise s.sigma s.clip, .account s.sigma 1, .inner toks] := by
  simp [stepOp, newOpt, hc, hgs, finishStep, popQueue, accumulateInto, hg]

/-- why the constructor has to clear the accumulator: a new optimizer that INHERITS an unreleased clipped sum `A` releases `A ++ toks` –
gradients clipped under the old optimizer's bound and never accounted enter the new optimizer's first release -/
theorem fresh_optimizer_inheriting_leaks (c : Cfg) (hc : c.kind = .std) (hg : c.gdp = false) (s : St) (A toks : List Nat)
    (hgs : s.gs = [⟨toks, false⟩]) :
    (stepOp c (newOpt s (some ⟨A, false⟩) [] false) .step).1.log =
      s.log ++ [.noise s.sigma s.clip, .account s.sigma 1, .inner (A ++ toks)] := by
  simp [stepOp, newOpt, hc, hgs, finishStep, popQueue, accumulateInto, hg]

/-- the tie to the source: `DPOptimizer.__init__` as written (re-translated on every run) starts from an empty skip queue, a cleared skip marker
and `summed_grad = None` on every parameter, whatever was there before – the state `fresh_optimizer_releases_own_batch` is about -/
theorem generated_init_eq_model (s : St) :
    newOpt s (Opacus.Generated.ZeroGrad.initSummed s.summed) Opacus.Generated.ZeroGrad.initQueue Opacus.Generated.ZeroGrad.initLastSkipped
      = newOpt s none [] false := by
  simp [Opacus.Generated.ZeroGrad.initSummed, Opacus.Generated.ZeroGrad.initQueue, Opacus.Generated.ZeroGrad.initLastSkipped]

example : (stepOp ⟨.std, true, false⟩ (newOpt { (init 1 2) with gs := [⟨[7, 8], false⟩], summed := some ⟨[1, 2, 3], false⟩, lastSkipped := true, queue := [true] } none [] false) .step).2 = .released := by decide

end Opacus.C11
