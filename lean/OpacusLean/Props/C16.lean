import OpacusLean.Model.Checkpoint
import OpacusLean.Generated.CheckpointKeys
/-! # C16 — checkpoint and resume preserve the privacy ledger and the training trajectory

All statements are over arbitrary scalar / parameter / optimizer-state / batch types and an arbitrary
training function `train`, so they hold for every model, every inner optimizer (momentum SGD, Adam,
…) and every noise generator state threaded through `P`/`O`.  -/
namespace Opacus.C16
open Opacus.Checkpoint
open Opacus.Sched (Kind Sched construct stepS)

variable {R P O B : Type}

/-! ## heap lemmas -/
@[simp] theorem get_set_same (h : Heap R) (r v) : (h.set r v).get r = v := by simp [Heap.get, Heap.set]
theorem get_set_ne (h : Heap R) {r r'} (v) (hne : r' ≠ r) : (h.set r v).get r' = h.get r' := by
  simp [Heap.get, Heap.set, hne]
@[simp] theorem get_alloc_new (h : Heap R) (v) : (h.alloc v).1.get (h.alloc v).2 = v := by
  simp [Heap.get, Heap.alloc]
@[simp] theorem get_alloc_next (h : Heap R) (v) : (h.alloc v).1.get h.next = v := by
  simp [Heap.get, Heap.alloc]
theorem get_alloc_old (h : Heap R) (v) {r} (hr : r < h.next) : (h.alloc v).1.get r = h.get r := by
  have : r ≠ h.next := by omega
  simp [Heap.get, Heap.alloc, this]
@[simp] theorem alloc_snd (h : Heap R) (v) : (h.alloc v).2 = h.next := rfl
@[simp] theorem alloc_next (h : Heap R) (v) : (h.alloc v).1.next = h.next + 1 := rfl
@[simp] theorem set_next (h : Heap R) (r v) : (h.set r v).next = h.next := rfl

/-! ## the accountant object implements the value-level step, whatever the heap layout -/
theorem acct_step_val [BEq R] (a : Acct) (hp : Heap R) (σ q : R) :
    (match a.step hp σ q with
     | .ok r => stepVal a.mech (hp.get a.href) σ q = .ok (r.2.get r.1.href) ∧ r.1.mech = a.mech
     | .error er => stepVal a.mech (hp.get a.href) σ q = .error er) := by
  unfold Acct.step stepVal
  cases hm : a.mech <;> simp only []
  · simp [hm]
  · cases hl : (hp.get a.href).getLast? with
    | none => simp
    | some t =>
      obtain ⟨σ', q', n⟩ := t
      simp only []
      by_cases hc : (σ' == σ && q' == q) = true
      · simp [hc, Heap.get, Heap.alloc, Heap.set]
      · simp [hc]
  · simp [hm]

/-! ## save / load restore what is persisted -/

/-- **load_restores_history** (and the rest of the persisted state): loading the checkpoint of `e`
into any engine of the same mechanism yields exactly `e`'s history, module parameters and inner
optimizer state; scheduler states are restored wherever the target has a scheduler. -/
theorem load_restores_saved_state (v : Variant) (e tgt : Eng R P O B) (hm : tgt.acct.mech = e.acct.mech) :
    ∃ r, load tgt (save v e) = .ok r ∧ r.1.history = e.history ∧ r.1.acct.mech = e.acct.mech
      ∧ r.1.params = e.params ∧ r.1.inner = e.inner
      ∧ (tgt.ns.isSome = e.ns.isSome → r.1.ns = e.ns) ∧ (tgt.cs.isSome = e.cs.isSome → r.1.cs = e.cs) := by
  simp only [load, save, Acct.stateDict, serialize, deserialize, Acct.loadStateDict, Option.map, hm]
  refine ⟨_, rfl, ?_, ?_, rfl, rfl, ?_, ?_⟩
  · simp [Eng.history]
  · simp
  · intro h; cases h1 : tgt.ns <;> cases h2 : e.ns <;> simp_all
  · intro h; cases h1 : tgt.cs <;> cases h2 : e.cs <;> simp_all

theorem load_restores_history (v : Variant) (e tgt : Eng R P O B) (hm : tgt.acct.mech = e.acct.mech) :
    (load tgt (save v e)).map (fun r => r.1.history) = .ok e.history := by
  obtain ⟨r, h, hh, _⟩ := load_restores_saved_state v e tgt hm
  simp [h, hh, Except.map]

/-- **eps_continuous_across_save**: ε is a function of the accountant's class and history only, so
for every such function (RDP, GDP, PRV conversions, any δ) ε right after loading is ε at saving. -/
theorem eps_continuous_across_save {E : Type} (eps : Mech → List (Entry R) → E) (v : Variant)
    (e tgt : Eng R P O B) (hm : tgt.acct.mech = e.acct.mech) :
    (load tgt (save v e)).map (fun r => eps r.1.acct.mech r.1.history) = .ok (eps e.acct.mech e.history) := by
  obtain ⟨r, h, hh, hmm, _⟩ := load_restores_saved_state v e tgt hm
  simp [h, hh, hmm, Except.map]

/-- **mechanism_mismatch_rejected** -/
theorem mechanism_mismatch_rejected (v : Variant) (e tgt : Eng R P O B) (hm : tgt.acct.mech ≠ e.acct.mech) :
    load tgt (save v e) = .error .mechanismMismatch := by
  simp [load, save, Acct.stateDict, serialize, deserialize, Acct.loadStateDict, Option.map, hm]

/-- **empty_state_rejected**: an accountant state without keys (`{}` / `None`) is rejected, as is one
lacking either key, whatever else the checkpoint holds. -/
theorem empty_state_rejected (tgt : Eng R P O B) (ck : Ckpt R P O) :
    (ck.acct.history = none → ck.acct.mechanism = none → load tgt ck = .error .emptyState) ∧
    (ck.acct.history = none → ck.acct.mechanism ≠ none → load tgt ck = .error .missingHistory) ∧
    (ck.acct.history ≠ none → ck.acct.mechanism = none → load tgt ck = .error .missingMechanism) := by
  refine ⟨?_, ?_, ?_⟩
  · intro h1 h2; simp [load, deserialize, Acct.loadStateDict, h1, h2]
  · intro h1 h2
    cases hm : ck.acct.mechanism with
    | none => exact absurd hm h2
    | some m => simp [load, deserialize, Acct.loadStateDict, h1, hm]
  · intro h1 h2
    cases hh : ck.acct.history with
    | none => exact absurd hh h1
    | some m => simp [load, deserialize, Acct.loadStateDict, h2, hh]

/-! ## resumed run ≡ uninterrupted run -/

section bisim
variable [BEq R] [Mul R] (train : Train R P O B)

/-- the value-level machine on observations (no heap, no object identity) -/
def Obs.step (o : Obs R P O B) : Op B → Except Err (Obs R P O B)
  | .logical b =>
    match stepVal o.mech o.history o.sigma o.q with
    | .error er => .error er
    | .ok h =>
      let r := train o.params o.inner (o.pending ++ [(b, o.clip)]) o.sigma o.clip
      .ok { o with params := r.1, inner := r.2, history := h, pending := [] }
  | .skip b => .ok { o with pending := o.pending ++ [(b, o.clip)] }
  | .noiseSched => match o.ns with
    | some s => let r := stepS o.sigma s; .ok { o with sigma := r.1, ns := some r.2 }
    | none => .ok o
  | .clipSched => match o.cs with
    | some s => let r := stepS o.clip s; .ok { o with clip := r.1, cs := some r.2 }
    | none => .ok o

def Obs.run (o : Obs R P O B) : List (Op B) → Except Err (Obs R P O B)
  | [] => .ok o
  | op :: ops => match Obs.step train o op with
    | .error er => .error er
    | .ok o' => Obs.run o' ops

/-- one step depends on the engine only through its observable state: the object-level machine
refines the value-level one -/
theorem step_refines (e : Eng R P O B) (op : Op B) :
    (e.step train op).map Eng.obs = Obs.step train e.obs op := by
  cases op with
  | logical b =>
    have h1 := acct_step_val e.acct e.heap e.sigma e.q
    simp only [Eng.step, Obs.step, Eng.obs, Eng.history]
    cases r1 : e.acct.step e.heap e.sigma e.q with
    | error er => rw [r1] at h1; simp only [] at h1; rw [h1]; rfl
    | ok p =>
      rw [r1] at h1; simp only [] at h1; rw [h1.1]
      simp [Except.map, Eng.obs, Eng.history, h1.2]
  | skip b => simp [Eng.step, Obs.step, Eng.obs, Eng.history, Except.map]
  | noiseSched =>
    simp only [Eng.step, Obs.step, Eng.obs, Eng.history]
    cases h : e.ns <;> simp [Except.map, Eng.obs, Eng.history, h]
  | clipSched =>
    simp only [Eng.step, Obs.step, Eng.obs, Eng.history]
    cases h : e.cs <;> simp [Except.map, Eng.obs, Eng.history, h]

theorem run_refines (ops : List (Op B)) (e : Eng R P O B) :
    (e.run train ops).map Eng.obs = Obs.run train e.obs ops := by
  induction ops generalizing e with
  | nil => simp [Eng.run, Obs.run, Except.map]
  | cons o ops ih =>
    have hs := step_refines train e o
    simp only [Eng.run, Obs.run]
    cases r1 : e.step train o with
    | error er => rw [r1] at hs; simp only [Except.map] at hs; rw [← hs]; rfl
    | ok x => rw [r1] at hs; simp only [Except.map] at hs; rw [← hs]; exact ih x

theorem run_congr (ops : List (Op B)) (e e' : Eng R P O B) (h : e.obs = e'.obs) :
    (e.run train ops).map Eng.obs = (e'.run train ops).map Eng.obs := by
  rw [run_refines, run_refines, h]

/-- what a run never changes: the accountant's class, the sample rate, which schedulers exist -/
theorem step_invariants (e e' : Eng R P O B) (op : Op B) (h : e.step train op = .ok e') :
    e'.acct.mech = e.acct.mech ∧ e'.q = e.q ∧ e'.ns.isSome = e.ns.isSome ∧ e'.cs.isSome = e.cs.isSome
      ∧ (e.ns = none → e'.sigma = e.sigma) ∧ (e.cs = none → e'.clip = e.clip) := by
  cases op with
  | logical b =>
    simp only [Eng.step] at h
    have h1 := acct_step_val e.acct e.heap e.sigma e.q
    cases r1 : e.acct.step e.heap e.sigma e.q with
    | error er => rw [r1] at h; cases h
    | ok p =>
      rw [r1] at h h1; simp only [Except.ok.injEq] at h; subst h
      exact ⟨h1.2, rfl, rfl, rfl, fun _ => rfl, fun _ => rfl⟩
  | skip b => simp only [Eng.step, Except.ok.injEq] at h; subst h; exact ⟨rfl, rfl, rfl, rfl, fun _ => rfl, fun _ => rfl⟩
  | noiseSched =>
    simp only [Eng.step] at h
    cases hn : e.ns with
    | none => rw [hn] at h; simp only [Except.ok.injEq] at h; subst h; simp [hn]
    | some s => rw [hn] at h; simp only [Except.ok.injEq] at h; subst h; simp
  | clipSched =>
    simp only [Eng.step] at h
    cases hn : e.cs with
    | none => rw [hn] at h; simp only [Except.ok.injEq] at h; subst h; simp [hn]
    | some s => rw [hn] at h; simp only [Except.ok.injEq] at h; subst h; simp

theorem run_invariants (ops : List (Op B)) (e e' : Eng R P O B) (h : e.run train ops = .ok e') :
    e'.acct.mech = e.acct.mech ∧ e'.q = e.q ∧ e'.ns.isSome = e.ns.isSome ∧ e'.cs.isSome = e.cs.isSome
      ∧ (e.ns = none → e'.sigma = e.sigma) ∧ (e.cs = none → e'.clip = e.clip) := by
  induction ops generalizing e with
  | nil => simp only [Eng.run, Except.ok.injEq] at h; subst h; exact ⟨rfl, rfl, rfl, rfl, fun _ => rfl, fun _ => rfl⟩
  | cons o ops ih =>
    simp only [Eng.run] at h
    cases r : e.step train o with
    | error er => rw [r] at h; cases h
    | ok x =>
      rw [r] at h
      obtain ⟨a1, a2, a3, a4, a5, a6⟩ := step_invariants train e x o r
      obtain ⟨b1, b2, b3, b4, b5, b6⟩ := ih x h
      refine ⟨b1.trans a1, b2.trans a2, b3.trans a3, b4.trans a4, ?_, ?_⟩
      · intro hn
        have : x.ns = none := by
          cases hx : x.ns with
          | none => rfl
          | some s => rw [hx, hn] at a3; simp at a3
        rw [b5 this, a5 hn]
      · intro hn
        have : x.cs = none := by
          cases hx : x.cs with
          | none => rfl
          | some s => rw [hx, hn] at a4; simp at a4
        rw [b6 this, a6 hn]

/-- observable state right after `save → fresh objects → load`, as coded: everything is the saved
state except the live `σ`, `C` (those of the fresh optimizer) and the pending accumulation (lost) -/
theorem resume_obs (c : Cfg R P O) (ops₁ : List (Op B)) (e₁ : Eng R P O B)
    (h₁ : (fresh c : Eng R P O B).run train ops₁ = .ok e₁) :
    ∃ r, resume .asCoded c e₁ = .ok r ∧
      r.1.obs = { e₁.obs with sigma := (fresh c : Eng R P O B).sigma, clip := (fresh c : Eng R P O B).clip, pending := [] } := by
  obtain ⟨i1, i2, i3, i4, _, _⟩ := run_invariants train ops₁ _ _ h₁
  obtain ⟨r, hr, hh, hm, hp, hi, hns, hcs⟩ :=
    load_restores_saved_state .asCoded e₁ (fresh c : Eng R P O B) (by rw [i1])
  refine ⟨r, hr, ?_⟩
  have hl : r.1.sigma = (fresh c : Eng R P O B).sigma ∧ r.1.clip = (fresh c : Eng R P O B).clip
      ∧ r.1.q = (fresh c : Eng R P O B).q ∧ r.1.pending = [] := by
    simp only [load, save] at hr
    cases hx : (fresh c : Eng R P O B).acct.loadStateDict
        (deserialize (serialize (e₁.acct.stateDict e₁.heap).1 (e₁.acct.stateDict e₁.heap).2) (fresh c : Eng R P O B).heap).1 with
    | error er => rw [hx] at hr; cases hr
    | ok a => rw [hx] at hr; simp only [Except.ok.injEq] at hr; subst hr; exact ⟨rfl, rfl, rfl, rfl⟩
  simp only [Eng.obs, Obs.mk.injEq]
  exact ⟨hp, hi, hm, hh, hl.1, hl.2.1, hl.2.2.1.trans i2.symm, hns i3.symm, hcs i4.symm, hl.2.2.2⟩

/-
Full statement (fails for the code as it stands, see `exp_scheduler_resume_counterexample`):
  ∀ c ops₁ ops₂ e₁, (fresh c).run train ops₁ = .ok e₁ → e₁.pending = [] →
    (resume .asCoded c e₁ >>= fun r => r.1.run train ops₂).map obs = (e₁.run train ops₂).map obs
-/

/-- **resume_bisimulation_partial**: for every configuration, every history `ops₁`, every cut point
between logical steps (`pending = []`) and every continuation `ops₂`, the run resumed from the
checkpoint in freshly constructed objects is observably the uninterrupted run — PROVIDED the live
`σ` and `C` of the fresh optimizer equal the values in force when the checkpoint was taken. -/
theorem resume_bisimulation_partial (c : Cfg R P O) (ops₁ ops₂ : List (Op B)) (e₁ : Eng R P O B)
    (h₁ : (fresh c : Eng R P O B).run train ops₁ = .ok e₁)
    (hcut : e₁.pending = [])
    (hσ : (fresh c : Eng R P O B).sigma = e₁.sigma) (hC : (fresh c : Eng R P O B).clip = e₁.clip) :
    ∃ r, resume .asCoded c e₁ = .ok r ∧
      (r.1.run train ops₂).map Eng.obs = (e₁.run train ops₂).map Eng.obs := by
  obtain ⟨r, hr, ho⟩ := resume_obs train c ops₁ e₁ h₁
  refine ⟨r, hr, run_congr train ops₂ _ _ ?_⟩
  rw [ho, hσ, hC]
  simp only [Eng.obs, Obs.mk.injEq] at *
  simp [hcut]

/-- without schedulers the proviso always holds: the resumed run *is* the uninterrupted run -/
theorem resume_bisimulation_no_schedulers (c : Cfg R P O) (hn : c.nk = none) (hk : c.ck = none)
    (ops₁ ops₂ : List (Op B)) (e₁ : Eng R P O B)
    (h₁ : (fresh c : Eng R P O B).run train ops₁ = .ok e₁) (hcut : e₁.pending = []) :
    ∃ r, resume .asCoded c e₁ = .ok r ∧
      (r.1.run train ops₂).map Eng.obs = (e₁.run train ops₂).map Eng.obs := by
  obtain ⟨_, _, _, _, i5, i6⟩ := run_invariants train ops₁ _ _ h₁
  have n1 : (fresh c : Eng R P O B).ns = none := by simp [fresh, mkKnob, hn]
  have n2 : (fresh c : Eng R P O B).cs = none := by simp [fresh, mkKnob, hk]
  exact resume_bisimulation_partial train c ops₁ ops₂ e₁ h₁ hcut (i5 n1).symm (i6 n2).symm

/-- the repaired variant (live values persisted and restored): full statement, every scheduler -/
theorem resume_bisimulation_repaired (c : Cfg R P O) (ops₁ ops₂ : List (Op B)) (e₁ : Eng R P O B)
    (h₁ : (fresh c : Eng R P O B).run train ops₁ = .ok e₁) (hcut : e₁.pending = []) :
    ∃ r, resume .repaired c e₁ = .ok r ∧
      (r.1.run train ops₂).map Eng.obs = (e₁.run train ops₂).map Eng.obs := by
  obtain ⟨i1, i2, i3, i4, _, _⟩ := run_invariants train ops₁ _ _ h₁
  obtain ⟨r, hr, hh, hm, hp, hi, hns, hcs⟩ :=
    load_restores_saved_state .repaired e₁ (fresh c : Eng R P O B) (by rw [i1])
  refine ⟨r, hr, run_congr train ops₂ _ _ ?_⟩
  have hl : r.1.sigma = e₁.sigma ∧ r.1.clip = e₁.clip ∧ r.1.q = (fresh c : Eng R P O B).q ∧ r.1.pending = [] := by
    simp only [load, save] at hr
    cases hx : (fresh c : Eng R P O B).acct.loadStateDict
        (deserialize (serialize (e₁.acct.stateDict e₁.heap).1 (e₁.acct.stateDict e₁.heap).2) (fresh c : Eng R P O B).heap).1 with
    | error er => rw [hx] at hr; cases hr
    | ok a => rw [hx] at hr; simp only [Except.ok.injEq] at hr; subst hr; exact ⟨rfl, rfl, rfl, rfl⟩
  simp only [Eng.obs, Obs.mk.injEq]
  exact ⟨hp, hi, hm, hh, hl.1, hl.2.1, hl.2.2.1.trans i2.symm, hns i3.symm, hcs i4.symm, hl.2.2.2.trans hcut.symm⟩

end bisim

/-! ## concrete witnesses (over ℕ; replayed on the real code by the harness) -/

/-- a training function that records what it was given -/
def logTrain : Train Nat (List (List (Nat × Nat) × Nat × Nat)) Nat Nat :=
  fun p o bs σ C => (p ++ [(bs, σ, C)], o + 1)

def cfgExp : Cfg Nat (List (List (Nat × Nat) × Nat × Nat)) Nat :=
  { sigma0 := 1, clip0 := 1, q := 1, nk := some (.exp 2), ck := none, mech := .rdp, params0 := [], inner0 := 0 }

def sigmaAfter (r : Except Err (Eng Nat (List (List (Nat × Nat) × Nat × Nat)) Nat Nat)) : Option (Nat × List (Entry Nat)) :=
  match r with | .ok e => some (e.sigma, e.history) | .error _ => none

/-- **exp_scheduler_resume_counterexample** (finding D8): ExponentialNoise γ = 2, σ₀ = 1; three
epochs of (logical step, scheduler step), checkpoint, one more logical step.  Uninterrupted: that
step runs and is accounted at σ = 8; resumed in fresh objects: at σ = 1. -/
theorem exp_scheduler_resume_counterexample :
    let pre : List (Op Nat) := [.logical 0, .noiseSched, .logical 1, .noiseSched, .logical 2, .noiseSched]
    let e₁ := (fresh cfgExp : Eng Nat _ Nat Nat).run logTrain pre
    sigmaAfter (e₁.bind fun e => e.run logTrain [.logical 3]) = some (8, [(1, 1, 1), (2, 1, 1), (4, 1, 1), (8, 1, 1)]) ∧
    sigmaAfter (e₁.bind fun e => (resume .asCoded cfgExp e).bind fun r => r.1.run logTrain [.logical 3])
      = some (1, [(1, 1, 1), (2, 1, 1), (4, 1, 1), (1, 1, 1)]) ∧
    sigmaAfter (e₁.bind fun e => (resume .repaired cfgExp e).bind fun r => r.1.run logTrain [.logical 3])
      = some (8, [(1, 1, 1), (2, 1, 1), (4, 1, 1), (8, 1, 1)]) := by
  decide

/-- a cut *inside* a virtual step (after a skipped physical batch) loses the accumulated clipped
gradients: this is why the cut points of the theorem are those between logical steps -/
theorem cut_inside_virtual_step_counterexample :
    let c : Cfg Nat (List (List (Nat × Nat) × Nat × Nat)) Nat := { cfgExp with nk := none }
    let e₁ := (fresh c : Eng Nat _ Nat Nat).run logTrain [.skip 7]
    ((e₁.bind fun e => e.run logTrain [.logical 8]).toOption.map (·.params)) = some [([(7, 1), (8, 1)], 1, 1)] ∧
    ((e₁.bind fun e => (resume .asCoded c e).bind fun r => r.1.run logTrain [.logical 8]).toOption.map (·.params))
      = some [([(8, 1)], 1, 1)] := by
  decide

/-- non-vacuity of `resume_bisimulation_partial`: a Lambda-free, scheduler-free run with a cut -/
example :
    let c : Cfg Nat (List (List (Nat × Nat) × Nat × Nat)) Nat := { cfgExp with nk := none, mech := .gdp }
    let e₁ := (fresh c : Eng Nat _ Nat Nat).run logTrain [.logical 0, .skip 1, .logical 2]
    sigmaAfter (e₁.bind fun e => (resume .asCoded c e).bind fun r => r.1.run logTrain [.logical 3])
      = some (1, [(1, 1, 3)]) := by
  decide

/-! ## aliasing -/

/-- validity of references: everything referenced lies below the allocation pointer -/
def Valid (e : Eng R P O B) : Prop := e.acct.href < e.heap.next

section alias
variable [BEq R] [Mul R] (train : Train R P O B)

theorem step_keeps_other_cells (e e' : Eng R P O B) (op : Op B) (h : e.step train op = .ok e')
    (r : Nat) (hv : Valid e) (hr : r < e.heap.next) (hne : r ≠ e.acct.href) :
    Valid e' ∧ r < e'.heap.next ∧ r ≠ e'.acct.href ∧ e'.heap.get r = e.heap.get r := by
  unfold Valid at *
  cases op with
  | logical b =>
    simp only [Eng.step] at h
    cases r1 : e.acct.step e.heap e.sigma e.q with
    | error er => rw [r1] at h; cases h
    | ok p =>
      rw [r1] at h; simp only [Except.ok.injEq] at h; subst h
      simp only []
      unfold Acct.step at r1
      cases hm : e.acct.mech <;> rw [hm] at r1 <;> simp only [] at r1
      · simp only [Except.ok.injEq] at r1; subst r1
        exact ⟨hv, hr, hne, get_set_ne _ _ hne⟩
      · cases hl : (e.heap.get e.acct.href).getLast? with
        | none =>
          rw [hl] at r1; simp only [Except.ok.injEq] at r1; subst r1
          simp only [alloc_snd, alloc_next]
          exact ⟨by omega, by omega, by omega, get_alloc_old _ _ hr⟩
        | some t =>
          obtain ⟨σ', q', n⟩ := t
          rw [hl] at r1; simp only [] at r1
          by_cases hc : (σ' == e.sigma && q' == e.q) = true
          · rw [if_pos hc] at r1; simp only [Except.ok.injEq] at r1; subst r1
            simp only [alloc_snd, alloc_next]
            refine ⟨by omega, by omega, by omega, ?_⟩
            rw [get_alloc_old _ _ (by simpa using hr)]
          · rw [if_neg hc] at r1; cases r1
      · simp only [Except.ok.injEq] at r1; subst r1
        exact ⟨hv, hr, hne, get_set_ne _ _ hne⟩
  | skip b => simp only [Eng.step, Except.ok.injEq] at h; subst h; exact ⟨hv, hr, hne, rfl⟩
  | noiseSched =>
    simp only [Eng.step] at h
    cases hn : e.ns with
    | none => rw [hn] at h; simp only [Except.ok.injEq] at h; subst h; exact ⟨hv, hr, hne, rfl⟩
    | some s => rw [hn] at h; simp only [Except.ok.injEq] at h; subst h; exact ⟨hv, hr, hne, rfl⟩
  | clipSched =>
    simp only [Eng.step] at h
    cases hn : e.cs with
    | none => rw [hn] at h; simp only [Except.ok.injEq] at h; subst h; exact ⟨hv, hr, hne, rfl⟩
    | some s => rw [hn] at h; simp only [Except.ok.injEq] at h; subst h; exact ⟨hv, hr, hne, rfl⟩

theorem run_keeps_other_cells (ops : List (Op B)) (e e' : Eng R P O B) (h : e.run train ops = .ok e')
    (r : Nat) (hv : Valid e) (hr : r < e.heap.next) (hne : r ≠ e.acct.href) :
    e'.heap.get r = e.heap.get r := by
  induction ops generalizing e with
  | nil => simp only [Eng.run, Except.ok.injEq] at h; subst h; rfl
  | cons o ops ih =>
    simp only [Eng.run] at h
    cases r1 : e.step train o with
    | error er => rw [r1] at h; cases h
    | ok x =>
      rw [r1] at h
      obtain ⟨a, b, c, d⟩ := step_keeps_other_cells train e x o r1 r hv hr hne
      rw [ih x h a b c, d]

/-- **history_not_aliased_on_save**: the history inside `accountant.state_dict()` is a deep copy —
whatever training does afterwards (in-place RDP/PRV updates, GDP pop-and-rebind), the dict still
holds the history as it was when the dict was made. -/
theorem history_not_aliased_on_save (e : Eng R P O B) (hv : Valid e) (ops : List (Op B)) (e' : Eng R P O B)
    (h : ({ e with heap := (e.acct.stateDict e.heap).2 } : Eng R P O B).run train ops = .ok e') :
    ∃ r, (e.acct.stateDict e.heap).1.href = some r ∧ e'.heap.get r = e.history := by
  refine ⟨e.heap.next, rfl, ?_⟩
  unfold Valid at hv
  have := run_keeps_other_cells train ops _ e' h e.heap.next
    (by simp [Valid, Acct.stateDict]; omega) (by simp [Acct.stateDict]) (by simp; omega)
  rw [this]
  simp [Acct.stateDict, Eng.history, Heap.get, Heap.alloc]

end alias

/-- **load aliases, as coded**: after `load_checkpoint` the accountant's history *is* the list
object inside the returned checkpoint dict … -/
theorem load_aliases_history_asCoded (tgt : Eng R P O B) (ck : Ckpt R P O) (r : Eng R P O B × SDObj)
    (h : load tgt ck = .ok r) : r.2.href = some r.1.acct.href := by
  simp only [load] at h
  cases hh : ck.acct.history with
  | none =>
    simp only [deserialize, hh, Acct.loadStateDict] at h
    cases hm : ck.acct.mechanism <;> rw [hm] at h <;> cases h
  | some hist =>
    simp only [deserialize, hh, Acct.loadStateDict] at h
    cases hm : ck.acct.mechanism with
    | none => rw [hm] at h; cases h
    | some m =>
      rw [hm] at h; simp only [] at h
      by_cases hc : tgt.acct.mech = m
      · rw [if_pos hc] at h; simp only [Except.ok.injEq] at h; subst h; rfl
      · rw [if_neg hc] at h; cases h

/-- the history seen through the returned checkpoint dict, and the accountant's own, after
two steps, `save → fresh → load`, one more step -/
def dictAfter (m : Mech) : Option (List (Nat × Nat × Nat) × List (Nat × Nat × Nat)) :=
  let c : Cfg Nat (List (List (Nat × Nat) × Nat × Nat)) Nat := { cfgExp with nk := none, mech := m }
  (((fresh c : Eng Nat _ Nat Nat).run logTrain [.logical 0, .logical 1]).bind fun e =>
    (resume .asCoded c e).bind fun r => (r.1.run logTrain [.logical 2]).map fun e' =>
      r.2.href.map fun hr => (e'.heap.get hr, e'.history)).toOption.bind id

/-- … so the next accounted step shows through in that dict: for RDP/PRV it gains the step, for GDP
the dict keeps the two steps it was saved with while the accountant moves on to a fresh list (GDP
`step` rebinds `self.history`; since fix bb38b4c it no longer pops the old list). -/
theorem load_aliasing_witness :
    dictAfter .rdp = some ([(1, 1, 3)], [(1, 1, 3)]) ∧
    dictAfter .prv = some ([(1, 1, 3)], [(1, 1, 3)]) ∧
    dictAfter .gdp = some ([(1, 1, 2)], [(1, 1, 3)]) := by
  refine ⟨by decide, by decide, by decide⟩

/-! ## The tie to the source: `IAccountant.state_dict / load_state_dict` and the key tables of `save_checkpoint` /
`load_checkpoint`, re-translated on every run (`Generated/CheckpointKeys.lean`) -/
section Tie
open Opacus.Generated.CheckpointKeys
set_option linter.unusedSimpArgs false

/-- **generated_load_state_dict_eq_model**: the guards of `IAccountant.load_state_dict` as written in the source, evaluated
with Python's exception semantics, accept exactly the dicts the model's `Acct.loadStateDict` accepts, bind `self.history` to the
same history object, and reject every other dict with `ValueError` (never `KeyError` / `TypeError`: each lookup is guarded by
an earlier test) -/

theorem generated_load_state_dict_eq_model (a : Acct) (sd : SDObj) :
    loadStateDict a.mech (some sd) =
      (match a.loadStateDict sd with
       | .ok a' => .ok a'.href
       | .error _ => .error PyExc.valueError) := by
  rcases sd with ⟨_ | r, _ | m⟩ <;>
    simp [loadStateDict, Acct.loadStateDict, pyOr, pyAnd, pyNot, pyNe, pyEq, pyLt, pyLe, pyGt, pyGe, isNone, truthy, len, hasKey, getMech, getHist,
      bind, Except.bind, pure, Except.pure, throw, throwThe, MonadExceptOf.throw]
  by_cases h : a.mech = m <;> simp [h]

/-- `load_state_dict(None)` is rejected with `ValueError` -/

theorem generated_load_none_rejected (m : Mech) : loadStateDict m none = .error PyExc.valueError := by
  simp [loadStateDict, pyOr, pyAnd, pyNot, isNone, truthy, bind, Except.bind, pure, Except.pure, throw, throwThe, MonadExceptOf.throw]

/-- **generated_checkpoint_keys_eq_model**: `load_checkpoint` reads back exactly the keys `save_checkpoint` writes, each into the
component it came from and under the same "only when given" rule; the components are the five the model's `Ckpt` carries
(module, accountant, inner optimizer, the two schedulers), module and accountant unconditionally; the keys are distinct;
`state_dict()` deep-copies the history and tags the mechanism -/
theorem generated_checkpoint_keys_eq_model :
    saved = loaded ∧
    saved.map (·.2.1) = [Comp.module, Comp.accountant, Comp.optimizer, Comp.noiseScheduler, Comp.gradClipScheduler] ∧
    (saved.map (·.1)).Nodup ∧
    (saved.filter (fun r => !r.2.2)).map (·.2.1) = [Comp.module, Comp.accountant] ∧
    stateDictDeepCopies = true ∧ stateDictTagsMechanism = true := by
  refine ⟨by decide, by decide, by decide, by decide, by decide, by decide⟩
end Tie

end Opacus.C16
