import OpacusLean.Lemmas.ClipStep
import OpacusLean.Lemmas.ClipExec
import OpacusLean.Generated.OptimizerTable
import OpacusLean.Generated.ReleaseArith
/-! # C03 — a DP step hands the inner optimizer (Σ_i min(1, C/(‖g_i‖+1e-6))·g_i + z)/B -/
namespace Opacus.C03
open Opacus.Clip Opacus.Ghost Opacus.Step

variable {P : Nat} {d : Fin P → Nat}

/-! ## The release formula -/

/-- **release_formula**: one logical step driven the way `BatchMemoryManager` drives it (every
physical step but the last skipped; any number ≥ 1 of backward passes per physical step), starting
from a fresh optimizer, hands the inner optimizer `(Σ_i clip_i·g_i + z)/(E·k)` for mean-reduced
losses — `k` the number of backward passes accumulated in the *last* physical step — and
`Σ_i clip_i·g_i + z` for sum-reduced ones, where the sum ranges over every sample of every physical
batch, clipped according to the optimizer's mode. -/
theorem release_formula (m : Mode ℝ P) (red : Reduction) (E : Nat) (z : Grad ℝ d)
    (phys : List (List (List (Grad ℝ d)))) (hne : phys ≠ []) (hb : ∀ bws ∈ phys, bws ≠ []) :
    ∃ st', runLogical (rc d m) red E z phys St.init = some st' ∧
      st'.grad = some (match red with
        | .mean => gdiv (gadd (batchSum m phys.flatten.flatten) z)
                        ((E * (phys.getLast hne).length : ℕ) : ℝ)
        | .sum => gadd (batchSum m phys.flatten.flatten) z) := by
  obtain ⟨st', h1, _, h3⟩ := runLogical_spec m red E z phys hne hb St.init rfl
  refine ⟨st', h1, ?_⟩
  rw [h3]
  cases red <;> simp [release, modelCarrier, effSummed, St.init, accTo]

/-- the same, entry by entry: `(Σ_i factor_i,k · g_i[k,j] + z[k,j]) / (E·k)` -/
theorem release_formula_pointwise (m : Mode ℝ P) (E : Nat) (z : Grad ℝ d)
    (phys : List (List (List (Grad ℝ d)))) (hne : phys ≠ []) (hb : ∀ bws ∈ phys, bws ≠ []) :
    ∃ st' g, runLogical (rc d m) .mean E z phys St.init = some st' ∧ st'.grad = some g ∧
      ∀ k j, g k j = ((phys.flatten.flatten.map fun gi => factors m gi k * gi k j).sum + z k j)
                      / ((E * (phys.getLast hne).length : ℕ) : ℝ) := by
  obtain ⟨st', h1, h2⟩ := release_formula m .mean E z phys hne hb
  refine ⟨st', _, h1, h2, ?_⟩
  intro k j
  simp [gdiv, gadd, batchSum_apply, clipped, gscale]

/-- **release_formula_ghost**: the ghost path releases `(Σ_b p.grad_b + z)/E` (mean) — its
`accumulated_iterations` is the constant 1 -/
theorem release_formula_ghost (red : Reduction) (E : Nat) (z : Grad ℝ d) (m : Mode ℝ P)
    (pgs : List (Grad ℝ d)) (hne : pgs ≠ []) :
    ∃ st' s, runLogicalGhost (rc d m) red E z pgs St.init = some st' ∧
      pgs.foldl accumulate none = some s ∧
      st'.grad = some (match red with
        | .mean => gdiv (gadd s z) ((E : ℕ) : ℝ)
        | .sum => gadd s z) := by
  obtain ⟨st', s, h1, h2, _, h4⟩ := runLogicalGhost_spec m red E z pgs hne St.init rfl
  refine ⟨st', s, h1, by simpa [effSummed, St.init] using h2, ?_⟩
  rw [h4]
  cases red <;> simp [release, modelCarrier]

/-- **release_empty_batch**: a logical step whose (Poisson) batch is empty – one backward pass over zero samples –
releases pure noise, `z / E` for mean-reduced losses and `z` for sum-reduced ones, in every clipping mode -/
theorem release_empty_batch (m : Mode ℝ P) (red : Reduction) (E : Nat) (z : Grad ℝ d) :
    ∃ st', runLogical (rc d m) red E z [[[]]] St.init = some st' ∧
      st'.grad = some (match red with
        | .mean => gdiv z ((E : ℕ) : ℝ)
        | .sum => z) := by
  obtain ⟨st', h1, h2⟩ := release_formula m red E z [[[]]] (by simp) (by simp)
  refine ⟨st', h1, ?_⟩
  rw [h2]
  have h0 : gadd (gzero : Grad ℝ d) z = z := by funext k j; simp [gadd, gzero]
  cases red <;> simp [batchSum, h0]

/-! ## Consequences -/

/-- **below_C_unchanged**: an example whose joint norm is below the bound (by the 1e-6 margin the
code adds) enters the sum unchanged -/
theorem below_C_unchanged {C : ℝ} (g : Grad ℝ d) (h : flatNorm g + 1e-6 ≤ C) :
    clipped (.flat C) g = g := by
  funext k i
  show clipFactor C (flatNorm g) * g k i = g k i
  rw [clipFactor_eq_one h (flatNorm_nonneg g), one_mul]

theorem below_C_unchanged_perLayer {Cs : Fin P → ℝ} (g : Grad ℝ d)
    (h : ∀ k, norm2 (g k) + 1e-6 ≤ Cs k) : clipped (.perLayer Cs) g = g := by
  funext k i
  show clipFactor (Cs k) (norm2 (g k)) * g k i = g k i
  rw [clipFactor_eq_one (h k) (norm2_nonneg _), one_mul]

theorem batchSum_of_unclipped (m : Mode ℝ P) (batch : List (Grad ℝ d))
    (h : ∀ g ∈ batch, clipped m g = g) (k : Fin P) (i : Fin (d k)) :
    batchSum m batch k i = (batch.map fun g => g k i).sum := by
  rw [batchSum_apply]
  congr 1
  exact List.map_congr_left fun g hg => by rw [h g hg]

/-- **zero_noise_huge_C_is_plain_mean**: no noise, every example below the bound, expected batch
size equal to the batch size: the step hands the inner optimizer the plain batch-mean gradient,
i.e. it coincides with the non-private optimizer step -/
theorem zero_noise_huge_C_is_plain_mean {C : ℝ} (batch : List (Grad ℝ d))
    (h : ∀ g ∈ batch, flatNorm g + 1e-6 ≤ C) :
    ∃ st' g, runLogical (rc d (.flat C)) .mean batch.length gzero [[batch]] St.init = some st' ∧
      st'.grad = some g ∧ ∀ k i, g k i = (batch.map fun gi => gi k i).sum / (batch.length : ℝ) := by
  obtain ⟨st', h1, h2⟩ := release_formula (.flat C) .mean batch.length (gzero : Grad ℝ d) [[batch]]
    (by simp) (by simp)
  refine ⟨st', _, h1, h2, ?_⟩
  intro k i
  have := batchSum_of_unclipped (.flat C) batch (fun g hg => below_C_unchanged g (h g hg)) k i
  simp [gdiv, gadd, gzero, this]

/-! ## All per-sample-gradient modes release the same thing -/

theorem flatten_singletons {α β : Type} (l : List α) (f : α → List β) :
    (l.map fun b => [f b]).flatten.flatten = (l.map f).flatten := by
  induction l with
  | nil => rfl
  | cons b rest ih => simpa using ih

theorem foldl_accumulate_ghost (v : Variant) (s : LossShape) (hvs : ¬ (v = .asCoded ∧ s = .col))
    (C : ℝ) (batches : List (List ((Fin P → ℝ) × Grad ℝ d)))
    (hex : ∀ b ∈ batches, ∀ x ∈ b, x.1 = paramNorms x.2) (sg : Option (Grad ℝ d)) :
    (batches.map (ghostBatchGrad v s C)).foldl accumulate sg
      = (batches.map fun b => b.map (·.2)).foldl (clipAndAccumulate (.flat C)) sg := by
  induction batches generalizing sg with
  | nil => rfl
  | cons b rest ih =>
    simp only [List.map_cons, List.foldl_cons]
    rw [ghostBatchGrad_eq_batchSum v s hvs C b (hex b List.mem_cons_self)]
    exact ih (fun b' hb' => hex b' (List.mem_cons_of_mem _ hb')) _

/-- **modes_agree**: hooks, functorch and expanded-weights all feed `clip_and_accumulate` with the
per-sample gradients (C01), so they share `release_formula` verbatim; the ghost path — norms from
the samplers, coefficient-weighted second backward, `accumulate` — releases the very same tensor
whenever its norm samplers are exact (and the loss is not of the broadcasting shape). -/
theorem modes_agree (v : Variant) (s : LossShape) (hvs : ¬ (v = .asCoded ∧ s = .col)) (C : ℝ)
    (red : Reduction) (E : Nat) (z : Grad ℝ d) (batches : List (List ((Fin P → ℝ) × Grad ℝ d)))
    (hne : batches ≠ []) (hex : ∀ b ∈ batches, ∀ x ∈ b, x.1 = paramNorms x.2) :
    ∃ st₁ st₂,
      runLogicalGhost (rc d (.flat C)) red E z (batches.map (ghostBatchGrad v s C)) St.init = some st₁ ∧
      runLogical (rc d (.flat C)) red E z (batches.map fun b => [b.map (·.2)]) St.init = some st₂ ∧
      st₁.grad = st₂.grad := by
  obtain ⟨st₁, s₁, h1, h2, _, h4⟩ := runLogicalGhost_spec (.flat C) red E z
    (batches.map (ghostBatchGrad v s C)) (by simpa using hne) St.init rfl
  have hne2 : (batches.map fun b => [b.map (·.2)]) ≠ [] := by simpa using hne
  obtain ⟨st₂, g1, _, g3⟩ := runLogical_spec (.flat C) red E z
    (batches.map fun b => [b.map (·.2)]) hne2 (by simp) St.init rfl
  refine ⟨st₁, st₂, h1, g1, ?_⟩
  rw [h4, g3]
  have hlen : ((batches.map fun b => [b.map (·.2)]).getLast hne2).length = 1 := by
    have := List.getLast_mem hne2
    simp only [List.mem_map] at this
    obtain ⟨b, _, hb⟩ := this
    rw [← hb]; rfl
  have hfl : (batches.map fun b => [b.map (·.2)]).flatten.flatten
      = (batches.map fun b => b.map (·.2)).flatten := flatten_singletons _ _
  rw [hlen, hfl]
  have e : effSummed (St.init : St (Grad ℝ d)) = none := rfl
  rw [e] at h2 ⊢
  rw [foldl_accumulate_ghost v s hvs C batches hex none,
    foldl_clipAndAccumulate (.flat C) none _ (by simpa using hne)] at h2
  rw [← Option.some.inj h2]

/-! ## Which optimizer class `make_private` selects (table regenerated from the running code) -/

inductive ClipKind where
  | flat | perLayer | adaptive
deriving DecidableEq, Repr

/-- the clipping kind, distributedness and ghost-ness of every DP optimizer class, as established
for each class by the `clip` correspondence of C02 / the step correspondence of C03 -/
def classKind : String → Option (ClipKind × Bool × Bool)
  | "DPOptimizer" => some (.flat, false, false)
  | "DistributedDPOptimizer" => some (.flat, true, false)
  | "DPOptimizerFastGradientClipping" => some (.flat, false, true)
  | "DistributedDPOptimizerFastGradientClipping" => some (.flat, true, true)
  | "DPPerLayerOptimizer" => some (.perLayer, false, false)
  | "DistributedPerLayerOptimizer" => some (.perLayer, true, false)
  | "SimpleDistributedPerLayerOptimizer" => some (.perLayer, true, false)
  | "AdaClipDPOptimizer" => some (.adaptive, false, false)
  | _ => none

def requestedKind : String → Option ClipKind
  | "flat" => some .flat
  | "per_layer" => some .perLayer
  | "adaptive" => some .adaptive
  | _ => none

/-- a row is sound: an accepted combination selects a class of the requested clipping kind,
distributedness and ghost-ness; an unknown clipping, ghost with non-flat clipping and adaptive
with distributed are rejected -/
def rowSound (r : String × Bool × String × String) : Bool :=
  let (clipping, dist, gsm, cls) := r
  let ghost := gsm == "ghost"
  if cls == "ERR" then true
  else match requestedKind clipping, classKind cls with
    | some k, some (k', dist', ghost') => k == k' && dist == dist' && ghost == ghost'
    | _, _ => false

def rowRejected (r : String × Bool × String × String) : Bool :=
  let (clipping, dist, gsm, cls) := r
  if requestedKind clipping == none || (gsm == "ghost" && clipping != "flat")
      || (clipping == "adaptive" && dist) then cls == "ERR" else true

/-- the combinations every user reaches through `make_private` defaults must be accepted -/
def rowAccepted (r : String × Bool × String × String) : Bool :=
  let (clipping, dist, gsm, cls) := r
  if !dist && (gsm == "hooks" || gsm == "functorch" || gsm == "ew") && requestedKind clipping != none
    then cls != "ERR"
  else if !dist && gsm == "ghost" && clipping == "flat" then cls != "ERR"
  else true

/-- **optimizer_table_sound** over the table extracted from the running code -/
theorem optimizer_table_sound :
    Opacus.Generated.optimizerTable.all (fun r => rowSound r && rowRejected r && rowAccepted r) = true
    ∧ Opacus.Generated.optimizerTable.length = 48 := by
  decide +kernel

/-! ## `expected_batch_size` -/

/-- **ebs_trunc_counterexample** (finding D12): `int(N·(1/L))` for `N = 98, L = 49` is 1 although
`N/L = 2` exactly; for `N = L = 49` it is 0 (division by zero in `scale_grad`) -/
theorem ebs_trunc_counterexample :
    ebsFloat 98 49 = 1 ∧ 98 / 49 = 2 ∧ ebsFloat 49 49 = 0 ∧ ebsFloat 98 49 = ebsExact 98 49 := by
  decide +kernel

/-- the pairs on which the explicit-rounding model is compared with IEEE binary64 inside the
kernel (the harness compares both with CPython on whole boxes at run time) -/
def ebsProbe : List (Nat × Nat) :=
  [(49, 49), (98, 49), (147, 49), (196, 49), (245, 49), (294, 49), (343, 49), (392, 49), (97, 49),
   (99, 49), (1, 1), (7, 3), (10, 10), (100, 10), (60000, 234), (50000, 196), (1000, 93), (186, 93),
   (93, 93), (120, 7), (64, 64), (63, 64), (1000000, 3906), (12345, 67), (5, 10)]

/-- the explicit-rounding rational model agrees with IEEE binary64 (kernel evaluation of `Float`)
on the probe pairs -/
theorem ebs_exact_eq_float_probe : ebsProbe.all (fun p => ebsExact p.1 p.2 = ebsFloat p.1 p.2) = true := by
  decide +kernel

/-- **ebs_trunc_characterisation** (finite part, exact-rounding model): among the exact multiples
`N = j·L`, `L ≤ 64`, `j ≤ 8`, the coded value differs from `N/L = j` exactly for `L = 49`,
`j ∈ {1,2,3,4,6,7,8}` -/
theorem ebs_trunc_characterisation :
    ebsMismatchesOf ebsExact 64 8
      = [(49, 49), (98, 49), (147, 49), (196, 49), (294, 49), (343, 49), (392, 49)] := by
  decide +kernel

/-- on a box the coded value never exceeds the true quotient and is short by at most one -/
theorem ebs_floor_or_one_less_box :
    (List.range 101).all (fun N => [1, 2, 3, 4, 5, 6, 7, 8, 9, 10, 11, 12, 49].all fun L =>
      ebsExact N L = N / L ∨ ebsExact N L + 1 = N / L) = true := by
  decide +kernel


/-! ## The tie to the source: the release arithmetic re-translated on every run (`Generated/ReleaseArith.lean`) -/

/-- closes `generated = model` over ℝ up to operand order and association -/
macro "rel_close" : tactic =>
  `(tactic| first | rfl | (ring_nf; done) | (simp only []; ring_nf; done) | (norm_num; ring_nf))

/-- the noised sum and the divisors as written in `DPOptimizer.add_noise` / `scale_grad`, the distributed per-layer
optimizer's `_add_noise_parameter` / `_scale_grad_parameter` and the two distributed `reduce_gradients` are `s + z`,
`E·k`, `E·k·W` and `W` -/
theorem generated_release_arith_eq_model (s z E k W : ℝ) :
    Opacus.Generated.Release.flatNoised s z = s + z ∧
    Opacus.Generated.Release.ddpPerLayerNoised s z = s + z ∧
    Opacus.Generated.Release.flatScale E k = E * k ∧
    Opacus.Generated.Release.ddpPerLayerScale E k W = E * k * W ∧
    Opacus.Generated.Release.ddpReduce W = W ∧
    Opacus.Generated.Release.ddpGhostReduce W = W := by
  refine ⟨?_, ?_, ?_, ?_, ?_, ?_⟩
  · unfold Opacus.Generated.Release.flatNoised; rel_close
  · unfold Opacus.Generated.Release.ddpPerLayerNoised; rel_close
  · unfold Opacus.Generated.Release.flatScale; rel_close
  · unfold Opacus.Generated.Release.ddpPerLayerScale; rel_close
  · unfold Opacus.Generated.Release.ddpReduce; rel_close
  · unfold Opacus.Generated.Release.ddpGhostReduce; rel_close

/-- entry by entry, the model's `release` (what `release_formula` is about) is the generated arithmetic:
`(summed + z) / (E·k)` for mean-reduced losses, `summed + z` for sum-reduced ones -/
theorem generated_release_pointwise (m : Mode ℝ P) (E k : Nat) (summed z : Grad ℝ d) (i : Fin P) (j : Fin (d i)) :
    release (rc d m) .mean E k summed z i j
      = Opacus.Generated.Release.flatNoised (summed i j) (z i j) / Opacus.Generated.Release.flatScale (E : ℝ) (k : ℝ) ∧
    release (rc d m) .sum E k summed z i j = Opacus.Generated.Release.flatNoised (summed i j) (z i j) := by
  obtain ⟨h1, _, h3, _⟩ := generated_release_arith_eq_model (summed i j) (z i j) (E : ℝ) (k : ℝ) 0
  rw [h1, h3]
  constructor
  · simp [release, rc, modelCarrier, gdiv, gadd]
  · simp [release, rc, modelCarrier, gadd]

end Opacus.C03
