import OpacusLean.Lemmas.WrapLemmas
/-! # C19 — wrapping is transparent and reversible

`St` holds what lives on the user's objects (attribute maps of every parameter and layer, hook
registrations).  A *program* is any list of operations; "training operations" (`Op.inner`) are all of
them except `wrap` / `unwrap`.  `Fix` says which leftovers `to_standard_module` removes:
`Fix.asCoded` is the code as it stands, `Fix.repaired` the proposed repair. -/
namespace Opacus.C19
open Opacus.Wrap

/-- a model Opacus has never touched -/
def Pristine (s : St) : Prop :=
  s.mode = none ∧ s.rootHooks = none ∧ (∀ p ∈ s.params, p.clean = true) ∧ (∀ l ∈ s.layers, l.clean = true)

/-! ## transparency of the wrapped objects -/

/-- **forward_delegates** (definitional in the model: `forward` *is* the wrapped module's forward;
that the real wrappers compute bit-identical outputs in every mode is checked on the real objects) -/
theorem forward_delegates {X Y : Type} (w : Wrapped X Y) (x : X) : w.forward x = w.moduleForward x := rfl

/-- **params_identical**: no program whatsoever (wrapping, training in any mode, failing steps,
unwrapping, re-wrapping) replaces, drops, reorders or adds a parameter or layer object, nor changes
anything on them beyond the Opacus attributes: the objects' identity (position) and untouched part
(`requires_grad`, layer kind, ownership, user hooks) are invariant. -/
theorem params_identical (fx : Fix) (s : St) (ops : List Op) :
    (run fx s ops).params.map Param.erase = s.params.map Param.erase ∧
    (run fx s ops).layers.map Layer.erase = s.layers.map Layer.erase := by
  induction ops generalizing s with
  | nil => exact ⟨rfl, rfl⟩
  | cons o ops ih =>
    simp only [run, List.foldl_cons]
    obtain ⟨a, b⟩ := ih (step fx s o).1
    simp only [run] at a b
    suffices h : (step fx s o).1.params.map Param.erase = s.params.map Param.erase ∧
        (step fx s o).1.layers.map Layer.erase = s.layers.map Layer.erase from ⟨a.trans h.1, b.trans h.2⟩
    by_cases hi : o.inner = true
    · obtain ⟨_, _, f3, f4, _⟩ := inner_frame fx s o hi
      refine ⟨f3, ?_⟩
      have := congrArg (List.map (fun (x : Layer × Bool × Bool × Option Bool) => x.1)) f4
      have e : ((fun (x : Layer × Bool × Bool × Option Bool) => x.1) ∘ Layer.frame) = Layer.erase := rfl
      simp only [List.map_map, e] at this
      exact this
    · cases o with
      | wrap m =>
        simp only [step, wrap]
        split
        · exact ⟨rfl, rfl⟩
        · cases m <;> refine ⟨map_if_erase _ _ _ (fun _ => rfl), ?_⟩ <;>
            first
              | rfl
              | (simp only []; rw [List.map_map]; apply List.map_congr_left; intro l _; simp only [Function.comp]; split <;> rfl)
      | unwrap =>
        simp only [step, unwrap]
        have hd := delGradSample_erase fx.frozenGuard s.params
        have hc : ((delGradSample fx.frozenGuard s.params).1.map (cleanParam fx)).map Param.erase = s.params.map Param.erase :=
          (map_erase_of _ (cleanParam fx) (fun _ => rfl)).trans hd
        have hl : (s.layers.map (cleanLayer fx ((delGradSample fx.frozenGuard s.params).1.map (cleanParam fx)))).map Layer.erase
            = s.layers.map Layer.erase := by
          rw [List.map_map]; apply List.map_congr_left; intro l _; rfl
        repeat' split
        all_goals first
          | exact ⟨rfl, rfl⟩
          | exact ⟨hd, rfl⟩
          | exact ⟨hc, rfl⟩
          | exact ⟨hc, hl⟩
      | wrapOpt => simp [Op.inner] at hi
      | fwd a => simp [Op.inner] at hi
      | bwd => simp [Op.inner] at hi
      | optStep k => simp [Op.inner] at hi
      | optZeroGrad => simp [Op.inner] at hi
      | modZeroGrad => simp [Op.inner] at hi
      | setHooks b => simp [Op.inner] at hi

/-- **optimizer_passthrough** (get): `param_groups`, `state`, `defaults` read through the DP optimizer are
the inner optimizer's (definitional; checked with `is` on the real objects) -/
theorem optimizer_passthrough_get {G S D X : Type} (o : DPOpt G S D X) :
    o.getParamGroups = o.original.paramGroups ∧ o.getState = o.original.state ∧ o.getDefaults = o.original.defaults :=
  ⟨rfl, rfl, rfl⟩

/-- **optimizer_passthrough** (set): an assignment through the DP optimizer lands in the inner optimizer,
is read back, and touches neither the other dictionaries nor the DP optimizer's own attributes -/
theorem optimizer_passthrough_set {G S D X : Type} (o : DPOpt G S D X) (g : G) (st : S) (d : D) :
    ((o.setParamGroups g).getParamGroups = g ∧ (o.setParamGroups g).getState = o.getState ∧
      (o.setParamGroups g).getDefaults = o.getDefaults ∧ (o.setParamGroups g).own = o.own) ∧
    ((o.setState st).getState = st ∧ (o.setState st).getParamGroups = o.getParamGroups ∧ (o.setState st).own = o.own) ∧
    ((o.setDefaults d).getDefaults = d ∧ (o.setDefaults d).getParamGroups = o.getParamGroups ∧ (o.setDefaults d).own = o.own) :=
  ⟨⟨rfl, rfl, rfl, rfl⟩, ⟨rfl, rfl, rfl⟩, ⟨rfl, rfl, rfl⟩⟩

/-- `state_dict` / `load_state_dict` are the inner optimizer's: loading what was saved restores the
inner dictionaries and leaves the DP optimizer's own (live) attributes alone -/
theorem optimizer_state_dict_passthrough {G S D X : Type} (o o' : DPOpt G S D X) :
    o.stateDict = (o.original.paramGroups, o.original.state) ∧
    (o'.loadStateDict o.stateDict).stateDict = o.stateDict ∧ (o'.loadStateDict o.stateDict).own = o'.own :=
  ⟨rfl, rfl, rfl⟩

/-! ## reversibility -/

theorem clean_param_erase (p : Param) (h : p.clean = true) : p.erase = p := by
  cases p; simp_all [Param.clean, Param.erase]

theorem clean_layer_erase (l : Layer) (h : l.clean = true) : l.erase = l := by
  cases l; simp_all [Layer.clean, Layer.erase]

theorem map_erase_pristine (ps : List Param) (h : ∀ p ∈ ps, p.clean = true) : ps.map Param.erase = ps := by
  induction ps with
  | nil => rfl
  | cons x xs ih =>
    simp only [List.map_cons]
    rw [clean_param_erase x (h x (by simp)), ih (fun p hp => h p (by simp [hp]))]

/-- the state right after `wrap m` of a pristine model -/
theorem wrap_pristine (s0 : St) (h0 : Pristine s0) (m : Mode) :
    (wrap m s0).1.mode = some m ∧ (wrap m s0).1.params.map Param.erase = s0.params ∧
    (m = .ew → (wrap m s0).1.layers = s0.layers ∧ (wrap m s0).1.rootHooks = none) ∧
    (m ≠ .ew → (wrap m s0).1.rootHooks.isSome = true ∧
      (wrap m s0).1.layers = s0.layers.map fun l =>
        if trainable l s0.params then
          { l with ftCompute := l.ftCompute || m == .functorch || l.kind == .neither, opacusHooks := true, fullBwdFlag := some false }
        else l) ∧
    HasGS (wrap m s0).1 := by
  obtain ⟨hm, hr, hp, hl⟩ := h0
  have hgs : ∀ p ∈ (s0.params.map fun p => if p.requiresGrad then { p with gradSample := some GS.none_, fwdCounter := some 0 } else p),
      QGS p := by
    intro p hp' hrq
    simp only [List.mem_map] at hp'
    obtain ⟨x, _, rfl⟩ := hp'
    by_cases hx : x.requiresGrad = true
    · simp [hx]
    · simp [hx] at hrq
  have hpe : (s0.params.map fun p => if p.requiresGrad then { p with gradSample := some GS.none_, fwdCounter := some 0 } else p).map Param.erase
      = s0.params :=
    (map_if_erase s0.params (fun p => p.requiresGrad) (fun p => { p with gradSample := some GS.none_, fwdCounter := some 0 }) (fun _ => rfl)).trans
      (map_erase_pristine _ hp)
  have hcond : (s0.mode.isSome || s0.rootHooks.isSome) = false := by simp [hm, hr]
  cases m with
  | ew =>
    unfold wrap; rw [if_neg (by rw [hcond]; simp)]
    exact ⟨rfl, hpe, fun _ => ⟨rfl, hr⟩, fun h => absurd rfl h, hgs⟩
  | hooks =>
    unfold wrap; rw [if_neg (by rw [hcond]; simp)]
    exact ⟨rfl, hpe, fun h => Mode.noConfusion h, fun _ => ⟨rfl, rfl⟩, hgs⟩
  | functorch =>
    unfold wrap; rw [if_neg (by rw [hcond]; simp)]
    exact ⟨rfl, hpe, fun h => Mode.noConfusion h, fun _ => ⟨rfl, rfl⟩, hgs⟩
  | ghost =>
    unfold wrap; rw [if_neg (by rw [hcond]; simp)]
    exact ⟨rfl, hpe, fun h => Mode.noConfusion h, fun _ => ⟨rfl, rfl⟩, hgs⟩

/-- cleaning a layer (repaired variant) only looks at its frame -/
theorem cleanLayer_repaired_frame (ps : List Param) (l : Layer) :
    cleanLayer Fix.repaired ps l =
      { l.frame.1 with ftCompute := if trainable l.frame.1 ps then false else l.frame.2.2.1 } := by
  simp [cleanLayer, Layer.frame, Layer.erase, Fix.repaired, trainable]

/-
Full statement for the code as it stands (FALSE — see the counterexamples below):
  ∀ pristine s0, ∀ m, ∀ training programs ops:
    unwrap Fix.asCoded (run Fix.asCoded (wrap m s0).1 ops) = (s', none) ∧ s'.params = s0.params ∧ s'.layers = s0.layers
-/

/-- **unwrap_leaves_no_attrs** — full statement, proved for the repaired `to_standard_module`:
for every pristine model (any layers, frozen parameters, user hooks), every grad-sample mode and every
training program (forwards with and without backward, skipped and failing steps, either zero_grad,
hook toggling, building the DP optimizer), unwrapping succeeds and hands back exactly the original
objects: every parameter and every layer is attribute-for-attribute what it was before wrapping,
no Opacus hook is left, the hook list is gone. -/
theorem unwrap_leaves_no_attrs (s0 : St) (h0 : Pristine s0) (m : Mode) (ops : List Op)
    (hin : ∀ o ∈ ops, o.inner = true) :
    let r := unwrap Fix.repaired (run Fix.repaired (wrap m s0).1 ops)
    r.2 = none ∧ r.1.params = s0.params ∧ r.1.layers = s0.layers ∧ r.1.rootHooks = none ∧ r.1.mode = none := by
  obtain ⟨w1, w2, w3, w4, _⟩ := wrap_pristine s0 h0 m
  obtain ⟨f1, f2, f3, f4, f5⟩ := inner_run_frame Fix.repaired ops hin (wrap m s0).1
  obtain ⟨_, hr0, hp0, hl0⟩ := h0
  generalize hs : run Fix.repaired (wrap m s0).1 ops = s at *
  have hmode : s.mode = some m := f1.trans w1
  have hguard := delGradSample_guard s.params
  have hps : (delGradSample true s.params).1.map (cleanParam Fix.repaired) = s0.params := by
    have e1 : (delGradSample true s.params).1.map (cleanParam Fix.repaired) = (delGradSample true s.params).1.map Param.erase := by
      apply List.map_congr_left
      intro p hp
      have := delGradSample_none true s.params hguard p hp
      cases p; simp_all [cleanParam, Param.erase, Fix.repaired]
    rw [e1, delGradSample_erase, f3, w2]
  intro r
  show r.2 = none ∧ _
  have hr : r = unwrap Fix.repaired s := rfl
  unfold unwrap at hr
  simp only [hmode, Fix.repaired, hguard] at hr
  by_cases hew : m = .ew
  · subst hew
    obtain ⟨wl, wr⟩ := w3 rfl
    simp only [beq_self_eq_true, if_true] at hr
    rw [hr]
    refine ⟨rfl, hps, ?_, ?_, rfl⟩
    · exact (f5 w1).trans wl
    · exact f2.trans wr
  · obtain ⟨wr, wl⟩ := w4 hew
    have hne : (m == Mode.ew) = false := by cases m <;> simp_all
    have hroot : ∃ n, s.rootHooks = some n := by
      rw [f2]; exact Option.isSome_iff_exists.mp wr
    obtain ⟨n, hn⟩ := hroot
    simp only [hne, Bool.false_eq_true, if_false, hn] at hr
    rw [hr]
    refine ⟨rfl, hps, ?_, rfl, rfl⟩
    -- layers
    show s.layers.map (cleanLayer Fix.repaired ((delGradSample true s.params).1.map (cleanParam Fix.repaired))) = s0.layers
    rw [hps]
    have : s.layers.map (cleanLayer Fix.repaired s0.params)
        = (s.layers.map Layer.frame).map (fun x => { x.1 with ftCompute := if trainable x.1 s0.params then false else x.2.2.1 }) := by
      rw [List.map_map]; apply List.map_congr_left; intro l _; exact cleanLayer_repaired_frame _ l
    rw [this, f4, wl, List.map_map, List.map_map]
    conv => rhs; rw [← List.map_id s0.layers]
    apply List.map_congr_left
    intro l hl
    have hc := clean_layer_erase l (hl0 l hl)
    have hcl := hl0 l hl
    simp only [Function.comp, id]
    by_cases ht : trainable l s0.params = true
    · simp only [ht, if_true, Layer.frame, Layer.erase]
      have : trainable { kind := l.kind, params := l.params, userFwdHooks := l.userFwdHooks, userBwdHooks := l.userBwdHooks } s0.params = true := ht
      simp only [this, if_true]
      cases l; simp_all [Layer.clean, Layer.erase]
    · simp only [ht, Bool.false_eq_true, if_false, Layer.frame, Layer.erase]
      have : trainable { kind := l.kind, params := l.params, userFwdHooks := l.userFwdHooks, userBwdHooks := l.userBwdHooks } s0.params = false := by
        have h' : trainable l s0.params = false := by simpa using ht
        exact h'
      simp only [this, Bool.false_eq_true, if_false]
      cases l; simp_all [Layer.clean, Layer.erase]

/-- **unwrap_removes_hooks** (any variant): whenever `to_standard_module` returns, no layer carries an
Opacus hook any more, the hook list attribute is gone and the user's own hooks are untouched. -/
theorem unwrap_removes_hooks (fx : Fix) (s0 : St) (h0 : Pristine s0) (m : Mode) (ops : List Op)
    (hin : ∀ o ∈ ops, o.inner = true) :
    let r := unwrap fx (run fx (wrap m s0).1 ops)
    r.2 = none → (∀ l ∈ r.1.layers, l.opacusHooks = false) ∧ r.1.rootHooks = none ∧
      r.1.layers.map Layer.erase = s0.layers.map Layer.erase := by
  obtain ⟨w1, _, w3, w4, _⟩ := wrap_pristine s0 h0 m
  obtain ⟨f1, f2, _, _, f5⟩ := inner_run_frame fx ops hin (wrap m s0).1
  have hid := (params_identical fx (wrap m s0).1 ops).2
  have hid0 : (wrap m s0).1.layers.map Layer.erase = s0.layers.map Layer.erase := by
    have := (params_identical fx s0 [Op.wrap m]).2
    simpa [run, step] using this
  obtain ⟨_, hr0, _, hl0⟩ := h0
  generalize hs : run fx (wrap m s0).1 ops = s at *
  have hmode : s.mode = some m := f1.trans w1
  intro r hok
  have hr : r = unwrap fx s := rfl
  unfold unwrap at hr
  simp only [hmode] at hr
  cases hd : (delGradSample fx.frozenGuard s.params).2 with
  | some e => simp only [hd] at hr; rw [hr] at hok; cases hok
  | none =>
    simp only [hd] at hr
    by_cases hew : m = .ew
    · subst hew
      obtain ⟨wl, wr⟩ := w3 rfl
      simp only [beq_self_eq_true, if_true] at hr
      rw [hr]
      refine ⟨?_, f2.trans wr, hid.trans hid0⟩
      intro l hl
      rw [(f5 w1).trans wl] at hl
      have := hl0 l hl
      simp [Layer.clean] at this
      exact this.1.2
    · have hne : (m == Mode.ew) = false := by cases m <;> simp_all
      simp only [hne, Bool.false_eq_true, if_false] at hr
      cases hn : s.rootHooks with
      | none => simp only [hn] at hr; rw [hr] at hok; cases hok
      | some n =>
        simp only [hn] at hr
        rw [hr]
        refine ⟨?_, rfl, ?_⟩
        · intro l hl
          simp only [List.mem_map] at hl
          obtain ⟨x, _, rfl⟩ := hl
          rfl
        · show (s.layers.map _).map Layer.erase = _
          rw [List.map_map]
          have : (Layer.erase ∘ cleanLayer fx ((delGradSample fx.frozenGuard s.params).1.map (cleanParam fx))) = Layer.erase := by
            funext l; rfl
          rw [this]
          exact hid.trans hid0

/-- **unwrap_leaves_no_attrs_partial** (the code as it stands, any state whatsoever): whenever
`to_standard_module` returns, `grad_sample`, `_forward_counter` and `_current_grad_sample` are gone
from every parameter. -/
theorem unwrap_leaves_no_attrs_partial (fx : Fix) (s : St) (h : (unwrap fx s).2 = none) :
    ∀ p ∈ (unwrap fx s).1.params, p.gradSample = none ∧ p.fwdCounter = none ∧ p.curGS = false := by
  unfold unwrap at h ⊢
  cases hm : s.mode with
  | none => simp [hm] at h
  | some m =>
    simp only [hm] at h ⊢
    cases hd : (delGradSample fx.frozenGuard s.params).2 with
    | some e => simp [hd] at h
    | none =>
      simp only [hd] at h ⊢
      have key : ∀ p ∈ (delGradSample fx.frozenGuard s.params).1.map (cleanParam fx),
          p.gradSample = none ∧ p.fwdCounter = none ∧ p.curGS = false := by
        intro p hp
        simp only [List.mem_map] at hp
        obtain ⟨x, hx, rfl⟩ := hp
        exact ⟨delGradSample_none _ _ hd x hx, rfl, rfl⟩
      split
      · exact key
      · split
        · rename_i hn; simp [hn] at h
          split at h <;> simp_all
        · exact key

/-- **unwrap_succeeds_partial** (the code as it stands): if every parameter is trainable,
`to_standard_module` does not raise after any training program in any mode. -/
theorem unwrap_succeeds_partial (s0 : St) (h0 : Pristine s0) (hall : ∀ p ∈ s0.params, p.requiresGrad = true)
    (m : Mode) (ops : List Op) (hin : ∀ o ∈ ops, o.inner = true) :
    (unwrap Fix.asCoded (run Fix.asCoded (wrap m s0).1 ops)).2 = none := by
  obtain ⟨w1, w2, w3, w4, w5⟩ := wrap_pristine s0 h0 m
  obtain ⟨f1, f2, f3, _, _⟩ := inner_run_frame Fix.asCoded ops hin (wrap m s0).1
  have hgs := inner_run_gs Fix.asCoded ops hin (wrap m s0).1 w5
  generalize hs : run Fix.asCoded (wrap m s0).1 ops = s at *
  have hmode : s.mode = some m := f1.trans w1
  have hreq : ∀ p ∈ s.params, p.requiresGrad = true := by
    intro p hp
    have e : s.params.map Param.erase = s0.params := f3.trans w2
    have : p.erase ∈ s0.params := by rw [← e]; exact List.mem_map_of_mem hp
    have h2 := hall p.erase this
    exact h2
  have hd : (delGradSample Fix.asCoded.frozenGuard s.params).2 = none :=
    delGradSample_ok _ _ (fun p hp => hgs p hp (hreq p hp))
  unfold unwrap
  simp only [hmode, hd]
  by_cases hew : m = .ew
  · subst hew; simp
  · have hne : (m == Mode.ew) = false := by cases m <;> simp_all
    obtain ⟨wr, _⟩ := w4 hew
    obtain ⟨n, hn⟩ := Option.isSome_iff_exists.mp wr
    simp only [hne, Bool.false_eq_true, if_false, f2, hn]

/-! ## the code as it stands: what `to_standard_module` leaves behind (replayed on the real code) -/

/-- one Linear layer with weight and bias -/
def one (rg0 rg1 : Bool) : St :=
  { params := [{ requiresGrad := rg0 }, { requiresGrad := rg1 }], layers := [{ kind := .both, params := [0, 1] }] }

example : Pristine (one true true) := by
  refine ⟨rfl, rfl, ?_, ?_⟩ <;> decide

def after (s : St) (ops : List Op) : St × Option Err :=
  let s' := run Fix.asCoded s (ops.dropLast)
  match ops.getLast? with
  | some o => step Fix.asCoded s' o
  | none => (s', none)

/-- `activations` stays on the layer — as an empty list after a complete step, holding the captured
input tensors after a forward that was never backpropagated -/
theorem leftover_activations_counterexample :
    ((after (one true true) [.wrap .hooks, .fwd true, .bwd, .unwrap]).2 = none ∧
     ((after (one true true) [.wrap .hooks, .fwd true, .bwd, .unwrap]).1.layers.map (·.activations)) = [some 0]) ∧
    ((after (one true true) [.wrap .hooks, .fwd true, .unwrap]).1.layers.map (·.activations)) = [some 1] := by
  decide

/-- `max_batch_len` stays when a captured forward is still outstanding at the last backward -/
theorem leftover_max_batch_len_counterexample :
    (after (one true true) [.wrap .hooks, .fwd true, .fwd true, .bwd, .unwrap]).2 = none ∧
    ((after (one true true) [.wrap .hooks, .fwd true, .fwd true, .bwd, .unwrap]).1.layers.map (·.maxBatchLen)) = [true] := by
  decide

/-- `summed_grad` (set by the DP optimizer's constructor) stays on every trainable parameter, even
if no step was ever taken -/
theorem leftover_summed_grad_counterexample :
    (after (one true true) [.wrap .hooks, .wrapOpt, .unwrap]).2 = none ∧
    ((after (one true true) [.wrap .hooks, .wrapOpt, .unwrap]).1.params.map (·.summedGrad)) = [some false, some false] ∧
    ((after (one true true) [.wrap .hooks, .wrapOpt, .optZeroGrad, .fwd true, .bwd, .optStep false, .unwrap]).1.params.map (·.summedGrad))
      = [some true, some true] := by
  decide

/-- ghost clipping: `_norm_sample` stays on every trainable parameter -/
theorem leftover_norm_sample_counterexample :
    (after (one true true) [.wrap .ghost, .wrapOpt, .optZeroGrad, .fwd true, .bwd, .unwrap]).2 = none ∧
    ((after (one true true) [.wrap .ghost, .wrapOpt, .optZeroGrad, .fwd true, .bwd, .unwrap]).1.params.map (·.normSample)) = [true, true] := by
  decide

/-- torch's `_is_full_backward_hook` stays `False` on every layer that carried an Opacus backward hook
(afterwards `register_full_backward_hook` raises on the unwrapped module) -/
theorem leftover_full_backward_flag_counterexample :
    (after (one true true) [.wrap .hooks, .unwrap]).2 = none ∧
    ((after (one true true) [.wrap .hooks, .unwrap]).1.layers.map (·.fullBwdFlag)) = [some false] := by
  decide

/-- a frozen parameter never receives `grad_sample`, so `del p.grad_sample` raises: the model stays
wrapped, hooks and all, with the attribute already deleted from the parameters before it -/
theorem unwrap_raises_frozen_param_counterexample :
    (after (one true false) [.wrap .hooks, .unwrap]).2 = some .attrError ∧
    ((after (one true false) [.wrap .hooks, .unwrap]).1.layers.map (·.opacusHooks)) = [true] ∧
    ((after (one true false) [.wrap .hooks, .unwrap]).1.params.map (·.gradSample)) = [none, none] ∧
    ((after (one true false) [.wrap .hooks, .unwrap]).1.params.map (·.fwdCounter)) = [some 0, none] ∧
    (after (one true false) [.wrap .hooks, .modZeroGrad, .unwrap]).2 = none := by
  decide

/-- non-vacuity of the full statement: the same programs under the repaired variant -/
example :
    (unwrap Fix.repaired (run Fix.repaired (wrap .ghost (one true false)).1
        [.wrapOpt, .optZeroGrad, .fwd true, .bwd, .optStep false, .fwd true])).1.params = (one true false).params ∧
    (unwrap Fix.repaired (run Fix.repaired (wrap .hooks (one true false)).1
        [.wrapOpt, .optZeroGrad, .fwd true, .fwd true, .bwd, .optStep false])).1.layers = (one true false).layers := by
  decide

end Opacus.C19
