import OpacusLean.Model.Dist
import Mathlib.Algebra.BigOperators.Fin
import Mathlib.Algebra.BigOperators.Field
import Mathlib.Algebra.BigOperators.Group.List.Basic
import Mathlib.Algebra.BigOperators.Ring.List
import Mathlib.Tactic.FieldSimp
import Mathlib.Tactic.Ring
import Mathlib.Tactic.NormNum

namespace Opacus.C18
open Opacus.Dist

section bridge
variable {R : Type}

theorem sumFin_eq_sum [AddCommMonoid R] (n : Nat) (f : Fin n → R) : sumFin n f = ∑ i, f i := by
  unfold sumFin
  induction n with
  | zero => simp [Fin.foldl_zero]
  | succ n ih => rw [Fin.foldl_succ_last, Fin.sum_univ_castSucc, ← ih]

end bridge

variable {R : Type} [Field R] {P : Nat} {dims : Fin P → Nat} {W : Nat}

theorem clipSum_union (clip : Grad R P dims → Fin P → R) (shards : Fin W → List (Grad R P dims))
    (p : Fin P) (i : Fin (dims p)) :
    clipSum clip (unionBatch shards) p i = ∑ w, clipSum clip (shards w) p i := by
  simp only [clipSum, unionBatch, List.map_flatten, List.sum_flatten, List.map_ofFn, List.sum_ofFn]
  rfl

theorem addNoise_apply (c : Cfg R P dims) (b : Bool) (S z : Grad R P dims) (p : Fin P) (i : Fin (dims p)) :
    addNoise c b S z p i = S p i + (if b && c.noisy then z p i else 0) := by
  cases b <;> simp [addNoise]

theorem sum_rank0_ite (hW : 0 < W) (b : Bool) (f : Fin W → R) :
    (∑ w : Fin W, if ((w.val == 0) && b) = true then f w else 0) = if b then f ⟨0, hW⟩ else 0 := by
  cases b
  · simp
  · simp only [Bool.and_true, beq_iff_eq, if_true]
    rw [Finset.sum_eq_single (⟨0, hW⟩ : Fin W)]
    · simp
    · intro w _ hne
      have : w.val ≠ 0 := fun h => hne (Fin.ext h)
      simp [this]
    · intro h; exact absurd (Finset.mem_univ _) h

/-- the sum over all workers of what `add_noise` leaves in `p.grad` -/
theorem sum_addNoise (c : Cfg R P dims) (hW : 0 < W) (S z : Fin W → Grad R P dims) (p : Fin P) (i : Fin (dims p)) :
    (∑ w : Fin W, addNoise c (w.val == 0) (S w) (z w) p i)
      = (∑ w, S w p i) + (if c.noisy then z ⟨0, hW⟩ p i else 0) := by
  simp only [addNoise_apply, Finset.sum_add_distrib]
  congr 1
  exact sum_rank0_ite hW c.noisy (fun w => z w p i)

theorem ddp_step_eq_union_step (c : Cfg R P dims) (E : R) (hW : 0 < W) (hWR : (W : R) ≠ 0)
    (shards : Fin W → List (Grad R P dims)) (z : Fin W → Grad R P dims) (w : Fin W) :
    ddpStepGrad (c.withEbs (engineEbs E true W)) shards z w
      = singleStepGrad (c.withEbs (engineEbs E false W)) (unionBatch shards) (z ⟨0, hW⟩) := by
  funext p i
  have hsum := sum_addNoise (c.withEbs (engineEbs E true W)) hW
    (fun w => clipSum c.clip (shards w)) z p i
  cases hr : c.red
  · -- mean
    simp only [ddpStepGrad, reduceGradients, singleStepGrad, preStep, scaleGrad, Cfg.withEbs, hr,
      allReduceSum, sumFin_eq_sum, engineEbs, if_true, Bool.false_eq_true, if_false] at hsum ⊢
    rw [← Finset.sum_div, hsum, addNoise_apply, clipSum_union, div_div]
    simp only [Bool.true_and]
    congr 1
    field_simp
  · -- sum
    simp only [ddpStepGrad, reduceGradients, singleStepGrad, preStep, scaleGrad, Cfg.withEbs, hr,
      allReduceSum, sumFin_eq_sum] at hsum ⊢
    rw [hsum, addNoise_apply, clipSum_union]
    simp

omit [Field R] in
/-- **broadcast_sync**: after `DPDDP(model)` every worker holds rank 0's parameters -/
theorem broadcast_sync (hW : 0 < W) (θ0 : Fin W → Grad R P dims) (w : Fin W) :
    dpddpInit hW θ0 w = θ0 ⟨0, hW⟩ := rfl

omit [Field R] in
/-- **noise_once_total** (requests): across the `W` workers one step issues exactly one
`torch.normal` request per parameter, with std `noise_multiplier * max_grad_norm`, all on rank 0
(none at all when `std == 0`) -/
theorem noise_once_total (c : Cfg R P dims) (hW : 0 < W) :
    ddpDraws c W = if c.noisy then List.ofFn (fun p : Fin P => ((⟨0, hW⟩ : Fin W), p, c.std)) else [] := by
  obtain ⟨n, rfl⟩ : ∃ n, W = n + 1 := ⟨W - 1, by omega⟩
  have hrest : (List.ofFn fun w : Fin n => (draws c ((w.succ : Fin (n+1)).val == 0)).map fun d => (w.succ, d)).flatten = [] := by
    rw [List.flatten_eq_nil_iff]
    intro l hl
    rw [List.mem_ofFn] at hl
    obtain ⟨w, rfl⟩ := hl
    simp [draws]
  unfold ddpDraws
  rw [List.ofFn_succ, List.flatten_cons, hrest, List.append_nil]
  cases hn : c.noisy <;> simp [draws, hn, List.map_ofFn, Function.comp_def]

end Opacus.C18
