import OpacusLean.Model.Dist
import Mathlib.Algebra.BigOperators.Fin
import Mathlib.Algebra.BigOperators.Field
import Mathlib.Algebra.BigOperators.Group.List.Basic
import Mathlib.Algebra.BigOperators.Ring.List
import Mathlib.Tactic.FieldSimp
import Mathlib.Tactic.Ring
import Mathlib.Tactic.NormNum
import Mathlib.Tactic.LinearCombination
import Mathlib.Data.Fin.VecNotation
import Mathlib.Algebra.Field.Rat

/-! # C18 — distributed DP training equals single-process DP training on the union batch

All statements are about the executable definitions of `OpacusLean/Model/Dist.lean` (the `Float`
instance of the same definitions is run against the real optimizers in gloo process groups).
They hold over any field `R` in which the world size is invertible (`(W : R) ≠ 0`; every `W ≥ 1`
in characteristic 0), for every sharding `Fin W → List sample` (empty and unequal shards included),
every per-sample clip function of the sample alone, both loss reductions, any noise values.

* `DistributedDPOptimizer`, `DistributedDPOptimizerFastGradientClipping`,
  `SimpleDistributedPerLayerOptimizer` (`ddpStepGrad`): full strength —
  `ddp_step_eq_union_step`, `ddp_step_release_form`, `ddp_step_workers_agree`,
  `ddp_run_eq_union_run` (construction + any number of steps), `noise_once_total`,
  `ddp_step_indep_of_other_noise`, `broadcast_sync`.
* `DistributedPerLayerOptimizer` under torch DDP (`hookStepGrad`): the full-strength statement
  `hookStepGrad asCoded asCoded … = ok (union release)` is FALSE for the code as it stands
  (findings C18-F1, C18-F2): `hooks_step_asCoded` (what the code computes: 2/W × the union release),
  `hooks_step_asCoded_ne_union`, `hooks_step_eq_union_step_partial` (W = 2, no empty shard),
  `hooks_step_counterexample`, `hooks_empty_shard_counterexample`, and
  `hooks_repaired_step_eq_union_step` (full strength for the repaired hook). -/
namespace Opacus.C18
open Opacus.Dist

section bridge
variable {R : Type}

theorem sumFin_eq_sum [AddCommMonoid R] (n : Nat) (f : Fin n → R) : sumFin n f = ∑ i, f i := by
  unfold sumFin
  induction n with
  | zero => simp [Fin.foldl_zero]
  | succ n ih => rw [Fin.foldl_succ_last, Fin.sum_univ_castSucc, ← ih]

end bridge

variable {R : Type} [Field R] {P : Nat} {dims : Fin P → Nat} {W : Nat}

theorem clipSum_union (clip : Grad R P dims → Fin P → R) (shards : Fin W → List (Grad R P dims))
    (p : Fin P) (i : Fin (dims p)) :
    clipSum clip (unionBatch shards) p i = ∑ w, clipSum clip (shards w) p i := by
  simp only [clipSum, unionBatch, List.map_flatten, List.sum_flatten, List.map_ofFn, List.sum_ofFn]
  rfl

theorem addNoise_apply (c : Cfg R P dims) (b : Bool) (S z : Grad R P dims) (p : Fin P) (i : Fin (dims p)) :
    addNoise c b S z p i = S p i + (if b && c.noisy then z p i else 0) := by
  cases b <;> simp [addNoise]

theorem sum_rank0_ite (hW : 0 < W) (b : Bool) (f : Fin W → R) :
    (∑ w : Fin W, if ((w.val == 0) && b) = true then f w else 0) = if b then f ⟨0, hW⟩ else 0 := by
  cases b
  · simp
  · simp only [Bool.and_true, beq_iff_eq, if_true]
    rw [Finset.sum_eq_single (⟨0, hW⟩ : Fin W)]
    · simp
    · intro w _ hne
      have : w.val ≠ 0 := fun h => hne (Fin.ext h)
      simp [this]
    · intro h; exact absurd (Finset.mem_univ _) h

/-- the sum over all workers of what `add_noise` leaves in `p.grad` -/
theorem sum_addNoise (c : Cfg R P dims) (hW : 0 < W) (S z : Fin W → Grad R P dims) (p : Fin P) (i : Fin (dims p)) :
    (∑ w : Fin W, addNoise c (w.val == 0) (S w) (z w) p i)
      = (∑ w, S w p i) + (if c.noisy then z ⟨0, hW⟩ p i else 0) := by
  simp only [addNoise_apply, Finset.sum_add_distrib]
  congr 1
  exact sum_rank0_ite hW c.noisy (fun w => z w p i)

theorem ddp_step_eq_union_step (c : Cfg R P dims) (E : R) (hW : 0 < W) (hWR : (W : R) ≠ 0)
    (shards : Fin W → List (Grad R P dims)) (z : Fin W → Grad R P dims) (w : Fin W) :
    ddpStepGrad (c.withEbs (engineEbs E true W)) shards z w
      = singleStepGrad (c.withEbs (engineEbs E false W)) (unionBatch shards) (z ⟨0, hW⟩) := by
  funext p i
  have hsum := sum_addNoise (c.withEbs (engineEbs E true W)) hW
    (fun w => clipSum c.clip (shards w)) z p i
  cases hr : c.red
  · -- mean
    simp only [ddpStepGrad, reduceGradients, singleStepGrad, preStep, scaleGrad, Cfg.withEbs, hr,
      allReduceSum, sumFin_eq_sum, engineEbs, if_true, Bool.false_eq_true, if_false] at hsum ⊢
    rw [← Finset.sum_div, hsum, addNoise_apply, clipSum_union, div_div]
    simp only [Bool.true_and]
    congr 1
    field_simp
  · -- sum
    simp only [ddpStepGrad, reduceGradients, singleStepGrad, preStep, scaleGrad, Cfg.withEbs, hr,
      allReduceSum, sumFin_eq_sum] at hsum ⊢
    rw [hsum, addNoise_apply, clipSum_union]
    simp

omit [Field R] in
/-- **broadcast_sync**: after `DPDDP(model)` every worker holds rank 0's parameters -/
theorem broadcast_sync (hW : 0 < W) (θ0 : Fin W → Grad R P dims) (w : Fin W) :
    dpddpInit hW θ0 w = θ0 ⟨0, hW⟩ := rfl

omit [Field R] in
/-- **noise_once_total** (requests): across the `W` workers one step issues exactly one
`torch.normal` request per parameter, with std `noise_multiplier * max_grad_norm`, all on rank 0
(none at all when `std == 0`) -/
theorem noise_once_total (c : Cfg R P dims) (hW : 0 < W) :
    ddpDraws c W = if c.noisy then List.ofFn (fun p : Fin P => ((⟨0, hW⟩ : Fin W), p, c.std)) else [] := by
  obtain ⟨n, rfl⟩ : ∃ n, W = n + 1 := ⟨W - 1, by omega⟩
  have hrest : (List.ofFn fun w : Fin n => (draws c ((w.succ : Fin (n+1)).val == 0)).map fun d => (w.succ, d)).flatten = [] := by
    rw [List.flatten_eq_nil_iff]
    intro l hl
    rw [List.mem_ofFn] at hl
    obtain ⟨w, rfl⟩ := hl
    simp [draws]
  unfold ddpDraws
  rw [List.ofFn_succ, List.flatten_cons, hrest, List.append_nil]
  cases hn : c.noisy <;> simp [draws, hn, List.map_ofFn, Function.comp_def]

/-- `opacus.distributed.average_gradients`: every worker ends with the mean over the workers -/
theorem average_gradients_eq (x : Fin W → Grad R P dims) (w : Fin W) (p : Fin P) (i : Fin (dims p)) :
    averageGradients x w p i = (∑ v, x v p i) / (W : R) := by
  simp [averageGradients, allReduceSum, sumFin_eq_sum]

/-! ## closed form of the release, all workers agree, runs -/

/-- the single-process release in closed form: clip each sample by its own factor, sum, add the
noise once, divide by `expected_batch_size · accumulated_iterations` (mean reduction) -/
theorem single_release_form (c : Cfg R P dims) (batch : List (Grad R P dims)) (z : Grad R P dims)
    (p : Fin P) (i : Fin (dims p)) :
    singleStepGrad c batch z p i =
      match c.red with
      | .mean => ((batch.map fun g => c.clip g p * g p i).sum + (if c.noisy then z p i else 0)) / (c.ebs * c.k)
      | .sum => (batch.map fun g => c.clip g p * g p i).sum + (if c.noisy then z p i else 0) := by
  cases hr : c.red <;> simp [singleStepGrad, preStep, scaleGrad, hr, addNoise_apply, clipSum]

/-- **ddp_step_eq_union_step**, closed form: on every worker the distributed step leaves
`(Σ_w Σ_{s ∈ shard w} clip(s)·g(s) + z₀) / (E·k)` (mean) resp. the undivided sum (sum reduction):
per-sample clip factors are those of the samples themselves, the shards are summed, rank 0's noise
enters exactly once, and the denominator is the *global* expected batch size. -/
theorem ddp_step_release_form (c : Cfg R P dims) (E : R) (hW : 0 < W) (hWR : (W : R) ≠ 0)
    (shards : Fin W → List (Grad R P dims)) (z : Fin W → Grad R P dims) (w : Fin W)
    (p : Fin P) (i : Fin (dims p)) :
    ddpStepGrad (c.withEbs (engineEbs E true W)) shards z w p i =
      match c.red with
      | .mean => ((∑ v, ((shards v).map fun g => c.clip g p * g p i).sum) + (if c.noisy then z ⟨0, hW⟩ p i else 0)) / (E * c.k)
      | .sum => (∑ v, ((shards v).map fun g => c.clip g p * g p i).sum) + (if c.noisy then z ⟨0, hW⟩ p i else 0) := by
  rw [ddp_step_eq_union_step c E hW hWR, single_release_form]
  have h := clipSum_union c.clip shards p i
  simp only [clipSum] at h
  cases hr : c.red <;> simp [Cfg.withEbs, engineEbs, hr, h]

/-- every worker ends the step with the same gradient -/
theorem ddp_step_workers_agree (c : Cfg R P dims) (E : R) (hW : 0 < W) (hWR : (W : R) ≠ 0)
    (shards : Fin W → List (Grad R P dims)) (z : Fin W → Grad R P dims) (w w' : Fin W) :
    ddpStepGrad (c.withEbs (engineEbs E true W)) shards z w
      = ddpStepGrad (c.withEbs (engineEbs E true W)) shards z w' := by
  rw [ddp_step_eq_union_step c E hW hWR, ddp_step_eq_union_step c E hW hWR]

/-- **noise_once_total** (values): the noise the other ranks would have drawn is irrelevant -/
theorem ddp_step_indep_of_other_noise (c : Cfg R P dims) (E : R) (hW : 0 < W) (hWR : (W : R) ≠ 0)
    (shards : Fin W → List (Grad R P dims)) (z z' : Fin W → Grad R P dims)
    (h0 : z ⟨0, hW⟩ = z' ⟨0, hW⟩) (w : Fin W) :
    ddpStepGrad (c.withEbs (engineEbs E true W)) shards z w
      = ddpStepGrad (c.withEbs (engineEbs E true W)) shards z' w := by
  rw [ddp_step_eq_union_step c E hW hWR, ddp_step_eq_union_step c E hW hWR, h0]

/-- one step on synchronised parameters keeps them synchronised and equal to the single-process ones -/
theorem ddp_step_params (c : Cfg R P dims) (E : R) (hW : 0 < W) (hWR : (W : R) ≠ 0)
    (θ : Grad R P dims) (shards : Fin W → List (Grad R P dims)) (z : Fin W → Grad R P dims) (w : Fin W) :
    ddpStep (c.withEbs (engineEbs E true W)) (fun _ => θ) shards z w
      = singleStep (c.withEbs (engineEbs E false W)) θ (unionBatch shards) (z ⟨0, hW⟩) := by
  simp only [ddpStep, singleStep, ddp_step_eq_union_step c E hW hWR]
  rfl

/-- **ddp_run_eq_union_run**: construct DPDDP from arbitrary (different) per-rank initial
parameters, then take any number of steps on any shardings: every worker holds exactly the
parameters of the single-process run that starts from rank 0's parameters, sees the concatenated
batches, uses the total expected batch size `E` and draws rank 0's noise. -/
theorem ddp_run_eq_union_run (c : Cfg R P dims) (E : R) (hW : 0 < W) (hWR : (W : R) ≠ 0)
    (θ0 : Fin W → Grad R P dims) (steps : List (StepIn R P dims W)) (w : Fin W) :
    ddpRun (c.withEbs (engineEbs E true W)) (dpddpInit hW θ0) steps w
      = unionRun (c.withEbs (engineEbs E false W)) hW (θ0 ⟨0, hW⟩) steps := by
  have key : ∀ (θ : Grad R P dims) (steps : List (StepIn R P dims W)),
      ddpRun (c.withEbs (engineEbs E true W)) (fun _ => θ) steps w
        = unionRun (c.withEbs (engineEbs E false W)) hW θ steps := by
    intro θ steps
    induction steps generalizing θ with
    | nil => rfl
    | cons s rest ih =>
      simp only [ddpRun, unionRun]
      have : ddpStep (c.withEbs (engineEbs E true W)) (fun _ => θ) s.shards s.z
          = fun _ => singleStep (c.withEbs (engineEbs E false W)) θ (unionBatch s.shards) (s.z ⟨0, hW⟩) := by
        funext v; exact ddp_step_params c E hW hWR θ s.shards s.z v
      rw [this]
      exact ih _
  exact key _ steps

/-- in characteristic 0 every world size `W ≥ 1` qualifies -/
theorem ddp_run_eq_union_run_charZero [CharZero R] (c : Cfg R P dims) (E : R) (hW : 0 < W)
    (θ0 : Fin W → Grad R P dims) (steps : List (StepIn R P dims W)) (w : Fin W) :
    ddpRun (c.withEbs (engineEbs E true W)) (dpddpInit hW θ0) steps w
      = unionRun (c.withEbs (engineEbs E false W)) hW (θ0 ⟨0, hW⟩) steps :=
  ddp_run_eq_union_run c E hW (Nat.cast_ne_zero.mpr (Nat.pos_iff_ne_zero.mp hW)) θ0 steps w

/-! ## `DistributedPerLayerOptimizer` under torch DDP -/

omit [Field R] in
theorem hookErrRanks_nil_of_nonempty (shards : Fin W → List (Grad R P dims)) (h : ∀ w, shards w ≠ []) :
    hookErrRanks .asCoded shards = [] := by
  unfold hookErrRanks
  simp only
  rw [List.flatten_eq_nil_iff]
  intro l hl
  rw [List.mem_ofFn] at hl
  obtain ⟨w, rfl⟩ := hl
  have : (shards w).isEmpty = false := by
    cases hs : shards w with
    | nil => exact absurd hs (h w)
    | cons a b => rfl
  simp [this]

private theorem aux_sum {R : Type} [Field R] {W : Nat} (a : Fin W → R) :
    ∑ v, (a v + a v) / (W : R) = 2 / (W : R) * ∑ v, a v := by
  rw [Finset.mul_sum]; exact Finset.sum_congr rfl fun v _ => by ring

private theorem aux_mean {R : Type} [Field R] {W : Nat} (a : Fin W → R) (d : R) :
    ∑ v, (a v / d + a v / d) / (W : R) = 2 / (W : R) * ((∑ v, a v) / d) := by
  rw [Finset.sum_div, Finset.mul_sum]; exact Finset.sum_congr rfl fun v _ => by ring

/-- **as coded** (finding C18-F1): with no empty shard every worker ends with `2/W` times the
single-process release on the union batch — signal and noise alike. -/
theorem hooks_step_asCoded (c : Cfg R P dims) (E : R) (hW : 0 < W) (hWR : (W : R) ≠ 0)
    (shards : Fin W → List (Grad R P dims)) (hne : ∀ w, shards w ≠ []) (z : Fin W → Grad R P dims) :
    hookStepGrad .asCoded .asCoded (c.withEbs (engineEbs E true W)) shards z
      = .ok fun _ p i => 2 / (W : R) *
          singleStepGrad (c.withEbs (engineEbs E false W)) (unionBatch shards) (z ⟨0, hW⟩) p i := by
  unfold hookStepGrad
  rw [hookErrRanks_nil_of_nonempty shards hne]
  simp only
  congr 1
  funext w p i
  have hsum := sum_addNoise (c.withEbs (engineEbs E true W)) hW
    (fun w => clipSum c.clip (shards w)) z p i
  cases hr : c.red
  · simp only [torchDDPAverage, hookLocal, singleStepGrad, preStep, scaleGrad, Cfg.withEbs, hr,
      sumFin_eq_sum, engineEbs, if_true, Bool.false_eq_true, if_false] at hsum ⊢
    rw [addNoise_apply, clipSum_union]
    simp only [Bool.true_and]
    rw [← hsum]
    have hd : E / (W : R) * c.k * (W : R) = E * c.k := by field_simp
    rw [hd]
    exact aux_mean _ _
  · simp only [torchDDPAverage, hookLocal, singleStepGrad, preStep, scaleGrad, Cfg.withEbs, hr,
      sumFin_eq_sum] at hsum ⊢
    rw [addNoise_apply, clipSum_union]
    simp only [Bool.true_and]
    rw [← hsum]
    exact aux_sum _

/-- **partial** (the only world size for which the hook variant satisfies the property, and only
without empty shards): `W = 2`. -/
theorem hooks_step_eq_union_step_partial (c : Cfg R P dims) (E : R) (h2 : (2 : R) ≠ 0)
    (shards : Fin 2 → List (Grad R P dims)) (hne : ∀ w, shards w ≠ []) (z : Fin 2 → Grad R P dims) :
    hookStepGrad .asCoded .asCoded (c.withEbs (engineEbs E true 2)) shards z
      = .ok fun _ => singleStepGrad (c.withEbs (engineEbs E false 2)) (unionBatch shards) (z 0) := by
  have hWR : ((2 : Nat) : R) ≠ 0 := by simpa using h2
  rw [hooks_step_asCoded c E (by decide) hWR shards hne z]
  congr 1
  funext w p i
  have : (2 : R) / ((2 : Nat) : R) = 1 := by
    rw [show ((2 : Nat) : R) = 2 by norm_num]; exact div_self h2
  rw [this, one_mul]
  rfl

/-- **repaired hook** (returns the value without assigning `p.grad`; mean: divides by the local
`expected_batch_size · k` only; sum: multiplies by `W` to undo DDP's averaging; no `view(0,-1)`):
the full statement, every `W`, empty shards included. -/
theorem hooks_repaired_step_eq_union_step (c : Cfg R P dims) (E : R) (hW : 0 < W) (hWR : (W : R) ≠ 0)
    (shards : Fin W → List (Grad R P dims)) (z : Fin W → Grad R P dims) :
    hookStepGrad .repaired .repaired (c.withEbs (engineEbs E true W)) shards z
      = .ok fun _ => singleStepGrad (c.withEbs (engineEbs E false W)) (unionBatch shards) (z ⟨0, hW⟩) := by
  unfold hookStepGrad
  simp only [hookErrRanks]
  congr 1
  funext w p i
  have hsum := sum_addNoise (c.withEbs (engineEbs E true W)) hW
    (fun w => clipSum c.clip (shards w)) z p i
  cases hr : c.red
  · simp only [torchDDPAverage, hookLocal, singleStepGrad, preStep, scaleGrad, Cfg.withEbs, hr,
      sumFin_eq_sum, engineEbs, if_true, Bool.false_eq_true, if_false] at hsum ⊢
    rw [addNoise_apply, clipSum_union]
    simp only [Bool.true_and]
    rw [← hsum, Finset.sum_div]
    refine Finset.sum_congr rfl fun v _ => ?_
    rw [div_div]
    congr 1
    field_simp
  · simp only [torchDDPAverage, hookLocal, singleStepGrad, preStep, scaleGrad, Cfg.withEbs, hr,
      sumFin_eq_sum] at hsum ⊢
    rw [addNoise_apply, clipSum_union]
    simp only [Bool.true_and]
    rw [← hsum]
    refine Finset.sum_congr rfl fun v _ => ?_
    field_simp

/-- … hence for every world size other than 2 the hook variant misses the single-process release
wherever that release is non-zero -/
theorem hooks_step_asCoded_ne_union (c : Cfg R P dims) (E : R) (hW : 0 < W) (hWR : (W : R) ≠ 0)
    (hW2 : (W : R) ≠ 2)
    (shards : Fin W → List (Grad R P dims)) (hne : ∀ w, shards w ≠ []) (z : Fin W → Grad R P dims)
    (p : Fin P) (i : Fin (dims p))
    (hrel : singleStepGrad (c.withEbs (engineEbs E false W)) (unionBatch shards) (z ⟨0, hW⟩) p i ≠ 0) :
    hookStepGrad .asCoded .asCoded (c.withEbs (engineEbs E true W)) shards z
      ≠ .ok fun _ => singleStepGrad (c.withEbs (engineEbs E false W)) (unionBatch shards) (z ⟨0, hW⟩) := by
  rw [hooks_step_asCoded c E hW hWR shards hne z]
  intro h
  have h1 := congrFun (congrFun (congrFun (Except.ok.inj h) ⟨0, hW⟩) p) i
  have h2 : (2 / (W : R) - 1) *
      singleStepGrad (c.withEbs (engineEbs E false W)) (unionBatch shards) (z ⟨0, hW⟩) p i = 0 := by
    rw [sub_mul, one_mul, h1, sub_self]
  rcases mul_eq_zero.mp h2 with h3 | h3
  · apply hW2
    have : (2 : R) / (W : R) = 1 := by linear_combination h3
    field_simp at this
    exact this.symm
  · exact hrel h3

/-! ## concrete witnesses (exact integer arithmetic; replayed on the real code by the harness)

Two parameters of sizes 1 and 2, token rows `(a | b, c)`, clip factor 1, no noise, sum reduction. -/

def dimsW : Fin 2 → Nat := ![1, 2]
def tok (a b c : Int) : Grad Int 2 dimsW := fun p i => if p = 0 then a else if i.val = 0 then b else c
def cfgW (e : Int) : Cfg Int 2 dimsW := ⟨.sum, e, 1, 0, false, 1, fun _ _ => 1⟩
/-- three workers, one sample each -/
def shards3 : Fin 3 → List (Grad Int 2 dimsW) := ![[tok 3 0 6], [tok 6 3 0], [tok 0 6 3]]
/-- two workers, the second one holds an empty shard -/
def shardsE : Fin 2 → List (Grad Int 2 dimsW) := ![[tok 3 0 6, tok 6 9 3], []]
/-- three workers, unequal shards, one empty -/
def shardsU : Fin 3 → List (Grad Int 2 dimsW) := ![[tok 3 0 6, tok 0 6 3], [], [tok 6 3 0]]

/-- **counterexample** (finding C18-F1, `W = 3`): every worker ends with `(6 | 6, 6)`, the
single-process step on the union batch gives `(9 | 9, 9)`. -/
theorem hooks_step_counterexample :
    (∀ w p i, (hookStepGrad .asCoded .asCoded (cfgW (engineEbs 3 true 3)) shards3 (fun _ _ _ => 0)).toOption.map
        (fun g => g w p i) = some 6) ∧
    (∀ p i, singleStepGrad (cfgW (engineEbs 3 false 3)) (unionBatch shards3) (fun _ _ => 0) p i = 9) := by
  decide

/-- **counterexample** (finding C18-F2): with an empty shard on rank 1 the hook raises there, while
the single-process step on the union batch is `(9 | 9, 9)` -/
theorem hooks_empty_shard_counterexample :
    hookStepGrad .asCoded .asCoded (cfgW (engineEbs 2 true 2)) shardsE (fun _ _ _ => 0) = .error [1] ∧
    (∀ p i, singleStepGrad (cfgW (engineEbs 2 false 2)) (unionBatch shardsE) (fun _ _ => 0) p i = 9) := by
  constructor
  · rfl
  · decide

/-- non-vacuity / sanity of the main theorem's objects on a sharding with an empty and unequal
shards: the flat distributed step and the repaired hook both give the union release on every rank -/
example :
    (∀ w p i, ddpStepGrad (cfgW (engineEbs 3 true 3)) shardsU (fun _ _ _ => 0) w p i = 9) ∧
    (∀ w p i, (hookStepGrad .repaired .repaired (cfgW (engineEbs 3 true 3)) shardsU (fun _ _ _ => 0)).toOption.map
        (fun g => g w p i) = some 9) ∧
    (∀ p i, singleStepGrad (cfgW (engineEbs 3 false 3)) (unionBatch shardsU) (fun _ _ => 0) p i = 9) := by
  decide

/-- the hypotheses of the field theorems are satisfiable: ℚ, three workers -/
example : (0 < 3) ∧ ((3 : Nat) : ℚ) ≠ 0 ∧ ((3 : Nat) : ℚ) ≠ 2 := by norm_num

end Opacus.C18
