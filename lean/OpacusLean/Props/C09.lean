import OpacusLean.Generated.SamplerArith
import OpacusLean.Generated.SamplerIter
import OpacusLean.Model.Sampler
import OpacusLean.Model.Binary64
import Mathlib.Data.List.Basic
import Mathlib.Data.List.Range
import Mathlib.Data.List.Nodup
import OpacusLean.Lemmas.Sampler
import OpacusLean.Lemmas.SamplerGrid
import OpacusLean.Lemmas.Binary64Steps
/-! # C09 — Poisson sampling: independent inclusion at the accounted rate, empties kept -/
set_option linter.unusedSectionVars false
namespace Opacus.C09
open Opacus.Sampler

section sampler
variable {R : Type} [LT R] [DecidableLT R]

/-- **inclusion_pointwise** — position `i` is in batch `b` iff its own draw `u b i` is below the
threshold: membership of `i` in `b` is a function of the single draw `u b i`.  (This is what turns
i.i.d. uniform draws into independent Bernoulli(q) inclusions, across positions and batches.) -/
theorem inclusion_pointwise (q : R) (N : Nat) (u : Nat → R) (i : Nat) :
    i ∈ batch q N u ↔ i < N ∧ u i < q := by
  simp [batch]

/-- **batch_wellformed** — a batch is strictly ascending (hence duplicate-free) and in range -/
theorem batch_wellformed (q : R) (N : Nat) (u : Nat → R) :
    (batch q N u).Pairwise (· < ·) ∧ (batch q N u).Nodup ∧ ∀ i ∈ batch q N u, i < N := by
  have hp : (batch q N u).Pairwise (· < ·) :=
    List.Pairwise.sublist List.filter_sublist List.pairwise_lt_range
  refine ⟨hp, ?_, ?_⟩
  · exact hp.imp (fun h => Nat.ne_of_lt h)
  · intro i hi; exact ((inclusion_pointwise q N u i).1 hi).1

/-- **epoch_len** — an epoch of the (single-process) sampler has exactly `steps` batches; batch `b`
is the Poisson selection of the `b`-th draw, whether or not it is empty -/
theorem epoch_len (steps : Nat) (q : R) (N : Nat) (u : Nat → Nat → R) :
    (epoch steps q N u).length = steps ∧
    ∀ b (hb : b < (epoch steps q N u).length), (epoch steps q N u)[b] = batch q N (u b) := by
  refine ⟨by simp [epoch], ?_⟩
  intro b hb
  simp [epoch]

/-- membership across an epoch: `i` is in batch `b` iff `b < steps ∧ i < N ∧ u b i < q` -/
theorem inclusion_epoch (steps : Nat) (q : R) (N : Nat) (u : Nat → Nat → R) (b i : Nat) :
    (∃ l, (epoch steps q N u)[b]? = some l ∧ i ∈ l) ↔ b < steps ∧ i < N ∧ u b i < q := by
  constructor
  · rintro ⟨l, hl, hi⟩
    have hb : b < steps := by
      have := (List.getElem?_eq_some_iff.1 hl).1
      simpa [epoch] using this
    refine ⟨hb, ?_⟩
    have : l = batch q N (u b) := by
      have h2 := hl
      simp [epoch, hb] at h2
      exact h2.symm
    subst this
    exact (inclusion_pointwise q N (u b) i).1 hi
  · rintro ⟨hb, hi⟩
    refine ⟨batch q N (u b), ?_, (inclusion_pointwise q N (u b) i).2 hi⟩
    simp [epoch, hb]

end sampler

/-- non-vacuity: three draws over four positions, the middle batch is empty and is kept -/
example : epoch 3 (5 : Nat) 4 (fun b i => [[1, 9, 4, 7], [8, 8, 9, 5], [0, 0, 0, 9]].getD b [] |>.getD i 0)
    = [[0, 2], [], [0, 1, 2]] := by decide


/-- **grid_inclusion_probability** (modelling remark made precise) — `torch.rand` float32 draws lie
on the grid `{k/M | k < M}`, `M = 2^24`; the number of grid points strictly below a threshold
`t ∈ [0,1]` is `⌈t·M⌉`, so under uniform grid draws `P(u < t) ∈ [t, t + 1/M)`: never below the
nominal rate, less than `2^-24` above it (`t` = `sample_rate` rounded to float32). -/
theorem grid_inclusion_probability (M : ℕ) (hM : 0 < M) (t : ℚ) (h0 : 0 ≤ t) (h1 : t ≤ 1) :
    let c := ((List.range M).filter (fun (k : ℕ) => decide ((k : ℚ) / M < t))).length
    t ≤ (c : ℚ) / M ∧ (c : ℚ) / M < t + 1 / M := by
  intro c
  have hc : c = ⌈t * (M : ℚ)⌉₊ := grid_count t M hM h1
  have h2 : (0 : ℚ) < M := by exact_mod_cast hM
  have ha : t * (M : ℚ) ≤ c := by rw [hc]; exact Nat.le_ceil _
  have hb : (c : ℚ) < t * (M : ℚ) + 1 := by
    rw [hc]; exact Nat.ceil_lt_add_one (by positivity)
  constructor
  · rw [le_div_iff₀ h2]; exact ha
  · rw [div_lt_iff₀ h2, add_mul, one_div, inv_mul_cancel₀ h2.ne']; exact hb

/-- non-vacuity: 4-point grid, threshold 0.3: two points (0, 1/4) lie below, `⌈1.2⌉ = 2` -/
example : ((List.range 4).filter (fun (k : ℕ) => decide ((k : ℚ) / (4 : ℕ) < 3 / 10))).length = 2 := by decide +kernel

/-! ## Distributed sampler: shards and local batches -/

/-- **shards_partition** — for every `N`, every world size `W ≥ 1` and EVERY permutation `perm` of
`range N` (shuffled or not): the rank-strided slices `perm[r : N : W]` have sizes
`N / W + [r < N % W]` (the sampler's `assert len(indices) == self.num_samples` never fires), are
duplicate-free, pairwise disjoint, and together cover exactly `range N`. -/
theorem shards_partition (perm : List Nat) (N W : Nat) (hW : 0 < W) (hperm : perm.Perm (List.range N)) :
    (∀ r, r < W → (shard perm W r).length = numSamples N W r) ∧
    (∀ r, (shard perm W r).Nodup) ∧
    (∀ r₁ r₂, r₁ ≠ r₂ → List.Disjoint (shard perm W r₁) (shard perm W r₂)) ∧
    (∀ i, i < N ↔ ∃ r, r < W ∧ i ∈ shard perm W r) := by
  have hnd : perm.Nodup := hperm.nodup_iff.2 List.nodup_range
  have hlen : perm.length = N := by rw [hperm.length_eq, List.length_range]
  obtain ⟨h1, h2, h3, h4⟩ := shards_of_nodup perm W hW hnd
  refine ⟨?_, h2, h3, ?_⟩
  · intro r hr; rw [← hlen]; exact h1 r hr
  · intro i; rw [← h4 i, hperm.mem_iff, List.mem_range]

/-- the sizes add up: `Σ_r (N / W + [r < N % W]) = N` -/
example : (List.range 4).map (numSamples 10 4) = [3, 3, 2, 2] := by decide
/-- non-vacuity: a shuffled permutation of `range 7`, three ranks -/
example : (List.range 3).map (shard [4, 2, 6, 0, 1, 5, 3] 3) = [[4, 0, 3], [2, 1], [6, 5]] := by decide

section dist
variable {R : Type} [LT R] [DecidableLT R]

/-- a local batch is a duplicate-free sub-selection of the rank's shard, decided draw by draw:
the shard element at local position `k` is selected in round `b` iff `u b k < q` -/
theorem dist_batch_wellformed (q : R) (perm : List Nat) (W rank : Nat) (hnd : perm.Nodup) (u : Nat → R) :
    let sh := shard perm W rank
    let l := (batch q sh.length u).map (fun k => sh.getD k 0)
    l.Nodup ∧ (∀ x ∈ l, x ∈ sh) ∧ (∀ k (hk : k < sh.length), sh[k] ∈ l ↔ u k < q) := by
  intro sh l
  have hW : (shard perm W rank).Nodup := by
    unfold shard
    refine List.Nodup.map_on ?_ (shardPositions_nodup _ _ _)
    intro a ha b hb hab
    have ha' := ((mem_shardPositions _ _ _ _).1 ha).1
    have hb' := ((mem_shardPositions _ _ _ _).1 hb).1
    rw [List.getD_eq_getElem (l := perm) (d := 0) ha', List.getD_eq_getElem (l := perm) (d := 0) hb'] at hab
    exact (List.Nodup.getElem_inj_iff hnd).1 hab
  have hb := batch_wellformed q sh.length u
  refine ⟨?_, ?_, ?_⟩
  · refine List.Nodup.map_on ?_ hb.2.1
    intro a ha b hb' hab
    have ha' := hb.2.2 a ha
    have hb'' := hb.2.2 b hb'
    rw [List.getD_eq_getElem (l := sh) (d := 0) ha', List.getD_eq_getElem (l := sh) (d := 0) hb''] at hab
    exact (List.Nodup.getElem_inj_iff hW).1 hab
  · intro x hx
    obtain ⟨k, hk, rfl⟩ := List.mem_map.1 hx
    have hk' := hb.2.2 k hk
    rw [List.getD_eq_getElem (l := sh) (d := 0) hk']
    exact List.getElem_mem hk'
  · intro k hk
    constructor
    · intro hx
      obtain ⟨k', hk', he⟩ := List.mem_map.1 hx
      have hk'' := hb.2.2 k' hk'
      rw [List.getD_eq_getElem (l := sh) (d := 0) hk''] at he
      have : k' = k := (List.Nodup.getElem_inj_iff hW).1 he
      subst this
      exact ((inclusion_pointwise q sh.length u k').1 hk').2
    · intro hu
      refine List.mem_map.2 ⟨k, (inclusion_pointwise q sh.length u k).2 ⟨hk, hu⟩, ?_⟩
      rw [List.getD_eq_getElem (l := sh) (d := 0) hk]

/-- with every local batch delivered (the repaired behaviour) an epoch has exactly `steps` batches
on every rank, so all ranks take the same number of optimizer steps -/
theorem dist_epoch_len_repaired (steps : Nat) (q : R) (perm : List Nat) (W rank : Nat) (u : Nat → Nat → R) :
    (distEpoch .repaired steps q perm W rank u).length = steps := by
  simp [distEpoch]

/-- as coded, the epoch is the repaired one with the empty local batches removed -/
theorem dist_epoch_asCoded (steps : Nat) (q : R) (perm : List Nat) (W rank : Nat) (u : Nat → Nat → R) :
    distEpoch .asCoded steps q perm W rank u
      = (distEpoch .repaired steps q perm W rank u).filter (fun l => !l.isEmpty) ∧
    (distEpoch .asCoded steps q perm W rank u).length ≤ steps := by
  refine ⟨rfl, ?_⟩
  have := List.length_filter_le (fun l : List Nat => !l.isEmpty) (distEpoch .repaired steps q perm W rank u)
  rw [dist_epoch_len_repaired] at this
  exact this

end dist

/-- **dist_drops_empty_counterexample** (finding D15) — 8 samples, 2 ranks, 3 rounds, every draw
above the threshold: the rank delivers 0 batches as coded instead of 3 empty ones -/
theorem dist_drops_empty_counterexample :
    distEpoch .asCoded 3 (1 : Nat) [0, 1, 2, 3, 4, 5, 6, 7] 2 0 (fun _ _ => 5) = [] ∧
    distEpoch .repaired 3 (1 : Nat) [0, 1, 2, 3, 4, 5, 6, 7] 2 0 (fun _ _ => 5) = [[], [], []] := by
  decide

/-! ## Empty-batch collate -/

/-- **empty_collate_shape_partial** — for the documented case (an item that is a tuple / list of
tensors and Python scalars) the empty batch has the item's structure: one `(0, *shape)` tensor of
the element's dtype per element.
Full statement (`∀ item, emptyCollateAsCoded item = .ok (emptyCollateSpec item)`) is false as coded:
`empty_collate_counterexample`. -/
theorem empty_collate_shape_partial (xs : List Item) (hflat : ∀ x ∈ xs, x.isLeaf = true) :
    emptyCollateAsCoded (.tuple xs) = .ok (emptyCollateSpec (.tuple xs)) := by
  rw [spec_tuple]
  unfold emptyCollateAsCoded
  simp only [iterate]
  have key : xs.mapM elemSpec = some (xs.map (fun x => match x with
      | .tensor s d => (s, d) | .scalar d => ([], d) | _ => ([], .f32))) := by
    induction xs with
    | nil => rfl
    | cons x xs ih =>
      have hx := hflat x List.mem_cons_self
      have ih' := ih (fun y hy => hflat y (List.mem_cons_of_mem _ hy))
      rw [List.mapM_cons, ih']
      cases x <;> simp_all [Item.isLeaf, elemSpec]
  rw [key]
  simp only [List.map_map]
  congr 2
  apply List.map_congr_left
  intro x hx
  have := hflat x hx
  cases x <;> simp_all [Item.isLeaf, emptyCollateSpec]

/-- the repaired variant is the specification by definition -/
theorem empty_collate_repaired (item : Item) : emptyCollate .repaired item = .ok (emptyCollateSpec item) := rfl

/-- **empty_collate_counterexample** (finding D20) — a bare `(5,3)` tensor item gives five `(0,3)`
tensors instead of one `(0,5,3)` tensor; dict items and nested tuples raise `TypeError` -/
theorem empty_collate_counterexample :
    emptyCollateAsCoded (.tensor [5, 3] .f32) = .ok (.list (List.replicate 5 (.tensor [0, 3] .f32))) ∧
    emptyCollateSpec (.tensor [5, 3] .f32) = .tensor [0, 5, 3] .f32 ∧
    emptyCollateAsCoded (.dict [("x", .tensor [3] .f32), ("y", .tensor [] .i64)]) = .error .typeErrorAtCollate ∧
    emptyCollateAsCoded (.tuple [.tensor [3] .f32, .tuple [.tensor [2] .f32, .tensor [] .i64]]) = .error .typeErrorAtCollate ∧
    emptyCollateAsCoded (.scalar .pyInt) = .error .typeErrorAtInit := by
  refine ⟨rfl, by simp [emptyCollateSpec, DT.torch], rfl, rfl, rfl⟩

/-- non-vacuity of `empty_collate_shape_partial` -/
example : emptyCollateAsCoded (.tuple [.tensor [3, 2] .f16, .scalar .pyInt, .tensor [] .bool])
    = .ok (.list [.tensor [0, 3, 2] .f16, .tensor [0] .i64, .tensor [0] .bool]) := rfl

/-! ## Rates, epoch length, expected batch size (exact binary64) -/
section rates
open Opacus.Binary64

/-- **rate_consistency** — the rate handed to the accountant (`1/len(dp_loader)`) equals the rate the
sampler uses (`1/len(loader)`) iff the DP loader kept the length of the original loader
(`int(1/(1/L)) = L`); in every case it is not below it, and strictly above when the lengths differ. -/
theorem rate_consistency (L : ℕ) (hL : 0 < L) (hL51 : L < 2 ^ 51) :
    (qAcc .asCoded L = qSampler L ↔ lenDP .asCoded L = L) ∧
    (qSampler L).val ≤ (qAcc .asCoded L).val ∧
    (lenDP .asCoded L ≠ L → (qSampler L).val < (qAcc .asCoded L).val) ∧
    (lenDP .asCoded L = L ∨ lenDP .asCoded L + 1 = L) :=
  ⟨qAcc_eq_iff L hL hL51, (qSampler_le_qAcc L hL hL51).1, (qSampler_le_qAcc L hL hL51).2, lenDP_bounds L hL hL51⟩

theorem rate_consistency_repaired (L : ℕ) : qAcc .repaired L = qSampler L ∧ lenDP .repaired L = L := by
  simp [qAcc, qSampler, lenDP]

/-- **rate_consistency_counterexample** (finding D14) — a loader of length 93 -/
theorem rate_consistency_counterexample :
    lenDP .asCoded 93 = 92 ∧ qAcc .asCoded 93 ≠ qSampler 93 ∧ Binary64.lt (qSampler 93) (qAcc .asCoded 93) = true ∧
    lenDPFloat 93 = 92 := by
  decide +kernel

/-- **ebs_is_floor_partial** — `expected_batch_size = int(N · (1/L'))` never exceeds `⌊N/L'⌋`, is at
most one below it, and equals it whenever `L'` does not divide `N`.
Full statement (`ebs = ⌊N/L'⌋` always) is false as coded: `ebs_counterexample`. -/
theorem ebs_is_floor_partial (N L : ℕ) (hN : 0 < N) (hL : 0 < L) (hNb : N < 2 ^ 51) (hLb : L < 2 ^ 51) :
    ebs .asCoded N L ≤ N / lenDP .asCoded L ∧ N / lenDP .asCoded L ≤ ebs .asCoded N L + 1 ∧
    (N % lenDP .asCoded L ≠ 0 → ebs .asCoded N L = N / lenDP .asCoded L) :=
  ebs_bounds N L hN hL hNb hLb

/-- **ebs_counterexample** (finding D12) — `N = 98, L = 49`: `98 · (1/49)` rounds to `1.999…` and the
expected batch size is 1 instead of 2; `N = L = 49` gives 0 (kernel-checked on `Float` too) -/
theorem ebs_counterexample :
    ebs .asCoded 98 49 = 1 ∧ 98 / lenDP .asCoded 49 = 2 ∧ ebs .asCoded 49 49 = 0 ∧
    ebsFloat 98 49 = 1 ∧ ebsFloat 49 49 = 0 := by
  decide +kernel

/-- non-vacuity of the divisibility hypothesis and of the equality case -/
example : 100 % lenDP .asCoded 7 ≠ 0 ∧ ebs .asCoded 100 7 = 14 := by decide +kernel
example : ebs .asCoded 64 16 = 4 := by decide +kernel

end rates

/-! ## The tie to the source: shard-size arithmetic re-translated on every run -/
set_option linter.unusedTactic false in
set_option linter.unreachableTactic false in
/-- the tie to the source: the statements of `DistributedUniformWithReplacementSampler.__init__` that set
`self.num_samples`, re-translated on every run, compute the model's `numSamples` -/
theorem generated_num_samples_eq_model (N W rank : Nat) :
    Opacus.Generated.Sampler.numSamples N W rank = numSamples N W rank := by
  simp only [Opacus.Generated.Sampler.numSamples, numSamples]
  first
    | rfl
    | (split_ifs <;> omega)
    | (split <;> simp_all <;> omega)

/-- **generated_iter_eq_model**: `UniformWithReplacementSampler.__iter__` and `DistributedUniformWithReplacementSampler.__iter__` as written in
the source under test (re-translated on every run, `Generated/SamplerIter.lean`), as functions of the uniforms drawn for each batch, are the
model's `epoch` and `distEpoch .repaired`: exactly `steps` batches (empty ones included), one draw of `num_samples` uniforms per batch, position `i`
in batch `b` iff `u b i < q`, ascending, the rank's positions mapped through its shard. Every theorem above about `epoch` / `distEpoch` is therefore
about the source as it stands. -/
theorem generated_iter_eq_model {R : Type} [LT R] [DecidableLT R] (steps : Nat) (q : R) (u : Nat → Nat → R) :
    (∀ N, Opacus.Generated.SamplerIter.uniformIter steps q N u = epoch steps q N u) ∧
    (∀ perm W rank, Opacus.Generated.SamplerIter.distIter steps q perm W rank u = distEpoch .repaired steps q perm W rank u) := by
  refine ⟨fun N => ?_, fun perm W rank => ?_⟩
  · simp only [Opacus.Generated.SamplerIter.uniformIter, epoch, batch]
  · simp only [Opacus.Generated.SamplerIter.distIter, distEpoch, batch]

/-- on the generated function itself: an epoch has exactly `steps` batches and batch `b` contains position `i < N` iff `u b i < q` -/
theorem generated_iter_inclusion_law {R : Type} [LT R] [DecidableLT R] (steps : Nat) (q : R) (N : Nat) (u : Nat → Nat → R) :
    (Opacus.Generated.SamplerIter.uniformIter steps q N u).length = steps ∧
    ∀ b (hb : b < steps) i, i ∈ ((Opacus.Generated.SamplerIter.uniformIter steps q N u)[b]'(by
        simp [Opacus.Generated.SamplerIter.uniformIter]; exact hb)) ↔ (i < N ∧ u b i < q) := by
  refine ⟨by simp [Opacus.Generated.SamplerIter.uniformIter], fun b hb i => ?_⟩
  simp [Opacus.Generated.SamplerIter.uniformIter]

end Opacus.C09
