import OpacusLean.Model.Sampler
import OpacusLean.Model.Binary64
import Mathlib.Data.List.Basic
import Mathlib.Data.List.Range
import Mathlib.Data.List.Nodup
/-! # C09 — Poisson sampling: independent inclusion at the accounted rate, empties kept -/
set_option linter.unusedSectionVars false
namespace Opacus.C09
open Opacus.Sampler

section sampler
variable {R : Type} [LT R] [DecidableLT R]

/-- **inclusion_pointwise** — position `i` is in batch `b` iff its own draw `u b i` is below the
threshold: membership of `i` in `b` is a function of the single draw `u b i`.  (This is what turns
i.i.d. uniform draws into independent Bernoulli(q) inclusions, across positions and batches.) -/
theorem inclusion_pointwise (q : R) (N : Nat) (u : Nat → R) (i : Nat) :
    i ∈ batch q N u ↔ i < N ∧ u i < q := by
  simp [batch]

/-- **batch_wellformed** — a batch is strictly ascending (hence duplicate-free) and in range -/
theorem batch_wellformed (q : R) (N : Nat) (u : Nat → R) :
    (batch q N u).Pairwise (· < ·) ∧ (batch q N u).Nodup ∧ ∀ i ∈ batch q N u, i < N := by
  have hp : (batch q N u).Pairwise (· < ·) :=
    List.Pairwise.sublist List.filter_sublist List.pairwise_lt_range
  refine ⟨hp, ?_, ?_⟩
  · exact hp.imp (fun h => Nat.ne_of_lt h)
  · intro i hi; exact ((inclusion_pointwise q N u i).1 hi).1

/-- **epoch_len** — an epoch of the (single-process) sampler has exactly `steps` batches; batch `b`
is the Poisson selection of the `b`-th draw, whether or not it is empty -/
theorem epoch_len (steps : Nat) (q : R) (N : Nat) (u : Nat → Nat → R) :
    (epoch steps q N u).length = steps ∧
    ∀ b (hb : b < (epoch steps q N u).length), (epoch steps q N u)[b] = batch q N (u b) := by
  refine ⟨by simp [epoch], ?_⟩
  intro b hb
  simp [epoch]

/-- membership across an epoch: `i` is in batch `b` iff `b < steps ∧ i < N ∧ u b i < q` -/
theorem inclusion_epoch (steps : Nat) (q : R) (N : Nat) (u : Nat → Nat → R) (b i : Nat) :
    (∃ l, (epoch steps q N u)[b]? = some l ∧ i ∈ l) ↔ b < steps ∧ i < N ∧ u b i < q := by
  constructor
  · rintro ⟨l, hl, hi⟩
    have hb : b < steps := by
      have := (List.getElem?_eq_some_iff.1 hl).1
      simpa [epoch] using this
    refine ⟨hb, ?_⟩
    have : l = batch q N (u b) := by
      have h2 := hl
      simp [epoch, hb] at h2
      exact h2.symm
    subst this
    exact (inclusion_pointwise q N (u b) i).1 hi
  · rintro ⟨hb, hi⟩
    refine ⟨batch q N (u b), ?_, (inclusion_pointwise q N (u b) i).2 hi⟩
    simp [epoch, hb]

end sampler

/-- non-vacuity: three draws over four positions, the middle batch is empty and is kept -/
example : epoch 3 (5 : Nat) 4 (fun b i => [[1, 9, 4, 7], [8, 8, 9, 5], [0, 0, 0, 9]].getD b [] |>.getD i 0)
    = [[0, 2], [], [0, 1, 2]] := by decide

end Opacus.C09
