import OpacusLean.Generated.AcctStep
import OpacusLean.Generated.PreStep
import OpacusLean.Lemmas.EngineEffect
import Mathlib.Algebra.BigOperators.Group.List.Basic
/-! # C05 — every noised step is accounted exactly once, with the parameters in force

For **every finite operation sequence**, both optimizer kinds (standard and ghost-clipping), RDP/PRV
(run-length encoding) and GDP (refusing) accountants. -/
namespace Opacus.C05
open Opacus.Engine List

/-- shape of the event log: a concatenation of complete blocks `noise · account · inner` (a logical
step) and – only when an accountant refused the step – isolated `noise` events (the noised gradient
was computed but the inner optimizer never ran). -/
inductive Blocks : List Event → Prop
  | nil : Blocks []
  | block (σ C k : Nat) (t : List Nat) (l : List Event) :
      Blocks l → Blocks (l ++ [.noise σ C, .account σ k, .inner t])
  | refused (σ C : Nat) (l : List Event) : Blocks l → Blocks (l ++ [.noise σ C])

theorem finishStep_log (c : Cfg) (s : St) (sm : Flagged) (gs' : List Flagged) (k : Nat) :
    let r := finishStep c s sm gs' k
    (r.2 = .released ∧ r.1.log = s.log ++ [.noise s.sigma s.clip, .account s.sigma k, .inner sm.toks]
        ∧ r.1.hist = (if c.gdp then (gdpStep s.hist (s.sigma, k)).getD [] else rleStep s.hist (s.sigma, k))
        ∧ (c.gdp = true → (gdpStep s.hist (s.sigma, k)).isSome)) ∨
    (r.2 = .errGdp ∧ c.gdp = true ∧ r.1.log = s.log ++ [.noise s.sigma s.clip] ∧ r.1.hist = s.hist) ∨
    (r.2 ≠ .released ∧ r.2 ≠ .errGdp ∧ r.1.log = s.log ∧ r.1.hist = s.hist) := by
  unfold finishStep
  cases hq : popQueue s.queue with
  | mk skip q' =>
  simp only
  by_cases hskip : skip
  · simp [hskip]
  · simp only [hskip, Bool.false_eq_true, if_false]
    by_cases hp : sm.processed
    · simp [hp]
    · simp only [hp, Bool.false_eq_true, if_false]
      by_cases hg : c.gdp
      · simp only [hg, if_true]
        cases hgs : gdpStep s.hist (s.sigma, k) with
        | none => simp
        | some h' => simp
      · simp [hg]

/-- one-step characterisation of the log and the accountant history, for every op and both kinds -/
theorem stepOp_log (c : Cfg) (s : St) (o : Op) :
    let r := stepOp c s o
    (∃ k t, r.2 = .released ∧ r.1.log = s.log ++ [.noise s.sigma s.clip, .account s.sigma k, .inner t]
        ∧ r.1.hist = (if c.gdp then (gdpStep s.hist (s.sigma, k)).getD [] else rleStep s.hist (s.sigma, k))
        ∧ (c.gdp = true → (gdpStep s.hist (s.sigma, k)).isSome)) ∨
    (r.2 = .errGdp ∧ c.gdp = true ∧ r.1.log = s.log ++ [.noise s.sigma s.clip] ∧ r.1.hist = s.hist) ∨
    (r.2 ≠ .released ∧ r.2 ≠ .errGdp ∧ r.1.log = s.log ∧ r.1.hist = s.hist) := by
  have lift : ∀ (sm : Flagged) (gs' : List Flagged) (k : Nat),
      let r := finishStep c s sm gs' k
      (∃ k t, r.2 = .released ∧ r.1.log = s.log ++ [.noise s.sigma s.clip, .account s.sigma k, .inner t]
          ∧ r.1.hist = (if c.gdp then (gdpStep s.hist (s.sigma, k)).getD [] else rleStep s.hist (s.sigma, k))
          ∧ (c.gdp = true → (gdpStep s.hist (s.sigma, k)).isSome)) ∨
      (r.2 = .errGdp ∧ c.gdp = true ∧ r.1.log = s.log ++ [.noise s.sigma s.clip] ∧ r.1.hist = s.hist) ∨
      (r.2 ≠ .released ∧ r.2 ≠ .errGdp ∧ r.1.log = s.log ∧ r.1.hist = s.hist) := by
    intro sm gs' k
    rcases finishStep_log c s sm gs' k with h | h | h
    · exact Or.inl ⟨k, sm.toks, h⟩
    · exact Or.inr (Or.inl h)
    · exact Or.inr (Or.inr h)
  cases o with
  | signal b => simp [stepOp]
  | setSigma v => simp [stepOp]
  | setClip v => simp [stepOp]
  | optZeroGrad => simp [stepOp, optZero]
  | modZeroGrad => simp [stepOp]
  | fwdBwd n =>
    simp only [stepOp]
    cases c.kind <;> simp only [] <;> (try split) <;> simp [optZero]
  | step =>
    simp only [stepOp]
    cases c.kind with
    | std =>
      simp only []
      split
      · simp
      · split
        · simp
        · exact lift _ _ _
    | ghost =>
      simp only []
      cases s.pgrad with
      | none => simp
      | some g => exact lift _ _ _

theorem rleExpand_append {α} (a b : List (α × Nat)) : rleExpand (a ++ b) = rleExpand a ++ rleExpand b := by
  simp [rleExpand]

/-- **rle_expand**: recording a step in the run-length-encoded history (`RDPAccountant.step`,
`PRVAccountant.step`) appends exactly that step to the expanded history -/
theorem rle_expand {α} [DecidableEq α] (h : List (α × Nat)) (x : α) :
    rleExpand (rleStep h x) = rleExpand h ++ [x] := by
  unfold rleStep
  cases hl : h.getLast? with
  | none =>
    have : h = [] := by simpa using hl
    subst this; simp [rleExpand]
  | some p =>
    obtain ⟨y, n⟩ := p
    have hh : h = h.dropLast ++ [(y, n)] := by
      have hne : h ≠ [] := by intro e; simp [e] at hl
      have := List.dropLast_append_getLast hne
      rw [List.getLast?_eq_some_getLast hne] at hl
      have hlast : h.getLast hne = (y, n) := by simpa using hl
      rw [hlast] at this; exact this.symm
    simp only
    by_cases hyx : y = x
    · subst hyx
      simp only [if_true]
      conv_rhs => rw [hh]
      simp [rleExpand, List.replicate_succ']
    · simp [hyx, rleExpand]

/-- the GDP accountant (after the repair of D22) either refuses the step and keeps its history, or
records exactly that step -/
theorem gdp_expand {α} [DecidableEq α] (h h' : List (α × Nat)) (x : α) (hlen : h.length ≤ 1)
    (hs : gdpStep h x = some h') : rleExpand h' = rleExpand h ++ [x] ∧ h'.length ≤ 1 := by
  unfold gdpStep at hs
  match h, hlen with
  | [], _ => simp at hs; subst hs; simp [rleExpand]
  | [(y, n)], _ =>
    simp at hs
    obtain ⟨hyx, rfl⟩ := hs
    subst hyx
    simp [rleExpand, List.replicate_succ']

def HistInv (c : Cfg) (s : St) : Prop :=
  Blocks s.log ∧ rleExpand s.hist = accounts s.log ∧ (c.gdp = true → s.hist.length ≤ 1)

theorem accounts_append (a b : List Event) : accounts (a ++ b) = accounts a ++ accounts b := by
  simp [accounts, List.filterMap_append]

theorem histInv_step (c : Cfg) (s : St) (o : Op) (h : HistInv c s) : HistInv c (stepOp c s o).1 := by
  obtain ⟨hb, he, hl⟩ := h
  rcases stepOp_log c s o with ⟨k, t, _, hlog, hhist, hsome⟩ | ⟨_, hg, hlog, hhist⟩ | ⟨_, _, hlog, hhist⟩
  · refine ⟨by rw [hlog]; exact Blocks.block _ _ _ _ _ hb, ?_, ?_⟩
    · rw [hlog, hhist, accounts_append, ← he]
      by_cases hg : c.gdp
      · simp only [hg, if_true]
        obtain ⟨h', hh'⟩ := Option.isSome_iff_exists.mp (hsome hg)
        rw [hh', Option.getD_some, (gdp_expand _ _ _ (hl hg) hh').1]
        simp [accounts]
      · simp only [hg, Bool.false_eq_true, if_false, rle_expand]
        simp [accounts]
    · intro hg
      rw [hhist]; simp only [hg, if_true]
      obtain ⟨h', hh'⟩ := Option.isSome_iff_exists.mp (hsome hg)
      rw [hh', Option.getD_some]
      exact (gdp_expand _ _ _ (hl hg) hh').2
  · refine ⟨by rw [hlog]; exact Blocks.refused _ _ _ hb, ?_, by rw [hhist]; exact hl⟩
    rw [hlog, hhist, accounts_append, he]; simp [accounts]
  · exact ⟨by rw [hlog]; exact hb, by rw [hlog, hhist]; exact he, by rw [hhist]; exact hl⟩

theorem histInv_run (c : Cfg) (ops : List Op) (s : St) (h : HistInv c s) : HistInv c (run c s ops) := by
  induction ops generalizing s with
  | nil => exact h
  | cons o ops ih => exact ih _ (histInv_step c s o h)

theorem histInv_init (c : Cfg) (σ C : Nat) : HistInv c (init σ C) := by
  refine ⟨Blocks.nil, ?_, ?_⟩ <;> simp [init, rleExpand, accounts]

/-- **account_iff_release**: after any operation sequence, on any optimizer kind and accountant, the
event log is a concatenation of blocks *noise → account → inner-optimizer step*: there is no inner
step without its accountant record immediately before it (so no noised update can be applied without
being accounted), skipped and raising steps produce neither. -/
theorem account_iff_release (c : Cfg) (σ C : Nat) (ops : List Op) :
    Blocks (run c (init σ C) ops).log := (histInv_run c ops _ (histInv_init c σ C)).1

/-- … and the accountant's history, expanded, is exactly the sequence of records made at those steps -/
theorem history_is_the_accounted_steps (c : Cfg) (σ C : Nat) (ops : List Op) :
    rleExpand (run c (init σ C) ops).hist = accounts (run c (init σ C) ops).log :=
  (histInv_run c ops _ (histInv_init c σ C)).2.1

theorem blocks_counts {l : List Event} (h : Blocks l) :
    (accounts l).length = (releases l).length ∧ (releases l).length ≤ (noises l).length := by
  induction h with
  | nil => simp [accounts, releases, noises]
  | block σ C k t l _ ih =>
    simp only [accounts_append, releases_append, noises, List.filterMap_append, List.length_append] at ih ⊢
    simp [accounts, releases] at ih ⊢
    omega
  | refused σ C l _ ih =>
    simp only [accounts_append, releases_append, noises, List.filterMap_append, List.length_append] at ih ⊢
    simp [accounts, releases] at ih ⊢
    omega

/-- **accounted exactly once**: #records = #inner-optimizer steps = Σ num_steps of the history -/
theorem accounted_exactly_once (c : Cfg) (σ C : Nat) (ops : List Op) :
    (accounts (run c (init σ C) ops).log).length = (releases (run c (init σ C) ops).log).length ∧
    ((run c (init σ C) ops).hist.map (·.2)).sum = (releases (run c (init σ C) ops).log).length := by
  have h1 := (blocks_counts (account_iff_release c σ C ops)).1
  refine ⟨h1, ?_⟩
  rw [← h1, ← history_is_the_accounted_steps]
  generalize (run c (init σ C) ops).hist = h
  induction h with
  | nil => simp [rleExpand]
  | cons p t ih => simp [rleExpand] at ih ⊢; omega

/-- **account_values**: a logical step records the noise multiplier in force at that step (the same
one that scaled the noise) and `k` = the number of accumulated batches (standard optimizers: the
length of `grad_sample`; ghost clipping: always 1) -/
theorem account_values (c : Cfg) (s s' : St) (h : stepOp c s .step = (s', .released)) :
    ∃ t, s'.log = s.log ++ [.noise s.sigma s.clip,
        .account s.sigma (match c.kind with | .std => s.gs.length | .ghost => 1), .inner t] := by
  have key : ∀ (sm : Flagged) (gs' : List Flagged) (k : Nat),
      finishStep c s sm gs' k = (s', .released) →
      s'.log = s.log ++ [.noise s.sigma s.clip, .account s.sigma k, .inner sm.toks] := by
    intro sm gs' k hf
    rcases finishStep_log c s sm gs' k with ⟨_, hl, _⟩ | ⟨ho, _⟩ | ⟨ho, _⟩
    · rw [hf] at hl; exact hl
    · rw [hf] at ho; simp at ho
    · rw [hf] at ho; simp at ho
  simp only [stepOp] at h
  cases hk : c.kind with
  | std =>
    simp only [hk] at h
    split at h
    · simp at h
    · split at h
      · simp at h
      · exact ⟨_, key _ _ _ h⟩
  | ghost =>
    simp only [hk] at h
    cases hpg : s.pgrad with
    | none => simp [hpg] at h
    | some g => simp only [hpg] at h; exact ⟨_, key _ _ _ h⟩

/-- **empty_batch_accounted**: an empty Poisson batch is a logical step like any other – noise is
drawn, the step is recorded, the inner optimizer runs on pure noise -/
theorem empty_batch_accounted (c : Cfg) (hc : c.kind = .std) (σ C : Nat) :
    let s := run c (init σ C) [.fwdBwd 0, .step]
    releases s.log = [[]] ∧ accounts s.log = [(σ, 1)] ∧ noises s.log = [(σ, C)] := by
  cases c with
  | mk kind acc gdp =>
    simp only at hc; subst hc
    cases acc <;> cases gdp <;>
      simp [run, stepOp, init, fresh, finishStep, popQueue, accumulateInto, rleStep, gdpStep, releases, accounts, noises]

/-- **eps_depends_on_multiset** (additive accountants such as RDP): any per-step cost summed over
the expanded history is invariant under permutations of the recorded steps, hence under reordering and
under splitting / merging runs -/
theorem cost_perm_invariant {α M} [AddCommMonoid M] (f : α → M) (h₁ h₂ : List (α × Nat))
    (hp : (rleExpand h₁).Perm (rleExpand h₂)) :
    ((rleExpand h₁).map f).sum = ((rleExpand h₂).map f).sum := (hp.map f).sum_eq

example : rleExpand (rleStep (rleStep (rleStep ([] : List (Nat × Nat)) 7) 7) 9) = [7, 7, 9] := by decide

/-! ### The tie to the source: the three `step` methods re-translated on every run (`Generated/AcctStep.lean`) -/
section generated
open Opacus.Generated.Acct

/-- the engine model keys a run by the pair `(σ, q)`; the code stores the triple `(σ, q, n)` -/
def assoc {A : Type} (e : A × A × Nat) : (A × A) × Nat := ((e.1, e.2.1), e.2.2)

theorem hist_cases {A : Type} (h : List A) : h = [] ∨ ∃ l a, h = l ++ [a] := by
  rcases List.eq_nil_or_concat h with h | ⟨l, a, h⟩
  · exact Or.inl h
  · exact Or.inr ⟨l, a, by simpa using h⟩

/-- **`RDPAccountant.step`, `PRVAccountant.step` and `GaussianAccountant.step` as written in the source are the
model's `rleStep` / `gdpStep`** (for every history, every parameter type with decidable equality) -/
theorem generated_step_eq_model {A : Type} [DecidableEq A] (h : List (A × A × Nat)) (s q : A) :
    (rdpStep h s q).map (List.map assoc) = some (rleStep (h.map assoc) (s, q)) ∧
    (prvStep h s q).map (List.map assoc) = some (rleStep (h.map assoc) (s, q)) ∧
    (Opacus.Generated.Acct.gdpStep h s q).map (List.map assoc) = Opacus.Engine.gdpStep (h.map assoc) (s, q) := by
  rcases hist_cases h with rfl | ⟨l, ⟨a, b, n⟩, rfl⟩
  · simp [rdpStep, prvStep, Opacus.Generated.Acct.gdpStep, rleStep, Opacus.Engine.gdpStep, assoc]
  · by_cases h1 : a = s <;> by_cases h2 : b = q <;>
      simp [rdpStep, prvStep, Opacus.Generated.Acct.gdpStep, rleStep, Opacus.Engine.gdpStep, assoc, h1, h2]

/-- the source's `step` never raises for the RDP / PRV accountants and appends exactly the step it is given to the
expanded ledger; the GDP one either raises or does the same -/
theorem generated_step_accounts_once {A : Type} [DecidableEq A] (h : List (A × A × Nat)) (s q : A) :
    (∃ h', rdpStep h s q = some h' ∧ rleExpand (h'.map assoc) = rleExpand (h.map assoc) ++ [(s, q)]) ∧
    (∃ h', prvStep h s q = some h' ∧ rleExpand (h'.map assoc) = rleExpand (h.map assoc) ++ [(s, q)]) ∧
    (∀ h', h.length ≤ 1 → Opacus.Generated.Acct.gdpStep h s q = some h' →
        rleExpand (h'.map assoc) = rleExpand (h.map assoc) ++ [(s, q)] ∧ h'.length ≤ 1) := by
  obtain ⟨e1, e2, e3⟩ := generated_step_eq_model h s q
  refine ⟨?_, ?_, ?_⟩
  · cases hr : rdpStep h s q with
    | none => simp [hr] at e1
    | some h' =>
      refine ⟨h', rfl, ?_⟩
      rw [hr] at e1; simp only [Option.map_some, Option.some.injEq] at e1
      rw [e1, rle_expand]
  · cases hr : prvStep h s q with
    | none => simp [hr] at e2
    | some h' =>
      refine ⟨h', rfl, ?_⟩
      rw [hr] at e2; simp only [Option.map_some, Option.some.injEq] at e2
      rw [e2, rle_expand]
  · intro h' hl hg
    rw [hg] at e3; simp only [Option.map_some] at e3
    have := gdp_expand (h.map assoc) (h'.map assoc) (s, q) (by simpa using hl) e3.symm
    simpa using this

end generated

/-! ## The tie to the source: the phase order of `pre_step` (both DP optimizers), `DPOptimizer.step` and the accountant hook's arguments,
re-translated on every run (`Generated/PreStep.lean`) -/
section prestep
open Opacus.Generated.PreStep

/-- the order of phases the engine model's `finishStep` implements: accumulate; test (and consume) the skip signal – a skipped step ends
here, with no noise and no accounting (`finishStep_log`, third case); `add_noise` (`.noise`); `scale_grad`; the accountant hook (`.account`);
clear the marker; hand over to the inner optimizer (`.inner`) -/
def modelOrder : List Phase := [.clipAccumulate, .skipCheck, .addNoise, .scaleGrad, .hook, .clearSkipped, .proceed]

/-- **generated_pre_step_eq_model**: `DPOptimizer.pre_step` (after its no-trainable-parameters shortcut) and
`DPOptimizerFastGradientClipping.pre_step`, as written in the source under test, run their phases in the order of the model; the inner
optimizer steps exactly when `pre_step()` returned true; and the accountant hook records `(σ live, q · k)` – the pair the model's
`.account σ k` event stands for (`account_values`). -/
theorem generated_pre_step_eq_model :
    flat.filter (· ≠ .noParamsShortcut) = modelOrder ∧ ghost.filter (· ≠ .noParamsShortcut) = modelOrder ∧
    (∀ p ∈ flat.dropWhile (· ≠ .clipAccumulate), p ≠ .noParamsShortcut) ∧
    innerStepIffPreStep = true ∧
    (∀ σ q k : ℝ, hookSigma σ q k = σ ∧ hookRate σ q k = q * k) := by
  refine ⟨by decide, by decide, by decide, by decide, fun σ q k => ⟨?_, ?_⟩⟩
  · unfold hookSigma; rfl
  · unfold hookRate; first | rfl | exact mul_comm _ _

/-- what the order buys, stated on the model the correspondence runs: a step whose skip signal is set leaves the log and the ledger untouched,
a released step appends exactly noise → account → inner step -/
theorem skipped_step_neither_noised_nor_accounted (c : Cfg) (s : St) (sm : Flagged) (gs' : List Flagged) (k : Nat)
    (h : (finishStep c s sm gs' k).2 = .skipped) :
    (finishStep c s sm gs' k).1.log = s.log ∧ (finishStep c s sm gs' k).1.hist = s.hist := by
  rcases finishStep_log c s sm gs' k with ⟨h1, _⟩ | ⟨h1, _⟩ | ⟨_, _, h3, h4⟩
  · rw [h] at h1; cases h1
  · rw [h] at h1; cases h1
  · exact ⟨h3, h4⟩

end prestep

end Opacus.C05
