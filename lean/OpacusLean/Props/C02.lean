import OpacusLean.Generated.ClipFactor
import OpacusLean.Lemmas.ClipReal
import OpacusLean.Lemmas.ClipExec
import OpacusLean.Lemmas.ClipGhost
/-! # C02 — one example moves the noise-free clipped sum by at most the clipping norm -/
namespace Opacus.C02
open Opacus.Clip Opacus.Ghost

variable {P : Nat} {d : Fin P → Nat}

/-- **clip_norm_lt** (flat / adaptive): the clipped gradient of one sample has joint norm `< C`. -/
theorem clip_norm_lt {C : ℝ} (hC : 0 < C) (g : Grad ℝ d) :
    flatNorm (clipped (.flat C) g) < C := by
  show flatNorm (gscale (fun _ => clipFactor C (flatNorm g)) g) < C
  rw [flatNorm_gscale_const, abs_of_pos (clipFactor_pos hC (flatNorm_nonneg g))]
  exact clipFactor_mul_lt hC (flatNorm_nonneg g)

/-- adaptive clipping clips exactly like flat clipping with the bound in force -/
theorem adaptive_clipped_eq_flat (C : ℝ) (g : Grad ℝ d) :
    clipped (.adaptive C) g = clipped (.flat C) g := rfl

/-- per-layer: every tensor of the clipped sample gradient has norm `< C_k` -/
theorem clip_norm_lt_perLayer {Cs : Fin P → ℝ} (hC : ∀ k, 0 < Cs k) (g : Grad ℝ d) (k : Fin P) :
    norm2 (clipped (.perLayer Cs) g k) < Cs k := by
  show norm2 (fun i => clipFactor (Cs k) (norm2 (g k)) * g k i) < Cs k
  rw [norm2_smul, abs_of_pos (clipFactor_pos (hC k) (norm2_nonneg _))]
  exact clipFactor_mul_lt (hC k) (norm2_nonneg _)

/-- per-layer, jointly: `< ‖(C_k)_k‖₂`, the `max_grad_norm` that `DPPerLayerOptimizer` hands to the
noise -/
theorem clip_norm_le_perLayer_joint {Cs : Fin P → ℝ} (hC : ∀ k, 0 < Cs k) (g : Grad ℝ d) :
    flatNorm (clipped (.perLayer Cs) g) ≤ norm2 Cs := by
  unfold flatNorm
  apply norm2_le_of_sq_le
  apply Finset.sum_le_sum
  intro k _
  have h := clip_norm_lt_perLayer hC g k
  have h0 : 0 ≤ norm2 (clipped (.perLayer Cs) g k) := norm2_nonneg _
  exact mul_self_le_mul_self h0 h.le


/-! ## Sensitivity -/

theorem gradSamples_of_independent {X : Type} {G : List X → Nat → Grad ℝ d} {g : X → Grad ℝ d}
    (hg : ∀ (batch : List X) (i : Nat) (h : i < batch.length), G batch i = g batch[i])
    (batch : List X) : gradSamples G batch = batch.map g := by
  apply List.ext_getElem
  · simp [gradSamples]
  · intro i h₁ h₂
    simp only [gradSamples, List.getElem_map, List.getElem_range]
    exact hg batch i (by simpa [gradSamples] using h₁)

/-- **clip_sum_sensitivity** (flat and adaptive clipping): if the per-sample gradients depend on
their own sample only, removing any one example from any batch moves the clipped sum by a vector of
joint norm `< C`. -/
theorem clip_sum_sensitivity {X : Type} {C : ℝ} (hC : 0 < C) (G : List X → Nat → Grad ℝ d)
    (hG : SampleIndependent G) (l₁ l₂ : List X) (x : X) :
    flatNorm (gsub (batchSum (.flat C) (gradSamples G (l₁ ++ [x] ++ l₂)))
                   (batchSum (.flat C) (gradSamples G (l₁ ++ l₂)))) < C := by
  obtain ⟨g, hg⟩ := hG
  rw [gradSamples_of_independent hg, gradSamples_of_independent hg]
  simp only [List.map_append, List.map_cons, List.map_nil]
  rw [batchSum_remove]
  exact clip_norm_lt hC (g x)

theorem clip_sum_sensitivity_adaptive {X : Type} {C : ℝ} (hC : 0 < C) (G : List X → Nat → Grad ℝ d)
    (hG : SampleIndependent G) (l₁ l₂ : List X) (x : X) :
    flatNorm (gsub (batchSum (.adaptive C) (gradSamples G (l₁ ++ [x] ++ l₂)))
                   (batchSum (.adaptive C) (gradSamples G (l₁ ++ l₂)))) < C := by
  obtain ⟨g, hg⟩ := hG
  rw [gradSamples_of_independent hg, gradSamples_of_independent hg]
  simp only [List.map_append, List.map_cons, List.map_nil]
  rw [batchSum_remove]
  exact clip_norm_lt hC (g x)

/-- per-layer clipping: every tensor moves by `< C_k`, all tensors jointly by `≤ √ΣC_k²` -/
theorem clip_sum_sensitivity_perLayer {X : Type} {Cs : Fin P → ℝ} (hC : ∀ k, 0 < Cs k)
    (G : List X → Nat → Grad ℝ d) (hG : SampleIndependent G) (l₁ l₂ : List X) (x : X) :
    (∀ k, norm2 (gsub (batchSum (.perLayer Cs) (gradSamples G (l₁ ++ [x] ++ l₂)))
                      (batchSum (.perLayer Cs) (gradSamples G (l₁ ++ l₂))) k) < Cs k) ∧
    flatNorm (gsub (batchSum (.perLayer Cs) (gradSamples G (l₁ ++ [x] ++ l₂)))
                   (batchSum (.perLayer Cs) (gradSamples G (l₁ ++ l₂)))) ≤ norm2 Cs := by
  obtain ⟨g, hg⟩ := hG
  rw [gradSamples_of_independent hg, gradSamples_of_independent hg]
  simp only [List.map_append, List.map_cons, List.map_nil]
  rw [batchSum_remove]
  exact ⟨clip_norm_lt_perLayer hC (g x), clip_norm_le_perLayer_joint hC (g x)⟩

/-- non-vacuity: a sample-independent attribution exists (here: the sample *is* its gradient) -/
example : SampleIndependent (fun (batch : List (Grad ℝ d)) i => batch.getD i gzero) :=
  ⟨id, fun batch i h => by simp [List.getD_eq_getElem?_getD, h]⟩

/-! ## Physical-batch splitting -/

theorem foldl_clipAndAccumulate_some (m : Mode ℝ P) (bs : List (List (Grad ℝ d))) (s : Grad ℝ d) :
    bs.foldl (clipAndAccumulate m) (some s) = some (gadd s (batchSum m bs.flatten)) := by
  induction bs generalizing s with
  | nil => simp [batchSum_nil]; funext k i; simp [gadd, gzero]
  | cons b bs ih =>
    simp only [List.foldl_cons, clipAndAccumulate, accumulate, ih, List.flatten_cons,
      batchSum_append]
    congr 1; funext k i; simp [gadd, add_assoc]

/-- **split_accumulate_eq**: `clip_and_accumulate` over any split of a logical batch into physical
batches (empty ones included) leaves in `summed_grad` the clipped sum of the whole batch. -/
theorem split_accumulate_eq (m : Mode ℝ P) (bs : List (List (Grad ℝ d))) (h : bs ≠ []) :
    accumulateAll m bs = some (batchSum m bs.flatten) := by
  cases bs with
  | nil => exact absurd rfl h
  | cons b bs =>
    simp only [accumulateAll, List.foldl_cons, clipAndAccumulate, accumulate,
      foldl_clipAndAccumulate_some, List.flatten_cons, batchSum_append]

/-- with sample-independent gradients the split can be made on the data: the bound of
`clip_sum_sensitivity` survives `BatchMemoryManager`, whatever the two splittings are -/
theorem clip_sum_sensitivity_split {X : Type} {C : ℝ} (hC : 0 < C) (G : List X → Nat → Grad ℝ d)
    (hG : SampleIndependent G) (l₁ l₂ : List X) (x : X) (cs cs' : List (List X))
    (h : cs.flatten = l₁ ++ [x] ++ l₂) (h' : cs'.flatten = l₁ ++ l₂) (hne' : cs' ≠ []) :
    ∃ s s', accumulateAll (.flat C) (cs.map (gradSamples G)) = some s ∧
            accumulateAll (.flat C) (cs'.map (gradSamples G)) = some s' ∧
            flatNorm (gsub s s') < C := by
  have hne : cs ≠ [] := by rintro rfl; simp at h
  refine ⟨_, _, split_accumulate_eq _ _ (by simpa using hne), split_accumulate_eq _ _ (by simpa using hne'), ?_⟩
  obtain ⟨g, hg⟩ := hG
  have e : ∀ c : List (List X), (c.map (gradSamples G)).flatten = c.flatten.map g := by
    intro c
    induction c with
    | nil => rfl
    | cons a c ih => simp [ih, gradSamples_of_independent hg]
  rw [e, e, h, h']
  simp only [List.map_append, List.map_cons, List.map_nil]
  rw [batchSum_remove]
  exact clip_norm_lt hC (g x)


/-! ## Ghost clipping: the norm samplers (any commutative ring, squared norms) -/
section ghostRing
variable {R : Type} [CommRing R]

/-- **linear_norm_sq_2d**: `nn.Linear` on 2-D input, weight: coded `Σb²·Σa²` is `‖b aᵀ‖²_F` -/
theorem linear_norm_sq_2d {O I : Nat} (b : Fin O → R) (a : Fin I → R) :
    linWeightNormSq2 b a = frobSq (linWeightGS2 b a) := (linWeightNormSq2_eq b a).symm

/-- **linear_weight_norm_sq_3d**: coded `Σ_{t,t'} (b_t·b_t')(a_t·a_t')` is `‖Σ_t b_t a_tᵀ‖²_F` -/
theorem linear_weight_norm_sq_3d {T O I : Nat} (b : Fin T → Fin O → R) (a : Fin T → Fin I → R) :
    linWeightNormSq3 b a = frobSq (linWeightGS3 b a) := (linWeightNormSq3_eq b a).symm

/-- **linear_bias_norm_sq_3d** (repaired variant): `Σ_{t,t'} b_t·b_t' = ‖Σ_t b_t‖²` -/
theorem linear_bias_norm_sq_3d {T O : Nat} (b : Fin T → Fin O → R) :
    linBiasNormSq3 .repaired b = vecSq (linBiasGS3 b) := (linBiasNormSq3_repaired_eq b).symm

/-- **embedding_norm_sq**: the unique-(row,id) aggregation is `‖scatter_add‖²_F` -/
theorem embedding_norm_sq {T V D : Nat} (ids : Fin T → Fin V) (b : Fin T → Fin D → R) :
    embNormSq ids b = frobSq (embGS ids b) := (embNormSq_eq ids b).symm

end ghostRing

/-- as coded the 3-D bias value is `‖b bᵀ‖²_F`, which is *not* `‖Σ_t b_t‖²`: two positions with
backprop ½ give ¼ instead of 1 (finding D1; exact rational witness) -/
theorem linear_bias_norm_sq_3d_counterexample :
    linBiasNormSq3 .asCoded (fun (_ : Fin 2) (_ : Fin 1) => (1 / 2 : ℚ)) = 1 / 4 ∧
    vecSq (linBiasGS3 (fun (_ : Fin 2) (_ : Fin 1) => (1 / 2 : ℚ))) = 1 := by
  simp only [linBiasNormSq3, linBiasGS3, gram, vecSq, sumFin_eq_sum, Fin.sum_univ_two,
    Fin.sum_univ_one]
  norm_num

/-! ## Ghost clipping: the pipeline (over ℝ) -/

/-- **ghost_eq_flat**: if every per-parameter norm sample is exact, the gradient the ghost path
accumulates for a physical batch is the flat clipped sum (for the repaired loss wrapper, and as
coded for per-sample losses of shape `[B]`) -/
theorem ghost_eq_flat (v : Variant) (s : LossShape) (hvs : ¬ (v = .asCoded ∧ s = .col)) (C : ℝ)
    (batch : List ((Fin P → ℝ) × Grad ℝ d)) (hex : ∀ x ∈ batch, x.1 = paramNorms x.2) :
    ghostBatchGrad v s C batch = batchSum (.flat C) (batch.map (·.2)) :=
  ghostBatchGrad_eq_batchSum v s hvs C batch hex

/-- hence ghost clipping with exact samplers has the sensitivity of flat clipping, physical-batch
accumulation included -/
theorem ghost_accumulate_eq_flat (v : Variant) (s : LossShape) (hvs : ¬ (v = .asCoded ∧ s = .col))
    (C : ℝ) (sg : Option (Grad ℝ d)) (batch : List ((Fin P → ℝ) × Grad ℝ d))
    (hex : ∀ x ∈ batch, x.1 = paramNorms x.2) :
    ghostAccumulate v s C sg batch = clipAndAccumulate (.flat C) sg (batch.map (·.2)) := by
  unfold ghostAccumulate clipAndAccumulate
  rw [ghost_eq_flat v s hvs C batch hex]

theorem norm2_fin1 (v : Fin 1 → ℝ) : norm2 v = |v 0| := by
  rw [norm2_eq, Fin.sum_univ_one, Real.sqrt_mul_self_eq_abs]

theorem flatNorm_one (g : Grad ℝ (fun _ : Fin 1 => 1)) : flatNorm g = |g 0 0| := by
  unfold flatNorm
  rw [norm2_fin1]
  show |norm2 (g 0)| = _
  rw [norm2_fin1, abs_abs]

/-- **linear_bias_norm_3d_counterexample** (as coded, finding D1): a sample whose only trainable
tensor is the bias of an `nn.Linear` fed two positions with backprop ½.  The coded norm sample is
½, the true gradient has norm 1; with `C = 0.6` the coefficient is 1 and the sample enters the sum
with norm 1 > C. -/
theorem linear_bias_norm_3d_counterexample :
    let b : Fin 2 → Fin 1 → ℝ := fun _ _ => 1 / 2
    let pn : Fin 1 → ℝ := fun _ => normOfSqClamped (linBiasNormSq3 .asCoded b)
    let g : Grad ℝ (fun _ : Fin 1 => 1) := fun _ => linBiasGS3 b
    pn 0 = 1 / 2 ∧ flatNorm g = 1 ∧
      (6 / 10 : ℝ) < flatNorm (ghostBatchGrad .asCoded .vec (6 / 10) [(pn, g)]) := by
  intro b pn g
  have hpn : pn 0 = 1 / 2 := by
    show normOfSqClamped (linBiasNormSq3 .asCoded b) = 1 / 2
    have : linBiasNormSq3 .asCoded b = (1 / 2) * (1 / 2) := by
      simp only [linBiasNormSq3, gram, sumFin_eq_sum, Fin.sum_univ_two, Fin.sum_univ_one, b]
      norm_num
    rw [this, normOfSqClamped_of_nonneg (by norm_num), Real.sqrt_mul_self (by norm_num)]
  have hg : g 0 0 = 1 := by
    show linBiasGS3 b 0 = 1
    simp only [linBiasGS3, sumFin_eq_sum, Fin.sum_univ_two, b]; norm_num
  have hgn : flatNorm g = 1 := by rw [flatNorm_one, hg, abs_one]
  refine ⟨hpn, hgn, ?_⟩
  have hcoef : clippingCoef (6 / 10) pn = 1 := by
    unfold clippingCoef normSample
    rw [norm2_fin1, hpn]
    apply clipFactor_eq_one <;> norm_num
  have : ghostBatchGrad .asCoded .vec (6 / 10) [(pn, g)] = g := by
    funext k i
    rw [ghostBatchGrad_apply _ _ (by simp)]
    simp [hcoef]
  rw [this, hgn]; norm_num

/-- **ghost_loss_broadcast_counterexample** (as coded, finding D11): per-sample loss of shape
`[B,1]`.  Two identical samples with gradient 3 and exact norm sample 3, `C = 1`: the accumulated
gradient of the batch and of the batch minus one sample differ by `9/(3+1e-6) > 1`. -/
theorem ghost_loss_broadcast_counterexample :
    let x : (Fin 1 → ℝ) × Grad ℝ (fun _ : Fin 1 => 1) := (fun _ => 3, fun _ _ => 3)
    x.1 = paramNorms x.2 ∧
    (1 : ℝ) < flatNorm (gsub (ghostBatchGrad .asCoded .col 1 [x, x])
                              (ghostBatchGrad .asCoded .col 1 [x])) := by
  intro x
  have hx : x.1 = paramNorms x.2 := by
    funext k
    show (3 : ℝ) = norm2 (fun _ => (3 : ℝ))
    rw [norm2_fin1]; norm_num
  refine ⟨hx, ?_⟩
  have hc : clippingCoef 1 x.1 = 1 / (3 + 1e-6) := by
    show clipFactor 1 (norm2 fun _ : Fin 1 => (3 : ℝ)) = _
    rw [norm2_fin1]
    unfold clipFactor
    rw [show |(3 : ℝ)| = 3 by norm_num]
    apply min_eq_right
    rw [div_le_one (by norm_num)]; norm_num
  rw [flatNorm_one]
  simp only [gsub, ghostBatchGrad, effectiveCoefs, wsum, List.map_cons, List.map_nil, List.foldl_cons,
    List.foldl_nil, List.zip_cons_cons, List.zip_nil_right, gadd, gscale, gzero, hc]
  show (1 : ℝ) < |_|
  rw [abs_of_pos] <;> norm_num [x]

/-- with the repaired wrapper (or a `[B]` loss) and exact samplers the same two batches differ by
`< C` -/
theorem ghost_sum_sensitivity (v : Variant) (s : LossShape) (hvs : ¬ (v = .asCoded ∧ s = .col))
    {C : ℝ} (hC : 0 < C) (l₁ l₂ : List ((Fin P → ℝ) × Grad ℝ d)) (x : (Fin P → ℝ) × Grad ℝ d)
    (hex : ∀ y ∈ l₁ ++ [x] ++ l₂, y.1 = paramNorms y.2) :
    flatNorm (gsub (ghostBatchGrad v s C (l₁ ++ [x] ++ l₂)) (ghostBatchGrad v s C (l₁ ++ l₂))) < C := by
  rw [ghost_eq_flat v s hvs C _ hex,
    ghost_eq_flat v s hvs C _ (fun y hy => hex y (by simp at hy ⊢; tauto))]
  simp only [List.map_append, List.map_cons, List.map_nil]
  rw [batchSum_remove]
  exact clip_norm_lt hC x.2

/-! ## The hypothesis `SampleIndependent` cannot be dropped (dependency on C15, finding D3) -/

/-- a layer that mixes the batch (every sample's gradient is the batch sum, as downstream of a
batch-mean subtraction): batch `[1,1,1]` vs `[1,1]`, `C = 4`; no factor is below 1 and the clipped
sums are 9 and 4 — they differ by 5 > C. -/
theorem sensitivity_without_independence_counterexample :
    let G : List ℝ → Nat → Grad ℝ (fun _ : Fin 1 => 1) := fun batch _ => fun _ _ => batch.sum
    ¬ SampleIndependent G ∧
    (4 : ℝ) < flatNorm (gsub (batchSum (.flat 4) (gradSamples G ([1] ++ [1] ++ [1])))
                              (batchSum (.flat 4) (gradSamples G ([1] ++ [1])))) := by
  intro G
  constructor
  · rintro ⟨g, hg⟩
    have h1 := hg [1] 0 (by simp)
    have h2 := hg [1, 1] 0 (by simp)
    have e : G [1] 0 = G [1, 1] 0 := by rw [h1, h2]; simp
    have := congrFun (congrFun e 0) 0
    simp [G] at this
  · have f3 : clipFactor 4 (flatNorm (fun (_ : Fin 1) (_ : Fin 1) => (3 : ℝ))) = 1 := by
      apply clipFactor_eq_one _ (flatNorm_nonneg _)
      rw [flatNorm_one]; norm_num
    have f2 : clipFactor 4 (flatNorm (fun (_ : Fin 1) (_ : Fin 1) => (2 : ℝ))) = 1 := by
      apply clipFactor_eq_one _ (flatNorm_nonneg _)
      rw [flatNorm_one]; norm_num
    have e3 : (fun (_ : Fin 1) (_ : Fin 1) => ((1 : ℝ) + (1 + 1))) = fun _ _ => 3 := by
      funext _ _; norm_num
    have e2 : (fun (_ : Fin 1) (_ : Fin 1) => ((1 : ℝ) + 1)) = fun _ _ => 2 := by
      funext _ _; norm_num
    rw [flatNorm_one]
    simp only [gsub, batchSum_apply, gradSamples, G, clipped, factors, gscale]
    simp [List.range_succ, e3, e2, f3, f2]
    norm_num


/-- closes `generated factor = clipFactor` up to harmless rewrites (`1` vs `1.0`, either operand order of `min`,
`clamp_max`, commuted sums) -/
macro "clip_close" : tactic =>
  `(tactic| first
    | rfl
    | (norm_num [min_comm]; done)
    | (rw [min_comm]; norm_num; done)
    | (norm_num [min_comm, add_comm]; done)
    | (congr 1 <;> norm_num <;> ring_nf))

/-- the tie to the source: the per-sample clip factor as written at its five sites (`DPOptimizer`, per-layer, distributed
per-layer, AdaClip, ghost clipping), re-translated on every run (`Generated/ClipFactor.lean`), is the model's
`clipFactor C n = min 1 (C / (n + 1e-6))`, and every norm that feeds it is a 2-norm -/
theorem generated_clip_factor_eq_model (C n : ℝ) :
    Opacus.Generated.ClipFactor.flat C n = clipFactor C n ∧
    Opacus.Generated.ClipFactor.perLayer C n = clipFactor C n ∧
    Opacus.Generated.ClipFactor.ddpPerLayer C n = clipFactor C n ∧
    Opacus.Generated.ClipFactor.adaClip C n = clipFactor C n ∧
    Opacus.Generated.ClipFactor.ghost C n = clipFactor C n ∧
    (∀ e ∈ Opacus.Generated.ClipFactor.normOrders, e.2 ≠ [] ∧ ∀ p ∈ e.2, p = 2) := by
  refine ⟨?_, ?_, ?_, ?_, ?_, by decide⟩
  · simp only [Opacus.Generated.ClipFactor.flat, clipFactor]; clip_close
  · simp only [Opacus.Generated.ClipFactor.perLayer, clipFactor]; clip_close
  · simp only [Opacus.Generated.ClipFactor.ddpPerLayer, clipFactor]; clip_close
  · simp only [Opacus.Generated.ClipFactor.adaClip, clipFactor]; clip_close
  · simp only [Opacus.Generated.ClipFactor.ghost, clipFactor]; clip_close

end Opacus.C02
