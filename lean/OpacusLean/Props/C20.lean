import Mathlib.Tactic
import OpacusLean.Generated.AdaClip
import OpacusLean.Lemmas.AdaClipReal
import OpacusLean.Lemmas.AdaClipMachine
import OpacusLean.Model.AdaClipFloat
/-! # C20 — adaptive clipping follows its update rule and its cost is fully accounted

All statements are about the executable model `OpacusLean/Model/AdaClip.lean` at `R = ℝ`
(`exp = Real.exp`, `sqrt = Real.sqrt`); the `Float` instance of the *same* definitions is what the
driver runs against `AdaClipDPOptimizer` and the ghost adaptive engine. -/
namespace Opacus.C20
open Opacus.AdaClip


/-! ## σ-split (Andrew et al. 2021, Thm 1) -/

/-- **sigma_split_identity**: for `0 < σ < 2σ_b` the gradient-noise multiplier
`σ_Δ = (σ⁻² − (2σ_b)⁻²)^(−1/2)` is a positive real with `σ_Δ⁻² + (2σ_b)⁻² = σ⁻²` and `σ_Δ > σ`;
it equals the literal real-power expression of the source. -/
theorem sigma_split_identity {σ σb : ℝ} (hσ : 0 < σ) (hb : 0 < σb) (h : σ < 2 * σb) :
    0 < sigmaDelta σ σb ∧
    1 / (sigmaDelta σ σb) ^ 2 + 1 / (2 * σb) ^ 2 = 1 / σ ^ 2 ∧
    σ < sigmaDelta σ σb ∧
    sigmaDelta σ σb = (σ ^ (-2 : ℝ) - (2 * σb) ^ (-2 : ℝ)) ^ (-(1 / 2) : ℝ) := by
  refine ⟨sigmaDelta_pos hσ hb h, ?_, sigma_lt_sigmaDelta hσ hb h, sigmaDelta_eq_rpow hσ hb h⟩
  have := sigmaDelta_sq hσ hb h
  rw [pow_two, pow_two, pow_two, this]; ring

/-- … and it is defined (positive radicand) iff `σ < 2σ_b`; the constructor's guard is exactly this -/
theorem sigma_split_defined_iff {σ σb : ℝ} (hσ : 0 < σ) (hb : 0 < σb) :
    (0 < 1 / (σ * σ) - 1 / ((2 * σb) * (2 * σb)) ↔ σ < 2 * σb) ∧
    (splitDefined σ σb = true ↔ σ < 2 * σb) := by
  refine ⟨radicand_pos_iff hσ hb, ?_⟩
  rw [splitDefined_iff]; tauto

example : (0 : ℝ) < 1 ∧ (0 : ℝ) < 1 ∧ (1 : ℝ) < 2 * 1 := by norm_num

/-! ## AdaClipDPOptimizer -/

/-- **clip_update_rule** (AdaClipDPOptimizer): a released step on a non-empty batch clips with the
bound `C` in force before the step, draws the count noise with the configured std, and moves the
bound to `clamp_[min,max] (C · exp(−η·(b̃ − γ)))`, `b̃ = (#{i | normᵢ + 1e-6 ≤ C} + z) / B`. -/
theorem clip_update_rule_adaclip (cfg : Ada.Cfg ℝ) (s : Ada.State ℝ) (norms : List ℝ) (z : ℝ)
    (hne : norms ≠ []) (hn : ∀ n ∈ norms, 0 ≤ n) (heps : 0 < cfg.eps) (hb : cfg.minC < cfg.maxC)
    (hfresh : Ada.Fresh cfg s) :
    ∃ o, (Ada.phys cfg s norms z false).2 = .released o ∧
      o.clipUsed = s.C ∧ (Ada.phys cfg s norms z false).1.C = o.newC ∧
      o.countStd = cfg.sigmaB ∧ o.gradStd = s.mult * s.C ∧
      o.newC = max cfg.minC (min cfg.maxC (s.C * Real.exp (-cfg.eta *
        ((((norms.countP (fun n => decide (n + cfg.eps ≤ s.C)) : ℕ) : ℝ) + z) / (norms.length : ℝ) - cfg.gamma)))) := by
  have hlen : norms.length ≠ 0 := by simpa using hne
  have hph := Ada.phys_released cfg s norms z (fun h => hne h.1)
  refine ⟨_, by rw [hph], ?_, ?_, ?_, ?_, ?_⟩
  · simp [Ada.release]
  · rw [hph]; simp [Ada.release]
  · simp [Ada.release]
  · simp [Ada.release]
  · simp [Ada.release, Ada.counters_fresh hfresh, hlen, Ada.clamp_eq hb, geoUpdate_real,
      Ada.unclippedCount_eq heps hn]

/-- the bound never leaves `[min_clipbound, max_clipbound]` once updated -/
theorem clip_stays_in_bounds_adaclip (cfg : Ada.Cfg ℝ) (s : Ada.State ℝ) (norms : List ℝ) (z : ℝ)
    (hne : norms ≠ []) (hb : cfg.minC < cfg.maxC) :
    cfg.minC ≤ (Ada.phys cfg s norms z false).1.C ∧ (Ada.phys cfg s norms z false).1.C ≤ cfg.maxC := by
  have hlen : (Ada.counters cfg s norms).1 ≠ 0 := by
    have : norms.length ≠ 0 := by simpa using hne
    simp only [Ada.counters]; omega
  rw [Ada.phys_released cfg s norms z (fun h => hne h.1)]
  simp only [Ada.release, hlen, if_false, Ada.clamp_eq hb]
  exact ⟨le_max_left _ _, max_le hb.le (min_le_left _ _)⟩

/-- **raw_count_noninterference** (AdaClipDPOptimizer, two-run relational lemma): two runs whose
states agree except for the exact counter, on batches of the same size, in which
`exact count + draw` coincide, expose the same bound, noise stds, noisy count and accounting and
(unless the step raises) end in the *same* state — whatever the exact counts were. -/
theorem raw_count_noninterference_adaclip (cfg : Ada.Cfg ℝ) (s₁ s₂ : Ada.State ℝ)
    (n₁ n₂ : List ℝ) (z₁ z₂ : ℝ) (hs : Ada.AgreeUpToCount s₁ s₂) (hlen : n₁.length = n₂.length)
    (hnoisy : ((Ada.counters cfg s₁ n₁).2 : ℝ) + z₁ = ((Ada.counters cfg s₂ n₂).2 : ℝ) + z₂) :
    pub (Ada.phys cfg s₁ n₁ z₁ false).2 = pub (Ada.phys cfg s₂ n₂ z₂ false).2 ∧
    (¬ (n₁ = [] ∧ cfg.empty = .asCoded) →
      (Ada.phys cfg s₁ n₁ z₁ false).1 = (Ada.phys cfg s₂ n₂ z₂ false).1) := by
  obtain ⟨hC, hm, hss, hls, hh⟩ := hs
  have hnil : n₁ = [] ↔ n₂ = [] := by
    rw [← List.length_eq_zero_iff, ← List.length_eq_zero_iff, hlen]
  have hc1 : (Ada.counters cfg s₁ n₁).1 = (Ada.counters cfg s₂ n₂).1 := by
    simp [Ada.counters, hss, hls, hlen]
  by_cases he : n₁ = [] ∧ cfg.empty = .asCoded
  · have he2 : n₂ = [] ∧ cfg.empty = .asCoded := ⟨hnil.mp he.1, he.2⟩
    exact ⟨by simp [Ada.phys, he, he2, pub], fun h => absurd he h⟩
  · have he2 : ¬ (n₂ = [] ∧ cfg.empty = .asCoded) := fun h => he ⟨hnil.mpr h.1, h.2⟩
    rw [Ada.phys_released _ _ _ _ he, Ada.phys_released _ _ _ _ he2]
    cases s₁; cases s₂
    simp only at hC hm hss hls hh
    subst hC hm hss hls hh
    simp only [Ada.release, pub, hc1, hnoisy]
    simp

/-- non-vacuity: two different batches (exact counts 1 and 2) with compensating draws -/
example : ((Ada.counters (R := ℝ) ⟨1, 1, 1/5, 1/2, 1/100, 100, 1/1000000, .asCoded, .asCoded, .asCoded⟩
      ⟨1, 1, 0, 0, false, []⟩ [1/2, 5]).2 : ℝ) + 1 =
    ((Ada.counters (R := ℝ) ⟨1, 1, 1/5, 1/2, 1/100, 100, 1/1000000, .asCoded, .asCoded, .asCoded⟩
      ⟨1, 1, 0, 0, false, []⟩ [1/2, 1/4]).2 : ℝ) + 0 := by
  rw [Ada.counters_fresh (Or.inl rfl), Ada.counters_fresh (Or.inl rfl)]
  rw [Ada.unclippedCount_eq (by norm_num) (by intro n hn; simp at hn; rcases hn with rfl | rfl <;> norm_num),
    Ada.unclippedCount_eq (by norm_num) (by intro n hn; simp at hn; rcases hn with rfl | rfl <;> norm_num)]
  norm_num [List.countP_cons]

/-- a skipped physical batch keeps two such runs in agreement (the exact counters may differ) -/
theorem raw_count_noninterference_adaclip_skip (cfg : Ada.Cfg ℝ) (s₁ s₂ : Ada.State ℝ)
    (n₁ n₂ : List ℝ) (z₁ z₂ : ℝ) (hs : Ada.AgreeUpToCount s₁ s₂) (hlen : n₁.length = n₂.length) :
    Ada.AgreeUpToCount (Ada.phys cfg s₁ n₁ z₁ true).1 (Ada.phys cfg s₂ n₂ z₂ true).1 ∧
    pub (Ada.phys cfg s₁ n₁ z₁ true).2 = pub (Ada.phys cfg s₂ n₂ z₂ true).2 := by
  obtain ⟨hC, hm, hss, hls, hh⟩ := hs
  have hnil : n₁ = [] ↔ n₂ = [] := by
    rw [← List.length_eq_zero_iff, ← List.length_eq_zero_iff, hlen]
  have hc1 : (Ada.counters cfg s₁ n₁).1 = (Ada.counters cfg s₂ n₂).1 := by
    simp [Ada.counters, hss, hls, hlen]
  by_cases he : n₁ = [] ∧ cfg.empty = .asCoded
  · have he2 : n₂ = [] ∧ cfg.empty = .asCoded := ⟨hnil.mp he.1, he.2⟩
    obtain ⟨h1, h3⟩ := he
    obtain ⟨h2, _⟩ := he2
    subst h1 h2
    simp [Ada.phys, h3, pub, Ada.AgreeUpToCount, hC, hm, hc1, hls, hh]
  · have he2 : ¬ (n₂ = [] ∧ cfg.empty = .asCoded) := fun h => he ⟨hnil.mpr h.1, h.2⟩
    simp [Ada.phys, he, he2, pub, Ada.AgreeUpToCount, hC, hm, hc1, hh]

/-! ### accounting (D9) -/

/-- **charged_sigma_le_nominal** (AdaClipDPOptimizer, repaired accounting): along every run from the
constructor, for every batch / draw / skip sequence, each released step hands the accountant a
multiplier no larger than (in fact equal to) the nominal σ of the combined release
`(gradMult⁻² + (2·countStd)⁻²)^(−1/2)`, while the gradient noise uses the inflated multiplier. -/
theorem charged_sigma_le_nominal_adaclip (cfg : Ada.Cfg ℝ) (C0 : ℝ) (s0 : Ada.State ℝ)
    (hacct : cfg.acct = .repaired) (hc : Ada.construct cfg C0 = .ok s0) (ops : List (List ℝ × ℝ × Bool)) :
    AllReleased (fun o => o.recorded ≤ nominalSigma o.gradMult o.countStd ∧ o.recorded = cfg.sigma ∧
        o.gradMult = sigmaDelta cfg.sigma cfg.sigmaB ∧ o.gradStd = o.gradMult * o.clipUsed)
      (Ada.run cfg s0 ops).2 := by
  obtain ⟨_, hσ, hb, hlt, hs0⟩ := Ada.construct_ok hc
  refine Ada.run_invariant cfg _ (sigmaDelta cfg.sigma cfg.sigmaB) ?_ ops s0 (by rw [hs0])
  intro s norms z k o hm ho
  unfold Ada.phys at ho
  split_ifs at ho
  injection ho with ho
  subst ho
  simp [Ada.release, hacct, hm, nominalSigma_sigmaDelta hσ hb hlt]

/-- as coded the accountant is charged the inflated multiplier: strictly more than the nominal σ of
the combined release, on every released step of every run (finding D9) -/
theorem adaclip_charges_inflated (cfg : Ada.Cfg ℝ) (C0 : ℝ) (s0 : Ada.State ℝ)
    (hacct : cfg.acct = .asCoded) (hc : Ada.construct cfg C0 = .ok s0) (ops : List (List ℝ × ℝ × Bool)) :
    AllReleased (fun o => nominalSigma o.gradMult o.countStd = cfg.sigma ∧ cfg.sigma < o.recorded)
      (Ada.run cfg s0 ops).2 := by
  obtain ⟨_, hσ, hb, hlt, hs0⟩ := Ada.construct_ok hc
  refine Ada.run_invariant cfg _ (sigmaDelta cfg.sigma cfg.sigmaB) ?_ ops s0 (by rw [hs0])
  intro s norms z k o hm ho
  unfold Ada.phys at ho
  split_ifs at ho
  injection ho with ho
  subst ho
  simpa [Ada.release, hacct, hm, nominalSigma_sigmaDelta hσ hb hlt] using sigma_lt_sigmaDelta hσ hb hlt

/-- **adaclip_charges_inflated_counterexample** (D9): `noise_multiplier = 1`, `unclipped_num_std = 1`,
one step on the batch with norms `[0.5, 5, 0.9, 3]`: the accountant records `2/√3 ≈ 1.1547 > 1`
although the release corresponds to σ = 1. -/
theorem adaclip_charges_inflated_counterexample :
    ∃ s0 o, Ada.construct (wCfg .asCoded) 1 = .ok s0 ∧
      (Ada.phys (wCfg .asCoded) s0 [1/2, 5, 9/10, 3] 0 false).2 = .released o ∧
      o.recorded = 2 / Real.sqrt 3 ∧ 1 < o.recorded ∧ nominalSigma o.gradMult o.countStd = 1 := by
  refine ⟨_, Ada.outOf _ _ _ _, wCfg_construct _, Ada.phys_released_snd _ _ _ _ (by simp), ?_, ?_, ?_⟩
  · simp [Ada.outOf, Ada.release, wCfg, sigmaDelta_one_one]
  · simp only [Ada.outOf, Ada.release, wCfg]
    exact sigma_lt_sigmaDelta (by norm_num) (by norm_num) (by norm_num)
  · simp only [Ada.outOf, Ada.release, wCfg]
    exact nominalSigma_sigmaDelta (by norm_num) (by norm_num) (by norm_num)

/-- the same witness under the repaired accounting records the nominal 1 -/
theorem adaclip_witness_repaired :
    ∃ s0 o, Ada.construct (wCfg .repaired) 1 = .ok s0 ∧
      (Ada.phys (wCfg .repaired) s0 [1/2, 5, 9/10, 3] 0 false).2 = .released o ∧
      o.recorded = 1 ∧ o.gradMult = 2 / Real.sqrt 3 := by
  refine ⟨_, Ada.outOf _ _ _ _, wCfg_construct _, Ada.phys_released_snd _ _ _ _ (by simp), ?_, ?_⟩
  · simp [Ada.outOf, Ada.release, wCfg]
  · simp [Ada.outOf, Ada.release, sigmaDelta_one_one]

/-- each released step is accounted exactly once; skipped physical batches and errors never are -/
theorem released_step_accounted_once_adaclip (cfg : Ada.Cfg ℝ) (s : Ada.State ℝ) (norms : List ℝ) (z : ℝ) (k : Bool) :
    match (Ada.phys cfg s norms z k).2 with
    | .released o => (Ada.phys cfg s norms z k).1.hist = s.hist ++ [o.recorded]
    | _ => (Ada.phys cfg s norms z k).1.hist = s.hist := by
  unfold Ada.phys
  split_ifs <;> simp [Ada.release]

/-! ### empty batch (D21) -/

/-- **adaclip_empty_batch_counterexample** (D21): as coded, a step on an empty batch raises: nothing
is released and the accountant's history is unchanged. -/
theorem adaclip_empty_batch_counterexample (cfg : Ada.Cfg ℝ) (s : Ada.State ℝ) (z : ℝ) (k : Bool)
    (h : cfg.empty = .asCoded) :
    (Ada.phys cfg s [] z k).2 = .err .emptyBatch ∧ (Ada.phys cfg s [] z k).1.hist = s.hist ∧
    (Ada.phys cfg s [] z k).1.C = s.C := by
  simp [Ada.phys, h]

/-- repaired: the empty step is released (gradient noise `σ_Δ·C`), accounted once, bound unchanged -/
theorem adaclip_empty_batch_repaired (cfg : Ada.Cfg ℝ) (s : Ada.State ℝ) (z : ℝ)
    (h : cfg.empty = .repaired) (hfresh : Ada.Fresh cfg s) :
    ∃ o, (Ada.phys cfg s [] z false).2 = .released o ∧ o.gradStd = s.mult * s.C ∧ o.newC = s.C ∧
      (Ada.phys cfg s [] z false).1.hist = s.hist ++ [o.recorded] ∧ (Ada.phys cfg s [] z false).1.C = s.C := by
  have he : ¬ (([] : List ℝ) = [] ∧ cfg.empty = .asCoded) := by rw [h]; simp
  rw [Ada.phys_released _ _ _ _ he]
  refine ⟨_, rfl, ?_, ?_, ?_, ?_⟩ <;> simp [Ada.release, Ada.counters_fresh hfresh]

/-! ### virtual steps (physical batches of one logical step) -/

/-- repaired counters: a logical step made of a skipped physical batch followed by the releasing one
updates the bound exactly as one step on the concatenated batch -/
theorem clip_update_rule_adaclip_virtual (cfg : Ada.Cfg ℝ) (s : Ada.State ℝ) (n₁ n₂ : List ℝ) (z₁ z : ℝ)
    (h : cfg.accum = .repaired) (hfresh : s.lastSkipped = false) (hne : cfg.empty = .repaired ∨ (n₁ ≠ [] ∧ n₂ ≠ [])) :
    pub (Ada.phys cfg (Ada.phys cfg s n₁ z₁ true).1 n₂ z false).2 = pub (Ada.phys cfg s (n₁ ++ n₂) z false).2 ∧
    (Ada.phys cfg (Ada.phys cfg s n₁ z₁ true).1 n₂ z false).1 = (Ada.phys cfg s (n₁ ++ n₂) z false).1 := by
  have e1 : ¬ (n₁ = [] ∧ cfg.empty = .asCoded) := by
    rcases hne with h' | h'
    · rw [h']; simp
    · exact fun hh => h'.1 hh.1
  have e2 : ¬ (n₂ = [] ∧ cfg.empty = .asCoded) := by
    rcases hne with h' | h'
    · rw [h']; simp
    · exact fun hh => h'.2 hh.1
  have e3 : ¬ (n₁ ++ n₂ = [] ∧ cfg.empty = .asCoded) := by
    rcases hne with h' | h'
    · rw [h']; simp
    · intro hh; simp at hh; exact h'.1 hh.1.1
  have hs1 : Ada.phys cfg s n₁ z₁ true =
      ({ s with sampleSize := (Ada.counters cfg s n₁).1, unclipped := (Ada.counters cfg s n₁).2, lastSkipped := true },
        .skipped (n₁.map (Ada.factor cfg.eps s.C))) := by
    simp [Ada.phys, e1]
  rw [hs1, Ada.phys_released _ _ _ _ e2, Ada.phys_released _ _ _ _ e3]
  cases s
  simp only at hfresh
  subst hfresh
  simp [Ada.release, Ada.counters, h, pub, Ada.unclippedCount, List.countP_append, Nat.cast_add]

/-- **adaclip_virtual_step_counterexample**: as coded (`zero_grad` resets the counters after a
skipped step) the logical step `[0.5, 0.1, 0.2] (skipped) + [5]` at `C = 1` computes its fraction
from the last physical batch only: denominator 1 and noisy count 0 instead of 4 and 3. -/
theorem adaclip_virtual_step_counterexample :
    ∃ o o', (Ada.phys (wCfg .asCoded) (Ada.phys (wCfg .asCoded) ⟨1, sigmaDelta 1 1, 0, 0, false, []⟩ [1/2, 1/10, 1/5] 0 true).1
        [5] 0 false).2 = .released o ∧
      (Ada.phys (wCfg .asCoded) ⟨1, sigmaDelta 1 1, 0, 0, false, []⟩ [1/2, 1/10, 1/5, 5] 0 false).2 = .released o' ∧
      o.sampleSize = 1 ∧ o.noisy = 0 ∧ o'.sampleSize = 4 ∧ o'.noisy = 3 ∧
      o.newC = Real.exp (1/10) ∧ o'.newC = Real.exp (-(1/20)) ∧ o.newC ≠ o'.newC := by
  have hc0 : ∀ l : List ℝ, (∀ n ∈ l, 0 ≤ n) →
      Ada.unclippedCount (wCfg .asCoded).eps 1 l = l.countP (fun n => decide (n + 1/1000000 ≤ 1)) := by
    intro l hl
    rw [Ada.unclippedCount_eq (by norm_num [wCfg]) hl]; rfl
  have hA : Ada.unclippedCount (wCfg .asCoded).eps 1 [5] = 0 := by
    rw [hc0 _ (by intro n hn; simp at hn; subst hn; norm_num)]; norm_num [List.countP_cons]
  have hB : Ada.unclippedCount (wCfg .asCoded).eps 1 [1/2, 1/10, 1/5, 5] = 3 := by
    rw [hc0 _ (by intro n hn; simp at hn; rcases hn with rfl | rfl | rfl | rfl <;> norm_num)]
    norm_num [List.countP_cons]
  have e1 : Real.exp (1/10) ≤ 100 := by
    have h1 := Real.add_one_le_exp (-(1/10) : ℝ)
    have h2 : Real.exp (1/10) * Real.exp (-(1/10)) = 1 := by rw [← Real.exp_add]; norm_num
    have h3 := Real.exp_pos (1/10)
    nlinarith
  have e2 : (1 : ℝ) ≤ Real.exp (1/10) := Real.one_le_exp (by norm_num)
  have e3 : Real.exp (-(1/20)) ≤ 1 := Real.exp_le_one_iff.mpr (by norm_num)
  have e4 : (1/100 : ℝ) ≤ Real.exp (-(1/20)) := by
    have := Real.add_one_le_exp (-(1/20) : ℝ); linarith
  have hne : Real.exp (1/10) ≠ Real.exp (-(1/20)) := by
    intro h; have := Real.exp_injective h; norm_num at this
  have hskip : (Ada.phys (wCfg .asCoded) ⟨1, sigmaDelta 1 1, 0, 0, false, []⟩ [1/2, 1/10, 1/5] 0 true).1
      = ⟨1, sigmaDelta 1 1, 3, (Ada.counters (wCfg .asCoded) ⟨1, sigmaDelta 1 1, 0, 0, false, []⟩ [1/2, 1/10, 1/5]).2, true, []⟩ := by
    simp [Ada.phys, Ada.counters, wCfg]
  have hfr : ∀ s : Ada.State ℝ, Ada.Fresh (wCfg .asCoded) s := fun _ => Or.inl rfl
  have h5 : (Ada.outOf (wCfg .asCoded) (Ada.phys (wCfg .asCoded) ⟨1, sigmaDelta 1 1, 0, 0, false, []⟩ [1/2, 1/10, 1/5] 0 true).1
      [5] 0).newC = Real.exp (1/10) := by
    rw [hskip]
    simp only [Ada.outOf, Ada.release, Ada.counters_fresh (hfr _), hA]
    simp only [wCfg, Ada.clamp, geoUpdate_real]
    norm_num
    rw [if_neg (not_lt.mpr e1), if_neg (not_lt.mpr (by linarith))]
  have h6 : (Ada.outOf (wCfg .asCoded) ⟨1, sigmaDelta 1 1, 0, 0, false, []⟩ [1/2, 1/10, 1/5, 5] 0).newC
      = Real.exp (-(1/20)) := by
    simp only [Ada.outOf, Ada.release, Ada.counters_fresh (hfr _), hB]
    simp only [wCfg, Ada.clamp, geoUpdate_real]
    norm_num
    rw [if_neg (not_lt.mpr (by linarith)), if_neg (not_lt.mpr e4)]
  refine ⟨Ada.outOf _ _ _ _, Ada.outOf _ _ _ _, Ada.phys_released_snd _ _ _ _ (by simp),
    Ada.phys_released_snd _ _ _ _ (by simp), ?_, ?_, ?_, ?_, h5, h6, by rw [h5, h6]; exact hne⟩
  · simp [Ada.outOf, Ada.release, Ada.counters_fresh (hfr _)]
  · rw [hskip]; simp only [Ada.outOf, Ada.release, Ada.counters_fresh (hfr _), hA]; norm_num
  · simp [Ada.outOf, Ada.release, Ada.counters_fresh (hfr _)]
  · simp only [Ada.outOf, Ada.release, Ada.counters_fresh (hfr _), hB]; norm_num

/-! ## ghost-clipping adaptive engine -/

/-- **clip_update_rule** (ghost adaptive engine): the count is taken w.r.t. the bound `C` in force
*before* the step, the count noise has std `B/20`, the new bound is
`clamp_[min,max] (C · exp(−η·(b̃ − γ)))`, the gradient-noise multiplier is re-derived from the
*initial* multiplier (no compounding), and the gradient is rescaled and noised with the *new* bound. -/
theorem clip_update_rule_ghost (cfg : Ghost.Cfg ℝ) (s : Ghost.State ℝ) (norms : List ℝ) (z : ℝ)
    (hb : cfg.minC ≤ cfg.maxC) (h10 : 10 * s.sigma0 < (norms.length : ℝ)) :
    ∃ o, (Ghost.step cfg s norms z).2 = .released o ∧
      o.newC = max cfg.minC (min cfg.maxC (s.C * Real.exp (-cfg.eta *
        ((((norms.countP (fun n => decide (n ≤ s.C)) : ℕ) : ℝ) + z) / (norms.length : ℝ) - cfg.gamma)))) ∧
      (Ghost.step cfg s norms z).1.C = o.newC ∧ o.clipUsed = o.newC ∧
      o.factors = norms.map (fun n => if n ≤ o.newC then 1 else o.newC / n) ∧
      o.countStd = (norms.length : ℝ) / 20 ∧
      o.gradMult = (if 0 < s.sigma0 then sigmaDelta s.sigma0 ((norms.length : ℝ) / 20) else s.sigma0) ∧
      (Ghost.step cfg s norms z).1.mult = o.gradMult ∧ o.gradStd = o.gradMult * o.newC ∧
      (Ghost.step cfg s norms z).1.sigma0 = s.sigma0 := by
  unfold Ghost.step
  rw [Ghost.release_ok cfg s norms _ h10]
  refine ⟨_, rfl, ?_, rfl, rfl, ?_, rfl, rfl, rfl, rfl, rfl⟩
  · simp [Ghost.clamp_eq hb, geoUpdate_real, Ghost.unclippedCount]
  · simp [Ghost.factor]

/-- the guard `batch_size > 10·σ₀` is exactly definedness of the σ-split for `σ_b = B/20` -/
theorem ghost_guard_iff_split_defined (σ0 : ℝ) (B : ℕ) (hσ : 0 < σ0) :
    10 * σ0 < (B : ℝ) ↔ splitDefined σ0 ((B : ℝ) / 20) = true := by
  rw [splitDefined_iff]
  constructor
  · intro h; exact ⟨hσ, by linarith, by linarith⟩
  · rintro ⟨_, _, h⟩; linarith

/-- **raw_count_noninterference** (ghost adaptive engine): batches of equal size with equal
`exact count + draw` lead to the same state, bound, noise stds and accounting. -/
theorem raw_count_noninterference_ghost (cfg : Ghost.Cfg ℝ) (s : Ghost.State ℝ) (n₁ n₂ : List ℝ) (z₁ z₂ : ℝ)
    (hlen : n₁.length = n₂.length)
    (hnoisy : ((Ghost.unclippedCount s.C n₁ : ℕ) : ℝ) + z₁ = ((Ghost.unclippedCount s.C n₂ : ℕ) : ℝ) + z₂) :
    (Ghost.step cfg s n₁ z₁).1 = (Ghost.step cfg s n₂ z₂).1 ∧
    pub (Ghost.step cfg s n₁ z₁).2 = pub (Ghost.step cfg s n₂ z₂).2 := by
  unfold Ghost.step
  rw [hnoisy]
  by_cases h10 : 10 * s.sigma0 < (n₁.length : ℝ)
  · rw [Ghost.release_ok cfg s n₁ _ h10, Ghost.release_ok cfg s n₂ _ (by rw [← hlen]; exact h10)]
    simp [pub, hlen]
  · rw [Ghost.release_err cfg s n₁ _ h10, Ghost.release_err cfg s n₂ _ (by rw [← hlen]; exact h10)]
    simp [pub]

/-- **charged_sigma_le_nominal** (ghost adaptive engine, repaired accounting): along every run from
`make_private` with σ₀ > 0, whatever the batch sizes (σ_b = B/20 changes from step to step), each
released step hands the accountant a multiplier no larger than (equal to) the nominal σ of the
combined release. -/
theorem charged_sigma_le_nominal_ghost (cfg : Ghost.Cfg ℝ) (σ0 C0 : ℝ) (hσ : 0 < σ0)
    (hacct : cfg.acct = .repaired) (ops : List (List ℝ × ℝ)) :
    AllReleased (fun o => o.recorded ≤ nominalSigma o.gradMult o.countStd ∧ o.recorded = σ0)
      (Ghost.run cfg (Ghost.init σ0 C0) ops).2 := by
  refine Ghost.run_invariant cfg _ σ0 ?_ ops _ rfl
  intro s norms z o hs ho
  obtain ⟨h10, hg, hc, hr⟩ := Ghost.step_released_inv ho
  rw [hs] at h10 hg hr
  rw [hacct] at hr
  rw [if_pos hσ] at hg
  have hb : 0 < (norms.length : ℝ) / 20 := by linarith
  rw [hr, hg, hc, nominalSigma_sigmaDelta hσ hb (by linarith)]
  exact ⟨le_refl _, rfl⟩

/-- as coded: strictly over-charged on every released step of every run (finding D9, ghost) -/
theorem ghost_charges_inflated (cfg : Ghost.Cfg ℝ) (σ0 C0 : ℝ) (hσ : 0 < σ0)
    (hacct : cfg.acct = .asCoded) (ops : List (List ℝ × ℝ)) :
    AllReleased (fun o => nominalSigma o.gradMult o.countStd = σ0 ∧ σ0 < o.recorded)
      (Ghost.run cfg (Ghost.init σ0 C0) ops).2 := by
  refine Ghost.run_invariant cfg _ σ0 ?_ ops _ rfl
  intro s norms z o hs ho
  obtain ⟨h10, hg, hc, hr⟩ := Ghost.step_released_inv ho
  rw [hs] at h10 hg hr
  rw [hacct] at hr
  rw [if_pos hσ] at hg
  have hb : 0 < (norms.length : ℝ) / 20 := by linarith
  rw [hr, hg, hc, nominalSigma_sigmaDelta hσ hb (by linarith)]
  exact ⟨rfl, sigma_lt_sigmaDelta hσ hb (by linarith)⟩

/-- **ghost_charges_inflated_counterexample** (D9): σ₀ = 1, one batch of 32 samples (σ_b = 1.6):
the accountant records `16/√231 ≈ 1.0527 > 1`. -/
theorem ghost_charges_inflated_counterexample (norms : List ℝ) (hB : norms.length = 32) (z C0 : ℝ) :
    ∃ o, (Ghost.step ⟨1/5, 1/2, 1/100, 100, .asCoded⟩ (Ghost.init 1 C0) norms z).2 = .released o ∧
      o.recorded = 16 / Real.sqrt 231 ∧ 1 < o.recorded ∧ nominalSigma o.gradMult o.countStd = 1 := by
  have h10 : 10 * (Ghost.init (1 : ℝ) C0).sigma0 < (norms.length : ℝ) := by simp [Ghost.init, hB]; norm_num
  have hval : sigmaDelta (1 : ℝ) (32 / 20) = 16 / Real.sqrt 231 := by
    rw [sigmaDelta_real]
    have : (1 : ℝ) / (1 * 1) - 1 / (2 * (32 / 20) * (2 * (32 / 20))) = 231 / 256 := by norm_num
    rw [this, Real.sqrt_div (by norm_num), show (256 : ℝ) = 16 * 16 by norm_num, Real.sqrt_mul_self (by norm_num)]
    field_simp
  unfold Ghost.step
  rw [Ghost.release_ok _ _ _ _ h10]
  refine ⟨_, rfl, ?_, ?_, ?_⟩
  · simp [Ghost.init, hB, hval]
  · simp only [Ghost.init, hB]
    have := sigma_lt_sigmaDelta (σ := 1) (σb := 32 / 20) (by norm_num) (by norm_num) (by norm_num)
    simpa using this
  · simp only [Ghost.init, hB]
    have := nominalSigma_sigmaDelta (σ := 1) (σb := 32 / 20) (by norm_num) (by norm_num) (by norm_num)
    simpa using this

/-- each released ghost step is accounted exactly once; a refused batch never is -/
theorem released_step_accounted_once_ghost (cfg : Ghost.Cfg ℝ) (s : Ghost.State ℝ) (norms : List ℝ) (z : ℝ) :
    match (Ghost.step cfg s norms z).2 with
    | .released o => (Ghost.step cfg s norms z).1.hist = s.hist ++ [o.recorded]
    | _ => (Ghost.step cfg s norms z).1.hist = s.hist := by
  unfold Ghost.step
  by_cases h10 : 10 * s.sigma0 < (norms.length : ℝ)
  · rw [Ghost.release_ok cfg s norms _ h10]
  · rw [Ghost.release_err cfg s norms _ h10]

/-! ## non-interference along whole runs -/

/-- two ghost runs are *matched* when, step by step, the batches have the same size and
`exact count + draw` coincide (counts taken at the state the first run is in) -/
def Ghost.Matched (cfg : Ghost.Cfg ℝ) : Ghost.State ℝ → List (List ℝ × ℝ) → List (List ℝ × ℝ) → Prop
  | _, [], [] => True
  | s, (n₁, z₁) :: r₁, (n₂, z₂) :: r₂ =>
      n₁.length = n₂.length ∧
      ((Ghost.unclippedCount s.C n₁ : ℕ) : ℝ) + z₁ = ((Ghost.unclippedCount s.C n₂ : ℕ) : ℝ) + z₂ ∧
      Ghost.Matched cfg (Ghost.step cfg s n₁ z₁).1 r₁ r₂
  | _, _, _ => False

/-- **raw_count_noninterference** along runs (ghost): matched runs end in the same state and expose
the same sequence of bounds, noise stds and accountant entries -/
theorem raw_count_noninterference_ghost_run (cfg : Ghost.Cfg ℝ) :
    ∀ (xs ys : List (List ℝ × ℝ)) (s : Ghost.State ℝ), Ghost.Matched cfg s xs ys →
      (Ghost.run cfg s xs).1 = (Ghost.run cfg s ys).1 ∧
      (Ghost.run cfg s xs).2.map pub = (Ghost.run cfg s ys).2.map pub := by
  intro xs
  induction xs with
  | nil =>
    intro ys s h
    cases ys with
    | nil => simp [Ghost.run]
    | cons y ys => simp [Ghost.Matched] at h
  | cons x xs ih =>
    intro ys s h
    cases ys with
    | nil => obtain ⟨n₁, z₁⟩ := x; simp [Ghost.Matched] at h
    | cons y ys =>
      obtain ⟨n₁, z₁⟩ := x
      obtain ⟨n₂, z₂⟩ := y
      obtain ⟨hlen, hnoisy, hrest⟩ := h
      obtain ⟨hst, hpub⟩ := raw_count_noninterference_ghost cfg s n₁ n₂ z₁ z₂ hlen hnoisy
      unfold Ghost.run
      rcases h1 : Ghost.step cfg s n₁ z₁ with ⟨s₁, r₁⟩
      rcases h2 : Ghost.step cfg s n₂ z₂ with ⟨s₂, r₂⟩
      rw [h1, h2] at hst hpub
      rw [h1] at hrest
      simp only at hst hpub hrest
      subst hst
      obtain ⟨ih1, ih2⟩ := ih ys s₁ hrest
      cases r₁ <;> cases r₂ <;> simp [pub] at hpub <;> simp [pub, hpub, ih1, ih2]

/-- non-vacuity: exact counts 1 and 2, compensating draws -/
example : Ghost.Matched ⟨1/5, 1/2, 1/100, 100, .asCoded⟩ (Ghost.init (1/20 : ℝ) 1) [([1/2, 5], 1)] [([1/2, 1/4], 0)] := by
  simp [Ghost.Matched, Ghost.unclippedCount, Ghost.init, List.countP_cons]
  norm_num

/-- AdaClip: matched runs of physical batches (same skip flags, same sizes, and equal
`exact counter + draw` at every releasing batch) -/
def Ada.Matched (cfg : Ada.Cfg ℝ) : Ada.State ℝ → Ada.State ℝ → List (List ℝ × ℝ × Bool) → List (List ℝ × ℝ × Bool) → Prop
  | _, _, [], [] => True
  | s₁, s₂, (n₁, z₁, k₁) :: r₁, (n₂, z₂, k₂) :: r₂ =>
      k₁ = k₂ ∧ n₁.length = n₂.length ∧
      (k₁ = false → ((Ada.counters cfg s₁ n₁).2 : ℝ) + z₁ = ((Ada.counters cfg s₂ n₂).2 : ℝ) + z₂) ∧
      Ada.Matched cfg (Ada.phys cfg s₁ n₁ z₁ k₁).1 (Ada.phys cfg s₂ n₂ z₂ k₂).1 r₁ r₂
  | _, _, _, _ => False

theorem Ada.agree_refl (s : Ada.State ℝ) : Ada.AgreeUpToCount s s := ⟨rfl, rfl, rfl, rfl, rfl⟩

/-- **raw_count_noninterference** along runs (AdaClipDPOptimizer, virtual steps included): matched
runs expose the same sequence of bounds, noise stds, noisy counts and accountant entries, and their
final states agree on everything but the exact counter. -/
theorem raw_count_noninterference_adaclip_run (cfg : Ada.Cfg ℝ) :
    ∀ (xs ys : List (List ℝ × ℝ × Bool)) (s₁ s₂ : Ada.State ℝ), Ada.AgreeUpToCount s₁ s₂ →
      Ada.Matched cfg s₁ s₂ xs ys →
      (Ada.run cfg s₁ xs).2.map pub = (Ada.run cfg s₂ ys).2.map pub := by
  intro xs
  induction xs with
  | nil =>
    intro ys s₁ s₂ _ h
    cases ys with
    | nil => simp [Ada.run]
    | cons y ys => simp [Ada.Matched] at h
  | cons x xs ih =>
    intro ys s₁ s₂ hs h
    cases ys with
    | nil => obtain ⟨n₁, z₁, k₁⟩ := x; simp [Ada.Matched] at h
    | cons y ys =>
      obtain ⟨n₁, z₁, k₁⟩ := x
      obtain ⟨n₂, z₂, k₂⟩ := y
      obtain ⟨hk, hlen, hnoisy, hrest⟩ := h
      subst hk
      have key : pub (Ada.phys cfg s₁ n₁ z₁ k₁).2 = pub (Ada.phys cfg s₂ n₂ z₂ k₁).2 ∧
          ((∀ e, (Ada.phys cfg s₁ n₁ z₁ k₁).2 ≠ .err e) →
            Ada.AgreeUpToCount (Ada.phys cfg s₁ n₁ z₁ k₁).1 (Ada.phys cfg s₂ n₂ z₂ k₁).1) := by
        cases k₁ with
        | true =>
          obtain ⟨a, b⟩ := raw_count_noninterference_adaclip_skip cfg s₁ s₂ n₁ n₂ z₁ z₂ hs hlen
          exact ⟨b, fun _ => a⟩
        | false =>
          obtain ⟨a, b⟩ := raw_count_noninterference_adaclip cfg s₁ s₂ n₁ n₂ z₁ z₂ hs hlen (hnoisy rfl)
          refine ⟨a, fun hne => ?_⟩
          by_cases he : n₁ = [] ∧ cfg.empty = .asCoded
          · exact absurd (by simp [Ada.phys, he]) (hne .emptyBatch)
          · rw [b he]; exact Ada.agree_refl _
      obtain ⟨hpub, hag⟩ := key
      unfold Ada.run
      rcases h1 : Ada.phys cfg s₁ n₁ z₁ k₁ with ⟨t₁, r₁⟩
      rcases h2 : Ada.phys cfg s₂ n₂ z₂ k₁ with ⟨t₂, r₂⟩
      rw [h1, h2] at hpub hag hrest
      simp only at hpub hag hrest
      cases r₁ <;> cases r₂ <;> simp [pub] at hpub
      · have := ih ys t₁ t₂ (hag (by simp)) hrest
        simp [pub, hpub, this]
      · have := ih ys t₁ t₂ (hag (by simp)) hrest
        simp [pub, this]
      · simp [pub, hpub]

/-! ## the witnesses in binary64 (what the driver computes and the harness replays on the real code) -/

/-- `Float` instance, σ = 1, σ_b = 1: the multiplier written to `optimizer.noise_multiplier` (and, as
coded, recorded by the accountant) is `0x3FF279A74590331D = 1.1547005383792517`; Python's `**`
gives the neighbouring double `1.1547005383792515`. -/
theorem adaclip_float_witness :
    (sigmaDelta (1.0 : Float) 1.0).toBits = 0x3FF279A74590331D ∧
    (sigmaDelta (1.0 : Float) (Float.ofNat 32 / 20.0)).toBits = 0x3FF0D7F3C53851C3 := by
  decide +kernel

/-! ## The tie to the source: `adaclipoptimizer.py` re-translated on every run -/
section generatedTie
set_option linter.unusedTactic false
set_option linter.unreachableTactic false
set_option linter.unusedVariables false
theorem inv_sqrt_congr {a b : ℝ} (h : a = b) : (Real.sqrt a)⁻¹ = 1 / Real.sqrt b := by rw [h, one_div]
theorem one_div_sqrt_congr {a b : ℝ} (h : a = b) : 1 / Real.sqrt a = 1 / Real.sqrt b := by rw [h]

/-- the tie to the source: the noise split written in `AdaClipDPOptimizer.__init__` and the whole
`update_max_grad_norm`, re-translated from `opacus/optimizers/adaclipoptimizer.py` on every run, are the model's
`sigmaDelta` and `Ada.clamp ∘ geoUpdate` over ℝ (`lo < hi` is what the constructor asserts; the proofs tolerate
equivalent spellings of the arithmetic and either order of the two clamp tests) -/
theorem generated_adaclip_eq_model (σ σb C η γ lo hi noisy ss : ℝ) (hb : lo < hi) :
    Opacus.Generated.AdaClip.noiseSplit σ σb = sigmaDelta σ σb ∧
    Opacus.Generated.AdaClip.updateMaxGradNorm C η γ lo hi noisy ss = Ada.clamp lo hi (geoUpdate C η γ (noisy / ss)) := by
  constructor
  · show _ = ((1 : ℕ) : ℝ) / Real.sqrt (((1 : ℕ) : ℝ) / (σ * σ) - ((1 : ℕ) : ℝ) / ((((2 : ℕ) : ℝ) * σb) * (((2 : ℕ) : ℝ) * σb)))
    first
      | rfl
      | (simp only [Opacus.Generated.AdaClip.noiseSplit]; norm_num [sq, one_div]; done)
      | (simp only [Opacus.Generated.AdaClip.noiseSplit]
         push_cast
         first | apply inv_sqrt_congr | apply one_div_sqrt_congr
         ring)
  · show _ = Ada.clamp lo hi (C * Real.exp ((-η) * (noisy / ss - γ)))
    first
      | rfl
      | (simp only [Opacus.Generated.AdaClip.updateMaxGradNorm, Ada.clamp]; done)
      | (simp only [Opacus.Generated.AdaClip.updateMaxGradNorm, Ada.clamp]
         split_ifs <;> first | rfl | (exfalso; linarith) | (simp_all <;> done) | (simp_all; ring_nf))
end generatedTie

end Opacus.C20
