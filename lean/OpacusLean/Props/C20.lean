import OpacusLean.Lemmas.AdaClipReal
/-! # C20 — adaptive clipping follows its update rule and its cost is fully accounted

All statements are about the executable model `OpacusLean/Model/AdaClip.lean` at `R = ℝ`
(`exp = Real.exp`, `sqrt = Real.sqrt`); the `Float` instance of the *same* definitions is what the
driver runs against `AdaClipDPOptimizer` and the ghost adaptive engine. -/
namespace Opacus.C20
open Opacus.AdaClip

/-! ## σ-split (Andrew et al. 2021, Thm 1) -/

/-- **sigma_split_identity**: for `0 < σ < 2σ_b` the gradient-noise multiplier
`σ_Δ = (σ⁻² − (2σ_b)⁻²)^(−1/2)` is a positive real with `σ_Δ⁻² + (2σ_b)⁻² = σ⁻²` and `σ_Δ > σ`;
it equals the literal real-power expression of the source. -/
theorem sigma_split_identity {σ σb : ℝ} (hσ : 0 < σ) (hb : 0 < σb) (h : σ < 2 * σb) :
    0 < sigmaDelta σ σb ∧
    1 / (sigmaDelta σ σb) ^ 2 + 1 / (2 * σb) ^ 2 = 1 / σ ^ 2 ∧
    σ < sigmaDelta σ σb ∧
    sigmaDelta σ σb = (σ ^ (-2 : ℝ) - (2 * σb) ^ (-2 : ℝ)) ^ (-(1 / 2) : ℝ) := by
  refine ⟨sigmaDelta_pos hσ hb h, ?_, sigma_lt_sigmaDelta hσ hb h, sigmaDelta_eq_rpow hσ hb h⟩
  have := sigmaDelta_sq hσ hb h
  rw [pow_two, pow_two, pow_two, this]; ring

/-- … and it is defined (positive radicand) iff `σ < 2σ_b`; the constructor's guard is exactly this -/
theorem sigma_split_defined_iff {σ σb : ℝ} (hσ : 0 < σ) (hb : 0 < σb) :
    (0 < 1 / (σ * σ) - 1 / ((2 * σb) * (2 * σb)) ↔ σ < 2 * σb) ∧
    (splitDefined σ σb = true ↔ σ < 2 * σb) := by
  refine ⟨radicand_pos_iff hσ hb, ?_⟩
  rw [splitDefined_iff]; tauto

example : (0 : ℝ) < 1 ∧ (0 : ℝ) < 1 ∧ (1 : ℝ) < 2 * 1 := by norm_num

end Opacus.C20
