import OpacusLean.Lemmas.RnnTranspose
import OpacusLean.Lemmas.RnnCsl2
import OpacusLean.Lemmas.RnnPack
import OpacusLean.Lemmas.RnnNames
import OpacusLean.Lemmas.RnnCellEq
import OpacusLean.Generated.RnnCellEqs
import Mathlib.Tactic.Ring
set_option linter.unusedSimpArgs false
/-! # C13 — DPLSTM / DPGRU / DPRNN are drop-in equivalents of the torch.nn recurrent layers

Model: `OpacusLean/Model/Rnn.lean` (time loops, layer × direction loop, permutations,
`compute_seq_lengths`; the cell is a parameter) and `Model/RnnCells.lean` (numeric cells, parameter
names).  The *spec* is the documented `torch.nn` semantics: each sequence on its own,
`h_t = cell(x_t, h_{t-1})` over its own length (`scanCell`), backwards for the reverse direction,
layers stacked on the concatenated outputs (`specForward`).  All statements are for an arbitrary
cell, arbitrary feature / state types, unbounded `T`, `B`, number of layers.

`seqOf steps i` is sequence `i` of a packed (or time-major padded) batch; `RowOf hs j r` says that
`r` is row `j` of every `[B, ·]` tensor in `hs`; `none` results mean "the code raises". -/
namespace Opacus.C13
open Opacus.Rnn
variable {X V S : Type}

/-- a toy instance over ℕ: `cell x s = x + 2·s`, outputs concatenated by addition -/
def toyCfg : Cfg Nat Nat := ⟨id, (· + ·), 0⟩
def toyCell (k : Nat) : Nat → Nat → Nat := fun x s => x + k * s

/-! ## one direction of one layer -/

/-- (promoted spike) forward direction of the packed time loop, batch shrinking: the states of row `i`
are the per-sequence recurrence over that row's own sequence -/
theorem packed_forward_dir_refines_spec (cell : X → S → S) (h0 : List S) (xs : List (List X))
    (hp : (xs.map List.length).Pairwise (· ≥ ·)) (hb : ∀ x ∈ xs, x.length ≤ h0.length)
    (i : Nat) (s : S) (hs : h0[i]? = some s) :
    seqOf (scanSteps (stepPacked cell h0) h0 xs) i = scanCell cell s (seqOf xs i) :=
  (packed_fwd_scan cell h0 xs h0 hp hb).2 i s hs

/-- reverse direction of the packed time loop (`reversed(x)`, batch growing, rows `h_0[prev:cur]`
appended in the `delta > 0` branch, outputs reversed back): row `i` is the recurrence run backwards
over its own sequence, started from *its own* `h_0` row at its own last element -/
theorem packed_reverse_dir_refines_spec (cell : X → S → S) (h0 : List S) (xs : List (List X))
    (hp : (xs.map List.length).Pairwise (· ≥ ·)) (hb : ∀ x ∈ xs, x.length ≤ h0.length)
    (i : Nat) (s : S) (hs : h0[i]? = some s) :
    seqOf (scanSteps (stepPacked cell h0) h0 xs.reverse).reverse i =
      (scanCell cell s (seqOf xs i).reverse).reverse := by
  have hb' : ∀ y ∈ xs.reverse, y.length ≤ h0.length := fun y hy => hb y (List.mem_reverse.mp hy)
  have hpx : (xs.reverse.map List.length).Pairwise (· ≤ ·) := by
    rw [List.map_reverse, List.pairwise_reverse]; exact hp
  rw [scanSteps_packed_h0 cell h0 xs.reverse hb', seqOf_reverse,
    (packed_grow_scan cell h0 xs.reverse [] hpx hb' (by simp)).2 i s (by simpa [virt] using hs), seqOf_reverse]

/-- `forward_layer(is_packed=True)`, both directions, including `h_last` gathered through
`compute_seq_lengths`: outputs and last state of every row are those of the per-sequence spec
(the last state after the conversion `cast` into the `h_last` buffer, see `gatherLast`) -/
theorem packed_layer_refines_spec (cast : S → S) (B : Nat) (rest : List Nat) (hp : (B :: rest).Pairwise (· ≥ ·))
    (cell : X → S → S) (h0 : List S) (x : List (List X)) (rev : Bool)
    (h0len : h0.length = B) (hx : x.map List.length = B :: rest) :
    ∃ o last, layerPacked cast B cell h0 x rev = some (o, last) ∧ o.map List.length = B :: rest ∧
      last.length = B ∧ ∀ i s, h0[i]? = some s →
        seqOf o i = (specDir cell s (seqOf x i) rev).1 ∧
        last[i]? = some (cast (specDir cell s (seqOf x i) rev).2) :=
  layerPacked_refines cast B rest hp cell h0 x rev h0len hx

/-- `forward_layer(is_packed=False)`, both directions (outputs flipped back, states not) -/
theorem padded_layer_refines_spec (B T' : Nat)
    (cell : X → S → S) (h0 : List S) (x : List (List X)) (rev : Bool)
    (h0len : h0.length = B) (hx : x.map List.length = B :: List.replicate T' B) :
    ∃ o last, layerPadded cell h0 x rev = some (o, last) ∧ o.map List.length = B :: List.replicate T' B ∧
      last.length = B ∧ ∀ i s, h0[i]? = some s →
        seqOf o i = (specDir cell s (seqOf x i) rev).1 ∧ last[i]? = some (specDir cell s (seqOf x i) rev).2 :=
  layerPadded_refines B T' cell h0 x rev h0len hx

/-! ## the whole `forward` -/

/-- **packed_refines_spec_partial** (the code as it stands, for any conversion `cast` into the `h_last`
buffer).  `forward` on a well-formed `PackedSequence` (batch sizes non-increasing,
`data` of matching length, `sorted/unsorted_indices` both `None` or mutually inverse permutations),
`L ≥ 1` layers, uni- or bidirectional, initial state absent or of shape `[L·P, B, ·]`: the call
succeeds; the output data split by `batch_sizes` holds, for the user's sequence `j` (packed at
position `i`), the spec outputs of that sequence, and row `j` of `h_n` (and `c_n`) is the spec's
final states *converted by `cast`* – where the spec is fed the user's own initial-state rows `init[·][j]`. -/
theorem packed_refines_spec_partial (cfg : Cfg V S) (cast : S → S) (bidir : Bool) (L : Nat) (hLpos : 0 < L)
    (cells : List (V → S → S)) (hcells : (if bidir then 2 else 1) * L ≤ cells.length)
    (data : List V) (B : Nat) (rest : List Nat) (hp : (B :: rest).Pairwise (· ≥ ·))
    (hdata : data.length = (B :: rest).sum)
    (sIdx uIdx : Option (List Nat)) (hperm : PermOK B sIdx uIdx)
    (init : Option (List (List S)))
    (hinit : ∀ h0s, init = some h0s →
      h0s.length = (if bidir then 2 else 1) * L ∧ ∀ h ∈ h0s, h.length = B) :
    ∃ out hn x o, forwardPacked cfg cast bidir L cells data (B :: rest) sIdx uIdx init = some (out, hn) ∧
      splitBy data (B :: rest) = some x ∧ splitBy out (B :: rest) = some o ∧
      hn.length = (if bidir then 2 else 1) * L ∧ (∀ h ∈ hn, h.length = B) ∧
      ∀ j i s0, j < B → posOf uIdx j i → InitRow init j s0 →
        ∃ so sf, specForward cfg cast bidir L cells s0 (seqOf x i) = some (so, sf) ∧
          seqOf o i = so ∧ RowOf hn j sf := by
  obtain ⟨x, hx⟩ := splitBy_exists (B :: rest) data hdata
  obtain ⟨hxsh, _⟩ := splitBy_shape _ _ _ hx
  obtain ⟨h0s, hh0, hh0len, hh0B, hh0row⟩ :=
    initStates_ok cfg L (if bidir then 2 else 1) B sIdx uIdx hperm init hinit
  obtain ⟨o, hs, hloop, hosh, hslen, hsB, hspec⟩ :=
    layersLoop_refines cfg cast (layerPacked cast B) B (B :: rest) (layerPacked_refines cast B rest hp) bidir cells h0s hh0B
      L 0 x [] hxsh (by simpa using hcells) (by simp [hh0len])
  obtain ⟨hn, hfin, hnlen, hnB, hnrow⟩ := finalPerm_ok sIdx uIdx hperm hs (hsB (by simp))
  refine ⟨o.flatten, hn, x, o, ?_, hx, ?_, ?_, hnB, ?_⟩
  · have hL0 : L ≠ 0 := by omega
    simp [forwardPacked, hx, hL0, hh0, hloop, hfin]
  · rw [← hosh]; exact splitBy_flatten o
  · rw [hnlen, hslen]; simp
  · intro j i s0 hj hpos hrow
    obtain ⟨so, sf, hsl, hso, hsf⟩ := hspec i _ [] (hh0row j i s0 hj hpos hrow) (by simp [RowOf])
    exact ⟨so, sf, by simpa [specForward] using hsl, hso, hnrow j i sf hpos hsf⟩



/-- **packed_refines_spec** (repaired behaviour: the `h_last` buffer has the states' dtype, `cast = id`;
also what the code as it stands does whenever the default dtype equals the input's): `h_n`, `c_n` are
exactly the spec's final states. -/
theorem packed_refines_spec (cfg : Cfg V S) (bidir : Bool) (L : Nat) (hLpos : 0 < L)
    (cells : List (V → S → S)) (hcells : (if bidir then 2 else 1) * L ≤ cells.length)
    (data : List V) (B : Nat) (rest : List Nat) (hp : (B :: rest).Pairwise (· ≥ ·))
    (hdata : data.length = (B :: rest).sum)
    (sIdx uIdx : Option (List Nat)) (hperm : PermOK B sIdx uIdx)
    (init : Option (List (List S)))
    (hinit : ∀ h0s, init = some h0s →
      h0s.length = (if bidir then 2 else 1) * L ∧ ∀ h ∈ h0s, h.length = B) :
    ∃ out hn x o, forwardPacked cfg id bidir L cells data (B :: rest) sIdx uIdx init = some (out, hn) ∧
      splitBy data (B :: rest) = some x ∧ splitBy out (B :: rest) = some o ∧
      hn.length = (if bidir then 2 else 1) * L ∧ (∀ h ∈ hn, h.length = B) ∧
      ∀ j i s0, j < B → posOf uIdx j i → InitRow init j s0 →
        ∃ so sf, specForward cfg id bidir L cells s0 (seqOf x i) = some (so, sf) ∧
          seqOf o i = so ∧ RowOf hn j sf :=
  packed_refines_spec_partial cfg id bidir L hLpos cells hcells data B rest hp hdata sIdx uIdx hperm init hinit

/-- **packed_state_dtype_counterexample** (known finding `C13:packed:state-dtype`): with a lossy
conversion into the `h_last` buffer – here `cast x = 2·⌊x/2⌋` on ℕ standing in for float64 → float32 –
the packed path returns final states that differ from the spec's (`[[6, 10]]` vs `[[7, 10]]`), while the
outputs and the padded path are unaffected. -/
theorem packed_state_dtype_counterexample :
    forwardPacked toyCfg (fun x => x / 2 * 2) false 1 [toyCell 2] [1, 2, 5, 6] [2, 2] none none none
      = some ([1, 2, 7, 10], [[6, 10]]) ∧
    forwardPacked toyCfg id false 1 [toyCell 2] [1, 2, 5, 6] [2, 2] none none none
      = some ([1, 2, 7, 10], [[7, 10]]) ∧
    forwardPadded toyCfg false 1 [toyCell 2] false [[1, 2], [5, 6]] none
      = some ([[1, 2], [7, 10]], [[7, 10]]) := by decide

/-- the same, stated on the user's sequences: pack non-empty sequences ordered by decreasing length
(`pack_padded_sequence(enforce_sorted=True)`), run the DP layer, unpack – every sequence got its own
recurrence.  (Unsorted input is `packed_refines_spec` with the two index permutations.) -/
theorem packed_sequences_refine_spec (cfg : Cfg V S) (bidir : Bool) (L : Nat) (hLpos : 0 < L)
    (cells : List (V → S → S)) (hcells : (if bidir then 2 else 1) * L ≤ cells.length)
    (seqs : List (List V)) (hne : seqs ≠ []) (hsorted : (seqs.map List.length).Pairwise (· ≥ ·))
    (hpos : ∀ s ∈ seqs, s ≠ [])
    (init : Option (List (List S)))
    (hinit : ∀ h0s, init = some h0s →
      h0s.length = (if bidir then 2 else 1) * L ∧ ∀ h ∈ h0s, h.length = seqs.length) :
    ∃ out hn o,
      forwardPacked cfg id bidir L cells (packSteps seqs).flatten (batchSizes (seqs.map List.length))
        none none init = some (out, hn) ∧
      splitBy out (batchSizes (seqs.map List.length)) = some o ∧
      ∀ j s s0, seqs[j]? = some s → InitRow init j s0 →
        ∃ so sf, specForward cfg id bidir L cells s0 s = some (so, sf) ∧ seqOf o j = so ∧ RowOf hn j sf := by
  obtain ⟨rest, hform, hpw⟩ := batchSizes_form (lens := seqs.map List.length) (by simpa using hne) hsorted
    (by intro l hl; obtain ⟨s, hs, rfl⟩ := List.mem_map.mp hl
        exact List.length_pos_iff.mpr (hpos s hs))
  simp only [List.length_map] at hform hpw
  have hshape := shape_packSteps seqs
  rw [hform] at hshape ⊢
  have hdata : (packSteps seqs).flatten.length = (seqs.length :: rest).sum := by
    rw [List.length_flatten, hshape]
  obtain ⟨out, hn, x, o, hrun, hx, ho, _, _, hspec⟩ :=
    packed_refines_spec cfg bidir L hLpos cells hcells _ seqs.length rest hpw hdata none none
      (by simp [PermOK]) init hinit
  have hx' : x = packSteps seqs := by
    have := splitBy_flatten (packSteps seqs)
    rw [hshape, hx] at this
    exact (Option.some.inj this)
  refine ⟨out, hn, o, hrun, ho, ?_⟩
  intro j s s0 hj hrow
  have hjlt : j < seqs.length := lt_of_getElem?_eq_some hj
  obtain ⟨so, sf, h1, h2, h3⟩ := hspec j j s0 hjlt rfl hrow
  rw [hx', seqOf_packSteps hsorted hj] at h1
  exact ⟨so, sf, h1, h2, h3⟩

/-- **padded_refines_spec**.  `forward` on a padded `[T, B, ·]` (or `[B, T, ·]`, `batch_first`) tensor,
`T ≥ 1`, `B ≥ 1`: output has the input's layout, and for every `j` sequence `j` of the output /
row `j` of the final states is the spec on sequence `j` of the input. -/
theorem headD_length_of_shape {α : Type} {x : List (List α)} {B : Nat} {rest : List Nat}
    (h : x.map List.length = B :: rest) : (x.headD []).length = B := by
  cases x with
  | nil => simp at h
  | cons r x => simp at h; simp [h.1]

theorem padded_refines_spec (cfg : Cfg V S) (bidir : Bool) (L : Nat) (hLpos : 0 < L)
    (cells : List (V → S → S)) (hcells : (if bidir then 2 else 1) * L ≤ cells.length)
    (batchFirst : Bool) (input : List (List V)) (B T' : Nat) (hB : 0 < B)
    (hshape : input.map List.length =
      if batchFirst then List.replicate B (T' + 1) else List.replicate (T' + 1) B)
    (init : Option (List (List S)))
    (hinit : ∀ h0s, init = some h0s →
      h0s.length = (if bidir then 2 else 1) * L ∧ ∀ h ∈ h0s, h.length = B) :
    ∃ out hn, forwardPadded cfg bidir L cells batchFirst input init = some (out, hn) ∧
      out.map List.length = input.map List.length ∧
      hn.length = (if bidir then 2 else 1) * L ∧ (∀ h ∈ hn, h.length = B) ∧
      ∀ j s0, j < B → InitRow init j s0 →
        ∃ so sf, specForward cfg id bidir L cells s0 (padSeq batchFirst input j) = some (so, sf) ∧
          padSeq batchFirst out j = so ∧ RowOf hn j sf := by
  -- the time-major view
  obtain ⟨x, hxdef, hxsh, hxseq⟩ : ∃ x, x = (if batchFirst then transpose input else input) ∧
      x.map List.length = B :: List.replicate T' B ∧
      ∀ j, j < B → seqOf x j = padSeq batchFirst input j := by
    refine ⟨_, rfl, ?_, ?_⟩
    · cases batchFirst
      · simpa [List.replicate_succ] using hshape
      · simp only [if_true] at hshape ⊢
        rw [shape_transpose hB hshape, List.replicate_succ]
    · intro j hj
      cases batchFirst
      · simp [padSeq]
      · simp only [if_true] at hshape ⊢
        have hlen : input.length = B := by have := congrArg List.length hshape; simpa using this
        have hrow : input[j]? = some (input[j]'(by omega)) := List.getElem?_eq_getElem (by omega)
        rw [seqOf_transpose hB hshape hrow]
        simp [padSeq, hrow]
  have hBx : (x.headD []).length = B := headD_length_of_shape hxsh
  obtain ⟨h0s, hh0, hh0len, hh0B, hh0row⟩ :=
    initStates_ok cfg L (if bidir then 2 else 1) B none none (by simp [PermOK]) init hinit
  obtain ⟨o, hs, hloop, hosh, hslen, hsB, hspec⟩ :=
    layersLoop_refines cfg id layerPadded B (B :: List.replicate T' B) (layerPadded_refines B T') bidir cells h0s hh0B
      L 0 x [] hxsh (by simpa using hcells) (by simp [hh0len])
  have hBo : (o.headD []).length = B := headD_length_of_shape hosh
  refine ⟨if batchFirst then transpose o else o, hs, ?_, ?_, ?_, hsB (by simp), ?_⟩
  · have hL0 : L ≠ 0 := by omega
    simp only [forwardPadded, ← hxdef, hBx, hL0, if_false, hh0, hloop]
  · cases batchFirst
    · simp only [Bool.false_eq_true, if_false] at hshape hxdef ⊢
      rw [hosh, hshape, List.replicate_succ]
    · simp only [if_true] at hshape ⊢
      rw [hshape]
      exact shape_transpose (A := T' + 1) (T := B) (by omega) (by rw [hosh, List.replicate_succ])
  · rw [hslen]; simp
  · intro j s0 hj hrow
    obtain ⟨so, sf, hsl, hso, hsf⟩ := hspec j _ [] (hh0row j j s0 hj rfl hrow) (by simp [RowOf])
    refine ⟨so, sf, ?_, ?_, hsf⟩
    · rw [← hxseq j hj]; simpa [specForward] using hsl
    · rw [← hso]
      cases batchFirst
      · simp [padSeq]
      · simp [padSeq, transpose_getElem? hBo hj]


/-! ## `compute_seq_lengths` -/

/-- `compute_seq_lengths(pack_padded_sequence(·, lens).batch_sizes) = lens` for non-increasing positive `lens` -/
theorem seq_lengths_roundtrip {lens : List Nat} (hne : lens ≠ []) (hp : lens.Pairwise (· ≥ ·))
    (hpos : ∀ l ∈ lens, 0 < l) : computeSeqLengths (batchSizes lens) = some lens :=
  computeSeqLengths_batchSizes hne hp hpos

/-- on the flipped (non-decreasing) batch sizes of the reverse pass every "length" is `T`, i.e. `h_last`
is read from the last step, and there are `B` = (largest batch size) of them -/
theorem seq_lengths_reversed (b : Nat) (bs : List Nat) (hp : (b :: bs).Pairwise (· ≤ ·)) :
    computeSeqLengths (b :: bs) = some (List.replicate ((b :: bs).getLast (by simp)) (bs.length + 1)) :=
  computeSeqLengths_nonDec b bs hp

/-- whatever the batch sizes, at least `batch_sizes[0]` lengths are produced: no row of the `h_last`
buffer keeps its `torch.zeros` initialisation -/
theorem seq_lengths_cover (b : Nat) (bs : List Nat) (lens : List Nat)
    (h : computeSeqLengths (b :: bs) = some lens) : b ≤ lens.length := by
  cases bs with
  | nil => simp [computeSeqLengths] at h; subst h; simp
  | cons c cs =>
    simp [computeSeqLengths] at h; subst h
    simpa using length_cslAux_ge 0 b (c :: cs)

/-! ## permutations -/

/-- re-ordering by `sorted_indices` and then by `unsorted_indices` is the identity -/
theorem unsort_sort_id {α : Type} {B : Nat} {s u : List Nat} (hp : PermOK B (some s) (some u))
    (xs : List α) (hx : xs.length = B) :
    ∃ ys, applyPerm xs (some s) = some ys ∧ applyPerm ys (some u) = some xs :=
  unsort_sort_id' hp xs hx

/-! ## `state_dict` -/

/-- for every number of layers, uni/bidirectional, with/without bias (including the stray `[]`
component the rename map gets for `bias=False`): the DP layer's `state_dict` keys are exactly
torch's `_flat_weights_names` -/
theorem state_dict_keys_eq_torch (L : Nat) (bidir bias : Bool) :
    (stateDictKeys L bidir bias).Perm (torchKeys L bidir bias) :=
  stateDictKeys_perm_torchKeys L bidir bias

/-- every key is an alias of the cell parameter with the same (layer, direction, matrix, component)
and has torch's shape – so checkpoints load in both directions -/
theorem state_dict_alias_and_shape (I H G L : Nat) (bidir bias : Bool) (k : PName)
    (hk : k ∈ stateDictKeys L bidir bias) :
    ∃ p, p ∈ moduleParams L bidir bias ∧ k = toFlat p ∧ aliasOf (renameMap L bidir bias) k = some p ∧
      dpShape I H G bidir p = torchShape I H G bidir k := by
  rw [stateDictKeys_eq] at hk
  obtain ⟨p, hp, rfl⟩ := List.mem_map.mp hk
  exact ⟨p, hp, rfl, aliasOf_stateDictKey hp, shape_eq I H G bidir hp⟩

/-! ## cell equations (gate order), activations opaque -/
section Cells
variable {R : Type} [Add R] [Mul R] [Sub R] [Zero R] [One R] [Act R]

theorem rnn_cell_equation (relu : Bool) (w : CellW R) (x h : List R) (j : Nat) (a b : R)
    (ha : (linear w.wih w.bih x)[j]? = some a) (hb : (linear w.whh w.bhh h)[j]? = some b) :
    (rnnCell relu w x h)[j]? = some ((if relu then Act.relu else Act.tanh) (a + b)) :=
  rnn_cell_eq relu w x h j a b ha hb

theorem lstm_cell_equations (H : Nat) (w : CellW R) (x h c : List R) (j : Nat) (hj : j < H) (gi gf gg go cj : R)
    (hi : (gatesOf w x h)[j]? = some gi) (hf : (gatesOf w x h)[H + j]? = some gf)
    (hg : (gatesOf w x h)[2 * H + j]? = some gg) (ho : (gatesOf w x h)[3 * H + j]? = some go)
    (hc : c[j]? = some cj) :
    (lstmCell H w x (h, c)).2[j]? = some (Act.sigmoid gf * cj + Act.sigmoid gi * Act.tanh gg) ∧
    (lstmCell H w x (h, c)).1[j]? =
      some (Act.sigmoid go * Act.tanh (Act.sigmoid gf * cj + Act.sigmoid gi * Act.tanh gg)) :=
  lstm_cell_eq H w x h c j hj gi gf gg go cj hi hf hg ho hc

theorem gru_cell_equation (H : Nat) (w : CellW R) (x h : List R) (j : Nat) (hj : j < H)
    (xr xz xn hr hz hn hj' : R)
    (h1 : (linear w.wih w.bih x)[j]? = some xr) (h2 : (linear w.wih w.bih x)[H + j]? = some xz)
    (h3 : (linear w.wih w.bih x)[2 * H + j]? = some xn)
    (h4 : (linear w.whh w.bhh h)[j]? = some hr) (h5 : (linear w.whh w.bhh h)[H + j]? = some hz)
    (h6 : (linear w.whh w.bhh h)[2 * H + j]? = some hn) (h7 : h[j]? = some hj') :
    (gruCell H w x h)[j]? =
      some ((1 - Act.sigmoid (xz + hz)) * Act.tanh (xn + Act.sigmoid (xr + hr) * hn)
            + Act.sigmoid (xz + hz) * hj') :=
  gru_cell_eq H w x h j hj xr xz xn hr hz hn hj' h1 h2 h3 h4 h5 h6 h7

end Cells

/-! ## The tie to the source: the cells' `forward`, re-translated on every run (`Generated/RnnCellEqs.lean`) -/
section generatedCells
open Opacus.Generated.RnnCells

/-- closes `generated = closed form` in a commutative ring with opaque activations, up to operand order / association -/
macro "cell_close" : tactic =>
  `(tactic| first | rfl | (ring_nf; done) | (simp only [Prod.mk.injEq]; constructor <;> ring_nf))

/-- the per-coordinate equations written in `DPRNNCell.forward`, `DPGRUCell.forward`, `DPLSTMCell.forward` – chunk `k` of
`torch.split(…, hidden_size, 1)` is gate `k` – are the closed forms of `rnn_cell_equation`, `gru_cell_equation`,
`lstm_cell_equations`, i.e. `torch.nn`'s gate order `(r, z, n)` / `(i, f, g, o)` -/
theorem generated_cells_eq_model {R : Type} [CommRing R] [Act R] (a0 a1 a2 a3 b0 b1 b2 b3 hp cp : R) :
    rnnTanh a0 b0 = Act.tanh (a0 + b0) ∧ rnnRelu a0 b0 = Act.relu (a0 + b0) ∧
    gru a0 a1 a2 b0 b1 b2 hp
      = (1 - Act.sigmoid (a1 + b1)) * Act.tanh (a2 + Act.sigmoid (a0 + b0) * b2) + Act.sigmoid (a1 + b1) * hp ∧
    lstm a0 a1 a2 a3 b0 b1 b2 b3 cp
      = (Act.sigmoid (a3 + b3) * Act.tanh (Act.sigmoid (a1 + b1) * cp + Act.sigmoid (a0 + b0) * Act.tanh (a2 + b2)),
         Act.sigmoid (a1 + b1) * cp + Act.sigmoid (a0 + b0) * Act.tanh (a2 + b2)) := by
  refine ⟨?_, ?_, ?_, ?_⟩
  · unfold rnnTanh; cell_close
  · unfold rnnRelu; cell_close
  · unfold gru; cell_close
  · unfold lstm; cell_close

/-- the model's LSTM cell, coordinate by coordinate, is the generated equation (gate `k` of unit `j` = row `k·H + j` of
`ih(x) + hh(h)`) -/
theorem generated_lstm_is_model_cell {R : Type} [CommRing R] [Act R] (H : Nat) (w : CellW R) (x h c : List R) (j : Nat)
    (hj : j < H) (a0 a1 a2 a3 b0 b1 b2 b3 cj : R)
    (hi : (gatesOf w x h)[j]? = some (a0 + b0)) (hf : (gatesOf w x h)[H + j]? = some (a1 + b1))
    (hg : (gatesOf w x h)[2 * H + j]? = some (a2 + b2)) (ho : (gatesOf w x h)[3 * H + j]? = some (a3 + b3))
    (hc : c[j]? = some cj) :
    (lstmCell H w x (h, c)).1[j]? = some (lstm a0 a1 a2 a3 b0 b1 b2 b3 cj).1 ∧
    (lstmCell H w x (h, c)).2[j]? = some (lstm a0 a1 a2 a3 b0 b1 b2 b3 cj).2 := by
  obtain ⟨h2, h1⟩ := lstm_cell_equations H w x h c j hj _ _ _ _ cj hi hf hg ho hc
  rw [(generated_cells_eq_model a0 a1 a2 a3 b0 b1 b2 b3 0 cj).2.2.2]
  exact ⟨h1, h2⟩

/-- … and the GRU and Elman cells -/
theorem generated_gru_rnn_is_model_cell {R : Type} [CommRing R] [Act R] (H : Nat) (w : CellW R) (x h : List R) (j : Nat)
    (hj : j < H) (a0 a1 a2 b0 b1 b2 hj' : R)
    (h1 : (linear w.wih w.bih x)[j]? = some a0) (h2 : (linear w.wih w.bih x)[H + j]? = some a1)
    (h3 : (linear w.wih w.bih x)[2 * H + j]? = some a2)
    (h4 : (linear w.whh w.bhh h)[j]? = some b0) (h5 : (linear w.whh w.bhh h)[H + j]? = some b1)
    (h6 : (linear w.whh w.bhh h)[2 * H + j]? = some b2) (h7 : h[j]? = some hj') :
    (gruCell H w x h)[j]? = some (gru a0 a1 a2 b0 b1 b2 hj') ∧
    (rnnCell false w x h)[j]? = some (rnnTanh a0 b0) ∧ (rnnCell true w x h)[j]? = some (rnnRelu a0 b0) := by
  obtain ⟨e1, e2, e3, _⟩ := generated_cells_eq_model a0 a1 a2 0 b0 b1 b2 0 hj' 0
  rw [e1, e2, e3]
  exact ⟨gru_cell_equation H w x h j hj a0 a1 a2 b0 b1 b2 hj' h1 h2 h3 h4 h5 h6 h7,
    by simpa using rnn_cell_equation false w x h j a0 b0 h1 h4,
    by simpa using rnn_cell_equation true w x h j a0 b0 h1 h4⟩

end generatedCells

/-! ## non-vacuity: the hypotheses are satisfiable and the conclusions are not trivial -/


example : PermOK 2 (some [1, 0]) (some [1, 0]) :=
  ⟨rfl, rfl, by decide, by decide, fun j hj => match j, hj with
    | 0, _ => ⟨1, rfl, rfl⟩
    | 1, _ => ⟨0, rfl, rfl⟩⟩

/-- two sequences `[1,3,5]` and `[2,4]` packed (`batch_sizes = [2,2,1]`), unsorted by the user,
bidirectional, two layers, given initial states: the model's result, computed by the kernel -/
example :
    forwardPacked toyCfg id true 2 [toyCell 2, toyCell 3, toyCell 1, toyCell 2] [1, 2, 3, 4, 5] [2, 2, 1]
      (some [1, 0]) (some [1, 0]) (some [[10, 20], [1, 2], [0, 1], [3, 0]])
      = some ([1287, 212, 765, 161, 644], [[48, 175], [23, 109], [100, 458], [167, 1136]]) := by decide

/-- … and the spec on the longer sequence alone (user index 1 ↦ packed position 0, initial rows
`init[·][1]`) gives the same outputs `[1287, 765, 644]` and the final states of column 1 -/
example :
    specForward toyCfg id true 2 [toyCell 2, toyCell 3, toyCell 1, toyCell 2] (some [20, 2, 1, 0]) [1, 3, 5]
      = some ([1287, 765, 644], [175, 109, 458, 1136]) := by decide

example : computeSeqLengths (batchSizes [3, 2, 2, 1]) = some [3, 2, 2, 1] := by decide
example : computeSeqLengths [1, 2, 2, 4] = some [4, 4, 4, 4] := by decide
example : stateDictKeys 1 true false =
    [.flat .weight .ih 0 false, .flat .weight .hh 0 false, .flat .weight .ih 0 true, .flat .weight .hh 0 true] := by
  decide

end Opacus.C13
