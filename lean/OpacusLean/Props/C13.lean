import OpacusLean.Lemmas.RnnSeq
/-! # C13 — DPLSTM / DPGRU / DPRNN are drop-in equivalents of the torch.nn recurrent layers -/
namespace Opacus.C13
open Opacus.Rnn
variable {X S : Type}

/-- forward direction of the packed time loop (batch shrinking): for every row `i` the states the
loop produces are the per-sequence recurrence over that row's own sequence -/
theorem packed_forward_dir_refines_spec (cell : X → S → S) (h0 : List S) (xs : List (List X))
    (hp : (xs.map List.length).Pairwise (· ≥ ·)) (hb : ∀ x ∈ xs, x.length ≤ h0.length)
    (i : Nat) (s : S) (hs : h0[i]? = some s) :
    seqOf (scanSteps (stepPacked cell h0) h0 xs) i = scanCell cell s (seqOf xs i) :=
  (packed_fwd_scan cell h0 xs h0 hp hb).2 i s hs

end Opacus.C13
