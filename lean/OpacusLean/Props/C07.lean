import OpacusLean.Lemmas.PrvEps
/-! # C07 — the PRV accountant's discrete algebra -/
namespace Opacus.C07
open Opacus.Prv Finset

/-! ## `compute_epsilon` -/

theorem ts_strictMono (d : Dom ℝ) (h : d.tMin < d.tMax) (hs : 2 ≤ d.size) :
    ∀ i j, i < j → j < d.size → d.ts i < d.ts j := by
  intro i j hij hj
  have hm : (0 : ℝ) < ((d.size - 1 : ℕ) : ℝ) := by
    have : 0 < d.size - 1 := by omega
    exact_mod_cast this
  have hdt : 0 < d.dt := div_pos (by linarith) hm
  have hmul : ((d.size - 1 : ℕ) : ℝ) * d.dt = d.tMax - d.tMin := by
    unfold Dom.dt; field_simp
  have hi : i + 1 ≠ d.size := by omega
  unfold Dom.ts
  rw [if_neg hi]
  by_cases hjl : j + 1 = d.size
  · rw [if_pos hjl]
    have : (i : ℝ) < ((d.size - 1 : ℕ) : ℝ) := by
      have : i < d.size - 1 := by omega
      exact_mod_cast this
    nlinarith
  · rw [if_neg hjl]
    have : (i : ℝ) < (j : ℝ) := by exact_mod_cast hij
    nlinarith

/-- `compute_delta_estimate` is the hockey-stick divergence of the discrete distribution -/
theorem computeDeltaEstimate_eq_hockey (d : DPrv ℝ) (ε : ℝ) :
    computeDeltaEstimate d ε = hockey d.dom.size d.dom.ts (fun j => d.pmf.getD j 0) ε := by
  unfold computeDeltaEstimate hockey
  rw [sumTo_eq_sum]
  refine Finset.sum_congr rfl fun j _ => ?_
  have hexp : Analytic.exp ε * Analytic.exp (-(d.dom.ts j)) = Real.exp (ε - d.dom.ts j) := by
    show Real.exp ε * Real.exp (-(d.dom.ts j)) = _
    rw [← Real.exp_add]; rfl
  by_cases h : ε ≤ d.dom.ts j
  · rw [if_pos h, hexp, max_eq_right]
    have : Real.exp (ε - d.dom.ts j) ≤ 1 := Real.exp_le_one_iff.mpr (by linarith)
    linarith
  · rw [if_neg h, max_eq_left, mul_zero]
    have : 1 ≤ Real.exp (ε - d.dom.ts j) := Real.one_le_exp (by linarith)
    linarith

/-- what a returned triple is made of -/
theorem computeEpsilon_triple {d : DPrv ℝ} {ldEps δ δe ee lo est hi : ℝ}
    (h : computeEpsilon d ldEps δ δe ee = .triple lo est hi) :
    0 < δ ∧ ldEps * (d.dom.size : ℝ) ≤ δ - δe ∧
    ∃ u l, findEpsilon d.dom.size d.dom.ts (fun j => d.pmf.getD j 0) (δ - δe) = .ok u ∧
      findEpsilon d.dom.size d.dom.ts (fun j => d.pmf.getD j 0) (δ + δe) = .ok l ∧
      findEpsilon d.dom.size d.dom.ts (fun j => d.pmf.getD j 0) δ = .ok est ∧
      lo = l - ee ∧ hi = u + ee := by
  unfold computeEpsilon at h
  split_ifs at h with h1 h2
  refine ⟨not_le.mp h1, not_lt.mp h2, ?_⟩
  simp only at h
  split at h
  · cases h
  · rename_i u hu
    split at h
    · cases h
    · rename_i l hl
      split at h
      · cases h
      · rename_i e he
        injection h with a b c
        exact ⟨u, l, hu, hl, by rw [he, b], a.symm, c.symm⟩

/-- **eps_triple_ordered**: whenever `compute_epsilon` returns a triple (no exception, `delta > 0`)
for a non-negative pmf on an increasing grid and non-negative error parameters,
`eps_lower ≤ eps_estimate ≤ eps_upper`. -/
theorem eps_triple_ordered (d : DPrv ℝ) (ldEps δ δe ee lo est hi : ℝ)
    (hp : ∀ j, 0 ≤ d.pmf.getD j 0) (hdom : d.dom.tMin < d.dom.tMax) (hs : 2 ≤ d.dom.size)
    (hδe : 0 ≤ δe) (hee : 0 ≤ ee)
    (h : computeEpsilon d ldEps δ δe ee = .triple lo est hi) :
    lo ≤ est ∧ est ≤ hi := by
  obtain ⟨_, _, u, l, hu, hl, he, rfl, rfl⟩ := computeEpsilon_triple h
  have ht := ts_strictMono d.dom hdom hs
  have h1 := findEpsilon_antitone _ _ _ (δ + δe) δ l est hp ht hl he (by linarith)
  have h2 := findEpsilon_antitone _ _ _ δ (δ - δe) est u hp ht he hu (by linarith)
  constructor <;> linarith

/-- **find_epsilon_inverts_hockey_stick**: for the discrete distribution the three returned values are
*exact* inverses of the coded `compute_delta_estimate`: `δ_p(est) = δ`,
`δ_p(upper − eps_error) = δ − delta_error`, `δ_p(lower + eps_error) = δ + delta_error`; and the
estimate lies in the grid cell `(t_{i−1}, t_i]` of the index `i` chosen by `searchsorted`. -/
theorem find_epsilon_inverts_hockey_stick (d : DPrv ℝ) (ldEps δ δe ee lo est hi : ℝ)
    (hp : ∀ j, 0 ≤ d.pmf.getD j 0) (hdom : d.dom.tMin < d.dom.tMax) (hs : 2 ≤ d.dom.size)
    (h : computeEpsilon d ldEps δ δe ee = .triple lo est hi) :
    computeDeltaEstimate d est = δ ∧
    computeDeltaEstimate d (hi - ee) = δ - δe ∧
    computeDeltaEstimate d (lo + ee) = δ + δe ∧
    (let i := searchsortedLeft (epsTables d.dom.size d.dom.ts (fun j => d.pmf.getD j 0)).ndelta d.dom.size (-δ)
     0 < i ∧ i < d.dom.size ∧ d.dom.ts (i - 1) < est ∧ est ≤ d.dom.ts i) := by
  obtain ⟨_, _, u, l, hu, hl, he, rfl, rfl⟩ := computeEpsilon_triple h
  have ht := ts_strictMono d.dom hdom hs
  have su := findEpsilon_spec _ _ _ _ _ hp ht hu
  have sl := findEpsilon_spec _ _ _ _ _ hp ht hl
  have se := findEpsilon_spec _ _ _ _ _ hp ht he
  simp only [computeDeltaEstimate_eq_hockey]
  refine ⟨se.2.2.2.2, ?_, ?_, se.1, se.2.1, se.2.2.1, se.2.2.2.1⟩
  · rw [add_sub_cancel_right]; exact su.2.2.2.2
  · rw [sub_add_cancel]; exact sl.2.2.2.2

end Opacus.C07
