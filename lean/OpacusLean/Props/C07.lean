import OpacusLean.Generated.PrvDomain
import OpacusLean.Lemmas.PrvEps
import OpacusLean.Lemmas.PrvRoll
import OpacusLean.Lemmas.PrvTree
import OpacusLean.Lemmas.PrvDomain
import OpacusLean.Lemmas.PrvCentred
import OpacusLean.Lemmas.PrvPerm
/-! # C07 — the PRV accountant's discrete algebra

What is proved here is the index / shift / inversion algebra of
`opacus/accountants/analysis/prv/{domain,compose,prvs}.py` on the executable model
`OpacusLean/Model/Prv.lean` (the same definitions the driver runs against the real code).

**Partial (stated plainly).**  The property C07 says the reported epsilon brackets the *true* epsilon of
the composed Poisson-subsampled Gaussian within `eps_error`.  The step from the continuous privacy-loss
distribution to the truncated, mean-matched discrete one (Gopi–Lee–Wutschitz 2021, Thm 5.5 / Rem 5.6) is
**cited, not proved**.  Full statement (not proved):

  -- theorem prv_brackets_truth : ∀ history in range, ∀ δ ε_err,
  --   ε_true(δ) ≤ get_epsilon δ ε_err ∧ get_epsilon δ ε_err ≤ ε_true(δ - 2δ_err) + 2 ε_err

What Lean carries: given the discretised pmfs, (1) self-composition + roll computes the distribution of
the n-fold sum on the same grid (aliased mod N) with `t = 0` staying at index `N/2 - 1` for both
parities of n; (2) `_compose_two` keeps the same centring and is commutative; (3) the tree cannot create
mass; (4) domain shifts add up to `Σ n_i·shift_i`; (5) `find_epsilon` inverts the discrete hockey-stick
divergence exactly and lands in the `searchsorted` cell; (6) the triple is ordered.
"Centre bin" = index `N/2 - 1` (not `N/2`): `aligned_domain_zero_bin` shows this is where `create_aligned`
puts `t = 0`. -/
namespace Opacus.C07
open Opacus.Prv Finset Polynomial

/-! ## `Domain.create_aligned` -/

/-- `PRVAccountant._get_domain` calls `create_aligned(-L, L, mesh)`: the result has even size, grid step
exactly `mesh`, and `t = 0` at index `size/2 - 1`. -/
theorem aligned_domain_zero_bin (tol L dt : ℝ) (hdt : 0 < dt) (htol : 0 < tol) (hL : 0 ≤ L) :
    ∃ d : Dom ℝ, createAligned tol (-L) L dt = .ok d ∧ d.size % 2 = 0 ∧ 2 ≤ d.size ∧ d.dt = dt ∧
      d.tMin ≤ -L ∧ L ≤ d.tMax ∧ d.shifts = 0 ∧ d.ts (d.size / 2 - 1) = 0 := by
  obtain ⟨d, h, hs, hmin, hmax, hsh, hdt', h0⟩ := createAligned_symm tol L dt hdt htol hL
  refine ⟨d, h, by omega, by omega, hdt', ?_, ?_, hsh, h0⟩
  · rw [hmin]
    have := Int.le_ceil (L / dt)
    have h2 : L / dt * dt = L := by field_simp
    nlinarith
  · rw [hmax]
    have := Int.le_ceil (L / dt)
    have h2 : L / dt * dt = L := by field_simp
    nlinarith

/-! ## `_compose_fourier` -/

section compose
variable {R : Type} [CommRing R]

/-- **self_compose_roll_correct** (∀ even size `N`, ∀ `n ≥ 1`, both parities).  `_compose_fourier(d, n)`
succeeds and, with `c = N/2 - 1` the index of `t = 0` and `P = Σ_i pmf[i] Xⁱ`:
entry `j` of the result is the total mass of the n-fold **linear** convolution `Pⁿ` at the indices `s`
whose offset from the n-fold centre, `s - n·c`, is congruent mod `N` to `j - c`
(written without subtraction: `s + c ≡ j + n·c`).  The domain keeps its size and is shifted by
`(n-1)·shifts`, so that the recorded total shift is `n·shifts`. -/
theorem self_compose_roll_correct (d : DPrv R) (n : ℕ) (hlen : d.pmf.size = d.dom.size)
    (hN : d.pmf.size % 2 = 0) (hN0 : 0 < d.pmf.size) (hn : 1 ≤ n) :
    ∃ out, composeFourier d n = .ok out ∧ out.pmf.size = d.pmf.size ∧
      out.dom.size = d.dom.size ∧ out.dom.shifts = (n : R) * d.dom.shifts ∧
      out.dom.tMin = d.dom.tMin + ((n : R) - 1) * d.dom.shifts ∧
      out.dom.tMax = d.dom.tMax + ((n : R) - 1) * d.dom.shifts ∧
      ∀ j, j < d.pmf.size → out.pmf.getD j 0 =
        ∑ s ∈ range (n * (d.pmf.size - 1) + 1),
          if (s + (d.pmf.size / 2 - 1)) % d.pmf.size = (j + n * (d.pmf.size / 2 - 1)) % d.pmf.size
          then (toPoly d.pmf ^ n).coeff s else 0 := by
  refine ⟨⟨roll (cpow d.pmf n) (rollAmount (cpow d.pmf n).size n),
    d.dom.shiftRight (d.dom.shifts * (((n : ℤ) - 1 : ℤ) : R))⟩, ?_, ?_, rfl, ?_, ?_, ?_, ?_⟩
  · unfold composeFourier
    rw [if_neg (not_not.mpr hlen), if_neg (not_not.mpr hN)]
  · simp only [roll_size, cpow_size]
  · simp only [Dom.shiftRight]; push_cast; ring
  · simp only [Dom.shiftRight]; push_cast; ring
  · simp only [Dom.shiftRight]; push_cast; ring
  · intro j hj
    exact roll_cpow_getD d.pmf n hN hN0 hn j hj

/-- no aliasing: if the n-fold linear convolution lives inside the window of `N` bins around its centre
`n·c`, the result *is* that window: `out[j] = Pⁿ[j + (n-1)c]`, i.e. offset `j - c` ↦ offset `j - c`. -/
theorem self_compose_no_wrap (d : DPrv R) (n : ℕ) (hlen : d.pmf.size = d.dom.size)
    (hN : d.pmf.size % 2 = 0) (hN0 : 0 < d.pmf.size) (hn : 1 ≤ n)
    (hwin : ∀ s, (toPoly d.pmf ^ n).coeff s ≠ 0 →
      (n - 1) * (d.pmf.size / 2 - 1) ≤ s ∧ s < (n - 1) * (d.pmf.size / 2 - 1) + d.pmf.size) :
    ∃ out, composeFourier d n = .ok out ∧
      ∀ j, j < d.pmf.size → out.pmf.getD j 0 = (toPoly d.pmf ^ n).coeff (j + (n - 1) * (d.pmf.size / 2 - 1)) := by
  obtain ⟨out, h, _, _, _, _, _, hval⟩ := self_compose_roll_correct d n hlen hN hN0 hn
  refine ⟨out, h, fun j hj => ?_⟩
  rw [hval j hj]
  set c := d.pmf.size / 2 - 1
  set e := (n - 1) * c with he
  have hnc : n * c = e + c := by
    rw [he]; conv_lhs => rw [show n = (n - 1) + 1 by omega]
    rw [add_mul, one_mul]
  rw [Finset.sum_eq_single (j + e)]
  · rw [if_pos (by rw [hnc]; congr 1; omega)]
  · intro s _ hne
    by_cases hc : (toPoly d.pmf ^ n).coeff s = 0
    · rw [hc]; split_ifs <;> rfl
    · obtain ⟨h1, h2⟩ := hwin s hc
      rw [if_neg]
      intro hcond
      apply hne
      obtain ⟨s', rfl⟩ : ∃ s', s = e + s' := ⟨s - e, by omega⟩
      have hs' : s' < d.pmf.size := by omega
      have : s' ≡ j [MOD d.pmf.size] := by
        have h3 : s' + (e + c) ≡ j + (e + c) [MOD d.pmf.size] := by
          unfold Nat.ModEq
          rw [hnc] at hcond
          rw [show s' + (e + c) = e + s' + c by omega, hcond]
        exact Nat.ModEq.add_right_cancel' _ h3
      have := Nat.ModEq.eq_of_lt_of_lt this hs' hj
      omega
  · intro hnot
    have hdeg := natDegree_toPoly_pow_lt d.pmf hN0 n
    have : (toPoly d.pmf ^ n).coeff (j + e) = 0 :=
      coeff_eq_zero_of_natDegree_lt (lt_of_lt_of_le hdeg (by
        have := Finset.mem_range.not.mp hnot; omega))
    rw [this]; split_ifs <;> rfl

/-! ## `_compose_two` -/

theorem ext_getD {a b : Array R} (hs : a.size = b.size) (h : ∀ j, a.getD j 0 = b.getD j 0) : a = b := by
  apply Array.ext hs
  intro i h1 h2
  have := h i
  simpa [Array.getD, h1, h2] using this

/-- `convolve(l, r, mode="same")` for two pmfs on the same even grid keeps `t = 0` at index `c = N/2-1`:
entry `j` is the linear convolution at `j + c` (offsets add: `(i₁-c) + (i₂-c) = j-c`). -/
theorem compose_two_centre (l r : DPrv R) (hs : r.pmf.size = l.pmf.size) (hN : l.pmf.size % 2 = 0)
    (j : ℕ) (hj : j < l.pmf.size) :
    (composeTwo l r).pmf.getD j 0 = (toPoly l.pmf * toPoly r.pmf).coeff (j + (l.pmf.size / 2 - 1)) ∧
    (composeTwo l r).pmf.size = l.pmf.size ∧
    (composeTwo l r).dom.shifts = l.dom.shifts + r.dom.shifts := by
  refine ⟨?_, convSame_size _ _, rfl⟩
  simp only [composeTwo]
  rw [convSame_getD, if_pos hj, hs]
  congr 2
  omega

/-- **compose_two_comm** (equal sizes): the pmf of `_compose_two` does not depend on the order -/
theorem compose_two_comm (l r : DPrv R) (hs : r.pmf.size = l.pmf.size) :
    (composeTwo l r).pmf = (composeTwo r l).pmf := by
  simp only [composeTwo]
  apply ext_getD (by rw [convSame_size, convSame_size, hs])
  intro j
  rw [convSame_getD, convSame_getD, hs, mul_comm]

/-- …and neither does the domain when both come from the same aligned grid -/
theorem compose_two_comm_domain (lo hi : R) (size : ℕ) (l r : DPrv R) (h : SameBase lo hi size [l, r]) :
    (composeTwo l r).dom = (composeTwo r l).dom := by
  obtain ⟨l1, l2, l3⟩ := h l (by simp)
  obtain ⟨r1, r2, r3⟩ := h r (by simp)
  simp only [composeTwo, Dom.shiftRight, l1, l2, l3, r1, r2, r3]
  congr 1 <;> ring

/-! ## the convolution tree and `compose_heterogeneous` -/

/-- **domain_shift_add**: if every discretised PRV lives on the common aligned grid `[lo, hi]` moved by
its own mean shift, `compose_heterogeneous` returns the same grid moved by `Σ_i n_i · shift_i` —
whatever the order in which the tree (pop-last / pairwise) combined them. -/
theorem domain_shift_add (lo hi : R) (size : ℕ) (ds : List (DPrv R)) (ns : List ℕ) (r : DPrv R)
    (hb : SameBase lo hi size ds) (h : composeHeterogeneous ds ns = .ok r) :
    r.dom.shifts = weightedShift ds ns ∧ r.dom.tMin = lo + weightedShift ds ns ∧
      r.dom.tMax = hi + weightedShift ds ns ∧ r.dom.size = size := by
  unfold composeHeterogeneous at h
  split_ifs at h
  split at h
  · cases h
  · rename_i cs hcs
    obtain ⟨hb', hsum⟩ := fourierAll_domain lo hi size ds ns cs hcs hb
    have := tree_domain lo hi size _ cs r h hb'
    rwa [hsum] at this

/-! non-vacuity of the composition theorems: concrete runs of the same definitions over ℤ -/
-- composition non-vacuity (ℤ): N = 4, c = 1, pmf = X + 2X², n = 2 and n = 3
example : (match composeFourier (⟨#[0, 1, 2, 0], ⟨-2, 4, 4, 1⟩⟩ : DPrv ℤ) 2 with
    | .ok o => (o.pmf.toList, o.dom.tMin, o.dom.tMax, o.dom.size, o.dom.shifts) | .error _ => ([], 0, 0, 0, 0))
    = ([0, 1, 4, 4], -1, 5, 4, 2) := by decide

example : (match composeFourier (⟨#[0, 0, 3, 1, 0, 0], ⟨-2, 4, 6, 1⟩⟩ : DPrv ℤ) 3 with
    | .ok o => o.pmf.toList | .error _ => []) = [0, 0, 27, 27, 9, 1] := by decide

-- tree / hetero non-vacuity
example : (match composeHeterogeneous
      [(⟨#[0, 1, 1, 0], ⟨-2, 4, 4, 1⟩⟩ : DPrv ℤ), ⟨#[0, 2, 0, 0], ⟨-4, 2, 4, -1⟩⟩, ⟨#[0, 1, 0, 1], ⟨0, 6, 4, 3⟩⟩] [2, 1, 1] with
    | .ok o => (o.pmf.toList, o.dom.tMin, o.dom.tMax, o.dom.size, o.dom.shifts) | .error _ => ([], 0, 0, 0, 0))
    = ([0, 2, 4, 4], 1, 7, 4, 4) := by decide


/-- **compose_heterogeneous_exact** (the whole composition, any number of groups, any tree shape).
Read a pmf of even size `N` as the law of an offset `j - c` from the centre bin `c = N/2 - 1`.
If pmf `i` lives within `rad i` bins of the centre and `Σ n_i · rad i ≤ c` (so that nothing can be
aliased by the FFT or cut by `mode='same'`), then `compose_heterogeneous` returns **exactly** the law of
the sum of all `M = Σ n_i` offsets on the same grid: with `Q = Π_i (Σ_j pmf_i[j] Xʲ)^{n_i}`,
`Q = X^{(M-1)c} · Σ_j out[j] Xʲ`, i.e. `out[j] = Q[j + (M-1)c]` and `Q` has no other mass. -/
theorem compose_heterogeneous_exact (N : ℕ) (hN : N % 2 = 0) (hN2 : 2 ≤ N) (rad : DPrv R → ℕ)
    (ds : List (DPrv R)) (ns : List ℕ) (res : DPrv R)
    (h : composeHeterogeneous ds ns = .ok res)
    (hsz : ∀ d ∈ ds, d.pmf.size = N)
    (hsupp : ∀ d ∈ ds, ∀ j, d.pmf.getD j 0 ≠ 0 → N / 2 - 1 ≤ j + rad d ∧ j ≤ N / 2 - 1 + rad d)
    (hn : ∀ n ∈ ns, 1 ≤ n) (hfit : weightedRad rad ds ns ≤ N / 2 - 1) :
    res.pmf.size = N ∧
    polyProd ds ns = X ^ ((totalCount ds ns - 1) * (N / 2 - 1)) * toPoly res.pmf ∧
    ∀ j, res.pmf.getD j 0 = (polyProd ds ns).coeff (j + (totalCount ds ns - 1) * (N / 2 - 1)) := by
  obtain ⟨c, hc⟩ : ∃ c, N / 2 - 1 = c := ⟨_, rfl⟩
  have hNc : N = 2 * c + 2 := by omega
  rw [hc] at hfit ⊢
  have hrep := composeHeterogeneous_rep (c := c) rad ds ns res h (fun d hd => by rw [hsz d hd, hNc])
    (fun d hd j hj => by have := hsupp d hd j hj; rw [hc] at this; exact this) hn hfit
  exact ⟨by rw [hrep.size, hNc], hrep.shift, fun j => hrep.getD j⟩

/-- **compose_heterogeneous_perm_invariant**: reorder the history (the groups `(prv_i, n_i)` jointly) in any
way – the convolution tree then pairs different neighbours and sets aside different odd elements – and, as
long as nothing is aliased (the hypotheses of `compose_heterogeneous_exact`, stated for one order only),
both orders return the same pmf. -/
theorem compose_heterogeneous_perm_invariant (N : ℕ) (hN : N % 2 = 0) (hN2 : 2 ≤ N) (rad : DPrv R → ℕ)
    (ds ds' : List (DPrv R)) (ns ns' : List ℕ) (res res' : DPrv R)
    (hl : ds.length = ns.length) (hl' : ds'.length = ns'.length)
    (hp : (ds.zip ns).Perm (ds'.zip ns'))
    (h : composeHeterogeneous ds ns = .ok res) (h' : composeHeterogeneous ds' ns' = .ok res')
    (hsz : ∀ d ∈ ds, d.pmf.size = N)
    (hsupp : ∀ d ∈ ds, ∀ j, d.pmf.getD j 0 ≠ 0 → N / 2 - 1 ≤ j + rad d ∧ j ≤ N / 2 - 1 + rad d)
    (hn : ∀ n ∈ ns, 1 ≤ n) (hfit : weightedRad rad ds ns ≤ N / 2 - 1) :
    res'.pmf = res.pmf := by
  have hds : ds.Perm ds' := by
    have := hp.map Prod.fst
    rwa [List.map_fst_zip (by omega), List.map_fst_zip (by omega)] at this
  have hns : ns.Perm ns' := by
    have := hp.map Prod.snd
    rwa [List.map_snd_zip (by omega), List.map_snd_zip (by omega)] at this
  have hsz' : ∀ d ∈ ds', d.pmf.size = N := fun d hd => hsz d (hds.mem_iff.mpr hd)
  have hsupp' : ∀ d ∈ ds', ∀ j, d.pmf.getD j 0 ≠ 0 → N / 2 - 1 ≤ j + rad d ∧ j ≤ N / 2 - 1 + rad d :=
    fun d hd => hsupp d (hds.mem_iff.mpr hd)
  have hn' : ∀ n ∈ ns', 1 ≤ n := fun n hn0 => hn n (hns.mem_iff.mpr hn0)
  have hfit' : weightedRad rad ds' ns' ≤ N / 2 - 1 := by
    rw [weightedRad_eq_zip, ← (hp.map _).sum_eq, ← weightedRad_eq_zip]; exact hfit
  obtain ⟨s1, _, g1⟩ := compose_heterogeneous_exact N hN hN2 rad ds ns res h hsz hsupp hn hfit
  obtain ⟨s2, _, g2⟩ := compose_heterogeneous_exact N hN hN2 rad ds' ns' res' h' hsz' hsupp' hn' hfit'
  have hP : polyProd ds' ns' = polyProd ds ns := by
    rw [polyProd_eq_zip, polyProd_eq_zip, (hp.map _).prod_eq]
  have hT : totalCount ds' ns' = totalCount ds ns := by
    rw [totalCount_eq_zip, totalCount_eq_zip, (hp.map _).sum_eq]
  apply ext_getD (by rw [s1, s2])
  intro j
  rw [g1, g2, hP, hT]


/-- non-vacuity: the three groups of the example above in two different orders (different trees) -/
example :
    (match composeHeterogeneous
      [(⟨#[0, 2, 0, 0], ⟨-4, 2, 4, -1⟩⟩ : DPrv ℤ), ⟨#[0, 1, 0, 1], ⟨0, 6, 4, 3⟩⟩, ⟨#[0, 1, 1, 0], ⟨-2, 4, 4, 1⟩⟩] [1, 1, 2] with
    | .ok o => o.pmf.toList | .error _ => [])
    = (match composeHeterogeneous
      [(⟨#[0, 1, 1, 0], ⟨-2, 4, 4, 1⟩⟩ : DPrv ℤ), ⟨#[0, 2, 0, 0], ⟨-4, 2, 4, -1⟩⟩, ⟨#[0, 1, 0, 1], ⟨0, 6, 4, 3⟩⟩] [2, 1, 1] with
    | .ok o => o.pmf.toList | .error _ => []) := by decide

end compose

section massSec
variable {R : Type} [CommRing R] [LinearOrder R] [IsStrictOrderedRing R]

/-- `mode='same'` keeps `a.size` consecutive bins of the full convolution; what it cuts off is exactly
the head and the tail: mass(same) + head + tail = mass(l)·mass(r) -/
theorem compose_two_mass (a b : Array R) (M : ℕ) (hM : (toPoly a * toPoly b).natDegree < M)
    (hwin : (b.size - 1) / 2 + a.size ≤ M) :
    mass (convSame a b)
      + ∑ s ∈ range ((b.size - 1) / 2), (toPoly a * toPoly b).coeff s
      + ∑ s ∈ Ico ((b.size - 1) / 2 + a.size) M, (toPoly a * toPoly b).coeff s
      = mass a * mass b := compose_two_mass_exact a b M hM hwin

/-- **tree_mass**: on non-negative pmfs the convolution tree never creates mass: the result is
non-negative and its total mass is at most the product of the masses (equality up to the truncated
tails accounted for in `compose_two_mass`). -/
theorem tree_mass (l : List (DPrv R)) (r : DPrv R) (hn : ∀ d ∈ l, ∀ j, 0 ≤ d.pmf.getD j 0)
    (h : composeConvolutionTree l = .ok r) :
    (∀ j, 0 ≤ r.pmf.getD j 0) ∧ mass r.pmf ≤ (l.map (fun d => mass d.pmf)).prod :=
  tree_mass_le l.length l r h hn

end massSec

/-! ## `compute_safe_domain_size` -/

/-- **safe_domain_covers**: the half-width `L` handed to `create_aligned(-L, L, mesh)` is at least 3
above the RDP bound of the WHOLE composed history (`epsAll`), above every single-step bound and above
`eps_error`, and it is exactly 3 above the largest of them – for every history length.  (Remark 5.6 of
Gopi et al. needs the composed privacy loss to stay inside `[-L, L]` up to mass `δ_err`; a per-segment
maximum instead of the composed bound would let it wrap around in the FFT.) -/
theorem safe_domain_covers (epsAll : ℝ) (epsEach : List ℝ) (epsError : ℝ) :
    epsAll + 3 ≤ safeDomainSize epsAll epsEach epsError
    ∧ (∀ e ∈ epsEach, e + 3 ≤ safeDomainSize epsAll epsEach epsError)
    ∧ epsError + 3 ≤ safeDomainSize epsAll epsEach epsError
    ∧ (safeDomainSize epsAll epsEach epsError = epsAll + 3
        ∨ (∃ e ∈ epsEach, safeDomainSize epsAll epsEach epsError = e + 3)
        ∨ safeDomainSize epsAll epsEach epsError = epsError + 3) := by
  have key : ∀ (l : List ℝ) (a : ℝ),
      a ≤ l.foldl (fun acc e => if acc < e then e else acc) a
      ∧ (∀ e ∈ l, e ≤ l.foldl (fun acc e => if acc < e then e else acc) a)
      ∧ (l.foldl (fun acc e => if acc < e then e else acc) a = a
          ∨ ∃ e ∈ l, l.foldl (fun acc e => if acc < e then e else acc) a = e) := by
    intro l
    induction l with
    | nil => intro a; simp
    | cons x xs ih =>
      intro a
      simp only [List.foldl_cons, List.mem_cons, forall_eq_or_imp, exists_eq_or_imp]
      obtain ⟨h1, h2, h3⟩ := ih (if a < x then x else a)
      have hax : a ≤ (if a < x then x else a) := by split <;> linarith
      have hxx : x ≤ (if a < x then x else a) := by split <;> linarith
      refine ⟨le_trans hax h1, ⟨le_trans hxx h1, h2⟩, ?_⟩
      rcases h3 with h3 | ⟨e, he, h3⟩
      · by_cases hlt : a < x
        · right; left; rw [h3, if_pos hlt]
        · left; rw [h3, if_neg hlt]
      · right; right; exact ⟨e, he, h3⟩
  obtain ⟨k1, k2, k3⟩ := key epsEach epsAll
  simp only [safeDomainSize, Nat.cast_ofNat]
  set m := epsEach.foldl (fun acc e => if acc < e then e else acc) epsAll with hm
  by_cases hlt : m < epsError
  · simp only [if_pos hlt]
    exact ⟨by linarith, fun e he => by linarith [k2 e he], le_refl _, by simp⟩
  · simp only [if_neg hlt]
    have hlt' : epsError ≤ m := not_lt.mp hlt
    refine ⟨by linarith, fun e he => by linarith [k2 e he], by linarith, ?_⟩
    rcases k3 with h | ⟨e, he, h⟩
    · left; rw [h]
    · right; left; exact ⟨e, he, by rw [h]⟩

/-! ## `compute_epsilon` -/

theorem ts_strictMono (d : Dom ℝ) (h : d.tMin < d.tMax) (hs : 2 ≤ d.size) :
    ∀ i j, i < j → j < d.size → d.ts i < d.ts j := by
  intro i j hij hj
  have hm : (0 : ℝ) < ((d.size - 1 : ℕ) : ℝ) := by
    have : 0 < d.size - 1 := by omega
    exact_mod_cast this
  have hdt : 0 < d.dt := div_pos (by linarith) hm
  have hmul : ((d.size - 1 : ℕ) : ℝ) * d.dt = d.tMax - d.tMin := by
    unfold Dom.dt; field_simp
  have hi : i + 1 ≠ d.size := by omega
  unfold Dom.ts
  rw [if_neg hi]
  by_cases hjl : j + 1 = d.size
  · rw [if_pos hjl]
    have : (i : ℝ) < ((d.size - 1 : ℕ) : ℝ) := by
      have : i < d.size - 1 := by omega
      exact_mod_cast this
    nlinarith
  · rw [if_neg hjl]
    have : (i : ℝ) < (j : ℝ) := by exact_mod_cast hij
    nlinarith

/-- `compute_delta_estimate` is the hockey-stick divergence of the discrete distribution -/
theorem computeDeltaEstimate_eq_hockey (d : DPrv ℝ) (ε : ℝ) :
    computeDeltaEstimate d ε = hockey d.dom.size d.dom.ts (fun j => d.pmf.getD j 0) ε := by
  unfold computeDeltaEstimate hockey
  rw [sumTo_eq_sum]
  refine Finset.sum_congr rfl fun j _ => ?_
  have hexp : Analytic.exp ε * Analytic.exp (-(d.dom.ts j)) = Real.exp (ε - d.dom.ts j) := by
    show Real.exp ε * Real.exp (-(d.dom.ts j)) = _
    rw [← Real.exp_add]; rfl
  by_cases h : ε ≤ d.dom.ts j
  · rw [if_pos h, hexp, max_eq_right]
    have : Real.exp (ε - d.dom.ts j) ≤ 1 := Real.exp_le_one_iff.mpr (by linarith)
    linarith
  · rw [if_neg h, max_eq_left, mul_zero]
    have : 1 ≤ Real.exp (ε - d.dom.ts j) := Real.one_le_exp (by linarith)
    linarith

/-- what a returned triple is made of -/
theorem computeEpsilon_triple {d : DPrv ℝ} {ldEps δ δe ee lo est hi : ℝ}
    (h : computeEpsilon d ldEps δ δe ee = .triple lo est hi) :
    0 < δ ∧ ldEps * (d.dom.size : ℝ) ≤ δ - δe ∧
    ∃ u l, findEpsilon d.dom.size d.dom.ts (fun j => d.pmf.getD j 0) (δ - δe) = .ok u ∧
      findEpsilon d.dom.size d.dom.ts (fun j => d.pmf.getD j 0) (δ + δe) = .ok l ∧
      findEpsilon d.dom.size d.dom.ts (fun j => d.pmf.getD j 0) δ = .ok est ∧
      lo = l - ee ∧ hi = u + ee := by
  unfold computeEpsilon at h
  split_ifs at h with h1 h2
  refine ⟨not_le.mp h1, not_lt.mp h2, ?_⟩
  simp only at h
  split at h
  · cases h
  · rename_i u hu
    split at h
    · cases h
    · rename_i l hl
      split at h
      · cases h
      · rename_i e he
        injection h with a b c
        exact ⟨u, l, hu, hl, by rw [he, b], a.symm, c.symm⟩

/-- **eps_triple_ordered**: whenever `compute_epsilon` returns a triple (no exception, `delta > 0`)
for a non-negative pmf on an increasing grid and non-negative error parameters,
`eps_lower ≤ eps_estimate ≤ eps_upper`. -/
theorem eps_triple_ordered (d : DPrv ℝ) (ldEps δ δe ee lo est hi : ℝ)
    (hp : ∀ j, 0 ≤ d.pmf.getD j 0) (hdom : d.dom.tMin < d.dom.tMax) (hs : 2 ≤ d.dom.size)
    (hδe : 0 ≤ δe) (hee : 0 ≤ ee)
    (h : computeEpsilon d ldEps δ δe ee = .triple lo est hi) :
    lo ≤ est ∧ est ≤ hi := by
  obtain ⟨_, _, u, l, hu, hl, he, rfl, rfl⟩ := computeEpsilon_triple h
  have ht := ts_strictMono d.dom hdom hs
  have h1 := findEpsilon_antitone _ _ _ (δ + δe) δ l est hp ht hl he (by linarith)
  have h2 := findEpsilon_antitone _ _ _ δ (δ - δe) est u hp ht he hu (by linarith)
  constructor <;> linarith

/-- **find_epsilon_inverts_hockey_stick**: for the discrete distribution the three returned values are
*exact* inverses of the coded `compute_delta_estimate`: `δ_p(est) = δ`,
`δ_p(upper − eps_error) = δ − delta_error`, `δ_p(lower + eps_error) = δ + delta_error`; and the
estimate lies in the grid cell `(t_{i−1}, t_i]` of the index `i` chosen by `searchsorted`. -/
theorem find_epsilon_inverts_hockey_stick (d : DPrv ℝ) (ldEps δ δe ee lo est hi : ℝ)
    (hp : ∀ j, 0 ≤ d.pmf.getD j 0) (hdom : d.dom.tMin < d.dom.tMax) (hs : 2 ≤ d.dom.size)
    (h : computeEpsilon d ldEps δ δe ee = .triple lo est hi) :
    computeDeltaEstimate d est = δ ∧
    computeDeltaEstimate d (hi - ee) = δ - δe ∧
    computeDeltaEstimate d (lo + ee) = δ + δe ∧
    (let i := searchsortedLeft (epsTables d.dom.size d.dom.ts (fun j => d.pmf.getD j 0)).ndelta d.dom.size (-δ)
     0 < i ∧ i < d.dom.size ∧ d.dom.ts (i - 1) < est ∧ est ≤ d.dom.ts i) := by
  obtain ⟨_, _, u, l, hu, hl, he, rfl, rfl⟩ := computeEpsilon_triple h
  have ht := ts_strictMono d.dom hdom hs
  have su := findEpsilon_spec _ _ _ _ _ hp ht hu
  have sl := findEpsilon_spec _ _ _ _ _ hp ht hl
  have se := findEpsilon_spec _ _ _ _ _ hp ht he
  simp only [computeDeltaEstimate_eq_hockey]
  refine ⟨se.2.2.2.2, ?_, ?_, se.1, se.2.1, se.2.2.1, se.2.2.2.1⟩
  · rw [add_sub_cancel_right]; exact su.2.2.2.2
  · rw [sub_add_cancel]; exact sl.2.2.2.2

/-! non-vacuity -/
def exD1 : DPrv ℤ := ⟨#[0, 0, 0, 1, 1, 0, 0, 0], ⟨-6, 8, 8, 1⟩⟩
def exD2 : DPrv ℤ := ⟨#[0, 0, 2, 0, 0, 0, 0, 0], ⟨-8, 6, 8, -1⟩⟩

/-- the hypotheses of `compose_heterogeneous_exact` are satisfiable (N = 8, c = 3, radii 1, counts 2 and 1) -/
example : (∀ d ∈ [exD1, exD2], d.pmf.size = 8) ∧
    (∀ d ∈ [exD1, exD2], ∀ j, d.pmf.getD j 0 ≠ 0 → 8 / 2 - 1 ≤ j + (fun _ => 1) d ∧ j ≤ 8 / 2 - 1 + (fun _ => 1) d) ∧
    weightedRad (fun _ => 1) [exD1, exD2] [2, 1] ≤ 8 / 2 - 1 ∧
    (match composeHeterogeneous [exD1, exD2] [2, 1] with
      | .ok o => o.pmf.toList | .error _ => []) = [0, 0, 2, 4, 2, 0, 0, 0] := by
  refine ⟨by decide, ?_, by decide, by decide⟩
  intro d hd j hj
  simp only [List.mem_cons, List.mem_nil_iff, or_false] at hd
  by_cases hlt : j < 8
  · have hj8 : j = 0 ∨ j = 1 ∨ j = 2 ∨ j = 3 ∨ j = 4 ∨ j = 5 ∨ j = 6 ∨ j = 7 := by omega
    rcases hd with rfl | rfl <;> rcases hj8 with rfl | rfl | rfl | rfl | rfl | rfl | rfl | rfl <;>
      simp_all [exD1, exD2]
  · rcases hd with rfl | rfl <;> exact absurd (getD_eq_zero _ _ (by simp [exD1, exD2]; omega)) hj

-- compute_epsilon non-vacuity over ℝ: grid {0, log 2}, pmf (1/2, 1/2), δ = 1/10
theorem eps_witness : ∃ lo est hi : ℝ,
    computeEpsilon (⟨#[1/2, 1/2], ⟨0, Real.log 2, 2, 0⟩⟩ : DPrv ℝ) 0 (1/10) 0 0 = .triple lo est hi := by
  have hlog : (0:ℝ) < Real.log 2 := Real.log_pos (by norm_num)
  have e2 : Real.exp (Real.log 2) = 2 := Real.exp_log (by norm_num)
  have e2' : Real.exp (-Real.log 2) = 1/2 := by rw [Real.exp_neg, e2]; norm_num
  have t0 : (⟨0, Real.log 2, 2, 0⟩ : Dom ℝ).ts 0 = 0 := by simp [Dom.ts]
  have t1 : (⟨0, Real.log 2, 2, 0⟩ : Dom ℝ).ts 1 = Real.log 2 := by simp [Dom.ts]
  have hf : findEpsilon 2 (⟨0, Real.log 2, 2, 0⟩ : Dom ℝ).ts (fun j => (#[(1/2:ℝ), 1/2] : Array ℝ).getD j 0) (1/10)
      = .ok (Real.log (((1/2:ℝ) - 1/10) / (1/2 * (1/2)))) := by
    have hs : searchsortedLeft (epsTables 2 (⟨0, Real.log 2, 2, 0⟩ : Dom ℝ).ts
        (fun j => (#[(1/2:ℝ), 1/2] : Array ℝ).getD j 0)).ndelta 2 (-(1/10)) = 1 := by
      have n1 : ¬ (epsTables 2 (⟨0, Real.log 2, 2, 0⟩ : Dom ℝ).ts (fun j => (#[(1/2:ℝ), 1/2] : Array ℝ).getD j 0)).ndelta 1 < -(1/10) := by
        simp only [epsTables, rcs, t1, Analytic.exp, e2, e2']; norm_num
      have n0 : (epsTables 2 (⟨0, Real.log 2, 2, 0⟩ : Dom ℝ).ts (fun j => (#[(1/2:ℝ), 1/2] : Array ℝ).getD j 0)).ndelta 0 < -(1/10) := by
        simp only [epsTables, rcs, t0, t1, Analytic.exp, e2']; norm_num
      have key : ∀ nd : ℕ → ℝ, ¬ nd 1 < -(1/10) → nd 0 < -(1/10) → searchsortedLeft nd 2 (-(1/10)) = 1 := by
        intro nd h1 h0
        simp only [searchsortedLeft, bsearch]
        norm_num [h0, h1]
      exact key _ n1 n0
    unfold findEpsilon
    simp only [hs]
    simp only [epsTables, rcs, t1, Analytic.exp, Analytic.log, e2']
    norm_num
  have : computeEpsilon (⟨#[1/2, 1/2], ⟨0, Real.log 2, 2, 0⟩⟩ : DPrv ℝ) 0 (1/10) 0 0 =
      .triple (Real.log (((1/2:ℝ) - 1/10) / (1/2 * (1/2))) - 0) (Real.log (((1/2:ℝ) - 1/10) / (1/2 * (1/2))))
        (Real.log (((1/2:ℝ) - 1/10) / (1/2 * (1/2))) + 0) := by
    unfold computeEpsilon
    rw [if_neg (by norm_num), if_neg (by norm_num)]
    simp only [sub_zero, add_zero, hf]
  exact ⟨_, _, _, this⟩

/-- the hypotheses of `eps_triple_ordered` / `find_epsilon_inverts_hockey_stick` are jointly satisfiable -/
example : ∃ lo est hi : ℝ, lo ≤ est ∧ est ≤ hi ∧
    computeDeltaEstimate (⟨#[1/2, 1/2], ⟨0, Real.log 2, 2, 0⟩⟩ : DPrv ℝ) est = 1/10 := by
  obtain ⟨lo, est, hi, h⟩ := eps_witness
  have hp : ∀ j, 0 ≤ (#[(1/2:ℝ), 1/2] : Array ℝ).getD j 0 := by
    intro j
    match j with
    | 0 => norm_num
    | 1 => norm_num
    | j + 2 => simp
  have hlog : (0:ℝ) < Real.log 2 := Real.log_pos (by norm_num)
  have o := eps_triple_ordered _ 0 (1/10) 0 0 lo est hi hp hlog (le_refl _) (le_refl _) (le_refl _) h
  have i := find_epsilon_inverts_hockey_stick _ 0 (1/10) 0 0 lo est hi hp hlog (le_refl _) h
  exact ⟨lo, est, hi, o.1, o.2, i.1⟩

/-! ## The tie to the source: mesh size, δ split and the last line of `compute_safe_domain_size` (`Generated/PrvDomain.lean`) -/

set_option linter.unusedTactic false in
set_option linter.unreachableTactic false in
/-- `mesh_size`, the two δ arguments handed to the RDP accountant and `max(L_max, eps_error) + 3`, re-translated on every run,
are the model's `meshSize`, the split `δ_err/4`, `δ_err/(8·Σn)` described at `safeDomainSize`, and its last line – so that
`safeFinal` of the running maximum is `safeDomainSize` -/
theorem generated_prv_domain_eq_model (epsError deltaError : ℝ) (total : ℕ) (epsAll : ℝ) (epsEach : List ℝ) :
    Opacus.Generated.PrvDomain.meshSize epsError deltaError (total : ℝ) = meshSize epsError deltaError total ∧
    Opacus.Generated.PrvDomain.deltaAll deltaError (total : ℝ) = deltaError / 4 ∧
    Opacus.Generated.PrvDomain.deltaEach deltaError (total : ℝ) = deltaError / (8 * total) ∧
    Opacus.Generated.PrvDomain.safeFinal (epsEach.foldl (fun acc e => if acc < e then e else acc) epsAll) epsError
      = safeDomainSize epsAll epsEach epsError := by
  refine ⟨?_, ?_, ?_, ?_⟩
  · first
    | rfl
    | (simp only [Opacus.Generated.PrvDomain.meshSize, meshSize, Analytic.sqrt, Analytic.log, Nat.cast_ofNat]; done)
    | (simp only [Opacus.Generated.PrvDomain.meshSize, meshSize, Analytic.sqrt, Analytic.log, Nat.cast_ofNat]; ring_nf; done)
    | (simp only [Opacus.Generated.PrvDomain.meshSize, meshSize, Analytic.sqrt, Analytic.log, Nat.cast_ofNat]; congr 2; ring_nf)
  · unfold Opacus.Generated.PrvDomain.deltaAll; first | rfl | (ring_nf; done) | norm_num
  · unfold Opacus.Generated.PrvDomain.deltaEach; first | rfl | (ring_nf; done) | norm_num
  · simp only [Opacus.Generated.PrvDomain.safeFinal, safeDomainSize, Nat.cast_ofNat]
    generalize epsEach.foldl (fun acc e => if acc < e then e else acc) epsAll = m
    by_cases h : m < epsError
    · have hm : max m epsError = epsError := max_eq_right h.le
      have hm' : max epsError m = epsError := max_eq_left h.le
      simp only [if_pos h, hm, hm']
      first | done | ring_nf
    · have h' : epsError ≤ m := not_lt.mp h
      have hm : max m epsError = m := max_eq_left h'
      have hm' : max epsError m = m := max_eq_right h'
      simp only [if_neg h, hm, hm']
      first | done | ring_nf

end Opacus.C07
