import OpacusLean.Lemmas.GradSample
import OpacusLean.Lemmas.GradSampleConv2
import OpacusLean.Lemmas.GsmPairing
import OpacusLean.Lemmas.HookCover
/-! # C01 — per-sample gradients equal the gradient of each sample taken alone

Part 1: adjoint identities.  For a layer whose forward on one sample is `fwd θ a` (linear in the
parameters θ), the gradient of `ℓ(fwd θ a)` w.r.t. θ is the parameter-VJP `L(a)ᵀ b` with
`b = ∇ℓ`; it is the unique `g` with `⟨b, fwd θ a⟩ = ⟨g, θ⟩` for all θ (`adjoint_unique`).  Each
theorem below states that row `n` of the coded sampler is that `g` for sample `n`, for all shapes
and over every commutative ring. -/
namespace Opacus.C01
open Opacus.GS

variable {R : Type} [CommRing R]

/-! ## nn.Linear / RNNLinear -/

theorem sampler_adjoint_linear {N T O I : Nat}
    (w : Fin O → Fin I → R) (bias : Fin O → R)
    (a : Fin N → Fin T → Fin I → R) (b : Fin N → Fin T → Fin O → R) (n : Fin N) :
    (∑ t, ∑ i, b n t i * linearFwd w bias (a n) t i)
      = (∑ i, ∑ j, linearWeightGS b a n i j * w i j) + ∑ i, linearBiasGS b n i * bias i := by
  simp only [linearFwd, linearWeightGS, linearBiasGS, sumFin_eq_sum, mul_add, Finset.sum_add_distrib,
    Finset.mul_sum, Finset.sum_mul]
  congr 1
  · rw [Finset.sum_comm]
    refine Finset.sum_congr rfl fun i _ => ?_
    rw [Finset.sum_comm]
    refine Finset.sum_congr rfl fun j _ => ?_
    refine Finset.sum_congr rfl fun t _ => ?_
    ring
  · rw [Finset.sum_comm]

/-- bias-free layer (`layer.bias is None`): weight part alone -/
theorem sampler_adjoint_linear_nobias {N T O I : Nat}
    (w : Fin O → Fin I → R) (a : Fin N → Fin T → Fin I → R) (b : Fin N → Fin T → Fin O → R) (n : Fin N) :
    (∑ t, ∑ i, b n t i * linearFwd w (fun _ => 0) (a n) t i)
      = ∑ i, ∑ j, linearWeightGS b a n i j * w i j := by
  simpa using sampler_adjoint_linear w (fun _ => 0) a b n

/-- the sampler returns exactly the entries for parameters that exist and require grad -/
theorem linearGS_keys {N T O I : Nat} (wr : Bool) (br : Option Bool)
    (a : Fin N → Fin T → Fin I → R) (b : Fin N → Fin T → Fin O → R) :
    ((linearGS wr br a b).weight = if wr then some (linearWeightGS b a) else none) ∧
    ((linearGS wr br a b).bias = if br = some true then some (linearBiasGS b) else none) := ⟨rfl, rfl⟩

/-! ## nn.Embedding -/

/-- repaired variant, any `padding_idx` (and as coded when there is no `padding_idx`) -/
theorem sampler_adjoint_embedding {N T V D : Nat} (pad : Option (Fin V))
    (w : Fin V → Fin D → R) (idx : Fin N → Fin T → Fin V) (b : Fin N → Fin T → Fin D → R) (n : Fin N) :
    (∑ t, ∑ d, b n t d * embeddingFwd pad w (idx n) t d)
      = ∑ v, ∑ d, embeddingGS .repaired pad idx b n v d * w v d := by
  simp only [embeddingFwd, embeddingGS, sumFin_eq_sum, true_and]
  -- both sides as a triple sum of `F t d v`
  let F : Fin T → Fin D → Fin V → R := fun t d v =>
    if idx n t = v then (if pad = some v then 0 else b n t d * w v d) else 0
  have hL : ∀ t d, b n t d * (if pad = some (idx n t) then (0 : R) else w (idx n t) d) = ∑ v, F t d v := by
    intro t d
    simp only [F, Finset.sum_ite_eq, Finset.mem_univ, if_true]
    split_ifs <;> simp
  have hR : ∀ v d, (if pad = some v then (0 : R) else ∑ t, if idx n t = v then b n t d else 0) * w v d
      = ∑ t, F t d v := by
    intro v d
    simp only [F]
    split_ifs with h
    · simp
    · rw [Finset.sum_mul]; refine Finset.sum_congr rfl fun t _ => ?_; split_ifs <;> simp
  simp only [hL, hR]
  calc ∑ t, ∑ d, ∑ v, F t d v = ∑ t, ∑ v, ∑ d, F t d v :=
        Finset.sum_congr rfl fun t _ => Finset.sum_comm
    _ = ∑ v, ∑ t, ∑ d, F t d v := Finset.sum_comm
    _ = ∑ v, ∑ d, ∑ t, F t d v := Finset.sum_congr rfl fun v _ => Finset.sum_comm

theorem embedding_asCoded_eq_repaired_of_no_padding {N T V D : Nat}
    (idx : Fin N → Fin T → Fin V) (b : Fin N → Fin T → Fin D → R) :
    embeddingGS .asCoded none idx b = embeddingGS .repaired none idx b := by
  funext n v d; simp [embeddingGS]

/-- the repaired sampler leaves the padding row at zero, as torch's backward does -/
theorem embedding_repaired_padding_row_zero {N T V D : Nat} (p : Fin V)
    (idx : Fin N → Fin T → Fin V) (b : Fin N → Fin T → Fin D → R) (n : Fin N) (d : Fin D) :
    embeddingGS .repaired (some p) idx b n p d = 0 := by
  simp [embeddingGS]

/-- D2 witness (replayed on the real code): `nn.Embedding(2, 1, padding_idx=0)`, one sample `[0]`,
backprop `[[5]]`: as coded the padding row receives 5, torch's gradient there is 0. -/
theorem embedding_padding_counterexample :
    embeddingGS (R := Int) .asCoded (some (0 : Fin 2)) (fun (_ : Fin 1) (_ : Fin 1) => 0)
        (fun _ _ (_ : Fin 1) => 5) 0 0 0 = 5 ∧
    embeddingGS (R := Int) .repaired (some (0 : Fin 2)) (fun (_ : Fin 1) (_ : Fin 1) => 0)
        (fun _ _ (_ : Fin 1) => 5) 0 0 0 = 0 := by decide

/-! ## nn.EmbeddingBag -/

/-- repaired variant (multiplicities counted), both modes, over any field (`x / 0 = 0` matches the
empty bag, for which both sides vanish) -/
theorem sampler_adjoint_embedding_bag {F : Type} [Field F] (mode : BagMode) {N L V D : Nat}
    (w : Fin V → Fin D → F) (index : Fin L → Fin V) (offset : Fin N → Nat) (b : Fin N → Fin D → F)
    (i : Fin N) :
    (∑ d, b i d * embeddingBagFwd Nat.cast mode w index offset i d)
      = ∑ v, ∑ d, embeddingBagGS Nat.cast .repaired mode index offset b i v d * w v d := by
  simp only [embeddingBagFwd, embeddingBagGS, sumFin_eq_sum]
  rw [Finset.sum_comm]
  refine Finset.sum_congr rfl fun d _ => ?_
  have hs : ∀ x y : F, bagScale Nat.cast mode L offset i x * y = bagScale Nat.cast mode L offset i (x * y) := by
    intro x y; cases mode <;> simp [bagScale, div_mul_eq_mul_div]
  have hs' : ∀ x y : F, x * bagScale Nat.cast mode L offset i y = bagScale Nat.cast mode L offset i (x * y) := by
    intro x y; cases mode <;> simp [bagScale, mul_div_assoc]
  have hsum : ∀ (f : Fin L → F), bagScale Nat.cast mode L offset i (∑ l, f l) = ∑ l, bagScale Nat.cast mode L offset i (f l) := by
    intro f; cases mode <;> simp [bagScale, Finset.sum_div]
  have h0 : bagScale Nat.cast mode L offset i (0 : F) = 0 := by cases mode <;> simp [bagScale]
  rw [hs', Finset.mul_sum, hsum]
  simp only [Finset.sum_mul]
  rw [Finset.sum_comm]
  refine Finset.sum_congr rfl fun l _ => ?_
  by_cases hb : inBag L offset i l.val = true
  · simp only [hb, true_and, if_true]
    have : ∀ v, (if index l = v then bagScale Nat.cast mode L offset i (b i d) else 0) * w v d
        = if index l = v then bagScale Nat.cast mode L offset i (b i d) * w v d else 0 := by
      intro v; split_ifs <;> simp
    simp only [this, Finset.sum_ite_eq, Finset.mem_univ, if_true, hs]
  · simp [hb, h0]

/-- D22 witness: one bag `[1, 1]` of `nn.EmbeddingBag(2, 1, mode="sum")`, backprop `[[3]]`:
as coded row 1 receives 3, the gradient is 6. -/
theorem embedding_bag_duplicate_counterexample :
    embeddingBagGS (R := Int) Int.ofNat .asCoded .sum (fun (_ : Fin 2) => (1 : Fin 2))
        (fun (_ : Fin 1) => 0) (fun _ (_ : Fin 1) => 3) 0 1 0 = 3 ∧
    embeddingBagGS (R := Int) Int.ofNat .repaired .sum (fun (_ : Fin 2) => (1 : Fin 2))
        (fun (_ : Fin 1) => 0) (fun _ (_ : Fin 1) => 3) 0 1 0 = 6 := by decide

/-! ## GroupNorm / InstanceNorm / LayerNorm -/

theorem sampler_adjoint_group_norm {N C S : Nat} (w β : Fin C → R)
    (xhat b : Fin N → Fin C → Fin S → R) (n : Fin N) :
    (∑ c, ∑ s, b n c s * normFwd w β (xhat n) c s)
      = (∑ c, normWeightGS xhat b n c * w c) + ∑ c, normBiasGS b n c * β c := by
  simp only [normFwd, normWeightGS, normBiasGS, sumFin_eq_sum, mul_add, Finset.sum_add_distrib,
    Finset.sum_mul]
  congr 1
  refine Finset.sum_congr rfl fun c _ => Finset.sum_congr rfl fun s _ => ?_
  ring

/-- InstanceNorm{1,2,3}d is served by the same formula -/
theorem sampler_adjoint_instance_norm {N C S : Nat} (w β : Fin C → R)
    (xhat b : Fin N → Fin C → Fin S → R) (n : Fin N) :
    (∑ c, ∑ s, b n c s * normFwd w β (xhat n) c s)
      = (∑ c, normWeightGS xhat b n c * w c) + ∑ c, normBiasGS b n c * β c :=
  sampler_adjoint_group_norm w β xhat b n

theorem sampler_adjoint_layer_norm {N M K : Nat} (w β : Fin K → R)
    (xhat b : Fin N → Fin M → Fin K → R) (n : Fin N) :
    (∑ m, ∑ k, b n m k * layerNormFwd w β (xhat n) m k)
      = (∑ k, layerNormWeightGS xhat b n k * w k) + ∑ k, layerNormBiasGS b n k * β k := by
  simp only [layerNormFwd, layerNormWeightGS, layerNormBiasGS, sumFin_eq_sum, mul_add,
    Finset.sum_add_distrib, Finset.sum_mul]
  congr 1
  · rw [Finset.sum_comm]
    refine Finset.sum_congr rfl fun c _ => Finset.sum_congr rfl fun s _ => ?_
    ring
  · rw [Finset.sum_comm]

/-- the repaired LayerNorm sampler never fails and returns the coded formulas -/
theorem layerNormGS_repaired_ok {N M K : Nat} (wr : Bool) (br : Option Bool)
    (xhat b : Fin N → Fin M → Fin K → R) :
    layerNormGS .repaired wr br xhat b = .ok
      { weight := if wr then some (layerNormWeightGS xhat b) else none
        bias := if br = some true then some (layerNormBiasGS b) else none } := by
  cases br <;> rfl

/-- as coded it agrees whenever the layer has a bias … -/
theorem layerNormGS_asCoded_with_bias {N M K : Nat} (wr br : Bool)
    (xhat b : Fin N → Fin M → Fin K → R) :
    layerNormGS .asCoded wr (some br) xhat b = layerNormGS .repaired wr (some br) xhat b := rfl

/-- … and D18: `nn.LayerNorm(bias=False)` makes the coded sampler raise instead of returning the
weight's per-sample gradient -/
theorem layer_norm_nobias_counterexample {N M K : Nat} (xhat b : Fin N → Fin M → Fin K → R) :
    layerNormGS .asCoded true none xhat b = .error .attributeError := rfl

/-! ## SequenceBias -/

theorem sampler_adjoint_sequence_bias {N L E : Nat} (bias : Fin E → R)
    (x : Fin N → Fin L → Fin E → R) (b : Fin N → Fin (L + 1) → Fin E → R) (n : Fin N) :
    (∑ t, ∑ e, b n t e * (sequenceBiasFwd bias (x n) t e - sequenceBiasFwd (fun _ => 0) (x n) t e))
      = ∑ e, sequenceBiasGS b n e * bias e := by
  simp only [sequenceBiasFwd, sequenceBiasGS]
  rw [Fin.sum_univ_castSucc]
  have h1 : ∀ t : Fin L, (∑ e, b n t.castSucc e *
      ((if h : (t.castSucc).val < L then x n ⟨(t.castSucc).val, h⟩ e else bias e) -
       (if h : (t.castSucc).val < L then x n ⟨(t.castSucc).val, h⟩ e else 0))) = 0 := by
    intro t
    refine Finset.sum_eq_zero fun e _ => ?_
    have : (t.castSucc).val < L := by simp
    simp
  simp only [h1, Finset.sum_const_zero, zero_add]
  refine Finset.sum_congr rfl fun e _ => ?_
  simp

/-! ## Convolutions -/

theorem samplerPadMode_eq {v17 : Variant} {mode : PadMode} (h : v17 = .repaired ∨ mode = .zeros) :
    convSamplerPadMode v17 mode = mode := by
  rcases h with h | h
  · subst h; rfl
  · subst h; cases v17 <;> rfl

/-- **Conv2d.**  Row `n` of the coded sampler (F.pad → as_strided view → reshape → einsum → group
diagonal) is the parameter-VJP of sample `n`, for every geometry the layer accepts, provided
(a) the sampler pads like the layer (`padding_mode='zeros'`, or the repaired variant) and
(b) the padded activation is row-major in its last two axes (or the repaired stride list is used). -/
theorem sampler_adjoint_conv2d (v17 v19 : Variant) (c : Conv2dCfg) (st : Strides4)
    (x b w : Nat → Nat → Nat → Nat → R) (bias : Nat → R)
    (hG : c.G * c.Og = c.O) (hC : c.G * c.Cg = c.C) (hs0 : 0 < c.s0) (hs1 : 0 < c.s1) (hfit : c.fits = true)
    (hmode : v17 = .repaired ∨ c.mode = .zeros)
    (hlay : v19 = .repaired ∨ (st.h = c.Wp ∧ st.w = 1))
    (hf : Faithful st c.N c.C c.Hp c.Wp (fun n ch => padded2 c.mode c.H c.W c.pH.1 c.pW.1 (x n ch)))
    {n : Nat} (hn : n < c.N) :
    (∑ o : Fin c.O, ∑ h : Fin c.Ho, ∑ v : Fin c.Wo,
        b n o.val h.val v.val * conv2dFwd c.Og c.Cg c.kH c.kW c.s0 c.s1 c.d0 c.d1 w bias
          (fun ch => padded2 c.mode c.H c.W c.pH.1 c.pW.1 (x n ch)) o.val h.val v.val)
      = (∑ o : Fin c.O, ∑ ci : Fin c.Cg, ∑ kh : Fin c.kH, ∑ kw : Fin c.kW,
          conv2dWeightGS v17 v19 c st x b n o.val ci.val (kh.val * c.kW + kw.val) * w o.val ci.val kh.val kw.val)
        + ∑ o : Fin c.O, conv2dBiasGS c b n o.val * bias o.val := by
  set xp : Nat → Nat → Nat → Nat → R := fun n ch => padded2 c.mode c.H c.W c.pH.1 c.pW.1 (x n ch) with hxp
  -- left side: merge (h,v) into q, rewrite the forward on patches, apply the patch-level adjoint
  have hL : ∀ o : Fin c.O, (∑ h : Fin c.Ho, ∑ v : Fin c.Wo,
        b n o.val h.val v.val * conv2dFwd c.Og c.Cg c.kH c.kW c.s0 c.s1 c.d0 c.d1 w bias (xp n) o.val h.val v.val)
      = ∑ q : Fin c.Q, flattenB2 c.Wo b n o.val q.val *
          convFwdCore c.Og c.Cg c.K (fun o ci k => w o ci (k / c.kW) (k % c.kW)) bias
            (fun p q => window2d c.kH c.kW c.Wo c.d0 c.d1 c.s0 c.s1 xp n p q) o.val q.val := by
    intro o
    rw [← sum_flatten c.Ho c.Wo (fun h v => b n o.val h v *
        conv2dFwd c.Og c.Cg c.kH c.kW c.s0 c.s1 c.d0 c.d1 w bias (xp n) o.val h v)]
    refine Finset.sum_congr rfl fun q _ => ?_
    rw [conv2dFwd_eq_core]; rfl
  have hxp' : (fun ch => padded2 c.mode c.H c.W c.pH.1 c.pW.1 (x n ch)) = xp n := rfl
  rw [hxp']
  simp only [hL]
  rw [convCore_adjoint c.O c.Og c.Cg c.K c.Q _ bias _ (fun o q => flattenB2 c.Wo b n o q)]
  congr 1
  swap
  · simp only [conv2dBiasGS, convBiasGS, sumFin_eq_sum]
  refine Finset.sum_congr rfl fun o _ => Finset.sum_congr rfl fun ci _ => ?_
  -- right side: merge (kh,kw) into k
  rw [← sum_flatten c.kH c.kW (fun kh kw =>
      conv2dWeightGS v17 v19 c st x b n o.val ci.val (kh * c.kW + kw) * w o.val ci.val kh kw)]
  refine Finset.sum_congr rfl fun k _ => ?_
  have hk : k.val / c.kW * c.kW + k.val % c.kW = k.val := by rw [Nat.mul_comm]; exact Nat.div_add_mod _ _
  rw [hk]
  congr 1
  -- the coded weight sampler at (o, ci, k)
  have ho : o.val < c.G * c.Og := by rw [hG]; exact o.isLt
  simp only [conv2dWeightGS, samplerPadMode_eq hmode]
  rw [conv_groups_diag c.G c.Og c.Cg c.K c.Q _ _ n ho ci.isLt k.isLt]
  simp only [convOuter, sumFin_eq_sum]
  refine Finset.sum_congr rfl fun q _ => ?_
  congr 1
  have hg : o.val / c.Og < c.G := by
    have hOg : 0 < c.Og := by
      rcases Nat.eq_zero_or_pos c.Og with h | h
      · rw [h] at ho; simp at ho
      · exact h
    rw [Nat.div_lt_iff_lt_mul hOg]; exact ho
  have hp : (o.val / c.Og * c.Cg + ci.val) * c.K + k.val < c.C * (c.kH * c.kW) := by
    have h1 : o.val / c.Og * c.Cg + ci.val < c.C := by
      rw [← hC]
      calc o.val / c.Og * c.Cg + ci.val < o.val / c.Og * c.Cg + c.Cg := by have := ci.isLt; omega
        _ = (o.val / c.Og + 1) * c.Cg := by ring
        _ ≤ c.G * c.Cg := Nat.mul_le_mul_right _ hg
    have hK : c.K = c.kH * c.kW := rfl
    calc (o.val / c.Og * c.Cg + ci.val) * c.K + k.val < (o.val / c.Og * c.Cg + ci.val) * c.K + c.K := by
          have := k.isLt; omega
      _ = (o.val / c.Og * c.Cg + ci.val + 1) * c.K := by ring
      _ ≤ c.C * c.K := Nat.mul_le_mul_right _ h1
  exact (unfold2d_eq_window v19 c st xp hlay hf hs0 hs1 hfit hn hp q.isLt).symm

/-- **Conv1d** (`unsqueeze`, `F.pad`, torch's `F.unfold`, einsum, group diagonal) -/
theorem sampler_adjoint_conv1d (v17 : Variant) (c : Conv1dCfg)
    (x b w : Nat → Nat → Nat → R) (bias : Nat → R)
    (hG : c.G * c.Og = c.O) (hmode : v17 = .repaired ∨ c.mode = .zeros) (n : Nat) :
    (∑ o : Fin c.O, ∑ v : Fin c.Lo,
        b n o.val v.val * conv1dFwd c.Og c.Cg c.k c.s c.d w bias (fun ch => padded1 c.mode c.L c.p.1 (x n ch)) o.val v.val)
      = (∑ o : Fin c.O, ∑ ci : Fin c.Cg, ∑ kw : Fin c.k,
          conv1dWeightGS v17 c x b n o.val ci.val kw.val * w o.val ci.val kw.val)
        + ∑ o : Fin c.O, conv1dBiasGS c b n o.val * bias o.val := by
  set xp : Nat → Nat → Nat → R := fun n ch => padded1 c.mode c.L c.p.1 (x n ch) with hxp
  have hxp' : (fun ch => padded1 c.mode c.L c.p.1 (x n ch)) = xp n := rfl
  rw [hxp']
  simp only [conv1dFwd_eq_core]
  rw [convCore_adjoint c.O c.Og c.Cg c.k c.Lo w bias _ (fun o q => b n o q)]
  congr 1
  swap
  · simp only [conv1dBiasGS, convBiasGS, sumFin_eq_sum]
  refine Finset.sum_congr rfl fun o _ => Finset.sum_congr rfl fun ci _ => Finset.sum_congr rfl fun k _ => ?_
  congr 1
  have ho : o.val < c.G * c.Og := by rw [hG]; exact o.isLt
  simp only [conv1dWeightGS, samplerPadMode_eq hmode]
  rw [conv_groups_diag c.G c.Og c.Cg c.k c.Lo _ _ n ho ci.isLt k.isLt]
  simp only [convOuter, sumFin_eq_sum]
  rfl

/-- **Conv3d** (`unfold3d`, einsum, group diagonal) -/
theorem sampler_adjoint_conv3d (v17 : Variant) (c : Conv3dCfg)
    (x b w : Nat → Nat → Nat → Nat → Nat → R) (bias : Nat → R)
    (hG : c.G * c.Og = c.O) (hmode : v17 = .repaired ∨ c.mode = .zeros) (n : Nat) :
    (∑ o : Fin c.O, ∑ z : Fin c.Do, ∑ h : Fin c.Ho, ∑ v : Fin c.Wo,
        b n o.val z.val h.val v.val * conv3dFwd c.Og c.Cg c.kD c.kH c.kW c.s0 c.s1 c.s2 c.d0 c.d1 c.d2 w bias
          (fun ch => padded3 c.mode c.D c.H c.W c.pD.1 c.pH.1 c.pW.1 (x n ch)) o.val z.val h.val v.val)
      = (∑ o : Fin c.O, ∑ ci : Fin c.Cg, ∑ kd : Fin c.kD, ∑ kh : Fin c.kH, ∑ kw : Fin c.kW,
          conv3dWeightGS v17 c x b n o.val ci.val ((kd.val * c.kH + kh.val) * c.kW + kw.val) * w o.val ci.val kd.val kh.val kw.val)
        + ∑ o : Fin c.O, conv3dBiasGS c b n o.val * bias o.val := by
  set xp : Nat → Nat → Nat → Nat → Nat → R :=
    fun n ch => padded3 c.mode c.D c.H c.W c.pD.1 c.pH.1 c.pW.1 (x n ch) with hxp
  have hxp' : (fun ch => padded3 c.mode c.D c.H c.W c.pD.1 c.pH.1 c.pW.1 (x n ch)) = xp n := rfl
  rw [hxp']
  have hL : ∀ o : Fin c.O, (∑ z : Fin c.Do, ∑ h : Fin c.Ho, ∑ v : Fin c.Wo,
        b n o.val z.val h.val v.val * conv3dFwd c.Og c.Cg c.kD c.kH c.kW c.s0 c.s1 c.s2 c.d0 c.d1 c.d2 w bias (xp n) o.val z.val h.val v.val)
      = ∑ q : Fin c.Q, flattenB3 c.Ho c.Wo b n o.val q.val *
          convFwdCore c.Og c.Cg c.K (fun o ci k => w o ci (k / (c.kH * c.kW)) (k / c.kW % c.kH) (k % c.kW)) bias
            (fun p q => window3d c.kD c.kH c.kW c.Ho c.Wo c.s0 c.s1 c.s2 c.d0 c.d1 c.d2 xp n p q) o.val q.val := by
    intro o
    rw [← sum_flatten3 c.Do c.Ho c.Wo (fun z h v => b n o.val z h v *
        conv3dFwd c.Og c.Cg c.kD c.kH c.kW c.s0 c.s1 c.s2 c.d0 c.d1 c.d2 w bias (xp n) o.val z h v)]
    refine Finset.sum_congr rfl fun q _ => ?_
    rw [conv3dFwd_eq_core]; rfl
  simp only [hL]
  rw [convCore_adjoint c.O c.Og c.Cg c.K c.Q _ bias _ (fun o q => flattenB3 c.Ho c.Wo b n o q)]
  congr 1
  swap
  · simp only [conv3dBiasGS, convBiasGS, sumFin_eq_sum]
  refine Finset.sum_congr rfl fun o _ => Finset.sum_congr rfl fun ci _ => ?_
  rw [← sum_flatten3 c.kD c.kH c.kW (fun kd kh kw =>
      conv3dWeightGS v17 c x b n o.val ci.val ((kd * c.kH + kh) * c.kW + kw) * w o.val ci.val kd kh kw)]
  refine Finset.sum_congr rfl fun k _ => ?_
  rw [recompose3]
  congr 1
  have ho : o.val < c.G * c.Og := by rw [hG]; exact o.isLt
  simp only [conv3dWeightGS, conv3dUnfolded, samplerPadMode_eq hmode]
  rw [conv_groups_diag c.G c.Og c.Cg c.K c.Q _ _ n ho ci.isLt k.isLt]
  simp only [convOuter, sumFin_eq_sum, unfold3d_eq_window]
  rfl

/-! ## `unfold2d`: the `as_strided` view -/

/-- **as_strided_unfold2d_eq** (as coded): if the padded tensor is row-major in its last two axes,
the view built from `[W_pad·d₀, d₁, W_pad·s₀, s₁]` is the window `x_pad[n][c][h·s₀+kh·d₀][w·s₁+kw·d₁]`,
and that cell lies inside the padded tensor (nothing outside the buffer is read). -/
theorem as_strided_unfold2d_eq {S : Type} [Zero S] (c : Conv2dCfg) (st : Strides4) (xp : Nat → Nat → Nat → Nat → S)
    (hrow : st.h = c.Wp ∧ st.w = 1) (hf : Faithful st c.N c.C c.Hp c.Wp xp)
    (hs0 : 0 < c.s0) (hs1 : 0 < c.s1) (hfit : c.fits = true)
    {n ch kh kw h v : Nat} (hn : n < c.N) (hc : ch < c.C) (hkh : kh < c.kH) (hkw : kw < c.kW)
    (hh : h < c.Ho) (hv : v < c.Wo) :
    unfold2dView .asCoded st c.Wp c.d0 c.d1 c.s0 c.s1 (memOf st c.N c.C c.Hp c.Wp xp) n ch kh kw h v
        = xp n ch (h * c.s0 + kh * c.d0) (v * c.s1 + kw * c.d1)
      ∧ h * c.s0 + kh * c.d0 < c.Hp ∧ v * c.s1 + kw * c.d1 < c.Wp := by
  simp only [Conv2dCfg.fits, Bool.and_eq_true, decide_eq_true_eq] at hfit
  have hi := window_in_range hs0 hfit.1 hh hkh
  have hj := window_in_range hs1 hfit.2 hv hkw
  refine ⟨?_, hi, hj⟩
  rw [unfold2dView_asCoded st _ _ _ _ _ _ hrow, memOf_addr st _ _ _ _ xp hf hn hc hi hj]

/-- the repaired stride list `[s_H·d₀, s_W·d₁, s_H·s₀, s_W·s₁]` is correct for EVERY layout -/
theorem as_strided_unfold2d_eq_repaired {S : Type} [Zero S] (c : Conv2dCfg) (st : Strides4) (xp : Nat → Nat → Nat → Nat → S)
    (hf : Faithful st c.N c.C c.Hp c.Wp xp)
    (hs0 : 0 < c.s0) (hs1 : 0 < c.s1) (hfit : c.fits = true)
    {n ch kh kw h v : Nat} (hn : n < c.N) (hc : ch < c.C) (hkh : kh < c.kH) (hkw : kw < c.kW)
    (hh : h < c.Ho) (hv : v < c.Wo) :
    unfold2dView .repaired st c.Wp c.d0 c.d1 c.s0 c.s1 (memOf st c.N c.C c.Hp c.Wp xp) n ch kh kw h v
        = xp n ch (h * c.s0 + kh * c.d0) (v * c.s1 + kw * c.d1)
      ∧ h * c.s0 + kh * c.d0 < c.Hp ∧ v * c.s1 + kw * c.d1 < c.Wp := by
  simp only [Conv2dCfg.fits, Bool.and_eq_true, decide_eq_true_eq] at hfit
  have hi := window_in_range hs0 hfit.1 hh hkh
  have hj := window_in_range hs1 hfit.2 hv hkw
  refine ⟨?_, hi, hj⟩
  rw [unfold2dView_repaired, memOf_addr st _ _ _ _ xp hf hn hc hi hj]

/-- contiguous and channels_last storage satisfy the `Faithful` hypothesis for every tensor -/
theorem faithful_layouts {S : Type} (N C H W : Nat) (xp : Nat → Nat → Nat → Nat → S) :
    Faithful (Strides4.rowMajor C H W) N C H W xp ∧ Faithful (Strides4.channelsLast C H W) N C H W xp :=
  ⟨faithful_rowMajor N C H W xp, faithful_channelsLast N C H W xp⟩

/-- the D19 geometry: `nn.Conv2d(2,1,1)` on a `1×2×2×2` activation -/
def cfgD19 : Conv2dCfg := ⟨1, 2, 1, 1, 2, 2, 1, 1, 1, 1, 1, 1, .explicit 0, .explicit 0, .zeros⟩
/-- `arange(1..8).reshape(1,2,2,2)` and the cotangent `[1,10,100,1000]` -/
def xD19 : Nat → Nat → Nat → Nat → Int := fun _ c i j => ((c * 2 + i) * 2 + j + 1 : Nat)
def bD19 : Nat → Nat → Nat → Nat → Int := fun _ _ i j => (10 : Int) ^ (i * 2 + j)

/-- D19 witness (replayed on the real code): the same activation stored `channels_last`.  As coded
the per-sample weight gradient is `[6251, 3625]`; the gradient (and the repaired variant, and the
coded variant on contiguous storage) is `[4321, 8765]`. -/
theorem unfold2d_channels_last_counterexample :
    (conv2dWeightGS .asCoded .asCoded cfgD19 (Strides4.channelsLast 2 2 2) xD19 bD19 0 0 0 0 = 6251 ∧
     conv2dWeightGS .asCoded .asCoded cfgD19 (Strides4.channelsLast 2 2 2) xD19 bD19 0 0 1 0 = 3625) ∧
    (conv2dWeightGS .asCoded .repaired cfgD19 (Strides4.channelsLast 2 2 2) xD19 bD19 0 0 0 0 = 4321 ∧
     conv2dWeightGS .asCoded .repaired cfgD19 (Strides4.channelsLast 2 2 2) xD19 bD19 0 0 1 0 = 8765) ∧
    (conv2dWeightGS .asCoded .asCoded cfgD19 (Strides4.rowMajor 2 2 2) xD19 bD19 0 0 0 0 = 4321 ∧
     conv2dWeightGS .asCoded .asCoded cfgD19 (Strides4.rowMajor 2 2 2) xD19 bD19 0 0 1 0 = 8765) := by
  decide +kernel

/-- the D17 geometry: `nn.Conv2d(1,1,2,padding=1,padding_mode='reflect')` on `[[1,2],[3,4]]` -/
def cfgD17 : Conv2dCfg := ⟨1, 1, 1, 1, 2, 2, 2, 2, 1, 1, 1, 1, .explicit 1, .explicit 1, .reflect⟩
def xD17 : Nat → Nat → Nat → Nat → Int := fun _ _ i j => (i * 2 + j + 1 : Nat)

/-- D17 witness (replayed on the real code), cotangent all ones: as coded the sampler unfolds the
zero-padded activation: `[10,10,10,10]`; with the layer's reflect padding the gradient is `[27,24,21,18]`. -/
theorem conv_padding_mode_counterexample :
    (∀ kh kw : Fin 2, conv2dWeightGS .asCoded .asCoded cfgD17 (Strides4.rowMajor 1 4 4) xD17 (fun _ _ _ _ => 1) 0 0 0 (kh.val * 2 + kw.val) = 10) ∧
    (conv2dWeightGS .repaired .asCoded cfgD17 (Strides4.rowMajor 1 4 4) xD17 (fun _ _ _ _ => 1) 0 0 0 0 = 27 ∧
     conv2dWeightGS .repaired .asCoded cfgD17 (Strides4.rowMajor 1 4 4) xD17 (fun _ _ _ _ => 1) 0 0 0 1 = 24 ∧
     conv2dWeightGS .repaired .asCoded cfgD17 (Strides4.rowMajor 1 4 4) xD17 (fun _ _ _ _ => 1) 0 0 0 2 = 21 ∧
     conv2dWeightGS .repaired .asCoded cfgD17 (Strides4.rowMajor 1 4 4) xD17 (fun _ _ _ _ => 1) 0 0 0 3 = 18) := by
  decide +kernel

/-- non-vacuity of `sampler_adjoint_conv2d`: a grouped, strided, dilated, 'same'-free geometry that
satisfies every hypothesis on contiguous storage -/
example : let c : Conv2dCfg := ⟨2, 4, 6, 2, 5, 6, 2, 3, 2, 1, 1, 2, .explicit 1, .same, .zeros⟩
    c.G * c.Og = c.O ∧ c.G * c.Cg = c.C ∧ 0 < c.s0 ∧ 0 < c.s1 ∧ c.fits = true ∧
    (Strides4.rowMajor c.C c.Hp c.Wp).h = c.Wp ∧ (Strides4.rowMajor c.C c.Hp c.Wp).w = 1 := by decide

/-! ## Part 2: the hook bookkeeping of `GradSampleModule` (`hooks_pairing`)

`Opacus.GSM` models `capture_activations_hook` / `capture_backprops_hook` /
`create_or_accumulate_grad_sample` / `promote_current_grad_sample` with their per-module activation
stacks, per-parameter `_forward_counter` / `_current_grad_sample`, and `max_batch_len`.  A forward
pass is ANY list of uses `(module, activation, cotangent)` – a module may occur several times (reused
layer, recurrent cell) and a parameter may belong to several modules (tied weights). -/
section hooks
open Opacus.GSM
variable {A B G : Type} [Add G] [Zero G]

/-- **hooks_pairing.**  From every quiescent state, for every pass whose backward hooks arrive in the
reverse order of the forward hooks (autograd contract), every batch length `Bn` and every sampler
returning `Bn` rows: no error is raised, all stacks / counters / accumulators are back to rest, and
`p.grad_sample` is promoted with ONE tensor of `Bn` rows whose row `i` is the sum – in backward
order – of row `i` of `sampler(activation of use u, cotangent of THE SAME use u [× Bn for mean
reduction])` over exactly the uses `u` of modules owning `p`.  Parameters without a use are
untouched. -/
theorem hooks_pairing (S : Static) (smul : Nat → B → B) (samp : Nat → A → B → Nat → Rows G) (Bn : Nat)
    (σ₀ : State A G) (hq : Quiescent σ₀)
    (hacc : σ₀.accumAllowed = true ∨ ∀ p, σ₀.gradSample p = .none)
    (hrows : ∀ m a b p, (samp m a b p).n = Bn) (us : List (Use A B))
    (hne : ∀ u ∈ us, (S.params u.m).isEmpty = false) :
    let σ := run S smul samp σ₀ (fwdOps Bn us ++ bwdOps us)
    σ.err = none ∧ (∀ m, σ.maxLen m = none) ∧ (∀ p, σ.counter p = 0 ∧ σ.current p = none) ∧
    (∀ m, us.any (fun u => u.m == m) = true → σ.acts m = some []) ∧
    ∀ p, σ.gradSample p =
      match (us.filter (usesP S p)).reverse with
      | [] => σ₀.gradSample p
      | u :: rest => promote (σ₀.gradSample p)
          ⟨Bn, fun i => if i < Bn then
            rest.foldl (fun acc v => acc + (contrib S smul samp Bn v p).row i) ((contrib S smul samp Bn u p).row i)
          else 0⟩ := by
  intro σ
  have hσ : σ = stateOf S smul samp Bn σ₀ [] us := run_pass S smul samp Bn σ₀ hq hacc hrows us hne
  rw [hσ]
  refine ⟨rfl, fun m => by simp [stateOf], fun p => ⟨by simp [stateOf], by simp [stateOf]⟩, ?_, ?_⟩
  · intro m hm
    simp only [stateOf, List.nil_append, hm, if_true, List.filter_nil, List.map_nil]
  · intro p
    simp only [stateOf, List.any_nil, Bool.not_false, Bool.true_and]
    cases hrev : (us.filter (usesP S p)).reverse with
    | nil =>
      have hf : us.filter (usesP S p) = [] := by simpa using hrev
      have hany : us.any (usesP S p) = false := by
        cases h : us.any (usesP S p) with
        | false => rfl
        | true =>
          obtain ⟨v, hv, hvp⟩ := List.any_eq_true.mp h
          have : v ∈ us.filter (usesP S p) := List.mem_filter.mpr ⟨hv, hvp⟩
          rw [hf] at this; cases this
      simp [hany]
    | cons u rest =>
      have hany : us.any (usesP S p) = true := by
        have hu : u ∈ us.filter (usesP S p) := by
          have : u ∈ (us.filter (usesP S p)).reverse := by rw [hrev]; exact List.mem_cons_self
          simpa using this
        exact List.any_eq_true.mpr ⟨u, (List.mem_filter.mp hu).1, (List.mem_filter.mp hu).2⟩
      have hdone : done S smul samp Bn us p
          = contrib S smul samp Bn u p :: rest.map (fun v => contrib S smul samp Bn v p) := by
        simp [done, hrev]
      have hcl := accRows_closed Bn (contrib S smul samp Bn u p)
        (rest.map (fun v => contrib S smul samp Bn v p)) (hrows _ _ _ _)
        (by intro c hc; simp only [List.mem_map] at hc; obtain ⟨v, _, rfl⟩ := hc; exact hrows _ _ _ _)
      simp only [hany, if_true, hdone, hcl, List.foldl_map]

/-- non-vacuity: the initial state is quiescent and allows accumulation -/
example : Quiescent (State.init : State A G) ∧ (State.init : State A G).accumAllowed = true :=
  ⟨⟨fun _ => Or.inl rfl, fun _ => rfl, fun _ => rfl, fun _ => rfl, rfl, rfl⟩, rfl⟩

/-- **mean_rescale**: under mean reduction the cotangent handed to the sampler is the hook's
cotangent times the batch length `Bn` (the `1/Bn` of the mean undone), under sum reduction it is
the cotangent itself. -/
theorem mean_rescale (S : Static) (smul : Nat → B → B) (samp : Nat → A → B → Nat → Rows G) (Bn : Nat)
    (u : Use A B) (p : Nat) :
    contrib S smul samp Bn u p = samp u.m u.a (if S.lossMean then smul Bn u.b else u.b) p := rfl

end hooks

/-! ## Part 3: which modules are hooked (`hooked_cover`) -/
section cover
open Opacus.HookCover

/-- **hooked_cover** (∀ module trees in which the own parameters of a DPRNN / DPLSTM / DPGRU wrapper are
aliases of its cells' parameters, ∀ registries): the units `GradSampleModule` hooks – a module with a
registered sampler serves its own trainable parameters, a module without one becomes a single
functorch unit for its whole subtree and is not descended into, the RNN wrappers are walked through
– together list exactly the trainable parameters of the model (a permutation of
`module.parameters()`); with distinct parameter objects no two units share one.  So every trainable
parameter gets its `grad_sample` from exactly one hooked unit. -/
theorem hooked_cover (m : Mod) (h : wellFormed m = true) :
    ((units m).flatten).Perm (allParams m)
    ∧ ((allParams m).Nodup →
        (∀ p, p ∈ allParams m ↔ ∃ u ∈ units m, p ∈ u) ∧ (units m).Pairwise List.Disjoint) :=
  ⟨cover m h, units_partition m h⟩

/-- non-vacuity: Sequential(Linear[0,1], Custom[2]{Linear[3]}, DPLSTM[4,5]{cell[5,4]}, frozen Linear) -/
example :
    let t : Mod := .node [] false false
      [.node [0, 1] true false [], .node [2] false false [.node [3] true false []],
       .node [4, 5] false true [.node [5, 4] true false []], .node [] true false []]
    wellFormed t = true ∧ units t = [[0, 1], [2, 3], [5, 4]] ∧ allParams t = [0, 1, 2, 3, 4, 5] := by
  decide

end cover

end Opacus.C01
